// Helpers shared by the hunt demos: plain gRPC Tso requests against a member of a tests.TestCluster.
package tsohunt

import (
	"context"
	"fmt"
	"testing"
	"time"

	"github.com/pingcap/kvproto/pkg/pdpb"
	"github.com/tikv/pd/pkg/grpcutil"
	"github.com/tikv/pd/pkg/tsoutil"
	"github.com/tikv/pd/tests"
	"google.golang.org/grpc"
)

func mustTSO(t *testing.T, cluster *tests.TestCluster, srv *tests.TestServer, dc string, count uint32) *pdpb.Timestamp {
	t.Helper()
	ts, err := tryTSO(cluster, srv, dc, count)
	if err != nil {
		t.Fatalf("tso request (%s, %d) to %s failed: %v", dc, count, srv.GetConfig().Name, err)
	}
	return ts
}

func tryTSO(cluster *tests.TestCluster, srv *tests.TestServer, dc string, count uint32) (*pdpb.Timestamp, error) {
	conn, err := grpc.Dial(trimScheme(srv.GetAddr()), grpc.WithInsecure())
	if err != nil {
		return nil, err
	}
	defer conn.Close()
	ctx, cancel := context.WithTimeout(context.Background(), 10*time.Second)
	defer cancel()
	ctx = grpcutil.BuildForwardContext(ctx, srv.GetAddr())
	stream, err := pdpb.NewPDClient(conn).Tso(ctx)
	if err != nil {
		return nil, err
	}
	defer stream.CloseSend()
	if err = stream.Send(&pdpb.TsoRequest{
		Header:     &pdpb.RequestHeader{ClusterId: srv.GetClusterID()},
		Count:      count,
		DcLocation: dc,
	}); err != nil {
		return nil, err
	}
	resp, err := stream.Recv()
	if err != nil {
		return nil, err
	}
	return resp.GetTimestamp(), nil
}

func trimScheme(addr string) string {
	for _, p := range []string{"http://", "https://"} {
		if len(addr) > len(p) && addr[:len(p)] == p {
			return addr[len(p):]
		}
	}
	return addr
}

func waitFor(t *testing.T, what string, timeout time.Duration, f func() bool) {
	t.Helper()
	deadline := time.Now().Add(timeout)
	for time.Now().Before(deadline) {
		if f() {
			return
		}
		time.Sleep(100 * time.Millisecond)
	}
	t.Fatalf("timed out waiting for %s", what)
}

func sleepUntil(t0 time.Time, d time.Duration) {
	if rest := time.Until(t0.Add(d)); rest > 0 {
		time.Sleep(rest)
	}
}

func tsoOnConn(conn *grpc.ClientConn, srv *tests.TestServer, dc string, count uint32) (*pdpb.Timestamp, error) {
	ctx, cancel := context.WithTimeout(context.Background(), 5*time.Second)
	defer cancel()
	stream, err := pdpb.NewPDClient(conn).Tso(ctx)
	if err != nil {
		return nil, err
	}
	defer stream.CloseSend()
	if err = stream.Send(&pdpb.TsoRequest{
		Header:     &pdpb.RequestHeader{ClusterId: srv.GetClusterID()},
		Count:      count,
		DcLocation: dc,
	}); err != nil {
		return nil, err
	}
	r, err := stream.Recv()
	if err != nil {
		return nil, err
	}
	return r.GetTimestamp(), nil
}

func show(ts *pdpb.Timestamp) string {
	return fmt.Sprintf("(physical %d, logical %d, suffix-bits %d) ts=%d", ts.Physical, ts.Logical, ts.SuffixBits, tsoutil.GenerateTS(ts))
}
