// Demo for hunt finding 3 (property C05): a member that becomes PD leader serves Global TSO requests as soon as the
// Global TSO Allocator is initialized, but refreshes its view of the cluster's dc-locations (and of the suffix bits)
// only after the raft cluster has been loaded ("go ClusterDCLocationChecker()" at the end of campaignLeader). A
// dc-location that joined after the member's last one-minute ClusterDCLocationChecker tick is unknown to it: the Global
// TSOs it hands out until then are not synchronized with that dc-location's Local TSO Allocator.
//
// Nothing is injected: three real servers (embedded etcd), the leader transfer HTTP API, real gRPC Tso streams.
package tsohunt

import (
	"context"
	"net/http"
	"sync"
	"testing"
	"time"

	"github.com/pingcap/kvproto/pkg/pdpb"
	"github.com/tikv/pd/pkg/tsoutil"
	"github.com/tikv/pd/server/config"
	"github.com/tikv/pd/server/tso"
	"github.com/tikv/pd/tests"
	"google.golang.org/grpc"
)

// Time line (the members' own one-minute ClusterDCLocationChecker ticks drive it):
//
//	T      pd1 (dc-1) starts alone: PD leader and Local TSO Allocator leader of dc-1.
//	T+25s  pd2 (dc-1) joins; the PD leadership is moved to pd2, dc-1 stays on pd1.
//	T+60s  pd1's tick.
//	T+63s  pd3 (dc-2) joins; at the latest at pd2's tick (~T+87s) the PD leader pd2 gives dc-2 a suffix and dc-2 is served
//	       (by pd2 or pd3). pd1 will not hear of dc-2 before its next tick at T+120s.
//	then   the PD leadership is transferred to pd1 (pd-ctl member leader transfer pd1).
//
// Clients keep asking pd1 for Global TSOs and, after each answer, the dc-2 allocator for a Local TSO.
func TestGlobalTSOOfNewPDLeaderThatMissedADCLocation(t *testing.T) {
	ctx, cancel := context.WithCancel(context.Background())
	defer cancel()
	cluster, err := tests.NewTestCluster(ctx, 1, func(conf *config.Config, serverName string) {
		conf.EnableLocalTSO = true
		conf.Labels[config.ZoneLabel] = "dc-1"
	})
	if err != nil {
		t.Fatal(err)
	}
	defer cluster.Destroy()
	t0 := time.Now()
	if err = cluster.RunInitialServers(); err != nil {
		t.Fatal(err)
	}
	if cluster.WaitLeader() == "" {
		t.Fatal("no pd leader")
	}
	pd1 := cluster.GetServer("pd1")
	waitFor(t, "dc-1 allocator leader on pd1", 20*time.Second, func() bool { return pd1.IsAllocatorLeader("dc-1") })

	sleepUntil(t0, 25*time.Second)
	pd2, err := cluster.Join(ctx, func(conf *config.Config, serverName string) {
		conf.EnableLocalTSO = true
		conf.Labels[config.ZoneLabel] = "dc-1"
	})
	if err != nil {
		t.Fatal(err)
	}
	if err = pd2.Run(); err != nil {
		t.Fatal(err)
	}
	time.Sleep(2 * time.Second)
	if err = pd1.ResignLeader(); err != nil {
		t.Fatal(err)
	}
	waitFor(t, "pd2 to become pd leader", 30*time.Second, func() bool { return pd2.IsLeader() })

	sleepUntil(t0, 63*time.Second)
	pd3, err := cluster.Join(ctx, func(conf *config.Config, serverName string) {
		conf.EnableLocalTSO = true
		conf.Labels[config.ZoneLabel] = "dc-2"
	})
	if err != nil {
		t.Fatal(err)
	}
	if err = pd3.Run(); err != nil {
		t.Fatal(err)
	}
	t.Logf("T+%.0fs: pd3 (dc-2) joined", time.Since(t0).Seconds())
	servers := []*tests.TestServer{pd1, pd2, pd3}
	dc2Server := func() *tests.TestServer {
		for _, s := range servers {
			if s.IsAllocatorLeader("dc-2") {
				return s
			}
		}
		return nil
	}
	waitFor(t, "dc-2 to be served and synchronized Global TSOs to work", 50*time.Second, func() bool {
		if dc2Server() == nil {
			return false
		}
		g, err := tryTSO(cluster, pd2, tso.GlobalDCLocation, 1)
		return err == nil && g.GetSuffixBits() == 2
	})
	dc2 := dc2Server()
	_, pd1Knows := pd1.GetTSOAllocatorManager().GetClusterDCLocations()["dc-2"]
	t.Logf("T+%.0fs: dc-2 is served by %s; pd1 knows dc-2: %v", time.Since(t0).Seconds(), dc2.GetConfig().Name, pd1Knows)
	if pd1Knows || dc2 == pd1 {
		t.Skip("inconclusive run: pd1 already knows dc-2 or serves it (with the repair of finding 1 applied the Global TSO synchronization has told it)")
	}
	// sanity before the hand-over
	g0 := mustTSO(t, cluster, pd2, tso.GlobalDCLocation, 10)
	l0 := mustTSO(t, cluster, dc2, "dc-2", 1)
	if tsoutil.GenerateTS(l0) <= tsoutil.GenerateTS(g0) {
		t.Fatalf("unexpected: before the hand-over local %s <= global %s", show(l0), show(g0))
	}

	// The clients.
	type pair struct {
		at   time.Duration
		g, l *pdpb.Timestamp
	}
	var (
		mu         sync.Mutex
		pairs      int
		unsynced   int
		violations []pair
		wg         sync.WaitGroup
	)
	stop := make(chan struct{})
	for i := 0; i < 64; i++ {
		wg.Add(1)
		go func(i int) {
			defer wg.Done()
			gConn, err := grpc.Dial(trimScheme(pd1.GetAddr()), grpc.WithInsecure())
			if err != nil {
				return
			}
			defer gConn.Close()
			lConn, err := grpc.Dial(trimScheme(dc2.GetAddr()), grpc.WithInsecure())
			if err != nil {
				return
			}
			defer lConn.Close()
			time.Sleep(time.Duration(i) * 50 * time.Microsecond)
			for {
				select {
				case <-stop:
					return
				default:
				}
				g, err := tsoOnConn(gConn, pd1, tso.GlobalDCLocation, 10)
				if err != nil {
					time.Sleep(3 * time.Millisecond)
					continue
				}
				// requested after the Global TSO was returned
				l, err := tsoOnConn(lConn, dc2, "dc-2", 1)
				if err != nil {
					continue
				}
				mu.Lock()
				pairs++
				if g.GetSuffixBits() < 2 {
					unsynced++
				}
				if tsoutil.GenerateTS(l) <= tsoutil.GenerateTS(g) && len(violations) < 5 {
					violations = append(violations, pair{time.Since(t0), g, l})
				}
				mu.Unlock()
				time.Sleep(time.Millisecond)
			}
		}(i)
	}

	// pd-ctl member leader transfer pd1
	resp, err := http.Post(pd2.GetAddr()+"/pd/api/v1/leader/transfer/pd1", "application/json", nil)
	if err != nil {
		t.Fatal(err)
	}
	resp.Body.Close()
	if resp.StatusCode != http.StatusOK {
		t.Fatalf("leader transfer: %s", resp.Status)
	}
	waitFor(t, "pd1 to become pd leader", 30*time.Second, func() bool { return pd1.IsLeader() })
	t.Logf("T+%.0fs: pd1 is pd leader", time.Since(t0).Seconds())
	time.Sleep(5 * time.Second)
	close(stop)
	wg.Wait()

	t.Logf("%d (Global TSO from pd1, then Local TSO of dc-2) pairs; %d Global TSOs carried fewer than 2 suffix bits; %d violations",
		pairs, unsynced, len(violations))
	for _, v := range violations {
		t.Errorf("T+%.2fs: Local TSO of dc-2 requested AFTER the Global TSO was returned is not greater:\n  global = %s\n  local  = %s",
			v.at.Seconds(), show(v.g), show(v.l))
	}
}
