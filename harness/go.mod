module pdverif

go 1.16

require (
	github.com/coreos/go-semver v0.3.0
	github.com/gogo/protobuf v1.3.1
	github.com/pingcap/kvproto v0.0.0-20210604082642-dda0a102bc6a
	github.com/pingcap/log v0.0.0-20210317133921-96f4fcab92a4
	github.com/tikv/pd v0.0.0
	go.etcd.io/etcd v0.5.0-alpha.5.0.20191023171146-3cf2f69b5738
	go.uber.org/zap v1.16.0
	google.golang.org/grpc v1.26.0
)

replace github.com/tikv/pd => /repo
