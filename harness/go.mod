module pdverif

go 1.16

require (
	github.com/tikv/pd v0.0.0
	go.etcd.io/etcd v0.5.0-alpha.5.0.20191023171146-3cf2f69b5738
)

replace github.com/tikv/pd => /repo
