// Package pdcluster starts several real PD servers in one process (embedded etcd members of one cluster), for the
// phases of the drivers that need more than one member: leadership hand-over under load, members with different settings.
package pdcluster

import (
	"context"
	"fmt"
	"os"
	"strings"
	"sync"
	"time"

	"github.com/tikv/pd/server"
	"github.com/tikv/pd/server/config"

	"pdverif/internal/srv15"
)

type Node struct {
	S      *server.Server
	Cfg    *config.Config
	cancel context.CancelFunc
}

type Cluster struct{ Nodes []*Node }

// Start brings up n members; adjust (may be nil) edits each member's configuration before it starts.
func Start(n int, adjust func(i int, cfg *config.Config)) (*Cluster, error) {
	cfgs := make([]*config.Config, n)
	var peers []string
	for i := 0; i < n; i++ {
		cfg, err := srv15.Config()
		if err != nil {
			return nil, err
		}
		cfg.Name = fmt.Sprintf("pd%d", i+1)
		if adjust != nil {
			adjust(i, cfg)
		}
		cfgs[i] = cfg
		peers = append(peers, fmt.Sprintf("%s=%s", cfg.Name, cfg.PeerUrls))
	}
	for _, c := range cfgs {
		c.InitialCluster = strings.Join(peers, ",")
	}
	c := &Cluster{Nodes: make([]*Node, n)}
	errs := make([]error, n)
	var wg sync.WaitGroup
	for i := range cfgs {
		wg.Add(1)
		go func(i int) {
			defer wg.Done()
			ctx, cancel := context.WithCancel(context.Background())
			s, err := server.CreateServer(ctx, cfgs[i])
			if err == nil {
				err = s.Run()
			}
			srv15.Quiet()
			if err != nil {
				cancel()
				errs[i] = err
				return
			}
			c.Nodes[i] = &Node{S: s, Cfg: cfgs[i], cancel: cancel}
		}(i)
	}
	wg.Wait()
	for _, e := range errs {
		if e != nil {
			c.Close()
			return nil, e
		}
	}
	return c, nil
}

func (c *Cluster) Close() {
	for _, x := range c.Nodes {
		if x == nil {
			continue
		}
		x.S.Close()
		x.cancel()
		os.RemoveAll(x.Cfg.DataDir)
	}
}

// Leader returns the member that currently is PD leader (nil when there is none).
func (c *Cluster) Leader() *Node {
	for _, x := range c.Nodes {
		if x != nil && !x.S.IsClosed() && x.S.GetMember().IsLeader() {
			return x
		}
	}
	return nil
}

// WaitLeader waits until some member is PD leader.
func (c *Cluster) WaitLeader(d time.Duration) *Node {
	deadline := time.Now().Add(d)
	for time.Now().Before(deadline) {
		if l := c.Leader(); l != nil {
			return l
		}
		time.Sleep(20 * time.Millisecond)
	}
	return nil
}
