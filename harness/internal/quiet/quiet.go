// Package quiet silences PD's global logger in drivers.
package quiet

import (
	"github.com/pingcap/log"
	"go.uber.org/zap"
)

func init() { log.ReplaceGlobals(zap.NewNop(), &log.ZapProperties{Level: zap.NewAtomicLevel()}) }
