// Package res is the result file every driver writes for bin/check.
package res

import (
	"crypto/sha256"
	"encoding/hex"
	"encoding/json"
	"os"
	"sort"
)

// Violation is a property violation observed on the implementation itself.
type Violation struct {
	Sig    string      `json:"sig"`    // specific signature, looked up in KNOWN_FINDINGS.txt
	Desc   string      `json:"desc"`   // one sentence
	Replay interface{} `json:"replay"` // the concrete input / history
}

type Result struct {
	Property           string         `json:"property"`
	Seed               uint64         `json:"seed"`
	Tier               string         `json:"tier"`
	Evaluations        int            `json:"evaluations"`
	DistinctNontrivial int            `json:"distinct_nontrivial"`
	Rule               string         `json:"rule"`
	Histogram          map[string]int `json:"histogram"`
	Samples            []interface{}  `json:"samples"`
	CaseFiles          []string       `json:"case_files"`
	Violations         []Violation    `json:"violations"`
	Notes              []string       `json:"notes,omitempty"`

	seen map[string]bool
}

func New(prop string, seed uint64, tier string) *Result {
	return &Result{Property: prop, Seed: seed, Tier: tier, Histogram: map[string]int{}, seen: map[string]bool{}}
}

func (r *Result) Count(k string)         { r.Histogram[k]++ }
func (r *Result) CountN(k string, n int) { r.Histogram[k] += n }

// Case registers one evaluated case by its canonical text; nontrivial per the driver's rule.
func (r *Result) Case(canon string, nontrivial bool) {
	r.Evaluations++
	if !nontrivial {
		return
	}
	h := sha256.Sum256([]byte(canon))
	k := hex.EncodeToString(h[:8])
	if !r.seen[k] {
		r.seen[k] = true
		r.DistinctNontrivial++
	}
}

func (r *Result) Sample(s interface{}) {
	if len(r.Samples) < 3 {
		r.Samples = append(r.Samples, s)
	}
}

func (r *Result) Violate(sig, desc string, replay interface{}) {
	for _, v := range r.Violations {
		if v.Sig == sig {
			return // one witness per signature is enough
		}
	}
	r.Violations = append(r.Violations, Violation{sig, desc, replay})
}

func (r *Result) Write(path string) error {
	sort.Strings(r.CaseFiles)
	b, err := json.MarshalIndent(r, "", " ")
	if err != nil {
		return err
	}
	return os.WriteFile(path, b, 0o644)
}
