// Package rng is the single PRNG every driver derives its random choices from (splitmix64),
// so that a case replays exactly from (seed, case index).
package rng

type R struct{ s uint64 }

func New(seed uint64) *R { return &R{s: seed*0x9E3779B97F4A7C15 + 0x1234567} }

// Fork derives an independent stream for sub-case k.
func (r *R) Fork(k uint64) *R { return New(r.s ^ (k+1)*0xBF58476D1CE4E5B9) }

func (r *R) U64() uint64 {
	r.s += 0x9E3779B97F4A7C15
	z := r.s
	z = (z ^ (z >> 30)) * 0xBF58476D1CE4E5B9
	z = (z ^ (z >> 27)) * 0x94D049BB133111EB
	return z ^ (z >> 31)
}

// Intn returns a value in [0,n).
func (r *R) Intn(n int) int {
	if n <= 0 {
		return 0
	}
	return int(r.U64() % uint64(n))
}

func (r *R) Bool() bool { return r.U64()&1 == 1 }

// Pct is true with probability p/100.
func (r *R) Pct(p int) bool { return r.Intn(100) < p }

// Pick returns an index drawn according to integer weights.
func (r *R) Pick(weights ...int) int {
	t := 0
	for _, w := range weights {
		t += w
	}
	x := r.Intn(t)
	for i, w := range weights {
		if x < w {
			return i
		}
		x -= w
	}
	return len(weights) - 1
}

// Perm returns a pseudo-random permutation of [0,n).
func (r *R) Perm(n int) []int {
	p := make([]int, n)
	for i := range p {
		p[i] = i
	}
	for i := n - 1; i > 0; i-- {
		j := r.Intn(i + 1)
		p[i], p[j] = p[j], p[i]
	}
	return p
}
