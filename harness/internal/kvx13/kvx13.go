// Package kvx13 is a fault-injecting, write-logging kv.Base for the C13 driver (core.Storage.Base is
// an exported embedded kv.Base, so it is swapped in without touching PD).
package kvx13

import (
	"errors"
	"sync"

	"github.com/tikv/pd/server/kv"
)

// Mode of an injected fault.
type Mode int

const (
	None       Mode = iota
	FailBefore      // the write is not applied, an error is returned
	FailAfter       // the write is applied, an error is returned (unknown-outcome case)
)

// Write is one logged storage write.
type Write struct {
	Key    string
	Remove bool
	Value  string
	Failed Mode
}

var ErrInjected = errors.New("kvx13: injected storage failure")

type Base struct {
	mu                sync.Mutex
	Inner             kv.Base
	Log               []Write
	failAt            int // 1-based index (within the current plan) of the write that fails; 0 = none
	mode              Mode
	counter           int
	loadFailAt, loads int           // 1-based index of the LoadRange call that fails; 0 = none
	parkAt            int           // 1-based index of the write that blocks until Release; 0 = none
	parked            chan struct{} // signalled when the write is parked
	release           chan struct{}
}

// PlanPark makes the n-th write from now on block (before it is applied) until Release is called; clears the log.
func (b *Base) PlanPark(n int) {
	b.mu.Lock()
	defer b.mu.Unlock()
	b.failAt, b.mode, b.counter, b.Log = 0, None, 0, nil
	b.parkAt, b.parked, b.release = n, make(chan struct{}, 1), make(chan struct{}, 1)
}

// Parked is signalled once the planned write is blocked.
func (b *Base) Parked() <-chan struct{} { return b.parked }

// Release lets the parked write continue.
func (b *Base) Release() { b.release <- struct{}{} }

func New() *Base { return &Base{Inner: kv.NewMemoryKV()} }

// NewOn wraps another kv.Base (e.g. kv.NewEtcdKVBase).
func NewOn(inner kv.Base) *Base { return &Base{Inner: inner} }

// Plan arms a fault for the n-th write from now on and clears the log.
func (b *Base) Plan(n int, m Mode) {
	b.mu.Lock()
	defer b.mu.Unlock()
	b.failAt, b.mode, b.counter, b.Log = n, m, 0, nil
}

// Take returns the writes logged since the last Plan and disarms the fault.
func (b *Base) Take() []Write {
	b.mu.Lock()
	defer b.mu.Unlock()
	l := b.Log
	b.Log, b.failAt, b.mode, b.counter, b.parkAt = nil, 0, None, 0, 0
	return l
}

func (b *Base) Load(key string) (string, error) { return b.Inner.Load(key) }
func (b *Base) LoadRange(key, endKey string, limit int) ([]string, []string, error) {
	b.mu.Lock()
	b.loads++
	fail := b.loadFailAt != 0 && b.loads == b.loadFailAt
	b.mu.Unlock()
	if fail {
		return nil, nil, ErrInjected
	}
	return b.Inner.LoadRange(key, endKey, limit)
}

// PlanLoadFail makes the n-th LoadRange call from now on fail (0 = none).
func (b *Base) PlanLoadFail(n int) {
	b.mu.Lock()
	defer b.mu.Unlock()
	b.loadFailAt, b.loads = n, 0
}

func (b *Base) write(w Write) error {
	b.mu.Lock()
	b.counter++
	m := None
	if b.failAt != 0 && b.counter == b.failAt {
		m = b.mode
	}
	w.Failed = m
	b.Log = append(b.Log, w)
	park := b.parkAt != 0 && b.counter == b.parkAt
	parked, release := b.parked, b.release
	b.mu.Unlock()
	if park {
		parked <- struct{}{}
		<-release
	}
	if m == FailBefore {
		return ErrInjected
	}
	var err error
	if w.Remove {
		err = b.Inner.Remove(w.Key)
	} else {
		err = b.Inner.Save(w.Key, w.Value)
	}
	if err != nil {
		return err
	}
	if m == FailAfter {
		return ErrInjected
	}
	return nil
}

func (b *Base) Save(key, value string) error { return b.write(Write{Key: key, Value: value}) }
func (b *Base) Remove(key string) error      { return b.write(Write{Key: key, Remove: true}) }

// Dump returns every key/value of the inner store (sorted by key).
func (b *Base) Dump() (keys, values []string) {
	keys, values, _ = b.Inner.LoadRange("", "\xff\xff\xff\xff", 0)
	return
}

// Clone copies the current content into a fresh, fault-free store.
func (b *Base) Clone() *Base {
	c := New()
	ks, vs := b.Dump()
	for i := range ks {
		_ = c.Inner.Save(ks[i], vs[i])
	}
	return c
}
