// Package etcdx starts an embedded single-node etcd and hands out clients whose KV is
// controlled: the next transaction of a client can be parked before it is sent, released with
// an outcome, failed before sending (ErrNotApplied) or failed after it was applied (ErrApplied).
// PD itself is untouched: clientv3.Client.KV is an exported embedded interface.
package etcdx

import (
	"context"
	"errors"
	"fmt"
	"net/url"
	"os"
	"sync"
	"time"

	"github.com/tikv/pd/pkg/tempurl"
	"go.etcd.io/etcd/clientv3"
	"go.etcd.io/etcd/embed"
	"go.etcd.io/etcd/etcdserver/api/v3rpc/rpctypes"
	"go.uber.org/zap"
	"google.golang.org/grpc"
	"google.golang.org/grpc/codes"
	"google.golang.org/grpc/status"
)

type Etcd struct {
	Srv *embed.Etcd
	cfg *embed.Config
	ep  string
	all []*clientv3.Client
}

func Start() (*Etcd, error) { return StartOpt(0, 0) }

// StartOpt lets a driver lower etcd's tick/election timeouts (ms); etcd's minimum lease TTL is
// 1.5 x election timeout, so real 1 s leases need election <= 600 ms.
func StartOpt(tickMs, electionMs uint) (*Etcd, error) {
	cfg := embed.NewConfig()
	if tickMs > 0 {
		cfg.TickMs = tickMs
		cfg.ElectionMs = electionMs
	}
	cfg.Name = "verif_etcd"
	dir, err := os.MkdirTemp("", "verif_etcd")
	if err != nil {
		return nil, err
	}
	cfg.Dir = dir
	cfg.WalDir = ""
	cfg.Logger = "zap"
	cfg.LogLevel = "error"
	cfg.LogOutputs = []string{"/dev/null"}
	pu, _ := url.Parse(tempurl.Alloc())
	cfg.LPUrls = []url.URL{*pu}
	cfg.APUrls = cfg.LPUrls
	cu, _ := url.Parse(tempurl.Alloc())
	cfg.LCUrls = []url.URL{*cu}
	cfg.ACUrls = cfg.LCUrls
	cfg.StrictReconfigCheck = false
	cfg.InitialCluster = fmt.Sprintf("%s=%s", cfg.Name, &cfg.LPUrls[0])
	cfg.ClusterState = embed.ClusterStateFlagNew
	srv, err := embed.StartEtcd(cfg)
	if err != nil {
		os.RemoveAll(dir)
		return nil, err
	}
	select {
	case <-srv.Server.ReadyNotify():
	case <-time.After(30 * time.Second):
		srv.Close()
		os.RemoveAll(dir)
		return nil, errors.New("etcd not ready")
	}
	return &Etcd{Srv: srv, cfg: cfg, ep: cfg.LCUrls[0].String()}, nil
}

func (e *Etcd) Endpoint() string      { return e.ep }
func (e *Etcd) Config() *embed.Config { return e.cfg }

func (e *Etcd) Close() {
	for _, c := range e.all {
		c.Close()
	}
	e.Srv.Close()
	os.RemoveAll(e.cfg.Dir)
}

// Mark returns a handle for CloseFrom: the number of clients created so far.
func (e *Etcd) Mark() int { return len(e.all) }

// CloseFrom closes the clients created since Mark (a driver calls it at the end of every case, so that long
// runs do not accumulate connections and log sinks).
func (e *Etcd) CloseFrom(n int) {
	for i := n; i < len(e.all); i++ {
		e.all[i].Close()
	}
	if n < len(e.all) {
		e.all = e.all[:n]
	}
}

// Mode of the next transaction commit of a controlled client.
type Mode int

const (
	Pass       Mode = iota
	Park            // block before sending until Release
	FailBefore      // return an error, send nothing
	FailAfter       // send, then return an error although it was applied
	ParkAfter       // send, then block before returning the (successful) result until Release
)

var ErrInjected = errors.New("verif: injected etcd error")

type CtlKV struct {
	clientv3.KV
	mu      sync.Mutex
	next    Mode
	parked  chan struct{}
	release chan Mode
	// Filter, when set, decides whether a commit is subject to `next` (e.g. only puts to a key).
	Filter func(ops []clientv3.Op) bool
	nfail  int
	// OnCommit, when set, sees the Then-ops of every commit at entry (before it is parked or sent).
	OnCommit func(thenOps []clientv3.Op)
	// Log, when set, is told about every commit (after it returned).
	Log func(cmps []clientv3.Cmp, thenOps, elseOps []clientv3.Op, resp *clientv3.TxnResponse, err error)
}

// KeepCtl controls the lease keep-alive responses of one client: Hold() makes the next response wait (after etcd has
// processed the renewal) until Release(); while held, and until Pass(), later keep-alive calls get no answer.
type KeepCtl struct {
	mu      sync.Mutex
	hold    bool
	n       int
	held    chan struct{}
	release chan struct{}
	// lease revocation: HoldRevoke makes the next LeaseRevoke call return only after ReleaseRevoke (etcd has
	// applied the revocation by then: the caller is inside lease.Close())
	holdRev bool
	revHeld chan struct{}
	revRel  chan struct{}
	// reads: HoldRange makes the next Range (Get) call return only after ReleaseRange (etcd has answered it by then)
	holdRange bool
	rangeHeld chan struct{}
	rangeRel  chan struct{}
	// FailRanges(n): the next n Range (Get) calls fail without reaching etcd
	failRange int
}

// FailRanges makes the next n reads of this client fail (the request is not sent).
func (k *KeepCtl) FailRanges(n int) {
	k.mu.Lock()
	k.failRange = n
	k.mu.Unlock()
}

func (k *KeepCtl) HoldRange() {
	k.mu.Lock()
	k.holdRange = true
	k.mu.Unlock()
}
func (k *KeepCtl) RangeHeld() <-chan struct{} { return k.rangeHeld }
func (k *KeepCtl) ReleaseRange()              { k.rangeRel <- struct{}{} }

func (k *KeepCtl) HoldRevoke() {
	k.mu.Lock()
	k.holdRev = true
	k.mu.Unlock()
}
func (k *KeepCtl) RevokeHeld() <-chan struct{} { return k.revHeld }
func (k *KeepCtl) ReleaseRevoke()              { k.revRel <- struct{}{} }

func (k *KeepCtl) interceptUnary(ctx context.Context, method string, req, reply interface{}, cc *grpc.ClientConn, invoker grpc.UnaryInvoker, opts ...grpc.CallOption) error {
	if method == "/etcdserverpb.KV/Range" {
		k.mu.Lock()
		f := k.failRange > 0
		if f {
			k.failRange--
		}
		k.mu.Unlock()
		if f {
			return status.Error(codes.Unknown, "etcdserver: injected read fault")
		}
	}
	err := invoker(ctx, method, req, reply, cc, opts...)
	if method == "/etcdserverpb.KV/Range" {
		k.mu.Lock()
		h := k.holdRange
		k.holdRange = false
		k.mu.Unlock()
		if h {
			k.rangeHeld <- struct{}{}
			<-k.rangeRel
		}
		return err
	}
	if method != "/etcdserverpb.Lease/LeaseRevoke" {
		return err
	}
	k.mu.Lock()
	h := k.holdRev
	k.holdRev = false
	k.mu.Unlock()
	if h {
		k.revHeld <- struct{}{}
		<-k.revRel
	}
	return err
}

func (k *KeepCtl) Hold() {
	k.mu.Lock()
	k.hold, k.n = true, 0
	k.mu.Unlock()
}
func (k *KeepCtl) Pass() {
	k.mu.Lock()
	k.hold = false
	k.mu.Unlock()
}
func (k *KeepCtl) Held() <-chan struct{} { return k.held }
func (k *KeepCtl) Release()              { k.release <- struct{}{} }

type keepStream struct {
	grpc.ClientStream
	k   *KeepCtl
	idx int // -1: not held; 0: the renewal whose response is held; >0: later renewals, never sent
}

func (s *keepStream) SendMsg(m interface{}) error {
	if s.idx > 0 {
		<-s.Context().Done() // etcd never sees this renewal
		return s.Context().Err()
	}
	return s.ClientStream.SendMsg(m)
}

func (s *keepStream) RecvMsg(m interface{}) error {
	err := s.ClientStream.RecvMsg(m)
	if s.idx != 0 || err != nil {
		return err
	}
	s.idx = -1
	s.k.held <- struct{}{}
	<-s.k.release
	return nil
}

func (k *KeepCtl) intercept(ctx context.Context, desc *grpc.StreamDesc, cc *grpc.ClientConn, method string, streamer grpc.Streamer, opts ...grpc.CallOption) (grpc.ClientStream, error) {
	cs, err := streamer(ctx, desc, cc, method, opts...)
	if err != nil || method != "/etcdserverpb.Lease/LeaseKeepAlive" {
		return cs, err
	}
	k.mu.Lock()
	idx := -1
	if k.hold {
		idx = k.n
		k.n++
	}
	k.mu.Unlock()
	return &keepStream{ClientStream: cs, k: k, idx: idx}, nil
}

// NewClientKeep is NewClient plus control over the client's lease keep-alive responses.
func (e *Etcd) NewClientKeep() (*clientv3.Client, *CtlKV, *KeepCtl, error) {
	k := &KeepCtl{held: make(chan struct{}, 1), release: make(chan struct{}, 1), revHeld: make(chan struct{}, 1), revRel: make(chan struct{}, 1),
		rangeHeld: make(chan struct{}, 1), rangeRel: make(chan struct{}, 1)}
	cli, c, err := e.newClient(grpc.WithStreamInterceptor(k.intercept), grpc.WithUnaryInterceptor(k.interceptUnary))
	return cli, c, k, err
}

// NewClient returns a fresh client and its controller.
func (e *Etcd) NewClient() (*clientv3.Client, *CtlKV, error) { return e.newClient() }

func (e *Etcd) newClient(dopts ...grpc.DialOption) (*clientv3.Client, *CtlKV, error) {
	lc := zap.NewProductionConfig()
	lc.Level = zap.NewAtomicLevelAt(zap.FatalLevel)
	lc.OutputPaths = []string{"/dev/null"}
	lc.ErrorOutputPaths = []string{"/dev/null"}
	cli, err := clientv3.New(clientv3.Config{Endpoints: []string{e.ep}, DialTimeout: 5 * time.Second, LogConfig: &lc, DialOptions: dopts})
	if err != nil {
		return nil, nil, err
	}
	c := &CtlKV{KV: cli.KV, parked: make(chan struct{}, 1), release: make(chan Mode, 1)}
	cli.KV = c
	e.all = append(e.all, cli)
	return cli, c, nil
}

// SetNext arms the mode for the next (filtered) commit.
func (c *CtlKV) SetNext(m Mode) {
	c.mu.Lock()
	c.next = m
	c.mu.Unlock()
}

// Parked is signalled when a commit has been parked.
func (c *CtlKV) Parked() <-chan struct{} { return c.parked }

// Release lets the parked commit continue with outcome m (Pass, FailBefore or FailAfter).
func (c *CtlKV) Release(m Mode) { c.release <- m }

func (c *CtlKV) Txn(ctx context.Context) clientv3.Txn {
	return &ctlTxn{c: c, inner: c.KV.Txn(ctx)}
}

type ctlTxn struct {
	c     *CtlKV
	inner clientv3.Txn
	cmps  []clientv3.Cmp
	then  []clientv3.Op
	els   []clientv3.Op
}

func (t *ctlTxn) If(cs ...clientv3.Cmp) clientv3.Txn {
	t.cmps = append(t.cmps, cs...)
	t.inner = t.inner.If(cs...)
	return t
}
func (t *ctlTxn) Then(ops ...clientv3.Op) clientv3.Txn {
	t.then = append(t.then, ops...)
	t.inner = t.inner.Then(ops...)
	return t
}
func (t *ctlTxn) Else(ops ...clientv3.Op) clientv3.Txn {
	t.els = append(t.els, ops...)
	t.inner = t.inner.Else(ops...)
	return t
}

func (t *ctlTxn) Commit() (*clientv3.TxnResponse, error) {
	c := t.c
	if c.OnCommit != nil {
		c.OnCommit(t.then)
	}
	c.mu.Lock()
	m := c.next
	if m != Pass && (c.Filter == nil || c.Filter(t.then)) {
		c.next = Pass
	} else {
		m = Pass
	}
	c.mu.Unlock()
	if m == Park {
		c.parked <- struct{}{}
		m = <-c.release
	}
	var resp *clientv3.TxnResponse
	var err error
	switch m {
	case FailBefore:
		// what etcd answers when it did not propose the request (its leader moved / is being elected)
		c.mu.Lock()
		c.nfail++
		n := c.nfail
		c.mu.Unlock()
		if n%2 == 1 {
			err = rpctypes.ErrLeaderChanged
		} else {
			err = rpctypes.ErrNoLeader
		}
	case FailAfter:
		_, err = t.inner.Commit()
		if err == nil {
			err = ErrInjected
		}
	case ParkAfter:
		resp, err = t.inner.Commit()
		c.parked <- struct{}{}
		<-c.release
	default:
		resp, err = t.inner.Commit()
	}
	if c.Log != nil {
		c.Log(t.cmps, t.then, t.els, resp, err)
	}
	return resp, err
}
