package tikvsim

import (
	"fmt"

	"github.com/pingcap/kvproto/pkg/eraftpb"
	"github.com/pingcap/kvproto/pkg/metapb"
	"github.com/pingcap/kvproto/pkg/pdpb"
	"github.com/tikv/pd/server/core"
	"github.com/tikv/pd/server/schedule/operator"

	"pdverif/internal/coqfmt"
)

// Printers of regions, steps and commands as terms of coq/model/C08_Steps.v.

var coqRole = map[metapb.PeerRole]string{metapb.PeerRole_Voter: "Voter", metapb.PeerRole_Learner: "Learner",
	metapb.PeerRole_IncomingVoter: "Incoming", metapb.PeerRole_DemotingVoter: "Demoting"}

// CoqPeer prints `Peer store id role`.
func CoqPeer(p *metapb.Peer) string {
	return fmt.Sprintf("Peer %s %s %s", coqfmt.ZU(p.GetStoreId()), coqfmt.ZU(p.GetId()), coqRole[p.GetRole()])
}

// CoqOptPeer prints an `option peer`.
func CoqOptPeer(p *metapb.Peer) string {
	if p == nil {
		return "None"
	}
	return "(Some (" + CoqPeer(p) + "))"
}

// CoqRegion prints `(Region peers leader conf_ver rng)`; rng is the caller's range identity (version).
func CoqRegion(r *core.RegionInfo, rng int64) string {
	ps := make([]string, 0, len(r.GetPeers()))
	for _, p := range r.GetPeers() {
		ps = append(ps, CoqPeer(p))
	}
	return fmt.Sprintf("(Region %s %s %s %s)", coqfmt.List(ps), coqfmt.ZU(r.GetLeader().GetStoreId()),
		coqfmt.ZU(r.GetRegionEpoch().GetConfVer()), coqfmt.Z(rng))
}

func pairList(n int, f func(i int) (uint64, uint64)) string {
	out := make([]string, n)
	for i := 0; i < n; i++ {
		a, b := f(i)
		out[i] = coqfmt.Pair(coqfmt.ZU(a), coqfmt.ZU(b))
	}
	return coqfmt.List(out)
}

// CoqStep prints an operator step; rng is the range identity recorded in split / passive-merge steps.
func CoqStep(s operator.OpStep, rng int64) string {
	switch st := s.(type) {
	case operator.TransferLeader:
		return fmt.Sprintf("TransferLeader %s %s", coqfmt.ZU(st.FromStore), coqfmt.ZU(st.ToStore))
	case operator.AddPeer:
		return fmt.Sprintf("AddPeer %s %s", coqfmt.ZU(st.ToStore), coqfmt.ZU(st.PeerID))
	case operator.AddLearner:
		return fmt.Sprintf("AddLearner %s %s", coqfmt.ZU(st.ToStore), coqfmt.ZU(st.PeerID))
	case operator.AddLightPeer:
		return fmt.Sprintf("AddLightPeer %s %s", coqfmt.ZU(st.ToStore), coqfmt.ZU(st.PeerID))
	case operator.AddLightLearner:
		return fmt.Sprintf("AddLightLearner %s %s", coqfmt.ZU(st.ToStore), coqfmt.ZU(st.PeerID))
	case operator.PromoteLearner:
		return fmt.Sprintf("PromoteLearner %s %s", coqfmt.ZU(st.ToStore), coqfmt.ZU(st.PeerID))
	case operator.DemoteFollower:
		return fmt.Sprintf("DemoteFollower %s %s", coqfmt.ZU(st.ToStore), coqfmt.ZU(st.PeerID))
	case operator.RemovePeer:
		return fmt.Sprintf("RemovePeer %s %s", coqfmt.ZU(st.FromStore), coqfmt.ZU(st.PeerID))
	case operator.ChangePeerV2Enter:
		return fmt.Sprintf("ChangePeerV2Enter %s %s",
			pairList(len(st.PromoteLearners), func(i int) (uint64, uint64) { return st.PromoteLearners[i].ToStore, st.PromoteLearners[i].PeerID }),
			pairList(len(st.DemoteVoters), func(i int) (uint64, uint64) { return st.DemoteVoters[i].ToStore, st.DemoteVoters[i].PeerID }))
	case operator.ChangePeerV2Leave:
		return fmt.Sprintf("ChangePeerV2Leave %s %s",
			pairList(len(st.PromoteLearners), func(i int) (uint64, uint64) { return st.PromoteLearners[i].ToStore, st.PromoteLearners[i].PeerID }),
			pairList(len(st.DemoteVoters), func(i int) (uint64, uint64) { return st.DemoteVoters[i].ToStore, st.DemoteVoters[i].PeerID }))
	case operator.MergeRegion:
		return fmt.Sprintf("MergeRegion %s %s", coqfmt.Bool(st.IsPassive), coqfmt.Z(rng))
	case operator.SplitRegion:
		return "SplitRegion " + coqfmt.Z(rng)
	}
	return "UNKNOWN_STEP"
}

var coqChange = map[eraftpb.ConfChangeType]string{eraftpb.ConfChangeType_AddNode: "AddNode",
	eraftpb.ConfChangeType_AddLearnerNode: "AddLearnerNode", eraftpb.ConfChangeType_RemoveNode: "RemoveNode"}

// CoqCmdBody prints the `cmd` carried by a heartbeat response.
func CoqCmdBody(m *pdpb.RegionHeartbeatResponse) string {
	switch {
	case m.GetTransferLeader() != nil:
		return "CTransferLeader " + CoqOptPeer(m.GetTransferLeader().GetPeer())
	case m.GetChangePeer() != nil:
		return "CChangePeer " + coqChange[m.GetChangePeer().GetChangeType()] + " " + CoqOptPeer(m.GetChangePeer().GetPeer())
	case m.GetChangePeerV2() != nil:
		cs := []string{}
		for _, c := range m.GetChangePeerV2().GetChanges() {
			cs = append(cs, "("+coqChange[c.GetChangeType()]+", "+CoqPeer(c.GetPeer())+")")
		}
		return "CChangePeerV2 " + coqfmt.List(cs)
	case m.GetMerge() != nil:
		return "CMerge"
	}
	return "CSplit"
}

// CoqOptCmd prints an `option cmd` (nil = nothing was sent).
func CoqOptCmd(m *pdpb.RegionHeartbeatResponse) string {
	if m == nil {
		return "None"
	}
	return "(Some (" + CoqCmdBody(m) + "))"
}

// CoqMsg prints a `msg` of coq/model/C09_OpCtl.v: what SendMsg stamped plus the command.
func CoqMsg(m *pdpb.RegionHeartbeatResponse) string {
	return fmt.Sprintf("Msg %s %s %s %s %s (%s)", coqfmt.ZU(m.GetRegionId()), coqfmt.ZU(m.GetRegionEpoch().GetConfVer()),
		coqfmt.ZU(m.GetRegionEpoch().GetVersion()), coqfmt.ZU(m.GetTargetPeer().GetStoreId()), coqfmt.ZU(m.GetTargetPeer().GetId()), CoqCmdBody(m))
}
