// Package tikvsim is the store-side ENVIRONMENT MODEL used by the C08/C09 (and C10/C11) drivers:
// it applies the commands PD really sends (pdpb.RegionHeartbeatResponse) to a region with TiKV's
// configuration-change rules. The same rules are the Gallina function apply_cmd in
// coq/model/C08_Steps.v; the case files let Coq check that both agree on every executed command.
//
//	simple change (ChangePeer)    conf_ver+1; rejected in a joint state; removing or demoting the leader is rejected
//	ChangePeerV2, k>=1 changes    enter joint (Learner->IncomingVoter, Voter->DemotingVoter), conf_ver+k
//	ChangePeerV2, 0 changes       leave joint, conf_ver+#joint peers; rejected outside a joint state or when the
//	                              leader is a demoting voter
//	TransferLeader                rejected when the target is absent or a learner
//	every command                 must be addressed to the current leader; configuration changes must carry the
//	                              current conf_ver, split/merge the current version
package tikvsim

import (
	"context"
	"fmt"
	"sync"
	"sync/atomic"
	"time"

	"github.com/gogo/protobuf/proto"
	"github.com/pingcap/kvproto/pkg/eraftpb"
	"github.com/pingcap/kvproto/pkg/metapb"
	"github.com/pingcap/kvproto/pkg/pdpb"
	"github.com/tikv/pd/server/core"
	"github.com/tikv/pd/server/schedule/hbstream"
)

// Sim is one region as the stores see it.
type Sim struct {
	Meta   *metapb.Region
	Leader *metapb.Peer // copy of the leader's entry in Meta.Peers, nil = no leader
	Rng    int64        // abstract identity of the key range; split/merge change it
}

// New starts from a PD-side region.
func New(r *core.RegionInfo) *Sim {
	s := &Sim{Meta: proto.Clone(r.GetMeta()).(*metapb.Region)}
	if s.Meta.RegionEpoch == nil {
		s.Meta.RegionEpoch = &metapb.RegionEpoch{}
	}
	if l := r.GetLeader(); l != nil {
		s.Leader = proto.Clone(l).(*metapb.Peer)
	}
	return s
}

// Region is what the leader would report in its next heartbeat.
func (s *Sim) Region(opts ...core.RegionCreateOption) *core.RegionInfo {
	var l *metapb.Peer
	if s.Leader != nil {
		l = proto.Clone(s.Leader).(*metapb.Peer)
	}
	return core.NewRegionInfo(proto.Clone(s.Meta).(*metapb.Region), l, opts...)
}

func (s *Sim) find(store uint64) (int, *metapb.Peer) {
	for i, p := range s.Meta.Peers {
		if p.GetStoreId() == store {
			return i, p
		}
	}
	return -1, nil
}

func (s *Sim) leaderStore() uint64 { return s.Leader.GetStoreId() }

// InJoint reports whether any peer is an incoming or demoting voter.
func (s *Sim) InJoint() bool { return core.IsInJointState(s.Meta.Peers...) }

func (s *Sim) syncLeader() {
	if s.Leader == nil {
		return
	}
	if _, p := s.find(s.Leader.GetStoreId()); p != nil {
		s.Leader = proto.Clone(p).(*metapb.Peer)
	}
}

// one change of a simple (joint=false) or enter-joint (joint=true) configuration change, applied to peers
func applyChange(peers []*metapb.Peer, leaderStore uint64, joint bool, t eraftpb.ConfChangeType, p *metapb.Peer) ([]*metapb.Peer, error) {
	st := p.GetStoreId()
	idx := -1
	for i, q := range peers {
		if q.GetStoreId() == st {
			idx = i
			break
		}
	}
	voterRole, learnerRole := metapb.PeerRole_Voter, metapb.PeerRole_Learner
	if joint {
		voterRole, learnerRole = metapb.PeerRole_IncomingVoter, metapb.PeerRole_DemotingVoter
	}
	if idx < 0 {
		switch t {
		case eraftpb.ConfChangeType_AddNode:
			return append(peers, &metapb.Peer{Id: p.GetId(), StoreId: st, Role: voterRole}), nil
		case eraftpb.ConfChangeType_AddLearnerNode:
			return append(peers, &metapb.Peer{Id: p.GetId(), StoreId: st, Role: metapb.PeerRole_Learner}), nil
		default:
			return nil, fmt.Errorf("remove missing peer on store %d", st)
		}
	}
	e := peers[idx]
	switch t {
	case eraftpb.ConfChangeType_AddNode:
		if e.GetId() != p.GetId() {
			return nil, fmt.Errorf("can't add duplicated peer %d: store %d holds peer %d", p.GetId(), st, e.GetId())
		}
		if e.GetRole() != metapb.PeerRole_Learner {
			return nil, fmt.Errorf("peer %d is already %s", e.GetId(), e.GetRole())
		}
		peers[idx] = &metapb.Peer{Id: e.GetId(), StoreId: st, Role: voterRole}
		return peers, nil
	case eraftpb.ConfChangeType_AddLearnerNode:
		if e.GetId() != p.GetId() {
			return nil, fmt.Errorf("can't add duplicated learner %d: store %d holds peer %d", p.GetId(), st, e.GetId())
		}
		if e.GetRole() != metapb.PeerRole_Voter {
			return nil, fmt.Errorf("peer %d is already %s", e.GetId(), e.GetRole())
		}
		if !joint && st == leaderStore {
			return nil, fmt.Errorf("ignore demote leader")
		}
		peers[idx] = &metapb.Peer{Id: e.GetId(), StoreId: st, Role: learnerRole}
		return peers, nil
	default: // RemoveNode
		if e.GetId() != p.GetId() || e.GetStoreId() != p.GetStoreId() || e.GetRole() != p.GetRole() {
			return nil, fmt.Errorf("ignore remove unmatched peer")
		}
		if st == leaderStore {
			return nil, fmt.Errorf("ignore remove leader")
		}
		if joint && e.GetRole() == metapb.PeerRole_Voter {
			return nil, fmt.Errorf("can't remove voter directly")
		}
		return append(peers[:idx:idx], peers[idx+1:]...), nil
	}
}

func clonePeers(ps []*metapb.Peer) []*metapb.Peer {
	out := make([]*metapb.Peer, len(ps))
	for i, p := range ps {
		out[i] = proto.Clone(p).(*metapb.Peer)
	}
	return out
}

// ChangePeer applies a simple configuration change.
func (s *Sim) ChangePeer(t eraftpb.ConfChangeType, p *metapb.Peer) error {
	if p == nil {
		return fmt.Errorf("change peer without peer")
	}
	if s.InJoint() {
		return fmt.Errorf("region is in joint state")
	}
	ps, err := applyChange(clonePeers(s.Meta.Peers), s.leaderStore(), false, t, p)
	if err != nil {
		return err
	}
	s.Meta.Peers = ps
	s.Meta.RegionEpoch.ConfVer++
	s.syncLeader()
	return nil
}

// ChangePeerV2 enters (len(changes) >= 1) or leaves (len(changes) == 0) a joint state.
func (s *Sim) ChangePeerV2(changes []*pdpb.ChangePeer) error {
	if len(changes) == 0 {
		if !s.InJoint() {
			return fmt.Errorf("can't leave a non-joint config")
		}
		if _, l := s.find(s.leaderStore()); l != nil && l.GetRole() == metapb.PeerRole_DemotingVoter {
			return fmt.Errorf("ignore leave joint command that demoting leader")
		}
		n := uint64(0)
		for _, p := range s.Meta.Peers {
			switch p.GetRole() {
			case metapb.PeerRole_IncomingVoter:
				p.Role = metapb.PeerRole_Voter
				n++
			case metapb.PeerRole_DemotingVoter:
				p.Role = metapb.PeerRole_Learner
				n++
			}
		}
		s.Meta.RegionEpoch.ConfVer += n
		s.syncLeader()
		return nil
	}
	if s.InJoint() {
		return fmt.Errorf("region is already in joint state")
	}
	ps := clonePeers(s.Meta.Peers)
	var err error
	for _, c := range changes {
		if c.GetPeer() == nil {
			return fmt.Errorf("change without peer")
		}
		if ps, err = applyChange(ps, s.leaderStore(), true, c.GetChangeType(), c.GetPeer()); err != nil {
			return err
		}
	}
	s.Meta.Peers = ps
	s.Meta.RegionEpoch.ConfVer += uint64(len(changes))
	s.syncLeader()
	return nil
}

// TransferLeader moves leadership to the given peer.
func (s *Sim) TransferLeader(p *metapb.Peer) error {
	if p == nil {
		return fmt.Errorf("transfer leader without peer")
	}
	_, q := s.find(p.GetStoreId())
	if q == nil || q.GetId() != p.GetId() {
		return fmt.Errorf("transfer leader: peer %d not in region", p.GetId())
	}
	if q.GetRole() == metapb.PeerRole_Learner {
		return fmt.Errorf("transfer leader: peer %d is a learner", p.GetId())
	}
	s.Leader = proto.Clone(q).(*metapb.Peer)
	return nil
}

// SplitOrMerge changes the key range identity and bumps the version.
func (s *Sim) SplitOrMerge() {
	s.Rng++
	s.Meta.RegionEpoch.Version++
	// the region keeps the left part of its range: a new, smaller end key (never overlaps a neighbour)
	s.Meta.EndKey = append(append([]byte{}, s.Meta.StartKey...), byte(250-s.Rng%200))
}

// ErrMisaddressed is returned when a command does not reach the leader or carries a stale epoch.
type ErrMisaddressed struct{ Why string }

func (e ErrMisaddressed) Error() string { return "misaddressed: " + e.Why }

// CheckAddress verifies what HeartbeatStreams.SendMsg stamps on a command: region id, the region's current
// epoch and the current leader as target.
func (s *Sim) CheckAddress(msg *pdpb.RegionHeartbeatResponse) error {
	if msg.GetRegionId() != s.Meta.GetId() {
		return ErrMisaddressed{fmt.Sprintf("region id %d != %d", msg.GetRegionId(), s.Meta.GetId())}
	}
	tp := msg.GetTargetPeer()
	if s.Leader == nil || tp.GetId() != s.Leader.GetId() || tp.GetStoreId() != s.Leader.GetStoreId() {
		return ErrMisaddressed{fmt.Sprintf("target peer %v is not the leader %v", tp, s.Leader)}
	}
	// TiKV's epoch check per admin command: transfer leader none, configuration change conf_ver, split
	// version, merge both
	e := msg.GetRegionEpoch()
	cvOK := e.GetConfVer() == s.Meta.RegionEpoch.GetConfVer()
	verOK := e.GetVersion() == s.Meta.RegionEpoch.GetVersion()
	switch {
	case msg.GetTransferLeader() != nil:
	case msg.GetChangePeer() != nil, msg.GetChangePeerV2() != nil:
		if !cvOK {
			return ErrMisaddressed{fmt.Sprintf("epoch %v != %v", e, s.Meta.RegionEpoch)}
		}
	case msg.GetSplitRegion() != nil:
		if !verOK {
			return ErrMisaddressed{fmt.Sprintf("epoch %v != %v", e, s.Meta.RegionEpoch)}
		}
	default:
		if !cvOK || !verOK {
			return ErrMisaddressed{fmt.Sprintf("epoch %v != %v", e, s.Meta.RegionEpoch)}
		}
	}
	return nil
}

// Apply executes one command. The address check is left to the caller (CheckAddress) so that a
// driver can distinguish "PD addressed it wrongly" from "the store refuses the change".
func (s *Sim) Apply(msg *pdpb.RegionHeartbeatResponse) error {
	switch {
	case msg.GetTransferLeader() != nil:
		return s.TransferLeader(msg.GetTransferLeader().GetPeer())
	case msg.GetChangePeer() != nil:
		return s.ChangePeer(msg.GetChangePeer().GetChangeType(), msg.GetChangePeer().GetPeer())
	case msg.GetChangePeerV2() != nil:
		return s.ChangePeerV2(msg.GetChangePeerV2().GetChanges())
	case msg.GetMerge() != nil, msg.GetSplitRegion() != nil:
		s.SplitOrMerge()
		return nil
	}
	return fmt.Errorf("empty command")
}

// ---------------------------------------------------------------------------------------------
// Recorder: a real hbstream.HeartbeatStreams whose per-store streams record what PD sends.

type anyStore struct{ *core.BasicCluster }

func (anyStore) GetStore(id uint64) *core.StoreInfo {
	return core.NewStoreInfo(&metapb.Store{Id: id, Address: fmt.Sprintf("mock://%d", id)})
}

// recStream records what PD pushes into it; once broken every push fails (a dead gRPC stream).
type recStream struct {
	r      *Recorder
	broken *int32
}

func (s recStream) Send(m *pdpb.RegionHeartbeatResponse) error {
	if atomic.LoadInt32(s.broken) != 0 {
		return fmt.Errorf("stream is broken")
	}
	if m.GetRegionId() == 0 && m.GetTargetPeer() == nil {
		// the keep-alive HeartbeatStreams pushes into every stream once a minute: not a command (a driver run of
		// more than a minute would otherwise find one per store among the commands of whatever step comes next)
		return nil
	}
	s.r.ch <- m
	return nil
}

const sentinelStore = 1<<40 + 7
const sentinelRegion = 1<<40 + 9
const probeRegion = 1<<40 + 11

// Recorder owns a running HeartbeatStreams; every store id has a recording stream bound.
type Recorder struct {
	HB       *hbstream.HeartbeatStreams
	ch       chan *pdpb.RegionHeartbeatResponse
	sentinel *core.RegionInfo
	mu       sync.Mutex
	streams  map[uint64]recStream
	seq      uint64
}

// NewRecorder binds recording streams for the given store ids (and an internal sentinel store).
func NewRecorder(ctx context.Context, clusterID uint64, stores []uint64) (*Recorder, error) {
	r := &Recorder{ch: make(chan *pdpb.RegionHeartbeatResponse, 4096), streams: map[uint64]recStream{}}
	r.HB = hbstream.NewTestHeartbeatStreams(ctx, clusterID, anyStore{core.NewBasicCluster()}, true)
	lp := &metapb.Peer{Id: sentinelStore, StoreId: sentinelStore}
	r.sentinel = core.NewRegionInfo(&metapb.Region{Id: sentinelRegion, Peers: []*metapb.Peer{lp}, RegionEpoch: &metapb.RegionEpoch{}}, lp)
	all := append([]uint64{sentinelStore}, stores...)
	for _, st := range all {
		r.streams[st] = recStream{r, new(int32)}
		r.HB.BindStream(st, r.streams[st])
	}
	// BindStream is asynchronous: confirm every binding with a probe that must come back.
	for _, st := range all {
		p := &metapb.Peer{Id: st, StoreId: st}
		probe := core.NewRegionInfo(&metapb.Region{Id: sentinelRegion, Peers: []*metapb.Peer{p}, RegionEpoch: &metapb.RegionEpoch{}}, p)
		ok := false
		for try := 0; try < 200 && !ok; try++ {
			r.HB.SendMsg(probe, &pdpb.RegionHeartbeatResponse{})
			select {
			case <-r.ch:
				ok = true
			case <-time.After(10 * time.Millisecond):
			}
		}
		if !ok {
			return nil, fmt.Errorf("stream of store %d never bound", st)
		}
	}
	// drain late probes
	for {
		select {
		case <-r.ch:
			continue
		case <-time.After(30 * time.Millisecond):
		}
		break
	}
	return r, nil
}

// Collect returns every message PD has sent since the last call, in order. It pushes a sentinel
// through the same FIFO and reads until it comes back, so nothing is missed and nothing sleeps.
func (r *Recorder) Collect() []*pdpb.RegionHeartbeatResponse {
	r.mu.Lock()
	defer r.mu.Unlock()
	r.HB.SendMsg(r.sentinel, &pdpb.RegionHeartbeatResponse{})
	var out []*pdpb.RegionHeartbeatResponse
	for {
		select {
		case m := <-r.ch:
			if m.GetRegionId() == sentinelRegion {
				return out
			}
			if m.GetRegionId() == probeRegion { // a late answer to a binding probe
				continue
			}
			out = append(out, m)
		case <-time.After(5 * time.Second):
			panic("tikvsim.Recorder: sentinel lost")
		}
	}
}

// Break makes every further push into the store's current stream fail (PD forgets the stream at the first failure).
func (r *Recorder) Break(store uint64) {
	if s, ok := r.streams[store]; ok {
		atomic.StoreInt32(s.broken, 1)
	}
}

// Rebind binds a fresh recording stream for the store, waits until PD uses it and returns everything the new stream
// received meanwhile that the caller did not ask for (a correct HeartbeatStreams sends nothing on its own).
func (r *Recorder) Rebind(store uint64) []*pdpb.RegionHeartbeatResponse {
	r.mu.Lock()
	defer r.mu.Unlock()
	r.streams[store] = recStream{r, new(int32)}
	r.HB.BindStream(store, r.streams[store])
	p := &metapb.Peer{Id: store, StoreId: store}
	r.seq++ // answers to the probes of an earlier Rebind may still be on their way: every call has its own mark
	probe := core.NewRegionInfo(&metapb.Region{Id: probeRegion, Peers: []*metapb.Peer{p}, RegionEpoch: &metapb.RegionEpoch{Version: r.seq}}, p)
	var out []*pdpb.RegionHeartbeatResponse
	for try := 0; try < 500; try++ {
		r.HB.SendMsg(probe, &pdpb.RegionHeartbeatResponse{})
		deadline := time.After(10 * time.Millisecond)
	wait:
		for {
			select {
			case m := <-r.ch:
				if m.GetRegionId() == probeRegion {
					if m.GetRegionEpoch().GetVersion() == r.seq {
						return out
					}
					continue
				}
				out = append(out, m)
			case <-deadline:
				break wait
			}
		}
	}
	panic("tikvsim.Recorder: re-bound stream never used")
}

// Reset gives every store whose stream was broken a working one again (between cases); what comes out is discarded.
func (r *Recorder) Reset() {
	var broken []uint64
	for st, s := range r.streams {
		if atomic.LoadInt32(s.broken) != 0 {
			broken = append(broken, st)
		}
	}
	for _, st := range broken {
		r.Rebind(st)
	}
}
