// Package kvx14 is a fault-injecting kv.Base wrapper: core.Storage.Base is an exported embedded
// interface, so `st.Base = kvx14.Wrap(st.Base, group)` intercepts every storage operation PD issues
// without touching PD. Faults are planned per operation of the harness: "the idx-th next write of
// key group g fails", either before it is sent (ErrNotApplied) or after it was applied
// (ErrApplied). Grouping by key (e.g. by store id) keeps a plan meaningful when the code under test
// iterates a Go map in random order. Everything is deterministic; nothing is random in here.
package kvx14

import (
	"errors"
	"fmt"
	"strings"
	"sync"

	"github.com/tikv/pd/server/kv"
)

// ErrInjected is the error every injected fault returns.
var ErrInjected = errors.New("verif: injected storage fault")

type Kind int

const (
	None       Kind = iota
	FailBefore      // the write is not sent
	FailAfter       // the write is applied, then an error is returned
)

// Entry is one counted write.
type Entry struct {
	Op    string // "S" save, "R" remove
	Key   string
	Group string
	Value string
	Fault Kind
}

type Base struct {
	mu    sync.Mutex
	Inner kv.Base
	// Group maps a key to its counting group; ok=false: the key is not counted and never faulted.
	Group func(key string) (group string, ok bool)
	plan  map[string]Kind // "<group>#<idx>" -> fault, idx 0-based among the group's writes since Arm
	seen  map[string]int
	Log   []Entry
	// load faults: the idx-th next Load/LoadRange of a counted key fails
	loadPlan map[int]bool
	loads    int
	// parking: the write with this plan key blocks (before it is sent) until Release; used to overlap two operations
	parkAt  string
	parked  chan struct{}
	release chan struct{}
	// further, independent parking points (AddPark): by plan key, or by key suffix for keys outside every group
	extra []*Park
}

// Park is one additional parking point. Parked is closed when a write has arrived there; Release lets it through.
type Park struct {
	planKey, suffix string
	Parked          chan struct{}
	release         chan struct{}
	hit             bool
	once            sync.Once
}

// Release lets the parked write through (or disarms the point if no write has arrived yet).
func (p *Park) Release() { p.once.Do(func() { close(p.release) }) }

func Wrap(inner kv.Base, group func(string) (string, bool)) *Base {
	return &Base{Inner: inner, Group: group, seen: map[string]int{}}
}

func PlanKey(group string, idx int) string { return fmt.Sprintf("%s#%d", group, idx) }

// Arm resets the counters and the log and installs a fault plan (may be nil).
func (b *Base) Arm(plan map[string]Kind) {
	b.mu.Lock()
	defer b.mu.Unlock()
	b.plan = plan
	b.loadPlan = nil
	b.seen = map[string]int{}
	b.loads = 0
	b.Log = nil
	b.parkAt = ""
	if b.release != nil {
		close(b.release) // never leave a writer parked across operations
		b.release = nil
	}
	b.parked = nil
	for _, p := range b.extra {
		p.Release()
	}
	b.extra = nil
}

// AddPark adds a parking point after Arm/ArmPark: the first write whose plan key is planKey (counted keys) or, when
// suffix != "", the first write of ANY key ending in suffix (also keys outside every group, e.g. "config").
func (b *Base) AddPark(planKey, suffix string) *Park {
	b.mu.Lock()
	defer b.mu.Unlock()
	p := &Park{planKey: planKey, suffix: suffix, Parked: make(chan struct{}), release: make(chan struct{})}
	b.extra = append(b.extra, p)
	return p
}

// ArmPark is Arm plus one parking point: the write PlanKey(group, idx) blocks before it is sent until Release is called.
// Parked() is closed when the write has arrived there. The wrapper's own lock is not held while a write is parked.
func (b *Base) ArmPark(plan map[string]Kind, parkKey string) {
	b.Arm(plan)
	b.mu.Lock()
	defer b.mu.Unlock()
	b.parkAt = parkKey
	b.parked = make(chan struct{})
	b.release = make(chan struct{})
}

// Parked is closed once the parking point armed by ArmPark has been reached.
func (b *Base) Parked() <-chan struct{} {
	b.mu.Lock()
	defer b.mu.Unlock()
	return b.parked
}

// Release lets the parked write (or, if it has not arrived yet, the armed parking point) through.
func (b *Base) Release() {
	b.mu.Lock()
	defer b.mu.Unlock()
	if b.release != nil {
		close(b.release)
		b.release = nil
		b.parkAt = ""
	}
}

// ArmLoads makes the given counted loads (0-based since the call) fail.
func (b *Base) ArmLoads(plan map[int]bool) {
	b.mu.Lock()
	defer b.mu.Unlock()
	b.loadPlan = plan
	b.loads = 0
}

// Entries returns a copy of the write log since Arm.
func (b *Base) Entries() []Entry {
	b.mu.Lock()
	defer b.mu.Unlock()
	return append([]Entry(nil), b.Log...)
}

func (b *Base) next(op, key, value string) Kind {
	b.mu.Lock()
	for _, p := range b.extra {
		if !p.hit && p.suffix != "" && strings.HasSuffix(key, p.suffix) {
			p.hit = true
			close(p.Parked)
			b.mu.Unlock()
			<-p.release
			b.mu.Lock()
			break
		}
	}
	g, ok := "", true
	if b.Group != nil {
		g, ok = b.Group(key)
	}
	if !ok {
		b.mu.Unlock()
		return None
	}
	pk := PlanKey(g, b.seen[g])
	k := b.plan[pk]
	b.seen[g]++
	b.Log = append(b.Log, Entry{op, key, g, value, k})
	var wait chan struct{}
	if b.parkAt != "" && pk == b.parkAt && b.release != nil {
		b.parkAt = ""
		close(b.parked)
		wait = b.release
	}
	for _, p := range b.extra {
		if wait == nil && !p.hit && p.suffix == "" && p.planKey == pk {
			p.hit = true
			close(p.Parked)
			wait = p.release
		}
	}
	b.mu.Unlock()
	if wait != nil {
		<-wait
	}
	return k
}

func (b *Base) loadFault(key string) bool {
	b.mu.Lock()
	defer b.mu.Unlock()
	if b.loadPlan == nil {
		return false
	}
	if b.Group != nil {
		if _, ok := b.Group(key); !ok {
			return false
		}
	}
	f := b.loadPlan[b.loads]
	b.loads++
	return f
}

func (b *Base) Load(key string) (string, error) {
	if b.loadFault(key) {
		return "", ErrInjected
	}
	return b.Inner.Load(key)
}

func (b *Base) LoadRange(key, endKey string, limit int) ([]string, []string, error) {
	if b.loadFault(key) {
		return nil, nil, ErrInjected
	}
	return b.Inner.LoadRange(key, endKey, limit)
}

func (b *Base) Save(key, value string) error {
	switch b.next("S", key, value) {
	case FailBefore:
		return ErrInjected
	case FailAfter:
		if err := b.Inner.Save(key, value); err != nil {
			return err
		}
		return ErrInjected
	}
	return b.Inner.Save(key, value)
}

func (b *Base) Remove(key string) error {
	switch b.next("R", key, "") {
	case FailBefore:
		return ErrInjected
	case FailAfter:
		if err := b.Inner.Remove(key); err != nil {
			return err
		}
		return ErrInjected
	}
	return b.Inner.Remove(key)
}
