// Package kvx15 is a controlled kv.Base: it wraps the kv.Base embedded in core.Storage
// (`s.GetStorage().Base = kvx15.New(s.GetStorage().Base)`; the field is exported, PD is untouched)
// and lets a driver park, release and fail single storage operations of chosen goroutines.
//
// kv.Base methods carry no context, so the caller identity ("who") is a goroutine-local
// registry: a driver goroutine calls Bind("A") before it calls a real gRPC handler method; every
// storage operation the handler issues on that goroutine is attributed to "A". Operations of
// unbound goroutines (the server's background jobs) pass through untouched.
package kvx15

import (
	"bytes"
	"errors"
	"runtime"
	"strconv"
	"sync"

	"github.com/tikv/pd/server/kv"
)

type Kind int

const (
	Load Kind = iota
	LoadRange
	Save
	Remove
)

func (k Kind) String() string { return [...]string{"Load", "LoadRange", "Save", "Remove"}[k] }

// Op is one storage operation as issued by PD.
type Op struct {
	Kind  Kind
	Key   string
	End   string
	Value string
}

// Mode of an armed operation.
type Mode int

const (
	Pass       Mode = iota
	Park            // block before the operation is sent until Release
	FailBefore      // return an error, send nothing           (ErrNotApplied)
	FailAfter       // send, then return an error nevertheless (ErrApplied)
	PassSlow        // EtcdKV only: etcd takes the rule's delay over the transaction and applies it then, whether or not the caller still waits
	PassHold        // EtcdKV only: send; if the transaction succeeded, hold its answer (park again) until the next Release
)

// ErrInjected is the error returned for FailBefore / FailAfter.
var ErrInjected = errors.New("verif: injected storage error")

// Step is one entry of a script: the first not yet used step whose Match accepts an operation of the bound
// goroutine fires: Before (if any) runs on that goroutine, unbound for its duration (so that what it does to the
// storage is not attributed to the caller), then the operation is executed with Mode (Pass/FailBefore/FailAfter).
type Step struct {
	Match  func(Op) bool
	Before func()
	Mode   Mode
	used   bool
}

type rule struct {
	script  []*Step
	match   func(Op) bool
	mode    Mode
	parked  chan Op
	release chan Mode
	log     []Op
}

type Base struct {
	kv.Base
	anyScript []*Step // steps for the operations of goroutines that are NOT bound (the server's own background work)
	mu    sync.Mutex
	gids  map[int64]string
	rules map[string]*rule
}

func New(inner kv.Base) *Base {
	return &Base{Base: inner, gids: map[int64]string{}, rules: map[string]*rule{}}
}

// Inner returns the wrapped kv.Base (for direct, uncontrolled access by the driver).
func (b *Base) Inner() kv.Base { return b.Base }

func gid() int64 {
	var buf [64]byte
	n := runtime.Stack(buf[:], false)
	// "goroutine 123 [running]:..."
	f := bytes.Fields(buf[:n])
	if len(f) < 2 {
		return -1
	}
	id, err := strconv.ParseInt(string(f[1]), 10, 64)
	if err != nil {
		return -1
	}
	return id
}

func (b *Base) ruleOf(who string) *rule {
	r := b.rules[who]
	if r == nil {
		r = &rule{parked: make(chan Op, 1), release: make(chan Mode, 1)}
		b.rules[who] = r
	}
	return r
}

// Bind attributes every storage operation of the calling goroutine to `who`.
func (b *Base) Bind(who string) {
	b.mu.Lock()
	b.gids[gid()] = who
	b.ruleOf(who)
	b.mu.Unlock()
}

// Unbind removes the attribution of the calling goroutine.
func (b *Base) Unbind() {
	b.mu.Lock()
	delete(b.gids, gid())
	b.mu.Unlock()
}

// Arm sets the mode of the next operation of `who` that satisfies match (nil = any operation).
func (b *Base) Arm(who string, match func(Op) bool, m Mode) {
	b.mu.Lock()
	r := b.ruleOf(who)
	r.match, r.mode = match, m
	b.mu.Unlock()
}

// Script installs a list of single-use steps for `who` (replacing an earlier script); nil removes it.
func (b *Base) Script(who string, steps []*Step) {
	b.mu.Lock()
	b.ruleOf(who).script = steps
	b.mu.Unlock()
}

// ScriptAny installs single-use steps that apply to the storage operations of UNBOUND goroutines, i.e. of the server's
// own background work such as the leader loop loading the cluster after a campaign (nil removes them).
func (b *Base) ScriptAny(steps []*Step) {
	b.mu.Lock()
	b.anyScript = steps
	b.mu.Unlock()
}

// FiredAny reports how many steps of the ScriptAny script have fired.
func (b *Base) FiredAny() int {
	b.mu.Lock()
	defer b.mu.Unlock()
	n := 0
	for _, s := range b.anyScript {
		if s.used {
			n++
		}
	}
	return n
}

// Fired reports how many steps of the script of `who` have fired.
func (b *Base) Fired(who string) int {
	b.mu.Lock()
	defer b.mu.Unlock()
	n := 0
	for _, s := range b.ruleOf(who).script {
		if s.used {
			n++
		}
	}
	return n
}

// Disarm cancels an armed mode that did not fire.
func (b *Base) Disarm(who string) { b.Arm(who, nil, Pass) }

// Parked is signalled (with the operation) when an operation of `who` has been parked.
func (b *Base) Parked(who string) <-chan Op {
	b.mu.Lock()
	defer b.mu.Unlock()
	return b.ruleOf(who).parked
}

// Release lets the parked operation of `who` continue with outcome m (Pass, FailBefore, FailAfter).
func (b *Base) Release(who string, m Mode) {
	b.mu.Lock()
	r := b.ruleOf(who)
	b.mu.Unlock()
	r.release <- m
}

// Log returns (and clears) the operations `who` issued since the last call.
func (b *Base) Log(who string) []Op {
	b.mu.Lock()
	defer b.mu.Unlock()
	r := b.ruleOf(who)
	l := r.log
	r.log = nil
	return l
}

// enter decides what happens to op; it returns the mode to execute with (never Park).
func (b *Base) enter(op Op) Mode {
	b.mu.Lock()
	who, ok := b.gids[gid()]
	if !ok {
		for _, st := range b.anyScript {
			if !st.used && st.Match(op) {
				st.used = true
				b.mu.Unlock()
				if st.Before != nil {
					st.Before()
				}
				return st.Mode
			}
		}
		b.mu.Unlock()
		return Pass
	}
	r := b.ruleOf(who)
	r.log = append(r.log, op)
	for _, st := range r.script {
		if !st.used && st.Match(op) {
			st.used = true
			g := gid()
			delete(b.gids, g)
			b.mu.Unlock()
			if st.Before != nil {
				st.Before()
			}
			b.mu.Lock()
			b.gids[g] = who
			b.mu.Unlock()
			return st.Mode
		}
	}
	m := Pass
	if r.mode != Pass && (r.match == nil || r.match(op)) {
		m = r.mode
		r.mode, r.match = Pass, nil
	}
	b.mu.Unlock()
	if m == Park {
		r.parked <- op
		m = <-r.release
		if m == Park {
			m = Pass
		}
	}
	return m
}

func (b *Base) Load(key string) (string, error) {
	switch b.enter(Op{Kind: Load, Key: key}) {
	case FailBefore:
		return "", ErrInjected
	case FailAfter:
		_, _ = b.Base.Load(key)
		return "", ErrInjected
	}
	return b.Base.Load(key)
}

func (b *Base) LoadRange(key, endKey string, limit int) ([]string, []string, error) {
	switch b.enter(Op{Kind: LoadRange, Key: key, End: endKey}) {
	case FailBefore:
		return nil, nil, ErrInjected
	case FailAfter:
		_, _, _ = b.Base.LoadRange(key, endKey, limit)
		return nil, nil, ErrInjected
	}
	return b.Base.LoadRange(key, endKey, limit)
}

func (b *Base) Save(key, value string) error {
	switch b.enter(Op{Kind: Save, Key: key, Value: value}) {
	case FailBefore:
		return ErrInjected
	case FailAfter:
		if err := b.Base.Save(key, value); err != nil {
			return err
		}
		return ErrInjected
	}
	return b.Base.Save(key, value)
}

func (b *Base) Remove(key string) error {
	switch b.enter(Op{Kind: Remove, Key: key}) {
	case FailBefore:
		return ErrInjected
	case FailAfter:
		if err := b.Base.Remove(key); err != nil {
			return err
		}
		return ErrInjected
	}
	return b.Base.Remove(key)
}
