package kvx15

import (
	"context"
	"strings"
	"sync"
	"time"

	"go.etcd.io/etcd/clientv3"
	"go.etcd.io/etcd/etcdserver/etcdserverpb"
	"google.golang.org/grpc"
)

// Hold holds ONE chosen etcd request of a client dialled with DialHeld: either before it is sent or after etcd has
// answered it (a slow network, a GC pause - nothing that changes what etcd does). Requests are chosen by gRPC method
// ("/etcdserverpb.KV/Range", "/etcdserverpb.KV/Txn") and by the suffix of the key they read / put.
type Hold struct {
	mu      sync.Mutex
	method  string
	suffix  string
	after   bool
	reached chan struct{}
	release chan struct{}
}

const (
	MethodRange = "/etcdserverpb.KV/Range"
	MethodTxn   = "/etcdserverpb.KV/Txn"
)

// Arm: the next matching request is held; `reached` is closed when it is, closing `release` lets it go on.
func (h *Hold) Arm(method, suffix string, after bool) (reached, release chan struct{}) {
	h.mu.Lock()
	defer h.mu.Unlock()
	h.method, h.suffix, h.after = method, suffix, after
	h.reached, h.release = make(chan struct{}), make(chan struct{})
	return h.reached, h.release
}

// Disarm cancels a hold that has not fired.
func (h *Hold) Disarm() {
	h.mu.Lock()
	h.method = ""
	h.mu.Unlock()
}

func (h *Hold) take(method string, req interface{}) (after bool, reached, release chan struct{}) {
	h.mu.Lock()
	defer h.mu.Unlock()
	if h.method == "" || h.method != method {
		return false, nil, nil
	}
	key := ""
	switch r := req.(type) {
	case *etcdserverpb.RangeRequest:
		key = string(r.Key)
	case *etcdserverpb.TxnRequest:
		if len(r.Success) == 1 && r.Success[0].GetRequestPut() != nil {
			key = string(r.Success[0].GetRequestPut().Key)
		}
	}
	if key == "" || !strings.HasSuffix(key, h.suffix) {
		return false, nil, nil
	}
	h.method = ""
	return h.after, h.reached, h.release
}

func (h *Hold) intercept(ctx context.Context, method string, req, reply interface{}, cc *grpc.ClientConn,
	invoker grpc.UnaryInvoker, opts ...grpc.CallOption) error {
	after, reached, release := h.take(method, req)
	if reached == nil {
		return invoker(ctx, method, req, reply, cc, opts...)
	}
	if !after {
		close(reached)
		<-release
		return invoker(ctx, method, req, reply, cc, opts...)
	}
	// the request's own deadline must not expire while its answer is held: invoke with a detached context
	err := invoker(context.Background(), method, req, reply, cc, opts...)
	close(reached)
	<-release
	return err
}

// DialHeld dials the given etcd endpoints with a client whose unary requests can be held.
func DialHeld(endpoints []string) (*clientv3.Client, *Hold, error) {
	h := &Hold{}
	c, err := clientv3.New(clientv3.Config{Endpoints: endpoints, DialTimeout: 5 * time.Second,
		DialOptions: []grpc.DialOption{grpc.WithChainUnaryInterceptor(h.intercept)}})
	return c, h, err
}
