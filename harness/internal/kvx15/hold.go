package kvx15

import (
	"context"
	"strings"
	"sync"
	"time"

	"go.etcd.io/etcd/clientv3"
	"go.etcd.io/etcd/etcdserver/etcdserverpb"
	"google.golang.org/grpc"
	"google.golang.org/grpc/codes"
	"google.golang.org/grpc/status"
)

// Hold holds ONE chosen etcd request of a client dialled with DialHeld: either before it is sent or after etcd has
// answered it (a slow network, a GC pause - nothing that changes what etcd does). Requests are chosen by gRPC method
// ("/etcdserverpb.KV/Range", "/etcdserverpb.KV/Txn") and by the suffix of the key they read / put.
type Hold struct {
	mu      sync.Mutex
	method  string
	suffix  string
	after   bool
	reached chan struct{}
	release chan struct{}

	failSuffix string // transactions that put / delete a key with this suffix fail (are not sent) ...
	failLeft   int    // ... this many more times
	failed     int
}

const (
	MethodRange = "/etcdserverpb.KV/Range"
	MethodTxn   = "/etcdserverpb.KV/Txn"
)

// Arm: the next matching request is held; `reached` is closed when it is, closing `release` lets it go on.
func (h *Hold) Arm(method, suffix string, after bool) (reached, release chan struct{}) {
	h.mu.Lock()
	defer h.mu.Unlock()
	h.method, h.suffix, h.after = method, suffix, after
	h.reached, h.release = make(chan struct{}), make(chan struct{})
	return h.reached, h.release
}

// FailTxn: the next `times` transactions of this client that put or delete a key ending in suffix fail with a transport
// error and are not sent (etcd cannot commit writes for a while; reads and everything else still work).
func (h *Hold) FailTxn(suffix string, times int) {
	h.mu.Lock()
	h.failSuffix, h.failLeft = suffix, times
	h.mu.Unlock()
}

// Failed reports how many transactions FailTxn has failed so far (cumulative).
func (h *Hold) Failed() int {
	h.mu.Lock()
	defer h.mu.Unlock()
	return h.failed
}

// Disarm cancels a hold that has not fired.
func (h *Hold) Disarm() {
	h.mu.Lock()
	h.method = ""
	h.mu.Unlock()
}

func (h *Hold) take(method string, req interface{}) (after bool, reached, release chan struct{}) {
	h.mu.Lock()
	defer h.mu.Unlock()
	if h.method == "" || h.method != method {
		return false, nil, nil
	}
	key := ""
	switch r := req.(type) {
	case *etcdserverpb.RangeRequest:
		key = string(r.Key)
	case *etcdserverpb.TxnRequest:
		key = txnKey(r)
	}
	if key == "" || !strings.HasSuffix(key, h.suffix) {
		return false, nil, nil
	}
	h.method = ""
	return h.after, h.reached, h.release
}

func txnKey(req interface{}) string {
	r, ok := req.(*etcdserverpb.TxnRequest)
	if !ok || len(r.Success) != 1 {
		return ""
	}
	if p := r.Success[0].GetRequestPut(); p != nil {
		return string(p.Key)
	}
	if d := r.Success[0].GetRequestDeleteRange(); d != nil {
		return string(d.Key)
	}
	return ""
}

func (h *Hold) intercept(ctx context.Context, method string, req, reply interface{}, cc *grpc.ClientConn,
	invoker grpc.UnaryInvoker, opts ...grpc.CallOption) error {
	if method == MethodTxn {
		h.mu.Lock()
		if k := txnKey(req); h.failLeft > 0 && k != "" && strings.HasSuffix(k, h.failSuffix) {
			h.failLeft--
			h.failed++
			h.mu.Unlock()
			return status.Error(codes.Unknown, "verif: injected etcd write failure")
		}
		h.mu.Unlock()
	}
	after, reached, release := h.take(method, req)
	if reached == nil {
		return invoker(ctx, method, req, reply, cc, opts...)
	}
	if !after {
		close(reached)
		<-release
		return invoker(ctx, method, req, reply, cc, opts...)
	}
	// the request's own deadline must not expire while its answer is held: invoke with a detached context
	err := invoker(context.Background(), method, req, reply, cc, opts...)
	close(reached)
	<-release
	return err
}

// DialHeld dials the given etcd endpoints with a client whose unary requests can be held.
func DialHeld(endpoints []string) (*clientv3.Client, *Hold, error) {
	h := &Hold{}
	c, err := clientv3.New(clientv3.Config{Endpoints: endpoints, DialTimeout: 5 * time.Second,
		DialOptions: []grpc.DialOption{grpc.WithChainUnaryInterceptor(h.intercept)}})
	return c, h, err
}
