package kvx15

import (
	"context"
	"sync"
	"time"

	"go.etcd.io/etcd/clientv3"
)

// EtcdKV is a controlled clientv3.KV for a *shared* client (the one inside a running server.Server:
// `cli := s.GetClient(); cli.KV = kvx15.NewEtcdKV(cli.KV)`): transactions committed by goroutines that
// called Bind(who) can be parked before they are sent, released with an outcome, or failed; everything
// else (the server's own background transactions, leases, gets) passes through untouched.
type EtcdKV struct {
	clientv3.KV
	mu    sync.Mutex
	gids  map[int64]string
	rules map[string]*erule
}

type erule struct {
	delay   time.Duration // PassSlow
	mode    Mode
	parked  chan struct{}
	release chan Mode
}

func NewEtcdKV(inner clientv3.KV) *EtcdKV {
	return &EtcdKV{KV: inner, gids: map[int64]string{}, rules: map[string]*erule{}}
}

func (k *EtcdKV) ruleOf(who string) *erule {
	r := k.rules[who]
	if r == nil {
		r = &erule{parked: make(chan struct{}, 1), release: make(chan Mode, 1)}
		k.rules[who] = r
	}
	return r
}

// Bind attributes every transaction committed by the calling goroutine to `who`.
func (k *EtcdKV) Bind(who string) {
	k.mu.Lock()
	k.gids[gid()] = who
	k.ruleOf(who)
	k.mu.Unlock()
}

func (k *EtcdKV) Unbind() {
	k.mu.Lock()
	delete(k.gids, gid())
	k.mu.Unlock()
}

// Arm sets the mode of the next transaction commit of `who`.
func (k *EtcdKV) Arm(who string, m Mode) {
	k.mu.Lock()
	k.ruleOf(who).mode = m
	k.mu.Unlock()
}

func (k *EtcdKV) Parked(who string) <-chan struct{} {
	k.mu.Lock()
	defer k.mu.Unlock()
	return k.ruleOf(who).parked
}

func (k *EtcdKV) Release(who string, m Mode) {
	k.mu.Lock()
	r := k.ruleOf(who)
	k.mu.Unlock()
	r.release <- m
}

// SetDelay: how long etcd takes over a transaction of `who` released with PassSlow.
func (k *EtcdKV) SetDelay(who string, d time.Duration) {
	k.mu.Lock()
	k.ruleOf(who).delay = d
	k.mu.Unlock()
}

func (k *EtcdKV) Txn(ctx context.Context) clientv3.Txn {
	// `late` is the same transaction on a context of its own: what etcd does with a proposal it has accepted does not
	// depend on whether the client that sent it is still waiting
	return &etxn{k: k, ctx: ctx, inner: k.KV.Txn(ctx), late: k.KV.Txn(context.Background())}
}

type etxn struct {
	k     *EtcdKV
	ctx   context.Context
	inner clientv3.Txn
	late  clientv3.Txn
}

func (t *etxn) If(cs ...clientv3.Cmp) clientv3.Txn {
	t.inner, t.late = t.inner.If(cs...), t.late.If(cs...)
	return t
}
func (t *etxn) Then(ops ...clientv3.Op) clientv3.Txn {
	t.inner, t.late = t.inner.Then(ops...), t.late.Then(ops...)
	return t
}
func (t *etxn) Else(ops ...clientv3.Op) clientv3.Txn {
	t.inner, t.late = t.inner.Else(ops...), t.late.Else(ops...)
	return t
}

func (t *etxn) Commit() (*clientv3.TxnResponse, error) {
	k := t.k
	k.mu.Lock()
	who, ok := k.gids[gid()]
	m := Pass
	var r *erule
	if ok {
		r = k.ruleOf(who)
		m = r.mode
		r.mode = Pass
	}
	k.mu.Unlock()
	if m == Park {
		r.parked <- struct{}{}
		m = <-r.release
	}
	switch m {
	case PassSlow:
		type res struct {
			r *clientv3.TxnResponse
			e error
		}
		ch := make(chan res, 1)
		d := r.delay
		go func() {
			time.Sleep(d)
			x, e := t.late.Commit()
			ch <- res{x, e}
		}()
		select {
		case x := <-ch:
			return x.r, x.e
		case <-t.ctx.Done():
			return nil, t.ctx.Err()
		}
	case PassHold:
		// etcd applies the transaction; a winner does not learn it yet
		resp, err := t.inner.Commit()
		if err == nil && resp.Succeeded {
			r.parked <- struct{}{}
			<-r.release
		}
		return resp, err
	case FailBefore:
		return nil, ErrInjected
	case FailAfter:
		if _, err := t.inner.Commit(); err != nil {
			return nil, err
		}
		return nil, ErrInjected
	}
	return t.inner.Commit()
}
