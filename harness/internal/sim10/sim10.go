// Package sim10 is the small store simulator of C10/C11: it applies the steps of an operator the real code
// returned to a region, one by one, with TiKV's conf-change rules (the same semantics as `apply_step` in
// coq/lib/C10_Cluster.v), and cross-checks each step against the real OpStep.CheckSafety / IsFinish.
package sim10

import (
	"fmt"
	"sort"
	"strings"

	"github.com/pingcap/kvproto/pkg/metapb"
	"github.com/tikv/pd/server/core"
	"github.com/tikv/pd/server/schedule/operator"
)

type Peer struct {
	ID, Store uint64
	Role      metapb.PeerRole
}

type State struct {
	Peers  []Peer
	Leader uint64 // store id, 0 = none
}

func FromRegion(r *core.RegionInfo) State {
	var s State
	for _, p := range r.GetPeers() {
		s.Peers = append(s.Peers, Peer{p.GetId(), p.GetStoreId(), p.GetRole()})
	}
	s.Leader = r.GetLeader().GetStoreId()
	return s
}

func (s State) clone() State {
	return State{Peers: append([]Peer(nil), s.Peers...), Leader: s.Leader}
}

func (s State) on(store uint64) int {
	for i, p := range s.Peers {
		if p.Store == store {
			return i
		}
	}
	return -1
}

// Region builds a RegionInfo of this state (same id, keys and epoch as base) for the real step methods.
func (s State) Region(base *core.RegionInfo) *core.RegionInfo {
	meta := &metapb.Region{Id: base.GetID(), StartKey: base.GetStartKey(), EndKey: base.GetEndKey(), RegionEpoch: base.GetRegionEpoch()}
	var leader *metapb.Peer
	for _, p := range s.Peers {
		mp := &metapb.Peer{Id: p.ID, StoreId: p.Store, Role: p.Role}
		meta.Peers = append(meta.Peers, mp)
		if p.Store == s.Leader && leader == nil {
			leader = mp
		}
	}
	return core.NewRegionInfo(meta, leader)
}

// Apply applies one step; an error means TiKV would reject it / it is unsafe at this point.
func Apply(s State, st operator.OpStep) (State, error) {
	n := s.clone()
	addPeer := func(store, id uint64, role metapb.PeerRole) (State, error) {
		if n.on(store) >= 0 {
			return s, fmt.Errorf("store %d already holds a peer", store)
		}
		n.Peers = append(n.Peers, Peer{id, store, role})
		return n, nil
	}
	expect := func(store, id uint64, role metapb.PeerRole) (int, error) {
		i := n.on(store)
		if i < 0 || n.Peers[i].ID != id || n.Peers[i].Role != role {
			return -1, fmt.Errorf("no %v peer %d on store %d", role, id, store)
		}
		return i, nil
	}
	switch x := st.(type) {
	case operator.TransferLeader:
		i := n.on(x.ToStore)
		if i < 0 || (n.Peers[i].Role != metapb.PeerRole_Voter && n.Peers[i].Role != metapb.PeerRole_IncomingVoter) {
			return s, fmt.Errorf("no voter on store %d to lead", x.ToStore)
		}
		n.Leader = x.ToStore
		return n, nil
	case operator.AddPeer:
		return addPeer(x.ToStore, x.PeerID, metapb.PeerRole_Voter)
	case operator.AddLightPeer:
		return addPeer(x.ToStore, x.PeerID, metapb.PeerRole_Voter)
	case operator.AddLearner:
		return addPeer(x.ToStore, x.PeerID, metapb.PeerRole_Learner)
	case operator.AddLightLearner:
		return addPeer(x.ToStore, x.PeerID, metapb.PeerRole_Learner)
	case operator.PromoteLearner:
		i, err := expect(x.ToStore, x.PeerID, metapb.PeerRole_Learner)
		if err != nil {
			return s, err
		}
		n.Peers[i].Role = metapb.PeerRole_Voter
		return n, nil
	case operator.DemoteFollower:
		i, err := expect(x.ToStore, x.PeerID, metapb.PeerRole_Voter)
		if err != nil {
			return s, err
		}
		if x.ToStore == n.Leader {
			return s, fmt.Errorf("cannot demote the leader")
		}
		n.Peers[i].Role = metapb.PeerRole_Learner
		return n, nil
	case operator.RemovePeer:
		if x.FromStore == n.Leader {
			return s, fmt.Errorf("cannot remove the leader")
		}
		var ps []Peer
		for _, p := range n.Peers {
			if p.Store != x.FromStore {
				ps = append(ps, p)
			}
		}
		n.Peers = ps
		return n, nil
	case operator.ChangePeerV2Enter:
		for _, p := range n.Peers {
			if p.Role == metapb.PeerRole_IncomingVoter || p.Role == metapb.PeerRole_DemotingVoter {
				return s, fmt.Errorf("already in joint state")
			}
		}
		for _, pl := range x.PromoteLearners {
			if _, err := expect(pl.ToStore, pl.PeerID, metapb.PeerRole_Learner); err != nil {
				return s, err
			}
		}
		for _, dv := range x.DemoteVoters {
			if _, err := expect(dv.ToStore, dv.PeerID, metapb.PeerRole_Voter); err != nil {
				return s, err
			}
		}
		for _, pl := range x.PromoteLearners {
			n.Peers[n.on(pl.ToStore)].Role = metapb.PeerRole_IncomingVoter
		}
		for _, dv := range x.DemoteVoters {
			n.Peers[n.on(dv.ToStore)].Role = metapb.PeerRole_DemotingVoter
		}
		return n, nil
	case operator.ChangePeerV2Leave:
		li := n.on(n.Leader)
		if li < 0 {
			return s, fmt.Errorf("no leader")
		}
		if n.Peers[li].Role == metapb.PeerRole_DemotingVoter {
			return s, fmt.Errorf("leader is demoting")
		}
		for i := range n.Peers {
			switch n.Peers[i].Role {
			case metapb.PeerRole_IncomingVoter:
				n.Peers[i].Role = metapb.PeerRole_Voter
			case metapb.PeerRole_DemotingVoter:
				n.Peers[i].Role = metapb.PeerRole_Learner
			}
		}
		return n, nil
	case operator.SplitRegion, operator.MergeRegion:
		return n, nil
	}
	return s, fmt.Errorf("unknown step %T", st)
}

type Trace struct {
	Steps     []operator.OpStep
	States    []State  // len(Steps)+1 when every step applied
	Err       string   // simulator rejected a step
	ErrAt     int      // index of that step
	Anomalies []string // disagreements with the real CheckSafety / IsFinish
}

// Run applies all steps of op to region.
func Run(region *core.RegionInfo, op *operator.Operator) *Trace {
	t := &Trace{ErrAt: -1}
	s := FromRegion(region)
	t.States = append(t.States, s)
	for i := 0; i < op.Len(); i++ {
		st := op.Step(i)
		t.Steps = append(t.Steps, st)
	}
	for i, st := range t.Steps {
		if err := st.CheckSafety(s.Region(region)); err != nil {
			t.Anomalies = append(t.Anomalies, fmt.Sprintf("step %d (%s): real CheckSafety: %v", i, st, err))
		}
		n, err := Apply(s, st)
		if err != nil {
			t.Err = fmt.Sprintf("step %d (%s): %v", i, st, err)
			t.ErrAt = i
			return t
		}
		_, isSplit := st.(operator.SplitRegion)
		_, isMerge := st.(operator.MergeRegion)
		if isSplit || isMerge {
			// key-range changes are outside the simulator (membership only): their IsFinish looks at keys / epochs
			s = n
			t.States = append(t.States, s)
			continue
		}
		if !st.IsFinish(n.Region(region)) {
			t.Anomalies = append(t.Anomalies, fmt.Sprintf("step %d (%s): real IsFinish false after the step was applied", i, st))
		}
		s = n
		t.States = append(t.States, s)
	}
	return t
}

func (t *Trace) Final() State { return t.States[len(t.States)-1] }

// ---- Coq printing (constructors of lib/C10_Cluster.v) ----

func z(v uint64) string { return fmt.Sprintf("%d", v) }

func CoqRole(r metapb.PeerRole) string {
	switch r {
	case metapb.PeerRole_Voter:
		return "Voter"
	case metapb.PeerRole_Learner:
		return "Learner"
	case metapb.PeerRole_IncomingVoter:
		return "Incoming"
	case metapb.PeerRole_DemotingVoter:
		return "Demoting"
	}
	return "Voter"
}

func CoqPeer(p Peer) string { return fmt.Sprintf("Peer %d %d %s", p.ID, p.Store, CoqRole(p.Role)) }

func CoqPeers(ps []Peer) string {
	xs := make([]string, len(ps))
	for i, p := range ps {
		xs[i] = CoqPeer(p)
	}
	return "[" + strings.Join(xs, "; ") + "]"
}

func CoqState(s State) string { return fmt.Sprintf("(RState %s %d)", CoqPeers(s.Peers), s.Leader) }

func pairs(pl []operator.PromoteLearner, dv []operator.DemoteVoter) (string, string) {
	var a, b []string
	for _, p := range pl {
		a = append(a, fmt.Sprintf("(%d, %d)", p.ToStore, p.PeerID))
	}
	for _, d := range dv {
		b = append(b, fmt.Sprintf("(%d, %d)", d.ToStore, d.PeerID))
	}
	return "[" + strings.Join(a, "; ") + "]", "[" + strings.Join(b, "; ") + "]"
}

func CoqStep(st operator.OpStep) string {
	switch x := st.(type) {
	case operator.TransferLeader:
		return fmt.Sprintf("TransferLeaderS %d %d", x.FromStore, x.ToStore)
	case operator.AddPeer:
		return fmt.Sprintf("AddPeerS %d %d", x.ToStore, x.PeerID)
	case operator.AddLightPeer:
		return fmt.Sprintf("AddPeerS %d %d", x.ToStore, x.PeerID)
	case operator.AddLearner:
		return fmt.Sprintf("AddLearnerS %d %d", x.ToStore, x.PeerID)
	case operator.AddLightLearner:
		return fmt.Sprintf("AddLearnerS %d %d", x.ToStore, x.PeerID)
	case operator.PromoteLearner:
		return fmt.Sprintf("PromoteLearnerS %d %d", x.ToStore, x.PeerID)
	case operator.DemoteFollower:
		return fmt.Sprintf("DemoteFollowerS %d %d", x.ToStore, x.PeerID)
	case operator.RemovePeer:
		return fmt.Sprintf("RemovePeerS %d", x.FromStore)
	case operator.ChangePeerV2Enter:
		a, b := pairs(x.PromoteLearners, x.DemoteVoters)
		return fmt.Sprintf("EnterJointS %s %s", a, b)
	case operator.ChangePeerV2Leave:
		a, b := pairs(x.PromoteLearners, x.DemoteVoters)
		return fmt.Sprintf("LeaveJointS %s %s", a, b)
	}
	return "OtherS"
}

func CoqSteps(steps []operator.OpStep) string {
	xs := make([]string, len(steps))
	for i, s := range steps {
		xs[i] = CoqStep(s)
	}
	return "[" + strings.Join(xs, "; ") + "]"
}

// Summary is a compact canonical text of an operator for hashing / logs.
func Summary(op *operator.Operator) string {
	var xs []string
	for i := 0; i < op.Len(); i++ {
		xs = append(xs, op.Step(i).String())
	}
	return op.Desc() + ": " + strings.Join(xs, "; ")
}

// StoresOf returns the sorted store ids of a state.
func StoresOf(s State) []uint64 {
	var out []uint64
	for _, p := range s.Peers {
		out = append(out, p.Store)
	}
	sort.Slice(out, func(i, j int) bool { return out[i] < out[j] })
	return out
}

var _ = z

// ---- the same things in the vocabulary of coq/model/C08_Steps.v (fully qualified), for C08's verified plan checker ----

func c08Role(r metapb.PeerRole) string { return "C08_Steps." + CoqRole(r) }

// Coq08Region prints `C08_Steps.Region peers leader conf_ver rng`.
func Coq08Region(r *core.RegionInfo) string {
	var ps []string
	for _, p := range r.GetPeers() {
		ps = append(ps, fmt.Sprintf("C08_Steps.Peer %d %d %s", p.GetStoreId(), p.GetId(), c08Role(p.GetRole())))
	}
	return fmt.Sprintf("(C08_Steps.Region [%s] %d %d 0)", strings.Join(ps, "; "), r.GetLeader().GetStoreId(), r.GetRegionEpoch().GetConfVer())
}

func Coq08Step(st operator.OpStep) string {
	switch x := st.(type) {
	case operator.TransferLeader:
		return fmt.Sprintf("C08_Steps.TransferLeader %d %d", x.FromStore, x.ToStore)
	case operator.AddPeer:
		return fmt.Sprintf("C08_Steps.AddPeer %d %d", x.ToStore, x.PeerID)
	case operator.AddLightPeer:
		return fmt.Sprintf("C08_Steps.AddLightPeer %d %d", x.ToStore, x.PeerID)
	case operator.AddLearner:
		return fmt.Sprintf("C08_Steps.AddLearner %d %d", x.ToStore, x.PeerID)
	case operator.AddLightLearner:
		return fmt.Sprintf("C08_Steps.AddLightLearner %d %d", x.ToStore, x.PeerID)
	case operator.PromoteLearner:
		return fmt.Sprintf("C08_Steps.PromoteLearner %d %d", x.ToStore, x.PeerID)
	case operator.DemoteFollower:
		return fmt.Sprintf("C08_Steps.DemoteFollower %d %d", x.ToStore, x.PeerID)
	case operator.RemovePeer:
		return fmt.Sprintf("C08_Steps.RemovePeer %d %d", x.FromStore, x.PeerID)
	case operator.ChangePeerV2Enter:
		a, b := pairs(x.PromoteLearners, x.DemoteVoters)
		return fmt.Sprintf("C08_Steps.ChangePeerV2Enter %s %s", a, b)
	case operator.ChangePeerV2Leave:
		a, b := pairs(x.PromoteLearners, x.DemoteVoters)
		return fmt.Sprintf("C08_Steps.ChangePeerV2Leave %s %s", a, b)
	case operator.MergeRegion:
		return fmt.Sprintf("C08_Steps.MergeRegion %v 0", x.IsPassive)
	}
	return "C08_Steps.SplitRegion 0"
}

func Coq08Steps(steps []operator.OpStep) string {
	xs := make([]string, len(steps))
	for i, s := range steps {
		xs[i] = Coq08Step(s)
	}
	return "[" + strings.Join(xs, "; ") + "]"
}
