// Package coqfmt prints Go observations as Coq terms and writes case files.
package coqfmt

import (
	"fmt"
	"os"
	"path/filepath"
	"strings"
)

func Z(v int64) string {
	if v < 0 {
		return fmt.Sprintf("(%d)%%Z", v)
	}
	return fmt.Sprintf("%d%%Z", v)
}
func ZU(v uint64) string { return fmt.Sprintf("%d%%Z", v) }
func N(v uint64) string  { return fmt.Sprintf("%d%%N", v) }
func Nat(v int) string   { return fmt.Sprintf("%d%%nat", v) }
func Bool(b bool) string {
	if b {
		return "true"
	}
	return "false"
}
func OptZ(v *int64) string {
	if v == nil {
		return "None"
	}
	return "(Some " + Z(*v) + ")"
}
func Opt(s string, present bool) string {
	if !present {
		return "None"
	}
	return "(Some " + s + ")"
}
func List(xs []string) string { return "[" + strings.Join(xs, "; ") + "]" }
func Pair(a, b string) string { return "(" + a + ", " + b + ")" }

// Str prints a Go string as a list of byte codes (list N), the key representation of lib/Base.
func Bytes(b []byte) string {
	xs := make([]string, len(b))
	for i, c := range b {
		xs[i] = fmt.Sprintf("%d", c)
	}
	return "[" + strings.Join(xs, ";") + "]%N"
}

// CaseFile writes cases_<shard>.v : header, `Definition cases := [...]`, and the footer that makes
// coqc print the verdict lines bin/check greps for.
type CaseFile struct {
	Dir     string
	Prefix  string // e.g. "C04"
	Header  string // Require lines
	Type    string // Coq type of one case
	Footer  string // uses `cases`; must Print definitions named M... (see bin/check)
	PerFile int
	cur     []string
	shard   int
	Files   []string
}

func (c *CaseFile) Add(term string) error {
	c.cur = append(c.cur, term)
	if len(c.cur) >= c.PerFile {
		return c.Flush()
	}
	return nil
}

func (c *CaseFile) Flush() error {
	if len(c.cur) == 0 {
		return nil
	}
	name := fmt.Sprintf("cases_%s_%03d.v", c.Prefix, c.shard)
	p := filepath.Join(c.Dir, name)
	var sb strings.Builder
	sb.WriteString(c.Header)
	sb.WriteString("\nDefinition cases : list (" + c.Type + ") := [\n")
	sb.WriteString(strings.Join(c.cur, ";\n"))
	sb.WriteString("\n].\n")
	sb.WriteString(c.Footer)
	if err := os.WriteFile(p, []byte(sb.String()), 0o644); err != nil {
		return err
	}
	c.Files = append(c.Files, p)
	c.cur = nil
	c.shard++
	return nil
}
