// Package goast is the translator's library: it parses files of /repo's working tree and prints
// constants, call skeletons, comparison lists and call sites as Coq terms. It never compiles PD,
// so it keeps working on trees the harness cannot build.
package goast

import (
	"bytes"
	"fmt"
	"go/ast"
	"go/constant"
	"go/importer"
	"go/parser"
	"go/printer"
	"go/token"
	"go/types"
	"os"
	"path/filepath"
	"sort"
	"strings"
)

type File struct {
	Fset *token.FileSet
	AST  *ast.File
	Path string
	pkg  *types.Package
	info *types.Info
}

// Load parses one file; Must-style: a missing anchor is a hard error of the check.
func Load(repo, rel string) (*File, error) {
	p := filepath.Join(repo, rel)
	fset := token.NewFileSet()
	f, err := parser.ParseFile(fset, p, nil, parser.ParseComments)
	if err != nil {
		return nil, fmt.Errorf("anchor file %s: %v", rel, err)
	}
	return &File{Fset: fset, AST: f, Path: rel}, nil
}

// typecheck best-effort (errors for unresolved non-stdlib imports are ignored); enough to
// evaluate constant declarations that depend on literals and on the standard library (time.Second).
func (f *File) typecheck() {
	if f.pkg != nil {
		return
	}
	conf := types.Config{Importer: importer.ForCompiler(f.Fset, "source", nil), Error: func(error) {}, FakeImportC: true}
	f.info = &types.Info{Defs: map[*ast.Ident]types.Object{}, Types: map[ast.Expr]types.TypeAndValue{}}
	f.pkg, _ = conf.Check(f.AST.Name.Name, f.Fset, []*ast.File{f.AST}, f.info)
}

// ConstZ returns the exact integer value of a package-level constant (or of a var/const
// initialised with a constant expression), as a decimal string.
func (f *File) ConstZ(name string) (string, error) {
	f.typecheck()
	if f.pkg != nil {
		if o := f.pkg.Scope().Lookup(name); o != nil {
			if c, ok := o.(*types.Const); ok && c.Val() != nil && c.Val().Kind() != constant.Unknown {
				if v := constant.ToInt(c.Val()); v.Kind() == constant.Int {
					return v.ExactString(), nil
				}
				return "", fmt.Errorf("%s: constant %s is not an integer (%s)", f.Path, name, c.Val())
			}
		}
	}
	// var x = <const expr>
	for _, d := range f.AST.Decls {
		gd, ok := d.(*ast.GenDecl)
		if !ok {
			continue
		}
		for _, s := range gd.Specs {
			vs, ok := s.(*ast.ValueSpec)
			if !ok {
				continue
			}
			for i, n := range vs.Names {
				if n.Name == name && i < len(vs.Values) {
					if tv, ok := f.info.Types[vs.Values[i]]; ok && tv.Value != nil {
						if v := constant.ToInt(tv.Value); v.Kind() == constant.Int {
							return v.ExactString(), nil
						}
					}
				}
			}
		}
	}
	return "", fmt.Errorf("%s: constant %s not found or not evaluable", f.Path, name)
}

// ConstFloat returns a float constant as (numerator, denominator) strings.
func (f *File) ConstRat(name string) (string, string, error) {
	f.typecheck()
	if f.pkg != nil {
		if o := f.pkg.Scope().Lookup(name); o != nil {
			if c, ok := o.(*types.Const); ok && c.Val() != nil {
				v := constant.ToFloat(c.Val())
				if v.Kind() == constant.Float || v.Kind() == constant.Int {
					return constant.Num(v).ExactString(), constant.Denom(v).ExactString(), nil
				}
			}
		}
	}
	return "", "", fmt.Errorf("%s: constant %s not found", f.Path, name)
}

// Func finds a function or method; recv "" = plain function; recv "T" matches (x T) and (x *T).
func (f *File) Func(recv, name string) (*ast.FuncDecl, error) {
	for _, d := range f.AST.Decls {
		fd, ok := d.(*ast.FuncDecl)
		if !ok || fd.Name.Name != name {
			continue
		}
		r := ""
		if fd.Recv != nil && len(fd.Recv.List) > 0 {
			t := fd.Recv.List[0].Type
			if s, ok := t.(*ast.StarExpr); ok {
				t = s.X
			}
			if id, ok := t.(*ast.Ident); ok {
				r = id.Name
			}
		}
		if r == recv {
			return fd, nil
		}
	}
	return nil, fmt.Errorf("%s: anchor func (%s).%s not found", f.Path, recv, name)
}

func (f *File) Src(n ast.Node) string {
	var b bytes.Buffer
	printer.Fprint(&b, f.Fset, n)
	return strings.Join(strings.Fields(b.String()), " ")
}

func Q(s string) string { return "\"" + strings.ReplaceAll(s, "\"", "\"\"") + "\"" }

func CoqList(xs []string) string { return "[" + strings.Join(xs, "; ") + "]" }

// SkelOpt configures skeleton extraction.
type SkelOpt struct {
	Calls    map[string]bool // selector / function names reported as Call
	Assigns  map[string]bool // assigned field names (last selector component) reported as Assign
	Conds    bool            // print if-conditions as source text (otherwise "")
	Branches bool            // report continue / break as Cont / Brk
	ArgCalls map[string]bool // calls reported with their argument text: Call "name(args)"
	Decls    bool            // report `var x T` / `var x = e` of a name in Assigns as Assign "x" "var ..." (where a variable is re-created matters in a loop)
	Returns  bool            // report what a return statement returns: Assign "return" "<results>" in front of Ret (an error swallowed vs passed on)
}

func isLockCall(name string) bool {
	switch name {
	case "Lock", "Unlock", "RLock", "RUnlock":
		return true
	}
	return false
}

// Skeleton prints the body of fd as a Coq `list ev`.
func (f *File) Skeleton(fd *ast.FuncDecl, o SkelOpt) string {
	return CoqList(f.block(fd.Body.List, o))
}

func (f *File) block(stmts []ast.Stmt, o SkelOpt) []string {
	var out []string
	for _, s := range stmts {
		out = append(out, f.stmt(s, o)...)
	}
	return out
}

func lastSel(e ast.Expr) (recv string, name string) {
	switch x := e.(type) {
	case *ast.SelectorExpr:
		return exprKey(x.X), x.Sel.Name
	case *ast.Ident:
		return "", x.Name
	}
	return "", ""
}

func exprKey(e ast.Expr) string {
	switch x := e.(type) {
	case *ast.Ident:
		return x.Name
	case *ast.SelectorExpr:
		return exprKey(x.X) + "." + x.Sel.Name
	case *ast.CallExpr:
		return exprKey(x.Fun) + "()"
	case *ast.StarExpr:
		return exprKey(x.X)
	case *ast.ParenExpr:
		return exprKey(x.X)
	case *ast.IndexExpr:
		return exprKey(x.X) + "[]"
	}
	return "?"
}

// calls inside an expression, innermost first (evaluation order for chained calls)
func (f *File) exprEvents(e ast.Node, o SkelOpt) []string {
	var out []string
	if e == nil {
		return out
	}
	var visit func(n ast.Node)
	visit = func(n ast.Node) {
		switch x := n.(type) {
		case nil:
			return
		case *ast.FuncLit:
			// a closure body is reported where it is defined, wrapped, so that its events are not
			// mistaken for straight-line code
			inner := f.block(x.Body.List, o)
			if len(inner) > 0 {
				out = append(out, "DeferE "+CoqList(inner))
			}
			return
		case *ast.CallExpr:
			visit(x.Fun)
			for _, a := range x.Args {
				visit(a)
			}
			recv, name := lastSel(x.Fun)
			if isLockCall(name) {
				out = append(out, name+" "+Q(recv))
			} else if o.ArgCalls[name] {
				args := make([]string, len(x.Args))
				for i, a := range x.Args {
					args[i] = f.Src(a)
				}
				out = append(out, "Call "+Q(name+"("+strings.Join(args, ", ")+")"))
			} else if o.Calls[name] {
				out = append(out, "Call "+Q(name))
			}
			return
		}
		ast.Inspect(n, func(c ast.Node) bool {
			if c == n {
				return true
			}
			switch c.(type) {
			case *ast.CallExpr, *ast.FuncLit:
				visit(c)
				return false
			}
			return true
		})
	}
	visit(e)
	return out
}

func (f *File) stmt(s ast.Stmt, o SkelOpt) []string {
	switch x := s.(type) {
	case *ast.ExprStmt:
		return f.exprEvents(x.X, o)
	case *ast.AssignStmt:
		var out []string
		for _, r := range x.Rhs {
			out = append(out, f.exprEvents(r, o)...)
		}
		for i, l := range x.Lhs {
			_, name := lastSel(l)
			if o.Assigns[name] {
				rhs := ""
				if i < len(x.Rhs) {
					rhs = f.Src(x.Rhs[i])
				} else if len(x.Rhs) == 1 {
					rhs = f.Src(x.Rhs[0])
				}
				out = append(out, "Assign "+Q(f.Src(l))+" "+Q(x.Tok.String()+" "+rhs))
			}
		}
		return out
	case *ast.IncDecStmt:
		_, name := lastSel(x.X)
		if o.Assigns[name] {
			return []string{"Assign " + Q(f.Src(x.X)) + " " + Q(x.Tok.String())}
		}
		return nil
	case *ast.DeclStmt:
		out := f.exprEvents(x, o)
		if gd, ok := x.Decl.(*ast.GenDecl); ok && o.Decls && gd.Tok == token.VAR {
			for _, sp := range gd.Specs {
				vs, ok := sp.(*ast.ValueSpec)
				if !ok {
					continue
				}
				for i, nm := range vs.Names {
					if !o.Assigns[nm.Name] {
						continue
					}
					rhs := "zero"
					if i < len(vs.Values) {
						rhs = "= " + f.Src(vs.Values[i])
					}
					out = append(out, "Assign "+Q(nm.Name)+" "+Q("var "+rhs))
				}
			}
		}
		return out
	case *ast.DeferStmt:
		recv, name := lastSel(x.Call.Fun)
		if name == "Unlock" {
			return []string{"DeferUnlock " + Q(recv)}
		}
		if name == "RUnlock" {
			return []string{"DeferRUnlock " + Q(recv)}
		}
		if fl, ok := x.Call.Fun.(*ast.FuncLit); ok {
			inner := f.block(fl.Body.List, o)
			if len(inner) > 0 {
				return []string{"DeferE " + CoqList(inner)}
			}
			return nil
		}
		inner := f.exprEvents(x.Call, o)
		if len(inner) > 0 {
			return []string{"DeferE " + CoqList(inner)}
		}
		return nil
	case *ast.GoStmt:
		var inner []string
		if fl, ok := x.Call.Fun.(*ast.FuncLit); ok {
			inner = f.block(fl.Body.List, o)
		} else {
			inner = f.exprEvents(x.Call, o)
		}
		if len(inner) > 0 {
			return []string{"GoE " + CoqList(inner)}
		}
		return nil
	case *ast.ReturnStmt:
		var out []string
		for _, r := range x.Results {
			out = append(out, f.exprEvents(r, o)...)
		}
		if o.Returns && len(x.Results) > 0 {
			var rs []string
			for _, r := range x.Results {
				rs = append(rs, f.Src(r))
			}
			out = append(out, "Assign "+Q("return")+" "+Q(strings.Join(rs, ", ")))
		}
		return append(out, "Ret")
	case *ast.BlockStmt:
		return f.block(x.List, o)
	case *ast.IfStmt:
		var out []string
		if x.Init != nil {
			out = append(out, f.stmt(x.Init, o)...)
		}
		out = append(out, f.exprEvents(x.Cond, o)...)
		th := f.block(x.Body.List, o)
		var el []string
		if x.Else != nil {
			el = f.stmt(x.Else, o)
		}
		if len(th) == 0 && len(el) == 0 {
			return out
		}
		cond := ""
		if o.Conds {
			cond = f.Src(x.Cond)
		}
		return append(out, "IfE "+Q(cond)+" "+CoqList(th)+" "+CoqList(el))
	case *ast.ForStmt:
		var out []string
		if x.Init != nil {
			out = append(out, f.stmt(x.Init, o)...)
		}
		var body []string
		if x.Cond != nil {
			body = append(body, f.exprEvents(x.Cond, o)...)
		}
		body = append(body, f.block(x.Body.List, o)...)
		if x.Post != nil {
			body = append(body, f.stmt(x.Post, o)...)
		}
		if len(body) == 0 {
			return out
		}
		return append(out, "ForE "+CoqList(body))
	case *ast.RangeStmt:
		out := f.exprEvents(x.X, o)
		body := f.block(x.Body.List, o)
		if len(body) == 0 {
			return out
		}
		return append(out, "ForE "+CoqList(body))
	case *ast.SwitchStmt:
		var out []string
		if x.Init != nil {
			out = append(out, f.stmt(x.Init, o)...)
		}
		if x.Tag != nil {
			out = append(out, f.exprEvents(x.Tag, o)...)
		}
		var cases []string
		any := false
		for _, c := range x.Body.List {
			cc := c.(*ast.CaseClause)
			var b []string
			for _, e := range cc.List {
				b = append(b, f.exprEvents(e, o)...)
			}
			b = append(b, f.block(cc.Body, o)...)
			if len(b) > 0 {
				any = true
			}
			cases = append(cases, CoqList(b))
		}
		if !any {
			return out
		}
		return append(out, "SwitchE "+CoqList(cases))
	case *ast.TypeSwitchStmt:
		var cases []string
		any := false
		for _, c := range x.Body.List {
			cc := c.(*ast.CaseClause)
			b := f.block(cc.Body, o)
			if len(b) > 0 {
				any = true
			}
			cases = append(cases, CoqList(b))
		}
		if !any {
			return nil
		}
		return []string{"SwitchE " + CoqList(cases)}
	case *ast.SelectStmt:
		var cases []string
		any := false
		for _, c := range x.Body.List {
			cc := c.(*ast.CommClause)
			var b []string
			if cc.Comm != nil {
				b = append(b, f.stmt(cc.Comm, o)...)
			}
			b = append(b, f.block(cc.Body, o)...)
			if len(b) > 0 {
				any = true
			}
			cases = append(cases, CoqList(b))
		}
		if !any {
			return nil
		}
		return []string{"SwitchE " + CoqList(cases)}
	case *ast.BranchStmt:
		if o.Branches {
			switch x.Tok {
			case token.CONTINUE:
				return []string{"Cont"}
			case token.BREAK:
				return []string{"Brk"}
			}
		}
		return nil
	case *ast.LabeledStmt:
		return f.stmt(x.Stmt, o)
	case *ast.SendStmt:
		return append(f.exprEvents(x.Chan, o), f.exprEvents(x.Value, o)...)
	}
	return nil
}

// Compares lists, in source order, the argument text of every clientv3.Compare(...) call in fd.
func (f *File) Compares(fd *ast.FuncDecl) []string {
	var out []string
	ast.Inspect(fd.Body, func(n ast.Node) bool {
		c, ok := n.(*ast.CallExpr)
		if !ok {
			return true
		}
		if _, name := lastSel(c.Fun); name == "Compare" && len(c.Args) == 3 {
			out = append(out, f.Src(c.Args[0])+" "+strings.Trim(f.Src(c.Args[1]), "\"")+" "+f.Src(c.Args[2]))
		}
		return true
	})
	return out
}

// CallSites lists "file:func" of every call whose selector name is `name`, over the .go files
// (tests excluded) below the given directories of the repo.
func CallSites(repo string, dirs []string, name string, recvFilter func(recv string) bool) ([]string, error) {
	var out []string
	for _, d := range dirs {
		err := filepath.Walk(filepath.Join(repo, d), func(p string, info os.FileInfo, err error) error {
			if err != nil {
				return err
			}
			if info.IsDir() || !strings.HasSuffix(p, ".go") || strings.HasSuffix(p, "_test.go") {
				return nil
			}
			fset := token.NewFileSet()
			af, err := parser.ParseFile(fset, p, nil, 0)
			if err != nil {
				return err
			}
			if hasVerifTag(p) {
				return nil
			}
			rel, _ := filepath.Rel(repo, p)
			for _, decl := range af.Decls {
				fd, ok := decl.(*ast.FuncDecl)
				if !ok || fd.Body == nil {
					continue
				}
				ast.Inspect(fd.Body, func(n ast.Node) bool {
					c, ok := n.(*ast.CallExpr)
					if !ok {
						return true
					}
					recv, nm := lastSel(c.Fun)
					if nm == name && (recvFilter == nil || recvFilter(recv)) {
						out = append(out, rel+":"+fd.Name.Name)
					}
					return true
				})
			}
			return nil
		})
		if err != nil {
			return nil, err
		}
	}
	sort.Strings(out)
	return out, nil
}

func hasVerifTag(p string) bool {
	b, err := os.ReadFile(p)
	if err != nil {
		return false
	}
	head := string(b)
	if len(head) > 400 {
		head = head[:400]
	}
	return strings.Contains(head, "go:build verif") || strings.Contains(head, "+build verif")
}

// WriteIfChanged keeps the old file (and its compiled .vo) when the content is identical.
func WriteIfChanged(path, content string) error {
	if old, err := os.ReadFile(path); err == nil && string(old) == content {
		return nil
	}
	return os.WriteFile(path, []byte(content), 0o644)
}

// LiteralSites lists "file:function" for every function (or "file:<top>" for package-level declarations) of the
// non-test, non-verif Go files below dirs that contains the string literal lit (exactly) or uses the identifier ident
// (either may be empty). It answers "who else touches this key".
func LiteralSites(repo string, dirs []string, lit, ident string) ([]string, error) {
	seen := map[string]bool{}
	for _, d := range dirs {
		err := filepath.Walk(filepath.Join(repo, d), func(p string, info os.FileInfo, err error) error {
			if err != nil {
				return err
			}
			if info.IsDir() || !strings.HasSuffix(p, ".go") || strings.HasSuffix(p, "_test.go") {
				return nil
			}
			fset := token.NewFileSet()
			af, err := parser.ParseFile(fset, p, nil, 0)
			if err != nil {
				return err
			}
			if hasVerifTag(p) {
				return nil
			}
			rel, _ := filepath.Rel(repo, p)
			hit := func(n ast.Node) bool {
				found := false
				ast.Inspect(n, func(x ast.Node) bool {
					switch v := x.(type) {
					case *ast.BasicLit:
						if lit != "" && v.Kind == token.STRING && strings.Trim(v.Value, "\"`") == lit {
							found = true
						}
					case *ast.Ident:
						if ident != "" && v.Name == ident {
							found = true
						}
					}
					return !found
				})
				return found
			}
			for _, decl := range af.Decls {
				switch dd := decl.(type) {
				case *ast.FuncDecl:
					if dd.Body != nil && hit(dd.Body) {
						seen[rel+":"+dd.Name.Name] = true
					}
				case *ast.GenDecl:
					if hit(dd) {
						seen[rel+":<top>"] = true
					}
				}
			}
			return nil
		})
		if err != nil {
			return nil, err
		}
	}
	var out []string
	for k := range seen {
		out = append(out, k)
	}
	sort.Strings(out)
	return out, nil
}
