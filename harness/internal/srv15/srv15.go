// Package srv15 starts a complete real server.Server (embedded etcd, leader election, TSO) for the
// C15 / C20 drivers: a hand copy of server.NewTestSingleConfig (which only needs *check.C for
// asserts), CreateServer, Run, wait for leadership.
package srv15

import (
	"context"
	"errors"
	"fmt"
	"os"
	"time"

	"github.com/pingcap/kvproto/pkg/metapb"
	"github.com/pingcap/kvproto/pkg/pdpb"
	"github.com/pingcap/log"
	"github.com/tikv/pd/pkg/tempurl"
	"github.com/tikv/pd/pkg/typeutil"
	"github.com/tikv/pd/server"
	"github.com/tikv/pd/server/config"
	"go.etcd.io/etcd/embed"
	"go.uber.org/zap"
)

// Quiet silences PD's global logger.
func Quiet() { log.ReplaceGlobals(zap.NewNop(), nil) }

// Config is server.NewTestSingleConfig without check.C.
func Config() (*config.Config, error) {
	cfg := &config.Config{
		Name:       "pd",
		ClientUrls: tempurl.Alloc(),
		PeerUrls:   tempurl.Alloc(),

		InitialClusterState: embed.ClusterStateFlagNew,

		LeaderLease:     1,
		TSOSaveInterval: typeutil.NewDuration(200 * time.Millisecond),
	}
	cfg.AdvertiseClientUrls = cfg.ClientUrls
	cfg.AdvertisePeerUrls = cfg.PeerUrls
	cfg.DataDir, _ = os.MkdirTemp("", "verif_pd")
	cfg.InitialCluster = fmt.Sprintf("pd=%s", cfg.PeerUrls)
	cfg.DisableStrictReconfigCheck = true
	cfg.TickInterval = typeutil.NewDuration(100 * time.Millisecond)
	cfg.ElectionInterval = typeutil.NewDuration(3 * time.Second)
	cfg.LeaderPriorityCheckInterval = typeutil.NewDuration(100 * time.Millisecond)
	cfg.Log.Level = "fatal"
	if err := cfg.SetupLogger(); err != nil {
		return nil, err
	}
	if err := cfg.Adjust(nil, false); err != nil {
		return nil, err
	}
	Quiet()
	return cfg, nil
}

type Srv struct {
	S      *server.Server
	Cfg    *config.Config
	Cancel context.CancelFunc
}

// Start creates and runs one server and waits until it is leader.
func Start() (*Srv, error) {
	cfg, err := Config()
	if err != nil {
		return nil, err
	}
	return StartWith(cfg)
}

func StartWith(cfg *config.Config) (*Srv, error) {
	ctx, cancel := context.WithCancel(context.Background())
	s, err := server.CreateServer(ctx, cfg)
	if err != nil {
		cancel()
		return nil, err
	}
	Quiet()
	if err := s.Run(); err != nil {
		cancel()
		return nil, err
	}
	Quiet()
	x := &Srv{S: s, Cfg: cfg, Cancel: cancel}
	if err := x.WaitLeader(20 * time.Second); err != nil {
		x.Close()
		return nil, err
	}
	return x, nil
}

func (x *Srv) WaitLeader(d time.Duration) error {
	deadline := time.Now().Add(d)
	for time.Now().Before(deadline) {
		if !x.S.IsClosed() && x.S.GetMember().IsLeader() {
			return nil
		}
		time.Sleep(10 * time.Millisecond)
	}
	return errors.New("server did not become leader")
}

// Stop closes the server but keeps its data directory, so that StartWith(x.Cfg) restarts the same member.
func (x *Srv) Stop() {
	x.S.Close()
	x.Cancel()
}

func (x *Srv) Close() {
	x.S.Close()
	x.Cancel()
	os.RemoveAll(x.Cfg.DataDir)
}

func (x *Srv) Header() *pdpb.RequestHeader { return &pdpb.RequestHeader{ClusterId: x.S.ClusterID()} }

// BootstrapReq is a valid bootstrap request: store `store`, region `region` with one peer.
func (x *Srv) BootstrapReq(store, region, peer uint64) *pdpb.BootstrapRequest {
	return &pdpb.BootstrapRequest{
		Header: x.Header(),
		Store:  &metapb.Store{Id: store, Address: fmt.Sprintf("127.0.0.1:%d", 20000+store)},
		Region: &metapb.Region{Id: region, Peers: []*metapb.Peer{{Id: peer, StoreId: store}}},
	}
}

// Bootstrap bootstraps the cluster through the real handler.
func (x *Srv) Bootstrap() error {
	resp, err := x.S.Bootstrap(context.Background(), x.BootstrapReq(1, 2, 3))
	if err != nil {
		return err
	}
	if e := resp.GetHeader().GetError(); e != nil {
		return errors.New(e.String())
	}
	return nil
}
