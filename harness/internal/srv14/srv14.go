// Package srv14 brings up one complete real pd server.Server (embedded etcd, leader elected) for the
// drivers of C14 and C18, following server.NewTestSingleConfig (which only needs check.C for asserts).
package srv14

import (
	"context"
	"fmt"
	"os"
	"strings"
	"time"

	"github.com/pingcap/kvproto/pkg/metapb"
	"github.com/pingcap/kvproto/pkg/pdpb"
	"github.com/pingcap/log"
	"github.com/tikv/pd/pkg/tempurl"
	"github.com/tikv/pd/pkg/typeutil"
	"github.com/tikv/pd/server"
	"github.com/tikv/pd/server/api"
	"github.com/tikv/pd/server/config"
	"github.com/tikv/pd/server/join"
	"go.etcd.io/etcd/embed"
	"go.uber.org/zap"

	// Register schedulers
	_ "github.com/tikv/pd/server/schedulers"
)

type Srv struct {
	S      *server.Server
	Cfg    *config.Config
	cancel context.CancelFunc
}

// Start creates and runs a single real server and waits until it is the leader.
// tweak may edit the configuration before Adjust is applied by CreateServer's caller contract.
func Start(tweak func(*config.Config)) (*Srv, error) {
	log.ReplaceGlobals(zap.NewNop(), nil)
	cfg := &config.Config{
		Name:                "pd",
		ClientUrls:          tempurl.Alloc(),
		PeerUrls:            tempurl.Alloc(),
		InitialClusterState: embed.ClusterStateFlagNew,
		LeaderLease:         1,
		TSOSaveInterval:     typeutil.NewDuration(200 * time.Millisecond),
	}
	cfg.AdvertiseClientUrls = cfg.ClientUrls
	cfg.AdvertisePeerUrls = cfg.PeerUrls
	cfg.DataDir, _ = os.MkdirTemp("", "verif_pd")
	cfg.InitialCluster = fmt.Sprintf("pd=%s", cfg.PeerUrls)
	cfg.DisableStrictReconfigCheck = true
	cfg.TickInterval = typeutil.NewDuration(100 * time.Millisecond)
	cfg.ElectionInterval = typeutil.NewDuration(3 * time.Second)
	cfg.LeaderPriorityCheckInterval = typeutil.NewDuration(100 * time.Millisecond)
	cfg.Log.Level = "fatal"
	cfg.Log.File.Filename = "/dev/null"
	if err := cfg.SetupLogger(); err != nil {
		return nil, err
	}
	if err := cfg.Adjust(nil, false); err != nil {
		return nil, err
	}
	if tweak != nil {
		tweak(cfg)
	}
	log.ReplaceGlobals(zap.NewNop(), nil)
	ctx, cancel := context.WithCancel(context.Background())
	s, err := server.CreateServer(ctx, cfg)
	if err != nil {
		cancel()
		return nil, err
	}
	if err := s.Run(); err != nil {
		cancel()
		return nil, err
	}
	log.ReplaceGlobals(zap.NewNop(), nil)
	dl := time.Now().Add(30 * time.Second)
	for !s.GetMember().IsLeader() {
		if time.Now().After(dl) {
			cancel()
			return nil, fmt.Errorf("server did not become leader")
		}
		time.Sleep(20 * time.Millisecond)
	}
	return &Srv{S: s, Cfg: cfg, cancel: cancel}, nil
}

func (x *Srv) Close() {
	x.cancel()
	x.S.Close()
	os.RemoveAll(x.Cfg.DataDir)
}

func (x *Srv) Header() *pdpb.RequestHeader {
	return &pdpb.RequestHeader{ClusterId: x.S.ClusterID()}
}

// Bootstrap bootstraps the cluster through the real gRPC handler with one store and one region.
func (x *Srv) Bootstrap(store *metapb.Store) error {
	req := &pdpb.BootstrapRequest{
		Header: x.Header(),
		Store:  store,
		Region: &metapb.Region{Id: 900001, Peers: []*metapb.Peer{{Id: 900002, StoreId: store.GetId()}},
			RegionEpoch: &metapb.RegionEpoch{ConfVer: 1, Version: 1}},
	}
	resp, err := x.S.Bootstrap(context.Background(), req)
	if err != nil {
		return err
	}
	if e := resp.GetHeader().GetError(); e != nil {
		return fmt.Errorf("bootstrap: %v", e)
	}
	dl := time.Now().Add(10 * time.Second)
	for x.S.GetRaftCluster() == nil {
		if time.Now().After(dl) {
			return fmt.Errorf("raft cluster not running after bootstrap")
		}
		time.Sleep(10 * time.Millisecond)
	}
	return nil
}

// StartMembers creates and runs n real servers forming one PD cluster (with the HTTP API, so that members can be offered
// files through /pd/api/v1/admin/persist-file) and waits until one of them is the leader.
func StartMembers(n int) ([]*Srv, error) {
	log.ReplaceGlobals(zap.NewNop(), nil)
	cfgs := make([]*config.Config, n)
	var initial []string
	for i := range cfgs {
		cfg := &config.Config{
			Name:                fmt.Sprintf("pd%d", i+1),
			ClientUrls:          tempurl.Alloc(),
			PeerUrls:            tempurl.Alloc(),
			InitialClusterState: embed.ClusterStateFlagNew,
			LeaderLease:         3,
			TSOSaveInterval:     typeutil.NewDuration(200 * time.Millisecond),
		}
		cfg.AdvertiseClientUrls = cfg.ClientUrls
		cfg.AdvertisePeerUrls = cfg.PeerUrls
		cfg.DataDir, _ = os.MkdirTemp("", "verif_pd")
		cfg.DisableStrictReconfigCheck = true
		cfg.TickInterval = typeutil.NewDuration(100 * time.Millisecond)
		cfg.ElectionInterval = typeutil.NewDuration(3 * time.Second)
		cfg.LeaderPriorityCheckInterval = typeutil.NewDuration(100 * time.Millisecond)
		cfg.Log.Level = "fatal"
		cfg.Log.File.Filename = "/dev/null"
		initial = append(initial, fmt.Sprintf("%s=%s", cfg.Name, cfg.PeerUrls))
		cfgs[i] = cfg
	}
	for _, cfg := range cfgs {
		cfg.InitialCluster = strings.Join(initial, ",")
		if err := cfg.SetupLogger(); err != nil {
			return nil, err
		}
		if err := cfg.Adjust(nil, false); err != nil {
			return nil, err
		}
	}
	log.ReplaceGlobals(zap.NewNop(), nil)
	out := make([]*Srv, n)
	errs := make(chan error, n)
	for i, cfg := range cfgs {
		go func(i int, cfg *config.Config) {
			ctx, cancel := context.WithCancel(context.Background())
			s, err := server.CreateServer(ctx, cfg, api.NewHandler)
			if err == nil {
				err = s.Run()
			}
			if err != nil {
				cancel()
				errs <- err
				return
			}
			out[i] = &Srv{S: s, Cfg: cfg, cancel: cancel}
			errs <- nil
		}(i, cfg)
	}
	for range cfgs {
		if err := <-errs; err != nil {
			return nil, err
		}
	}
	log.ReplaceGlobals(zap.NewNop(), nil)
	dl := time.Now().Add(40 * time.Second)
	for {
		for _, x := range out {
			if x.S.GetMember().IsLeader() {
				return out, nil
			}
		}
		if time.Now().After(dl) {
			return nil, fmt.Errorf("no member became leader")
		}
		time.Sleep(20 * time.Millisecond)
	}
}

// JoinMember starts one more real server that joins the running cluster of `existing` (config item `join`), and waits until it
// serves its HTTP API.
func JoinMember(existing *Srv, name string) (*Srv, error) {
	log.ReplaceGlobals(zap.NewNop(), nil)
	cfg := &config.Config{
		Name:            name,
		ClientUrls:      tempurl.Alloc(),
		PeerUrls:        tempurl.Alloc(),
		LeaderLease:     3,
		TSOSaveInterval: typeutil.NewDuration(200 * time.Millisecond),
		Join:            existing.Cfg.AdvertiseClientUrls,
	}
	cfg.AdvertiseClientUrls = cfg.ClientUrls
	cfg.AdvertisePeerUrls = cfg.PeerUrls
	cfg.DataDir, _ = os.MkdirTemp("", "verif_pd")
	cfg.DisableStrictReconfigCheck = true
	cfg.TickInterval = typeutil.NewDuration(100 * time.Millisecond)
	cfg.ElectionInterval = typeutil.NewDuration(3 * time.Second)
	cfg.LeaderPriorityCheckInterval = typeutil.NewDuration(100 * time.Millisecond)
	cfg.Log.Level = "fatal"
	cfg.Log.File.Filename = "/dev/null"
	if err := cfg.SetupLogger(); err != nil {
		return nil, err
	}
	if err := cfg.Adjust(nil, false); err != nil {
		return nil, err
	}
	if err := join.PrepareJoinCluster(cfg); err != nil {
		return nil, err
	}
	log.ReplaceGlobals(zap.NewNop(), nil)
	ctx, cancel := context.WithCancel(context.Background())
	s, err := server.CreateServer(ctx, cfg, api.NewHandler)
	if err == nil {
		err = s.Run()
	}
	if err != nil {
		cancel()
		return nil, err
	}
	log.ReplaceGlobals(zap.NewNop(), nil)
	return &Srv{S: s, Cfg: cfg, cancel: cancel}, nil
}
