// Package gen10 is shared by the C10 and C11 drivers: a JSON-able cluster specification (stores with every
// state the filters read, labels, configuration, one region, placement rules), its seeded generator, the
// construction of a real mockcluster from it, and the printer of what the *real* objects show
// (store predicates read back from core.StoreInfo, the region as core.RegionInfo holds it, the real
// placement fit) as Coq terms over coq/lib/C10_Cluster.v and coq/model/C10_Checker.v.
package gen10

import (
	"context"
	"encoding/hex"
	"fmt"
	"sort"
	"strings"
	"time"

	"github.com/pingcap/kvproto/pkg/metapb"
	"github.com/pingcap/kvproto/pkg/pdpb"
	"github.com/tikv/pd/pkg/mock/mockcluster"
	"github.com/tikv/pd/server/config"
	"github.com/tikv/pd/server/core"
	"github.com/tikv/pd/server/core/storelimit"
	"github.com/tikv/pd/server/kv"
	"github.com/tikv/pd/server/schedule/opt"
	"github.com/tikv/pd/server/schedule/placement"
	"github.com/tikv/pd/server/versioninfo"

	"pdverif/internal/rng"
)

type StoreSpec struct {
	ID       uint64
	State    int // 0 up, 1 offline, 2 tombstone
	HB       int // 0 fresh, 1 disconnected (last heartbeat 60 s ago), 2 down (last heartbeat ages ago), 3 registered but never reported (last_heartbeat exactly 0, what PutStore leaves)
	Busy     bool
	LowSpace bool
	NoAdd    bool
	NoRemove bool
	SendSnap int
	RecvSnap int
	Pending  int
	Pause    bool
	Regions  int
	Leaders  int
	Labels   [][2]string
}

type PeerSpec struct {
	ID, Store uint64
	Role      int // 0 voter 1 learner 2 incoming 3 demoting
}

type DownSpec struct {
	Peer PeerSpec
	Secs uint64
}

type RegionSpec struct {
	ID      uint64
	Peers   []PeerSpec
	Leader  *PeerSpec
	Down    []DownSpec
	Pending []PeerSpec
}

type ConsSpec struct {
	Key    string
	Op     string
	Values []string
}

type RuleSpec struct {
	ID     string
	Index  int
	Role   string
	Count  int
	Cons   []ConsSpec
	Labels []string
	Iso    string
	Group  string // rule group ("" = pd)
	Start  string // key range of the rule (raw keys, "" = unbounded)
	End    string
}

type CfgSpec struct {
	MaxReplicas                                                      int
	Labels                                                           []string
	Iso                                                              string
	RemoveDown, ReplaceOffline, MakeUp, RemoveExtra, LocationReplace bool
	Rules                                                            bool
	Joint                                                            bool
	RejectLeader                                                     [][2]string
}

type GroupSpec struct {
	ID       string
	Index    int
	Override bool
}

type ClusterSpec struct {
	Groups          []GroupSpec // rule groups configured through the group API
	DefaultRuleOnly bool        // placement rules on, but only the default rule PD derives from the replication config
	Restart         bool        // a NEW RuleManager is initialised on the same storage before the check (PD restart / leader change)
	Cfg             CfgSpec
	Stores          []StoreSpec
	Region          RegionSpec
	Rules           []RuleSpec
	Tags            []string // generator features, for the histogram
}

// ---------- label tables (ids of coq/model/C10_Checker.v) ----------

var keyIDs = map[string]int{"zone": 1, "host": 2, "rack": 3, "disk": 4, "specialuse": 50, "engine": 100, "exclusive": 101, "$mode": 102}

func KeyID(k string) int {
	if id, ok := keyIDs[strings.ToLower(k)]; ok {
		return id
	}
	return 9
}

type valueTable struct {
	canon    map[string]int
	spelling map[string]int
	nspell   map[int]int
}

var vt = func() *valueTable {
	t := &valueTable{canon: map[string]int{}, spelling: map[string]int{}, nspell: map[int]int{}}
	// fixed ids the model refers to: hotRegion = 1, reserved = 2, tiflash = 3 (first spelling = the constant's)
	for _, v := range []string{"hotRegion", "reserved", "tiflash"} {
		t.id(v)
	}
	return t
}()

func (t *valueTable) id(v string) (int, int) {
	if v == "" {
		return 0, 0
	}
	lc := strings.ToLower(v)
	c, ok := t.canon[lc]
	if !ok {
		c = len(t.canon) + 1
		t.canon[lc] = c
	}
	sp, ok := t.spelling[v]
	if !ok {
		sp = t.nspell[c]
		t.nspell[c]++
		t.spelling[v] = sp
	}
	return c, sp
}

func CoqVal(v string) string {
	c, s := vt.id(v)
	return fmt.Sprintf("(%d, %d)", c, s)
}

// ---------- generator ----------

type GenOpt struct {
	RulesPct     int  // percentage of cases with placement rules
	Malformed    bool // allow malformed regions (no leader, unknown stores, joint state)
	ExactPeers   bool // region has exactly max-replicas healthy-role peers (what scatter / schedulers expect)
	TiFlashPct   int
	MinStores    int
	MaxStores    int
	HealthyBias  int // percentage of stores forced fully healthy
	NoLearnerPct int
}

func pickW(r *rng.R, vals []int, w []int) int { return vals[r.Pick(w...)] }

// GenRejectLeader draws 0-3 reject-leader entries (none with probability nonePct %): mostly several values of the SAME key (zone),
// sometimes a host entry in between, in shuffled order - so that stores match the first, a later, or no entry.
func GenRejectLeader(r *rng.R, nonePct int) [][2]string {
	if r.Pct(nonePct) {
		return nil
	}
	n := 1 + r.Pick(40, 35, 25)
	zs := []string{"z1", "z2", "z3", "z4"}
	for i := len(zs) - 1; i > 0; i-- {
		j := r.Intn(i + 1)
		zs[i], zs[j] = zs[j], zs[i]
	}
	var out [][2]string
	for i := 0; i < n; i++ {
		if i > 0 && r.Pct(20) {
			out = append(out, [2]string{"host", "h" + fmt.Sprint(1+r.Intn(3))})
		} else {
			out = append(out, [2]string{"zone", zs[i]})
		}
	}
	return out
}

func Generate(r *rng.R, o GenOpt) ClusterSpec {
	var c ClusterSpec
	tag := func(s string) { c.Tags = append(c.Tags, s) }
	if o.MinStores == 0 {
		o.MinStores, o.MaxStores = 3, 9
	}
	n := o.MinStores + r.Intn(o.MaxStores-o.MinStores+1)
	rules := r.Pct(o.RulesPct)
	c.Cfg = CfgSpec{
		MaxReplicas:     pickW(r, []int{1, 2, 3, 4, 5}, []int{5, 10, 55, 10, 20}),
		RemoveDown:      r.Pct(93),
		ReplaceOffline:  r.Pct(93),
		MakeUp:          r.Pct(93),
		RemoveExtra:     r.Pct(93),
		LocationReplace: r.Pct(93),
		Rules:           rules,
		Joint:           r.Pct(75),
	}
	switch r.Pick(25, 35, 40) {
	case 1:
		c.Cfg.Labels = []string{"zone"}
	case 2:
		c.Cfg.Labels = []string{"zone", "host"}
	}
	switch r.Pick(50, 30, 15, 5) {
	case 1:
		c.Cfg.Iso = "zone"
	case 2:
		c.Cfg.Iso = "host"
	case 3:
		c.Cfg.Iso = "rack"
	}
	c.Cfg.RejectLeader = GenRejectLeader(r, 78)
	tag(fmt.Sprintf("cfg:reject-leader-entries=%d", len(c.Cfg.RejectLeader)))
	tag(fmt.Sprintf("cfg:max-replicas=%d", c.Cfg.MaxReplicas))
	tag(fmt.Sprintf("cfg:labels=%d", len(c.Cfg.Labels)))
	tag("cfg:iso=" + c.Cfg.Iso)
	tag(fmt.Sprintf("cfg:rules=%v", rules))
	tag(fmt.Sprintf("cfg:joint=%v", c.Cfg.Joint))

	zones := []string{"z1", "z2", "z3", "z4"}
	hosts := []string{"h1", "h2", "h3"}
	for i := 0; i < n; i++ {
		s := StoreSpec{ID: uint64(i + 1), Regions: r.Intn(60), Leaders: r.Intn(20)}
		if !r.Pct(o.HealthyBias) {
			s.State = r.Pick(80, 12, 8)
			s.HB = r.Pick(75, 12, 7, 6)
			s.Busy = r.Pct(8)
			s.LowSpace = r.Pct(10)
			s.NoAdd = r.Pct(6)
			s.NoRemove = r.Pct(6)
			if r.Pct(6) {
				s.SendSnap = 4 + r.Intn(3)
			}
			if r.Pct(6) {
				s.RecvSnap = 4 + r.Intn(3)
			}
			if r.Pct(6) {
				s.Pending = 17 + r.Intn(5)
			}
			s.Pause = r.Pct(5)
		}
		if r.Pct(88) {
			z := zones[r.Intn(len(zones))]
			if r.Pct(4) {
				z = strings.ToUpper(z)
				tag("label:case-variant")
			}
			s.Labels = append(s.Labels, [2]string{"zone", z})
		}
		if r.Pct(80) {
			s.Labels = append(s.Labels, [2]string{"host", hosts[r.Intn(len(hosts))]})
		}
		switch r.Pick(92, 5, 2, 1) {
		case 1:
			s.Labels = append(s.Labels, [2]string{"specialUse", "hotRegion"})
		case 2:
			s.Labels = append(s.Labels, [2]string{"specialUse", "reserved"})
		case 3:
			s.Labels = append(s.Labels, [2]string{"specialUse", "hotregion"})
		}
		if r.Pct(o.TiFlashPct) {
			s.Labels = append(s.Labels, [2]string{"engine", "tiflash"})
		}
		c.Stores = append(c.Stores, s)
	}

	// region
	k := c.Cfg.MaxReplicas
	if !o.ExactPeers {
		k += pickW(r, []int{0, -1, 1, -2, 2}, []int{45, 25, 20, 5, 5})
	}
	if k < 1 {
		k = 1
	}
	if k > n {
		k = n
	}
	perm := make([]int, n)
	for i := range perm {
		perm[i] = i
	}
	for i := n - 1; i > 0; i-- {
		j := r.Intn(i + 1)
		perm[i], perm[j] = perm[j], perm[i]
	}
	reg := RegionSpec{ID: 1000}
	nextPeer := uint64(2001)
	for i := 0; i < k; i++ {
		p := PeerSpec{ID: nextPeer, Store: c.Stores[perm[i]].ID}
		nextPeer += uint64(1 + r.Intn(3))
		if i > 0 && !o.ExactPeers && !r.Pct(o.NoLearnerPct) && r.Pct(12) {
			p.Role = 1
		}
		reg.Peers = append(reg.Peers, p)
	}
	// leader: a voter, usually the first
	var voters []int
	for i, p := range reg.Peers {
		if p.Role == 0 {
			voters = append(voters, i)
		}
	}
	li := voters[0]
	if r.Pct(40) {
		li = voters[r.Intn(len(voters))]
	}
	lp := reg.Peers[li]
	reg.Leader = &lp
	if o.Malformed {
		switch r.Pick(55, 8, 7, 16, 14) {
		case 1:
			reg.Leader = nil
			tag("malformed:no-leader")
		case 2:
			reg.Leader = &PeerSpec{ID: 9999, Store: uint64(n + 5)}
			tag("malformed:foreign-leader")
		case 3:
			j := r.Intn(len(reg.Peers))
			if j != li {
				reg.Peers[j].Role = 2 + r.Intn(2)
				tag("malformed:joint-state")
			}
		case 4:
			j := r.Intn(len(reg.Peers))
			reg.Peers[j].Store = uint64(n + 1 + r.Intn(3))
			if j == li {
				lp := reg.Peers[j]
				reg.Leader = &lp
			}
			tag("malformed:peer-on-unknown-store")
		}
	}
	hbOf := map[uint64]int{}
	for _, s := range c.Stores {
		hbOf[s.ID] = s.HB
	}
	for _, p := range reg.Peers {
		dp := 7
		if hbOf[p.Store] >= 2 {
			dp = 75
		}
		if r.Pct(dp) {
			secs := uint64(4000)
			if r.Pct(15) {
				secs = 10
			}
			reg.Down = append(reg.Down, DownSpec{Peer: p, Secs: secs})
		} else if r.Pct(8) {
			reg.Pending = append(reg.Pending, p)
		}
	}
	if o.Malformed && r.Pct(3) {
		reg.Down = append(reg.Down, DownSpec{Peer: PeerSpec{ID: 9998, Store: uint64(n + 2)}, Secs: 4000})
		tag("malformed:down-peer-on-unknown-store")
	}
	c.Region = reg
	tag(fmt.Sprintf("region:peers-minus-max=%d", len(reg.Peers)-c.Cfg.MaxReplicas))

	if rules {
		nr := 1 + r.Pick(50, 35, 15)
		for i := 0; i < nr; i++ {
			ru := RuleSpec{ID: fmt.Sprintf("r%d", i+1), Index: i + 1,
				Role:  []string{"voter", "leader", "follower", "learner"}[r.Pick(60, 10, 15, 15)],
				Count: 1 + r.Pick(30, 30, 40)}
			if i == 0 {
				ru.Role = []string{"voter", "leader"}[r.Pick(85, 15)]
				if ru.Role == "leader" {
					ru.Count = 1
				}
			}
			for j := r.Pick(55, 35, 10); j > 0; j-- {
				cs := ConsSpec{Key: []string{"zone", "host"}[r.Pick(70, 30)], Op: []string{"in", "notIn", "exists", "notExists"}[r.Pick(50, 30, 12, 8)]}
				if cs.Op == "in" || cs.Op == "notIn" {
					pool := zones
					if cs.Key == "host" {
						pool = hosts
					}
					for _, v := range pool {
						if r.Pct(50) {
							cs.Values = append(cs.Values, v)
						}
					}
					if len(cs.Values) == 0 {
						cs.Values = []string{pool[0]}
					}
				}
				ru.Cons = append(ru.Cons, cs)
			}
			if ru.Role == "learner" && r.Pct(o.TiFlashPct*5) {
				ru.Cons = append(ru.Cons, ConsSpec{Key: "engine", Op: "in", Values: []string{"tiflash"}})
			}
			switch r.Pick(30, 35, 35) {
			case 1:
				ru.Labels = []string{"zone"}
			case 2:
				ru.Labels = []string{"zone", "host"}
			}
			switch r.Pick(55, 30, 15) {
			case 1:
				ru.Iso = "zone"
			case 2:
				ru.Iso = "host"
			}
			c.Rules = append(c.Rules, ru)
		}
		tag(fmt.Sprintf("rules:n=%d", nr))
		if r.Pct(40) {
			// a second rule group configured through the group API (index / override), some rules moved into it
			g := GroupSpec{ID: "app", Index: 1 + r.Intn(2), Override: r.Pct(60)}
			moved := 0
			for i := range c.Rules {
				if r.Pct(50) {
					c.Rules[i].Group = "app"
					moved++
				}
			}
			if moved == 0 {
				c.Rules[len(c.Rules)-1].Group = "app"
			}
			c.Groups = append(c.Groups, g)
			if r.Pct(30) {
				c.Groups = append(c.Groups, GroupSpec{ID: "pd", Index: 2 + r.Intn(2), Override: r.Pct(30)})
			}
			tag("rules:groups")
		}
		c.Restart = r.Pct(50)
		if r.Pct(15) {
			// only the default rule, derived by PD from max-replicas / location-labels (and meant to follow isolation-level)
			c.DefaultRuleOnly = true
			tag("rules:default-rule-only")
		}
		if c.Restart {
			tag("rules:manager-restarted")
		}
		if r.Pct(14) {
			genSurplus(r, &c, tag)
		} else if r.Pct(8) {
			// rule sets that do NOT cover the region: two voter rules meeting at a key inside region 1000
			k := fmt.Sprintf("%020d", reg.ID) + "5"
			c.Rules = []RuleSpec{{ID: "left", Index: 1, Role: "voter", Count: c.Cfg.MaxReplicas, End: k},
				{ID: "right", Index: 2, Role: "voter", Count: c.Cfg.MaxReplicas, Start: k}}
			tag("rules:boundary-inside-region")
		}
	}
	return c
}

// genSurplus rewrites the case into "several rules, all served, and one or two surplus peers": what a move-peer operator leaves
// behind when its add step succeeded and the rest was lost (timeout, cancel, PD leader change), or a lowered rule count.  The
// stores are healthy and fully labelled, 2-3 rules without a group apply (voter rule first; then a TiFlash learner rule, a
// second voter / follower rule, ...), the region holds exactly what the rules ask for plus the surplus, and the NEWEST peers
// (highest ids) are the surplus ones placed at random - so that the first assignment an enumeration in id order meets is often
// not the best one.
func genSurplus(r *rng.R, c *ClusterSpec, tag func(string)) {
	zones := []string{"z1", "z2", "z3", "z4"}
	hosts := []string{"h1", "h2", "h3"}
	c.DefaultRuleOnly, c.Groups = false, nil
	type rs struct {
		role    string
		count   int
		tiflash bool
	}
	var plan []rs
	plan = append(plan, rs{"voter", 2 + r.Intn(2), false})
	switch r.Pick(40, 35, 25) {
	case 0:
		plan = append(plan, rs{"learner", 1, true})
	case 1:
		plan = append(plan, rs{[]string{"voter", "follower"}[r.Intn(2)], 1 + r.Intn(2), false})
	default:
		plan = append(plan, rs{"voter", 1, false}, rs{"learner", 1, r.Pct(50)})
	}
	c.Rules = nil
	need, needTF := 0, 0
	for i, p := range plan {
		ru := RuleSpec{ID: fmt.Sprintf("r%d", i+1), Index: i + 1, Role: p.role, Count: p.count}
		if p.tiflash {
			ru.Cons = []ConsSpec{{Key: "engine", Op: "in", Values: []string{"tiflash"}}}
			needTF += p.count
		} else {
			need += p.count
		}
		switch r.Pick(15, 35, 50) {
		case 1:
			ru.Labels = []string{"zone"}
		case 2:
			ru.Labels = []string{"zone", "host"}
		}
		c.Rules = append(c.Rules, ru)
	}
	extra := 1 + r.Pick(80, 20)
	n := need + extra + r.Intn(3)
	c.Stores = nil
	for i := 0; i < n+needTF; i++ {
		s := StoreSpec{ID: uint64(i + 1), Regions: r.Intn(60), Leaders: r.Intn(20)}
		s.Labels = [][2]string{{"zone", zones[r.Intn(len(zones))]}, {"host", hosts[r.Intn(len(hosts))]}}
		if i >= n {
			s.Labels = append(s.Labels, [2]string{"engine", "tiflash"})
		}
		c.Stores = append(c.Stores, s)
	}
	perm := make([]int, n)
	for i := range perm {
		perm[i] = i
	}
	for i := n - 1; i > 0; i-- {
		j := r.Intn(i + 1)
		perm[i], perm[j] = perm[j], perm[i]
	}
	reg := RegionSpec{ID: 1000}
	next := uint64(2001)
	add := func(store uint64, role int) {
		reg.Peers = append(reg.Peers, PeerSpec{ID: next, Store: store, Role: role})
		next += uint64(1 + r.Intn(3))
	}
	k := 0
	tf := n
	for _, p := range plan {
		for j := 0; j < p.count; j++ {
			switch {
			case p.tiflash:
				add(c.Stores[tf].ID, 1)
				tf++
			case p.role == "learner":
				add(c.Stores[perm[k]].ID, 1)
				k++
			default:
				add(c.Stores[perm[k]].ID, 0)
				k++
			}
		}
	}
	for j := 0; j < extra; j++ {
		add(c.Stores[perm[k]].ID, 0)
		k++
	}
	var voters []int
	for i, p := range reg.Peers {
		if p.Role == 0 {
			voters = append(voters, i)
		}
	}
	lp := reg.Peers[voters[r.Intn(len(voters))]]
	reg.Leader = &lp
	c.Region = reg
	tag("rules:surplus-class")
	tag(fmt.Sprintf("rules:surplus-class-rules=%d", len(plan)))
}

// ---------- build the real objects ----------

type Built struct {
	RestartDiff string // the placement fit of the region before / after the rule manager restart, when they differ
	Spec        ClusterSpec
	TC          *mockcluster.Cluster
	Region      *core.RegionInfo
	Cancel      context.CancelFunc
}

func role(i int) metapb.PeerRole {
	return []metapb.PeerRole{metapb.PeerRole_Voter, metapb.PeerRole_Learner, metapb.PeerRole_IncomingVoter, metapb.PeerRole_DemotingVoter}[i]
}

func (p PeerSpec) Meta() *metapb.Peer {
	return &metapb.Peer{Id: p.ID, StoreId: p.Store, Role: role(p.Role)}
}

const gb = 1 << 30

func Build(spec ClusterSpec) *Built {
	ctx, cancel := context.WithCancel(context.Background())
	opts := config.NewTestOptions()
	rep := opts.GetReplicationConfig().Clone()
	rep.MaxReplicas = uint64(spec.Cfg.MaxReplicas)
	rep.LocationLabels = append([]string{}, spec.Cfg.Labels...)
	rep.IsolationLevel = spec.Cfg.Iso
	rep.EnablePlacementRules = spec.Cfg.Rules
	opts.SetReplicationConfig(rep)
	sc := opts.GetScheduleConfig().Clone()
	sc.EnableRemoveDownReplica = spec.Cfg.RemoveDown
	sc.EnableReplaceOfflineReplica = spec.Cfg.ReplaceOffline
	sc.EnableMakeUpReplica = spec.Cfg.MakeUp
	sc.EnableRemoveExtraReplica = spec.Cfg.RemoveExtra
	sc.EnableLocationReplacement = spec.Cfg.LocationReplace
	sc.EnableJointConsensus = spec.Cfg.Joint
	opts.SetScheduleConfig(sc)
	for _, kv := range spec.Cfg.RejectLeader {
		opts.SetLabelProperty(opt.RejectLeader, kv[0], kv[1])
	}
	tc := mockcluster.NewCluster(ctx, opts)
	var ruleStorage *core.Storage
	if spec.Cfg.Rules {
		// our own storage under the rule manager, so that a second manager can be initialised from it (restart)
		ruleStorage = core.NewStorage(kv.NewMemoryKV())
		rm := placement.NewRuleManager(ruleStorage, tc)
		if err := rm.Initialize(spec.Cfg.MaxReplicas, spec.Cfg.Labels); err != nil {
			panic(err)
		}
		tc.RuleManager = rm
	}
	if !spec.Cfg.Joint {
		// exercise both ways of switching joint consensus off
		if spec.Cfg.MaxReplicas%2 == 0 {
			tc.DisableFeature(versioninfo.JointConsensus)
		}
	}
	now := time.Now()
	for _, s := range spec.Stores {
		meta := &metapb.Store{Id: s.ID, Address: fmt.Sprintf("mock://s%d", s.ID)}
		for _, l := range s.Labels {
			meta.Labels = append(meta.Labels, &metapb.StoreLabel{Key: l[0], Value: l[1]})
		}
		stats := &pdpb.StoreStats{Capacity: 1000 * gb, Available: 600 * gb, UsedSize: 400 * gb,
			IsBusy: s.Busy, SendingSnapCount: uint32(s.SendSnap), ReceivingSnapCount: uint32(s.RecvSnap)}
		regions := s.Regions
		if s.LowSpace {
			stats.Available = 4 * gb
			stats.UsedSize = 996 * gb
		}
		hb := now
		switch s.HB {
		case 1:
			hb = now.Add(-60 * time.Second)
		case 2:
			hb = time.Time{}
		case 3:
			hb = time.Unix(0, 0) // UnixNano() == 0: the raw record of a store that was put and never sent a heartbeat
		}
		o := []core.StoreCreateOption{core.SetStoreStats(stats), core.SetRegionCount(regions), core.SetRegionSize(int64(regions) * 10),
			core.SetLeaderCount(s.Leaders), core.SetLeaderSize(int64(s.Leaders) * 10), core.SetPendingPeerCount(s.Pending), core.SetLastHeartbeatTS(hb)}
		switch s.State {
		case 1:
			o = append(o, core.OfflineStore(false))
		case 2:
			o = append(o, core.TombstoneStore())
		}
		if s.Pause {
			o = append(o, core.PauseLeaderTransfer())
		}
		if s.NoAdd {
			o = append(o, core.AttachAvailableFunc(storelimit.AddPeer, func() bool { return false }))
		}
		if s.NoRemove {
			o = append(o, core.AttachAvailableFunc(storelimit.RemovePeer, func() bool { return false }))
		}
		tc.PutStore(core.NewStoreInfo(meta, o...))
	}
	r := spec.Region
	meta := &metapb.Region{Id: r.ID, StartKey: []byte(fmt.Sprintf("%020d", r.ID)), EndKey: []byte(fmt.Sprintf("%020d", r.ID+1)),
		RegionEpoch: &metapb.RegionEpoch{ConfVer: 5, Version: 5}}
	for _, p := range r.Peers {
		meta.Peers = append(meta.Peers, p.Meta())
	}
	var leader *metapb.Peer
	if r.Leader != nil {
		leader = r.Leader.Meta()
		for _, p := range meta.Peers {
			if p.Id == leader.Id && p.StoreId == leader.StoreId {
				leader = p
			}
		}
	}
	var down []*pdpb.PeerStats
	for _, d := range r.Down {
		down = append(down, &pdpb.PeerStats{Peer: d.Peer.Meta(), DownSeconds: d.Secs})
	}
	var pend []*metapb.Peer
	for _, p := range r.Pending {
		pend = append(pend, p.Meta())
	}
	region := core.NewRegionInfo(meta, leader, core.WithDownPeers(down), core.WithPendingPeers(pend),
		core.SetApproximateSize(10), core.SetApproximateKeys(1000))
	if spec.Cfg.Rules {
		rulesToSet := spec.Rules
		if spec.DefaultRuleOnly {
			rulesToSet = nil
		}
		for _, ru := range rulesToSet {
			grp := ru.Group
			if grp == "" {
				grp = "pd"
			}
			pr := &placement.Rule{GroupID: grp, ID: ru.ID, Index: ru.Index, Role: placement.PeerRoleType(ru.Role), Count: ru.Count,
				LocationLabels: append([]string{}, ru.Labels...), IsolationLevel: ru.Iso,
				StartKeyHex: hex.EncodeToString([]byte(ru.Start)), EndKeyHex: hex.EncodeToString([]byte(ru.End))}
			for _, cs := range ru.Cons {
				pr.LabelConstraints = append(pr.LabelConstraints, placement.LabelConstraint{Key: cs.Key, Op: placement.LabelConstraintOp(cs.Op), Values: cs.Values})
			}
			_ = tc.RuleManager.SetRule(pr) // a rule that matches no store / has an invalid shape is rejected by PD: not installed
		}
		if !spec.DefaultRuleOnly {
			_ = tc.RuleManager.DeleteRule("pd", "default") // refused when no voter rule would remain
		}
		for _, g := range spec.Groups {
			_ = tc.RuleManager.SetRuleGroup(&placement.RuleGroup{ID: g.ID, Index: g.Index, Override: g.Override})
		}
	}
	tc.PutRegion(region)
	bt := &Built{Spec: spec, TC: tc, Region: region, Cancel: cancel}
	if spec.Cfg.Rules && spec.Restart {
		// PD restart / leader change: a new RuleManager initialised from the same storage must serve the same rules
		before, _ := bt.CoqFit()
		rm := placement.NewRuleManager(ruleStorage, tc)
		if err := rm.Initialize(spec.Cfg.MaxReplicas, spec.Cfg.Labels); err != nil {
			panic(err)
		}
		tc.RuleManager = rm
		after, _ := bt.CoqFit()
		if before != after {
			bt.RestartDiff = "placement fit of the region before the restart: " + before + " ; after: " + after
		}
	}
	return bt
}

// ---------- read back and print ----------

func b(v bool) string {
	if v {
		return "true"
	}
	return "false"
}

func zl(xs []string) string { return "[" + strings.Join(xs, "; ") + "]" }

// StoreFlags are the predicates the filters evaluate.
type StoreFlags struct {
	ID                                                                   uint64
	State                                                                string
	Down, Disc, Busy, Low, NoAdd, NoRemove, Snap, Pend, Pause, RejectLdr bool
}

// RealFlags reads the predicates back from the real StoreInfo / options (through the code under test).
func (bt *Built) RealFlags(s *core.StoreInfo) StoreFlags {
	o := bt.TC.GetOpts()
	st := "SUp"
	if s.IsOffline() {
		st = "SOffline"
	} else if s.IsTombstone() {
		st = "STombstone"
	}
	return StoreFlags{ID: s.GetID(), State: st,
		Down: s.DownTime() > o.GetMaxStoreDownTime(), Disc: s.IsDisconnected(), Busy: s.IsBusy(), Low: s.IsLowSpace(o.GetLowSpaceRatio()),
		NoAdd: !s.IsAvailable(storelimit.AddPeer), NoRemove: !s.IsAvailable(storelimit.RemovePeer),
		Snap:  uint64(s.GetSendingSnapCount()) > o.GetMaxSnapshotCount() || uint64(s.GetReceivingSnapCount()) > o.GetMaxSnapshotCount(),
		Pend:  o.GetMaxPendingPeerCount() > 0 && s.GetPendingPeerCount() > int(o.GetMaxPendingPeerCount()),
		Pause: !s.AllowLeaderTransfer(), RejectLdr: o.CheckLabelProperty(opt.RejectLeader, s.GetLabels())}
}

// OracleFlags computes the same predicates INDEPENDENTLY of the code under test, straight from the case specification:
// state, heartbeat class, busy, space class, limits, snapshot / pending counts against the documented defaults (3 / 16),
// leader pause, and reject-leader = some configured (key, value) entry equals some label of the store.
func (bt *Built) OracleFlags(id uint64) (StoreFlags, bool) {
	for _, s := range bt.Spec.Stores {
		if s.ID != id {
			continue
		}
		f := StoreFlags{ID: id, State: []string{"SUp", "SOffline", "STombstone"}[s.State], Down: s.HB >= 2, Disc: s.HB >= 1, Busy: s.Busy,
			Low: s.LowSpace, NoAdd: s.NoAdd, NoRemove: s.NoRemove, Snap: s.SendSnap > 3 || s.RecvSnap > 3, Pend: s.Pending > 16, Pause: s.Pause}
		for _, e := range bt.Spec.Cfg.RejectLeader {
			for _, l := range s.Labels {
				if l[0] == e[0] && l[1] == e[1] {
					f.RejectLdr = true
				}
			}
		}
		return f, true
	}
	return StoreFlags{}, false
}

// Flags is what the models and monitors are given: the independent oracle (the real read-back only for a store the
// specification does not know).
func (bt *Built) Flags(s *core.StoreInfo) StoreFlags {
	if f, ok := bt.OracleFlags(s.GetID()); ok {
		return f
	}
	return bt.RealFlags(s)
}

// PredicateDiffs is the differential check of the read-back against the oracle: (field, description) per disagreement.
func (bt *Built) PredicateDiffs() [][2]string {
	var out [][2]string
	for _, s := range bt.TC.GetStores() {
		or, ok := bt.OracleFlags(s.GetID())
		if !ok {
			continue
		}
		re := bt.RealFlags(s)
		cmp := func(name string, a, b interface{}) {
			if a != b {
				out = append(out, [2]string{name, fmt.Sprintf("store %d labels %v: the code says %s=%v, the specification says %v (reject-leader entries %v)",
					s.GetID(), s.GetLabels(), name, b, a, bt.Spec.Cfg.RejectLeader)})
			}
		}
		// the raw record: nanoseconds of the last heartbeat as stored in the store's meta (0 = registered, never reported).  A store
		// has to have reported within the disconnect window (20 s) / max-store-down-time (30 min) to count as connected / not down;
		// judged on the raw number, without the accessors of StoreInfo.
		raw := s.GetMeta().GetLastHeartbeat()
		age := time.Duration(time.Now().UnixNano() - raw)
		if raw <= 0 {
			age = time.Duration(1<<63 - 1)
		}
		cmp("disconnected", age > 20*time.Second, re.Disc)
		cmp("down", age > 30*time.Minute, re.Down)
		if (age > 20*time.Second) != or.Disc || (age > 30*time.Minute) != or.Down {
			panic(fmt.Sprintf("harness: heartbeat class %v of store %d and its raw record %d disagree", or, s.GetID(), raw))
		}
		cmp("state", or.State, re.State)
		cmp("disconnected", or.Disc, re.Disc)
		cmp("busy", or.Busy, re.Busy)
		cmp("low-space", or.Low, re.Low)
		cmp("add-limit", or.NoAdd, re.NoAdd)
		cmp("remove-limit", or.NoRemove, re.NoRemove)
		cmp("snapshots", or.Snap, re.Snap)
		cmp("pending-peers", or.Pend, re.Pend)
		cmp("pause-leader", or.Pause, re.Pause)
		cmp("reject-leader", or.RejectLdr, re.RejectLdr)
	}
	sort.Slice(out, func(i, j int) bool { return out[i][0] < out[j][0] })
	return out
}

// CoqStoreView prints a store as a derived cluster view shows it (scatter-range's RangeCluster recomputes pending-peer count and
// space from the regions of the range): these two predicates are read from the view, the others from the oracle.
func (bt *Built) CoqStoreView(s *core.StoreInfo) string {
	f := bt.Flags(s)
	re := bt.RealFlags(s)
	f.Pend, f.Low = re.Pend, re.Low
	return bt.coqStoreWith(s, f)
}

func (bt *Built) CoqStore(s *core.StoreInfo) string { return bt.coqStoreWith(s, bt.Flags(s)) }

func (bt *Built) coqStoreWith(s *core.StoreInfo, f StoreFlags) string {
	var ls []string
	seen := map[int]bool{}
	for _, l := range s.GetLabels() {
		k := KeyID(l.GetKey())
		if seen[k] {
			continue // GetLabelValue returns the first match
		}
		seen[k] = true
		ls = append(ls, fmt.Sprintf("(%d, %s)", k, CoqVal(l.GetValue())))
	}
	return fmt.Sprintf("Store %d %s %s %s %s %s %s %s %s %s %s %s %s", f.ID, f.State, b(f.Down), b(f.Disc), b(f.Busy), b(f.Low), b(f.NoAdd),
		b(f.NoRemove), b(f.Snap), b(f.Pend), b(f.Pause), b(f.RejectLdr), zl(ls))
}

func (bt *Built) CoqStores() string {
	stores := bt.TC.GetStores()
	sort.Slice(stores, func(i, j int) bool { return stores[i].GetID() < stores[j].GetID() })
	xs := make([]string, len(stores))
	for i, s := range stores {
		xs[i] = bt.CoqStore(s)
	}
	return "[" + strings.Join(xs, ";\n    ") + "]"
}

func coqPeer(p *metapb.Peer) string {
	r := "Voter"
	switch p.GetRole() {
	case metapb.PeerRole_Learner:
		r = "Learner"
	case metapb.PeerRole_IncomingVoter:
		r = "Incoming"
	case metapb.PeerRole_DemotingVoter:
		r = "Demoting"
	}
	return fmt.Sprintf("Peer %d %d %s", p.GetId(), p.GetStoreId(), r)
}

func coqPeers(ps []*metapb.Peer) string {
	xs := make([]string, len(ps))
	for i, p := range ps {
		xs[i] = coqPeer(p)
	}
	return zl(xs)
}

func (bt *Built) CoqRegion() string {
	r := bt.Region
	ld := "None"
	if r.GetLeader() != nil {
		ld = "(Some (" + coqPeer(r.GetLeader()) + "))"
	}
	thr := uint64(bt.TC.GetOpts().GetMaxStoreDownTime().Seconds())
	var ds []string
	for _, d := range r.GetDownPeers() {
		if d.GetPeer() == nil {
			continue
		}
		ds = append(ds, fmt.Sprintf("(%s, %s)", coqPeer(d.GetPeer()), b(d.GetDownSeconds() >= thr)))
	}
	var ps []string
	for _, p := range r.GetPendingPeers() {
		ps = append(ps, fmt.Sprint(p.GetId()))
	}
	return fmt.Sprintf("Region %s %s %s %s", coqPeers(r.GetPeers()), ld, zl(ds), zl(ps))
}

func keyList(ks []string) string {
	xs := make([]string, len(ks))
	for i, k := range ks {
		xs[i] = fmt.Sprint(KeyID(k))
	}
	return zl(xs)
}

func isoID(iso string) int {
	if iso == "" {
		return 0
	}
	return KeyID(iso)
}

// CoqReject prints the configured reject-leader entries (from the specification).
func (bt *Built) CoqReject() string {
	var xs []string
	for _, e := range bt.Spec.Cfg.RejectLeader {
		xs = append(xs, fmt.Sprintf("(%d, %s)", KeyID(e[0]), CoqVal(e[1])))
	}
	return zl(xs)
}

func (bt *Built) CoqConfig() string {
	o := bt.TC.GetOpts()
	joint := bt.TC.IsFeatureSupported(versioninfo.JointConsensus) && o.IsUseJointConsensus()
	return fmt.Sprintf("Config %d %s %d %s %s %s %s %s %s %s %s", o.GetMaxReplicas(), keyList(o.GetLocationLabels()), isoID(o.GetIsolationLevel()),
		b(o.IsRemoveDownReplicaEnabled()), b(o.IsReplaceOfflineReplicaEnabled()), b(o.IsMakeUpReplicaEnabled()), b(o.IsRemoveExtraReplicaEnabled()),
		b(o.IsLocationReplacementEnabled()), b(o.IsPlacementRulesEnabled()), b(joint), bt.CoqReject())
}

// coqRule prints a rule. ORACLE: the default rule pd/default stands for the replication configuration (PD derives it from
// max-replicas and location-labels and keeps it in sync); when it carries no isolation level of its own, the configured
// replication.isolation-level is what its peers have to respect.
func coqRule(r *placement.Rule, cfgIso string) string {
	role := map[placement.PeerRoleType]string{placement.Voter: "RVoter", placement.Leader: "RLeader", placement.Follower: "RFollower", placement.Learner: "RLearner"}[r.Role]
	var cs []string
	for _, c := range r.LabelConstraints {
		op := map[placement.LabelConstraintOp]string{placement.In: "LIn", placement.NotIn: "LNotIn", placement.Exists: "LExists", placement.NotExists: "LNotExists"}[c.Op]
		vs := make([]string, len(c.Values))
		for i, v := range c.Values {
			vs[i] = CoqVal(v)
		}
		cs = append(cs, fmt.Sprintf("LCons %d %s %s", KeyID(c.Key), op, zl(vs)))
	}
	iso := r.IsolationLevel
	if iso == "" && r.GroupID == "pd" && r.ID == "default" {
		iso = cfgIso
	}
	return fmt.Sprintf("Rule %s %d %s %s %d", role, r.Count, zl(cs), keyList(r.LocationLabels), isoID(iso))
}

// CoqFit prints the real placement fit (empty when placement rules are off).
func (bt *Built) CoqFit() (string, *placement.RegionFit) {
	if !bt.TC.GetOpts().IsPlacementRulesEnabled() {
		return "Fit [] []", nil
	}
	fit := bt.TC.FitRegion(bt.Region)
	var rfs []string
	for _, rf := range fit.RuleFits {
		rfs = append(rfs, fmt.Sprintf("RuleFit (%s) %s %s", coqRule(rf.Rule, bt.Spec.Cfg.Iso), coqPeers(rf.Peers), coqPeers(rf.PeersWithDifferentRole)))
	}
	return fmt.Sprintf("Fit %s %s", "["+strings.Join(rfs, ";\n      ")+"]", coqPeers(fit.OrphanPeers)), fit
}

// CoqInput prints `Input cfg stores region fit entry menv`.
func (bt *Built) CoqInput(entry string, menv string) string {
	fit, _ := bt.CoqFit()
	return fmt.Sprintf("Input (%s)\n   %s\n   (%s)\n   (%s) %s\n   %s", bt.CoqConfig(), bt.CoqStores(), bt.CoqRegion(), fit, entry, menv)
}

// CoqPeerList prints a peer list.
func CoqPeerList(ps []*metapb.Peer) string { return coqPeers(ps) }

// FaultCluster is the mock cluster with an id allocator that fails on demand (round 8): from its FailFrom-th call on
// AllocID returns an error, the way the real allocator does when the etcd transaction extending its window fails.
type FaultCluster struct {
	*mockcluster.Cluster
	FailFrom int // 1-based; 0 = never
	Calls    int
}

// AllocID allocates an id or fails.
func (c *FaultCluster) AllocID() (uint64, error) {
	c.Calls++
	if c.FailFrom > 0 && c.Calls >= c.FailFrom {
		return 0, fmt.Errorf("id allocator: etcd transaction failed (injected)")
	}
	return c.Cluster.AllocID()
}
