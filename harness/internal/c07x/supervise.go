package c07x

import (
	"bytes"
	"encoding/json"
	"fmt"
	"io"
	"os"
	"os/exec"
	"path"
	"strings"
	"time"

	"pdverif/internal/res"
)

// OpLog is the journal a driver child keeps of the case it is running: one JSON header line, then one JSON line per
// operation, written BEFORE the operation is handed to the real code.  If the process dies with a fatal runtime error
// (stack overflow, concurrent map write, ...) that recover() cannot catch, the parent finds in it the input that killed it.
type OpLog struct{ f *os.File }

func OpenOpLog(p string) *OpLog {
	if p == "" {
		return &OpLog{}
	}
	f, err := os.Create(p)
	if err != nil {
		panic(err)
	}
	return &OpLog{f}
}

// Begin starts the journal of a new case.
func (l *OpLog) Begin(header interface{}) {
	if l == nil || l.f == nil {
		return
	}
	l.f.Truncate(0)
	l.f.Seek(0, 0)
	b, _ := json.Marshal(header)
	l.f.Write(append(b, '\n'))
}

// Op records the operation that is about to run.
func (l *OpLog) Op(o interface{}) {
	if l == nil || l.f == nil {
		return
	}
	b, _ := json.Marshal(o)
	l.f.Write(append(b, '\n'))
}

// Supervise runs this very driver again as a child (same arguments plus -child -oplog <file>).  It returns only in the
// child (true).  In the parent it never returns: exit 0 after a clean child, and after a crashed child it writes a
// result.json that reports `<prop>:implementation-crashed:<function of the last journalled operation>` with the journalled
// case as replay, and exits 0 so that bin/check reads that result.
func Supervise(isChild bool, prop string, seed uint64, tier, out string, fn func(header, lastOp map[string]interface{}) string) bool {
	if isChild {
		return true
	}
	oplog := path.Join(out, "oplog.jsonl")
	args := append(append([]string{}, os.Args[1:]...), "-child", "-oplog", oplog)
	cmd := exec.Command(os.Args[0], args...)
	var errb bytes.Buffer
	cmd.Stdout = os.Stdout
	cmd.Stderr = io.MultiWriter(&tailWriter{max: 1 << 16, buf: &errb}, os.Stderr)
	if err := cmd.Start(); err != nil {
		fmt.Fprintln(os.Stderr, err)
		os.Exit(2)
	}
	// watchdog: every operation is journalled before it runs and takes milliseconds; a journal that stops growing for a
	// minute means the real code does not return from the last journalled operation (or loops): kill and report it
	hung := make(chan struct{})
	stop := make(chan struct{})
	go func() {
		last, since := int64(-1), time.Now()
		for {
			select {
			case <-stop:
				return
			case <-time.After(2 * time.Second):
			}
			var sz int64
			if fi, e := os.Stat(oplog); e == nil {
				sz = fi.Size()*1000003 + fi.ModTime().UnixNano()%1000003
			}
			if sz != last {
				last, since = sz, time.Now()
			} else if time.Since(since) > 60*time.Second {
				close(hung)
				cmd.Process.Kill()
				return
			}
		}
	}()
	err := cmd.Wait()
	close(stop)
	if err == nil {
		os.Exit(0)
	}
	kind := "implementation-crashed"
	select {
	case <-hung:
		kind = "implementation-hung"
	default:
	}
	// the child died: the journal holds the case that was running
	raw, _ := os.ReadFile(oplog)
	lines := strings.Split(strings.TrimSpace(string(raw)), "\n")
	header := map[string]interface{}{}
	var ops []interface{}
	var last map[string]interface{}
	for i, ln := range lines {
		if ln == "" {
			continue
		}
		var v map[string]interface{}
		if json.Unmarshal([]byte(ln), &v) != nil {
			continue
		}
		if i == 0 {
			header = v
		} else {
			ops = append(ops, v)
			last = v
		}
	}
	where := "?"
	if fn != nil && last != nil {
		where = fn(header, last)
	}
	first := ""
	for _, ln := range strings.Split(errb.String(), "\n") {
		if strings.HasPrefix(ln, "fatal error:") || strings.HasPrefix(ln, "panic:") || strings.HasPrefix(ln, "runtime:") {
			first = ln
			break
		}
	}
	replay := map[string]interface{}{}
	for k, v := range header {
		replay[k] = v
	}
	replay["ops"] = ops
	R := res.New(prop, seed, tier)
	R.Rule = "the driver process died while the real code ran the journalled case (the last operation of the replay is the one that did not return)"
	R.Evaluations = 1
	R.Violate(prop+":"+kind+":"+where,
		map[bool]string{true: fmt.Sprintf("the real code did not return within 60 s from operation %d of the replayed case (driver child killed)", len(ops)),
			false: fmt.Sprintf("the real code killed the driver process (%v; %s) while running operation %d of the replayed case", err, first, len(ops))}[kind == "implementation-hung"], replay)
	if werr := R.Write(path.Join(out, "result.json")); werr != nil {
		fmt.Fprintln(os.Stderr, werr)
		os.Exit(2)
	}
	os.Exit(0)
	return false
}

// tailWriter keeps the first max bytes (the fatal message comes first, the goroutine dump after it)
type tailWriter struct {
	max int
	buf *bytes.Buffer
}

func (t *tailWriter) Write(p []byte) (int, error) {
	if room := t.max - t.buf.Len(); room > 0 {
		if len(p) > room {
			t.buf.Write(p[:room])
		} else {
			t.buf.Write(p)
		}
	}
	return len(p), nil
}
