// Package c07x is shared by the C07 and C06 drivers: the projection of core.RegionInfo the Coq
// models use, its Coq printer, key alphabets, and the split/merge/conf-change/leader-change
// history simulator that produces consistent region sets.
package c07x

import (
	"fmt"
	"sort"
	"strings"

	"github.com/pingcap/kvproto/pkg/metapb"
	"github.com/pingcap/kvproto/pkg/pdpb"
	"github.com/tikv/pd/server/core"

	"pdverif/internal/rng"
)

type Peer struct {
	ID      uint64 `json:"id"`
	Store   uint64 `json:"store"`
	Learner bool   `json:"learner,omitempty"`
}

// Region is what the driver decides to build; Project() reads the same fields back from the real object.
type Region struct {
	ID      uint64 `json:"id"`
	Start   string `json:"start"`
	End     string `json:"end"`
	Peers   []Peer `json:"peers"`
	Leader  uint64 `json:"leader"` // peer id; 0 = nil leader
	Pending []Peer `json:"pending,omitempty"`
	Size    int64  `json:"size"`
	Ver     uint64 `json:"ver"`
	ConfVer uint64 `json:"conf_ver"`
	Term    uint64 `json:"term"`
	Stamp   int64  `json:"stamp"`
}

func (r Region) Clone() Region {
	c := r
	c.Peers = append([]Peer(nil), r.Peers...)
	c.Pending = append([]Peer(nil), r.Pending...)
	return c
}

func pbPeer(p Peer) *metapb.Peer {
	x := &metapb.Peer{Id: p.ID, StoreId: p.Store}
	if p.Learner {
		x.Role = metapb.PeerRole_Learner
	}
	return x
}

// Meta builds the metapb.Region and the leader peer (nil when Leader == 0; a peer that is not in
// Peers gets store 99 — malformed stream only).
func (r Region) Meta() (*metapb.Region, *metapb.Peer, []*metapb.Peer) {
	m := &metapb.Region{Id: r.ID, StartKey: []byte(r.Start), EndKey: []byte(r.End),
		RegionEpoch: &metapb.RegionEpoch{ConfVer: r.ConfVer, Version: r.Ver}}
	var leader *metapb.Peer
	for _, p := range r.Peers {
		x := pbPeer(p)
		m.Peers = append(m.Peers, x)
		if leader == nil && r.Leader != 0 && p.ID == r.Leader {
			leader = x
		}
	}
	if leader == nil && r.Leader != 0 {
		leader = &metapb.Peer{Id: r.Leader, StoreId: 99}
	}
	var pend []*metapb.Peer
	for _, p := range r.Pending {
		pend = append(pend, pbPeer(p))
	}
	return m, leader, pend
}

// Info builds the RegionInfo through the exported constructor.
func (r Region) Info() *core.RegionInfo {
	m, leader, pend := r.Meta()
	return core.NewRegionInfo(m, leader, core.WithPendingPeers(pend), core.SetApproximateSize(r.Size), core.SetApproximateKeys(r.Stamp))
}

// Heartbeat builds the request a TiKV store would send (C06). Size is in MB in the model; the
// request carries bytes.
func (r Region) Heartbeat() *pdpb.RegionHeartbeatRequest {
	m, leader, pend := r.Meta()
	return &pdpb.RegionHeartbeatRequest{Region: m, Leader: leader, PendingPeers: pend, Term: r.Term,
		ApproximateSize: uint64(r.Size) << 20, ApproximateKeys: uint64(r.Stamp)}
}

// Project reads the model's fields back from a real RegionInfo.
func Project(ri *core.RegionInfo) Region {
	r := Region{ID: ri.GetID(), Start: string(ri.GetStartKey()), End: string(ri.GetEndKey()),
		Size: ri.GetApproximateSize(), Stamp: ri.GetApproximateKeys(), Term: ri.GetTerm(),
		Ver: ri.GetRegionEpoch().GetVersion(), ConfVer: ri.GetRegionEpoch().GetConfVer()}
	for _, p := range ri.GetPeers() {
		r.Peers = append(r.Peers, Peer{p.GetId(), p.GetStoreId(), core.IsLearner(p)})
	}
	if l := ri.GetLeader(); l != nil {
		r.Leader = l.GetId()
	}
	for _, p := range ri.GetPendingPeers() {
		r.Pending = append(r.Pending, Peer{p.GetId(), p.GetStoreId(), core.IsLearner(p)})
	}
	return r
}

// ---------- Coq printing ----------

func Key(s string) string {
	if s == "" {
		return "[]"
	}
	xs := make([]string, len(s))
	for i := 0; i < len(s); i++ {
		xs[i] = fmt.Sprintf("%d", s[i])
	}
	return "(K [" + strings.Join(xs, ";") + "])"
}

func peers(ps []Peer) string {
	xs := make([]string, len(ps))
	for i, p := range ps {
		xs[i] = fmt.Sprintf("Peer %d %d %v", p.ID, p.Store, p.Learner)
	}
	return "[" + strings.Join(xs, "; ") + "]"
}

func (r Region) Coq() string {
	return fmt.Sprintf("(Region %d %s %s %s %d %s %d %d %d %d %d)", r.ID, Key(r.Start), Key(r.End), peers(r.Peers), r.Leader,
		peers(r.Pending), r.Size, r.Ver, r.ConfVer, r.Term, r.Stamp)
}

// Ref prints (id, stamp) of a real RegionInfo, or None.
func Ref(ri *core.RegionInfo) string {
	return fmt.Sprintf("(%d, %d)", ri.GetID(), ri.GetApproximateKeys())
}
func ORef(ri *core.RegionInfo) string {
	if ri == nil {
		return "None"
	}
	return "(Some " + Ref(ri) + ")"
}
func Refs(l []*core.RegionInfo) (string, bool) {
	xs := make([]string, len(l))
	for i, r := range l {
		if r == nil {
			return "", false
		}
		xs[i] = Ref(r)
	}
	return "[" + strings.Join(xs, "; ") + "]", true
}
func Zs(l []int64) string {
	xs := make([]string, len(l))
	for i, v := range l {
		if v < 0 {
			xs[i] = fmt.Sprintf("(%d)", v)
		} else {
			xs[i] = fmt.Sprintf("%d", v)
		}
	}
	return "[" + strings.Join(xs, "; ") + "]"
}

// ---------- key alphabets ----------

type Alphabet struct {
	Name   string
	Bounds []string // sorted boundaries (region start/end keys)
	Probes []string // keys queried: the boundaries, "", and keys strictly between / outside
}

func Small() Alphabet {
	b := []string{"a", "ab", "b", "ba", "c", "d", "da", "e"}
	p := append([]string{"", "0", "aa", "abz", "az", "bb", "cz", "dz", "f", "zz"}, b...)
	sort.Strings(p)
	return Alphabet{"8", b, p}
}

func Large() Alphabet {
	var b []string
	for i := 0; i < 200; i++ {
		switch {
		case i%25 == 0:
			b = append(b, string([]byte{byte('a' + i/25)}))
		case i%25 == 13:
			b = append(b, string([]byte{byte('a' + i/25), 'm', 'x'}))
		default:
			b = append(b, string([]byte{byte('a' + i/25), byte('a' + i%25)}))
		}
	}
	sort.Strings(b)
	p := append([]string{"", "0", "zz"}, b...)
	for i := 0; i < len(b); i += 7 {
		p = append(p, b[i]+"\x00", b[i]+"~")
	}
	sort.Strings(p)
	return Alphabet{"200", b, p}
}

// ---------- history simulator ----------

// Sim holds a consistent region set covering the whole key space, as a TiKV cluster would.
type Sim struct {
	A       Alphabet
	Regions []*Region // sorted by start key, contiguous, first start "" and last end ""
	nextID  uint64
	nextPID uint64
	Stores  []uint64
	stamp   *int64
	Hist    map[string]int
}

func NewSim(a Alphabet, stores int, stamp *int64, r *rng.R) *Sim {
	s := &Sim{A: a, nextID: 1, nextPID: 100, stamp: stamp, Hist: map[string]int{}}
	for i := 1; i <= stores; i++ {
		s.Stores = append(s.Stores, uint64(i))
	}
	first := &Region{ID: s.id(), Start: "", End: "", Ver: 1, ConfVer: 1, Term: 1, Size: int64(1 + r.Intn(90))}
	n := 1 + r.Intn(3)
	perm := s.permStores(r)
	for i := 0; i < n && i < len(perm); i++ {
		first.Peers = append(first.Peers, Peer{ID: s.pid(), Store: perm[i]})
	}
	first.Leader = first.Peers[0].ID
	s.Regions = []*Region{first}
	return s
}

func (s *Sim) id() uint64  { s.nextID++; return s.nextID - 1 }
func (s *Sim) pid() uint64 { s.nextPID++; return s.nextPID - 1 }
func (s *Sim) NextStamp() int64 {
	*s.stamp++
	return *s.stamp
}

func (s *Sim) permStores(r *rng.R) []uint64 {
	p := append([]uint64(nil), s.Stores...)
	for i := len(p) - 1; i > 0; i-- {
		j := r.Intn(i + 1)
		p[i], p[j] = p[j], p[i]
	}
	return p
}

// Snapshot returns the heartbeat content of region i now (fresh stamp).
func (s *Sim) Snapshot(i int) Region {
	c := s.Regions[i].Clone()
	c.Stamp = s.NextStamp()
	return c
}

func (s *Sim) boundsInside(g *Region) []string {
	var out []string
	for _, b := range s.A.Bounds {
		if b > g.Start && (g.End == "" || b < g.End) {
			out = append(out, b)
		}
	}
	return out
}

// Step applies one random history event and returns the indices of the regions it changed.
func (s *Sim) Step(r *rng.R) []int {
	for tries := 0; tries < 20; tries++ {
		i := r.Intn(len(s.Regions))
		g := s.Regions[i]
		switch r.Pick(30, 18, 14, 10, 10, 10, 8) {
		case 0: // split
			in := s.boundsInside(g)
			if len(in) == 0 {
				continue
			}
			k := in[r.Intn(len(in))]
			n := g.Clone()
			n.ID = s.id()
			n.Peers = nil
			for _, p := range g.Peers {
				n.Peers = append(n.Peers, Peer{s.pid(), p.Store, p.Learner})
			}
			n.Pending = nil
			n.Leader = 0
			for j, p := range g.Peers {
				if p.ID == g.Leader {
					n.Leader = n.Peers[j].ID
				}
			}
			g.Ver++
			n.Ver = g.Ver
			n.Size = g.Size / 2
			g.Size -= n.Size
			if r.Bool() { // the new region takes the left half
				n.Start, n.End = g.Start, k
				g.Start = k
				s.Regions = append(s.Regions[:i], append([]*Region{&n}, s.Regions[i:]...)...)
			} else {
				n.Start, n.End = k, g.End
				g.End = k
				s.Regions = append(s.Regions[:i+1], append([]*Region{&n}, s.Regions[i+1:]...)...)
			}
			s.Hist["sim:split"]++
			return []int{i, i + 1}
		case 1: // merge i+1 into i, or i into i+1
			if i+1 >= len(s.Regions) {
				continue
			}
			h := s.Regions[i+1]
			v := g.Ver
			if h.Ver > v {
				v = h.Ver
			}
			if r.Bool() {
				g.End = h.End
				g.Ver = v + 1
				g.Size += h.Size
				s.Regions = append(s.Regions[:i+1], s.Regions[i+2:]...)
			} else {
				h.Start = g.Start
				h.Ver = v + 1
				h.Size += g.Size
				s.Regions = append(s.Regions[:i], s.Regions[i+1:]...)
			}
			s.Hist["sim:merge"]++
			return []int{i}
		case 2: // add a peer (learner first)
			if len(g.Peers) >= len(s.Stores) {
				continue
			}
			used := map[uint64]bool{}
			for _, p := range g.Peers {
				used[p.Store] = true
			}
			for _, st := range s.permStores(r) {
				if !used[st] {
					g.Peers = append(g.Peers, Peer{s.pid(), st, r.Pct(70)})
					break
				}
			}
			g.ConfVer++
			s.Hist["sim:add-peer"]++
			return []int{i}
		case 3: // promote a learner
			done := false
			for j := range g.Peers {
				if g.Peers[j].Learner {
					g.Peers[j].Learner = false
					done = true
					break
				}
			}
			if !done {
				continue
			}
			g.ConfVer++
			s.Hist["sim:promote"]++
			return []int{i}
		case 4: // remove a non-leader peer
			if len(g.Peers) <= 1 {
				continue
			}
			j := r.Intn(len(g.Peers))
			if g.Peers[j].ID == g.Leader {
				continue
			}
			rm := g.Peers[j]
			g.Peers = append(g.Peers[:j:j], g.Peers[j+1:]...)
			var np []Peer
			for _, p := range g.Pending {
				if p.ID != rm.ID {
					np = append(np, p)
				}
			}
			g.Pending = np
			g.ConfVer++
			s.Hist["sim:remove-peer"]++
			return []int{i}
		case 5: // leader change among voters
			var vs []Peer
			for _, p := range g.Peers {
				if !p.Learner && p.ID != g.Leader {
					vs = append(vs, p)
				}
			}
			if len(vs) == 0 {
				continue
			}
			g.Leader = vs[r.Intn(len(vs))].ID
			g.Term++
			s.Hist["sim:leader-change"]++
			return []int{i}
		case 6: // pending peers / size change
			g.Pending = nil
			for _, p := range g.Peers {
				if p.ID != g.Leader && r.Pct(35) {
					g.Pending = append(g.Pending, p)
				}
			}
			g.Size = int64(r.Intn(120))
			s.Hist["sim:pending-size"]++
			return []int{i}
		}
	}
	return nil
}

// RandomValid draws an arbitrary well-formed region (valid range, pending among peers) over the
// alphabet with an id from a small pool: overlapping puts that swallow several neighbours.
func RandomValid(a Alphabet, r *rng.R, idPool int, stores int, stamp int64) Region {
	g := Region{ID: uint64(1 + r.Intn(idPool)), Stamp: stamp, Size: int64(r.Intn(100)), Ver: uint64(1 + r.Intn(6)),
		ConfVer: uint64(1 + r.Intn(4)), Term: uint64(r.Intn(4))}
	n := len(a.Bounds)
	i := r.Intn(n + 1) // 0 = ""
	span := 1 + r.Intn(4)
	if r.Pct(15) {
		span = 1 + r.Intn(n)
	}
	j := i + span
	if i > 0 {
		g.Start = a.Bounds[i-1]
	}
	if j <= n {
		g.End = a.Bounds[j-1]
	} // else "" = +inf
	np := 1 + r.Intn(4)
	if np > stores {
		np = stores
	}
	used := map[uint64]bool{}
	for len(g.Peers) < np {
		st := uint64(1 + r.Intn(stores))
		if used[st] {
			continue
		}
		used[st] = true
		g.Peers = append(g.Peers, Peer{ID: uint64(10*int(g.ID) + len(g.Peers) + 1000*r.Intn(2)), Store: st, Learner: r.Pct(20)})
	}
	var vs []Peer
	for _, p := range g.Peers {
		if !p.Learner {
			vs = append(vs, p)
		}
	}
	if len(vs) > 0 && r.Pct(92) {
		g.Leader = vs[r.Intn(len(vs))].ID
	}
	for _, p := range g.Peers {
		if p.ID != g.Leader && r.Pct(25) {
			g.Pending = append(g.Pending, p)
		}
	}
	return g
}
