// Package c10ast is the translator library of C10/C11: it reads the tables and literal shapes of
// server/schedule/filter/filters.go, the checkers and the schedulers off the AST and prints them as
// Coq terms over the vocabulary of coq/lib/C10_Cluster.v. A shape it does not recognise is an error
// (the check then fails: the tie between code and proof is gone).
package c10ast

import (
	"fmt"
	"go/ast"
	"go/token"
	"sort"
	"strings"

	"pdverif/internal/goast"
)

// KnownConds is the vocabulary of lib/C10_Cluster.v (constructor names = Go method names).
var KnownConds = map[string]bool{"isTombstone": true, "isDown": true, "isOffline": true, "pauseLeaderTransfer": true,
	"isDisconnected": true, "isBusy": true, "exceedRemoveLimit": true, "exceedAddLimit": true, "tooManySnapshots": true,
	"tooManyPendingPeers": true, "hasRejectLeaderProperty": true}
var KnownKinds = []string{"leaderSource", "regionSource", "leaderTarget", "regionTarget", "scatterRegionTarget"}
var KnownFlags = map[string]bool{"TransferLeader": true, "MoveRegion": true, "ScatterRegion": true, "AllowTemporaryStates": true}

func selName(e ast.Expr) string {
	if s, ok := e.(*ast.SelectorExpr); ok {
		return s.Sel.Name
	}
	if i, ok := e.(*ast.Ident); ok {
		return i.Name
	}
	return ""
}

// CondTable: for each case of the switch in anyConditionMatch, the listed f.<cond> method values.
func CondTable(f *goast.File) (string, error) {
	fd, err := f.Func("StoreStateFilter", "anyConditionMatch")
	if err != nil {
		return "", err
	}
	table := map[string][]string{}
	var found bool
	ast.Inspect(fd.Body, func(n ast.Node) bool {
		sw, ok := n.(*ast.SwitchStmt)
		if !ok {
			return true
		}
		found = true
		for _, c := range sw.Body.List {
			cc := c.(*ast.CaseClause)
			var names []string
			ok := false
			for _, st := range cc.Body {
				as, isAs := st.(*ast.AssignStmt)
				if !isAs || len(as.Rhs) != 1 {
					continue
				}
				cl, isCl := as.Rhs[0].(*ast.CompositeLit)
				if !isCl {
					continue
				}
				ok = true
				for _, e := range cl.Elts {
					names = append(names, selName(e))
				}
			}
			if !ok {
				err = fmt.Errorf("%s: anyConditionMatch: a case without a conditionFunc literal", f.Path)
				return false
			}
			for _, k := range cc.List {
				table[selName(k)] = names
			}
		}
		return false
	})
	if err != nil {
		return "", err
	}
	if !found {
		return "", fmt.Errorf("%s: anyConditionMatch: switch not found", f.Path)
	}
	var sb strings.Builder
	sb.WriteString("Definition conds (k : kind) : list cond := (* filters.go: anyConditionMatch *)\n  match k with\n")
	for _, k := range KnownKinds {
		names, ok := table[k]
		if !ok {
			names = nil // kind without a case: no condition is checked
		}
		for _, n := range names {
			if !KnownConds[n] {
				return "", fmt.Errorf("%s: anyConditionMatch lists an unknown condition %q for %s", f.Path, n, k)
			}
		}
		fmt.Fprintf(&sb, "  | %s => %s\n", k, goast.CoqList(names))
	}
	sb.WriteString("  end.\n")
	for k := range table {
		known := false
		for _, kk := range KnownKinds {
			if kk == k {
				known = true
			}
		}
		if !known {
			return "", fmt.Errorf("%s: anyConditionMatch has an unknown kind %q", f.Path, k)
		}
	}
	return sb.String(), nil
}

// CondBodies: for every condition method, whether its result is guarded by !f.AllowTemporaryStates,
// and the source text of the rest of the returned expression.
func CondBodies(f *goast.File) (string, error) {
	var names []string
	for n := range KnownConds {
		names = append(names, n)
	}
	sort.Strings(names)
	var temps, srcs []string
	for _, n := range names {
		fd, err := f.Func("StoreStateFilter", n)
		if err != nil {
			return "", err
		}
		var ret *ast.ReturnStmt
		for _, st := range fd.Body.List {
			if r, ok := st.(*ast.ReturnStmt); ok {
				ret = r
			}
		}
		if ret == nil || len(ret.Results) != 1 {
			return "", fmt.Errorf("%s: %s: single return expected", f.Path, n)
		}
		conj := flattenAnd(ret.Results[0])
		var rest []string
		temp := false
		for _, c := range conj {
			if u, ok := c.(*ast.UnaryExpr); ok && u.Op == token.NOT && selName(u.X) == "AllowTemporaryStates" {
				temp = true
				continue
			}
			rest = append(rest, f.Src(c))
		}
		if temp {
			temps = append(temps, n)
		}
		srcs = append(srcs, "("+n+", "+goast.Q(strings.Join(rest, " && "))+")")
	}
	return "Definition temp_conds : list cond := (* conditions whose result is guarded by !f.AllowTemporaryStates *)\n  " + goast.CoqList(temps) + ".\n" +
		"Definition cond_src : list (cond * string) := (* what each condition function returns (guard stripped) *)\n  " + goast.CoqList(srcs) + ".\n", nil
}

func flattenAnd(e ast.Expr) []ast.Expr {
	if p, ok := e.(*ast.ParenExpr); ok {
		// keep parenthesised disjunctions as one conjunct
		if b, ok := p.X.(*ast.BinaryExpr); ok && b.Op == token.LAND {
			return flattenAnd(b)
		}
		return []ast.Expr{e}
	}
	if b, ok := e.(*ast.BinaryExpr); ok && b.Op == token.LAND {
		return append(flattenAnd(b.X), flattenAnd(b.Y)...)
	}
	return []ast.Expr{e}
}

// Dispatch: the `if <flags> && f.anyConditionMatch(kind, ...) { return false }` cascade of Source/Target.
func Dispatch(f *goast.File, method, coqName string) (string, error) {
	fd, err := f.Func("StoreStateFilter", method)
	if err != nil {
		return "", err
	}
	var rows []string
	for _, st := range fd.Body.List {
		switch x := st.(type) {
		case *ast.IfStmt:
			conj := flattenAnd(x.Cond)
			var guards []string
			kind := ""
			for _, c := range conj {
				if call, ok := c.(*ast.CallExpr); ok && selName(call.Fun) == "anyConditionMatch" && len(call.Args) >= 1 {
					kind = selName(call.Args[0])
					continue
				}
				neg := false
				if u, ok := c.(*ast.UnaryExpr); ok && u.Op == token.NOT {
					neg = true
					c = u.X
				}
				n := selName(c)
				if !KnownFlags[n] {
					return "", fmt.Errorf("%s: StoreStateFilter.%s: unrecognised guard %q", f.Path, method, f.Src(c))
				}
				guards = append(guards, fmt.Sprintf("(%s, %v)", n, !neg))
			}
			if kind == "" {
				return "", fmt.Errorf("%s: StoreStateFilter.%s: an if without anyConditionMatch", f.Path, method)
			}
			// the body must be `return false`
			if len(x.Body.List) != 1 || f.Src(x.Body.List[0]) != "return false" || x.Else != nil {
				return "", fmt.Errorf("%s: StoreStateFilter.%s: unexpected body %q", f.Path, method, f.Src(x.Body))
			}
			rows = append(rows, "("+goast.CoqList(guards)+", "+kind+")")
		case *ast.ReturnStmt:
			if f.Src(x) != "return true" {
				return "", fmt.Errorf("%s: StoreStateFilter.%s: final %q", f.Path, method, f.Src(x))
			}
		default:
			return "", fmt.Errorf("%s: StoreStateFilter.%s: unexpected statement %q", f.Path, method, f.Src(st))
		}
	}
	return fmt.Sprintf("Definition %s : list (list (flag * bool) * kind) := (* filters.go: StoreStateFilter.%s *)\n  %s.\n", coqName, method, goast.CoqList(rows)), nil
}

// IotaNames returns the names of the const block that starts with `first = iota`.
func IotaNames(f *goast.File, first string) ([]string, error) {
	for _, d := range f.AST.Decls {
		gd, ok := d.(*ast.GenDecl)
		if !ok || gd.Tok != token.CONST || len(gd.Specs) == 0 {
			continue
		}
		vs := gd.Specs[0].(*ast.ValueSpec)
		if len(vs.Names) == 1 && vs.Names[0].Name == first {
			var out []string
			for _, s := range gd.Specs {
				for _, n := range s.(*ast.ValueSpec).Names {
					out = append(out, n.Name)
				}
			}
			return out, nil
		}
	}
	return nil, fmt.Errorf("%s: const block starting with %s not found", f.Path, first)
}

// StateFilterFlags returns, for every &filter.StoreStateFilter{...} (or StoreStateFilter{...}) literal in fd
// in source order, the list of boolean fields set to true.
func StateFilterFlags(f *goast.File, fd *ast.FuncDecl) ([][]string, error) {
	var out [][]string
	var err error
	ast.Inspect(fd.Body, func(n ast.Node) bool {
		cl, ok := n.(*ast.CompositeLit)
		if !ok || selName(cl.Type) != "StoreStateFilter" {
			return true
		}
		var flags []string
		for _, e := range cl.Elts {
			kv, ok := e.(*ast.KeyValueExpr)
			if !ok {
				err = fmt.Errorf("%s: positional StoreStateFilter literal", f.Path)
				return false
			}
			k := selName(kv.Key)
			if KnownFlags[k] {
				switch f.Src(kv.Value) {
				case "true":
					flags = append(flags, k)
				case "false":
				default:
					err = fmt.Errorf("%s: StoreStateFilter.%s set to a non-literal %q", f.Path, k, f.Src(kv.Value))
					return false
				}
			}
		}
		out = append(out, flags)
		return true
	})
	return out, err
}

// CompositeElems returns the source text of the elements of the first composite literal assigned to
// variable `name` in fd (e.g. `filters := []filter.Filter{...}`).
func CompositeElems(f *goast.File, fd *ast.FuncDecl, name string) ([]string, error) {
	var out []string
	found := false
	ast.Inspect(fd.Body, func(n ast.Node) bool {
		if found {
			return false
		}
		as, ok := n.(*ast.AssignStmt)
		if !ok || len(as.Lhs) != 1 || len(as.Rhs) != 1 || selName(as.Lhs[0]) != name {
			return true
		}
		cl, ok := as.Rhs[0].(*ast.CompositeLit)
		if !ok {
			return true
		}
		found = true
		for _, e := range cl.Elts {
			out = append(out, f.Src(e))
		}
		return false
	})
	if !found {
		return nil, fmt.Errorf("%s: %s: composite literal assigned to %s not found", f.Path, fd.Name.Name, name)
	}
	return out, nil
}

// Chain returns the method-call chain (innermost first) of the expression assigned to `name` in fd,
// each element "Method(args source)".
func Chain(f *goast.File, fd *ast.FuncDecl, name string) ([]string, error) {
	var rhs ast.Expr
	ast.Inspect(fd.Body, func(n ast.Node) bool {
		if rhs != nil {
			return false
		}
		as, ok := n.(*ast.AssignStmt)
		if !ok || len(as.Lhs) != 1 || len(as.Rhs) != 1 || selName(as.Lhs[0]) != name {
			return true
		}
		if _, ok := as.Rhs[0].(*ast.CallExpr); ok {
			rhs = as.Rhs[0]
		}
		return true
	})
	if rhs == nil {
		return nil, fmt.Errorf("%s: %s: call chain assigned to %s not found", f.Path, fd.Name.Name, name)
	}
	return ChainOf(f, rhs), nil
}

// ChainOf flattens x.A(a).B(b) into ["x.A(a)" ... ] innermost first, as "Name(args)".
func ChainOf(f *goast.File, e ast.Expr) []string {
	var out []string
	for {
		call, ok := e.(*ast.CallExpr)
		if !ok {
			break
		}
		var args []string
		for _, a := range call.Args {
			args = append(args, f.Src(a))
		}
		ell := ""
		if call.Ellipsis != token.NoPos {
			ell = "..."
		}
		switch fn := call.Fun.(type) {
		case *ast.SelectorExpr:
			out = append([]string{fn.Sel.Name + "(" + strings.Join(args, ", ") + ell + ")"}, out...)
			e = fn.X
			if _, isCall := e.(*ast.CallExpr); !isCall {
				return out
			}
		default:
			out = append([]string{f.Src(call.Fun) + "(" + strings.Join(args, ", ") + ell + ")"}, out...)
			return out
		}
	}
	return out
}

// ReturnChain returns the chain of the first `return <call chain>` statement of fd.
func ReturnChain(f *goast.File, fd *ast.FuncDecl) ([]string, error) {
	for _, st := range fd.Body.List {
		if r, ok := st.(*ast.ReturnStmt); ok && len(r.Results) >= 1 {
			if _, ok := r.Results[0].(*ast.CallExpr); ok {
				return ChainOf(f, r.Results[0]), nil
			}
		}
	}
	return nil, fmt.Errorf("%s: %s: no returned call chain", f.Path, fd.Name.Name)
}

// CmpOp maps the operator of the first if-condition in fd whose source contains `marker` to a Coq cmpop.
func CmpOp(f *goast.File, fd *ast.FuncDecl, marker string) (string, string, error) {
	var res, src string
	ast.Inspect(fd.Body, func(n ast.Node) bool {
		if res != "" {
			return false
		}
		is, ok := n.(*ast.IfStmt)
		if !ok {
			return true
		}
		b, ok := is.Cond.(*ast.BinaryExpr)
		if !ok || !strings.Contains(f.Src(is.Cond), marker) {
			return true
		}
		switch b.Op {
		case token.GTR:
			res = "CGt"
		case token.GEQ:
			res = "CGe"
		case token.LSS:
			res = "CLt"
		case token.LEQ:
			res = "CLe"
		case token.EQL:
			res = "CEq"
		case token.NEQ:
			res = "CNe"
		}
		src = f.Src(is.Cond)
		return true
	})
	if res == "" {
		return "", "", fmt.Errorf("%s: %s: comparison containing %q not found", f.Path, fd.Name.Name, marker)
	}
	return res, src, nil
}

// CallsIn lists, in source order, the names of called functions/methods in fd that satisfy keep.
func CallsIn(fd *ast.FuncDecl, keep func(string) bool) []string {
	var out []string
	ast.Inspect(fd.Body, func(n ast.Node) bool {
		c, ok := n.(*ast.CallExpr)
		if !ok {
			return true
		}
		if n := selName(c.Fun); keep(n) {
			out = append(out, n)
		}
		return true
	})
	// ast.Inspect visits a call before its arguments/receiver: sort by position instead
	return out
}

// CallsByPos is CallsIn ordered by the position of the closing parenthesis (evaluation order for chains).
func CallsByPos(fd *ast.FuncDecl, keep func(string) bool) []string {
	type it struct {
		p token.Pos
		n string
	}
	var xs []it
	ast.Inspect(fd.Body, func(n ast.Node) bool {
		c, ok := n.(*ast.CallExpr)
		if !ok {
			return true
		}
		if nm := selName(c.Fun); keep(nm) {
			xs = append(xs, it{c.Rparen, nm})
		}
		return true
	})
	sort.Slice(xs, func(i, j int) bool { return xs[i].p < xs[j].p })
	out := make([]string, len(xs))
	for i, x := range xs {
		out[i] = x.n
	}
	return out
}

func StrList(name string, xs []string, comment string) string {
	qs := make([]string, len(xs))
	for i, x := range xs {
		qs[i] = goast.Q(x)
	}
	return fmt.Sprintf("Definition %s : list string := (* %s *)\n  %s.\n", name, comment, goast.CoqList(qs))
}

func FlagList(name string, xs []string, comment string) string {
	return fmt.Sprintf("Definition %s : list flag := (* %s *)\n  %s.\n", name, comment, goast.CoqList(xs))
}

// AssignSrc returns the source text of the right-hand side of the first assignment to variable `name` in fd.
func AssignSrc(f *goast.File, fd *ast.FuncDecl, name string) (string, error) {
	var out string
	ast.Inspect(fd.Body, func(n ast.Node) bool {
		if out != "" {
			return false
		}
		as, ok := n.(*ast.AssignStmt)
		if ok && len(as.Lhs) == 1 && len(as.Rhs) == 1 && selName(as.Lhs[0]) == name {
			out = f.Src(as.Rhs[0])
		}
		return true
	})
	if out == "" {
		return "", fmt.Errorf("%s: %s: assignment to %s not found", f.Path, fd.Name.Name, name)
	}
	return out, nil
}

// ---------- robustness against harmless rewrites ----------

func isLogOrMetric(e ast.Expr) bool {
	call, ok := e.(*ast.CallExpr)
	if !ok {
		return false
	}
	// root identifier of the selector chain and the names on it
	var names []string
	var root string
	var walk func(x ast.Expr)
	walk = func(x ast.Expr) {
		switch v := x.(type) {
		case *ast.CallExpr:
			walk(v.Fun)
		case *ast.SelectorExpr:
			names = append(names, v.Sel.Name)
			walk(v.X)
		case *ast.Ident:
			root = v.Name
		}
	}
	walk(call)
	if root == "log" {
		return true
	}
	last := ""
	if len(names) > 0 {
		last = names[0]
	}
	hasLabels := false
	for _, n := range names {
		if n == "WithLabelValues" {
			hasLabels = true
		}
	}
	switch last {
	case "Inc", "Add", "Observe", "Set", "Dec":
		return hasLabels || strings.HasSuffix(root, "Counter") || strings.HasSuffix(root, "Gauge")
	}
	return hasLabels && last == "WithLabelValues"
}

func scrubBlock(list []ast.Stmt) []ast.Stmt {
	var out []ast.Stmt
	for _, s := range list {
		if es, ok := s.(*ast.ExprStmt); ok && isLogOrMetric(es.X) {
			continue
		}
		out = append(out, s)
	}
	return out
}

// Prepare makes the extraction insensitive to two kinds of harmless edits, in every function of the file:
// log / metrics statements are dropped, and variables declared inside a function body (:=, var, range; not
// parameters, receivers or results) are renamed v1, v2, ... in order of declaration.
func Prepare(f *goast.File) *goast.File {
	for _, d := range f.AST.Decls {
		fd, ok := d.(*ast.FuncDecl)
		if !ok || fd.Body == nil {
			continue
		}
		ast.Inspect(fd.Body, func(n ast.Node) bool {
			switch b := n.(type) {
			case *ast.BlockStmt:
				b.List = scrubBlock(b.List)
			case *ast.CaseClause:
				b.Body = scrubBlock(b.Body)
			case *ast.CommClause:
				b.Body = scrubBlock(b.Body)
			}
			return true
		})
		// objects declared inside the body
		names := map[*ast.Object]string{}
		k := 0
		ast.Inspect(fd.Body, func(n ast.Node) bool {
			id, ok := n.(*ast.Ident)
			if !ok || id.Obj == nil || id.Obj.Kind != ast.Var || id.Name == "_" {
				return true
			}
			if _, seen := names[id.Obj]; seen {
				return true
			}
			pos := id.Obj.Pos()
			if pos >= fd.Body.Pos() && pos <= fd.Body.End() {
				k++
				names[id.Obj] = fmt.Sprintf("v%d", k)
			}
			return true
		})
		ast.Inspect(fd.Body, func(n ast.Node) bool {
			if id, ok := n.(*ast.Ident); ok && id.Obj != nil {
				if nn, ok := names[id.Obj]; ok {
					id.Name = nn
				}
			}
			return true
		})
	}
	return f
}

// FirstCompositeOf returns the element source texts of the first composite literal in fd whose type text is typ
// (e.g. "[]filter.Filter").
func FirstCompositeOf(f *goast.File, fd *ast.FuncDecl, typ string) ([]string, error) {
	var out []string
	found := false
	ast.Inspect(fd.Body, func(n ast.Node) bool {
		if found {
			return false
		}
		cl, ok := n.(*ast.CompositeLit)
		if !ok || cl.Type == nil || f.Src(cl.Type) != typ {
			return true
		}
		found = true
		for _, e := range cl.Elts {
			out = append(out, f.Src(e))
		}
		return false
	})
	if !found {
		return nil, fmt.Errorf("%s: %s: no composite literal of type %s", f.Path, fd.Name.Name, typ)
	}
	return out, nil
}

// ChainFrom returns the call chain (innermost first) of the first assigned expression in fd whose innermost call is `start`.
func ChainFrom(f *goast.File, fd *ast.FuncDecl, start string) ([]string, error) {
	var res []string
	ast.Inspect(fd.Body, func(n ast.Node) bool {
		if res != nil {
			return false
		}
		as, ok := n.(*ast.AssignStmt)
		if !ok || len(as.Rhs) != 1 {
			return true
		}
		if _, ok := as.Rhs[0].(*ast.CallExpr); !ok {
			return true
		}
		ch := ChainOf(f, as.Rhs[0])
		if len(ch) > 1 && strings.HasPrefix(ch[0], start+"(") {
			res = ch
		}
		return true
	})
	if res == nil {
		return nil, fmt.Errorf("%s: %s: no call chain starting with %s", f.Path, fd.Name.Name, start)
	}
	return res, nil
}

// FirstCompositeSrc returns the source text of the first composite literal of type typ (possibly behind &) in fd.
func FirstCompositeSrc(f *goast.File, fd *ast.FuncDecl, typ string) (string, error) {
	var out string
	ast.Inspect(fd.Body, func(n ast.Node) bool {
		if out != "" {
			return false
		}
		if u, ok := n.(*ast.UnaryExpr); ok {
			if cl, ok := u.X.(*ast.CompositeLit); ok && cl.Type != nil && f.Src(cl.Type) == typ {
				out = f.Src(u)
				return false
			}
		}
		if cl, ok := n.(*ast.CompositeLit); ok && cl.Type != nil && f.Src(cl.Type) == typ {
			out = f.Src(cl)
			return false
		}
		return true
	})
	if out == "" {
		return "", fmt.Errorf("%s: %s: no composite literal of type %s", f.Path, fd.Name.Name, typ)
	}
	return out, nil
}
