// Package dclife drives one history on a real server with Local TSO: a dc-location (a fake member's record) joins,
// its allocator serves and is moved one hour ahead, every member of the dc-location is removed (the allocator group is
// torn down by the patrol), a further dc-location joins meanwhile, and the dc-location comes back. The drivers judge what is
// observed: the suffix of a dc-location is for ever and unique (C05), a returning allocator starts above what it
// granted before and its stored window does not go back (C01 / C02).
package dclife

import (
	"context"
	"fmt"
	"strings"
	"time"

	"github.com/pingcap/kvproto/pkg/pdpb"
	"github.com/tikv/pd/pkg/typeutil"
	"github.com/tikv/pd/server"
	"github.com/tikv/pd/server/tso"
	"go.etcd.io/etcd/clientv3"
)

type Obs struct {
	Skipped                   string // non-empty: the history could not be driven (machinery), nothing to judge
	SuffixBefore, SuffixAfter int32
	OtherSuffix               int32
	TSBefore, TSAfter         pdpb.Timestamp
	WinBefore, WinAfter       *uint64 // stored window of the dc-location (nil = no such key)
	WinWhileAway              *uint64
}

func window(s *server.Server, dc string) *uint64 {
	ctx, cancel := context.WithTimeout(context.Background(), 5*time.Second)
	defer cancel()
	r, err := s.GetClient().Get(ctx, fmt.Sprintf("/pd/%d", s.ClusterID()), clientv3.WithPrefix())
	if err != nil {
		return nil
	}
	for _, kv := range r.Kvs {
		if strings.HasSuffix(string(kv.Key), "/"+dc+"/timestamp") {
			if v, err := typeutil.BytesToUint64(kv.Value); err == nil {
				return &v
			}
		}
	}
	return nil
}

// Serves tells whether this server's Local allocator of dc is initialised and leads.
func Serves(am *tso.AllocatorManager, dc string) bool {
	a, err := am.GetAllocator(dc)
	if err != nil || !a.IsInitialize() {
		return false
	}
	l, ok := a.(*tso.LocalTSOAllocator)
	return ok && l.IsAllocatorLeader()
}

// Join writes the dc-location record of a (fake) member and waits until this server leads the allocator of dc.
func Join(s *server.Server, dc string, member uint64, d time.Duration) bool {
	am := s.GetTSOAllocatorManager()
	ctx, cancel := context.WithTimeout(context.Background(), 5*time.Second)
	_, err := s.GetClient().Put(ctx, s.GetMember().GetDCLocationPath(member), dc)
	cancel()
	if err != nil {
		return false
	}
	deadline := time.Now().Add(d)
	for time.Now().Before(deadline) {
		am.ClusterDCLocationChecker()
		if Serves(am, dc) {
			return true
		}
		time.Sleep(50 * time.Millisecond)
	}
	return false
}

// LeaveAndReturn runs the history for dc-location dc (record of fake member `member`) and then lets `other` join.
func LeaveAndReturn(s *server.Server, dc string, member uint64, other string, otherMember uint64) (o Obs) {
	am := s.GetTSOAllocatorManager()
	if !Join(s, dc, member, 30*time.Second) {
		o.Skipped = dc + " was not served within 30 s"
		return
	}
	a, err := am.GetAllocator(dc)
	if err != nil {
		o.Skipped = err.Error()
		return
	}
	ahead := uint64(time.Now().UnixNano()/1e6+3600*1000) << 18
	if err := a.SetTSO(ahead); err != nil {
		o.Skipped = "SetTSO: " + err.Error()
		return
	}
	if o.TSBefore, err = am.HandleTSORequest(dc, 1); err != nil {
		o.Skipped = "local request: " + err.Error()
		return
	}
	o.SuffixBefore = am.GetClusterDCLocations()[dc].Suffix
	o.WinBefore = window(s, dc)
	// every member of the dc-location leaves
	if err := s.GetMember().DeleteMemberDCLocationInfo(member); err != nil {
		o.Skipped = "delete dc-location record: " + err.Error()
		return
	}
	gone := false
	for deadline := time.Now().Add(15 * time.Second); time.Now().Before(deadline); time.Sleep(50 * time.Millisecond) {
		am.ClusterDCLocationChecker()
		if _, err := am.GetAllocator(dc); err != nil {
			gone = true
			break
		}
	}
	if !gone {
		o.Skipped = "the allocator group of " + dc + " was not torn down within 15 s"
		return
	}
	time.Sleep(1200 * time.Millisecond) // one more patrol round
	o.WinWhileAway = window(s, dc)
	// another dc-location joins while dc is away
	if !Join(s, other, otherMember, 30*time.Second) {
		o.Skipped = other + " was not served within 30 s"
		return
	}
	o.OtherSuffix = am.GetClusterDCLocations()[other].Suffix
	// the dc-location comes back (a replacement member with the same label)
	if !Join(s, dc, member+1, 30*time.Second) {
		o.Skipped = dc + " was not served again within 30 s"
		return
	}
	o.SuffixAfter = am.GetClusterDCLocations()[dc].Suffix
	if o.TSAfter, err = am.HandleTSORequest(dc, 1); err != nil {
		o.Skipped = "local request after the return: " + err.Error()
		return
	}
	o.WinAfter = window(s, dc)
	return
}
