// Package life10 (C10/C11, round 6): store LIFE-CYCLE histories on a real server.  The cluster views of the other phases are
// self-consistent by construction; here the store records are produced by the real store API of RaftCluster - PutStore
// (registration and RE-registration of a restarted TiKV), RemoveStore (store delete), UpStore, UpdateStoreLabels, store
// heartbeats - in generated orders, some of them OVERLAPPING: the storage write of one call is held back (a kv.Base wrapper
// around the server's own etcd KV, no hook in product code) while a second call for the same store is started, then released.
// ORACLE: the acknowledged record - a plain state machine over the calls that returned nil, in the order their critical
// sections were entered (the held call first) - says which state and labels every store has.  The served record
// (RaftCluster.GetStore) and the stored record (storage) are compared with it, and the drivers then run the real checkers /
// schedulers / scatterer on the RaftCluster and judge every target store against the ACKNOWLEDGED record.
package life10

import (
	"fmt"
	"sort"
	"strings"
	"sync"
	"time"

	"github.com/pingcap/kvproto/pkg/metapb"
	"github.com/pingcap/kvproto/pkg/pdpb"
	"github.com/tikv/pd/server"
	"github.com/tikv/pd/server/cluster"
	"github.com/tikv/pd/server/core"
	"github.com/tikv/pd/server/kv"

	"pdverif/internal/rng"
	"pdverif/internal/srv10"
)

// SlowKV holds back the Save of one key (one shot) until Release.
type SlowKV struct {
	kv.Base
	mu      sync.Mutex
	suffix  string
	entered chan struct{}
	release chan struct{}
}

func (s *SlowKV) Arm(suffix string) {
	s.mu.Lock()
	defer s.mu.Unlock()
	s.suffix, s.entered, s.release = suffix, make(chan struct{}), make(chan struct{})
}

func (s *SlowKV) Disarm() {
	s.mu.Lock()
	defer s.mu.Unlock()
	s.suffix = ""
}

func (s *SlowKV) Save(key, value string) error {
	s.mu.Lock()
	hit := s.suffix != "" && strings.HasSuffix(key, s.suffix)
	entered, release := s.entered, s.release
	if hit {
		s.suffix = ""
	}
	s.mu.Unlock()
	if hit {
		close(entered)
		<-release
	}
	return s.Base.Save(key, value)
}

// Op is one call of a history. B != nil: the call B is started while the storage write of this call is held back.
type Op struct {
	Kind   string // put | reput | remove | up | relabel | heartbeat
	Store  uint64
	Labels [][2]string `json:",omitempty"`
	B      *Op         `json:",omitempty"`
}

// Ack is the acknowledged record of a store.
type Ack struct {
	State  metapb.StoreState
	Labels [][2]string
}

type World struct {
	X   *srv10.Srv
	S   *server.Server
	RC  *cluster.RaftCluster
	KV  *SlowKV
	Ack map[uint64]*Ack
}

// Start brings up the real server with the KV wrapper in place.
func Start() (*World, error) {
	x, err := srv10.Start(nil)
	if err != nil {
		return nil, err
	}
	if err := x.Bootstrap(&metapb.Store{Id: 1, Address: "s1", Version: "4.0.0"}); err != nil {
		x.Close()
		return nil, err
	}
	w := &World{X: x, S: x.S, RC: x.S.GetRaftCluster(), Ack: map[uint64]*Ack{}}
	st := x.S.GetStorage()
	w.KV = &SlowKV{Base: st.Base}
	w.RC.Stop()
	st.Base = w.KV
	if err := w.RC.Start(x.S); err != nil {
		x.Close()
		return nil, err
	}
	return w, nil
}

func (w *World) Close() { w.X.Close() }

// Reset wipes stores and regions (cache and storage records are overwritten by the next puts) and starts the cluster again.
func (w *World) Reset(stores int) {
	w.RC.Stop()
	bc := w.S.GetBasicCluster()
	for _, rg := range bc.GetRegions() {
		bc.RemoveRegion(rg)
	}
	for _, st := range bc.GetStores() {
		bc.DeleteStore(st)
	}
	other := core.NewStorage(w.KV.Base)
	for i := 1; i <= stores; i++ {
		if err := other.SaveStore(&metapb.Store{Id: uint64(i), Address: fmt.Sprintf("s%d", i), Version: "4.0.0", State: metapb.StoreState_Up,
			Labels: []*metapb.StoreLabel{{Key: "zone", Value: fmt.Sprintf("z%d", i)}}}); err != nil {
			panic(err)
		}
	}
	for i := stores + 1; i <= 8; i++ {
		_ = other.DeleteStore(&metapb.Store{Id: uint64(i)})
	}
	if err := w.RC.Start(w.S); err != nil {
		panic(err)
	}
	w.Ack = map[uint64]*Ack{}
	for i := 1; i <= stores; i++ {
		w.Ack[uint64(i)] = &Ack{State: metapb.StoreState_Up, Labels: [][2]string{{"zone", fmt.Sprintf("z%d", i)}}}
		w.Heartbeat(uint64(i), 30)
	}
}

func (w *World) Heartbeat(id uint64, regions int) error {
	return w.RC.HandleStoreHeartbeat(&pdpb.StoreStats{StoreId: id, Capacity: 1000 << 30, Available: 600 << 30, UsedSize: 400 << 30, RegionCount: uint32(regions)})
}

func metaLabels(ls [][2]string) []*metapb.StoreLabel {
	var out []*metapb.StoreLabel
	for _, l := range ls {
		out = append(out, &metapb.StoreLabel{Key: l[0], Value: l[1]})
	}
	return out
}

// call runs one real API call.
func (w *World) call(o *Op) error {
	switch o.Kind {
	case "put", "reput":
		// what a (re)starting TiKV sends: its id, addresses, version, labels; never a state (proto default Up)
		return w.RC.PutStore(&metapb.Store{Id: o.Store, Address: fmt.Sprintf("s%d", o.Store), Version: "4.0.0", Labels: metaLabels(o.Labels),
			StartTimestamp: time.Now().Unix()})
	case "remove":
		return w.RC.RemoveStore(o.Store, false)
	case "up":
		return w.RC.UpStore(o.Store)
	case "relabel":
		return w.RC.UpdateStoreLabels(o.Store, metaLabels(o.Labels), true)
	case "heartbeat":
		return w.Heartbeat(o.Store, 0)
	}
	panic("life10: unknown op " + o.Kind)
}

// ack applies a call that returned nil to the acknowledged record.
func (w *World) ack(o *Op) {
	a := w.Ack[o.Store]
	switch o.Kind {
	case "put", "reput":
		if a == nil {
			w.Ack[o.Store] = &Ack{State: metapb.StoreState_Up, Labels: o.Labels}
			return
		}
		// labels are merged (same keys overwritten, others kept); the STATE is PD's and is not touched by a registration
		for _, l := range o.Labels {
			found := false
			for i := range a.Labels {
				if a.Labels[i][0] == l[0] {
					a.Labels[i][1], found = l[1], true
				}
			}
			if !found {
				a.Labels = append(a.Labels, l)
			}
		}
	case "remove":
		if a != nil && a.State == metapb.StoreState_Up {
			a.State = metapb.StoreState_Offline
		}
	case "up":
		if a != nil && a.State == metapb.StoreState_Offline {
			a.State = metapb.StoreState_Up
		}
	case "relabel":
		if a != nil {
			a.Labels = o.Labels
		}
	}
}

// Run executes a history; returns a description of calls that failed (they are not acknowledged).
func (w *World) Run(h []Op) []string {
	var failed []string
	for i := range h {
		o := &h[i]
		if o.B == nil {
			if err := w.call(o); err != nil {
				failed = append(failed, fmt.Sprintf("%s(%d): %v", o.Kind, o.Store, err))
			} else {
				w.ack(o)
			}
			continue
		}
		w.KV.Arm(fmt.Sprintf("/s/%020d", o.Store))
		var ea, eb error
		done := make(chan struct{})
		go func() { ea = w.call(o); close(done) }()
		held := true
		select {
		case <-w.KV.entered:
		case <-done: // the call wrote nothing (e.g. store already Offline): nothing to hold back, the second call must not be caught instead
			held = false
			w.KV.Disarm()
		}
		doneB := make(chan struct{})
		go func() { eb = w.call(o.B); close(doneB) }()
		if held {
			time.Sleep(25 * time.Millisecond) // let the second call get as far as it can
			close(w.KV.release)
		}
		for _, ch := range []chan struct{}{done, doneB} {
			select {
			case <-ch:
			case <-time.After(30 * time.Second):
				panic("life10: a store API call did not return within 30 s in history " + Describe(h))
			}
		}
		w.KV.Disarm()
		if ea != nil {
			failed = append(failed, fmt.Sprintf("%s(%d): %v", o.Kind, o.Store, ea))
		} else {
			w.ack(o)
		}
		if eb != nil {
			failed = append(failed, fmt.Sprintf("%s(%d): %v", o.B.Kind, o.B.Store, eb))
		} else {
			w.ack(o.B)
		}
	}
	return failed
}

func labelString(ls [][2]string) string {
	var xs []string
	for _, l := range ls {
		xs = append(xs, l[0]+"="+l[1])
	}
	sort.Strings(xs)
	return strings.Join(xs, ",")
}

// notUp: an acknowledged Offline store may have been buried meanwhile (Tombstone) - both are "not up".
func sameState(ack, got metapb.StoreState) bool {
	return ack == got || (ack == metapb.StoreState_Offline && got == metapb.StoreState_Tombstone)
}

// Diffs compares the served and the stored record of every store with the acknowledged one.
func (w *World) Diffs() []string {
	var out []string
	var ids []uint64
	for id := range w.Ack {
		ids = append(ids, id)
	}
	sort.Slice(ids, func(i, j int) bool { return ids[i] < ids[j] })
	for _, id := range ids {
		a := w.Ack[id]
		st := w.RC.GetStore(id)
		if st == nil {
			out = append(out, fmt.Sprintf("store %d is acknowledged (%s) but not served", id, a.State))
			continue
		}
		if !sameState(a.State, st.GetState()) {
			out = append(out, fmt.Sprintf("store %d: acknowledged state %s, served as %s", id, a.State, st.GetState()))
		}
		var ls [][2]string
		for _, l := range st.GetLabels() {
			ls = append(ls, [2]string{l.GetKey(), l.GetValue()})
		}
		if labelString(ls) != labelString(a.Labels) {
			out = append(out, fmt.Sprintf("store %d: acknowledged labels {%s}, served {%s}", id, labelString(a.Labels), labelString(ls)))
		}
		m := &metapb.Store{}
		if ok, err := w.S.GetStorage().LoadStore(id, m); err == nil && ok && !sameState(a.State, m.GetState()) {
			out = append(out, fmt.Sprintf("store %d: acknowledged state %s, stored as %s", id, a.State, m.GetState()))
		}
	}
	return out
}

// Generate draws a history over stores 1..n (all registered, Up, heartbeating at the start).
func Generate(r *rng.R, n int) []Op {
	var h []Op
	lab := func(id uint64) [][2]string { return [][2]string{{"zone", fmt.Sprintf("z%d", id)}} }
	steps := 2 + r.Intn(4)
	for i := 0; i < steps; i++ {
		id := uint64(1 + r.Intn(n))
		switch r.Pick(22, 16, 10, 12, 20, 20) {
		case 0:
			h = append(h, Op{Kind: "remove", Store: id})
		case 1:
			// the store is being removed and its TiKV restarts: it registers again, then heartbeats
			h = append(h, Op{Kind: "remove", Store: id}, Op{Kind: "reput", Store: id, Labels: lab(id)}, Op{Kind: "heartbeat", Store: id})
		case 2:
			h = append(h, Op{Kind: "reput", Store: id, Labels: lab(id)}, Op{Kind: "heartbeat", Store: id})
		case 3:
			h = append(h, Op{Kind: "remove", Store: id}, Op{Kind: "up", Store: id})
		case 4:
			// a heartbeat (or a re-registration) arrives while `store delete` waits for its storage write
			b := &Op{Kind: "heartbeat", Store: id}
			if r.Pct(25) {
				b = &Op{Kind: "reput", Store: id, Labels: lab(id)}
			}
			h = append(h, Op{Kind: "remove", Store: id, B: b})
		case 5:
			// ... or while a label update / `store up` waits for it
			if r.Pct(60) {
				h = append(h, Op{Kind: "relabel", Store: id, Labels: [][2]string{{"zone", fmt.Sprintf("z%d", 1+r.Intn(3))}}, B: &Op{Kind: "heartbeat", Store: id}})
			} else {
				h = append(h, Op{Kind: "remove", Store: id}, Op{Kind: "up", Store: id, B: &Op{Kind: "heartbeat", Store: id}})
			}
		}
	}
	// every store reports once more at the end (an offline store that is being drained is alive)
	for id := 1; id <= n; id++ {
		h = append(h, Op{Kind: "heartbeat", Store: uint64(id)})
	}
	return h
}

// Describe prints a history.
func Describe(h []Op) string {
	var xs []string
	for _, o := range h {
		s := fmt.Sprintf("%s(%d)", o.Kind, o.Store)
		if o.Kind == "relabel" {
			s = fmt.Sprintf("relabel(%d,%s)", o.Store, labelString(o.Labels))
		}
		if o.B != nil {
			s += fmt.Sprintf(" || %s(%d) started while the storage write of the former is held back", o.B.Kind, o.B.Store)
		}
		xs = append(xs, s)
	}
	return strings.Join(xs, "; ")
}
