// Driver for C13: runs real placement.RuleManager objects on core.Storage over a fault-injecting,
// write-logging kv.Base (internal/kvx13) through generated histories of set / delete / batch / bundle /
// group operations, restarts, storage faults at individual writes and foreign writes into the storage.
// After every operation all observers of the live manager are dumped and a second RuleManager is
// initialised from a copy of the storage.  (ops, observations) are printed as Coq terms for
// model/C13_Rules.v.  Every random choice derives from rng.New(seed).Fork(case).
package main

import (
	"encoding/hex"
	"encoding/json"
	"bytes"
	"context"
	"flag"
	"fmt"
	"math"
	"net/http"
	"net/http/httptest"
	"os"
	"path"
	"strings"
	"time"

	"github.com/pingcap/kvproto/pkg/metapb"
	"github.com/pingcap/log"
	"github.com/tikv/pd/pkg/errs"
	"github.com/tikv/pd/server/core"
	"github.com/tikv/pd/server/kv"
	"github.com/tikv/pd/server/schedule/placement"
	"go.uber.org/zap"

	"pdverif/internal/coqfmt"
	"pdverif/internal/etcdx"
	"pdverif/internal/kvx13"
	"pdverif/internal/res"
	"pdverif/internal/rng"
	"pdverif/internal/srv14"

	"github.com/tikv/pd/server/api"
	"github.com/tikv/pd/server/cluster"
	"github.com/tikv/pd/server/config"
)

// ---------- raw operations (json, replayable) ----------
type ruleJ struct {
	G        string `json:"g"`
	I        string `json:"i"`
	Index    int    `json:"index,omitempty"`
	Override bool   `json:"override,omitempty"`
	Start    string `json:"start"` // hex
	End      string `json:"end"`   // hex
	Role     string `json:"role"`
	Count    int    `json:"count"`
	Ver      int    `json:"ver"`
	BadOp    bool   `json:"bad_op,omitempty"`
	Zone     string `json:"zone,omitempty"` // label constraint `zone in [Zone]` (hand-over cases: matched against the real stores)
	// key type of the manager when a client sends this rule ("table" / "txn": the keys must be memcomparable
	// encodings, pd-server.key-type; "" = raw): part of what makes the rule content acceptable
	KT string `json:"kt,omitempty"`
	// isolation_level of the rule (JSON only: part of the content the version label stands for). The tree
	// accepts any level, also one that is not among the location labels (records of that shape exist)
	Iso string `json:"iso,omitempty"`
}
type groupJ struct {
	ID       string `json:"id"`
	Index    int    `json:"index,omitempty"`
	Override bool   `json:"override,omitempty"`
}
type bopJ struct {
	Add    *ruleJ `json:"add,omitempty"`
	G      string `json:"g,omitempty"`
	I      string `json:"i,omitempty"`
	Prefix bool   `json:"prefix,omitempty"`
}
type bundleJ struct {
	ID       string  `json:"id"`
	Index    int     `json:"index,omitempty"`
	Override bool    `json:"override,omitempty"`
	Rules    []ruleJ `json:"rules"`
}
type opJ struct {
	Kind        string    `json:"kind"` // restart set del setrules batch group delgroup bundle allbundles delbundle corrupt drop
	MaxReplicas int       `json:"max_replicas,omitempty"`
	Rule        *ruleJ    `json:"rule,omitempty"`
	G           string    `json:"g,omitempty"`
	I           string    `json:"i,omitempty"`
	Rules       []ruleJ   `json:"rules,omitempty"`
	Batch       []bopJ    `json:"batch,omitempty"`
	Group       *groupJ   `json:"group,omitempty"`
	Bundle      *bundleJ  `json:"bundle,omitempty"`
	Bundles     []bundleJ `json:"bundles,omitempty"`
	OverrideAll bool      `json:"override_all,omitempty"`
	FaultN      int       `json:"fault_n,omitempty"`     // fail the n-th storage write of this operation (0 = none)
	FaultAfter  bool      `json:"fault_after,omitempty"` // the failing write is applied before the error
	Garbage     bool      `json:"garbage,omitempty"`     // corrupt: invalid JSON instead of Rule
	Retry       bool      `json:"retry,omitempty"`       // the same update as the previous operation, which failed with a storage error
	// kind "overlap": update A is parked inside its first storage write (it holds RuleManager's lock), update B
	// is started meanwhile; B must wait, and the outcome must be that of A then B
	A *opJ `json:"a,omitempty"`
	B *opJ `json:"b,omitempty"`
	// kind "initfail": a fresh manager's Initialize hits a storage read error (InGroups: in loadGroups, after
	// loadRules and its repairs); kind "reinit": Initialize is called again on that same manager
	InGroups bool `json:"in_groups,omitempty"`
	// kind "restart" in a hand-over case: "rc" = this member is (re-)elected: the real RaftCluster of a real server is
	// stopped and started again on one object; "other" = another member leads meanwhile: its own RuleManager on the same storage
	Via string `json:"via,omitempty"`
	// kind "relabel" (hand-over cases, environment: no model step): store 11 comes back with zone = NewZone
	NewZone string `json:"new_zone,omitempty"`
	// filled in when the update is issued: versions of the added rules that match no store at that moment
	Unmatched []int `json:"-"`
}

// ---------- building PD objects (always fresh: the manager keeps and mutates what it is given) ----------
func (r ruleJ) pd() *placement.Rule {
	pr := &placement.Rule{GroupID: r.G, ID: r.I, Index: r.Index, Override: r.Override, StartKeyHex: r.Start, EndKeyHex: r.End,
		Role: placement.PeerRoleType(r.Role), Count: r.Count, LocationLabels: []string{fmt.Sprintf("v%d", r.Ver)}}
	if r.BadOp {
		pr.LabelConstraints = []placement.LabelConstraint{{Key: "zone", Op: "In", Values: []string{"z1"}}}
	}
	if r.Zone != "" {
		pr.LabelConstraints = append(pr.LabelConstraints, placement.LabelConstraint{Key: "zone", Op: placement.In, Values: []string{r.Zone}})
	}
	pr.IsolationLevel = r.Iso
	return pr
}
func (b bundleJ) pd() placement.GroupBundle {
	gb := placement.GroupBundle{ID: b.ID, Index: b.Index, Override: b.Override}
	for _, r := range b.Rules {
		gb.Rules = append(gb.Rules, r.pd())
	}
	return gb
}

// ---------- Coq printing ----------
func bs(s string) string { return coqfmt.Bytes([]byte(s)) }
func hexBytes(h string) (string, bool) {
	b, err := hex.DecodeString(h)
	if err != nil {
		return "[]%N", false
	}
	return coqfmt.Bytes(b), true
}

var roleCoq = map[string]string{"voter": "Voter", "leader": "Leader", "follower": "Follower", "learner": "Learner"}

func (r ruleJ) coq() string {
	s, ok1 := hexBytes(r.Start)
	e, ok2 := hexBytes(r.End)
	role, ok := roleCoq[r.Role]
	if !ok {
		role = "BadRole"
	}
	return fmt.Sprintf("(Rule %s %s %s %s %s %s %s %s %s %s None)", bs(r.G), bs(r.I), coqfmt.Z(int64(r.Index)), coqfmt.Bool(r.Override),
		s, e, role, coqfmt.Z(int64(r.Count)), coqfmt.Z(int64(r.Ver)), coqfmt.Bool(ok1 && ok2 && !r.BadOp && r.keysEncoded()))
}

// memDecodable: b starts with a memcomparable byte string (groups of 8 data bytes + marker; marker 0xff =
// more groups follow, 0xff-n = the last n data bytes are zero padding). Written from the format, not from
// pkg/codec.
func memDecodable(b []byte) bool {
	for {
		if len(b) < 9 {
			return false
		}
		pad := int(0xff - b[8])
		if pad > 8 {
			return false
		}
		if pad != 0 {
			for _, v := range b[8-pad : 8] {
				if v != 0 {
					return false
				}
			}
			return true
		}
		b = b[9:]
	}
}

// memEncode: the memcomparable encoding of raw (order preserving)
func memEncode(raw []byte) []byte {
	var out []byte
	for i := 0; i <= len(raw); i += 8 {
		n := len(raw) - i
		if n >= 8 {
			out = append(out, raw[i:i+8]...)
			out = append(out, 0xff)
			continue
		}
		out = append(out, raw[i:]...)
		out = append(out, make([]byte, 8-n)...)
		out = append(out, byte(0xff-(8-n)))
	}
	return out
}

// keysEncoded: in key type table / txn a non-empty key must be an encoded one
func (r ruleJ) keysEncoded() bool {
	if r.KT != "table" && r.KT != "txn" {
		return true
	}
	for _, h := range []string{r.Start, r.End} {
		b, err := hex.DecodeString(h)
		if err == nil && len(b) > 0 && !memDecodable(b) {
			return false
		}
	}
	return true
}

func rulesCoq(rs []ruleJ) string {
	xs := make([]string, len(rs))
	for i, r := range rs {
		xs[i] = r.coq()
	}
	return coqfmt.List(xs)
}
func (b bundleJ) coq() string {
	return fmt.Sprintf("(Bundle %s %s %s %s)", bs(b.ID), coqfmt.Z(int64(b.Index)), coqfmt.Bool(b.Override), rulesCoq(b.Rules))
}

func (o opJ) updateCoq() string {
	if len(o.Unmatched) > 0 {
		var xs []string
		for _, v := range o.Unmatched {
			xs = append(xs, coqfmt.Z(int64(v)))
		}
		in := o
		in.Unmatched = nil
		return "(UWithStores " + coqfmt.List(xs) + " " + in.updateCoq() + ")"
	}
	switch o.Kind {
	case "set":
		return "(USetRule " + o.Rule.coq() + ")"
	case "del":
		return "(UDeleteRule " + bs(o.G) + " " + bs(o.I) + ")"
	case "setrules":
		return "(USetRules " + rulesCoq(o.Rules) + ")"
	case "batch":
		var xs []string
		for _, b := range o.Batch {
			if b.Add != nil {
				xs = append(xs, "BAdd "+b.Add.coq())
			} else {
				xs = append(xs, "BDel "+bs(b.G)+" "+bs(b.I)+" "+coqfmt.Bool(b.Prefix))
			}
		}
		return "(UBatch " + coqfmt.List(xs) + ")"
	case "group":
		return fmt.Sprintf("(USetGroup (Group %s %s %s))", bs(o.Group.ID), coqfmt.Z(int64(o.Group.Index)), coqfmt.Bool(o.Group.Override))
	case "delgroup":
		return "(UDeleteGroup " + bs(o.G) + ")"
	case "bundle":
		return "(USetBundle " + o.Bundle.coq() + ")"
	case "allbundles":
		var xs []string
		for _, b := range o.Bundles {
			xs = append(xs, b.coq())
		}
		return "(USetAllBundles " + coqfmt.List(xs) + " " + coqfmt.Bool(o.OverrideAll) + ")"
	case "delbundle":
		return "(UDeleteBundle " + bs(o.G) + ")"
	}
	panic("not an update: " + o.Kind)
}

func (o opJ) isUpdate() bool {
	switch o.Kind {
	case "restart", "corrupt", "drop", "overlap", "initfail", "reinit", "relabel":
		return false
	}
	return true
}

func (o opJ) coq(writes []kvx13.Write) string {
	switch o.Kind {
	case "restart":
		return "ORestart " + coqfmt.Z(int64(o.MaxReplicas))
	case "corrupt":
		v := "SVGarbage"
		if !o.Garbage {
			v = "(SVRule " + o.Rule.coq() + ")"
		}
		return "OCorruptRule (" + bs(o.G) + ", " + bs(o.I) + ") " + v
	case "drop":
		return "OCorruptDrop (" + bs(o.G) + ", " + bs(o.I) + ")"
	case "initfail":
		return "OInitFail " + coqfmt.Bool(o.InGroups)
	case "reinit":
		return "OInitAgain " + coqfmt.Z(int64(o.MaxReplicas))
	}
	f := "None"
	if o.FaultN > 0 {
		m := "FailBefore"
		if o.FaultAfter {
			m = "FailAfter"
		}
		f = fmt.Sprintf("(Some (%s, %s))", coqfmt.Nat(o.FaultN), m)
	}
	var ws []string
	for _, w := range writes {
		ws = append(ws, wrefCoq(w.Key))
	}
	if o.Retry && o.FaultN == 0 {
		return "ORetry " + o.updateCoq() + " " + coqfmt.List(ws)
	}
	return "OUpdate " + o.updateCoq() + " " + f + " " + coqfmt.List(ws)
}

func wrefCoq(k string) string {
	switch {
	case strings.HasPrefix(k, "rules/"):
		parts := strings.SplitN(strings.TrimPrefix(k, "rules/"), "-", 2)
		if len(parts) == 2 {
			g, e1 := hex.DecodeString(parts[0])
			i, e2 := hex.DecodeString(parts[1])
			if e1 == nil && e2 == nil {
				return "WRule " + coqfmt.Bytes(g) + " " + coqfmt.Bytes(i)
			}
		}
	case strings.HasPrefix(k, "rule_group/"):
		return "WGroup " + bs(strings.TrimPrefix(k, "rule_group/"))
	}
	return "WGroup " + bs("?unexpected-key:"+k)
}

// ---------- probes (must equal probe_keys / probe_regions of model/C13_Rules.v) ----------
var probeKeys = [][]byte{{}, {5}, {16}, {24}, {32}, {32, 5}, {32, 16}, {40}, {48}, {56}, {64}, {72}, {80}, {96}}
var probeRegions = [][2][]byte{{{}, {16}}, {{16}, {32}}, {{32}, {32, 16}}, {{32, 16}, {48}}, {{48}, {64}}, {{64}, {80}}, {{80}, {}},
	{{}, {}}, {{16}, {48}}, {{24}, {28}}, {{32}, {48}}, {{56}, {}}, {{5}, {16}}, {{16}, {24}}}

func verOf(r *placement.Rule) int64 {
	if len(r.LocationLabels) == 1 && strings.HasPrefix(r.LocationLabels[0], "v") {
		var v int64
		fmt.Sscanf(r.LocationLabels[0], "v%d", &v)
		return v
	}
	return 0
}
func r3(rs []*placement.Rule) string {
	xs := make([]string, len(rs))
	for i, r := range rs {
		xs[i] = coqfmt.Z(verOf(r))
	}
	return coqfmt.List(xs)
}

type dumpInfo struct {
	coq     string
	nRules  int
	nRanges int
	gap     bool
}

func dump(m *placement.RuleManager) dumpInfo {
	all := m.GetAllRules()
	var gs []string
	for _, g := range m.GetRuleGroups() {
		gs = append(gs, "("+bs(g.ID)+", "+coqfmt.Z(int64(g.Index))+", "+coqfmt.Bool(g.Override)+")")
	}
	var byKey, apply, split []string
	gap := false
	for _, k := range probeKeys {
		rs := m.GetRulesByKey(k)
		if len(rs) == 0 {
			gap = true
		}
		byKey = append(byKey, r3(rs))
	}
	for _, se := range probeRegions {
		region := core.NewRegionInfo(&metapb.Region{Id: 1, StartKey: se[0], EndKey: se[1]}, nil)
		rs := m.GetRulesForApplyRegion(region)
		if rs == nil {
			apply = append(apply, "None")
		} else {
			apply = append(apply, "(Some "+r3(rs)+")")
		}
		var ks []string
		for _, k := range m.GetSplitKeys(se[0], se[1]) {
			ks = append(ks, coqfmt.Bytes(k))
		}
		split = append(split, coqfmt.List(ks))
	}
	nr := len(m.GetSplitKeys(nil, nil)) + 1
	return dumpInfo{"(Dump " + r3(all) + "\n      " + coqfmt.List(gs) + "\n      " + coqfmt.List(byKey) + "\n      " + coqfmt.List(apply) + "\n      " + coqfmt.List(split) + ")",
		len(all), nr, gap}
}

// ---------- the world ----------
type world struct {
	keyType  string // pd-server.key-type of the cases of the keytype class
	kv       *kvx13.Base
	st       *core.Storage
	live     *placement.RuleManager
	pending  *placement.RuleManager // a manager whose Initialize failed
	prevLive string                 // Coq text of the previous live dump ("" = none)
	srv      *srv14.Srv             // hand-over cases: the real server whose RaftCluster is stopped and started
	rcUp     bool
	zone11   string // hand-over cases: the zone label of store 11 (store 1 has no labels)
}

// addedRules lists the rules an update adds.
func (o opJ) addedRules() []ruleJ {
	var out []ruleJ
	switch o.Kind {
	case "set":
		out = append(out, *o.Rule)
	case "setrules":
		out = append(out, o.Rules...)
	case "batch":
		for _, b := range o.Batch {
			if b.Add != nil {
				out = append(out, *b.Add)
			}
		}
	case "bundle":
		out = append(out, o.Bundle.Rules...)
	case "allbundles":
		for _, b := range o.Bundles {
			out = append(out, b.Rules...)
		}
	}
	return out
}

func (w *world) putStore11(zone string) {
	st := &metapb.Store{Id: 11, Address: "s11", Version: "4.0.0", Labels: []*metapb.StoreLabel{{Key: "zone", Value: zone}}}
	if err := theServerRC.PutStore(st); err != nil {
		panic(err)
	}
	w.zone11 = zone
}

// ---------- the layer around the rule manager: a real server's RaftCluster over several leadership terms ----------
var theServer *srv14.Srv
var theServerKV *kvx13.Base
var theServerRC *cluster.RaftCluster // GetRaftCluster() is nil while the cluster is stopped: keep the object

func newWorldServer() *world {
	if theServer == nil {
		x, err := srv14.Start(func(c *config.Config) { c.LeaderLease = 60 })
		if err != nil {
			panic(err)
		}
		if err := x.Bootstrap(&metapb.Store{Id: 1, Address: "boot", Version: "4.0.0"}); err != nil {
			panic(err)
		}
		theServer = x
		theServerRC = x.S.GetRaftCluster()
		st := x.S.GetStorage()
		theServerKV = kvx13.NewOn(st.Base)
		st.Base = theServerKV
	}
	w := &world{kv: theServerKV, st: theServer.S.GetStorage(), srv: theServer, rcUp: true}
	w.putStore11("z2")
	// a fresh start for the case: this member steps down, every rule and group record is removed
	w.stopRC()
	ks, _ := w.kv.Dump()
	for _, k := range ks {
		if strings.HasPrefix(k, "rules/") || strings.HasPrefix(k, "rule_group/") {
			_ = w.kv.Inner.Remove(k)
		}
	}
	return w
}

func (w *world) stopRC() {
	if w.rcUp {
		theServerRC.Stop()
		w.rcUp = false
	}
}

// restartVia performs a "restart" of a hand-over case and returns the manager that serves afterwards.
func (w *world) restartVia(o opJ) (*placement.RuleManager, error) {
	w.stopRC()
	if o.Via == "rc" {
		rc := theServerRC
		if err := rc.Start(w.srv.S); err != nil {
			return nil, err
		}
		w.rcUp = true
		return rc.GetRuleManager(), nil
	}
	m := placement.NewRuleManager(w.st, theServerRC) // the other member's manager, on the same storage, with the same stores
	return m, m.Initialize(o.MaxReplicas, nil)
}

func newWorld() *world {
	k := kvx13.New()
	return &world{kv: k, st: core.NewStorage(k)}
}

// the same world over PD's etcd kv.Base (one embedded etcd per driver run, one root path per case)
var (
	etcdSrv  *etcdx.Etcd
	etcdRoot int
)

func newWorldEtcd() *world {
	if etcdSrv == nil {
		e, err := etcdx.Start()
		if err != nil {
			panic(err)
		}
		etcdSrv = e
	}
	cli, _, err := etcdSrv.NewClient()
	if err != nil {
		panic(err)
	}
	etcdRoot++
	k := kvx13.NewOn(kv.NewEtcdKVBase(cli, fmt.Sprintf("/c13/%d", etcdRoot)))
	return &world{kv: k, st: core.NewStorage(k)}
}

func errRes(err error) string {
	switch {
	case err == nil:
		return "ROk"
	case err == kvx13.ErrInjected:
		return "(RErr EStorage)"
	case errs.ErrRuleContent.Equal(err) || errs.ErrHexDecodingString.Equal(err):
		return "(RErr EContent)"
	case errs.ErrBuildRuleList.Equal(err):
		return "(RErr EBuild)"
	}
	return "(RErr EOther (* " + strings.ReplaceAll(err.Error(), "*)", "") + " *))"
}

func storeKey(g, i string) string {
	return "rules/" + hex.EncodeToString([]byte(g)) + "-" + hex.EncodeToString([]byte(i))
}

type stepOut struct {
	opCoq, obsCoq, res string
	live               *dumpInfo
	nWrites            int
}

func (w *world) exec(o opJ) stepOut {
	var err error
	var writes []kvx13.Write
	resS := ""
	switch o.Kind {
	case "restart":
		var m *placement.RuleManager
		if w.srv != nil {
			m, err = w.restartVia(o)
		} else {
			m = placement.NewRuleManager(w.st, nil)
			err = m.Initialize(o.MaxReplicas, nil)
		}
		w.kv.Take()
		if err != nil {
			w.live = nil
		} else {
			w.live = m
		}
	case "initfail":
		m := placement.NewRuleManager(w.st, nil)
		n := 1
		if o.InGroups {
			// loadRules scans one page per 100 rules (+1 when the count is a multiple of 100)
			ks, _ := w.kv.Dump()
			rules := 0
			for _, k := range ks {
				if strings.HasPrefix(k, "rules/") {
					rules++
				}
			}
			n = rules/100 + 2
		}
		w.kv.PlanLoadFail(n)
		err = m.Initialize(3, nil)
		w.kv.PlanLoadFail(0)
		w.kv.Take()
		w.live, w.pending = nil, m
		if err == nil {
			panic("initfail: Initialize succeeded")
		}
	case "reinit":
		m := w.pending
		if m == nil {
			m = placement.NewRuleManager(w.st, nil)
		}
		err = m.Initialize(o.MaxReplicas, nil)
		w.kv.Take()
		w.pending = nil
		if err != nil {
			w.live = nil
		} else {
			w.live = m
		}
	case "corrupt":
		v := "{not json"
		if !o.Garbage {
			b, _ := json.Marshal(o.Rule.pd())
			v = string(b)
		}
		_ = w.kv.Inner.Save(storeKey(o.G, o.I), v)
	case "drop":
		_ = w.kv.Inner.Remove(storeKey(o.G, o.I))
	default:
		if w.live == nil {
			resS = "(RErr ENotInit)"
			break
		}
		mode := kvx13.FailBefore
		if o.FaultAfter {
			mode = kvx13.FailAfter
		}
		if o.FaultN > 0 {
			w.kv.Plan(o.FaultN, mode)
		} else {
			w.kv.Plan(0, kvx13.None)
		}
		if w.srv != nil { // the real stores decide which rules a client may add
			for _, ru := range o.addedRules() {
				if ru.Zone != "" && ru.Zone != w.zone11 {
					o.Unmatched = append(o.Unmatched, ru.Ver)
				}
			}
		}
		if w.keyType != "" { // as every handler of the HTTP API does before it calls the manager
			w.live.SetKeyType(w.keyType)
		}
		err = callUpdate(w.live, o)
		writes = w.kv.Take()
	}
	if resS == "" {
		resS = errRes(err)
	}
	return w.finish(o.coq(writes), resS, len(writes), false)
}

// execOverlap: A is parked inside its first storage write (holding RuleManager's lock), B is started
// meanwhile and must wait; the two steps are reported as A then B (the state in between is not observable).
func (w *world) execOverlap(R *res.Result, o opJ) []stepOut {
	if w.live == nil {
		return []stepOut{w.exec(*o.A), w.exec(*o.B)}
	}
	// how many writes does A issue? (dry run on a copy of the storage)
	nA := 0
	{
		c := w.kv.Clone()
		m2 := placement.NewRuleManager(core.NewStorage(c), nil)
		if m2.Initialize(3, nil) == nil {
			c.Plan(0, kvx13.None)
			_ = callUpdate(m2, *o.A)
			nA = len(c.Take())
		}
	}
	if nA == 0 { // nothing to park at: plain sequence
		return []stepOut{w.exec(*o.A), w.exec(*o.B)}
	}
	w.kv.PlanPark(1)
	doneA, doneB := make(chan error, 1), make(chan error, 1)
	go func() { doneA <- callUpdate(w.live, *o.A) }()
	select {
	case <-w.kv.Parked():
	case errA := <-doneA: // A did not reach the storage after all
		writes := w.kv.Take()
		a := w.finish(o.A.coq(writes), errRes(errA), len(writes), false)
		return []stepOut{a, w.exec(*o.B)}
	case <-time.After(10 * time.Second):
		panic("overlap: A neither parked nor done")
	}
	go func() { doneB <- callUpdate(w.live, *o.B) }()
	var errB error
	early := false
	select {
	case errB = <-doneB:
		early = true
		// a content rejection (adjustRule) legitimately returns before the lock is taken and touches nothing
		if errRes(errB) != "(RErr EContent)" {
			R.Violate("C13:concurrent-update-not-serialised",
				"an update completed ("+errRes(errB)+") while another update was inside its storage write (RuleManager's lock does not cover the whole update)", o)
		} else {
			R.Count("overlap:b-rejected-before-lock")
		}
	case <-time.After(25 * time.Millisecond):
	}
	w.kv.Release()
	errA := <-doneA
	if !early {
		errB = <-doneB
	}
	writes := w.kv.Take()
	if nA > len(writes) {
		nA = len(writes)
	}
	a := w.finish(o.A.coq(writes[:nA]), errRes(errA), nA, true)
	w.prevLive = "\x00not observed"
	b := w.finish(o.B.coq(writes[nA:]), errRes(errB), len(writes)-nA, false)
	R.Count("overlap:parked")
	return []stepOut{a, b}
}

// callUpdate issues one update on the real RuleManager.
func callUpdate(m *placement.RuleManager, o opJ) error {
	var err error
	{
		switch o.Kind {
		case "set":
			err = m.SetRule(o.Rule.pd())
		case "del":
			err = m.DeleteRule(o.G, o.I)
		case "setrules":
			var rs []*placement.Rule
			for _, r := range o.Rules {
				rs = append(rs, r.pd())
			}
			err = m.SetRules(rs)
		case "batch":
			var todo []placement.RuleOp
			for _, b := range o.Batch {
				if b.Add != nil {
					todo = append(todo, placement.RuleOp{Rule: b.Add.pd(), Action: placement.RuleOpAdd})
				} else {
					todo = append(todo, placement.RuleOp{Rule: &placement.Rule{GroupID: b.G, ID: b.I}, Action: placement.RuleOpDel, DeleteByIDPrefix: b.Prefix})
				}
			}
			err = m.Batch(todo)
		case "group":
			err = m.SetRuleGroup(&placement.RuleGroup{ID: o.Group.ID, Index: o.Group.Index, Override: o.Group.Override})
		case "delgroup":
			err = m.DeleteRuleGroup(o.G)
		case "bundle":
			err = m.SetGroupBundle(o.Bundle.pd())
		case "allbundles":
			var bsl []placement.GroupBundle
			for _, b := range o.Bundles {
				bsl = append(bsl, b.pd())
			}
			err = m.SetAllGroupBundles(bsl, o.OverrideAll)
		case "delbundle":
			err = m.DeleteGroupBundle(o.G, false)
		default:
			panic("unknown op kind " + o.Kind)
		}
	}
	return err
}

// finish dumps the observers after a step (skip = the state is not observable: printed as DSkip).
func (w *world) finish(opCoq, resS string, nWrites int, skip bool) stepOut {
	var out stepOut
	out.res = resS
	out.nWrites = nWrites
	out.opCoq = opCoq
	if skip {
		out.obsCoq = "PObs " + resS + " DSkip DSkip"
		return out
	}
	live, liveTxt := "DNone", ""
	if w.live != nil {
		d := dump(w.live)
		out.live = &d
		liveTxt = d.coq
		live = "(DVal " + d.coq + ")"
		if liveTxt == w.prevLive {
			live = "DSame"
		}
	}
	w.prevLive = liveTxt
	reload := "DNone"
	c := w.kv.Clone()
	m2 := placement.NewRuleManager(core.NewStorage(c), nil)
	if m2.Initialize(3, nil) == nil {
		rt := dump(m2).coq
		reload = "(DVal " + rt + ")"
		if rt == liveTxt {
			reload = "DSame"
		}
	}
	out.obsCoq = "PObs " + resS + " " + live + " " + reload
	return out
}

// ---------- generation ----------

// group-id families of one history: mostly unrelated ids; sometimes ids that are
// proper substrings (prefix, suffix, infix) of one another, as in TiDB_DDL_5 /
// TiDB_DDL_51 or dc / all-dc-east, so that an id that selects "its" group by
// anything weaker than equality selects a neighbour as well. "pd" (the group of
// the default rule) is in every family.
var groupFamilies = [][]string{
	{"pd", "a", "b", "c"},
	{"pd", "dc", "all-dc-east", "dc-1"},
	{"pd", "TiDB_DDL_5", "TiDB_DDL_51", "DDL"},
	{"pd", "p", "d", "pd2"},
}
var idPool = []string{"default", "r1", "r10", "r2", "r3"}
var keyPool = []string{"", "10", "20", "2010", "30", "40", "50"}

type gen struct {
	r   *rng.R
	ver int
	// what the generator believes is configured (only used to bias choices; never for the verdict)
	known map[[2]string]ruleJ
	gp    []string // the group ids of this history (chosen on first use)
}

func (g *gen) pool() []string {
	if g.gp == nil {
		g.gp = groupFamilies[g.r.Pick(55, 15, 15, 15)]
	}
	return g.gp
}

func (g *gen) newVer() int { g.ver++; return g.ver }

// indexes are Go ints: mostly small, sometimes at the ends of the range (differences that do not fit an int)
func (g *gen) index(small int) int {
	if g.r.Pct(8) {
		return []int{math.MaxInt64, math.MinInt64, -10, -1, math.MaxInt64 - 1, math.MinInt64 + 1, -4611686018427387905}[g.r.Intn(7)]
	}
	return small
}

func (g *gen) rule(gid string) ruleJ {
	r := g.r
	ru := ruleJ{G: gid, I: idPool[r.Pick(10, 30, 15, 25, 20)], Index: g.index(r.Pick(55, 25, 20)), Override: r.Pct(15), Ver: g.newVer()}
	switch r.Pick(50, 25, 25) {
	case 0: // whole key space
	case 1:
		ru.Start = keyPool[1+r.Intn(len(keyPool)-1)]
	case 2:
		i := r.Intn(len(keyPool) - 1)
		j := i + 1 + r.Intn(len(keyPool)-1-i)
		ru.Start, ru.End = keyPool[i], keyPool[j]
	}
	switch r.Pick(55, 10, 15, 20) {
	case 0:
		ru.Role = "voter"
	case 1:
		ru.Role = "leader"
	case 2:
		ru.Role = "follower"
	case 3:
		ru.Role = "learner"
	}
	ru.Count = 1 + r.Pick(30, 30, 40)
	if ru.Role == "leader" {
		ru.Count = 1
	}
	return ru
}

func (g *gen) maybeBreak(ru *ruleJ) {
	r := g.r
	switch r.Pick(20, 15, 15, 15, 10, 10, 15, 12) {
	case 0:
		ru.Count = 0
	case 1:
		ru.Role = "witness"
	case 2:
		ru.I = ""
	case 3:
		ru.Start, ru.End = "30", "20"
	case 4:
		ru.Start = "zz"
	case 5:
		ru.BadOp = true
	case 6:
		ru.Role, ru.Count = "leader", 2
	case 7:
		ru.Start, ru.End = "30", "30" // empty range
	}
}

func (g *gen) someGroup() string { return g.pool()[g.r.Pick(40, 25, 20, 15)] }

// group ids for group configurations: sometimes one that path.Join would not keep (rejected since fix 37320b1)
func (g *gen) groupID() string {
	if g.r.Pct(7) {
		return []string{"", "..", ".", "a/../pd", "x//y", "./z", "a/", "/a", "a/./b", "a/b"}[g.r.Intn(10)]
	}
	return g.someGroup()
}

func (g *gen) knownKey() (string, string) {
	if len(g.known) > 0 && g.r.Pct(85) {
		n := g.r.Intn(len(g.known))
		// deterministic order over the map
		var keys [][2]string
		for _, gg := range g.pool() {
			for _, ii := range idPool {
				if _, ok := g.known[[2]string{gg, ii}]; ok {
					keys = append(keys, [2]string{gg, ii})
				}
			}
		}
		if len(keys) > 0 {
			k := keys[n%len(keys)]
			return k[0], k[1]
		}
	}
	return g.someGroup(), idPool[g.r.Intn(len(idPool))]
}

func (g *gen) bundle(id string) bundleJ {
	r := g.r
	b := bundleJ{ID: id, Index: g.index(r.Pick(50, 25, 15, 10)), Override: r.Pct(20)}
	n := r.Pick(15, 45, 30, 10)
	for i := 0; i < n; i++ {
		ru := g.rule(id)
		if r.Pct(30) {
			ru.G = "" // filled in by adjustRule
		} else if r.Pct(5) {
			ru.G = "zz" // does not match the bundle
		}
		b.Rules = append(b.Rules, ru)
	}
	return b
}

func (g *gen) next(malformed bool) opJ {
	r := g.r
	var o opJ
	switch r.Pick(30, 12, 6, 10, 13, 5, 8, 4, 4, 3, 5) {
	case 0:
		ru := g.rule(g.someGroup())
		if r.Pct(12) { // re-send a configured rule unchanged (trimmed: no write)
			gg, ii := g.knownKey()
			if k, ok := g.known[[2]string{gg, ii}]; ok && k.Ver != 0 { // ver 0 is the default rule Initialize creates (no labels)
				ru = k
			}
		}
		if r.Pct(8) {
			g.maybeBreak(&ru)
		}
		o = opJ{Kind: "set", Rule: &ru}
	case 1:
		gg, ii := g.knownKey()
		o = opJ{Kind: "del", G: gg, I: ii}
	case 2:
		n := 1 + r.Intn(3)
		o = opJ{Kind: "setrules"}
		for i := 0; i < n; i++ {
			ru := g.rule(g.someGroup())
			if r.Pct(6) {
				g.maybeBreak(&ru)
			}
			o.Rules = append(o.Rules, ru)
		}
	case 3:
		n := 1 + r.Intn(4)
		o = opJ{Kind: "batch"}
		for i := 0; i < n; i++ {
			if r.Pct(55) {
				ru := g.rule(g.someGroup())
				if r.Pct(5) {
					g.maybeBreak(&ru)
				}
				o.Batch = append(o.Batch, bopJ{Add: &ru})
			} else {
				gg, ii := g.knownKey()
				pre := r.Pct(30)
				if pre {
					ii = []string{"r", "r1", "d", ""}[r.Intn(4)]
				}
				o.Batch = append(o.Batch, bopJ{G: gg, I: ii, Prefix: pre})
			}
		}
	case 4:
		o = opJ{Kind: "group", Group: &groupJ{ID: g.groupID(), Index: g.index(r.Pick(30, 30, 20, 20)), Override: r.Pct(30)}}
	case 5:
		o = opJ{Kind: "delgroup", G: g.someGroup()}
	case 6:
		b := g.bundle(g.groupID())
		o = opJ{Kind: "bundle", Bundle: &b}
	case 7:
		n := 1 + r.Intn(2)
		o = opJ{Kind: "allbundles", OverrideAll: r.Pct(40)}
		for i := 0; i < n; i++ {
			o.Bundles = append(o.Bundles, g.bundle(g.pool()[(r.Intn(4)+i)%4]))
		}
	case 8:
		o = opJ{Kind: "delbundle", G: g.someGroup()}
		if r.Pct(6) {
			o.G = "" // the empty id names no group: nothing to delete
		}
	case 9:
		o = opJ{Kind: "restart", MaxReplicas: 3}
		if r.Pct(40) {
			o = opJ{Kind: "initfail", InGroups: r.Pct(75)}
		}
	case 10:
		if !malformed {
			return g.next(malformed)
		}
		gg, ii := g.knownKey()
		switch r.Pick(35, 40, 25) {
		case 0:
			o = opJ{Kind: "corrupt", G: gg, I: ii, Garbage: true}
		case 1:
			ru := g.rule(g.someGroup()) // most likely under a key that is not its own
			if r.Pct(25) {
				g.maybeBreak(&ru)
			}
			if r.Pct(50) {
				ru.Iso = []string{"zone", "host", "rack"}[r.Intn(3)]
			}
			if r.Pct(40) { // a record another member (another version) left under the rule's own key
				gg, ii = ru.G, ru.I
			}
			o = opJ{Kind: "corrupt", G: gg, I: ii, Rule: &ru}
		case 2:
			o = opJ{Kind: "drop", G: gg, I: ii}
		}
	}
	if o.isUpdate() && r.Pct(14) {
		o.FaultN = 1 + r.Pick(40, 22, 14, 10, 8, 6)
		o.FaultAfter = r.Pct(50)
	}
	return o
}

// learn keeps the generator's picture of what is configured (bias only)
func (g *gen) learn(o opJ, ok bool) {
	if !ok {
		return
	}
	set := func(r ruleJ, gid string) {
		if r.G == "" {
			r.G = gid
		}
		g.known[[2]string{r.G, r.I}] = r
	}
	switch o.Kind {
	case "set":
		set(*o.Rule, "")
	case "del":
		delete(g.known, [2]string{o.G, o.I})
	case "setrules":
		for _, r := range o.Rules {
			set(r, "")
		}
	case "batch":
		for _, b := range o.Batch {
			if b.Add != nil {
				set(*b.Add, "")
			} else if !b.Prefix {
				delete(g.known, [2]string{b.G, b.I})
			}
		}
	case "bundle":
		for k := range g.known {
			if k[0] == o.Bundle.ID {
				delete(g.known, k)
			}
		}
		for _, r := range o.Bundle.Rules {
			set(r, o.Bundle.ID)
		}
	case "allbundles":
		for k := range g.known {
			if o.OverrideAll {
				delete(g.known, k)
			}
		}
		for _, b := range o.Bundles {
			for k := range g.known {
				if k[0] == b.ID {
					delete(g.known, k)
				}
			}
			for _, r := range b.Rules {
				set(r, b.ID)
			}
		}
	case "delbundle":
		for k := range g.known {
			if k[0] == o.G {
				delete(g.known, k)
			}
		}
	}
}

// ---------- systematic fault sweep: a storage failure at EACH write of a multi-write update ----------
func countWrites(base []opJ, u opJ) (int, string) {
	w := newWorld()
	for _, o := range base {
		w.exec(o)
	}
	out := w.exec(u)
	return out.nWrites, out.res
}

func genSweep(r *rng.R) []caseJ {
	g := &gen{r: r, known: map[[2]string]ruleJ{{"pd", "default"}: {G: "pd", I: "default", Role: "voter", Count: 3}}}
	base := []opJ{{Kind: "restart", MaxReplicas: 3}}
	wb := newWorld()
	wb.exec(base[0])
	for k := 0; k < 2+r.Intn(5); k++ {
		o := g.next(false)
		o.FaultN = 0
		if o.Kind == "restart" {
			continue
		}
		base = append(base, o)
		g.learn(o, wb.exec(o).res == "ROk")
	}
	var u opJ
	n := 0
	for try := 0; try < 30 && n < 2; try++ {
		switch r.Pick(30, 25, 25, 20) {
		case 0:
			b := g.bundle(g.someGroup())
			u = opJ{Kind: "bundle", Bundle: &b}
		case 1:
			u = opJ{Kind: "batch"}
			for i := 0; i < 2+r.Intn(3); i++ {
				if r.Pct(65) {
					ru := g.rule(g.someGroup())
					u.Batch = append(u.Batch, bopJ{Add: &ru})
				} else {
					gg, ii := g.knownKey()
					u.Batch = append(u.Batch, bopJ{G: gg, I: ii})
				}
			}
		case 2:
			u = opJ{Kind: "setrules"}
			for i := 0; i < 2+r.Intn(3); i++ {
				u.Rules = append(u.Rules, g.rule(g.someGroup()))
			}
		case 3:
			u = opJ{Kind: "allbundles", OverrideAll: r.Pct(40)}
			for i := 0; i < 1+r.Intn(2); i++ {
				u.Bundles = append(u.Bundles, g.bundle(g.pool()[(r.Intn(4)+i)%4]))
			}
		}
		var res string
		n, res = countWrites(base, u)
		if res != "ROk" {
			n = 0
		}
	}
	var out []caseJ
	for i := 1; i <= n; i++ {
		for _, after := range []bool{false, true} {
			f := u
			f.FaultN, f.FaultAfter = i, after
			re := u
			re.Retry = true
			ops := append(append([]opJ(nil), base...), f, re)
			out = append(out, caseJ{Stream: "faultsweep", Ops: ops})
		}
	}
	return out
}

// ---------- large index: thousands of rules with nested / adjacent ranges against a brute-force oracle (Go side) ----------
// The Coq theorems about the index are general; this class runs the real buildRuleList / lookups at a size the
// Coq replay does not reach and compares them with an independent computation from the rule set.
type bigRule struct {
	g, id      string
	gi, index  int
	override   bool
	start, end []byte
}

func lessRule(a, b bigRule) bool {
	switch {
	case a.gi != b.gi:
		return a.gi < b.gi
	case a.g != b.g:
		return a.g < b.g
	case a.index != b.index:
		return a.index < b.index
	}
	return a.id < b.id
}

func largeIndex(R *res.Result, r *rng.R, n int, seedTag string) {
	m := placement.NewRuleManager(core.NewStorage(kv.NewMemoryKV()), nil)
	if err := m.Initialize(3, nil); err != nil {
		panic(err)
	}
	groups := []string{"a", "b", "c", "d", "e", "f"}
	gidx := map[string]int{"pd": 0}
	for i, g := range groups {
		gidx[g] = (i * 7) % 4
		if err := m.SetRuleGroup(&placement.RuleGroup{ID: g, Index: gidx[g]}); err != nil {
			panic(err)
		}
	}
	key := func(x int) []byte { return []byte{byte(x >> 8), byte(x)} }
	grid := 60 + r.Intn(400)
	all := []bigRule{{g: "pd", id: "default"}}
	var prs []*placement.Rule
	for i := 0; i < n; i++ {
		b := bigRule{g: groups[r.Intn(len(groups))], id: fmt.Sprintf("r%d", i), index: r.Intn(4), override: r.Pct(3)}
		b.gi = gidx[b.g]
		x := r.Intn(grid)
		switch r.Pick(35, 30, 20, 15) {
		case 0: // short
			b.start, b.end = key(x*16), key((x+1+r.Intn(3))*16)
		case 1: // nested in something wide
			y := x + 1 + r.Intn(grid)
			b.start, b.end = key(x*16), key(y*16)
		case 2: // unbounded
			b.start = key(x * 16)
		case 3: // adjacent chains share boundaries; sometimes a longer key right after a boundary
			b.start, b.end = append(key(x*16), 0), key((x+1)*16)
		}
		all = append(all, b)
		prs = append(prs, &placement.Rule{GroupID: b.g, ID: b.id, Index: b.index, Override: b.override,
			StartKeyHex: hex.EncodeToString(b.start), EndKeyHex: hex.EncodeToString(b.end),
			Role: []placement.PeerRoleType{placement.Voter, placement.Follower, placement.Learner}[r.Intn(3)], Count: 1})
	}
	if err := m.SetRules(prs); err != nil {
		R.Violate("C13:large-index:valid-rule-set-rejected", fmt.Sprintf("SetRules of %d valid rules (%s): %v", n, seedTag, err), seedTag)
		return
	}
	R.Count(fmt.Sprintf("large-index:rules>=%d", n/1000*1000))
	covers := func(b bigRule, k []byte) bool {
		return bytesCmp(b.start, k) <= 0 && (len(b.end) == 0 || bytesCmp(k, b.end) < 0)
	}
	var bounds [][]byte
	for _, b := range all {
		bounds = append(bounds, b.start)
		if len(b.end) > 0 {
			bounds = append(bounds, b.end)
		}
	}
	expectByKey := func(k []byte) []bigRule {
		var out []bigRule
		for _, b := range all {
			if covers(b, k) {
				out = append(out, b)
			}
		}
		sortBig(out)
		return out
	}
	// the override specification: drop everything before the last overriding group (none here), and inside a group
	// everything before its last overriding rule
	expectApply := func(rs []bigRule) []bigRule {
		var out []bigRule
		for i := 0; i < len(rs); {
			j := i
			for j < len(rs) && rs[j].g == rs[i].g {
				j++
			}
			from := i
			for q := i; q < j; q++ {
				if rs[q].override {
					from = q
				}
			}
			out = append(out, rs[from:j]...)
			i = j
		}
		return out
	}
	same := func(got []*placement.Rule, exp []bigRule) bool {
		if len(got) != len(exp) {
			return false
		}
		for i := range got {
			if got[i].GroupID != exp[i].g || got[i].ID != exp[i].id {
				return false
			}
		}
		return true
	}
	randKey := func() []byte {
		b := bounds[r.Intn(len(bounds))]
		switch r.Pick(40, 20, 20, 20) {
		case 0:
			return b
		case 1:
			return append(append([]byte{}, b...), 0)
		case 2:
			if len(b) > 0 && b[len(b)-1] > 0 {
				c := append([]byte{}, b...)
				c[len(c)-1]--
				return append(c, 0xff)
			}
			return b
		}
		return key(r.Intn(grid * 16))
	}
	for i := 0; i < 300; i++ {
		k := randKey()
		if !same(m.GetRulesByKey(k), expectByKey(k)) {
			R.Violate("C13:large-index:GetRulesByKey", fmt.Sprintf("%d rules (%s): GetRulesByKey(%x) differs from the rules containing the key in compareRule order", n, seedTag, k), seedTag)
			return
		}
	}
	for i := 0; i < 300; i++ {
		s0, e0 := randKey(), randKey()
		if r.Pct(15) {
			e0 = nil
		}
		inside := false
		for _, b := range bounds {
			if bytesCmp(b, s0) > 0 && (len(e0) == 0 || bytesCmp(b, e0) < 0) {
				inside = true
			}
		}
		got := m.GetRulesForApplyRegion(core.NewRegionInfo(&metapb.Region{Id: 1, StartKey: s0, EndKey: e0}, nil))
		var exp []bigRule
		if !inside {
			exp = expectApply(expectByKey(s0))
		}
		if (got == nil) != (exp == nil) || !same(got, exp) {
			R.Violate("C13:large-index:GetRulesForApplyRegion", fmt.Sprintf("%d rules (%s): GetRulesForApplyRegion(%x,%x) is not the override-filtered rule set of its segment / nil", n, seedTag, s0, e0), seedTag)
			return
		}
		var expSplit [][]byte
		seen := map[string]bool{}
		for _, b := range bounds {
			if bytesCmp(b, s0) > 0 && (len(e0) == 0 || bytesCmp(b, e0) < 0) && !seen[string(b)] {
				seen[string(b)] = true
				expSplit = append(expSplit, b)
			}
		}
		sortKeys(expSplit)
		gs := m.GetSplitKeys(s0, e0)
		ok := len(gs) == len(expSplit)
		for j := 0; ok && j < len(gs); j++ {
			ok = bytesCmp(gs[j], expSplit[j]) == 0
		}
		if !ok {
			R.Violate("C13:large-index:GetSplitKeys", fmt.Sprintf("%d rules (%s): GetSplitKeys(%x,%x) is not the set of boundaries strictly inside", n, seedTag, s0, e0), seedTag)
			return
		}
	}
}

func bytesCmp(a, b []byte) int { return strings.Compare(string(a), string(b)) }
func sortBig(l []bigRule) {
	for i := 1; i < len(l); i++ {
		for j := i; j > 0 && lessRule(l[j], l[j-1]); j-- {
			l[j], l[j-1] = l[j-1], l[j]
		}
	}
}
func sortKeys(l [][]byte) {
	for i := 1; i < len(l); i++ {
		for j := i; j > 0 && bytesCmp(l[j], l[j-1]) < 0; j-- {
			l[j], l[j-1] = l[j-1], l[j]
		}
	}
}

// ---------- leadership hand-over: this member leads, another member leads and accepts updates, this member leads again ----------
func genHandover(r *rng.R) caseJ {
	g := &gen{r: r, known: map[[2]string]ruleJ{{"pd", "default"}: {G: "pd", I: "default", Role: "voter", Count: 3}}}
	wb := newWorld()
	var ops []opJ
	upd := func(n int) {
		for k := 0; k < n; k++ {
			o := g.next(false)
			for !o.isUpdate() {
				o = g.next(false)
			}
			o.FaultN = 0
			ops = append(ops, o)
			g.learn(o, wb.exec(o).res == "ROk")
		}
	}
	term := func(via string) {
		o := opJ{Kind: "restart", MaxReplicas: 3, Via: via}
		ops = append(ops, o)
		wb.exec(opJ{Kind: "restart", MaxReplicas: 3})
	}
	zone := "z2"
	zoneRule := func() { // a rule only store 11 can match (or, 25%, nobody: refused)
		ru := g.rule(g.someGroup())
		ru.Start, ru.End, ru.Role, ru.Count, ru.Override = "", "", "learner", 1, false
		ru.Zone = zone
		if r.Pct(25) {
			ru.Zone = "z9"
		}
		o := opJ{Kind: "set", Rule: &ru}
		ops = append(ops, o)
		if ru.Zone == zone {
			g.learn(o, wb.exec(o).res == "ROk")
		}
	}
	relabel := func() {
		zone = []string{"z2", "z3", "z4"}[r.Intn(3)]
		ops = append(ops, opJ{Kind: "relabel", NewZone: zone})
	}
	term("rc")
	upd(1 + r.Intn(2))
	zoneRule()
	for k := 0; k < 1+r.Intn(2); k++ {
		if r.Pct(70) {
			relabel()
		}
		term("other")
		upd(1 + r.Intn(2))
		if r.Pct(40) {
			zoneRule()
		}
		term("rc")
		upd(r.Intn(2))
		if r.Pct(50) {
			zoneRule()
		}
		if r.Pct(50) {
			relabel()
			term("rc")
		}
	}
	return caseJ{Stream: "handover", Server: true, Ops: ops}
}

// ---------- overlapping updates ----------
func genOverlap(r *rng.R) caseJ {
	g := &gen{r: r, known: map[[2]string]ruleJ{{"pd", "default"}: {G: "pd", I: "default", Role: "voter", Count: 3}}}
	ops := []opJ{{Kind: "restart", MaxReplicas: 3}}
	wb := newWorld()
	wb.exec(ops[0])
	upd := func() opJ {
		for {
			o := g.next(false)
			o.FaultN = 0
			if o.isUpdate() {
				return o
			}
		}
	}
	for k := 0; k < 1+r.Intn(4); k++ {
		o := upd()
		ops = append(ops, o)
		g.learn(o, wb.exec(o).res == "ROk")
	}
	for k := 0; k < 1+r.Intn(3); k++ {
		a, b := upd(), upd()
		ops = append(ops, opJ{Kind: "overlap", A: &a, B: &b})
	}
	return caseJ{Stream: "overlap", Ops: ops}
}

// ---------- big configurations: the restart path pages through the storage (LoadRangeByPrefix) ----------
// ids form strict-prefix chains (every key is a strict prefix of its successor), some with a 0x00 byte
func chainID(head string, j int, nul bool) string {
	id := head
	for k := 0; k < j; k++ {
		if nul && k%7 == 3 {
			id += "\x00"
		} else {
			id += "1"
		}
	}
	return id
}

func genBig(r *rng.R, etcd bool) caseJ {
	c := caseJ{Stream: "bigload", Etcd: etcd}
	if etcd {
		c.Stream = "bigload-etcd"
	}
	ver := 1000
	// several groups (their ids are strict prefixes of each other), in each a chain of rule ids
	bulk := func(gids []string, head string, nul bool) opJ {
		o := opJ{Kind: "setrules"}
		for _, gid := range gids {
			n := 33 + r.Intn(5)
			for j := 0; j < n; j++ {
				ver++
				o.Rules = append(o.Rules, ruleJ{G: gid, I: chainID(head, j, nul), Index: j % 3, Start: "70", End: "71",
					Role: []string{"voter", "learner", "follower"}[j%3], Count: 1, Ver: ver})
			}
		}
		return o
	}
	c.Ops = append(c.Ops, opJ{Kind: "restart", MaxReplicas: 3})
	c.Ops = append(c.Ops, bulk([]string{"g", "g1", "g10"}, "r", false)) // > 100 rules with pd/default
	c.Ops = append(c.Ops, opJ{Kind: "restart", MaxReplicas: 3})
	if !etcd { // the etcd variant stops at > 100 rules (same Storage code, cheaper Coq replay)
		c.Ops = append(c.Ops, bulk([]string{"g100", "g11", "g2"}, "q", true)) // > 200 rules
		c.Ops = append(c.Ops, opJ{Kind: "restart", MaxReplicas: 3})
	}
	// > 100 non-default groups: five chains of ids, some with a 0x00 byte (the key right after its parent)
	gb := opJ{Kind: "allbundles"}
	for f := 0; f < 5; f++ {
		n := 21 + r.Intn(4)
		for j := 0; j < n; j++ {
			gb.Bundles = append(gb.Bundles, bundleJ{ID: chainID("h"+string(rune('a'+f)), j, f%2 == 0), Index: 1 + j%4})
		}
	}
	c.Ops = append(c.Ops, gb)
	c.Ops = append(c.Ops, opJ{Kind: "restart", MaxReplicas: 3})
	return c
}

type caseJ struct {
	Stream  string `json:"stream"`
	Etcd    bool   `json:"etcd,omitempty"`     // run on PD's etcd kv.Base (embedded etcd) instead of the memory kv
	Server  bool   `json:"server,omitempty"`   // run on a real pd server: restarts are RaftCluster.Stop/Start or another member's manager
	KeyType string `json:"key_type,omitempty"` // pd-server.key-type (table / txn): clients' keys are validated as memcomparable encodings
	Ops     []opJ  `json:"ops"`
}

// ---------- key type table / txn: rule keys are memcomparable encodings of 3..17 raw bytes ----------
// the raw keys behind the pool "", 10, 20, 2010, 30, 40, 50 (same order); 8 raw bytes and more take two
// or three encoding groups, the last one is a TiDB table prefix (t + table id 5)
var rawKeyPool = map[string][]byte{
	"10":   {0x10, 0x01, 0x02},
	"20":   {0x20, 0, 0xff, 3, 4, 5, 6, 7},
	"2010": {0x20, 0x10, 0xff, 0xff, 0, 0, 9, 9, 1},
	"30":   {0x30, 1, 2, 3, 4, 5, 6, 7, 8, 9, 0xff, 0},
	"40":   {0x40, 0xff, 0xff, 0xff, 0xff, 0xff, 0xff, 0xff, 0xff, 1, 2, 3, 4, 5, 6, 7},
	"50":   {0x74, 0x80, 0, 0, 0, 0, 0, 0, 5},
}

func genKeyType(r *rng.R) caseJ {
	c := caseJ{Stream: "keytype", KeyType: []string{"table", "txn"}[r.Intn(2)]}
	g := &gen{r: r, known: map[[2]string]ruleJ{{"pd", "default"}: {G: "pd", I: "default", Role: "voter", Count: 3}}}
	enc := func(ru *ruleJ) {
		if ru.KT != "" { // a configured rule sent again: same object, same keys
			return
		}
		ru.KT = c.KeyType
		if r.Pct(8) { // a raw key sent to an encoded-mode cluster: refused
			return
		}
		if raw, ok := rawKeyPool[ru.Start]; ok {
			ru.Start = hex.EncodeToString(memEncode(raw))
		}
		if raw, ok := rawKeyPool[ru.End]; ok {
			ru.End = hex.EncodeToString(memEncode(raw))
		}
	}
	c.Ops = append(c.Ops, opJ{Kind: "restart", MaxReplicas: 3})
	n := 6 + r.Intn(10)
	for k := 0; k < n; k++ {
		o := g.next(false)
		o.FaultN = 0
		if o.Kind == "initfail" {
			o = opJ{Kind: "restart", MaxReplicas: 3}
		}
		if o.Rule != nil {
			ru := *o.Rule
			enc(&ru)
			o.Rule = &ru
		}
		for i := range o.Rules {
			enc(&o.Rules[i])
		}
		for i := range o.Batch {
			if o.Batch[i].Add != nil {
				ru := *o.Batch[i].Add
				enc(&ru)
				o.Batch[i].Add = &ru
			}
		}
		if o.Bundle != nil {
			b := *o.Bundle
			b.Rules = append([]ruleJ(nil), b.Rules...)
			for i := range b.Rules {
				enc(&b.Rules[i])
			}
			o.Bundle = &b
		}
		for i := range o.Bundles {
			o.Bundles[i].Rules = append([]ruleJ(nil), o.Bundles[i].Rules...)
			for j := range o.Bundles[i].Rules {
				enc(&o.Bundles[i].Rules[j])
			}
		}
		c.Ops = append(c.Ops, o)
		g.learn(o, true)
	}
	c.Ops = append(c.Ops, opJ{Kind: "restart", MaxReplicas: 3})
	return c
}

// ---------- records of another member: valid rules written straight into the storage, then a restart ----------
// (a member of a previous version accepted and persisted them; its shapes include an isolation level that is
// not among the location labels). The restarted manager must serve them.
func genOldRecord(r *rng.R) caseJ {
	c := caseJ{Stream: "oldrecord"}
	g := &gen{r: r, known: map[[2]string]ruleJ{{"pd", "default"}: {G: "pd", I: "default", Role: "voter", Count: 3}}}
	c.Ops = append(c.Ops, opJ{Kind: "restart", MaxReplicas: 3})
	upd := func(n int) {
		for k := 0; k < n; k++ {
			o := g.next(false)
			for !o.isUpdate() {
				o = g.next(false)
			}
			o.FaultN = 0
			c.Ops = append(c.Ops, o)
			g.learn(o, true)
		}
	}
	upd(2 + r.Intn(4))
	for round := 0; round < 1+r.Intn(2); round++ {
		for k := 0; k < 1+r.Intn(3); k++ {
			ru := g.rule(g.someGroup())
			if r.Pct(75) {
				ru.Iso = []string{"zone", "host", "rack"}[r.Intn(3)]
			}
			c.Ops = append(c.Ops, opJ{Kind: "corrupt", G: ru.G, I: ru.I, Rule: &ru})
		}
		c.Ops = append(c.Ops, opJ{Kind: "restart", MaxReplicas: 3})
		upd(1 + r.Intn(2))
	}
	c.Ops = append(c.Ops, opJ{Kind: "restart", MaxReplicas: 3})
	return c
}

// ---------- the HTTP layer above the rule manager (real api.NewHandler router on the real server) ----------
// A group gets a bundle / a rule through the API; then a second request for the same group or rule changes what
// sits at the same position - refused (then everything served must be as before) or accepted (then a manager
// started on the storage must serve what the leader serves). Judged on the Go side (GetAllRules as JSON of the
// leader's manager before / after, and of a second manager on the same storage).
type apiStep struct {
	Method string      `json:"method"`
	Path   string      `json:"path"`
	Body   interface{} `json:"body"`
	Want   string      `json:"want"` // "ok" | "refused"
}

func apiClass(R *res.Result, r *rng.R, tag string) { runAPI(R, genAPI(r), tag) }

func runAPI(R *res.Result, plan []apiStep, tag string) {
	w := newWorldServer()
	defer w.stopRC()
	m, err := w.restartVia(opJ{Kind: "restart", Via: "rc", MaxReplicas: 3})
	if err != nil {
		panic(err)
	}
	h, _, err := api.NewHandler(context.Background(), theServer.S)
	if err != nil {
		panic(err)
	}
	var steps []apiStep
	send := func(st apiStep) int {
		b, _ := json.Marshal(st.Body)
		req := httptest.NewRequest(st.Method, "/pd/api/v1"+st.Path, bytes.NewReader(b))
		rec := httptest.NewRecorder()
		h.ServeHTTP(rec, req)
		steps = append(steps, st)
		return rec.Code
	}
	served := func(x *placement.RuleManager) string {
		b, _ := json.Marshal(struct {
			Rules  []*placement.Rule
			Groups []*placement.RuleGroup
		}{x.GetAllRules(), x.GetRuleGroups()})
		return string(b)
	}
	check := func(st apiStep, before string) {
		code := send(st)
		after := served(m)
		switch {
		case st.Want == "refused" && code == http.StatusOK:
			R.Count("api:invalid-request-accepted") // not judged here
		case st.Want == "refused":
			if after != before {
				R.Violate("C13:api:refused-request-changed-what-is-served", fmt.Sprintf("%s: %s %s answered %d, served before %s, after %s", tag, st.Method, st.Path, code, before, after), map[string]interface{}{"stream": "api", "steps": steps})
			}
			R.Count("api:refused")
		case code != http.StatusOK:
			R.Count(fmt.Sprintf("api:valid-request-refused-%d", code))
		default:
			m2 := placement.NewRuleManager(w.st, theServerRC)
			if err := m2.Initialize(3, nil); err != nil {
				R.Violate("C13:api:second-manager-cannot-start-after-accepted-request", fmt.Sprintf("%s: %v", tag, err), map[string]interface{}{"stream": "api", "steps": steps})
			} else if re := served(m2); re != after {
				R.Violate("C13:api:restart-loads-different-rules-after-accepted-request", fmt.Sprintf("%s: %s %s answered 200, served %s, a manager started on the storage serves %s", tag, st.Method, st.Path, after, re), map[string]interface{}{"stream": "api", "steps": steps})
			}
			R.Count("api:accepted")
		}
	}
	for _, st := range plan {
		check(st, served(m))
	}
	R.Count("stream:api")
}

func genAPI(r *rng.R) []apiStep {
	var plan []apiStep
	check := func(st apiStep, _ string) { plan = append(plan, st) }
	served := func(interface{}) string { return "" }
	var m interface{}
	type jr = map[string]interface{}
	keys := []string{"", hex.EncodeToString(memEncode(rawKeyPool["20"])), hex.EncodeToString(memEncode(rawKeyPool["30"])), hex.EncodeToString(memEncode(rawKeyPool["50"]))}
	ver := 0
	mkRule := func(g, id string, count int, role string, si, ei int, cons []jr) jr {
		ver++
		x := jr{"group_id": g, "id": id, "role": role, "count": count, "start_key": keys[si], "end_key": "", "location_labels": []string{fmt.Sprintf("v%d", ver)}}
		if ei > si {
			x["end_key"] = keys[ei]
		}
		if cons != nil {
			x["label_constraints"] = cons
		}
		return x
	}
	zoneIn := func(op, v string) []jr { return []jr{{"key": "zone", "op": op, "values": []string{v}}} }
	for round := 0; round < 3; round++ {
		g := []string{"a", "b", "tiflash"}[round]
		if r.Pct(50) { // a bundle, then bundles for the same group
			n := 1 + r.Intn(3)
			mk := func(breakAt int, bump int) jr {
				var rules []jr
				for i := 0; i < n; i++ {
					cnt := 1 + (i+bump)%3
					role := []string{"voter", "follower", "learner"}[(i+bump)%3]
					if i == 0 {
						role = "voter"
					}
					if i == breakAt {
						cnt = 0
					}
					rules = append(rules, mkRule(g, fmt.Sprintf("r%d", i), cnt, role, i%3, 0, nil))
				}
				return jr{"group_id": g, "group_index": 1 + round + bump, "group_override": bump%2 == 1, "rules": rules}
			}
			check(apiStep{"POST", "/config/placement-rule/" + g, mk(-1, 0), "ok"}, served(m))
			check(apiStep{"POST", "/config/placement-rule/" + g, mk(r.Intn(n), 1), "refused"}, served(m))
			check(apiStep{"POST", "/config/placement-rule/" + g, mk(-1, 2), "ok"}, served(m))
			if r.Pct(50) {
				body := mk(-1, 3)
				delete(body, "group_index") // a partial body
				check(apiStep{"POST", "/config/placement-rule/" + g, body, "ok"}, served(m))
			}
		} else { // a rule, then updates of that rule
			check(apiStep{"POST", "/config/rule", mkRule(g, "r1", 2, "voter", 1, 3, zoneIn("in", "z2")), "ok"}, served(m))
			check(apiStep{"POST", "/config/rule", mkRule(g, "r1", 0, "voter", 1, 3, zoneIn("in", "z3")), "refused"}, served(m))
			check(apiStep{"POST", "/config/rule", mkRule(g, "r1", 2, "voter", 1, 3, zoneIn("in", "z9")), "refused"}, served(m)) // matches no store
			check(apiStep{"POST", "/config/rule", mkRule(g, "r1", 2, "voter", 1, 3, zoneIn("notIn", "z5")), "ok"}, served(m))
			if r.Pct(50) {
				check(apiStep{"POST", "/config/rule", jr{"group_id": g, "id": "r1", "role": "voter", "count": 1 + r.Intn(3), "start_key": keys[1], "end_key": keys[3]}, "ok"}, served(m))
			}
		}
	}
	return plan
}

// ---------- a storage failure while Initialize repairs the storage ----------
// Records under foreign keys (another version's key format), garbage and duplicates are in the storage; the
// k-th write of loadRules' repairs fails. Whatever Initialize answers: once an Initialize has SUCCEEDED (this
// one, or the retry the member makes after a failure), the storage holds exactly the served rules, each under
// its own key (C13_restart_repairs_storage) - a record that survives a start it was not served from comes
// back after the rule is deleted. Judged on the Go side (keys below rules/ against the served rules).
func initFault(R *res.Result, r *rng.R, tag string) {
	w := newWorld()
	g := &gen{r: r, known: map[[2]string]ruleJ{{"pd", "default"}: {G: "pd", I: "default", Role: "voter", Count: 3}}}
	var hist []string
	m := placement.NewRuleManager(w.st, nil)
	if err := m.Initialize(3, nil); err != nil {
		panic(err)
	}
	for k := 0; k < 2+r.Intn(3); k++ {
		ru := g.rule(g.someGroup())
		_ = m.SetRule(ru.pd())
		hist = append(hist, fmt.Sprintf("SetRule %s/%s", ru.G, ru.I))
	}
	for k := 0; k < 1+r.Intn(3); k++ { // another member's leftovers
		ru := g.rule(g.someGroup())
		key := storeKey(ru.G, ru.I)
		switch r.Pick(60, 20, 20) {
		case 0:
			key = storeKey("old", fmt.Sprintf("%s-%s-%d", ru.G, ru.I, k)) // a foreign key: the rule is served and moved
		case 1:
			key = storeKey(ru.G, ru.I) // its own key
		}
		b, _ := json.Marshal(ru.pd())
		v := string(b)
		if r.Pct(15) {
			v = "{not json"
		}
		_ = w.kv.Inner.Save(key, v)
		hist = append(hist, fmt.Sprintf("foreign write %s = %s", key, v))
	}
	consistent := func(x *placement.RuleManager) string {
		want := map[string]bool{}
		for _, ru := range x.GetAllRules() {
			want[storeKey(ru.GroupID, ru.ID)] = true
		}
		ks, _ := w.kv.Dump()
		for _, k := range ks {
			if !strings.HasPrefix(k, "rules/") {
				continue
			}
			if !want[k] {
				return "the storage holds " + k + ", no served rule has that key"
			}
			delete(want, k)
		}
		for k := range want {
			return "the served rule " + k + " is not in the storage"
		}
		return ""
	}
	at := 1 + r.Pick(50, 30, 20)
	w.kv.Plan(at, kvx13.FailBefore)
	m1 := placement.NewRuleManager(w.st, nil)
	err := m1.Initialize(3, nil)
	n := len(w.kv.Take())
	hist = append(hist, fmt.Sprintf("Initialize with write %d failing (%d writes issued): %v", at, n, err))
	if err != nil { // the member retries
		m1 = placement.NewRuleManager(w.st, nil)
		if err2 := m1.Initialize(3, nil); err2 != nil {
			R.Count("initfault:retry-fails")
			return
		}
		hist = append(hist, "Initialize again: ok")
	}
	if why := consistent(m1); why != "" {
		R.Violate("C13:initialize-succeeds-and-leaves-storage-different", tag+": "+why+"; history: "+strings.Join(hist, "; "), map[string]interface{}{"stream": "initfault", "history": hist})
	}
	if n >= at {
		R.Count("initfault:fault-hit")
	}
	R.Count("stream:initfault")
}

func genCase(r *rng.R) caseJ {
	malformed := r.Pct(15)
	c := caseJ{Stream: "valid"}
	if malformed {
		c.Stream = "malformed"
	}
	return c
}

// ---------- running one case ----------
type caseOut struct {
	coq        string
	nontrivial bool
}

func runCase(R *res.Result, c caseJ, r *rng.R) (caseJ, caseOut) {
	w := newWorld()
	if c.Etcd {
		w = newWorldEtcd()
	}
	if c.Server {
		w = newWorldServer()
		defer w.stopRC()
	}
	w.keyType = c.KeyType
	var ops, obs []string
	accepted, rejected, faulted, multi := 0, 0, 0, false
	var step func(o opJ) stepOut
	step = func(o opJ) stepOut {
		if o.Kind == "relabel" { // environment: the store comes back with another label; nothing to observe
			if w.srv != nil {
				if !w.rcUp {
					panic("relabel while the cluster is stopped")
				}
				w.putStore11(o.NewZone)
			}
			R.Count("op:relabel")
			return stepOut{}
		}
		if o.Kind == "overlap" {
			outs := w.execOverlap(R, o)
			for _, out := range outs {
				ops = append(ops, out.opCoq)
				obs = append(obs, out.obsCoq)
			}
			R.Count("op:overlap")
			return outs[len(outs)-1]
		}
		out := w.exec(o)
		ops = append(ops, out.opCoq)
		obs = append(obs, out.obsCoq)
		R.Count("op:" + o.Kind)
		R.Count("res:" + strings.Trim(strings.SplitN(out.res, "(*", 2)[0], "() "))
		if o.FaultN > 0 {
			R.Count("fault-planned")
		}
		if o.isUpdate() {
			switch out.res {
			case "ROk":
				accepted++
			case "(RErr EStorage)":
				faulted++
			default:
				rejected++
			}
		}
		if out.live != nil {
			R.Count(fmt.Sprintf("ranges:%d", out.live.nRanges))
			R.Count(fmt.Sprintf("rules:%d", out.live.nRules))
			if out.live.nRanges >= 2 {
				multi = true
			}
			if out.live.gap {
				R.Count("served-with-uncovered-probe-key")
			}
		}
		return out
	}
	if c.Ops != nil { // fixed case (corpus / replay)
		for _, o := range c.Ops {
			step(o)
		}
	} else {
		malformed := c.Stream == "malformed"
		g := &gen{r: r, known: map[[2]string]ruleJ{{"pd", "default"}: {G: "pd", I: "default", Role: "voter", Count: 3}}}
		if malformed && r.Pct(50) { // foreign content before the first start
			for k := 0; k < 1+r.Intn(3); k++ {
				o := g.next(true)
				for o.Kind != "corrupt" {
					o = g.next(true)
				}
				c.Ops = append(c.Ops, o)
				step(o)
			}
		}
		o := opJ{Kind: "restart", MaxReplicas: 3}
		c.Ops = append(c.Ops, o)
		step(o)
		n := 6 + r.Intn(14)
		for k := 0; k < n; k++ {
			o := g.next(malformed)
			c.Ops = append(c.Ops, o)
			out := step(o)
			g.learn(o, out.res == "ROk")
			if o.Kind == "initfail" { // Initialize is retried on the same manager
				o2 := opJ{Kind: "reinit", MaxReplicas: 3}
				c.Ops = append(c.Ops, o2)
				step(o2)
				continue
			}
			if out.res == "(RErr EStorage)" && r.Pct(65) { // the client retries the same update
				o2 := o
				o2.FaultN = 0
				o2.Retry = true
				c.Ops = append(c.Ops, o2)
				out2 := step(o2)
				R.Count("retry")
				g.learn(o2, out2.res == "ROk")
			}
		}
	}
	txt := "(" + coqfmt.List(ops) + ",\n [" + strings.Join(obs, ";\n  ") + "])"
	return c, caseOut{txt, accepted >= 2 && rejected >= 1 && multi}
}

func main() {
	seed := flag.Uint64("seed", 1, "")
	n := flag.Int("n", 300, "number of generated cases")
	out := flag.String("out", ".", "output directory")
	tier := flag.String("tier", "quick", "")
	initfaults := flag.Int("initfaults", 0, "number of runs with a storage failure at a write of Initialize's repairs (Go-side verdict: storage == served after a successful Initialize)")
	apis := flag.Int("apis", 0, "number of runs of the HTTP-layer class (bundle / rule requests through the real router, refused and accepted)")
	oldrecords := flag.Int("oldrecords", 0, "number of cases in which valid rules are written straight into the storage (another member's records, isolation levels included) before a restart")
	keytypes := flag.Int("keytypes", 0, "number of cases with pd-server.key-type table / txn (rule keys are memcomparable encodings of 3..17 raw bytes)")
	handovers := flag.Int("handovers", 6, "number of leadership hand-over cases on a real pd server (RaftCluster Stop/Start, another member's updates in between)")
	large := flag.Int("large", 3, "number of large-index runs (1500..3500 rules, brute-force oracle on the Go side)")
	overlaps := flag.Int("overlaps", 15, "number of cases with overlapping updates (one parked inside its storage write)")
	sweeps := flag.Int("sweeps", 12, "number of systematic fault sweeps (a failure at each write of a multi-write update, before/after, + retry)")
	big := flag.Int("big", 1, "number of big-configuration cases (> 200 rules, > 100 groups, restarts) per kv backend")
	etcdBig := flag.Bool("etcd", true, "also run the big cases on PD's etcd kv.Base")
	corpus := flag.String("corpus", "", "json file: list of fixed cases run first")
	replay := flag.String("replay", "", "json file: one case (or an evidence replay file) to run and print")
	flag.Parse()
	log.ReplaceGlobals(zap.NewNop(), nil)

	R := res.New("C13", *seed, *tier)
	R.Rule = "streams: oldrecord (-oldrecords: valid rules, most with an isolation level, written straight into the storage under their own key as another member's records, then a restart: they must be served), keytype (-keytypes: the manager is in key type table / txn as the HTTP API sets it, rule keys are memcomparable encodings of 3..17 raw bytes, 8% raw keys that must be refused), bigload (restart after > 100 / > 200 rules and > 100 groups whose ids form strict-prefix chains, on the memory kv and on PD's etcd kv.Base), handover (a real pd server: this member's RaftCluster is stopped, another member's RuleManager accepts updates on the same storage, the RaftCluster is started again on the same object), overlap (update A parked inside its first storage write while update B is issued: B must wait, the outcome is A then B), faultsweep (a storage failure at EACH write of a multi-write update, before/after, then the retry), and random histories of 6..20 operations (SetRule 30%, DeleteRule 12%, SetRules 6%, Batch 10% incl. delete-by-prefix, SetRuleGroup 13%, " +
		"DeleteRuleGroup 5%, SetGroupBundle 8%, SetAllGroupBundles 4%, DeleteGroupBundle 4%, restart 3%, foreign storage writes 5% in the " +
		"malformed stream = 15% of the cases) over 4 groups x 5 rule ids, key ranges from the pool {'',10,20,2010,30,40,50} (whole space 50%, " +
		"unbounded 25%, bounded 25%), 8% invalid rule contents, a storage fault at write 1..3 (before/after) on 14% of the updates, retried " +
		"65% of the time; after every operation: all observers on 14 probe keys / 14 probe regions + a second RuleManager initialised from a " +
		"copy of the storage; non-trivial = at least 2 accepted and 1 rejected update and at least 2 key segments; distinct by sha256 of the " +
		"canonical Coq text"
	cf := &coqfmt.CaseFile{Dir: *out, Prefix: "C13", PerFile: 25,
		Header: "From Coq Require Import String.\nFrom PDV Require Import lib.Base model.C13_Rules.\nLocal Open Scope string_scope.\nLocal Open Scope Z_scope.\n",
		Type:   "list op * list pobs",
		Footer: "Definition M := Eval vm_compute in map fst (mismatches cases).\nDefinition D := Eval vm_compute in option_map (fun x => (fst x, map (fun d => fst (fst d)) (snd x))) (hd_error (mismatches cases)).\nDefinition V := Eval vm_compute in monitor_fails cases.\nPrint M. Print D. Print V.\n"}

	var all []caseJ
	emit := func(c caseJ, r *rng.R) caseOut {
		c2, o := runCase(R, c, r)
		R.Count("stream:" + c2.Stream)
		R.Case(o.coq, o.nontrivial)
		R.Sample(c2)
		if err := cf.Add(o.coq); err != nil {
			panic(err)
		}
		all = append(all, c2)
		return o
	}
	load := func(f string) []caseJ {
		b, err := os.ReadFile(f)
		if err != nil {
			panic(err)
		}
		var l []caseJ
		if json.Unmarshal(b, &l) == nil && len(l) > 0 {
			return l
		}
		var api struct {
			Replay struct {
				Steps []apiStep `json:"steps"`
			} `json:"replay"`
			Steps []apiStep `json:"steps"`
		}
		if json.Unmarshal(b, &api) == nil && len(api.Replay.Steps)+len(api.Steps) > 0 {
			runAPI(R, append(api.Replay.Steps, api.Steps...), "replay")
			for _, v := range R.Violations {
				fmt.Println(v.Sig, v.Desc)
			}
			return nil
		}
		var one struct {
			Replay *caseJ `json:"replay"`
		}
		if json.Unmarshal(b, &one) == nil && one.Replay != nil && one.Replay.Ops != nil {
			return []caseJ{*one.Replay}
		}
		var c caseJ
		if err := json.Unmarshal(b, &c); err != nil {
			panic(err)
		}
		return []caseJ{c}
	}
	if *corpus != "" {
		for _, c := range load(*corpus) {
			c.Stream = "corpus"
			emit(c, nil)
		}
	}
	if *replay != "" {
		for _, c := range load(*replay) {
			o := emit(c, nil)
			fmt.Println(o.coq)
		}
	} else {
		master := rng.New(*seed)
		for k := 0; k < *large; k++ {
			lr := master.Fork(uint64(5000000 + k))
			largeIndex(R, lr, 1500+lr.Intn(2000), fmt.Sprintf("seed %d large-index run %d", *seed, k))
		}
		for k := 0; k < *big; k++ {
			emit(genBig(master.Fork(uint64(2000000+k)), false), nil)
			if *etcdBig {
				emit(genBig(master.Fork(uint64(3000000+k)), true), nil)
			}
		}
		for k := 0; k < *sweeps; k++ {
			for _, c := range genSweep(master.Fork(uint64(1000000 + k))) {
				emit(c, nil)
			}
		}
		for k := 0; k < *overlaps; k++ {
			emit(genOverlap(master.Fork(uint64(4000000+k))), nil)
		}
		for k := 0; k < *handovers; k++ {
			emit(genHandover(master.Fork(uint64(6000000+k))), nil)
		}
		for k := 0; k < *initfaults; k++ {
			initFault(R, master.Fork(uint64(9500000+k)), fmt.Sprintf("seed %d initfault run %d", *seed, k))
		}
		for k := 0; k < *apis; k++ {
			apiClass(R, master.Fork(uint64(9000000+k)), fmt.Sprintf("seed %d api run %d", *seed, k))
		}
		for k := 0; k < *oldrecords; k++ {
			emit(genOldRecord(master.Fork(uint64(8000000+k))), nil)
		}
		for k := 0; k < *keytypes; k++ {
			emit(genKeyType(master.Fork(uint64(7000000+k))), nil)
		}
		if theServer != nil {
			theServer.Close()
		}
		for k := 0; k < *n; k++ {
			r := master.Fork(uint64(k))
			emit(genCase(r), r)
		}
		if etcdSrv != nil {
			etcdSrv.Close()
		}
	}
	if err := cf.Flush(); err != nil {
		panic(err)
	}
	R.CaseFiles = cf.Files
	b, _ := json.Marshal(all)
	os.WriteFile(path.Join(*out, "cases.json"), b, 0o644)
	if err := R.Write(path.Join(*out, "result.json")); err != nil {
		panic(err)
	}
}
