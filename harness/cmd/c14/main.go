// Driver for C14: runs the REAL RaftCluster of a real bootstrapped pd server (plus the gRPC handlers
// PutStore / StoreHeartbeat and the hooks VerifC14CheckStores / VerifC14BuryStore) on generated
// histories of store-lifecycle commands, region placements and storage faults, and prints
// (boot, ops, observations) as Coq terms for model/C14_Store.v.
// Storage faults: s.GetStorage().Base (exported embedded kv.Base) is wrapped by kvx14.
package main

import (
	"context"
	"encoding/json"
	"flag"
	"fmt"
	"math"
	"net/http"
	"net/http/httptest"
	"os"
	"path"
	"path/filepath"
	"reflect"
	"regexp"
	"runtime"
	"sort"
	"strconv"
	"strings"
	"time"

	"github.com/coreos/go-semver/semver"
	"github.com/pingcap/kvproto/pkg/metapb"
	"github.com/pingcap/kvproto/pkg/pdpb"
	"github.com/tikv/pd/pkg/errs"
	"github.com/tikv/pd/server"
	"github.com/tikv/pd/server/api"
	"github.com/tikv/pd/server/cluster"
	"github.com/tikv/pd/server/config"
	"github.com/tikv/pd/server/core"
	"github.com/tikv/pd/server/kv"

	"pdverif/internal/coqfmt"
	"pdverif/internal/kvx14"
	"pdverif/internal/res"
	"pdverif/internal/rng"
	"pdverif/internal/srv14"
)

// ---------- operations ----------
type lab struct{ K, V string }

type payload struct {
	ID     uint64
	Addr   string
	State  int // 0 Up 1 Offline 2 Tombstone
	PD     bool
	Labels []lab
	Ver    string
}

type fault struct {
	On   bool
	SID  uint64
	Idx  int
	Kind int // 0 before, 1 after
}

type op struct {
	K    string // put labels remove up bury check weight clean heartbeat region setenv routes
	Grpc bool
	// remove: the write of the schedule configuration (key `config`: the store's remove-peer limit) that follows the write of the
	// store record inside RemoveStore fails. The model has no such fault: the store's state has changed, RemoveStore is successful.
	CfgFault bool
	API      bool // remove, up: through the HTTP API (DELETE /store/{id}[?force], POST /store/{id}/state?state=Up|Offline)
	P        payload
	ID       uint64
	Labels   []lab
	Force    bool
	PD       bool
	LW, RW   int64
	Order    []uint64 // clean, check: map iteration order, filled in from the run's storage write log
	R        uint64
	Stores   []uint64
	Roles    []int // region: peer roles parallel to Stores (0 voter, 1 learner, 2 incoming voter, 3 demoting voter); nil = all voters
	F        fault
	// setenv: the replication settings the store operations look at
	Loc    []string
	Strict bool
	PR     bool
}

type caseIn struct {
	CV   string
	Boot payload
	Ops  []op
}

type caseRec struct {
	In  caseIn
	Obs []string
}

func qs(s string) string { return "\"" + s + "\"" }

func labsCoq(ls []lab) string {
	xs := make([]string, len(ls))
	for i, l := range ls {
		xs[i] = "(" + qs(l.K) + ", " + qs(l.V) + ")"
	}
	return coqfmt.List(xs)
}

func verTriple(v string) (string, bool) {
	if len(v) > 0 && v[0] == 'v' {
		v = v[1:]
	}
	sv, err := semver.NewVersion(v)
	if err != nil || sv.PreRelease != "" || sv.Metadata != "" {
		return "", false
	}
	return fmt.Sprintf("(%s, %s, %s)", coqfmt.Z(sv.Major), coqfmt.Z(sv.Minor), coqfmt.Z(sv.Patch)), true
}

var stateCoq = []string{"Up", "Offline", "Tombstone"}

func (p payload) coq() string {
	v, ok := verTriple(p.Ver)
	return fmt.Sprintf("(Payload %s %s %s %s %s %s)", coqfmt.ZU(p.ID), qs(p.Addr), stateCoq[p.State], coqfmt.Bool(p.PD),
		labsCoq(p.Labels), coqfmt.Opt(v, ok))
}

func (f fault) coq() string {
	if !f.On {
		return "NoFault"
	}
	return fmt.Sprintf("(Fault %s %d %s)", coqfmt.ZU(f.SID), f.Idx, []string{"FBefore", "FAfter"}[f.Kind])
}

// setEnv changes the replication settings PutStore reads (location-labels, strictly-match-label, enable-placement-rules)
// directly in the served options: the configuration path itself is C18's subject
func (w *world) setEnv(loc []string, strict, pr bool) {
	opt := w.s.GetPersistOptions()
	rp := opt.GetReplicationConfig().Clone()
	rp.LocationLabels = append([]string(nil), loc...)
	rp.StrictlyMatchLabel = strict
	rp.EnablePlacementRules = pr
	opt.SetReplicationConfig(rp)
}

func idsCoq(xs []uint64) string {
	s := make([]string, len(xs))
	for i, x := range xs {
		s[i] = coqfmt.ZU(x)
	}
	return coqfmt.List(s)
}

func (o op) coq() string {
	switch o.K {
	case "put":
		return fmt.Sprintf("OPut %s %s %s", coqfmt.Bool(o.Grpc), o.P.coq(), o.F.coq())
	case "labels":
		return fmt.Sprintf("OLabels %s %s %s %s", coqfmt.ZU(o.ID), labsCoq(o.Labels), coqfmt.Bool(o.Force), o.F.coq())
	case "remove":
		return fmt.Sprintf("ORemove %s %s %s", coqfmt.ZU(o.ID), coqfmt.Bool(o.PD), o.F.coq())
	case "up":
		return fmt.Sprintf("OUp %s %s", coqfmt.ZU(o.ID), o.F.coq())
	case "bury":
		return fmt.Sprintf("OBury %s %s", coqfmt.ZU(o.ID), o.F.coq())
	case "check":
		return "OCheck " + idsCoq(o.Order) + " " + o.F.coq()
	case "weight":
		return fmt.Sprintf("OWeight %s %s %s %s", coqfmt.ZU(o.ID), coqfmt.Z(o.LW), coqfmt.Z(o.RW), o.F.coq())
	case "clean":
		return fmt.Sprintf("OClean %s %s", idsCoq(o.Order), o.F.coq())
	case "heartbeat":
		return fmt.Sprintf("OHeartbeat %s %s", coqfmt.ZU(o.ID), o.F.coq())
	case "region":
		return fmt.Sprintf("ORegion %s %s", coqfmt.ZU(o.R), idsCoq(o.Stores))
	case "routes":
		// requests to the per-store routes of the HTTP API the model has no operation for (none in the tree the model was written
		// against): whatever they are, they must leave every store's record as it is - in the model the step changes nothing
		return "OSetEnv (Env [] false true)"
	case "setenv":
		ls := make([]string, len(o.Loc))
		for i, l := range o.Loc {
			ls[i] = qs(l)
		}
		return fmt.Sprintf("OSetEnv (Env %s %s %s)", coqfmt.List(ls), coqfmt.Bool(o.Strict), coqfmt.Bool(o.PR))
	}
	panic("bad op " + o.K)
}

// ---------- the world: one real server, reset between cases ----------
type world struct {
	x                                *srv14.Srv
	s                                *server.Server
	rc                               *cluster.RaftCluster
	st                               *core.Storage
	kb                               *kvx14.Base
	etcdKV                           kv.Base
	meta                             *metapb.Cluster
	useEtcd                          bool
	confVer                          uint64
	lastPanic                        string
	buryRace                         string // how the scripted checkStores/heartbeat interleaving went (histogram only)
	prevServed, curServed, curStored map[uint64]rec
	R                                *res.Result
	notes                            map[string]bool
	api                              http.Handler
}

// cfgGroupOn: count (and possibly fail) writes of the key `config` as group "config"; only while an operation with CfgFault runs
var cfgGroupOn bool

func storeGroup(key string) (string, bool) {
	if cfgGroupOn && (key == "config" || strings.HasSuffix(key, "/config")) {
		return "config", true
	}
	if i := strings.Index(key, "raft/s/"); i >= 0 {
		id, err := strconv.ParseUint(strings.TrimLeft(key[i+len("raft/s/"):], "0"), 10, 64)
		if err != nil {
			id = 0
		}
		return strconv.FormatUint(id, 10), true
	}
	if i := strings.Index(key, "store_weight/"); i >= 0 {
		rest := key[i+len("store_weight/"):]
		if j := strings.Index(rest, "/"); j >= 0 {
			id, err := strconv.ParseUint(strings.TrimLeft(rest[:j], "0"), 10, 64)
			if err != nil {
				id = 0
			}
			return strconv.FormatUint(id, 10), true
		}
	}
	return "", false
}

func newWorld() (*world, error) {
	*cluster.VerifC14BackgroundJobInterval() = 24 * time.Hour // the harness owns the checkStores tick
	x, err := srv14.Start(func(c *config.Config) { c.LeaderLease = 60 })
	if err != nil {
		return nil, err
	}
	if err := x.Bootstrap(&metapb.Store{Id: 1, Address: "boot", Version: "4.0.0"}); err != nil {
		x.Close()
		return nil, err
	}
	w := &world{x: x, s: x.S, rc: x.S.GetRaftCluster(), st: x.S.GetStorage(), notes: map[string]bool{}}
	w.etcdKV = w.st.Base
	w.kb = kvx14.Wrap(w.etcdKV, storeGroup)
	w.st.Base = w.kb
	w.meta = w.rc.GetConfig()
	return w, nil
}

func mkLabels(ls []lab) []*metapb.StoreLabel {
	// built by appending one element at a time, like gogo's Unmarshal and proto.Clone do
	var out []*metapb.StoreLabel
	for _, l := range ls {
		out = append(out, &metapb.StoreLabel{Key: l.K, Value: l.V})
	}
	return out
}

func (p payload) store() *metapb.Store {
	return &metapb.Store{Id: p.ID, Address: p.Addr, State: metapb.StoreState(p.State), PhysicallyDestroyed: p.PD,
		Labels: mkLabels(p.Labels), Version: p.Ver}
}

func (w *world) wipeEtcd(prefix string) {
	for {
		keys, _, err := w.etcdKV.LoadRange(prefix, prefix+"\xff", 1000)
		if err != nil {
			panic(err)
		}
		for _, k := range keys {
			if err := w.etcdKV.Remove(k); err != nil {
				panic(err)
			}
		}
		if len(keys) < 1000 {
			return
		}
	}
}

// reset brings the real cluster to "a leader that has just loaded a storage holding exactly `boot`".
func (w *world) reset(cv string, boot payload, useEtcd bool) {
	w.rc.Stop()
	bc := w.s.GetBasicCluster()
	for _, r := range bc.GetRegions() {
		bc.RemoveRegion(r)
	}
	for _, st := range bc.GetStores() {
		bc.DeleteStore(st)
	}
	w.useEtcd = useEtcd
	if useEtcd {
		w.kb.Inner = w.etcdKV
		w.wipeEtcd("raft/s/")
		w.wipeEtcd("schedule/store_weight/")
	} else {
		w.kb.Inner = kv.NewMemoryKV()
	}
	w.kb.Arm(nil)
	if err := w.st.SaveMeta(w.meta); err != nil {
		panic(err)
	}
	w.s.GetPersistOptions().SetClusterVersion(semver.New(cv))
	w.setEnv(nil, false, true) // model: boot has Env [] false true
	if err := w.st.SaveStore(boot.store()); err != nil {
		panic(err)
	}
	if err := w.rc.Start(w.s); err != nil {
		panic(err)
	}
	if w.s.GetRaftCluster() == nil {
		panic("cluster not running after reset")
	}
	w.confVer = 1
}

func viewCoq(m *metapb.Store, lw, rw float64, rcf int, w *world) string {
	v, ok := verTriple(m.GetVersion())
	if !ok {
		w.notes["unparseable version in a record: "+m.GetVersion()] = true
		v = "(0%Z, 0%Z, 0%Z)"
	}
	ls := make([]lab, len(m.GetLabels()))
	for i, l := range m.GetLabels() {
		ls[i] = lab{l.GetKey(), l.GetValue()}
	}
	iw := func(f float64) string {
		if f != math.Trunc(f) || math.Abs(f) > 1e15 {
			w.notes["non-integral weight"] = true
		}
		return coqfmt.Z(int64(f))
	}
	return fmt.Sprintf("(View %s %s %s %s %s %s %s %s)", qs(m.GetAddress()), stateCoq[int(m.GetState())],
		coqfmt.Bool(m.GetPhysicallyDestroyed()), labsCoq(ls), v, iw(lw), iw(rw), coqfmt.Z(int64(rcf)))
}

// rec is the lifecycle/identity projection of one store record, kept beside the Coq text for the
// driver's own (Go-side) statement of the four known defects
type rec struct {
	Labels string
	Rest   string // address, state, physically-destroyed, version
	LW, RW float64
}

func mkRec(s *core.StoreInfo) rec {
	m := s.GetMeta()
	return rec{Labels: fmt.Sprint(m.GetLabels()), Rest: fmt.Sprint(m.GetAddress(), m.GetState(), m.GetPhysicallyDestroyed(), m.GetVersion()),
		LW: s.GetLeaderWeight(), RW: s.GetRegionWeight()}
}

func (w *world) snapshot(r string) string {
	stores := w.rc.GetStores()
	sort.Slice(stores, func(i, j int) bool { return stores[i].GetID() < stores[j].GetID() })
	sv := make([]string, len(stores))
	w.prevServed, w.curServed, w.curStored = w.curServed, map[uint64]rec{}, map[uint64]rec{}
	for i, s := range stores {
		sv[i] = "(" + coqfmt.ZU(s.GetID()) + ", " + viewCoq(s.GetMeta(), s.GetLeaderWeight(), s.GetRegionWeight(), s.GetRegionCount(), w) + ")"
		w.curServed[s.GetID()] = mkRec(s)
	}
	var sd []string
	// what storage holds, read key by key WITHOUT Storage.LoadStores (the paging of the code under test must not decide what the
	// harness sees): every record under raft/s/ and the two weight keys of its id (default 1, as LoadStores documents)
	_, vals, err := w.kb.Inner.LoadRange("raft/s/", "raft/s/\xff", 0)
	if err != nil {
		panic(err)
	}
	weight := func(id uint64, which string) float64 {
		v, err := w.kb.Inner.Load(fmt.Sprintf("schedule/store_weight/%020d/%s", id, which))
		if err != nil {
			panic(err)
		}
		if v == "" {
			return 1
		}
		f, err := strconv.ParseFloat(v, 64)
		if err != nil {
			panic(err)
		}
		return f
	}
	for _, v := range vals {
		m := &metapb.Store{}
		if err := m.Unmarshal([]byte(v)); err != nil {
			panic(err)
		}
		lw, rw := weight(m.GetId(), "leader"), weight(m.GetId(), "region")
		sd = append(sd, "("+coqfmt.ZU(m.GetId())+", "+viewCoq(m, lw, rw, 0, w)+")")
		w.curStored[m.GetId()] = mkRec(core.NewStoreInfo(m, core.SetLeaderWeight(lw), core.SetRegionWeight(rw)))
	}
	return "(Obs " + r + "\n     " + coqfmt.List(sv) + "\n     " + coqfmt.List(sd) + ")"
}

// goSide states the four defects already known for C14 directly on the implementation's observations
// (independently of the Coq monitor, which also finds them) so that the report carries the concrete values.
func (w *world) goSide(R *res.Result, c *caseRec, o op, r string) {
	if R == nil {
		return
	}
	replay := map[string]interface{}{"In": c.In}
	tgt := o.ID
	if o.K == "put" {
		tgt = o.P.ID
	}
	isErr := r != "ROk" && r != "RNone" && r != "RPanic"
	if r == "RPanic" {
		R.Violate("C14:panic-heartbeat-after-tombstone-cleanup", "StoreHeartbeat("+fmt.Sprint(o.ID)+") panicked in the handler: "+w.lastPanic+
			" (rollingStoresStats still holds a store whose record RemoveTombStoneRecords deleted)", replay)
	}
	if isErr && (o.K == "put" || o.K == "labels") {
		if a, ok := w.prevServed[tgt]; ok {
			if b, ok2 := w.curServed[tgt]; ok2 && a.Rest == b.Rest && a.Labels != b.Labels {
				R.Violate("C14:failed-put-mutated-served-labels", fmt.Sprintf("%s on store %d returned %s, yet the served labels went from %s to %s (storage: %s)",
					o.K, tgt, r, a.Labels, b.Labels, w.curStored[tgt].Labels), replay)
			}
		}
	}
	if !isErr {
		for id, b := range w.curServed {
			a, had := w.prevServed[id]
			d, st := w.curStored[id]
			if had && a == b || !st {
				continue
			}
			if b.Rest == d.Rest && b.Labels == d.Labels && (b.LW != d.LW || b.RW != d.RW) {
				sig, why := "C14:stored-weight-differs-from-served", ""
				for _, p := range c.In.Ops {
					if p.K == "weight" && p.ID == id && p.F.On {
						sig, why = "C14:stale-weight-after-failed-set-weight", "an earlier SetStoreWeight failed half-way"
						break
					}
				}
				if why == "" {
					for _, p := range c.In.Ops {
						if p.K == "clean" {
							sig, why = "C14:stale-weight-after-tombstone-cleanup", "the weight keys survived RemoveTombStoneRecords"
						}
					}
				}
				R.Violate(sig, fmt.Sprintf("after a successful %s store %d is served with weights %v/%v but LoadStores gives %v/%v (%s)", o.K, id, b.LW, b.RW, d.LW, d.RW, why), replay)
			}
		}
	}
}

func (w *world) errRes(err error) string {
	switch {
	case err == nil:
		return "ROk"
	case errs.ErrStoreNotFound.Equal(err):
		return "RNotFound"
	case errs.ErrStoreTombstone.Equal(err):
		return "RTombstone"
	case errs.ErrStoreDestroyed.Equal(err):
		return "RDestroyed"
	case errs.ErrStoreIsUp.Equal(err):
		return "RIsUp"
	}
	m := err.Error()
	switch {
	case strings.Contains(m, "injected storage fault"):
		return "RStorage"
	case strings.Contains(m, "invalid put store"):
		return "RInvalid"
	case strings.Contains(m, "version should compatible"):
		return "RVersion"
	case strings.Contains(m, "duplicated store address"):
		return "RDupAddr"
	case strings.Contains(m, "region peers, it cannot be buried"):
		return "RHasPeers"
	case strings.Contains(m, "label configuration is incorrect"), strings.Contains(m, "key matching the label was not found"):
		return "RLabel"
	case strings.Contains(m, "placement rules is disabled"):
		return "RTiFlash"
	case strings.Contains(m, "not found"):
		return "RNotFound"
	}
	w.notes["unclassified error: "+m] = true
	return "RBad"
}

func (w *world) exec(o *op) string {
	plan := map[string]kvx14.Kind{}
	if o.F.On {
		plan[kvx14.PlanKey(strconv.FormatUint(o.F.SID, 10), o.F.Idx)] = []kvx14.Kind{kvx14.FailBefore, kvx14.FailAfter}[o.F.Kind]
	}
	if o.CfgFault {
		cfgGroupOn = true
		plan[kvx14.PlanKey("config", 0)] = kvx14.FailBefore
	}
	w.kb.Arm(plan)
	r := w.call(o, true)
	w.kb.Arm(nil)
	if o.CfgFault {
		cfgGroupOn = false
		w.R.Count("remove:fault-armed-on-the-config-write-that-follows-the-store-record")
	}
	return w.snapshot(r)
}

// call runs one operation on the real cluster and returns its result constructor. fillOrder: take the map-iteration
// order oracle of check / clean from the storage write log (only meaningful when nothing else writes meanwhile).
func (w *world) call(o *op, fillOrder bool) string {
	ctx := context.Background()
	r := "RBad"
	switch o.K {
	case "put":
		if o.Grpc {
			resp, err := w.s.PutStore(ctx, &pdpb.PutStoreRequest{Header: w.x.Header(), Store: o.P.store()})
			if err != nil {
				r = w.errRes(err)
			} else if e := resp.GetHeader().GetError(); e != nil {
				if e.GetType() == pdpb.ErrorType_STORE_TOMBSTONE {
					r = "RGrpcTombstone"
				} else {
					w.notes["unexpected header error: "+e.String()] = true
				}
			} else {
				r = "ROk"
			}
		} else {
			r = w.errRes(w.rc.PutStore(o.P.store()))
		}
	case "setenv":
		w.setEnv(o.Loc, o.Strict, o.PR)
		r = "ROk"
	case "routes":
		w.unknownStoreRoutes(o.ID)
		r = "ROk"
	case "labels":
		r = w.errRes(w.rc.UpdateStoreLabels(o.ID, mkLabels(o.Labels), o.Force))
	case "remove":
		if o.API {
			switch {
			case o.PD:
				r = w.apiCall("DELETE", fmt.Sprintf("/store/%d?force", o.ID))
			case o.ID%2 == 0:
				r = w.apiCall("POST", fmt.Sprintf("/store/%d/state?state=Offline", o.ID))
			default:
				r = w.apiCall("DELETE", fmt.Sprintf("/store/%d", o.ID))
			}
		} else {
			r = w.errRes(w.rc.RemoveStore(o.ID, o.PD))
		}
	case "up":
		if o.API {
			r = w.apiCall("POST", fmt.Sprintf("/store/%d/state?state=Up", o.ID))
		} else {
			r = w.errRes(w.rc.UpStore(o.ID))
		}
	case "bury":
		r = w.errRes(w.rc.VerifC14BuryStore(o.ID))
	case "check":
		w.rc.VerifC14CheckStores()
		r = "RNone"
		o.Order = nil
		for _, e := range w.entriesIf(fillOrder) { // the order in which the map iteration reached the stores it buried
			if e.Op == "S" && strings.Contains(e.Key, "raft/s/") {
				id, _ := strconv.ParseUint(e.Group, 10, 64)
				o.Order = append(o.Order, id)
			}
		}
	case "weight":
		r = w.errRes(w.rc.SetStoreWeight(o.ID, float64(o.LW), float64(o.RW)))
	case "clean":
		r = w.errRes(w.rc.RemoveTombStoneRecords())
		// the order in which the map iteration reached the tombstones (Storage.DeleteStore issues several writes per
		// store: weight keys, record, and the restoring writes after a failure): first appearance of each store id
		o.Order = nil
		seen := map[uint64]bool{}
		if !fillOrder { // a covering order: without faults the outcome does not depend on it
			o.Order = []uint64{1, 2, 3, 4, 5, 6}
		}
		for _, e := range w.entriesIf(fillOrder) {
			id, _ := strconv.ParseUint(e.Group, 10, 64)
			if !seen[id] {
				seen[id] = true
				o.Order = append(o.Order, id)
			}
		}
	case "heartbeat":
		var resp *pdpb.StoreHeartbeatResponse
		var err error
		panicked := func() (p bool) {
			// the real gRPC server has no recovery interceptor: a panic here kills the leader process
			defer func() {
				if x := recover(); x != nil {
					p = true
					w.lastPanic = fmt.Sprint(x)
				}
			}()
			resp, err = w.s.StoreHeartbeat(ctx, &pdpb.StoreHeartbeatRequest{Header: w.x.Header(), Stats: &pdpb.StoreStats{StoreId: o.ID}})
			return false
		}()
		if panicked {
			r = "RPanic"
		} else if err != nil {
			r = w.errRes(err)
		} else if e := resp.GetHeader().GetError(); e != nil {
			if e.GetType() == pdpb.ErrorType_STORE_TOMBSTONE {
				r = "RGrpcTombstone"
			} else {
				w.notes["unexpected header error: "+e.String()] = true
			}
		} else {
			r = "ROk"
		}
	case "region":
		w.confVer++
		keys := []string{"", "b", "c", "d", "e", "f", ""}
		reg := &metapb.Region{Id: 1000 + o.R, StartKey: []byte(keys[o.R-1]), EndKey: []byte(keys[o.R]),
			RegionEpoch: &metapb.RegionEpoch{ConfVer: w.confVer, Version: 1}}
		if o.R == 6 {
			reg.EndKey = nil
		}
		for i, sid := range o.Stores {
			p := &metapb.Peer{Id: o.R*1000 + sid, StoreId: sid}
			if i < len(o.Roles) {
				// whatever its role (a learner, a voter being demoted in a joint state, ...) the peer is a peer the store holds
				p.Role = metapb.PeerRole(o.Roles[i])
			}
			reg.Peers = append(reg.Peers, p)
		}
		if err := w.rc.HandleRegionHeartbeat(core.NewRegionInfo(reg, reg.Peers[0])); err != nil {
			w.notes["region heartbeat refused: "+err.Error()] = true
		} else {
			r = "ROk"
		}
	}
	return r
}

func (w *world) entriesIf(b bool) []kvx14.Entry {
	if !b {
		return nil
	}
	return w.kb.Entries()
}

// ---------- overlapping operations ----------
type pairRec struct {
	In       caseIn // boot + setup ops
	A, B     op
	ParkIdx  int
	RA, RB   string
	Before   string
	Mid      string // "" when b did not complete while a was parked
	Final    string
	Reload   string // after both completed: a new leader loads the same storage ("" = not taken)
	Overlaid bool
}

func target(o op) uint64 {
	if o.K == "put" {
		return o.P.ID
	}
	return o.ID
}

// execPair parks a at its parkIdx-th write of store sid, starts b, and lets a continue when b has completed or has
// visibly been blocked (by the cluster lock a holds).
func (w *world) execPair(a, b *op, sid uint64, parkIdx int) (ra, rb, mid string, overlaid bool) {
	w.kb.ArmPark(nil, kvx14.PlanKey(strconv.FormatUint(sid, 10), parkIdx))
	parked := w.kb.Parked()
	doneA := make(chan string, 1)
	go func() { doneA <- w.call(a, false) }()
	select {
	case ra = <-doneA: // a never reached that write: plain sequential a ; b
		w.kb.Arm(nil)
		return ra, w.call(b, false), "", false
	case <-parked:
	case <-time.After(20 * time.Second):
		panic("pair: a neither finished nor parked")
	}
	doneB := make(chan string, 1)
	go func() { doneB <- w.call(b, false) }()
	bDone := false
	select {
	case rb = <-doneB:
		bDone = true
		mid = w.snapshot("ROk") // reads only: GetStores and LoadStores need neither the cluster lock nor the parked write
	case <-time.After(25 * time.Millisecond): // b waits for the lock a holds
	}
	w.kb.Release()
	ra = <-doneA
	if !bDone {
		rb = <-doneB
	}
	w.kb.Arm(nil)
	return ra, rb, mid, bDone
}

func genPairOp(r *rng.R, kind int, sid uint64, addr string) op {
	switch kind {
	case 0:
		return op{K: "weight", ID: sid, LW: int64(1 + r.Intn(4)), RW: int64(1 + r.Intn(4))}
	case 1:
		return op{K: "labels", ID: sid, Labels: genLabels(r), Force: r.Pct(30)}
	case 2:
		if r.Pct(40) {
			addr = "a9" // the store moves to another address
		}
		return op{K: "put", P: payload{ID: sid, Addr: addr, Ver: []string{"4.0.0", "4.0.5"}[r.Intn(2)], Labels: genLabels(r)}}
	case 3:
		return op{K: "remove", ID: sid, PD: r.Pct(30)}
	case 4:
		return op{K: "up", ID: sid}
	case 5:
		return op{K: "bury", ID: sid}
	case 6:
		return op{K: "check"}
	case 7:
		return op{K: "clean"}
	case 9: // a store heartbeat through the real gRPC handler (HandleStoreHeartbeat takes the cluster lock)
		return op{K: "heartbeat", ID: sid}
	default: // a region heartbeat that places (or removes) a peer on the store
		if r.Pct(70) {
			return op{K: "region", R: 1, Stores: []uint64{1, sid}}
		}
		return op{K: "region", R: 1, Stores: []uint64{1}}
	}
}

// scripted pairs run before the random ones: the situations the class exists for
type pairScript struct {
	Offline, Buried bool
	A, B            op
	Park            int
}

var pairScripts = []pairScript{
	// SetStoreWeight parked at its leader-weight write while check-stores buries the (empty, offline) store
	{Offline: true, A: op{K: "weight", ID: 2, LW: 2, RW: 3}, B: op{K: "check"}, Park: 0},
	{Offline: true, A: op{K: "weight", ID: 2, LW: 2, RW: 3}, B: op{K: "up", ID: 2}, Park: 1},
	// tombstone cleanup parked at its first write while the labels of that tombstone are updated
	{Offline: true, Buried: true, A: op{K: "clean"}, B: op{K: "labels", ID: 2, Labels: []lab{{"zone", "w"}}}, Park: 0},
	// the store moves to another address while its labels are updated
	{A: op{K: "put", P: payload{ID: 2, Addr: "a9", Ver: "4.0.5"}}, B: op{K: "labels", ID: 2, Labels: []lab{{"zone", "w"}}}, Park: 0},
	{Offline: true, A: op{K: "remove", ID: 2, PD: true}, B: op{K: "up", ID: 2}, Park: 0},
	// tombstone cleanup parked at each of its three writes while that store's heartbeat arrives (HandleStoreHeartbeat vs
	// RemoveTombStoneRecords: the heartbeat must see the tombstone or no store at all, and must not bring the record back)
	{Offline: true, Buried: true, A: op{K: "clean"}, B: op{K: "heartbeat", ID: 2}, Park: 0},
	{Offline: true, Buried: true, A: op{K: "clean"}, B: op{K: "heartbeat", ID: 2}, Park: 1},
	{Offline: true, Buried: true, A: op{K: "clean"}, B: op{K: "heartbeat", ID: 2}, Park: 2},
	// the heartbeat's periodic save of the store meta (first heartbeat after the record was created / loaded) parked while a lifecycle
	// command runs: the save carries the snapshot taken under the lock and must not land after the command
	{A: op{K: "heartbeat", ID: 2}, B: op{K: "remove", ID: 2}, Park: 0},
	{A: op{K: "heartbeat", ID: 2}, B: op{K: "remove", ID: 2, PD: true}, Park: 0},
	{Offline: true, A: op{K: "heartbeat", ID: 2}, B: op{K: "check"}, Park: 0},
	{Offline: true, A: op{K: "heartbeat", ID: 2}, B: op{K: "up", ID: 2}, Park: 0},
	{A: op{K: "heartbeat", ID: 2}, B: op{K: "labels", ID: 2, Labels: []lab{{"zone", "w"}}}, Park: 0},
}

func (w *world) runPair(r *rng.R) pairRec { return w.runPairWith(r, nil) }

// runBuryRace places a region heartbeat that adds a peer on the offline, empty store 2 exactly between checkStores'
// unlocked read of the region count and buryStore's lock section.  Nothing between those two points can be parked, so
// the order is fixed through the cluster lock itself:
//
//	P  PutStore(1, version 4.0.5) raises the cluster version; its OnStoreVersionChange persists the config while holding
//	   the cluster READ lock -> parked at that write (a reader is inside).
//	b  region heartbeat (peer on store 2): passes its read section, then c.Lock(): owns the writer slot, waits for P.
//	a  checkStores: reads "store 2 offline, 0 regions" (no cluster lock), buryStore -> c.Lock(): queued behind b.
//	release P -> b puts the region and returns -> a's buryStore runs; it is parked at its store write: mid snapshot.
//
// P is, for the model, the last operation of the setup (its store write and the in-memory version change are complete).
func (w *world) runBuryRace() pairRec {
	var p pairRec
	for try := 0; try < 8; try++ {
		var ok bool
		if p, ok = w.tryBuryRace(); ok {
			if try > 0 {
				w.notes[fmt.Sprintf("bury-race: set-up needed %d retries (the config parking point was taken by a background write)", try)] = true
			}
			return p
		}
		// the "config" parking point was taken by a background writer of the server (coordinator start-up persists the
		// options too), not by the helper PutStore: what ran was an ordinary sequential b ; a. Again.
	}
	w.notes["bury-race: the interleaving could not be set up in 8 attempts (sequential case recorded)"] = true
	w.buryRace = "not-set-up"
	return p
}

func (w *world) tryBuryRace() (pairRec, bool) {
	boot := payload{ID: 1, Addr: "a1", Ver: "4.0.0"}
	w.reset("0.0.0", boot, false)
	p := pairRec{In: caseIn{CV: "0.0.0", Boot: boot}}
	step := func(o op) {
		w.exec(&o)
		p.In.Ops = append(p.In.Ops, o)
	}
	step(op{K: "put", P: payload{ID: 2, Addr: "a2", Ver: "4.0.5", Labels: []lab{{"host", "h"}}}})
	step(op{K: "remove", ID: 2})
	P := op{K: "put", P: payload{ID: 1, Addr: "a1", Ver: "4.0.5"}}
	p.A = op{K: "check"}
	p.B = op{K: "region", R: 1, Stores: []uint64{1, 2}}
	w.kb.Arm(nil)
	pk := w.kb.AddPark("", "config")
	doneP := make(chan string, 1)
	go func() { doneP <- w.call(&P, false) }()
	select {
	case <-pk.Parked:
	case <-doneP: // the version change did not persist anything: no reader to hide behind, plain sequential b ; a
		w.notes["bury-race: the version change of the helper PutStore wrote no config"] = true
		p.In.Ops = append(p.In.Ops, P)
		p.Before = w.snapshot("ROk")
		p.RB = w.call(&p.B, false)
		p.RA = w.call(&p.A, false)
		p.A, p.B, p.RA, p.RB = p.B, p.A, p.RB, p.RA
		p.Final = w.snapshot("ROk")
		pk.Release()
		return p, true
	}
	p.In.Ops = append(p.In.Ops, P)
	p.Before = w.snapshot("ROk")
	doneB := make(chan string, 1)
	go func() { doneB <- w.call(&p.B, false) }()
	select {
	case p.RB = <-doneB: // b was not held up: it is not the helper that sits at the parking point
		pk.Release()
		<-doneP
		p.RA = w.call(&p.A, false)
		p.A, p.B, p.RA, p.RB = p.B, p.A, p.RB, p.RA
		w.kb.Arm(nil)
		p.Final = w.snapshot("ROk")
		return p, false
	case <-time.After(50 * time.Millisecond): // b is now waiting for the reader P with the writer slot taken
	}
	cp := w.kb.AddPark(kvx14.PlanKey("2", 0), "")
	doneA := make(chan string, 1)
	go func() { doneA <- w.call(&p.A, false) }()
	time.Sleep(50 * time.Millisecond) // a has read the region count and queues for the lock in buryStore
	pk.Release()
	p.RB = <-doneB
	select {
	case <-cp.Parked: // buryStore went ahead: the region heartbeat is acknowledged and visible, the store not yet buried
		p.Mid = w.snapshot("ROk")
		p.Overlaid = true
		w.buryRace = "buryStore-went-ahead-after-the-heartbeat"
		cp.Release()
		p.RA = <-doneA
	case p.RA = <-doneA:
		// since fix 2f015b8: buryStore saw the peer under the lock and refused (checkStores only logs that); the outcome is
		// the sequential order region ; check, which the monitor accepts
		w.buryRace = "buryStore-refused-under-the-lock"
	}
	<-doneP
	w.kb.Arm(nil)
	p.Final = w.snapshot("ROk")
	return p, true
}

func (w *world) runPairWith(r *rng.R, sc *pairScript) pairRec {
	boot := payload{ID: 1, Addr: "a1", Ver: "4.0.0"}
	w.reset("0.0.0", boot, false)
	p := pairRec{In: caseIn{CV: "0.0.0", Boot: boot}}
	step := func(o op) {
		w.exec(&o)
		p.In.Ops = append(p.In.Ops, o)
	}
	const sid = 2
	if sc != nil {
		step(op{K: "put", P: payload{ID: sid, Addr: "a2", Ver: "4.0.0", Labels: []lab{{"host", "h"}}}})
		if sc.Offline {
			step(op{K: "remove", ID: sid})
		}
		if sc.Buried {
			step(op{K: "check"})
		}
		p.A, p.B, p.ParkIdx = sc.A, sc.B, sc.Park
		w.kb.Arm(nil)
		p.Before = w.snapshot("ROk")
		p.RA, p.RB, p.Mid, p.Overlaid = w.execPair(&p.A, &p.B, sid, p.ParkIdx)
		p.Final = w.snapshot("ROk")
		w.restart()
		p.Reload = w.snapshot("ROk")
		return p
	}
	// bring store 2 into a random lifecycle situation
	step(op{K: "put", P: payload{ID: sid, Addr: "a2", Ver: "4.0.0", Labels: genLabels(r)}})
	if r.Pct(30) {
		step(op{K: "weight", ID: sid, LW: 2, RW: 3})
	}
	withRegion := r.Pct(25)
	if withRegion {
		step(op{K: "region", R: 1, Stores: []uint64{1, sid}})
	}
	switch r.Pick(25, 45, 30) {
	case 1:
		step(op{K: "remove", ID: sid, PD: r.Pct(25)})
	case 2:
		step(op{K: "remove", ID: sid, PD: r.Pct(25)})
		if withRegion {
			step(op{K: "region", R: 1, Stores: []uint64{1}})
		}
		step(op{K: "check"})
	}
	p.A = genPairOp(r, []int{0, 1, 2, 3, 4, 5, 6, 7, 9, 9}[r.Intn(10)], sid, "a2") // 9: the store's heartbeat, parked at its persisting write
	p.B = genPairOp(r, r.Intn(10), sid, "a2")                                      // region and store heartbeats have no (countable) store write to be parked at: only as b
	p.ParkIdx = r.Pick(60, 20, 20)
	w.kb.Arm(nil)
	p.Before = w.snapshot("ROk")
	p.RA, p.RB, p.Mid, p.Overlaid = w.execPair(&p.A, &p.B, sid, p.ParkIdx)
	p.Final = w.snapshot("ROk")
	w.restart()
	p.Reload = w.snapshot("ROk")
	return p
}

// ---------- several failing writes in one operation ----------
type mfail struct {
	Idx  int
	Kind int // 0 not applied, 1 applied but reported failed
}
type multiRec struct {
	In     caseIn
	Op     op // weight | clean (store 2 is the only tombstone then)
	Faults []mfail
	Obs    string
}

func (w *world) runMulti(r *rng.R) multiRec {
	boot := payload{ID: 1, Addr: "a1", Ver: "4.0.0"}
	w.reset("0.0.0", boot, false)
	m := multiRec{In: caseIn{CV: "0.0.0", Boot: boot}}
	step := func(o op) {
		w.exec(&o)
		m.In.Ops = append(m.In.Ops, o)
	}
	const sid = 2
	step(op{K: "put", P: payload{ID: sid, Addr: "a2", Ver: "4.0.0", Labels: genLabels(r)}})
	if r.Pct(50) {
		step(op{K: "weight", ID: sid, LW: 2, RW: 3})
	}
	if r.Pct(45) {
		step(op{K: "remove", ID: sid})
		step(op{K: "check"})
		m.Op = op{K: "clean"}
	} else {
		m.Op = op{K: "weight", ID: sid, LW: int64(4 + r.Intn(3)), RW: int64(7 + r.Intn(2))}
	}
	n := r.Pick(0, 25, 50, 25) // 1..3 failing writes among the first 7 of the operation on this store
	used := map[int]bool{}
	plan := map[string]kvx14.Kind{}
	for len(m.Faults) < n {
		i := r.Intn(7)
		if used[i] {
			continue
		}
		used[i] = true
		k := r.Pick(60, 40)
		m.Faults = append(m.Faults, mfail{i, k})
		plan[kvx14.PlanKey(strconv.Itoa(sid), i)] = []kvx14.Kind{kvx14.FailBefore, kvx14.FailAfter}[k]
	}
	sort.Slice(m.Faults, func(i, j int) bool { return m.Faults[i].Idx < m.Faults[j].Idx })
	w.kb.Arm(plan)
	res := w.call(&m.Op, false)
	w.kb.Arm(nil)
	m.Obs = w.snapshot(res)
	return m
}

func (m multiRec) coq() string {
	ops := make([]string, len(m.In.Ops))
	for i, o := range m.In.Ops {
		ops[i] = o.coq()
	}
	cv, _ := verTriple(m.In.CV)
	fs := make([]string, len(m.Faults))
	for i, f := range m.Faults {
		fs[i] = fmt.Sprintf("(%d%%nat, %s)", f.Idx, []string{"FBefore", "FAfter"}[f.Kind])
	}
	o := "MCleanOne 2%Z"
	if m.Op.K == "weight" {
		o = fmt.Sprintf("MWeight %s %s %s", coqfmt.ZU(m.Op.ID), coqfmt.Z(m.Op.LW), coqfmt.Z(m.Op.RW))
	}
	return "(" + cv + ", " + m.In.Boot.coq() + ",\n  " + coqfmt.List(ops) + ",\n  " + o + ", " + coqfmt.List(fs) + ",\n  " + m.Obs + ")"
}

// ---------- leader changes with more store records than one page of Storage.LoadStores (100) ----------
type fchange struct {
	K      string // state labels delete new
	ID     uint64
	State  int
	PD     bool
	Labels []lab
	P      payload
}
type hstep struct {
	K       string // op | restart | bulk | reelect
	Op      op
	Bulk    []payload
	Foreign []fchange
}

func (c fchange) coq() string {
	switch c.K {
	case "state":
		return fmt.Sprintf("FState %s %s %s", coqfmt.ZU(c.ID), stateCoq[c.State], coqfmt.Bool(c.PD))
	case "labels":
		return fmt.Sprintf("FLabels %s %s", coqfmt.ZU(c.ID), labsCoq(c.Labels))
	case "delete":
		return "FDelete " + coqfmt.ZU(c.ID)
	}
	return "FNew " + c.P.coq()
}

// reelect: this member steps down (its BasicCluster survives), ANOTHER leader changes the storage, this member is elected again
// without a process restart: LoadClusterInfo runs into the non-empty cache of its earlier term
func (w *world) reelect(fs []fchange) {
	w.rc.Stop()
	other := core.NewStorage(w.kb.Inner) // the other leader's own Storage over the same kv
	for _, c := range fs {
		switch c.K {
		case "state", "labels":
			v, err := w.kb.Inner.Load(fmt.Sprintf("raft/s/%020d", c.ID))
			if err != nil || v == "" {
				panic(fmt.Sprint("foreign change of an unknown store ", c.ID, err))
			}
			m := &metapb.Store{}
			if err := m.Unmarshal([]byte(v)); err != nil {
				panic(err)
			}
			if c.K == "state" {
				m.State, m.PhysicallyDestroyed = metapb.StoreState(c.State), c.PD
			} else {
				m.Labels = mkLabels(c.Labels)
			}
			if err := other.SaveStore(m); err != nil {
				panic(err)
			}
		case "delete":
			if err := other.DeleteStore(&metapb.Store{Id: c.ID}); err != nil {
				panic(err)
			}
		case "new":
			if err := other.SaveStore(c.P.store()); err != nil {
				panic(err)
			}
		}
	}
	if err := w.rc.Start(w.s); err != nil {
		panic(err)
	}
}

func (w *world) runReelect(r *rng.R) restartRec {
	boot := payload{ID: 1, Addr: "a1", Ver: "4.0.0"}
	w.reset("0.0.0", boot, false)
	rec := restartRec{In: caseIn{CV: "0.0.0", Boot: boot}}
	rec.Obs = append(rec.Obs, w.snapshot("ROk"))
	opStep := func(o op) {
		rec.Obs = append(rec.Obs, w.exec(&o))
		rec.Steps = append(rec.Steps, hstep{K: "op", Op: o})
	}
	for id := uint64(2); id <= 5; id++ {
		opStep(op{K: "put", P: payload{ID: id, Addr: fmt.Sprintf("a%d", id), Ver: "4.0.0", Labels: genLabels(r)}})
	}
	opStep(op{K: "remove", ID: 5})
	opStep(op{K: "check"}) // store 5 is a tombstone
	opStep(op{K: "remove", ID: 4, PD: r.Pct(50)})
	// every store has sent a heartbeat AFTER the one that was persisted: the cached copy is fresher than the stored one
	for k := 0; k < 2; k++ {
		for id := uint64(1); id <= 4; id++ {
			opStep(op{K: "heartbeat", ID: id})
		}
	}
	fs := []fchange{
		{K: "state", ID: 2, State: 1, PD: r.Pct(50)},            // the other leader took store 2 offline ...
		{K: "state", ID: 4, State: 2, PD: false},                // ... buried store 4 ...
		{K: "labels", ID: 3, Labels: []lab{{"zone", "moved"}}},  // ... relabelled store 3 ...
		{K: "delete", ID: 5},                                    // ... removed the tombstone record of store 5 ...
		{K: "new", P: payload{ID: 7, Addr: "a7", Ver: "4.0.0"}}, // ... and registered store 7
	}
	if r.Pct(50) {
		fs[1].PD = true
	}
	// store 3 holds a region peer (reported to this member in its earlier term: region cache and region storage) and goes offline
	opStep(op{K: "region", R: 1, Stores: []uint64{1, 3}})
	opStep(op{K: "remove", ID: 3})
	w.reelect(fs)
	rec.Obs = append(rec.Obs, w.snapshot("ROk"))
	rec.Steps = append(rec.Steps, hstep{K: "reelect", Foreign: fs})
	opStep(op{K: "check"})                                                        // store 3 still holds its peer: it must not be buried
	opStep(op{K: "heartbeat", ID: 4})                                             // a tombstone now: refused
	opStep(op{K: "put", Grpc: true, P: payload{ID: 4, Addr: "a4", Ver: "4.0.0"}}) // refused
	opStep(op{K: "up", ID: 2})
	opStep(op{K: "put", P: payload{ID: 8, Addr: "a5", Ver: "4.0.0"}}) // store 5 is gone: its address is free
	opStep(op{K: "put", P: payload{ID: 9, Addr: "a7", Ver: "4.0.0"}}) // store 7 exists: clash
	w.restart()
	rec.Obs = append(rec.Obs, w.snapshot("ROk"))
	rec.Steps = append(rec.Steps, hstep{K: "restart"})
	return rec
}

type restartRec struct {
	In    caseIn // boot only
	Steps []hstep
	Obs   []string
}

func (w *world) runRestart(r *rng.R, n int, sparse bool) restartRec {
	boot := payload{ID: 1, Addr: "a1", Ver: "4.0.0"}
	w.reset("0.0.0", boot, false)
	rec := restartRec{In: caseIn{CV: "0.0.0", Boot: boot}}
	rec.Obs = append(rec.Obs, w.snapshot("ROk"))
	opStep := func(o op) {
		rec.Obs = append(rec.Obs, w.exec(&o))
		rec.Steps = append(rec.Steps, hstep{K: "op", Op: o})
	}
	restart := func() {
		w.restart()
		rec.Obs = append(rec.Obs, w.snapshot("ROk"))
		rec.Steps = append(rec.Steps, hstep{K: "restart"})
	}
	// n more store records, ids dense or sparse, every address distinct
	var ids []uint64
	var bulk []payload
	for i := 0; i < n; i++ {
		id := uint64(2 + i)
		if sparse {
			id = uint64(5 + 7*i + r.Intn(5))
		}
		ids = append(ids, id)
		bulk = append(bulk, payload{ID: id, Addr: fmt.Sprintf("s%d", id), Ver: "4.0.0"})
	}
	w.kb.Arm(nil)
	for _, p := range bulk {
		if err := w.rc.PutStore(p.store()); err != nil {
			panic(err)
		}
	}
	rec.Obs = append(rec.Obs, w.snapshot("ROk"))
	rec.Steps = append(rec.Steps, hstep{K: "bulk", Bulk: bulk})
	// lifecycle commands on stores beyond the first page (and a few inside it)
	beyond := func() uint64 { return ids[100+r.Intn(n-100)] }
	inside := func() uint64 { return ids[r.Intn(90)] }
	var tombs, offl []uint64
	for k := 0; k < 3; k++ {
		for _, id := range []uint64{beyond(), inside()} {
			opStep(op{K: "remove", ID: id, PD: r.Pct(30)})
			tombs = append(tombs, id)
		}
	}
	opStep(op{K: "check"}) // buries them (no region peers anywhere)
	for k := 0; k < 2; k++ {
		id := beyond()
		opStep(op{K: "remove", ID: id})
		offl = append(offl, id)
	}
	opStep(op{K: "weight", ID: beyond(), LW: 3, RW: 4})
	opStep(op{K: "labels", ID: beyond(), Labels: []lab{{"zone", "z9"}}})
	restart()
	// a store that is Up and has not sent a heartbeat to this leader yet: no request of the API may bury it
	upOne := beyond()
	for t := 0; t < 50 && (containsID(tombs, upOne) || containsID(offl, upOne)); t++ {
		upOne = beyond()
	}
	opStep(op{K: "routes", ID: upOne})
	// the new leader must know every record: a tombstone stays refused, a live address stays taken, an offline store can come up
	for _, id := range tombs[:3] {
		opStep(op{K: "put", Grpc: true, P: payload{ID: id, Addr: fmt.Sprintf("s%d", id), Ver: "4.0.0"}})
		opStep(op{K: "heartbeat", ID: id})
	}
	live := beyond()
	opStep(op{K: "put", P: payload{ID: ids[n-1] + 11, Addr: fmt.Sprintf("s%d", live), Ver: "4.0.0"}}) // clashes unless `live` was removed above
	opStep(op{K: "up", ID: offl[0]})
	opStep(op{K: "remove", ID: beyond()})
	opStep(op{K: "check"})
	opStep(op{K: "clean"})
	restart()
	opStep(op{K: "put", Grpc: true, P: payload{ID: offl[1], Addr: fmt.Sprintf("s%d", offl[1]), Ver: "4.0.5"}})
	return rec
}

func (rc restartRec) coq() string {
	hs := make([]string, len(rc.Steps))
	for i, st := range rc.Steps {
		switch st.K {
		case "op":
			hs[i] = "HOp (" + st.Op.coq() + ")"
		case "restart":
			hs[i] = "HRestart"
		case "reelect":
			fs := make([]string, len(st.Foreign))
			for j, c := range st.Foreign {
				fs[j] = c.coq()
			}
			hs[i] = "HReelect " + coqfmt.List(fs)
		case "bulk":
			ps := make([]string, len(st.Bulk))
			for j, p := range st.Bulk {
				ps[j] = p.coq()
			}
			hs[i] = "HBulk " + coqfmt.List(ps)
		}
	}
	cv, _ := verTriple(rc.In.CV)
	return "(" + cv + ", " + rc.In.Boot.coq() + ",\n  " + coqfmt.List(hs) + ",\n  " + coqfmt.List(rc.Obs) + ")"
}

func containsID(xs []uint64, x uint64) bool {
	for _, y := range xs {
		if y == x {
			return true
		}
	}
	return false
}

// apiCall sends one request to the real HTTP API of the server and classifies the answer like errRes does for an error value.
func (w *world) apiCall(method, route string) string {
	if w.api == nil {
		h, _, err := api.NewHandler(context.Background(), w.s)
		if err != nil {
			panic(err)
		}
		w.api = h
	}
	rw := httptest.NewRecorder()
	w.api.ServeHTTP(rw, httptest.NewRequest(method, "/pd/api/v1"+route, nil))
	m := rw.Body.String()
	w.R.Count(fmt.Sprintf("api:%s-answered-%d", method, rw.Code))
	switch {
	case rw.Code == http.StatusOK:
		return "ROk"
	case rw.Code == http.StatusNotFound:
		return "RNotFound"
	case rw.Code == http.StatusGone:
		return "RTombstone"
	case strings.Contains(m, "injected storage fault"):
		return "RStorage"
	case strings.Contains(m, "has been physically destroyed"):
		return "RDestroyed"
	case strings.Contains(m, "has been removed"):
		return "RTombstone"
	case strings.Contains(m, "not found"):
		return "RNotFound"
	}
	w.notes["unclassified API answer: "+strconv.Itoa(rw.Code)+" "+m] = true
	return "RBad"
}

// apiCases: request histories on the HTTP layer: the same store is removed twice (plain, then declared physically destroyed while it is
// still offline; and the other way round), brought up in between, removed again after it came up; a replacement registers at its address.
func apiCases() []caseIn {
	boot := payload{ID: 1, Addr: "a1", Ver: "4.0.0"}
	put := func(id uint64, addr string) op { return op{K: "put", P: payload{ID: id, Addr: addr, Ver: "4.0.0"}} }
	rm := func(id uint64, pd bool) op { return op{K: "remove", ID: id, PD: pd, API: true} }
	up := func(id uint64) op { return op{K: "up", ID: id, API: true} }
	var out []caseIn
	for _, id := range []uint64{2, 3} { // even: POST state=Offline, odd: DELETE
		x := fmt.Sprintf("x%d", id)
		out = append(out,
			caseIn{CV: "0.0.0", Boot: boot, Ops: []op{put(id, x), rm(id, false), rm(id, true), up(id), put(id+2, x), rm(id, false), {K: "check"}, up(id), rm(id, true)}},
			caseIn{CV: "0.0.0", Boot: boot, Ops: []op{put(id, x), rm(id, true), rm(id, false), up(id), put(id+2, x), {K: "heartbeat", ID: id}}},
			caseIn{CV: "0.0.0", Boot: boot, Ops: []op{put(id, x), up(id), rm(id, false), up(id), up(id), rm(id, false), rm(id, false), put(id+2, x), rm(id, true), put(id+2, x), up(9), rm(9, true)}})
	}
	return out
}

// the per-store routes the operations of the model stand for (server/api/router.go)
var modelledStoreRoutes = map[string]bool{
	"DELETE /store/{id}": true, "POST /store/{id}/state": true, "POST /store/{id}/label": true,
	"POST /store/{id}/weight": true, "POST /store/{id}/limit": true,
}

var routeRe = regexp.MustCompile(`HandleFunc\("(/store/\{id\}[^"]*)",[^\n]*\.Methods\(([^)]*)\)`)

// unknownStoreRoutes reads the route table of the code under test (router.go next to api.NewHandler) and sends a request - plain, with
// ?force, and with ?force=true - to every writing route under /store/{id} the model has no operation for.
func (w *world) unknownStoreRoutes(id uint64) {
	file, _ := runtime.FuncForPC(reflect.ValueOf(api.NewHandler).Pointer()).FileLine(reflect.ValueOf(api.NewHandler).Pointer())
	b, err := os.ReadFile(filepath.Join(filepath.Dir(file), "router.go"))
	if err != nil {
		w.R.Count("routes:router.go-not-readable")
		return
	}
	if w.api == nil {
		h, _, err := api.NewHandler(context.Background(), w.s)
		if err != nil {
			panic(err)
		}
		w.api = h
	}
	n := 0
	for _, m := range routeRe.FindAllStringSubmatch(string(b), -1) {
		for _, meth := range strings.Split(m[2], ",") {
			meth = strings.Trim(strings.TrimSpace(meth), `"`)
			if meth == "GET" || modelledStoreRoutes[meth+" "+m[1]] {
				continue
			}
			n++
			for _, q := range []string{"", "?force", "?force=true"} {
				u := "/pd/api/v1" + strings.Replace(m[1], "{id}", strconv.FormatUint(id, 10), 1) + q
				req := httptest.NewRequest(meth, u, strings.NewReader("{}"))
				rw := httptest.NewRecorder()
				w.api.ServeHTTP(rw, req)
				w.R.Count(fmt.Sprintf("routes:unmodelled-store-route-answered-%d", rw.Code/100*100))
			}
		}
	}
	if n == 0 {
		w.R.Count("routes:every-writing-store-route-is-modelled")
	}
}

// restart: a new leader on the same storage: the cluster is stopped, the cache emptied, and LoadClusterInfo runs again
func (w *world) restart() {
	w.rc.Stop()
	bc := w.s.GetBasicCluster()
	for _, r := range bc.GetRegions() {
		bc.RemoveRegion(r)
	}
	for _, st := range bc.GetStores() {
		bc.DeleteStore(st)
	}
	if err := w.rc.Start(w.s); err != nil {
		panic(err)
	}
}

// addressReuseCases: store 2 gives its address up (physically destroyed, or removed and buried), a replacement registers there, the
// record of store 2 is written or removed once more (burial, weight change, label update, heartbeat, tombstone cleanup), and a THIRD
// store then announces the same address: it must clash with the replacement, whatever happened to the old record in between
func addressReuseCases() []caseIn {
	boot := payload{ID: 1, Addr: "a1", Ver: "4.0.0"}
	put := func(id uint64, addr string) op { return op{K: "put", P: payload{ID: id, Addr: addr, Ver: "4.0.0"}} }
	var out []caseIn
	for _, destroyed := range []bool{true, false} {
		giveUp := []op{put(2, "x"), {K: "remove", ID: 2, PD: destroyed}}
		if !destroyed {
			giveUp = append(giveUp, op{K: "check"}) // buried: a tombstone does not occupy its address
		}
		var touches [][]op
		if destroyed {
			touches = [][]op{
				{{K: "check"}}, // the background check buries the destroyed store
				{{K: "weight", ID: 2, LW: 2, RW: 3}},
				{{K: "labels", ID: 2, Labels: []lab{{"zone", "z"}}, Force: true}},
				{{K: "heartbeat", ID: 2}},
				{{K: "check"}, {K: "clean"}},
			}
		} else {
			touches = [][]op{
				{{K: "clean"}},
				{{K: "weight", ID: 2, LW: 2, RW: 3}},
			}
		}
		for _, t := range touches {
			ops := append([]op{}, giveUp...)
			ops = append(ops, put(3, "x")) // the replacement takes the address
			ops = append(ops, t...)
			ops = append(ops, put(4, "x"), op{K: "put", Grpc: true, P: payload{ID: 5, Addr: "x", Ver: "4.0.0"}}) // must clash with store 3
			ops = append(ops, op{K: "heartbeat", ID: 3}, put(6, "x"))
			out = append(out, caseIn{CV: "0.0.0", Boot: boot, Ops: ops})
		}
	}
	return out
}

// jointStateCases: the offline store's remaining peer is a voter being demoted in a joint state (or a learner): it still holds the peer and
// must not be buried
func jointStateCases() []caseIn {
	boot := payload{ID: 1, Addr: "a1", Ver: "4.0.0"}
	put := func(id uint64) op {
		return op{K: "put", P: payload{ID: id, Addr: fmt.Sprintf("a%d", id), Ver: "4.0.0"}}
	}
	var out []caseIn
	for _, role := range []int{3, 1, 2} {
		out = append(out, caseIn{CV: "0.0.0", Boot: boot, Ops: []op{put(2), put(3),
			{K: "region", R: 1, Stores: []uint64{1, 2}},
			{K: "remove", ID: 2},
			{K: "check"},
			{K: "region", R: 1, Stores: []uint64{1, 2, 3}, Roles: []int{0, role, 2}}, // enter joint: store 2 is being demoted, store 3 comes in
			{K: "check"}, {K: "check"},
			{K: "region", R: 1, Stores: []uint64{1, 3}}, // leave joint: store 2 is empty now
			{K: "check"}}})
	}
	return out
}

// ---------- the end of a term with a slow storage ----------
type stopRec struct {
	Via          string
	Materialised bool
	StopEarly    bool
	Final        string
	Log          []string
}

// runStopScenario: RemoveStore(2) is still in its second write (the store limit in the config key, under the cluster lock) when the member
// loses the leadership (Stop queues for the lock) and the background tick of the term arrives (checkStores sees store 2 offline and empty,
// buryStore queues behind Stop).  The config write completes; Stop closes the term and waits for its goroutines; buryStore writes the
// Tombstone record - slowly.  Stop must not return before that write is done; if it does, another member's term brings the store up and the
// stale write lands afterwards.
func (w *world) runStopScenario() stopRec {
	rec := stopRec{Via: "stop-with-slow-bury"}
	say := func(f string, a ...interface{}) { rec.Log = append(rec.Log, fmt.Sprintf(f, a...)) }
	iv := cluster.VerifC14BackgroundJobInterval()
	old := *iv
	*iv = 300 * time.Millisecond // the background jobs of THIS term tick for real
	w.reset("0.0.0", payload{ID: 1, Addr: "a1", Ver: "4.0.0"}, false)
	*iv = old
	put := op{K: "put", P: payload{ID: 2, Addr: "a2", Ver: "4.0.0"}}
	w.exec(&put)
	w.kb.Arm(nil)
	cfgPark := w.kb.AddPark("", "config")               // RemoveStore's store-limit write
	buryPark := w.kb.AddPark(kvx14.PlanKey("2", 1), "") // the 2nd record write of store 2 from here on: the Tombstone of the background bury
	doneRemove := make(chan error, 1)
	go func() { doneRemove <- w.rc.RemoveStore(2, false) }()
	select {
	case <-cfgPark.Parked:
	case <-time.After(5 * time.Second):
		say("RemoveStore did not reach its config write")
		cfgPark.Release()
		buryPark.Release()
		<-doneRemove
		w.kb.Arm(nil)
		rec.Final = w.snapshot("ROk")
		return rec
	}
	stopDone := make(chan struct{})
	go func() { w.rc.Stop(); close(stopDone) }()
	time.Sleep(700 * time.Millisecond) // at least one tick: buryStore(2) is queued for the cluster lock behind Stop
	cfgPark.Release()
	select {
	case <-buryPark.Parked:
		rec.Materialised = true
		say("the background check of the stopped term is inside its Tombstone write of store 2")
	case <-time.After(3 * time.Second):
		say("the background check did not reach the Tombstone write (it ran before Stop or not at all)")
	}
	if rec.Materialised {
		select {
		case <-stopDone:
			rec.StopEarly = true
			say("Stop returned while that write was still in flight")
			// another member's term: it loads store 2 as Offline and brings it up
			other := core.NewStorage(w.kb.Inner)
			m := &metapb.Store{Id: 2, Address: "a2", Version: "4.0.0", State: metapb.StoreState_Up}
			if err := other.SaveStore(m); err != nil {
				panic(err)
			}
			say("the next term (another member) brought store 2 up: stored Up")
		case <-time.After(3600 * time.Millisecond):
			say("Stop is still waiting for the term's goroutines after 3.6 s")
		}
	}
	buryPark.Release()
	<-stopDone
	<-doneRemove
	time.Sleep(500 * time.Millisecond) // the stale write lands, the term's last goroutine exits
	w.kb.Arm(nil)
	w.restart()
	rec.Final = w.snapshot("ROk")
	return rec
}

func (p pairRec) coq() string {
	ops := make([]string, len(p.In.Ops))
	for i, o := range p.In.Ops {
		ops[i] = o.coq()
	}
	cv, _ := verTriple(p.In.CV)
	mid := "None"
	if p.Mid != "" {
		mid = "(Some " + p.Mid + ")"
	}
	rel := "None"
	if p.Reload != "" {
		rel = "(Some " + p.Reload + ")"
	}
	return "(" + cv + ", " + p.In.Boot.coq() + ",\n  " + coqfmt.List(ops) + ",\n  " + p.A.coq() + ",\n  " + p.B.coq() +
		",\n  (OObs " + p.RA + " " + p.RB + "\n   " + p.Before + "\n   " + mid + "\n   " + p.Final + "\n   " + rel + "))"
}

// ---------- generation ----------
var (
	addrs    = []string{"a1", "a2", "a3", "a4", "a5"}
	versions = []string{"4.0.0", "4.0.5", "4.1.0", "5.0.0", "3.0.9"}
	lkeys    = []string{"zone", "Zone", "host", "rack", "HOST"}
	lvals    = []string{"", "x", "y", "z"}
)

func genLabels(r *rng.R) []lab {
	n := r.Pick(35, 30, 20, 10, 5)
	out := make([]lab, 0, n)
	for i := 0; i < n; i++ {
		v := lvals[r.Intn(len(lvals))]
		if r.Pct(60) && v == "" {
			v = "w"
		}
		out = append(out, lab{lkeys[r.Intn(len(lkeys))], v})
	}
	return out
}

// shadow of what the harness believes exists, only used to steer generation (never as an oracle)
type shadow struct {
	state map[uint64]int // 0 up 1 offline 2 tomb
	pd    map[uint64]bool
	addr  map[uint64]string
}

func (sh *shadow) ids() []uint64 {
	var out []uint64
	for id := range sh.state {
		out = append(out, id)
	}
	sort.Slice(out, func(i, j int) bool { return out[i] < out[j] })
	return out
}

func (w *world) refreshShadow(sh *shadow) {
	sh.state, sh.pd, sh.addr = map[uint64]int{}, map[uint64]bool{}, map[uint64]string{}
	for _, s := range w.rc.GetStores() {
		sh.state[s.GetID()] = int(s.GetState())
		sh.pd[s.GetID()] = s.IsPhysicallyDestroyed()
		sh.addr[s.GetID()] = s.GetAddress()
	}
}

func pickID(r *rng.R, sh *shadow, want func(id uint64) bool) uint64 {
	var c []uint64
	for _, id := range sh.ids() {
		if want == nil || want(id) {
			c = append(c, id)
		}
	}
	if len(c) == 0 || r.Pct(8) {
		return uint64(1 + r.Intn(6)) // possibly unknown
	}
	return c[r.Intn(len(c))]
}

func genFault(r *rng.R, sid uint64, maxIdx int, pct int) fault {
	if !r.Pct(pct) {
		return fault{}
	}
	return fault{On: true, SID: sid, Idx: r.Intn(maxIdx), Kind: r.Pick(70, 30)}
}

func gen(r *rng.R, sh *shadow, malformed bool) op {
	fp := 14
	if r.Pct(5) { // the replication settings change: strict label matching, placement rules off (TiFlash guard)
		var loc []string
		for _, k := range []string{"zone", "host"} {
			if r.Pct(50) {
				loc = append(loc, k)
			}
		}
		return op{K: "setenv", Loc: loc, Strict: r.Pct(60), PR: r.Pct(55)}
	}
	switch r.Pick(24, 8, 14, 8, 4, 12, 7, 6, 7, 10) {
	case 0: // put
		p := payload{ID: uint64(1 + r.Intn(5)), Ver: versions[r.Pick(40, 25, 15, 10, 10)], Labels: genLabels(r)}
		if a, ok := sh.addr[p.ID]; ok && r.Pct(75) {
			p.Addr = a // re-registration of a known store at its own address
		} else if r.Pct(70) {
			p.Addr = addrs[p.ID-1]
		} else {
			p.Addr = addrs[r.Intn(len(addrs))] // likely a clash
		}
		if r.Pct(10) {
			p.State = r.Intn(3)
			p.PD = r.Pct(30)
		}
		if malformed {
			switch r.Intn(5) {
			case 0:
				p.ID = 0
			case 1:
				p.Ver = "not-a-version"
			case 2:
				p.Addr = ""
			case 3:
				p.Ver = "1.0.0"
			case 4:
				p.State, p.PD = 2, true
			}
		}
		if r.Pct(12) {
			p.Labels = append(p.Labels, lab{"engine", "tiflash"})
		}
		if r.Pct(15) && p.Addr != "" {
			// another spelling of an address (case, surrounding blanks): a DIFFERENT address as far as PD is concerned; if the
			// code canonicalises addresses it has to do so before the duplicate-address check
			switch r.Intn(3) {
			case 0:
				p.Addr = strings.ToUpper(p.Addr)
			case 1:
				p.Addr = p.Addr + " "
			default:
				p.Addr = " " + strings.ToUpper(p.Addr[:1]) + p.Addr[1:]
			}
		}
		return op{K: "put", Grpc: r.Pct(50), P: p, F: genFault(r, p.ID, 1, fp+6)}
	case 1:
		id := pickID(r, sh, nil)
		return op{K: "labels", ID: id, Labels: genLabels(r), Force: r.Pct(30), F: genFault(r, id, 1, fp+6)}
	case 2:
		id := pickID(r, sh, func(id uint64) bool { return sh.state[id] != 2 })
		o := op{K: "remove", ID: id, PD: r.Pct(25), API: r.Pct(35), F: genFault(r, id, 1, fp)}
		o.CfgFault = !o.F.On && r.Pct(20)
		return o
	case 3:
		id := pickID(r, sh, func(id uint64) bool { return sh.state[id] == 1 })
		return op{K: "up", ID: id, API: r.Pct(35), F: genFault(r, id, 1, fp)}
	case 4:
		id := pickID(r, sh, func(id uint64) bool { return sh.state[id] != 2 })
		return op{K: "bury", ID: id, F: genFault(r, id, 1, fp)}
	case 5:
		return op{K: "check", F: genFault(r, pickID(r, sh, func(id uint64) bool { return sh.state[id] == 1 }), 1, fp)}
	case 6:
		id := pickID(r, sh, nil)
		return op{K: "weight", ID: id, LW: int64(r.Intn(5)), RW: int64(r.Intn(5)), F: genFault(r, id, 3, fp+16)}
	case 7:
		return op{K: "clean", F: genFault(r, pickID(r, sh, func(id uint64) bool { return sh.state[id] == 2 }), 3, fp+10)}
	case 8:
		id := pickID(r, sh, nil)
		return op{K: "heartbeat", ID: id, F: genFault(r, id, 1, fp)}
	default:
		n := 1 + r.Intn(3)
		seen := map[uint64]bool{}
		var st []uint64
		for len(st) < n {
			id := uint64(1 + r.Intn(5))
			if !seen[id] {
				seen[id] = true
				st = append(st, id)
			}
		}
		o := op{K: "region", R: uint64(1 + r.Intn(3)), Stores: st}
		if r.Pct(35) {
			o.Roles = make([]int, len(st))
			for i := 1; i < len(st); i++ {
				o.Roles[i] = r.Intn(4) // learner / incoming voter / demoting voter: a peer the store holds all the same
			}
		}
		return o
	}
}

func (w *world) runCase(in caseIn, r *rng.R, nops int, malformed bool, useEtcd bool) caseRec {
	w.reset(in.CV, in.Boot, useEtcd)
	c := caseRec{In: in}
	w.kb.Arm(nil)
	c.Obs = append(c.Obs, w.snapshot("ROk"))
	dead := false
	step := func(o op) {
		if dead {
			return // the process panicked: the case ends here
		}
		ob := w.exec(&o)
		c.In.Ops = append(c.In.Ops, o)
		c.Obs = append(c.Obs, ob)
		w.goSide(w.R, &c, o, strings.Fields(strings.TrimPrefix(ob, "(Obs "))[0])
		if strings.HasPrefix(ob, "(Obs RPanic") {
			dead = true
		}
	}
	if r == nil {
		fixed := in.Ops
		c.In.Ops = nil
		for _, o := range fixed {
			step(o)
		}
		return c
	}
	sh := &shadow{}
	for k := 0; k < nops; k++ {
		w.refreshShadow(sh)
		step(gen(r, sh, malformed && r.Pct(35)))
	}
	return c
}

func (c caseRec) coq() string {
	ops := make([]string, len(c.In.Ops))
	for i, o := range c.In.Ops {
		ops[i] = o.coq()
	}
	cv, _ := verTriple(c.In.CV)
	return "(" + cv + ", " + c.In.Boot.coq() + ",\n  " + coqfmt.List(ops) + ",\n  " + coqfmt.List(c.Obs) + ")"
}

func main() {
	seed := flag.Uint64("seed", 1, "")
	n := flag.Int("n", 200, "number of generated cases")
	out := flag.String("out", ".", "output directory")
	tier := flag.String("tier", "quick", "")
	corpus := flag.String("corpus", "", "json file of fixed cases run first")
	replay := flag.String("replay", "", "json file with cases (or an evidence replay file): run and print observations")
	npairs := flag.Int("pairs", 80, "number of overlapping-operation cases")
	stopCase := flag.Bool("stop", true, "the end of a term with a slow storage: Stop while the background check is inside its Tombstone write (about 5 s)")
	nrestart := flag.Int("restarts", 6, "number of leader-change cases with more store records than one LoadStores page (130 / 230, dense / sparse ids)")
	nmulti := flag.Int("multi", 60, "number of cases with several failing writes in one operation (restoring writes included)")
	flag.Parse()

	w, err := newWorld()
	if err != nil {
		fmt.Fprintln(os.Stderr, "server:", err)
		os.Exit(2)
	}
	defer w.x.Close()

	R := res.New("C14", *seed, *tier)
	w.R = R
	R.Rule = "histories of put-store (new / same id / same address, direct and through the gRPC handler), label updates, remove (with/without " +
		"physically-destroyed), up, bury (hook), check-stores (hook), set-weight, tombstone cleanup, store heartbeats and region placements on the REAL " +
		"RaftCluster of a real bootstrapped server, with a storage fault (not applied / applied-but-error) at a chosen write of a chosen store; " +
		"every 8th case runs on the server's own etcd-backed kv.Base, the others on kv.NewMemoryKV under the same wrapper; a malformed stream " +
		"(id 0, unparseable / incompatible version, empty or clashing address, tombstone payloads) is mixed into every 4th case; non-trivial = at " +
		"least one lifecycle transition and at least one rejected or faulted operation; plus an overlapping-operations class: for pairs among " +
		"{SetStoreWeight, UpdateStoreLabels, PutStore, RemoveStore, UpStore, buryStore, checkStores, RemoveTombStoneRecords} on one store in a random " +
		"lifecycle situation, the first is parked at its 1st/2nd/3rd storage write of that store (KV wrapper) while the second is started, and the " +
		"outcome must be that of one of the two sequential orders; distinct by sha256 of the canonical case text; Further classes (see notes/C14.md): replication settings changed in the history (strict labels, TiFlash guard), peer roles in region heartbeats, fixed address-re-use and joint-state cases; overlapping pairs of operations with the first parked at one of its storage writes and a reload afterwards; several failing writes in one operation; leader changes with more store records than one LoadStores page, re-election into a non-empty cache after another leader changed the storage; the end of a term with a slow storage"
	cf := &coqfmt.CaseFile{Dir: *out, Prefix: "C14", PerFile: 25,
		Header: "From Coq Require Import String.\nFrom PDV Require Import lib.Base model.C14_Store.\nLocal Open Scope string_scope.\nLocal Open Scope Z_scope.\n",
		Type:   "case",
		Footer: "Definition M := Eval vm_compute in map fst (mismatches cases).\nDefinition D := Eval vm_compute in hd_error (mismatches cases).\nDefinition V := Eval vm_compute in monitor_fails cases.\nPrint M. Print D. Print V.\n"}

	var fixed []caseIn
	for _, f := range []string{*corpus, *replay} {
		if f == "" {
			continue
		}
		b, err := os.ReadFile(f)
		if err != nil {
			panic(err)
		}
		var l []caseIn
		if err := json.Unmarshal(b, &l); err != nil {
			// an evidence replay file: {"replay": {"In": {...}}}
			var ev struct {
				Replay struct{ In caseIn }
			}
			if err2 := json.Unmarshal(b, &ev); err2 != nil || ev.Replay.In.CV == "" {
				panic(err)
			}
			l = []caseIn{ev.Replay.In}
		}
		fixed = append(fixed, l...)
	}
	if *replay == "" {
		fixed = append(fixed, addressReuseCases()...)
		fixed = append(fixed, jointStateCases()...)
		fixed = append(fixed, apiCases()...)
	}
	var all []caseRec
	emit := func(c caseRec) {
		trans, rejected := 0, 0
		prevState := map[string]string{}
		for i, o := range c.In.Ops {
			R.Count("op:" + o.K)
			if o.F.On {
				R.Count(fmt.Sprintf("fault:%s:%s", o.K, []string{"before", "after"}[o.F.Kind]))
			}
			ob := c.Obs[i+1]
			rs := strings.Fields(strings.TrimPrefix(ob, "(Obs "))[0]
			R.Count("res:" + rs)
			if rs != "ROk" && rs != "RNone" || o.F.On {
				rejected++
			}
			_ = prevState
		}
		// lifecycle transitions, read off consecutive served snapshots
		for i := 1; i < len(c.Obs); i++ {
			for _, st := range []string{"Offline", "Tombstone"} {
				if strings.Count(servedPart(c.Obs[i]), " "+st+" ") > strings.Count(servedPart(c.Obs[i-1]), " "+st+" ") {
					trans++
					R.Count("transition-to:" + st)
				}
			}
		}
		R.Count(fmt.Sprintf("stores-at-end:%d", strings.Count(servedPart(c.Obs[len(c.Obs)-1]), "(View")))
		txt := c.coq()
		R.Case(txt, trans > 0 && rejected > 0)
		R.Sample(map[string]interface{}{"in": c.In})
		if err := cf.Add(txt); err != nil {
			panic(err)
		}
		all = append(all, c)
	}
	for _, f := range fixed {
		emit(w.runCase(f, nil, 0, false, false))
		R.Count("stream:corpus")
	}
	if *replay != "" {
		for _, c := range all {
			fmt.Println("boot", c.In.CV, c.In.Boot.coq(), "->", c.Obs[0])
			for i, o := range c.In.Ops {
				fmt.Printf("%s\n   -> %s\n", o.coq(), c.Obs[i+1])
			}
		}
	} else {
		master := rng.New(*seed)
		for k := 0; k < *n; k++ {
			r := master.Fork(uint64(k))
			in := caseIn{CV: []string{"0.0.0", "4.0.0", "4.0.5"}[r.Pick(50, 35, 15)],
				Boot: payload{ID: 1, Addr: "a1", Ver: versions[r.Pick(60, 30, 10)], Labels: genLabels(r)}}
			useEtcd := k%8 == 7
			mal := k%4 == 3
			if useEtcd {
				R.Count("stream:etcd-backed")
			} else {
				R.Count("stream:memory-backed")
			}
			if mal {
				R.Count("stream:malformed-mixed")
			}
			emit(w.runCase(in, r, 12+r.Intn(30), mal, useEtcd))
		}
	}
	if err := cf.Flush(); err != nil {
		panic(err)
	}
	R.CaseFiles = cf.Files
	// ---- overlapping operations: a parked at one of its storage writes, b started meanwhile
	var raw []interface{}
	for _, c := range all {
		raw = append(raw, c)
	}
	if *replay == "" && *npairs > 0 {
		for len(raw)%cf.PerFile != 0 { // keep bin/check's (file, index) -> cases.json arithmetic valid across the two kinds of file
			raw = append(raw, nil)
		}
		of := &coqfmt.CaseFile{Dir: *out, Prefix: "C14o", PerFile: cf.PerFile,
			Header: cf.Header, Type: "ocase",
			Footer: "Definition M := Eval vm_compute in (@nil nat).\nDefinition D := Eval vm_compute in explain_o cases.\nDefinition V := Eval vm_compute in monitor_o_fails cases.\nPrint M. Print D. Print V.\n"}
		master := rng.New(*seed ^ 0x5eed0c14)
		for k := 0; k < *npairs+len(pairScripts)+1; k++ {
			var p pairRec
			if k == len(pairScripts) {
				p = w.runBuryRace()
				R.Count("pair-stream:scripted")
				R.Count("bury-race:" + w.buryRace)
			} else if k < len(pairScripts) {
				p = w.runPairWith(master.Fork(uint64(k)), &pairScripts[k])
				R.Count("pair-stream:scripted")
			} else {
				p = w.runPair(master.Fork(uint64(k)))
			}
			mode := "serialised-by-lock"
			if p.Overlaid {
				mode = "b-completed-while-a-parked"
			} else if p.Mid == "" && p.RA != "" && !strings.Contains(p.Final, "View") {
				mode = "serialised-by-lock"
			}
			R.Count("pair:" + p.A.K + "|" + p.B.K)
			R.Count("pair-mode:" + mode)
			R.Count(fmt.Sprintf("pair-park-write:%d", p.ParkIdx))
			txt := p.coq()
			R.Case(txt, true)
			if err := of.Add(txt); err != nil {
				panic(err)
			}
			raw = append(raw, p)
		}
		if err := of.Flush(); err != nil {
			panic(err)
		}
		R.CaseFiles = append(R.CaseFiles, of.Files...)
	}
	if *replay == "" && *nmulti > 0 {
		for len(raw)%cf.PerFile != 0 {
			raw = append(raw, nil)
		}
		mf := &coqfmt.CaseFile{Dir: *out, Prefix: "C14p", PerFile: cf.PerFile,
			Header: cf.Header, Type: "mcase",
			Footer: "Definition M := Eval vm_compute in mmismatches cases.\nDefinition D := Eval vm_compute in (@nil nat).\nDefinition V := Eval vm_compute in monitor_m_fails cases.\nPrint M. Print D. Print V.\n"}
		master := rng.New(*seed ^ 0x3f17c14)
		for k := 0; k < *nmulti; k++ {
			m := w.runMulti(master.Fork(uint64(k)))
			R.Count(fmt.Sprintf("multi-fault:%s:%d-failing-writes", m.Op.K, len(m.Faults)))
			txt := m.coq()
			R.Case(txt, true)
			if err := mf.Add(txt); err != nil {
				panic(err)
			}
			raw = append(raw, m)
		}
		if err := mf.Flush(); err != nil {
			panic(err)
		}
		R.CaseFiles = append(R.CaseFiles, mf.Files...)
	}
	if *replay == "" && *stopCase {
		for len(raw)%cf.PerFile != 0 {
			raw = append(raw, nil)
		}
		tf := &coqfmt.CaseFile{Dir: *out, Prefix: "C14q", PerFile: cf.PerFile,
			Header: cf.Header, Type: "tcase",
			Footer: "Definition M := Eval vm_compute in (@nil nat).\nDefinition D := Eval vm_compute in (@nil nat).\nDefinition V := Eval vm_compute in monitor_t_fails cases.\nPrint M. Print D. Print V.\n"}
		sr := w.runStopScenario()
		R.Count(fmt.Sprintf("stop-with-slow-bury:materialised=%v", sr.Materialised))
		txt := "(" + coqfmt.Bool(sr.Materialised) + ", " + coqfmt.Bool(sr.StopEarly) + ",\n  " + sr.Final + ")"
		R.Case(txt, true)
		if err := tf.Add(txt); err != nil {
			panic(err)
		}
		if err := tf.Flush(); err != nil {
			panic(err)
		}
		raw = append(raw, sr)
		R.CaseFiles = append(R.CaseFiles, tf.Files...)
	}
	if *replay == "" && *nrestart > 0 {
		for len(raw)%cf.PerFile != 0 {
			raw = append(raw, nil)
		}
		rf := &coqfmt.CaseFile{Dir: *out, Prefix: "C14r", PerFile: cf.PerFile,
			Header: cf.Header, Type: "rcase",
			Footer: "Definition M := Eval vm_compute in rmismatches cases.\nDefinition D := Eval vm_compute in (@nil nat).\nDefinition V := Eval vm_compute in monitor_r_fails cases.\nPrint M. Print D. Print V.\n"}
		master := rng.New(*seed ^ 0x7e57a27)
		for k := 0; k < *nrestart; k++ {
			n := []int{130, 230}[(k/2)%2]
			sparse := k%2 == 1
			var rc restartRec
			if k%5 == 4 || *nrestart-k <= 2 {
				rc = w.runReelect(master.Fork(uint64(k)))
				R.Count("restart-class:re-election-into-a-non-empty-cache")
			} else {
				rc = w.runRestart(master.Fork(uint64(k)), n, sparse)
				R.Count(fmt.Sprintf("restart-class:%d-records:%s", n+1, map[bool]string{true: "sparse-ids", false: "dense-ids"}[sparse]))
			}
			txt := rc.coq()
			R.Case(txt, true)
			if err := rf.Add(txt); err != nil {
				panic(err)
			}
			raw = append(raw, rc)
		}
		if err := rf.Flush(); err != nil {
			panic(err)
		}
		R.CaseFiles = append(R.CaseFiles, rf.Files...)
	}
	for k := range w.notes {
		R.Notes = append(R.Notes, k)
	}
	sort.Strings(R.Notes)
	b, _ := json.Marshal(raw)
	os.WriteFile(path.Join(*out, "cases.json"), b, 0o644)
	if err := R.Write(path.Join(*out, "result.json")); err != nil {
		panic(err)
	}
}

func servedPart(ob string) string {
	lines := strings.Split(ob, "\n")
	if len(lines) >= 2 {
		return lines[1]
	}
	return ob
}
