package main

import (
	"context"
	"fmt"
	"sort"
	"sync"
	"sync/atomic"
	"time"

	"github.com/pingcap/kvproto/pkg/pdpb"
	"github.com/tikv/pd/pkg/grpcutil"
	"google.golang.org/grpc"
	"google.golang.org/grpc/metadata"

	"pdverif/internal/pdcluster"
	"pdverif/internal/res"
)

// forwardPhase: the RPC layer above the allocators (server/grpc_service.go Tso). Two real members; clients keep Tso
// streams open to BOTH of them, some direct, some asking the member they talk to to forward the stream to the other
// one (metadata pd-forwarded-host, the follower-forwarding path of the client library), with several requests of
// different counts on every stream, while the PD leadership is handed over and back. Whatever path an answer took:
//   - it answers the request it is delivered for (Count echoes the request's count),
//   - the ranges of all answers (count consecutive values ending at the returned one) are pairwise disjoint,
//   - on one stream the answers increase (each request is sent after the previous answer arrived).
//
// Runs in the background; returns the function that enters its findings into the result.
func forwardPhase(prop string) func(R *res.Result) {
	type viol struct {
		sig, desc string
		data      interface{}
	}
	var vmu sync.Mutex
	var viols []viol
	var notes []string
	counts := map[string]int{}
	addViol := func(sig, desc string, data interface{}) {
		vmu.Lock()
		defer vmu.Unlock()
		for _, v := range viols {
			if v.sig == sig {
				return
			}
		}
		viols = append(viols, viol{sig, desc, data})
	}
	done := func(R *res.Result) {
		for _, v := range viols {
			R.Violate(v.sig, v.desc, v.data)
		}
		R.Notes = append(R.Notes, notes...)
		for k, n := range counts {
			R.CountN(k, n)
		}
	}
	c, err := pdcluster.Start(2, nil)
	if err != nil {
		notes = append(notes, "forwarding phase skipped: "+err.Error())
		return done
	}
	defer c.Close()
	if c.WaitLeader(60*time.Second) == nil {
		notes = append(notes, "forwarding phase skipped: no PD leader after 60 s")
		return done
	}
	type ans struct {
		p, lo, hi int64
		via       string
	}
	var amu sync.Mutex
	var all []ans
	var stop int32
	var wg sync.WaitGroup
	conns := make([]*grpc.ClientConn, 2)
	for i, x := range c.Nodes {
		ctx, cancel := context.WithTimeout(context.Background(), 10*time.Second)
		cc, err := grpcutil.GetClientConn(ctx, x.Cfg.ClientUrls, nil)
		cancel()
		if err != nil {
			notes = append(notes, "forwarding phase skipped: "+err.Error())
			return done
		}
		defer cc.Close()
		conns[i] = cc
	}
	clusterID := c.Nodes[0].S.ClusterID()
	// caller g talks to member g%2; callers 0..11 ask it to forward to the other member (six streams per member: whatever
	// the member shares between forwarded streams is shared by six), 12 and 13 talk directly, 14 and 15 name the member
	// itself as forwarded host (a local request by isLocalRequest)
	for g := 0; g < 16; g++ {
		wg.Add(1)
		go func(g int) {
			defer wg.Done()
			to := g % 2
			target := ""
			kind := "direct"
			switch {
			case g < 12:
				target, kind = c.Nodes[1-to].Cfg.ClientUrls, "forwarded"
			case g >= 14:
				target, kind = c.Nodes[to].Cfg.ClientUrls, "own-address"
			}
			via := fmt.Sprintf("%s via member %d", kind, to+1)
			k := 0
			for atomic.LoadInt32(&stop) == 0 {
				ctx, cancel := context.WithCancel(context.Background())
				if target != "" {
					ctx = metadata.NewOutgoingContext(ctx, metadata.Pairs(grpcutil.ForwardMetadataKey, target))
				}
				st, err := pdpb.NewPDClient(conns[to]).Tso(ctx)
				if err != nil {
					cancel()
					time.Sleep(20 * time.Millisecond)
					continue
				}
				var last *ans
				for atomic.LoadInt32(&stop) == 0 {
					k++
					cnt := uint32(1 + (g*7+k*3)%23)
					switch { // unusual but legal counts: the logical part holds 2^18 values per millisecond
					case k%50 == 0:
						cnt = 2000
					case k%333 == 7:
						cnt = 70000 + uint32(g)*4001
					case k%1001 == 11:
						cnt = 1<<18 - 1 - uint32(g)
					}
					if err := st.Send(&pdpb.TsoRequest{Header: &pdpb.RequestHeader{ClusterId: clusterID}, Count: cnt, DcLocation: "global"}); err != nil {
						break
					}
					resp, err := st.Recv()
					if err != nil {
						break
					}
					ts := resp.GetTimestamp()
					if resp.GetCount() != cnt {
						addViol(prop+":answer-for-another-request:tso-stream",
							fmt.Sprintf("Tso stream (%s): a request for %d timestamps was answered with count %d, timestamp (%d,%d)", via, cnt, resp.GetCount(), ts.GetPhysical(), ts.GetLogical()),
							map[string]interface{}{"via": via, "asked": cnt, "answered_count": resp.GetCount()})
					}
					a := ans{ts.GetPhysical(), ts.GetLogical() - int64(cnt) + 1, ts.GetLogical(), via}
					if a.lo <= 0 {
						addViol(prop+":range-below-first-logical:tso-stream",
							fmt.Sprintf("Tso stream (%s): the answer (%d,%d) to a request for %d timestamps owns values that do not exist (logical %d)", via, a.p, a.hi, cnt, a.lo),
							map[string]interface{}{"via": via, "physical": a.p, "logical": a.hi, "count": cnt})
					}
					if last != nil && (a.p < last.p || a.p == last.p && a.lo <= last.hi) {
						addViol(prop+":timestamp-went-back:on-one-tso-stream",
							fmt.Sprintf("Tso stream (%s): the answer (%d,%d) for %d timestamps came after the answer (%d,%d) on the same stream", via, a.p, a.hi, cnt, last.p, last.hi),
							map[string]interface{}{"via": via, "earlier": []int64{last.p, last.hi}, "later": []int64{a.p, a.hi}, "count": cnt})
					}
					last = &a
					amu.Lock()
					all = append(all, a)
					amu.Unlock()
				}
				cancel()
				time.Sleep(5 * time.Millisecond)
			}
		}(g)
	}
	moves := 0
	for k := 0; k < 2; k++ {
		time.Sleep(1200 * time.Millisecond)
		l := c.Leader()
		if l == nil {
			if l = c.WaitLeader(30 * time.Second); l == nil {
				break
			}
		}
		var o *pdcluster.Node
		for _, x := range c.Nodes {
			if x != l {
				o = x
			}
		}
		ctx, cancel := context.WithTimeout(context.Background(), 10*time.Second)
		err := l.S.GetMember().ResignEtcdLeader(ctx, l.Cfg.Name, o.Cfg.Name)
		cancel()
		if err != nil {
			notes = append(notes, "forwarding phase: transfer refused: "+err.Error())
			break
		}
		deadline := time.Now().Add(30 * time.Second)
		for time.Now().Before(deadline) && !o.S.GetMember().IsLeader() {
			time.Sleep(20 * time.Millisecond)
		}
		moves++
	}
	time.Sleep(1200 * time.Millisecond)
	atomic.StoreInt32(&stop, 1)
	wg.Wait()
	counts["forward:leader-moves"] = moves
	counts["forward:answers"] = len(all)
	for _, a := range all {
		counts["forward:answers:"+a.via]++
	}
	sort.Slice(all, func(i, j int) bool {
		if all[i].p != all[j].p {
			return all[i].p < all[j].p
		}
		return all[i].lo < all[j].lo
	})
	for i := 1; i < len(all); i++ {
		a, b := all[i-1], all[i]
		if a.p == b.p && b.lo <= a.hi {
			addViol(prop+":overlapping-ranges:tso-streams-through-two-members",
				fmt.Sprintf("two answers own the value (%d,%d): (%d,%d..%d) %s and (%d,%d..%d) %s", b.p, b.lo, a.p, a.lo, a.hi, a.via, b.p, b.lo, b.hi, b.via),
				map[string]interface{}{"first": []int64{a.p, a.lo, a.hi}, "first_via": a.via, "second": []int64{b.p, b.lo, b.hi}, "second_via": b.via,
					"scenario": "two members; Tso streams to both, direct and forwarded to the other member, while the PD leadership is handed over and back"})
			break
		}
	}
	return done
}
