// Driver for C01 and C02: real tso.AllocatorManager / GlobalTSOAllocator objects of two members on one
// embedded etcd. No daemon runs: the driver decides when Initialize, UpdateTSO (as updateAllocator does it),
// SetTSO, GenerateTSO and the resets happen, parks calls at their etcd save and injects faults there.
// Clock readings of the implementation are recovered from what it stored (see `now` below).
package main

import (
	"context"
	"encoding/json"
	"flag"
	"fmt"
	"os"
	"path"
	"strings"
	"sync"
	"sync/atomic"
	"time"

	"github.com/pingcap/kvproto/pkg/pdpb"
	"github.com/pingcap/log"
	"github.com/tikv/pd/pkg/typeutil"
	"github.com/tikv/pd/server/config"
	"github.com/tikv/pd/server/member"
	"github.com/tikv/pd/server/tso"
	"go.etcd.io/etcd/clientv3"
	"go.uber.org/zap"
	"go.uber.org/zap/zapcore"

	"pdverif/internal/coqfmt"
	"pdverif/internal/dclife"
	"pdverif/internal/etcdx"
	_ "pdverif/internal/quiet"
	"pdverif/internal/res"
	"pdverif/internal/rng"
	"pdverif/internal/srv15"

	pd "github.com/tikv/pd/client"
)

const (
	saveInterval = 5 * time.Millisecond // small, so that window saves are due every few ms of a run
	gapMs        = 24 * 3600 * 1000
	guardNs      = int64(time.Millisecond)
	retries      = 2
)

type op struct {
	K     string // Elect Sync SyncBegin SyncEnd Upd UpdBegin UpdEnd Set SetBegin SetEnd Gen ResetMem ResetGroup Read State Sleep
	M     int
	Now   int64
	Out   int // 0 Ok 1 ErrNotApplied 2 ErrApplied
	TS    uint64
	Count uint32
	Rel   string // how TS was chosen (for the histogram / replays): relative spec
	Us    int    // Sleep: microseconds (not part of the model: only lets the wall clock move)
}

var outs = []string{"Ok", "ErrNotApplied", "ErrApplied"}

func (o op) coq() string {
	switch o.K {
	case "Elect":
		return fmt.Sprintf("OElect %d", o.M)
	case "Sync":
		return fmt.Sprintf("OSync %d %s %s", o.M, coqfmt.Z(o.Now), outs[o.Out])
	case "SyncBegin":
		return fmt.Sprintf("OSyncBegin %d", o.M)
	case "SyncEnd":
		return fmt.Sprintf("OSyncEnd %d %s %s", o.M, coqfmt.Z(o.Now), outs[o.Out])
	case "Upd":
		return fmt.Sprintf("OUpd %d %s %s", o.M, coqfmt.Z(o.Now), outs[o.Out])
	case "UpdRdFail":
		return fmt.Sprintf("OUpdRdFail %d %s", o.M, coqfmt.Z(o.Now))
	case "UpdBegin":
		return fmt.Sprintf("OUpdBegin %d %s", o.M, coqfmt.Z(o.Now))
	case "UpdEnd":
		return fmt.Sprintf("OUpdEnd %d %s", o.M, outs[o.Out])
	case "UpdSaved":
		return fmt.Sprintf("OUpdSaved %d %s", o.M, coqfmt.Z(o.Now))
	case "UpdFinish":
		return fmt.Sprintf("OUpdFinish %d", o.M)
	case "UpdRead":
		return fmt.Sprintf("OUpdRead %d %s", o.M, coqfmt.Z(o.Now))
	case "UpdRest":
		return fmt.Sprintf("OUpdRest %d %s", o.M, outs[o.Out])
	case "Set":
		return fmt.Sprintf("OSet %d %s %s", o.M, coqfmt.ZU(o.TS), outs[o.Out])
	case "SetBegin":
		return fmt.Sprintf("OSetBegin %d %s", o.M, coqfmt.ZU(o.TS))
	case "SetEnd":
		return fmt.Sprintf("OSetEnd %d %s", o.M, outs[o.Out])
	case "Gen":
		return fmt.Sprintf("OGen %d %d%%Z %d%%nat", o.M, o.Count, retries)
	case "ResetMem":
		return fmt.Sprintf("OResetMem %d", o.M)
	case "ResetGroup":
		return fmt.Sprintf("OResetGroup %d", o.M)
	case "State":
		return fmt.Sprintf("OState %d", o.M)
	}
	return "ORead"
}

type pend struct {
	put  int64 // the window value the parked save carries
	done chan error
	t0   int64
	pre  memState
	wpre *int64
}

type memState struct {
	phys, logical, saved int64
	init, hasSaved       bool
}

type mem struct {
	lastPut int64 // value of the last window put this member issued (whether or not it was applied)
	m       *member.Member
	ctl     *etcdx.CtlKV
	am      *tso.AllocatorManager
	alloc   tso.Allocator
	keep    *etcdx.KeepCtl // reads of this member's etcd client can be made to fail (nil when the world brings its own client)
	syncP   *pend
	updP    *pend
	setP    *pend
}

type world struct {
	e         *etcdx.Etcd
	admin     *clientv3.Client
	root      string
	mems      []*mem
	newClient func() (*clientv3.Client, *etcdx.CtlKV, error) // nil: e.NewClient
	ambig     bool                                           // a clock reading that could not be recovered lies too close to a decision threshold
	panicked  string
}

func (w *world) newMember(i int) *mem {
	var keep *etcdx.KeepCtl
	nc := func() (*clientv3.Client, *etcdx.CtlKV, error) {
		cli, ctl, k, err := w.e.NewClientKeep()
		keep = k
		return cli, ctl, err
	}
	if w.newClient != nil {
		nc = w.newClient
	}
	cli, ctl, err := nc()
	if err != nil {
		panic(err)
	}
	m := member.NewMember(w.e.Srv, cli, uint64(100+i))
	cfg := config.NewConfig()
	cfg.AdvertiseClientUrls = fmt.Sprintf("http://c%d", i)
	cfg.AdvertisePeerUrls = fmt.Sprintf("http://p%d", i)
	cfg.TSOSaveInterval = typeutil.NewDuration(saveInterval)
	cfg.TSOUpdatePhysicalInterval = typeutil.NewDuration(time.Millisecond)
	m.MemberInfo(cfg, fmt.Sprintf("pd%d", i), w.root)
	am := tso.NewAllocatorManager(m, w.root, cfg, func() time.Duration { return gapMs * time.Millisecond })
	am.SetUpAllocator(context.Background(), tso.GlobalDCLocation, m.GetLeadership())
	a, err := am.GetAllocator(tso.GlobalDCLocation)
	if err != nil {
		panic(err)
	}
	x := &mem{m: m, ctl: ctl, am: am, alloc: a, keep: keep}
	ctl.OnCommit = func(thenOps []clientv3.Op) {
		for _, o := range thenOps {
			if o.IsPut() && strings.HasSuffix(string(o.KeyBytes()), "/timestamp") {
				if u, err := typeutil.BytesToUint64(o.ValueBytes()); err == nil {
					x.lastPut = int64(u)
				}
			}
		}
	}
	return x
}

func (x *mem) state() memState {
	p, init, l, sv, hs := tso.VerifState(x.alloc)
	return memState{p, l, sv, init, hs}
}

func (w *world) window() *int64 {
	ctx, cancel := context.WithTimeout(context.Background(), 10*time.Second)
	defer cancel()
	r, err := w.admin.Get(ctx, path.Join(w.root, "timestamp"))
	if err != nil {
		panic(err)
	}
	if len(r.Kvs) == 0 {
		return nil
	}
	u, err := typeutil.BytesToUint64(r.Kvs[0].Value)
	if err != nil {
		panic(err)
	}
	v := int64(u)
	return &v
}

var modes = []etcdx.Mode{etcdx.Pass, etcdx.FailBefore, etcdx.FailAfter}

func errObs(err error) string {
	if err != nil {
		return "BErr"
	}
	return "BOk"
}

// near: a clock reading somewhere in [t0,t1] could fall on either side of threshold th
func near(t0, t1, th int64) bool { return th >= t0-2000 && th <= t1+2000 }

// nowOfUpdate recovers the clock reading UpdateTimestamp used, from what it changed.
func (w *world) nowOfUpdate(x *mem, pre, post memState, wpre, wpost *int64, t0, t1 int64) int64 {
	if x.lastPut != 0 {
		return x.lastPut - int64(saveInterval) // the save carried next + saveInterval
	}
	if post.init && pre.init && post.phys != pre.phys {
		return post.phys // next = now, or prev + 1ms which the model reaches with the same input
	}
	if wpost != nil && (wpre == nil || *wpost != *wpre) {
		return *wpost - int64(saveInterval) // the save carried next + saveInterval
	}
	if pre.init {
		if near(t0, t1, pre.phys+guardNs) || (pre.hasSaved && near(t0, t1, pre.saved-guardNs)) {
			w.ambig = true
		}
	}
	return t0
}

func (w *world) setMode(x *mem, out int) {
	if out != 0 {
		x.ctl.SetNext(modes[out])
	}
}

// exec runs one op; a panic inside PD (e.g. the nil lastSavedTime conversion of the unrepaired
// UpdateTimestamp) is an observation, not a crash of the driver
func (w *world) exec(o *op) (b string) {
	defer func() {
		if r := recover(); r != nil {
			if s, ok := r.(string); ok && strings.HasPrefix(s, "driver:") {
				panic(r)
			}
			w.panicked = fmt.Sprintf("%s: %v", o.K, r)
			b = "BBad"
		}
	}()
	return w.exec1(o)
}

// safe runs an implementation call of a goroutine the driver started; a panic becomes an error
func (w *world) safe(what string, f func() error) (err error) {
	defer func() {
		if r := recover(); r != nil {
			w.panicked = fmt.Sprintf("%s: %v", what, r)
			err = fmt.Errorf("panic: %v", r)
		}
	}()
	return f()
}

func (w *world) exec1(o *op) string {
	x := (*mem)(nil)
	if o.K != "Read" && o.K != "Sleep" {
		x = w.mems[o.M]
	}
	switch o.K {
	case "Elect":
		err := x.m.CampaignLeader(60)
		if err != nil {
			return "BConflict"
		}
		return "BOk"
	case "Sync":
		x.lastPut = 0
		w.setMode(x, o.Out)
		wpre := w.window()
		err := x.alloc.Initialize(0)
		x.ctl.SetNext(etcdx.Pass)
		post := x.state()
		wpost := w.window()
		if x.lastPut != 0 {
			o.Now = x.lastPut - int64(saveInterval)
		} else if err == nil && post.init {
			o.Now = post.phys
		} else if wpost != nil && (wpre == nil || *wpost != *wpre) {
			o.Now = *wpost - int64(saveInterval)
		}
		return errObs(err)
	case "SyncBegin":
		x.lastPut = 0
		x.ctl.SetNext(etcdx.Park)
		p := &pend{done: make(chan error, 1), wpre: w.window()}
		go func() { p.done <- w.safe("Initialize", func() error { return x.alloc.Initialize(0) }) }()
		select {
		case <-x.ctl.Parked():
			p.put = x.lastPut
		case <-p.done:
			panic("driver: Initialize finished without a save")
		case <-time.After(15 * time.Second):
			panic("driver: Initialize: not parked")
		}
		x.syncP = p
		return "BStarted"
	case "SyncEnd":
		p := x.syncP
		x.ctl.Release(modes[o.Out])
		err := <-p.done
		x.syncP = nil
		post := x.state()
		wpost := w.window()
		if p.put != 0 {
			o.Now = p.put - int64(saveInterval)
		} else if err == nil && post.init {
			o.Now = post.phys
		} else if wpost != nil && (p.wpre == nil || *wpost != *p.wpre) {
			o.Now = *wpost - int64(saveInterval)
		}
		return errObs(err)
	case "Upd", "UpdRdFail":
		if !x.m.GetLeadership().Check() {
			return "BSkip"
		}
		x.lastPut = 0
		w.setMode(x, o.Out)
		if o.K == "UpdRdFail" && x.keep != nil {
			x.keep.FailRanges(3) // reads of the stored window fail, writes work
		}
		pre, wpre, t0 := x.state(), w.window(), time.Now().UnixNano()
		err := x.alloc.UpdateTSO()
		t1 := time.Now().UnixNano()
		if x.keep != nil {
			x.keep.FailRanges(0)
		}
		x.ctl.SetNext(etcdx.Pass)
		post, wpost := x.state(), w.window()
		o.Now = w.nowOfUpdate(x, pre, post, wpre, wpost, t0, t1)
		if err != nil {
			x.am.ResetAllocatorGroup(tso.GlobalDCLocation)
		}
		return errObs(err)
	case "UpdBegin":
		if !x.m.GetLeadership().Check() {
			return "BSkip"
		}
		x.lastPut = 0
		x.ctl.SetNext(etcdx.Park)
		p := &pend{done: make(chan error, 1), pre: x.state(), wpre: w.window(), t0: time.Now().UnixNano()}
		go func() { p.done <- w.safe("UpdateTSO", x.alloc.UpdateTSO) }()
		select {
		case <-x.ctl.Parked():
			p.put = x.lastPut
			x.updP = p
			return "BStarted"
		case err := <-p.done:
			x.ctl.SetNext(etcdx.Pass)
			t1 := time.Now().UnixNano()
			o.Now = w.nowOfUpdate(x, p.pre, x.state(), p.wpre, w.window(), p.t0, t1)
			if err != nil {
				if w.panicked != "" {
					return "BBad"
				}
				panic("driver: UpdateTSO failed without reaching a save: " + err.Error())
			}
			return "BDone"
		case <-time.After(15 * time.Second):
			panic("driver: UpdateTSO: neither parked nor done")
		}
	case "UpdSaved":
		if !x.m.GetLeadership().Check() {
			return "BSkip"
		}
		x.lastPut = 0
		x.ctl.SetNext(etcdx.ParkAfter)
		p := &pend{done: make(chan error, 1)}
		go func() { p.done <- w.safe("UpdateTSO", x.alloc.UpdateTSO) }()
		select {
		case <-x.ctl.Parked():
			o.Now = x.lastPut - int64(saveInterval)
			x.updP = p
			return "BStarted"
		case <-p.done:
			x.ctl.SetNext(etcdx.Pass)
			panic("driver: scenario expects a save to be due")
		case <-time.After(15 * time.Second):
			panic("driver: UpdateTSO: neither parked nor done")
		}
	case "UpdFinish":
		p := x.updP
		x.ctl.Release(etcdx.Pass)
		err := <-p.done
		x.updP = nil
		if err != nil {
			x.am.ResetAllocatorGroup(tso.GlobalDCLocation)
		}
		return errObs(err)
	case "UpdEnd":
		p := x.updP
		t1 := time.Now().UnixNano()
		x.ctl.Release(modes[o.Out])
		err := <-p.done
		x.updP = nil
		now := p.put - int64(saveInterval)
		_ = t1
		// the reading belongs to the matching UpdBegin: patched by the caller through o.Now
		o.Now = now
		if err != nil {
			x.am.ResetAllocatorGroup(tso.GlobalDCLocation)
		}
		return errObs(err)
	case "Set":
		if o.TS == 0 && strings.HasPrefix(o.Rel, "same-ms-logical:") {
			// a target in the very millisecond the memory stands at, with the given logical part (fixed scenarios)
			var l int64
			fmt.Sscanf(o.Rel, "same-ms-logical:%d", &l)
			o.TS = compose(x.state().phys/1e6, l)
		}
		w.setMode(x, o.Out)
		err := x.alloc.SetTSO(o.TS)
		x.ctl.SetNext(etcdx.Pass)
		return errObs(err)
	case "SetBegin":
		x.ctl.SetNext(etcdx.Park)
		p := &pend{done: make(chan error, 1)}
		go func() { p.done <- w.safe("SetTSO", func() error { return x.alloc.SetTSO(o.TS) }) }()
		select {
		case <-x.ctl.Parked():
			x.setP = p
			return "BStarted"
		case err := <-p.done:
			x.ctl.SetNext(etcdx.Pass)
			if err != nil {
				return "BErr"
			}
			return "BDone"
		case <-time.After(15 * time.Second):
			panic("driver: SetTSO: neither parked nor done")
		}
	case "SetEnd":
		p := x.setP
		x.ctl.Release(modes[o.Out])
		err := <-p.done
		x.setP = nil
		return errObs(err)
	case "Gen":
		ts, err := x.alloc.GenerateTSO(o.Count)
		if err != nil {
			return "BErr"
		}
		return "BTs " + coqfmt.Z(ts.Physical) + " " + coqfmt.Z(ts.Logical)
	case "ResetMem":
		x.alloc.Reset()
		return "BUnit"
	case "ResetGroup":
		x.am.ResetAllocatorGroup(tso.GlobalDCLocation)
		return "BUnit"
	case "State":
		st := x.state()
		p, sv := "None", "None"
		if st.init {
			p = "(Some " + coqfmt.Z(st.phys) + ")"
		}
		if st.hasSaved {
			sv = "(Some " + coqfmt.Z(st.saved) + ")"
		}
		return "BMem " + p + " " + coqfmt.Z(st.logical) + " " + sv
	case "Read":
		v := w.window()
		if v == nil {
			return "BW None"
		}
		return "BW (Some " + coqfmt.Z(*v) + ")"
	}
	panic("bad op " + o.K)
}

type caseRec struct {
	Ops []op
	Obs []string
}

func (c caseRec) coq() string {
	ops := make([]string, len(c.Ops))
	for i, o := range c.Ops {
		ops[i] = o.coq()
	}
	return fmt.Sprintf("(%d, %d, %s,\n  %s)", int64(saveInterval), int64(gapMs), coqfmt.List(ops), coqfmt.List(c.Obs))
}

// ---- generation: decisions are taken while running, from the driver's coarse view ----
type gen struct {
	r       *rng.R
	w       *world
	c       *caseRec
	owner   int   // -1 none
	term    []int // 0 idle (may campaign) 1 elected 2 initing(parked) 3 serving 4 failed
	updBeg  []int // index of the op that began a parked update (-1)
	setPark []bool
}

func (g *gen) do(o op) string {
	if o.K == "Sleep" {
		time.Sleep(time.Duration(o.Us) * time.Microsecond)
		return ""
	}
	b := g.w.exec(&o)
	g.c.Ops = append(g.c.Ops, o)
	g.c.Obs = append(g.c.Obs, b)
	return b
}

// probe: memory of every member, then the store (C02's relation after every step)
func (g *gen) probe() {
	for m := range g.w.mems {
		if !g.setPark[m] {
			g.do(op{K: "State", M: m})
		}
	}
	g.do(op{K: "Read"})
}

func compose(physMs int64, logical int64) uint64 { return uint64(physMs)<<18 | uint64(logical)&0x3FFFF }

func (g *gen) pickTS(m int) (uint64, string) {
	st := g.w.mems[m].state()
	base := st.phys / 1e6
	if !st.init {
		base = time.Now().UnixNano() / 1e6
	}
	switch g.r.Pick(10, 10, 10, 25, 25, 10, 10, 12) {
	case 7:
		// the last (partial) millisecond below the stored window, or the one before
		if wv := g.w.window(); wv != nil && *wv/1e6 > base {
			return compose(*wv/1e6-int64(g.r.Intn(2)), int64(g.r.Intn(50))), "last-millisecond-below-window"
		}
		return compose(base+int64(1+g.r.Intn(3)), int64(g.r.Intn(50))), "inside-window"
	case 0:
		return compose(base-int64(1+g.r.Intn(50)), int64(g.r.Intn(100))), "smaller-physical"
	case 1:
		return compose(base, st.logical-int64(g.r.Intn(3))), "same-physical-logical-not-greater"
	case 2:
		return compose(base, st.logical+int64(1+g.r.Intn(1000))), "same-physical-greater-logical"
	case 3:
		return compose(base+int64(1+g.r.Intn(3)), int64(g.r.Intn(50))), "inside-window"
	case 4:
		return compose(base+int64(6+g.r.Intn(3000)), int64(g.r.Intn(50))), "beyond-window"
	case 5:
		return compose(base+3600*1000, 0), "one-hour-ahead"
	default:
		return compose(base+gapMs+int64(g.r.Intn(10)), 0), "beyond-max-reset-gap"
	}
}

func (g *gen) pickCount(m int) uint32 {
	st := g.w.mems[m].state()
	switch g.r.Pick(50, 20, 10, 8, 6, 6) {
	case 0:
		return 1
	case 1:
		return uint32(2 + g.r.Intn(100))
	case 2:
		return 1 << 17
	case 3:
		return 1<<18 - 1
	case 4:
		left := int64(1<<18) - st.logical
		if left > 2 {
			return uint32(left - 1) // exactly fills the logical field
		}
		return 1
	default:
		return 1<<18 + uint32(g.r.Intn(10)) // cannot fit: retried, then refused
	}
}

func (g *gen) step() {
	r := g.r
	m := r.Intn(len(g.w.mems))
	x := g.w.mems[m]
	busy := x.syncP != nil || x.updP != nil || x.setP != nil
	switch r.Pick(8, 8, 3, 14, 5, 10, 4, 30, 3, 6, 9) {
	case 0: // campaign
		if g.term[m] == 0 && !busy {
			b := g.do(op{K: "Elect", M: m})
			if b == "BOk" {
				g.term[m] = 1
				g.owner = m
			}
		}
	case 1: // Initialize, complete
		if g.term[m] == 1 && !busy {
			out := r.Pick(80, 10, 10)
			b := g.do(op{K: "Sync", M: m, Out: out})
			if b == "BOk" {
				g.term[m] = 3
			} else {
				g.term[m] = 4
			}
		}
	case 2: // Initialize parked at its save
		if g.term[m] == 1 && !busy {
			g.do(op{K: "SyncBegin", M: m})
			g.term[m] = 2
		}
	case 3: // periodic update, complete
		if x.updP == nil && x.setP == nil && x.syncP == nil {
			b := g.do(op{K: "Upd", M: m, Out: r.Pick(85, 8, 7)})
			if b == "BErr" {
				g.afterUpdError(m)
			}
		}
	case 4: // periodic update parked at its save
		if x.updP == nil && x.setP == nil && x.syncP == nil {
			b := g.do(op{K: "UpdBegin", M: m})
			if b == "BStarted" {
				g.updBeg[m] = len(g.c.Ops) - 1
			}
		}
	case 5: // user reset (its decide/save section needs saveMu: never while an update or a sync is parked inside it)
		if x.setP == nil && x.updP == nil && x.syncP == nil {
			ts, rel := g.pickTS(m)
			if r.Pct(70) || x.updP != nil && false {
				out := r.Pick(80, 10, 10)
				g.do(op{K: "Set", M: m, TS: ts, Rel: rel, Out: out})
				if out != 0 && x.keep != nil && r.Pct(60) {
					// the outcome of that save is uncertain: the next update has to read the window back - and cannot
					time.Sleep(saveInterval)
					if b := g.do(op{K: "UpdRdFail", M: m}); b == "BErr" {
						g.afterUpdError(m)
					}
				}
			} else {
				b := g.do(op{K: "SetBegin", M: m, TS: ts, Rel: rel})
				if b == "BStarted" {
					g.setPark[m] = true
				}
			}
		}
	case 6: // release something parked
		g.release(m)
	case 7: // timestamp request (never while a reset holds the TSO lock: the call would block)
		if !g.setPark[m] {
			st := x.state()
			if st.init || r.Pct(5) {
				g.do(op{K: "Gen", M: m, Count: g.pickCount(m)})
			}
		}
	case 8:
		if !g.setPark[m] {
			g.do(op{K: "ResetMem", M: m})
		}
	case 9: // end of term
		if !g.setPark[m] && x.syncP == nil {
			g.do(op{K: "ResetGroup", M: m})
			g.afterGroupReset(m)
		}
	case 10:
		g.do(op{K: "Sleep", Us: 200 + r.Intn(2500)})
		return
	}
	g.probe()
}

// updateAllocator reset the group after a failed update: leadership is gone, but the leader loop has not
// left its term yet (the driver ends it with ResetGroup before the member campaigns again)
func (g *gen) afterUpdError(m int) {
	if g.owner == m {
		g.owner = -1
	}
	g.term[m] = 6
}

func (g *gen) afterGroupReset(m int) {
	if g.owner == m {
		g.owner = -1
	}
	x := g.w.mems[m]
	if x.updP == nil && x.setP == nil && x.syncP == nil {
		g.term[m] = 0
	} else {
		g.term[m] = 5 // something still in flight: may not campaign (E4)
	}
}

func (g *gen) release(m int) {
	x := g.w.mems[m]
	r := g.r
	switch {
	case x.setP != nil:
		g.do(op{K: "SetEnd", M: m, Out: r.Pick(70, 15, 15)})
		g.setPark[m] = false
	case x.updP != nil:
		o := op{K: "UpdEnd", M: m, Out: r.Pick(70, 20, 10)}
		b := g.w.exec(&o)
		g.c.Ops[g.updBeg[m]].Now = o.Now // the clock was read before the call parked
		g.c.Ops = append(g.c.Ops, o)
		g.c.Obs = append(g.c.Obs, b)
		g.updBeg[m] = -1
		if b == "BErr" {
			g.afterUpdError(m)
		}
	case x.syncP != nil:
		b := g.do(op{K: "SyncEnd", M: m, Out: r.Pick(70, 15, 15)})
		if b == "BOk" {
			g.term[m] = 3
		} else {
			g.term[m] = 4
		}
	}
	if g.term[m] == 5 && x.updP == nil && x.setP == nil && x.syncP == nil {
		g.term[m] = 0
	}
}

func runCase(e *etcdx.Etcd, admin *clientv3.Client, root string, r *rng.R, fixed []op, maxOps int) (caseRec, bool, string) {
	w := &world{e: e, admin: admin, root: root}
	defer e.CloseFrom(e.Mark())
	for i := 0; i < 2; i++ {
		w.mems = append(w.mems, w.newMember(i))
	}
	tso.VerifSetMaxRetry(retries)
	var c caseRec
	g := &gen{r: r, w: w, c: &c, owner: -1, term: make([]int, 2), updBeg: []int{-1, -1}, setPark: make([]bool, 2)}
	var raceSet chan error
	var raceOp op
	if fixed != nil {
		for _, o := range fixed {
			if o.K == "UpdEnd" {
				x := w.mems[o.M]
				if x.updP != nil {
					oo := o
					b := w.exec(&oo)
					for k := len(c.Ops) - 1; k >= 0; k-- {
						if c.Ops[k].K == "UpdBegin" && c.Ops[k].M == o.M {
							c.Ops[k].Now = oo.Now
							break
						}
					}
					c.Ops = append(c.Ops, oo)
					c.Obs = append(c.Obs, b)
					if raceSet != nil {
						err := <-raceSet
						raceSet = nil
						c.Ops = append(c.Ops, op{K: "Set", M: raceOp.M, TS: raceOp.TS, Rel: raceOp.Rel})
						c.Obs = append(c.Obs, errObs(err))
					}
				}
				continue
			}
			if o.K == "Set" && o.TS == 0 && o.Rel == "last-millisecond-below-window" {
				if wv := w.window(); wv != nil {
					o.TS = compose(*wv/1e6, 20)
				}
			}
			if o.K == "SetRace" {
				// SetTSO started while an update is parked inside the save section: with the save mutex it
				// waits for the update (and is recorded after it); without it, it runs at once
				x := w.mems[o.M]
				done := make(chan error, 1)
				ts := o.TS
				go func() { done <- x.alloc.SetTSO(ts) }()
				select {
				case err := <-done:
					c.Ops = append(c.Ops, op{K: "Set", M: o.M, TS: o.TS, Rel: o.Rel})
					c.Obs = append(c.Obs, errObs(err))
				case <-time.After(80 * time.Millisecond):
					raceSet, raceOp = done, o
				}
				continue
			}
			g.do(o)
		}
	} else {
		// most cases start with a leader that serves
		if r.Pct(85) {
			g.do(op{K: "Elect", M: 0})
			g.term[0], g.owner = 1, 0
			if r.Pct(90) {
				if g.do(op{K: "Sync", M: 0}) == "BOk" {
					g.term[0] = 3
				} else {
					g.term[0] = 4
				}
			}
			g.probe()
		}
		n := 8 + r.Intn(maxOps)
		for k := 0; k < n && w.panicked == ""; k++ {
			g.step()
		}
	}
	for m := range w.mems {
		for w.mems[m].setP != nil || w.mems[m].updP != nil || w.mems[m].syncP != nil {
			g.release(m)
		}
	}
	g.probe()
	for _, x := range w.mems {
		x.am.ResetAllocatorGroup(tso.GlobalDCLocation)
	}
	return c, !w.ambig, w.panicked
}

// scenarios kept as a regression corpus: each broke C01/C02 on the tree before the fixes recorded in
// KNOWN_FINDINGS.txt (S1: periodic save applied after a reset's save; S15: update re-initialising reset memory)
func scenarios() [][]op {
	far := func() uint64 { return compose(time.Now().UnixNano()/1e6+3600*1000, 0) }
	return [][]op{
		// S1: UpdateTSO parked at its save, SetTSO(+1h) runs and saves, the parked save is released
		{{K: "Elect", M: 0}, {K: "Sync", M: 0}, {K: "Sleep", Us: 6000}, {K: "UpdBegin", M: 0}, {K: "Read"},
			{K: "SetRace", M: 0, TS: far(), Rel: "one-hour-ahead"}, {K: "Read"}, {K: "UpdEnd", M: 0}, {K: "State", M: 0}, {K: "Read"},
			{K: "Gen", M: 0, Count: 1}, {K: "State", M: 0}, {K: "Read"}},
		// S15: UpdateTSO stopped right after its save, the term ends (memory and leadership reset), the update
		// continues with setTSOPhysical; another member leads and moves far ahead; the first member wins again
		// and a request arrives before its Initialize
		{{K: "Elect", M: 0}, {K: "Sync", M: 0}, {K: "Gen", M: 0, Count: 1}, {K: "Sleep", Us: 6000}, {K: "UpdSaved", M: 0},
			{K: "ResetGroup", M: 0}, {K: "UpdFinish", M: 0}, {K: "State", M: 0},
			{K: "Elect", M: 1}, {K: "Sync", M: 1}, {K: "Set", M: 1, TS: far(), Rel: "one-hour-ahead"}, {K: "Gen", M: 1, Count: 1}, {K: "ResetGroup", M: 1},
			{K: "Elect", M: 0}, {K: "State", M: 0}, {K: "Gen", M: 0, Count: 1}, {K: "Read"}},
		// a reset one hour ahead whose answer is lost although etcd applied it, then an update that has to read the window
		// back while reads fail: it gives up (the group is reset); the successor starts above the window that was written
		{{K: "Elect", M: 0}, {K: "Sync", M: 0}, {K: "Gen", M: 0, Count: 1}, {K: "Set", M: 0, TS: far(), Rel: "one-hour-ahead", Out: 2}, {K: "State", M: 0}, {K: "Read"},
			{K: "Sleep", Us: 6000}, {K: "UpdRdFail", M: 0}, {K: "State", M: 0}, {K: "Read"}, {K: "ResetGroup", M: 0},
			{K: "Elect", M: 1}, {K: "Sync", M: 1}, {K: "Gen", M: 1, Count: 1}, {K: "State", M: 1}, {K: "Read"}},
		// ... and the same with the answer of the reset lost before etcd applied it (nothing to read back that differs)
		{{K: "Elect", M: 0}, {K: "Sync", M: 0}, {K: "Gen", M: 0, Count: 1}, {K: "Set", M: 0, TS: far(), Rel: "one-hour-ahead", Out: 1}, {K: "State", M: 0}, {K: "Read"},
			{K: "Sleep", Us: 6000}, {K: "UpdRdFail", M: 0}, {K: "State", M: 0}, {K: "Read"}, {K: "Sleep", Us: 6000}, {K: "Upd", M: 0}, {K: "State", M: 0}, {K: "Read"}},
		// a request that cannot be granted leaves the raw logical counter beyond 18 bits; a reset into the same millisecond
		// with a logical part below what was granted (but above the counter taken modulo 2^18) is still a reset backwards
		{{K: "Elect", M: 0}, {K: "Sync", M: 0}, {K: "Gen", M: 0, Count: 200000}, {K: "Gen", M: 0, Count: 100000}, {K: "State", M: 0},
			{K: "Set", M: 0, Rel: "same-ms-logical:150000"}, {K: "State", M: 0}, {K: "Gen", M: 0, Count: 10}, {K: "State", M: 0}, {K: "Read"}},
		// a window save that takes longer than the save interval (slow but successful): the memory moves to the time the
		// save was decided for, not to a later reading of the clock - what is granted next lies below the window written
		{{K: "Elect", M: 0}, {K: "Sync", M: 0}, {K: "Gen", M: 0, Count: 1}, {K: "Sleep", Us: 6000}, {K: "UpdBegin", M: 0}, {K: "Sleep", Us: 16000},
			{K: "UpdEnd", M: 0}, {K: "State", M: 0}, {K: "Gen", M: 0, Count: 1}, {K: "Read"}, {K: "State", M: 0},
			{K: "Sleep", Us: 6000}, {K: "UpdBegin", M: 0}, {K: "Sleep", Us: 11000}, {K: "UpdEnd", M: 0}, {K: "Gen", M: 0, Count: 3}, {K: "Read"},
			{K: "ResetGroup", M: 0}, {K: "Elect", M: 1}, {K: "Sync", M: 1}, {K: "Gen", M: 1, Count: 1}, {K: "Read"}},
		// physical time ahead of the wall clock (after a reset into the future) and the logical part used up tick after
		// tick: the "prevPhysical + 1ms" branch of UpdateTimestamp must extend the window from `next`, not from the clock
		func() []op {
			l := []op{{K: "Elect", M: 0}, {K: "Sync", M: 0}, {K: "Set", M: 0, TS: far(), Rel: "one-hour-ahead"}, {K: "State", M: 0}, {K: "Read"}}
			for k := 0; k < 9; k++ {
				l = append(l, op{K: "Gen", M: 0, Count: 1<<17 + 1}, op{K: "Upd", M: 0}, op{K: "State", M: 0}, op{K: "Read"})
			}
			// ... and a successor starts above everything that was granted on the way
			return append(l, op{K: "Gen", M: 0, Count: 1}, op{K: "State", M: 0}, op{K: "Read"},
				op{K: "ResetGroup", M: 0}, op{K: "Elect", M: 1}, op{K: "Sync", M: 1}, op{K: "Gen", M: 1, Count: 1}, op{K: "State", M: 1}, op{K: "Read"})
		}(),
		// hand-over A -> B -> A inside one process while B moved one hour ahead: A's second SyncTimestamp must start from
		// the stored window, not from anything A remembers
		{{K: "Prefill", Count: 10500}, // more than ten thousand keys of other kinds sort before the window key
			{K: "Elect", M: 0}, {K: "Sync", M: 0}, {K: "Gen", M: 0, Count: 1}, {K: "ResetGroup", M: 0},
			{K: "Elect", M: 1}, {K: "Sync", M: 1}, {K: "Set", M: 1, TS: far(), Rel: "one-hour-ahead"}, {K: "Gen", M: 1, Count: 100}, {K: "Read"}, {K: "ResetGroup", M: 1},
			{K: "Elect", M: 0}, {K: "Sync", M: 0}, {K: "State", M: 0}, {K: "Read"}, {K: "Gen", M: 0, Count: 5}, {K: "State", M: 0}, {K: "Read"}},
		// two accepted resets of 0.7 x max-gap-reset-ts each (the gap is measured against the TSO, so resets add up): the
		// stored window is then more than the gap ahead of every clock; a successor still has to start above it
		{{K: "Elect", M: 0}, {K: "Sync", M: 0}, {K: "Read"},
			{K: "Set", M: 0, TS: compose(time.Now().UnixNano()/1e6+gapMs*7/10, 0), Rel: "0.7-gap-ahead"}, {K: "State", M: 0}, {K: "Read"},
			{K: "Set", M: 0, TS: compose(time.Now().UnixNano()/1e6+gapMs*14/10, 0), Rel: "1.4-gap-ahead"}, {K: "State", M: 0}, {K: "Read"},
			{K: "Gen", M: 0, Count: 7}, {K: "Read"}, {K: "ResetGroup", M: 0},
			{K: "Elect", M: 1}, {K: "Sync", M: 1}, {K: "State", M: 1}, {K: "Read"}, {K: "Gen", M: 1, Count: 1}, {K: "Read"}},
		// requests that overflow the logical part again and again (each is retried): whatever the request path does about
		// the overflow, the memory must stay below the stored window
		{{K: "Elect", M: 0}, {K: "Sync", M: 0}, {K: "Read"},
			{K: "Gen", M: 0, Count: 1<<18 + 5}, {K: "State", M: 0}, {K: "Read"}, {K: "Gen", M: 0, Count: 1<<18 + 5}, {K: "State", M: 0}, {K: "Read"},
			{K: "Gen", M: 0, Count: 1<<18 + 5}, {K: "State", M: 0}, {K: "Read"}, {K: "Gen", M: 0, Count: 1<<18 + 5}, {K: "State", M: 0}, {K: "Read"},
			{K: "Gen", M: 0, Count: 1<<18 + 5}, {K: "State", M: 0}, {K: "Read"}, {K: "Gen", M: 0, Count: 1}, {K: "State", M: 0}, {K: "Read"},
			{K: "ResetGroup", M: 0}, {K: "Elect", M: 1}, {K: "Sync", M: 1}, {K: "Gen", M: 1, Count: 1}, {K: "Read"}},
		// a reset into the last partial millisecond below the stored window, timestamps granted there, then a take-over by a
		// member whose clock is still behind the window: the successor has to start above (the guard margins of the
		// window checks and of SyncTimestamp cover the nanosecond -> millisecond truncation of granted timestamps)
		{{K: "Elect", M: 0}, {K: "Sync", M: 0}, {K: "Gen", M: 0, Count: 1}, {K: "Read"},
			{K: "Set", M: 0, Rel: "last-millisecond-below-window"}, {K: "State", M: 0}, {K: "Read"}, {K: "Gen", M: 0, Count: 30}, {K: "Read"}, {K: "ResetGroup", M: 0},
			{K: "Elect", M: 1}, {K: "Sync", M: 1}, {K: "State", M: 1}, {K: "Read"}, {K: "Gen", M: 1, Count: 10}, {K: "Read"}},
		// unacknowledged reset save (recorded finding): SetTSO(+1h) applied but reported failed, then a periodic save
		{{K: "Elect", M: 0}, {K: "Sync", M: 0}, {K: "Read"}, {K: "Set", M: 0, TS: far(), Rel: "one-hour-ahead", Out: 2}, {K: "Read"},
			{K: "Sleep", Us: 6000}, {K: "Upd", M: 0}, {K: "State", M: 0}, {K: "Read"}},
		// a reset whose window save fails WITHOUT being applied, the reset is retried and accepted, timestamps are granted,
		// then another member takes over: nothing the first member remembers about its failed save may stand in for the
		// stored window (the retry must save), or the successor starts one hour below timestamps already returned
		{{K: "Elect", M: 0}, {K: "Sync", M: 0}, {K: "Read"}, {K: "Set", M: 0, TS: far(), Rel: "one-hour-ahead", Out: 1}, {K: "State", M: 0}, {K: "Read"},
			{K: "Set", M: 0, TS: far() + 1<<18, Rel: "one-hour-ahead"}, {K: "State", M: 0}, {K: "Read"}, {K: "Gen", M: 0, Count: 3}, {K: "ResetGroup", M: 0},
			{K: "Elect", M: 1}, {K: "Sync", M: 1}, {K: "State", M: 1}, {K: "Read"}, {K: "Gen", M: 1, Count: 1}, {K: "Read"}},
	}
}

// gateCore is a zap core that holds the goroutine logging a chosen message until it is released: a way to stop a
// request between two of its lock sections without touching PD's code.
type gateCore struct {
	zapcore.LevelEnabler
	mu      sync.Mutex
	msg     string
	armed   bool
	parked  chan struct{}
	release chan struct{}
	now     int64 // the "now" field of the line that was hit (UnixNano), when it has one
}

func (c *gateCore) With([]zapcore.Field) zapcore.Core { return c }
func (c *gateCore) Check(e zapcore.Entry, ce *zapcore.CheckedEntry) *zapcore.CheckedEntry {
	return ce.AddCore(e, c)
}
func (c *gateCore) Write(e zapcore.Entry, fields []zapcore.Field) error {
	c.mu.Lock()
	hit := c.armed && strings.Contains(e.Message, c.msg)
	if hit {
		c.armed = false
		for _, f := range fields {
			if f.Key == "now" && f.Type == zapcore.TimeType {
				c.now = f.Integer
			}
		}
	}
	c.mu.Unlock()
	if hit {
		c.parked <- struct{}{}
		<-c.release
	}
	return nil
}
func (c *gateCore) Sync() error { return nil }

// overflowRace: request A overflows the logical part (it will sleep and retry) and is held right after its overflowing
// generateTSO; the periodic update moves the physical time on (logical := 0); request B is answered from the new
// millisecond; A continues. Whatever A does with the counter it overflowed must not touch the new millisecond's
// counter: A's and B's ranges must be disjoint.
func overflowRace(e *etcdx.Etcd, admin *clientv3.Client, root string, R *res.Result, prop string) {
	w := &world{e: e, admin: admin, root: root}
	defer e.CloseFrom(e.Mark())
	w.mems = append(w.mems, w.newMember(0))
	x := w.mems[0]
	if err := x.m.CampaignLeader(60); err != nil {
		return
	}
	if err := x.alloc.Initialize(0); err != nil {
		return
	}
	defer x.am.ResetAllocatorGroup(tso.GlobalDCLocation)
	gate := &gateCore{LevelEnabler: zapcore.ErrorLevel, msg: "logical part outside of max logical interval", parked: make(chan struct{}, 1), release: make(chan struct{}, 1)}
	log.ReplaceGlobals(zap.New(gate), nil)
	defer srv15.Quiet()
	type ans struct {
		P, L, C int64
		err     error
	}
	if _, err := x.alloc.GenerateTSO(1<<18 - 2000); err != nil { // logical just below the maximum
		return
	}
	gate.mu.Lock()
	gate.armed = true
	gate.mu.Unlock()
	ach := make(chan ans, 1)
	go func() {
		t, err := x.alloc.GenerateTSO(3000) // overflows
		ach <- ans{t.Physical, t.Logical, 3000, err}
	}()
	select {
	case <-gate.parked:
	case a := <-ach:
		R.Notes = append(R.Notes, fmt.Sprintf("overflowRace: the overflowing request was answered at once: %+v", a))
		return
	case <-time.After(5 * time.Second):
		R.Notes = append(R.Notes, "overflowRace: the overflowing request never logged its overflow")
		return
	}
	if err := w.safe("UpdateTSO", x.alloc.UpdateTSO); err != nil { // logical > max/2: physical += 1 ms, logical = 0
		gate.release <- struct{}{}
		<-ach
		return
	}
	tb, errb := x.alloc.GenerateTSO(3000)
	gate.release <- struct{}{}
	a := <-ach
	R.Count("overflowRace:probed")
	if errb != nil || a.err != nil {
		return
	}
	b := ans{tb.Physical, tb.Logical, 3000, nil}
	// ranges (P, L-C+1 .. L)
	if a.P == b.P && a.L-a.C+1 <= b.L && b.L-b.C+1 <= a.L {
		R.Violate(prop+":duplicate-timestamp:overflow-retry-racing-with-update",
			fmt.Sprintf("request A overflowed the logical part and retried while the physical time was advanced and request B was answered (%d,%d..%d); A was then answered (%d,%d..%d): the ranges overlap", b.P, b.L-b.C+1, b.L, a.P, a.L-a.C+1, a.L),
			map[string]interface{}{"A": a, "B": b, "scenario": "logical at 2^18-2000; A = GenerateTSO(3000) held after its overflowing generateTSO; UpdateTSO; B = GenerateTSO(3000); A continues"})
	}
}

// lateKeepAliveProbe: leader A's keep-alive renewal reaches etcd but its response is delivered 2.6 s late and no later
// renewal gets through; etcd lets the 3 s lease run out (counted from when it processed the renewal), member B wins the
// leadership, synchronises and answers a request. A request that reaches A afterwards must be refused or answered with
// a larger timestamp: A has to count its lease from the moment it REQUESTED the renewal.
func lateKeepAliveProbe(R *res.Result, prop string) {
	e, err := etcdx.StartOpt(50, 500)
	if err != nil {
		R.Notes = append(R.Notes, "late-keep-alive probe skipped: "+err.Error())
		return
	}
	defer e.Close()
	admin, _, err := e.NewClient()
	if err != nil {
		return
	}
	w := &world{e: e, admin: admin, root: "/c01/lease"}
	var keep *etcdx.KeepCtl
	w.newClient = func() (*clientv3.Client, *etcdx.CtlKV, error) {
		cli, ctl, k, err := e.NewClientKeep()
		keep = k
		return cli, ctl, err
	}
	a := w.newMember(0)
	ka := keep
	b := w.newMember(1)
	if err := a.m.CampaignLeader(3); err != nil {
		return
	}
	if err := a.alloc.Initialize(0); err != nil {
		return
	}
	defer a.am.ResetAllocatorGroup(tso.GlobalDCLocation)
	defer b.am.ResetAllocatorGroup(tso.GlobalDCLocation)
	if _, err := a.alloc.GenerateTSO(1); err != nil {
		return
	}
	ka.Hold()
	kctx, kcancel := context.WithCancel(context.Background())
	defer kcancel()
	go a.m.KeepLeader(kctx)
	select {
	case <-ka.Held():
	case <-time.After(10 * time.Second):
		R.Notes = append(R.Notes, "late-keep-alive probe: no keep-alive response seen")
		return
	}
	tr := time.Now() // etcd has extended the lease to (about) tr + 3 s
	time.Sleep(2600 * time.Millisecond)
	ka.Release()
	// wait until etcd has dropped A's leader record
	deadline := time.Now().Add(20 * time.Second)
	for {
		ctx, cancel := context.WithTimeout(context.Background(), 5*time.Second)
		r, err := admin.Get(ctx, a.m.GetLeaderPath())
		cancel()
		if err == nil && len(r.Kvs) == 0 {
			break
		}
		if time.Now().After(deadline) {
			R.Notes = append(R.Notes, "late-keep-alive probe: the leader record never went away")
			return
		}
		time.Sleep(20 * time.Millisecond)
	}
	if err := b.m.CampaignLeader(60); err != nil {
		R.Notes = append(R.Notes, "late-keep-alive probe: second member did not win: "+err.Error())
		return
	}
	if err := b.alloc.Initialize(0); err != nil {
		return
	}
	tb, err := b.alloc.GenerateTSO(1)
	if err != nil {
		return
	}
	R.Count("late-keep-alive:probed")
	ta, erra := a.alloc.GenerateTSO(1)
	if erra == nil && (ta.Physical < tb.Physical || (ta.Physical == tb.Physical && ta.Logical <= tb.Logical)) {
		R.Violate(prop+":later-request-got-smaller-timestamp:old-leader-serving-after-etcd-expired-its-lease",
			fmt.Sprintf("leader 0 renewed its 3 s lease, the response arrived 2.6 s late and no later renewal got through; %.2f s after the renewal etcd had dropped its leader record, member 1 won, synchronised and answered (%d,%d); a request to member 0 that began afterwards was answered (%d,%d)", time.Since(tr).Seconds(), tb.Physical, tb.Logical, ta.Physical, ta.Logical),
			map[string]interface{}{"new_leader_answer": []int64{tb.Physical, tb.Logical}, "old_leader_answer": []int64{ta.Physical, ta.Logical}, "scenario": "Campaign(0, ttl 3 s); keep-alive response held 2.6 s, later renewals lost; lease expires on etcd; Campaign(1); Initialize(1); GenerateTSO(1); GenerateTSO(0)"})
	}
}

// delayedWindowWriteProbe: etcd may be slow for any single request. A window write the periodic update issues is held
// back before it is sent. On the code as it is the update is still inside its call then (it holds the save mutex), so a
// reset has to wait. If the update has RETURNED while its write is still on its way (a write issued outside the call
// that decided it), the probe lets an operator reset (+1 h) be accepted and persisted first and the late write land
// afterwards: the stored window must not decrease, and a successor must start above everything granted.
func delayedWindowWriteProbe(e *etcdx.Etcd, admin *clientv3.Client, root string, R *res.Result, prop string) {
	w := &world{e: e, admin: admin, root: root}
	defer e.CloseFrom(e.Mark())
	w.mems = append(w.mems, w.newMember(0), w.newMember(1))
	a, b := w.mems[0], w.mems[1]
	if err := a.m.CampaignLeader(60); err != nil {
		return
	}
	if err := a.alloc.Initialize(0); err != nil {
		return
	}
	defer a.am.ResetAllocatorGroup(tso.GlobalDCLocation)
	defer b.am.ResetAllocatorGroup(tso.GlobalDCLocation)
	isWindowPut := func(ops []clientv3.Op) bool {
		for _, o := range ops {
			if o.IsPut() && strings.HasSuffix(string(o.KeyBytes()), "/timestamp") {
				return true
			}
		}
		return false
	}
	a.ctl.Filter = isWindowPut
	defer func() { a.ctl.Filter = nil; a.ctl.SetNext(etcdx.Pass) }()
	for round := 0; round < 18; round++ {
		if _, err := a.alloc.GenerateTSO(1); err != nil {
			return
		}
		// a fresh window first (an update whose write is due and goes through), then an update after 40 % .. 120 % of
		// the save interval: rounds differ in how much of the window is used up (a write may be issued early)
		time.Sleep(saveInterval)
		a.ctl.SetNext(etcdx.Pass)
		if err := w.safe("UpdateTSO", a.alloc.UpdateTSO); err != nil {
			return
		}
		time.Sleep(saveInterval * time.Duration(4+round%9) / 10)
		a.ctl.SetNext(etcdx.Park)
		done := make(chan error, 1)
		go func() { done <- w.safe("UpdateTSO", a.alloc.UpdateTSO) }()
		parked := false
		select {
		case <-a.ctl.Parked():
			parked = true
		case <-done:
			// no write was due in this round - or it is on its way in the background: give it a moment
			select {
			case <-a.ctl.Parked():
				parked = true
				done <- nil
			case <-time.After(30 * time.Millisecond):
				a.ctl.SetNext(etcdx.Pass)
				continue
			}
		case <-time.After(5 * time.Second):
			return
		}
		if !parked {
			continue
		}
		returned := false
		select {
		case <-done:
			returned = true
		case <-time.After(300 * time.Millisecond):
		}
		R.Count("delayed-window-write:probed")
		if !returned {
			a.ctl.Release(etcdx.Pass) // the update waits for its own write, as it should
			<-done
			continue
		}
		// the update is back, its write is not: reset one hour ahead, then let the late write through
		target := time.Now().UnixNano()/1e6 + 3600*1000
		if err := a.alloc.SetTSO(compose(target, 0)); err != nil {
			a.ctl.Release(etcdx.Pass)
			return
		}
		w1 := w.window()
		g, gerr := a.alloc.GenerateTSO(1)
		a.ctl.Release(etcdx.Pass)
		time.Sleep(200 * time.Millisecond)
		w2 := w.window()
		if w1 != nil && w2 != nil && *w2 < *w1 {
			R.Violate(prop+":stored-window-decreased:window-write-outside-the-call-that-decided-it",
				fmt.Sprintf("UpdateTSO returned while its window write was still on its way (held back before it was sent); a reset one hour ahead was accepted and stored the window %d; the late write then stored %d", *w1, *w2),
				map[string]interface{}{"window_after_reset": *w1, "window_after_late_write": *w2, "scenario": "Elect; Sync; Gen; sleep; UpdateTSO with its window write held back; SetTSO(+1h); write released"})
		}
		a.am.ResetAllocatorGroup(tso.GlobalDCLocation)
		a.m.ResetLeader()
		if gerr != nil {
			return
		}
		if err := b.m.CampaignLeader(60); err != nil {
			return
		}
		if err := b.alloc.Initialize(0); err != nil {
			return
		}
		if t, err := b.alloc.GenerateTSO(1); err == nil && (t.Physical < g.Physical || (t.Physical == g.Physical && t.Logical <= g.Logical)) {
			R.Violate(prop+":successor-below-granted-timestamp:window-write-outside-the-call-that-decided-it",
				fmt.Sprintf("after that history member 0 had granted (%d,%d); its successor starts at (%d,%d)", g.Physical, g.Logical, t.Physical, t.Logical),
				map[string]interface{}{"granted": []int64{g.Physical, g.Logical}, "successor": []int64{t.Physical, t.Logical}})
		}
		return
	}
}

// tickRaceProbe: four callers ask one allocator for timestamps as fast as they can while the periodic update moves the physical
// time on, millisecond after millisecond (each move restarts the logical part). Whatever the request path reads and whatever
// it adds, it is one atomic step against those moves: no value is handed out twice and every caller's answers increase.
func tickRaceProbe(e *etcdx.Etcd, admin *clientv3.Client, root string, R *res.Result, prop string) {
	w := &world{e: e, admin: admin, root: root}
	defer e.CloseFrom(e.Mark())
	w.mems = append(w.mems, w.newMember(0))
	a := w.mems[0]
	if err := a.m.CampaignLeader(60); err != nil {
		return
	}
	if err := a.alloc.Initialize(0); err != nil {
		return
	}
	defer a.am.ResetAllocatorGroup(tso.GlobalDCLocation)
	type ts struct{ p, l int64 }
	var stopFlag int32
	var wg sync.WaitGroup
	per := make([][]ts, 4)
	for g := 0; g < 4; g++ {
		wg.Add(1)
		go func(g int) {
			defer wg.Done()
			for atomic.LoadInt32(&stopFlag) == 0 {
				cnt := uint32(1 + g)
				t, err := a.alloc.GenerateTSO(cnt)
				if err != nil {
					continue
				}
				per[g] = append(per[g], ts{t.Physical, t.Logical})
			}
		}(g)
	}
	stop := time.Now().Add(200 * time.Millisecond)
	ticks := 0
	for time.Now().Before(stop) {
		if err := w.safe("UpdateTSO", a.alloc.UpdateTSO); err != nil {
			break
		}
		ticks++
		time.Sleep(300 * time.Microsecond)
	}
	atomic.StoreInt32(&stopFlag, 1)
	wg.Wait()
	R.CountN("tick-race:ticks", ticks)
	seen := map[ts]int{}
	n := 0
	for g := range per {
		cnt := int64(1 + g)
		for i, t := range per[g] {
			n++
			if i > 0 {
				q := per[g][i-1]
				if t.p < q.p || (t.p == q.p && t.l-cnt+1 <= q.l) {
					R.Violate(prop+":timestamp-went-back:request-racing-with-the-update-tick",
						fmt.Sprintf("one caller got (%d,%d) for %d timestamps after it had got (%d,%d), while the update moved the physical time on every millisecond", t.p, t.l, cnt, q.p, q.l),
						map[string]interface{}{"earlier": []int64{q.p, q.l}, "later": []int64{t.p, t.l}, "count": cnt})
					return
				}
			}
			for v := t.l - cnt + 1; v <= t.l; v++ {
				k := ts{t.p, v}
				if o, dup := seen[k]; dup {
					R.Violate(prop+":duplicate-timestamp:request-racing-with-the-update-tick",
						fmt.Sprintf("the value (%d,%d) was handed to caller %d and to caller %d while the update moved the physical time on every millisecond", t.p, v, o, g),
						map[string]interface{}{"physical": t.p, "logical": v})
					return
				}
				seen[k] = g
			}
		}
	}
	R.CountN("tick-race:answers", n)
}

// reelectedDuringSaveProbe: the allocator is always taken from the manager the way the daemon and the request path do. The
// periodic update of term 1 has its window write held back inside etcd's client; the member loses the leadership (group
// reset, ResetLeader) and wins the next election again - same member value, so the late write still passes the leader
// guard. The new term's Initialize, timestamps granted in the new term and the late write then race: whatever order the code
// allows, the stored window never goes back and every granted timestamp stays below it once the writes have landed.
func reelectedDuringSaveProbe(e *etcdx.Etcd, admin *clientv3.Client, root string, R *res.Result, prop string) {
	w := &world{e: e, admin: admin, root: root}
	defer e.CloseFrom(e.Mark())
	w.mems = append(w.mems, w.newMember(0))
	a := w.mems[0]
	cur := func() tso.Allocator {
		x, err := a.am.GetAllocator(tso.GlobalDCLocation)
		if err != nil {
			panic(err)
		}
		return x
	}
	if err := a.m.CampaignLeader(60); err != nil {
		return
	}
	if err := cur().Initialize(0); err != nil {
		return
	}
	defer func() { a.am.ResetAllocatorGroup(tso.GlobalDCLocation) }()
	a.ctl.Filter = func(ops []clientv3.Op) bool {
		for _, o := range ops {
			if o.IsPut() && strings.HasSuffix(string(o.KeyBytes()), "/timestamp") {
				return true
			}
		}
		return false
	}
	defer func() { a.ctl.Filter = nil; a.ctl.SetNext(etcdx.Pass) }()
	for round := 0; round < 6; round++ {
		if _, err := cur().GenerateTSO(1); err != nil {
			return
		}
		time.Sleep(saveInterval) // the window is used up: the next update has to save
		old := cur()
		a.ctl.SetNext(etcdx.Park)
		upd := make(chan error, 1)
		go func() { upd <- w.safe("UpdateTSO", old.UpdateTSO) }()
		select {
		case <-a.ctl.Parked():
		case <-upd:
			a.ctl.SetNext(etcdx.Pass)
			continue
		case <-time.After(5 * time.Second):
			return
		}
		w0 := w.window()
		// term 1 ends, the same member wins term 2
		a.am.ResetAllocatorGroup(tso.GlobalDCLocation)
		a.m.ResetLeader()
		if err := a.m.CampaignLeader(60); err != nil {
			a.ctl.Release(etcdx.Pass)
			<-upd
			return
		}
		ini := make(chan error, 1)
		go func() { ini <- w.safe("Initialize", func() error { return cur().Initialize(0) }) }()
		var g *pdpb.Timestamp
		select {
		case err := <-ini: // the new term did not wait for the write of the old one
			if err == nil {
				if t, err := cur().GenerateTSO(1); err == nil {
					g = &t
				}
			}
			ini <- err
		case <-time.After(300 * time.Millisecond): // it waits (one window, one lock): let the old write go first
		}
		w1 := w.window()
		a.ctl.Release(etcdx.Pass)
		<-upd
		if err := <-ini; err != nil {
			return
		}
		time.Sleep(50 * time.Millisecond)
		w2 := w.window()
		if g == nil {
			if t, err := cur().GenerateTSO(1); err == nil {
				g = &t
			}
		}
		R.Count("re-elected-during-save:probed")
		for _, pr := range [][2]*int64{{w0, w1}, {w1, w2}, {w0, w2}} {
			if pr[0] != nil && pr[1] != nil && *pr[1] < *pr[0] {
				R.Violate(prop+":stored-window-decreased:re-elected-while-a-window-write-was-in-flight",
					fmt.Sprintf("the update of term 1 had its window write held back; the member lost the leadership and won it again; the stored window went from %d to %d", *pr[0], *pr[1]),
					map[string]interface{}{"before": *pr[0], "after": *pr[1], "scenario": "Elect; Sync; Gen; sleep; UpdateTSO with its window write held back; group reset; ResetLeader; Elect (same member); Sync; write released"})
				return
			}
		}
		if g != nil && w2 != nil && g.Physical*1e6 >= *w2 {
			R.Violate(prop+":granted-timestamp-not-below-stored-window:re-elected-while-a-window-write-was-in-flight",
				fmt.Sprintf("after that history term 2 granted physical %d ms while the stored window is %d ns", g.Physical, *w2),
				map[string]interface{}{"granted_physical_ms": g.Physical, "window_ns": *w2})
			return
		}
	}
}

// readBackFaultProbe: two faults at particular points. A reset ten minutes ahead is applied by etcd but reported as failed
// (the answer is lost): the window in etcd is now far ahead of the one the allocator remembers. When the periodic update
// reaches the edge of the remembered window it has to read the stored window back first; that read fails (reads fail, writes
// work). The update must give up (the daemon then resets the allocator, as updateAllocator does here) - it must not decide
// about its save against the stale memory, which would write a smaller window over the larger one.
func readBackFaultProbe(e *etcdx.Etcd, admin *clientv3.Client, root string, R *res.Result, prop string) {
	w := &world{e: e, admin: admin, root: root}
	defer e.CloseFrom(e.Mark())
	var keep *etcdx.KeepCtl
	w.newClient = func() (*clientv3.Client, *etcdx.CtlKV, error) {
		cli, ctl, k, err := e.NewClientKeep()
		keep = k
		return cli, ctl, err
	}
	w.mems = append(w.mems, w.newMember(0))
	a := w.mems[0]
	defer func() { keep.FailRanges(0); a.ctl.SetNext(etcdx.Pass); a.am.ResetAllocatorGroup(tso.GlobalDCLocation) }()
	if err := a.m.CampaignLeader(60); err != nil {
		return
	}
	if err := a.alloc.Initialize(0); err != nil {
		return
	}
	if _, err := a.alloc.GenerateTSO(1); err != nil {
		return
	}
	a.ctl.Filter = func(ops []clientv3.Op) bool {
		for _, o := range ops {
			if o.IsPut() && strings.HasSuffix(string(o.KeyBytes()), "/timestamp") {
				return true
			}
		}
		return false
	}
	defer func() { a.ctl.Filter = nil }()
	a.ctl.SetNext(etcdx.FailAfter)
	if err := a.alloc.SetTSO(compose(time.Now().UnixNano()/1e6+600*1000, 0)); err == nil {
		return // the reset was acknowledged: not the history this probe is about
	}
	w1 := w.window()
	R.Count("read-back-fault:probed")
	var w2 *int64
	for round := 0; round < 6; round++ {
		time.Sleep(saveInterval) // the remembered window is used up: the next update has to save
		keep.FailRanges(3)
		err := w.safe("UpdateTSO", a.alloc.UpdateTSO)
		keep.FailRanges(0)
		w2 = w.window()
		if w1 != nil && w2 != nil && *w2 < *w1 {
			R.Violate(prop+":stored-window-decreased:read-back-failed-after-a-lost-answer",
				fmt.Sprintf("a reset ten minutes ahead was applied by etcd (window %d) but reported as failed; the next update's read of the stored window failed; the update stored %d over it", *w1, *w2),
				map[string]interface{}{"window_after_lost_answer": *w1, "window_after_update": *w2,
					"scenario": "Elect; Sync; Gen; SetTSO(+10min) applied, answer lost; sleep; UpdateTSO while reads of the window fail"})
			return
		}
		if err != nil {
			R.Count("read-back-fault:update-gave-up")
			a.am.ResetAllocatorGroup(tso.GlobalDCLocation) // updateAllocator
			a.m.ResetLeader()
			if err := a.m.CampaignLeader(60); err != nil {
				return
			}
			if err := a.alloc.Initialize(0); err != nil {
				return
			}
			if w3 := w.window(); w1 != nil && w3 != nil && *w3 < *w1 {
				R.Violate(prop+":stored-window-decreased:read-back-failed-after-a-lost-answer",
					fmt.Sprintf("... the member was elected again and stored %d over the window %d", *w3, *w1), nil)
			}
			return
		}
	}
}

// updateReadRaceCase (run alone, after the workers: it replaces the process-wide logger): the periodic update is stopped
// right after it read the memory and the clock (a zap core blocks on its "clock offset" line, which also tells the clock
// reading), a reset into the very millisecond of that reading is accepted and timestamps are granted, then the update
// continues: setTSOPhysical must not treat a later instant of the SAME millisecond as an advance (the logical part would
// restart at 0 in a millisecond that has already handed out values). The history is replayed by Coq like any other case.
func updateReadRaceCase(e *etcdx.Etcd, admin *clientv3.Client, root string) (caseRec, bool) {
	w := &world{e: e, admin: admin, root: root}
	defer e.CloseFrom(e.Mark())
	for i := 0; i < 2; i++ {
		w.mems = append(w.mems, w.newMember(i))
	}
	tso.VerifSetMaxRetry(retries)
	var c caseRec
	do := func(o op) string {
		b := w.exec(&o)
		c.Ops = append(c.Ops, o)
		c.Obs = append(c.Obs, b)
		return b
	}
	x := w.mems[0]
	if do(op{K: "Elect", M: 0}) != "BOk" || do(op{K: "Sync", M: 0}) != "BOk" {
		return c, false
	}
	do(op{K: "Gen", M: 0, Count: 1})
	do(op{K: "Read"})
	time.Sleep(4 * time.Millisecond) // more than 3 update intervals: the update logs "clock offset"
	gate := &gateCore{LevelEnabler: zapcore.WarnLevel, msg: "clock offset", parked: make(chan struct{}, 1), release: make(chan struct{}, 1), armed: true}
	log.ReplaceGlobals(zap.New(gate), nil)
	defer srv15.Quiet()
	done := make(chan error, 1)
	go func() { done <- w.safe("UpdateTSO", x.alloc.UpdateTSO) }()
	select {
	case <-gate.parked:
	case <-done:
		return c, false
	case <-time.After(5 * time.Second):
		return c, false
	}
	c.Ops = append(c.Ops, op{K: "UpdRead", M: 0, Now: gate.now})
	c.Obs = append(c.Obs, "BStarted")
	st := x.state()
	do(op{K: "Set", M: 0, TS: compose(gate.now/1e6, st.logical+1000), Rel: "millisecond-of-an-update-in-flight"})
	do(op{K: "State", M: 0})
	do(op{K: "Read"})
	do(op{K: "Gen", M: 0, Count: 3})
	gate.release <- struct{}{}
	err := <-done
	c.Ops = append(c.Ops, op{K: "UpdRest", M: 0})
	if err != nil {
		x.am.ResetAllocatorGroup(tso.GlobalDCLocation)
		c.Obs = append(c.Obs, "BErr")
	} else {
		c.Obs = append(c.Obs, "BOk")
	}
	do(op{K: "State", M: 0})
	do(op{K: "Gen", M: 0, Count: 3})
	do(op{K: "Read"})
	do(op{K: "ResetGroup", M: 0})
	return c, !w.ambig && w.panicked == ""
}

// raceReset: a reset into the current millisecond whose check-to-write span is stretched by a parked window save, while
// requests keep arriving. With the TSO lock held over the whole reset the requests simply wait; if the reset validates and
// writes under different lock sections, its write lands on top of timestamps granted in between. Checked on the Go side:
// every pair of answers that do not overlap in time must be ordered.
func raceReset(e *etcdx.Etcd, admin *clientv3.Client, root string, R *res.Result, prop string) {
	w := &world{e: e, admin: admin, root: root}
	defer e.CloseFrom(e.Mark())
	w.mems = append(w.mems, w.newMember(0))
	x := w.mems[0]
	if err := x.m.CampaignLeader(60); err != nil {
		return
	}
	if err := x.alloc.Initialize(0); err != nil {
		return
	}
	type ans struct{ P, L, C, Begin, End int64 }
	var mu sync.Mutex
	var all []ans
	gen := func(c uint32) {
		b := time.Now().UnixNano()
		t, err := x.alloc.GenerateTSO(c)
		if err == nil {
			mu.Lock()
			all = append(all, ans{t.Physical, t.Logical, int64(c), b, time.Now().UnixNano()})
			mu.Unlock()
		}
	}
	for i := 0; i < 5; i++ {
		gen(1)
	}
	time.Sleep(7 * time.Millisecond) // a window save is due now
	x.ctl.SetNext(etcdx.Park)
	updDone := make(chan error, 1)
	go func() { updDone <- w.safe("UpdateTSO", x.alloc.UpdateTSO) }()
	select {
	case <-x.ctl.Parked():
	case <-updDone:
		x.ctl.SetNext(etcdx.Pass)
		return // no save was due: nothing to test in this run
	case <-time.After(10 * time.Second):
		panic("driver: raceReset: update neither parked nor done")
	}
	st := x.state()
	target := compose(st.phys/1e6, st.logical+50)
	setDone := make(chan error, 1)
	go func() { setDone <- w.safe("SetTSO", func() error { return x.alloc.SetTSO(target) }) }()
	time.Sleep(30 * time.Millisecond) // the reset has passed its checks and waits for the save section
	var wg sync.WaitGroup
	for i := 0; i < 4; i++ {
		wg.Add(1)
		go func() { defer wg.Done(); gen(40) }()
	}
	time.Sleep(60 * time.Millisecond)
	x.ctl.Release(etcdx.Pass)
	<-updDone
	<-setDone
	wg.Wait()
	for i := 0; i < 5; i++ {
		gen(1)
	}
	for i := range all {
		for j := range all {
			a, b := all[i], all[j]
			if a.End < b.Begin {
				first := b.L - b.C + 1
				if a.P > b.P || (a.P == b.P && a.L >= first) {
					R.Violate(prop+":timestamp-went-back:reset-racing-with-requests",
						fmt.Sprintf("a request that began after (%d,%d) had been answered got the range ending at (%d,%d) with %d values", a.P, a.L, b.P, b.L, b.C),
						map[string]interface{}{"earlier": a, "later": b, "scenario": "UpdateTSO parked at its save; SetTSO into the current millisecond started; 4 requests of 40; release"})
				}
			}
		}
	}
	R.CountN("raceReset:answers", len(all))
	x.am.ResetAllocatorGroup(tso.GlobalDCLocation)
}

// serverPhase: a complete real server, the real PD client (batching tso dispatcher, first-of-batch formula) with several
// concurrent callers, the allocator daemon running, a SetTSO-like admin reset in the middle and a restart of the server on
// the same data directory. Checked on the Go side: no two answers equal, and an answer obtained by a call that began after
// another call had returned is larger (across the reset and the restart).
func serverPhase(R *res.Result, prop string, dur time.Duration) {
	cfg, err := srv15.Config()
	if err != nil {
		R.Notes = append(R.Notes, "server phase skipped: "+err.Error())
		return
	}
	x, err := srv15.StartWith(cfg)
	if err != nil {
		R.Notes = append(R.Notes, "server phase skipped: "+err.Error())
		return
	}
	type ans struct{ P, L, Begin, End int64 }
	var mu sync.Mutex
	var all []ans
	abandoned := 0
	stuck := false
	run := func(d time.Duration) {
		cli, err := pd.NewClient([]string{cfg.ClientUrls}, pd.SecurityOption{})
		if err != nil {
			R.Notes = append(R.Notes, "pd client: "+err.Error())
			return
		}
		defer func() {
			closed := make(chan struct{})
			go func() { cli.Close(); close(closed) }()
			select {
			case <-closed:
			case <-time.After(10 * time.Second):
			}
		}()
		stop := time.Now().Add(d)
		var wg sync.WaitGroup
		for k := 0; k < 6; k++ {
			wg.Add(1)
			go func() {
				defer wg.Done()
				for time.Now().Before(stop) {
					b := time.Now().UnixNano()
					ctx, cancel := context.WithTimeout(context.Background(), 3*time.Second)
					p, l, err := cli.GetTS(ctx)
					cancel()
					if err == nil {
						mu.Lock()
						all = append(all, ans{p, l, b, time.Now().UnixNano()})
						mu.Unlock()
					}
				}
			}()
		}
		// one more caller whose requests are often abandoned while in flight (contexts that end after 20-500 us): what
		// it and the others receive afterwards is checked like every other answer
		wg.Add(1)
		go func() {
			defer wg.Done()
			k := 0
			for time.Now().Before(stop) {
				k++
				b := time.Now().UnixNano()
				ctx, cancel := context.WithTimeout(context.Background(), time.Duration(20+(k*37)%480)*time.Microsecond)
				p, l, err := cli.GetTS(ctx)
				cancel()
				mu.Lock()
				if err == nil {
					all = append(all, ans{p, l, b, time.Now().UnixNano()})
				} else {
					abandoned++
				}
				mu.Unlock()
				// a few ordinary calls right after an abandoned one
				for j := 0; j < 3 && err != nil; j++ {
					b := time.Now().UnixNano()
					ctx, cancel := context.WithTimeout(context.Background(), 3*time.Second)
					p, l, err2 := cli.GetTS(ctx)
					cancel()
					if err2 == nil {
						mu.Lock()
						all = append(all, ans{p, l, b, time.Now().UnixNano()})
						mu.Unlock()
					}
				}
			}
		}()
		waited := make(chan struct{})
		go func() { wg.Wait(); close(waited) }()
		select {
		case <-waited:
		case <-time.After(d + 20*time.Second):
			// callers that never return (every call carries a time-out of its own): give up on them, judge what was answered
			mu.Lock()
			stuck = true
			mu.Unlock()
		}
	}
	run(dur / 2)
	// admin reset 3 s ahead through the handler (what pd-ctl `tso reset` does)
	if a, err := x.S.GetTSOAllocatorManager().GetAllocator(tso.GlobalDCLocation); err == nil {
		a.SetTSO(compose(time.Now().UnixNano()/1e6+3000, 0))
	}
	run(dur / 4)
	x.Stop()
	x2, err := srv15.StartWith(cfg)
	if err != nil {
		R.Notes = append(R.Notes, "server restart failed: "+err.Error())
		os.RemoveAll(cfg.DataDir)
		return
	}
	run(dur / 4)
	x2.Close()
	mu.Lock()
	snap := append([]ans(nil), all...) // callers that were given up on may still be appending to `all`
	mu.Unlock()
	seen := map[[2]int64]bool{}
	for _, a := range snap {
		k := [2]int64{a.P, a.L}
		if seen[k] {
			R.Violate(prop+":duplicate-timestamp:real-server", fmt.Sprintf("the timestamp (%d,%d) was handed out twice by a real server / real client", a.P, a.L), a)
		}
		seen[k] = true
	}
	// real-time order, on a bounded sample sorted by begin
	n := len(snap)
	if n > 6000 {
		n = 6000
	}
	for i := 0; i < n; i++ {
		for j := 0; j < n; j++ {
			a, b := snap[i], snap[j]
			if a.End < b.Begin && (a.P > b.P || (a.P == b.P && a.L >= b.L)) {
				R.Violate(prop+":timestamp-went-back:real-server", fmt.Sprintf("a call that began after (%d,%d) had been returned got (%d,%d)", a.P, a.L, b.P, b.L),
					map[string]interface{}{"earlier": a, "later": b})
			}
		}
	}
	R.CountN("server:answers", len(snap))
	R.CountN("server:abandoned-requests", abandoned)
	if stuck {
		R.Notes = append(R.Notes, "server phase: some client calls never returned although each carries a time-out; the answers received until then were judged")
		R.Count("server:callers-stuck")
	}
}

// localBurstProbe: a real server with Local TSO (suffix width 1, or 2 after the life-cycle history below added dc-locations): bursts of 40000 timestamps are
// requested from the Local allocator inside one physical tick. Every answer's logical part (suffix included) must fit
// the 18-bit field, and the composed 64-bit values must keep increasing; the allocator may refuse instead.
func localBurstProbe(R *res.Result, prop string) {
	cfg, err := srv15.Config()
	if err != nil {
		return
	}
	cfg.EnableLocalTSO = true
	cfg.Labels = map[string]string{config.ZoneLabel: "dc-1"}
	cfg.TSOUpdatePhysicalInterval = typeutil.NewDuration(time.Second)
	x, err := srv15.StartWith(cfg)
	if err != nil {
		R.Notes = append(R.Notes, "local burst probe skipped: "+err.Error())
		return
	}
	defer x.Close()
	am := x.S.GetTSOAllocatorManager()
	deadline := time.Now().Add(30 * time.Second)
	for {
		am.ClusterDCLocationChecker()
		a, err := am.GetAllocator("dc-1")
		if err == nil && a.IsInitialize() && a.(*tso.LocalTSOAllocator).IsAllocatorLeader() {
			break
		}
		if time.Now().After(deadline) {
			R.Notes = append(R.Notes, "local burst probe skipped: the Local allocator of dc-1 never served")
			return
		}
		time.Sleep(50 * time.Millisecond)
	}
	// concurrent requests on one Local allocator (suffix width >= 1): whatever the server does to serve them together,
	// the ranges (stride 2^width) are pairwise disjoint and every value carries the allocator's suffix
	{
		type rng struct{ p, hi, lo, w int64 }
		var cmu sync.Mutex
		var got []rng
		var cwg sync.WaitGroup
		// one caller asks for more than the logical part can hold: its request stays in the retry loop of getTS (50 ms
		// per retry) and the others keep arriving while it is in flight - on a loaded machine, too
		bigDone := make(chan struct{})
		go func() {
			defer close(bigDone)
			for k := 0; k < 3; k++ {
				_, err := am.HandleTSORequest("dc-1", 1<<18)
				if err == nil {
					R.Count("local-concurrent:oversized-request-answered")
				}
				time.Sleep(20 * time.Millisecond)
			}
		}()
		for g := 0; g < 6; g++ {
			cwg.Add(1)
			go func(g int) {
				defer cwg.Done()
				for k := 0; ; k++ {
					if k >= 150 {
						select {
						case <-bigDone:
							return
						default:
						}
						if k >= 3000 {
							return
						}
					}
					cnt := uint32(1 + (g+k)%5)
					t, err := am.HandleTSORequest("dc-1", cnt)
					if err != nil {
						time.Sleep(time.Millisecond)
						continue
					}
					cmu.Lock()
					got = append(got, rng{t.Physical, t.Logical, t.Logical - int64(cnt-1)<<t.SuffixBits, int64(t.SuffixBits)})
					cmu.Unlock()
				}
			}(g)
		}
		cwg.Wait()
		<-bigDone
		R.CountN("local-concurrent:answers", len(got))
		seenV := map[[2]int64]bool{}
		sfx := int64(-1)
	scan:
		for _, r := range got {
			for v := r.lo; v <= r.hi; v += 1 << uint(r.w) {
				if s := v & (1<<uint(r.w) - 1); sfx < 0 {
					sfx = s
				} else if s != sfx {
					R.Violate(prop+":value-with-another-suffix:concurrent-requests-on-a-local-allocator",
						fmt.Sprintf("concurrent requests on the Local allocator of dc-1: the value (%d,%d) of an answer with suffix width %d carries suffix %d, other answers carry %d", r.p, v, r.w, s, sfx),
						map[string]interface{}{"physical": r.p, "logical": v, "suffix_bits": r.w})
					break scan
				}
				k := [2]int64{r.p, v}
				if seenV[k] {
					R.Violate(prop+":overlapping-ranges:concurrent-requests-on-a-local-allocator",
						fmt.Sprintf("concurrent requests on the Local allocator of dc-1 (suffix width %d): the value (%d,%d) belongs to two answers", r.w, r.p, v),
						map[string]interface{}{"physical": r.p, "logical": v, "suffix_bits": r.w})
					break scan
				}
				seenV[k] = true
			}
		}
	}
	// a dc-location whose members all leave and which comes back: the returning allocator continues above what it
	// granted, and the stored window of the dc-location never goes back (nor away)
	if o := dclife.LeaveAndReturn(x.S, "dc-life", 525252, "dc-late", 535353); o.Skipped != "" {
		R.Notes = append(R.Notes, "dc-location life-cycle probe incomplete: "+o.Skipped)
	} else {
		R.Count("dc-life:probed")
		wv := func(p *uint64) string {
			if p == nil {
				return "absent"
			}
			return fmt.Sprint(*p)
		}
		lost := func(p *uint64) bool { return o.WinBefore != nil && (p == nil || *p < *o.WinBefore) }
		if lost(o.WinWhileAway) || lost(o.WinAfter) {
			R.Violate(prop+":stored-window-decreased:dc-location-left-and-returned",
				fmt.Sprintf("the Local allocator of dc-life had stored the window %s; after all members of the dc-location were removed the key is %s, after the dc-location returned %s", wv(o.WinBefore), wv(o.WinWhileAway), wv(o.WinAfter)),
				map[string]interface{}{"before": wv(o.WinBefore), "away": wv(o.WinWhileAway), "after": wv(o.WinAfter)})
		}
		if o.TSAfter.Physical < o.TSBefore.Physical || (o.TSAfter.Physical == o.TSBefore.Physical && o.TSAfter.Logical <= o.TSBefore.Logical) {
			R.Violate(prop+":timestamp-went-back:dc-location-left-and-returned",
				fmt.Sprintf("the Local allocator of dc-life answered (%d,%d), lost all its members, came back and answered (%d,%d)", o.TSBefore.Physical, o.TSBefore.Logical, o.TSAfter.Physical, o.TSAfter.Logical),
				map[string]interface{}{"before": []int64{o.TSBefore.Physical, o.TSBefore.Logical}, "after": []int64{o.TSAfter.Physical, o.TSAfter.Logical}})
		}
	}
	var last uint64
	for k := 0; k < 5; k++ {
		t, err := am.HandleTSORequest("dc-1", 40000)
		if err != nil {
			R.Count("local-burst:refused")
			continue
		}
		R.Count("local-burst:answered")
		first := t.Logical - int64(40000-1)<<t.SuffixBits
		if t.Logical >= 1<<18 || first < 0 {
			R.Violate(prop+":logical-does-not-fit-18-bits:local-allocator-burst",
				fmt.Sprintf("request %d of 40000 timestamps from the Local allocator of dc-1 (suffix width %d) was answered (physical %d, logical %d): the logical part does not fit its 18-bit field, the composed value runs into the physical part", k+1, t.SuffixBits, t.Physical, t.Logical),
				map[string]interface{}{"physical": t.Physical, "logical": t.Logical, "suffix_bits": t.SuffixBits, "request": k + 1, "count": 40000})
			return
		}
		lo := uint64(t.Physical)<<18 + uint64(first)
		if lo <= last {
			R.Violate(prop+":composed-timestamp-went-back:local-allocator-burst",
				fmt.Sprintf("request %d: first composed value %d is not above the last value %d of the request before", k+1, lo, last),
				map[string]interface{}{"physical": t.Physical, "logical": t.Logical, "suffix_bits": t.SuffixBits, "request": k + 1})
			return
		}
		last = uint64(t.Physical)<<18 + uint64(t.Logical)
	}
	// every dc-location disappears (scale-in of the last labelled members): the Global allocator goes back to its plain
	// path. It is still the same allocator: what it answers has to stay above what it answered while dc-locations existed.
	g1, err := am.HandleTSORequest(tso.GlobalDCLocation, 50)
	if err != nil {
		R.Notes = append(R.Notes, "last-dc-location probe skipped: "+err.Error())
		return
	}
	for _, id := range []uint64{x.S.GetMember().ID(), 525252, 525253, 535353} {
		x.S.GetMember().DeleteMemberDCLocationInfo(id)
	}
	gone := false
	for deadline := time.Now().Add(10 * time.Second); time.Now().Before(deadline); time.Sleep(50 * time.Millisecond) {
		am.ClusterDCLocationChecker()
		if am.GetClusterDCLocationsNumber() == 0 {
			gone = true
			break
		}
	}
	if !gone {
		R.Notes = append(R.Notes, "last-dc-location probe skipped: dc-locations still known after 10 s")
		return
	}
	for deadline := time.Now().Add(5 * time.Second); time.Now().Before(deadline); time.Sleep(20 * time.Millisecond) {
		g2, err := am.HandleTSORequest(tso.GlobalDCLocation, 1)
		if err != nil {
			continue
		}
		R.Count("last-dc-location:probed")
		if g2.Physical < g1.Physical || (g2.Physical == g1.Physical && g2.Logical <= g1.Logical) {
			R.Violate(prop+":timestamp-went-back:last-dc-location-removed",
				fmt.Sprintf("while dc-locations existed the Global allocator answered (%d,%d) with suffix width %d; every dc-location was removed; the same allocator then answered (%d,%d) with suffix width %d", g1.Physical, g1.Logical, g1.SuffixBits, g2.Physical, g2.Logical, g2.SuffixBits),
				map[string]interface{}{"before": []int64{g1.Physical, g1.Logical, int64(g1.SuffixBits)}, "after": []int64{g2.Physical, g2.Logical, int64(g2.SuffixBits)}})
		}
		break
	}
}

// prefill writes n keys that sort before "timestamp" under root (stores, regions, rules of a populated cluster).
func prefill(admin *clientv3.Client, root string, n int) {
	for base := 0; base < n; base += 100 {
		ops := make([]clientv3.Op, 0, 100)
		for k := base; k < base+100; k++ {
			ops = append(ops, clientv3.OpPut(fmt.Sprintf("%s/raft/s/%020d", root, k), "x"))
		}
		var err error
		for try := 0; try < 4; try++ { // puts are idempotent: an etcd that timed out on a loaded machine is asked again
			ctx, cancel := context.WithTimeout(context.Background(), 10*time.Second)
			_, err = admin.Txn(ctx).Then(ops...).Commit()
			cancel()
			if err == nil {
				break
			}
			time.Sleep(500 * time.Millisecond)
		}
		if err != nil {
			panic(err)
		}
	}
}

type job struct {
	idx   int
	fixed []op
}

func main() {
	seed := flag.Uint64("seed", 1, "")
	n := flag.Int("n", 200, "number of generated cases")
	out := flag.String("out", ".", "output directory")
	tier := flag.String("tier", "quick", "")
	prop := flag.String("prop", "C01", "C01 or C02 (same cases, the property id of the result file)")
	corpus := flag.String("corpus", "", "json file of fixed op lists run first")
	replay := flag.String("replay", "", "json file with op lists: run and print observations")
	workers := flag.Int("workers", 8, "")
	serverMs := flag.Int("server-ms", 2400, "duration of the real-server / real-client phase")
	flag.Parse()

	R := res.New(*prop, *seed, *tier)
	R.Rule = "histories on two real AllocatorManager/GlobalTSOAllocator objects sharing an embedded etcd (save interval 5 ms so that window saves are " +
		"due every few ms): CampaignLeader, Initialize, UpdateTSO as updateAllocator runs it, SetTSO with targets smaller / equal / inside / beyond " +
		"the window / +1h / beyond the reset gap, GenerateTSO with counts 1, small, 2^17, 2^18-1, exactly-fitting, too large; calls complete or parked " +
		"at their etcd save and released with Ok / ErrNotApplied / ErrApplied; allocator and group resets; memory of both members and the stored " +
		"window are read after every operation; non-trivial = a window save by two different code paths, or a hand-over, or a fault; distinct by sha256 of canonical (ops,obs)"
	cf := &coqfmt.CaseFile{Dir: *out, Prefix: *prop, PerFile: 50,
		Header: "From Coq Require Import ZArith String.\nFrom PDV Require Import lib.Base model.C01_Tso model.C01_TsoOps.\nLocal Open Scope Z_scope.\nOpen Scope string_scope.\n",
		Type:   "tcase",
		Footer: "Definition M := Eval vm_compute in map fst (mismatches cases).\nDefinition D := Eval vm_compute in hd_error (mismatches cases).\nDefinition V := Eval vm_compute in monitor_fails_" + strings.ToLower(*prop) + " cases.\nPrint M. Print D. Print V.\n"}

	var jobs []job
	for _, f := range []string{*corpus, *replay} {
		if f == "" {
			continue
		}
		b, err := os.ReadFile(f)
		if err != nil {
			panic(err)
		}
		var l [][]op
		if err := json.Unmarshal(b, &l); err != nil {
			var wr struct {
				Replay struct{ Ops []op }
			}
			if err2 := json.Unmarshal(b, &wr); err2 != nil || len(wr.Replay.Ops) == 0 {
				panic(err)
			}
			l = [][]op{wr.Replay.Ops}
		}
		for _, ops := range l {
			jobs = append(jobs, job{len(jobs), ops})
		}
	}
	ngen := 0
	if *replay == "" {
		for _, sc := range scenarios() {
			jobs = append(jobs, job{len(jobs), sc})
		}
		ngen = *n
	}
	nfixed := len(jobs)
	for k := 0; k < ngen; k++ {
		jobs = append(jobs, job{len(jobs), nil})
	}
	// watchdog: a blocked call means the driver scheduled something the locks forbid
	go func() {
		time.Sleep(10 * time.Minute)
		fmt.Fprintln(os.Stderr, "driver watchdog: still running after 10 minutes")
		os.Exit(3)
	}()
	results := make([]*caseRec, len(jobs))
	var vmu sync.Mutex
	master := rng.New(*seed)
	ch := make(chan job)
	var wg sync.WaitGroup
	for wk := 0; wk < *workers; wk++ {
		wg.Add(1)
		go func() {
			defer wg.Done()
			e, err := etcdx.Start()
			if err != nil {
				fmt.Fprintln(os.Stderr, "etcd:", err)
				os.Exit(2)
			}
			defer e.Close()
			admin, _, err := e.NewClient()
			if err != nil {
				panic(err)
			}
			for j := range ch {
				root := fmt.Sprintf("/c01/%d/r", j.idx)
				if len(j.fixed) > 0 && j.fixed[0].K == "Prefill" {
					prefill(admin, root, int(j.fixed[0].Count)) // a scenario that asks for a populated cluster of its own size
					j.fixed = j.fixed[1:]
				} else if j.idx%5 == 2 {
					prefill(admin, root, 1100) // a populated cluster: more than a thousand keys of other kinds under the root path
				}
				c, ok, pan := runCase(e, admin, root, master.Fork(uint64(j.idx-nfixed)), j.fixed, 40)
				if pan != "" {
					vmu.Lock()
					R.Violate(*prop+":implementation-panicked", "a call of the real TSO code panicked: "+pan, map[string]interface{}{"ops": c.Ops, "obs": c.Obs})
					vmu.Unlock()
				}
				if ok {
					results[j.idx] = &c
				}
			}
		}()
	}
	for _, j := range jobs {
		ch <- j
	}
	close(ch)
	wg.Wait()
	if *replay == "" {
		if e, err := etcdx.Start(); err == nil {
			if admin, _, err := e.NewClient(); err == nil {
				for k := 0; k < 3; k++ {
					raceReset(e, admin, fmt.Sprintf("/c01/race%d", k), R, *prop)
				}
				overflowRace(e, admin, "/c01/overflow", R, *prop)
				delayedWindowWriteProbe(e, admin, "/c01/delayed/r", R, *prop)
				tickRaceProbe(e, admin, "/c01/tickrace/r", R, *prop)
				reelectedDuringSaveProbe(e, admin, "/c01/reelected/r", R, *prop)
				readBackFaultProbe(e, admin, "/c01/readback/r", R, *prop)
				if c, ok := updateReadRaceCase(e, admin, "/c01/updread/r"); ok {
					results = append(results, &c)
					R.Count("update-read-race:case")
				}
			}
			e.Close()
		}
		var forward chan func(*res.Result)
		if *prop == "C01" { // after updateReadRaceCase, which owns the process-wide logger while it runs
			forward = make(chan func(*res.Result), 1)
			go func() { forward <- forwardPhase(*prop) }() // in the background: mostly waiting for elections and transfers
		}
		lateKeepAliveProbe(R, *prop)
		localBurstProbe(R, *prop)
		serverPhase(R, *prop, time.Duration(*serverMs)*time.Millisecond)
		if forward != nil {
			(<-forward)(R)
		}
	}

	var all []caseRec
	for _, c := range results {
		if c == nil {
			R.Count("discarded:unrecoverable-clock-reading-near-a-threshold")
			continue
		}
		paths := map[string]bool{}
		elected := map[int]bool{}
		faults := 0
		for i, o := range c.Ops {
			R.Count("op:" + o.K)
			ob := strings.Fields(c.Obs[i])[0]
			R.Count("obs:" + ob)
			if o.Rel != "" {
				R.Count("settso:" + o.Rel)
			}
			if o.K == "Gen" {
				switch {
				case o.Count == 1:
					R.Count("count:1")
				case o.Count < 1000:
					R.Count("count:small")
				case o.Count >= 1<<18:
					R.Count("count:too-large")
				default:
					R.Count("count:large")
				}
			}
			if o.Out != 0 {
				faults++
			}
			if o.K == "Elect" && ob == "BOk" {
				elected[o.M] = true
			}
			if (o.K == "Sync" || o.K == "SyncEnd" || o.K == "Upd" || o.K == "UpdEnd" || o.K == "Set" || o.K == "SetEnd") && ob == "BOk" {
				paths[o.K[:3]] = true
			}
		}
		txt := c.coq()
		R.Case(txt, len(paths) > 1 || len(elected) > 1 || faults > 0)
		R.Sample(map[string]interface{}{"ops": c.Ops, "obs": c.Obs})
		if err := cf.Add(txt); err != nil {
			panic(err)
		}
		all = append(all, *c)
		if *replay != "" {
			for i := range c.Ops {
				fmt.Printf("%-60s -> %s\n", c.Ops[i].coq(), c.Obs[i])
			}
		}
	}
	if err := cf.Flush(); err != nil {
		panic(err)
	}
	R.CaseFiles = cf.Files
	b, _ := json.Marshal(all)
	os.WriteFile(path.Join(*out, "cases.json"), b, 0o644)
	if err := R.Write(path.Join(*out, "result.json")); err != nil {
		panic(err)
	}
}
