// Leadership round trip for C15: two REAL members on one etcd cluster. The PD leadership goes A -> B -> A without any
// restart (etcd leadership is moved with Member.MoveEtcdLeader, then the PD leader resets its leadership; only the etcd
// leader campaigns), and GC safe point requests are served by whoever leads. The history is emitted as an ordinary case
// (the model has one store and stateless handlers, so it does not care which member answers): the monotonicity monitors
// name it if a member serves something it remembered from its earlier term.
// (startCluster is a copy of the function of the same name in harness/cmd/c05/cluster.go, without Local TSO.)
package main

import (
	"context"
	"fmt"
	"os"
	"path"
	"strings"
	"sync"
	"time"

	"github.com/tikv/pd/server"
	"github.com/tikv/pd/server/config"
	"github.com/tikv/pd/server/kv"

	"pdverif/internal/kvx15"
	"pdverif/internal/srv15"
)

type node struct {
	s      *server.Server
	cfg    *config.Config
	cancel context.CancelFunc
}

type cluster struct{ nodes []*node }

func (c *cluster) stop() {
	var wg sync.WaitGroup
	for _, x := range c.nodes {
		if x != nil {
			wg.Add(1)
			go func(x *node) {
				defer wg.Done()
				x.s.Close()
				x.cancel()
				os.RemoveAll(x.cfg.DataDir)
			}(x)
		}
	}
	wg.Wait()
}

func (c *cluster) leader() *node {
	for _, x := range c.nodes {
		if !x.s.IsClosed() && x.s.GetMember().IsLeader() {
			return x
		}
	}
	return nil
}

func waitFor(d time.Duration, f func() bool) bool {
	deadline := time.Now().Add(d)
	for time.Now().Before(deadline) {
		if f() {
			return true
		}
		time.Sleep(20 * time.Millisecond)
	}
	return f()
}

func startCluster(n int) (*cluster, error) {
	cfgs := make([]*config.Config, n)
	var peers []string
	for i := 0; i < n; i++ {
		cfg, err := srv15.Config()
		if err != nil {
			return nil, err
		}
		cfg.Name = fmt.Sprintf("pd%d", i+1)
		cfgs[i] = cfg
		peers = append(peers, fmt.Sprintf("%s=%s", cfg.Name, cfg.PeerUrls))
	}
	for _, c := range cfgs {
		c.InitialCluster = strings.Join(peers, ",")
	}
	c := &cluster{nodes: make([]*node, n)}
	errs := make([]error, n)
	var wg sync.WaitGroup
	for i := range cfgs {
		wg.Add(1)
		go func(i int) {
			defer wg.Done()
			ctx, cancel := context.WithCancel(context.Background())
			s, err := server.CreateServer(ctx, cfgs[i])
			if err == nil {
				err = s.Run()
			}
			srv15.Quiet()
			if err != nil {
				cancel()
				errs[i] = err
				return
			}
			c.nodes[i] = &node{s: s, cfg: cfgs[i], cancel: cancel}
		}(i)
	}
	wg.Wait()
	for _, e := range errs {
		if e != nil {
			c.stop()
			return nil, e
		}
	}
	return c, nil
}

// moveLeadership makes `to` the PD leader: etcd leadership first (only the etcd leader campaigns), then the current PD
// leader gives up its leadership. Nobody is restarted.
func moveLeadership(c *cluster, to *node) bool {
	from := c.leader()
	if from == nil || from == to {
		return from == to
	}
	if err := from.s.GetMember().MoveEtcdLeader(context.Background(), from.s.GetMember().ID(), to.s.GetMember().ID()); err != nil {
		return false
	}
	from.s.GetMember().ResetLeader()
	return waitFor(30*time.Second, func() bool {
		return c.leader() == to && to.s.GetRaftCluster() != nil
	})
}

// leadershipRoundTrip returns the case to emit (nil if the machinery did not come up) and a cleanup function
func leadershipRoundTrip(main *world) (*caseRec, func()) {
	skip := func(why string) (*caseRec, func()) {
		main.R.Notes = append(main.R.Notes, "leadership round trip incomplete (machinery, not a verdict): "+why)
		return nil, func() {}
	}
	c, err := startCluster(2)
	if err != nil {
		return skip(err.Error())
	}
	cleanup := func() { c.stop() }
	if !waitFor(30*time.Second, func() bool { return c.leader() != nil }) {
		cleanup()
		return skip("no leader")
	}
	a := c.leader()
	b := c.nodes[0]
	if b == a {
		b = c.nodes[1]
	}
	if err := (&srv15.Srv{S: a.s}).Bootstrap(); err != nil {
		cleanup()
		return skip("bootstrap: " + err.Error())
	}
	worlds := map[*node]*world{}
	for _, x := range c.nodes {
		st := x.s.GetStorage()
		kb := kvx15.New(st.Base)
		st.Base = kb
		ekv := kvx15.NewEtcdKV(x.s.GetClient().KV)
		x.s.GetClient().KV = ekv
		w := &world{x: &srv15.Srv{S: x.s}, st: st, b: kb, ek: ekv, raw: kv.NewEtcdKVBase(x.s.GetClient(), path.Dir(x.s.GetClusterRootPath())), ctx: context.Background(), R: main.R}
		for t := 0; t < 3; t++ {
			w.thr = append(w.thr, &thread{who: fmt.Sprintf("t%d", t)})
		}
		worlds[x] = w
	}
	var rec caseRec
	// the requests of this case are served by several members: the model replays it without the per-member mutex
	rec.Ops = append(rec.Ops, op{K: "members"})
	rec.Obs = append(rec.Obs, "(BUnit, "+worlds[a].view()+")")
	on := func(x *node, ops ...op) {
		for _, o := range ops {
			worlds[x].step(&rec, o)
		}
	}
	// A leads: 100 is acknowledged and read
	on(a, op{K: "upd", T: 0, V: 100}, op{K: "get"})
	if !moveLeadership(c, b) {
		skip("leadership did not move to the second member")
		return nil, cleanup
	}
	// B leads: 200 is acknowledged
	on(b, op{K: "get"}, op{K: "upd", T: 0, V: 200}, op{K: "get"})
	if !moveLeadership(c, a) {
		skip("leadership did not move back to the first member")
		return nil, cleanup
	}
	// A leads again, without having been restarted: it must answer from storage, not from its earlier term
	on(a, op{K: "get"}, op{K: "upd", T: 0, V: 150}, op{K: "get"}, op{K: "upd", T: 1, V: 250}, op{K: "get"})
	main.R.Count("leadership-round-trip:A->B->A")
	// a request of A is held just before its write while the leadership moves away: A has compared 300 against 250 ...
	on(a, op{K: "begin", T: 2, V: 300})
	if worlds[a].thr[2].state == 1 {
		if !moveLeadership(c, b) {
			on(a, op{K: "finish", T: 2})
			skip("leadership did not move while a save of the first member was held")
			return nil, cleanup
		}
		// ... B stores and acknowledges 400 ...
		on(b, op{K: "upd", T: 0, V: 400}, op{K: "get"})
		stale := len(rec.Ops)
		// ... then the write of the deposed leader reaches etcd: it must be refused
		on(a, op{K: "finish", T: 2})
		on(b, op{K: "get"})
		if strings.HasPrefix(rec.Obs[stale], "(BResp") {
			main.R.Violate("C15:deposed-leader-save-accepted",
				"member A compared UpdateGCSafePoint(300) against the stored 250 as leader and was held before its write; the leadership moved to B, "+
					"B stored and acknowledged 400; A's write was then accepted by etcd and acknowledged: "+rec.Obs[stale]+", GetGCSafePoint on B: "+rec.Obs[stale+1], rec)
		}
		main.R.Count("leadership-round-trip:held-save-of-deposed-leader")
		// the same with the leadership back at A before the write arrives (the leader key carries A's value again)
		on(b, op{K: "begin", T: 1, V: 500})
		if worlds[b].thr[1].state == 1 && moveLeadership(c, a) {
			on(a, op{K: "upd", T: 0, V: 600}, op{K: "get"})
			if moveLeadership(c, b) {
				aba := len(rec.Ops)
				on(b, op{K: "finish", T: 1}, op{K: "get"})
				if strings.HasPrefix(rec.Obs[aba], "(BResp") {
					main.R.Violate("C15:stale-save-accepted-after-leadership-returned",
						"member B was held before writing 500 (compared against 400), the leadership went B->A (A stored 600)->B, then B's write was accepted: "+rec.Obs[aba], rec)
				}
				main.R.Count("leadership-round-trip:held-save-across-a-leadership-round-trip")
			}
		}
		for _, x := range c.nodes {
			worlds[x].drain(&rec)
		}
	}
	return &rec, cleanup
}
