// Driver for C15: runs the real GC safe point handlers of a bootstrapped real server.Server
// (UpdateGCSafePoint, GetGCSafePoint, UpdateServiceGCSafePoint, and the storage call behind
// DELETE /gc/safepoint/{id}) on generated histories and schedules; the kv.Base inside core.Storage
// is replaced by the parking wrapper kvx15, so an UpdateGCSafePoint request can be held between its
// LoadGCSafePoint and its SaveGCSafePoint while other requests run.  Prints (ops, observations +
// storage view after every op) as Coq terms for model/C15_Gc.v.
package main

import (
	"runtime/pprof"
	"context"
	"encoding/json"
	"flag"
	"fmt"
	"math"
	"net/http"
	"net/http/httptest"
	"os"
	"path"
	"strconv"
	"strings"
	"time"

	"github.com/pingcap/kvproto/pkg/pdpb"
	"github.com/tikv/pd/server/api"
	"github.com/tikv/pd/server/core"
	"github.com/tikv/pd/server/kv"
	"github.com/tikv/pd/pkg/tsoutil"
	"github.com/tikv/pd/server/tso"
	"go.etcd.io/etcd/clientv3"

	"pdverif/internal/coqfmt"
	"pdverif/internal/kvx15"
	"pdverif/internal/res"
	"pdverif/internal/rng"
	"pdverif/internal/srv15"
)

// ---------- service ids: text identity and the storage key path.Join sends them to ----------

// keys below gc/safe_point/service/ that the model numbers; the numbering is the byte order of the keys
var keyNum = map[string]int64{"a1": -20, "a1/sub": -15, "b2": -10, "gc_worker": 0, "h4": 10, "q9": 15, "z5": 100000}

// bulk ids: tNNN and its extension tNNN-x, for every NNN: every id at a page boundary of a paged range read has an id that
// extends it right behind it (byte order: t000 < t000-x < t001 < ...; all between q9 and z5)
const bulkN = 115

func bulkID(k int, ext bool) string {
	if ext {
		return fmt.Sprintf("t%03d-x", k)
	}
	return fmt.Sprintf("t%03d", k)
}

func init() {
	for k := 0; k < bulkN; k++ {
		keyNum[bulkID(k, false)] = int64(1000 + 20*k)
		keyNum[bulkID(k, true)] = int64(1000 + 20*k + 10)
	}
}

// ids that are not a single clean path element get text numbers 100+ (checkServiceID refuses them since the fix)
var oddIDs = []string{"..", "x/../gc_worker", "x/../h4", "../x", "h4/", "../service/b2", "../../gc/safe_point", "a1/sub"}

var cleanIDs = []string{"a1", "b2", "h4", "z5", "q9"}

// singleElem is the driver's own statement of which ids are one path element
func singleElem(id string) bool { return !strings.Contains(id, "/") && id != "." && id != ".." }

func textOf(id string) string {
	switch id {
	case "gc_worker":
		return "TGcw"
	case "":
		return "TEmpty"
	}
	if n, ok := keyNum[id]; ok && singleElem(id) {
		return "(TName " + coqfmt.Z(n) + ")"
	}
	for i, s := range oddIDs {
		if s == id {
			return "(TName " + coqfmt.Z(int64(100+i)) + ")"
		}
	}
	panic("unknown service id " + id)
}

const svcPrefix = "gc/safe_point/service/"

func keyOf(id string) string {
	k := path.Join("gc", "safe_point", "service", id) // exactly what storage.go computes
	if k == "gc/safe_point" {
		return "KGc"
	}
	if strings.HasPrefix(k, svcPrefix) {
		if n, ok := keyNum[k[len(svcPrefix):]]; ok {
			return "(KSvc " + coqfmt.Z(n) + ")"
		}
		panic("service key outside the numbered table: " + k)
	}
	return "KOther"
}

func sidCoq(id string) string {
	switch id {
	case "gc_worker":
		return "IGcw"
	case "":
		return "IEmpty"
	}
	t := textOf(id)
	return "(IName " + t[len("(TName "):len(t)-1] + " " + keyOf(id) + ")"
}

func isClean(id string) bool {
	if id == "gc_worker" || id == "" {
		return true
	}
	n, ok := keyNum[id]
	return ok && singleElem(id) && keyOf(id) == "(KSvc "+coqfmt.Z(n)+")"
}

// ---------- operations ----------
type op struct {
	K   string // upd begin finish wake get svc apidel seed
	T   int    `json:",omitempty"`
	V   uint64 `json:",omitempty"`
	Out int    `json:",omitempty"` // finish: 0 Ok 1 ErrNotApplied 2 ErrApplied
	ID  string `json:",omitempty"`
	TTL int64  `json:",omitempty"`
	SP  uint64 `json:",omitempty"`
	Exp int64  `json:",omitempty"` // seed: absolute expiry; ExpRel != 0: relative to the wall clock at execution
	Rel int64  `json:",omitempty"`
	Many []seedEnt `json:",omitempty"` // seedmany
	X    *xenv    `json:",omitempty"` // svcx: what happens to the storage operations of the first LoadMin
	D    []string `json:",omitempty"` // svcil / svcx: services deleted through REST while the request's own save is parked
	Deep bool  `json:",omitempty"` // svcil / svcx: ErrNotApplied write faults are raised inside the etcd client (the write's transaction fails five times in a row) instead of in front of kv.Base
	Wait int   `json:",omitempty"` // milliseconds of real time to let pass before the op (thorough tier: real expiry)
	Now int64  `json:",omitempty"` // filled in by the run
	Lo  int64  `json:",omitempty"`
	Hi  int64  `json:",omitempty"`
}

func (o op) coq() string {
	switch o.K {
	case "upd":
		return fmt.Sprintf("OUpd %d %s", o.T, coqfmt.ZU(o.V))
	case "begin":
		return fmt.Sprintf("OBegin %d %s", o.T, coqfmt.ZU(o.V))
	case "finish":
		return fmt.Sprintf("OFinish %d %s", o.T, []string{"Ok", "ErrNotApplied", "ErrApplied"}[o.Out])
	case "wake":
		return fmt.Sprintf("OWake %d", o.T)
	case "members":
		return "OMembers"
	case "get":
		return "OGet"
	case "svc":
		return fmt.Sprintf("OSvc %s %s %s %s %s %s", sidCoq(o.ID), coqfmt.Z(o.TTL), coqfmt.ZU(o.SP), coqfmt.Z(o.Now), coqfmt.Z(o.Lo), coqfmt.Z(o.Hi))
	case "svcil":
		ks := make([]string, len(o.D))
		for i, d := range o.D {
			ks[i] = coqfmt.Z(keyNum[d])
		}
		return fmt.Sprintf("OSvcIl %s %s %s %s %s %s %s %s", sidCoq(o.ID), coqfmt.Z(o.TTL), coqfmt.ZU(o.SP), coqfmt.Z(o.Now), coqfmt.Z(o.Lo), coqfmt.Z(o.Hi),
			coqfmt.List(ks), []string{"Ok", "ErrNotApplied", "ErrApplied"}[o.Out])
	case "svcx":
		return fmt.Sprintf("OSvcX %s %s %s %s %s %s %s %s %s", sidCoq(o.ID), coqfmt.Z(o.TTL), coqfmt.ZU(o.SP), coqfmt.Z(o.Now), coqfmt.Z(o.Lo), coqfmt.Z(o.Hi),
			o.X.coq(), keysCoq(o.D), outNames[o.Out])
	case "apidel":
		return "OApiDel " + sidCoq(o.ID)
	case "seed":
		return fmt.Sprintf("OSeed %s %s %s", sidCoq(o.ID), coqfmt.Z(o.Exp), coqfmt.ZU(o.SP))
	case "seedmany":
		xs := make([]string, len(o.Many))
		for i, e := range o.Many {
			xs[i] = fmt.Sprintf("(%s, (%s, %s))", sidCoq(e.ID), coqfmt.Z(e.Exp), coqfmt.ZU(e.SP))
		}
		return "OSeedMany " + coqfmt.List(xs)
	}
	panic("bad op " + o.K)
}

type seedEnt struct {
	ID  string
	Rel int64 `json:",omitempty"` // expiry relative to the wall clock at execution (0: use Exp)
	Exp int64 `json:",omitempty"`
	SP  uint64
}

// xenv: storage outcomes (0 Ok, 1 ErrNotApplied, 2 ErrApplied) and REST deletes at single storage operations of LoadMin
type xstep struct {
	Key  string   // the service whose entry the loop is looking at (its Remove, or gc_worker's repair save)
	Dels []string `json:",omitempty"` // REST deletes that have run just before
	Rep  int      `json:",omitempty"` // outcome of the repair save (Key == "gc_worker")
	Rem  int      `json:",omitempty"` // outcome of the Remove of the expired entry
}
type xenv struct {
	LR    int     `json:",omitempty"` // outcome of the LoadRange
	Init  int     `json:",omitempty"` // outcome of the (re)creation of gc_worker's entry
	Steps []xstep `json:",omitempty"`
}

var outNames = []string{"Ok", "ErrNotApplied", "ErrApplied"}

func keysCoq(ids []string) string {
	ks := make([]string, len(ids))
	for i, d := range ids {
		ks[i] = coqfmt.Z(keyNum[d])
	}
	return coqfmt.List(ks)
}

func (x *xenv) coq() string {
	f := "quiet_step"
	for i := len(x.Steps) - 1; i >= 0; i-- {
		st := x.Steps[i]
		f = fmt.Sprintf("if (k =? %s)%%Z then LmStep %s %s %s else %s", coqfmt.Z(keyNum[st.Key]), keysCoq(st.Dels), outNames[st.Rep], outNames[st.Rem], f)
	}
	return fmt.Sprintf("(LmEnv %s (fun k => %s) %s)", outNames[x.LR], f, outNames[x.Init])
}

type result struct {
	v   uint64
	err error
}

type thread struct {
	who   string
	done  chan result
	state int // 0 idle, 1 parked before SaveGCSafePoint, 2 blocked (neither parked nor done)
	via   int // where it is parked: 1 = the kv.Base Save (the save goes through core.Storage), 2 = the etcd transaction commit
	auto  bool // a complete (upd) request that was blocked: it is parked at its save when it gets through, then finished at once
}

type world struct {
	x   *srv15.Srv
	st  *core.Storage
	b   *kvx15.Base
	thr []*thread
	ctx context.Context
	R   *res.Result
	api http.Handler // the real REST router (server/api)
	hold *kvx15.Hold // holds single etcd requests of the storage's client
	ek   *kvx15.EtcdKV // parks / fails transaction commits on the server's own etcd client (the leader-guarded save of the safe point)
	raw  kvBase      // the driver's own, independent access to the same keys (views, seeds, resets)

	ambiguous bool // a failing service call straddled a second boundary of the TSO clock: its `now` is unknown
}

func (w *world) tsoNow() time.Time {
	for try := 0; ; try++ {
		ts, err := w.x.S.GetTSOAllocatorManager().HandleTSORequest(tso.GlobalDCLocation, 1)
		if err == nil {
			return time.Unix(ts.GetPhysical()/1000, ts.GetPhysical()%1000*int64(time.Millisecond))
		}
		// the member lost its 1 s leader lease (machine load): the running case will be dropped
		leaderLost = true
		if try > 200 {
			panic(err)
		}
		_ = w.x.WaitLeader(60 * time.Second)
		time.Sleep(100 * time.Millisecond)
	}
}

const gcKey = "gc/safe_point"

func isGcSave(o kvx15.Op) bool { return o.Kind == kvx15.Save && o.Key == gcKey }

// how long a request may be neither parked nor finished, while another one is parked inside the
// load..save section, before it is reported as blocked (only ever reached if the code serialises them)
var blockWait = 2 * time.Second

func (w *world) anyParked() bool {
	for _, t := range w.thr {
		if t.state == 1 {
			return true
		}
	}
	return false
}

func (w *world) start(t int, v uint64, park bool) {
	x := w.thr[t]
	x.done = make(chan result, 1)
	go func() {
		w.b.Bind(x.who)
		w.ek.Bind(x.who)
		if park {
			w.armSave(x.who)
		}
		r, err := w.x.S.UpdateGCSafePoint(w.ctx, &pdpb.UpdateGCSafePointRequest{Header: w.x.Header(), SafePoint: v})
		w.b.Disarm(x.who)
		w.b.Unbind()
		w.ek.Arm(x.who, kvx15.Pass)
		w.ek.Unbind()
		if err == nil && r.GetHeader().GetError() != nil {
			err = fmt.Errorf("%v", r.GetHeader().GetError())
		}
		x.done <- result{r.GetNewSafePoint(), err}
	}()
}

var leaderLost bool // set when a handler answered "not leader": the 1 s lease was lost under machine load

func noteErr(err error) {
	if err != nil && (strings.Contains(err.Error(), "not leader") || strings.Contains(err.Error(), "not started")) {
		leaderLost = true
	}
}

// armSave: the request's write of gc/safe_point is parked wherever it is issued: as a Save of core.Storage's kv.Base, or as a
// transaction commit on the server's own etcd client (the only transaction an UpdateGCSafePoint request commits)
func (w *world) armSave(who string) {
	w.b.Arm(who, isGcSave, kvx15.Park)
	w.ek.Arm(who, kvx15.Park)
}

func respObs(r result) string {
	if r.err != nil {
		noteErr(r.err)
		return "BErr"
	}
	return "BResp " + coqfmt.ZU(r.v)
}

func (w *world) await(t int) string {
	x := w.thr[t]
	limit := 120 * time.Second
	mayBlock := w.anyParked()
	if mayBlock {
		limit = blockWait
	}
	select {
	case <-w.b.Parked(x.who):
		x.state, x.via = 1, 1
		return "BStarted"
	case <-w.ek.Parked(x.who):
		x.state, x.via = 1, 2
		return "BStarted"
	case r := <-x.done:
		x.state = 0
		return respObs(r)
	case <-time.After(limit):
		if !mayBlock {
			panic("request neither parked nor finished and nothing is parked")
		}
		x.state = 2
		// when it gets through the mutex it must not touch the store before the driver has looked: park it at its save
		w.armSave(x.who)
		return "BBlocked"
	}
}

// ---------- storage view ----------
func (w *world) view() string {
	raw, err := w.raw.Load(gcKey)
	if err != nil {
		panic(err)
	}
	g := "GAbsent"
	if raw != "" {
		if v, err := strconv.ParseUint(raw, 16, 64); err == nil {
			g = "(GVal " + coqfmt.ZU(v) + ")"
		} else {
			g = "GBad"
		}
	}
	return "(View " + g + " " + coqfmt.List(w.entries()) + ")"
}

// restList reads GET /pd/api/v1/gc/safepoint through the real router and checks it against what the storage holds
func (w *world) restList() {
	rec := httptest.NewRecorder()
	w.api.ServeHTTP(rec, httptest.NewRequest(http.MethodGet, "/pd/api/v1/gc/safepoint", nil))
	if rec.Code != http.StatusOK && rec.Code != http.StatusInternalServerError {
		// the router answers 404 / redirects while the member is not the serving leader (lease lost under load): no verdict
		leaderLost = true
		return
	}
	raw, _ := w.raw.Load(gcKey)
	if raw != "" {
		if _, err := strconv.ParseUint(raw, 16, 64); err != nil {
			if rec.Code != http.StatusInternalServerError {
				w.R.Violate("C15:rest-list-differs-from-storage", fmt.Sprintf("unparsable gc/safe_point %q but REST list answered %d", raw, rec.Code), nil)
			}
			return
		}
	}
	var got struct {
		ServiceGCSafepoints []*core.ServiceSafePoint `json:"service_gc_safe_points"`
		GCSafePoint         uint64                   `json:"gc_safe_point"`
	}
	if rec.Code != http.StatusOK || json.Unmarshal(rec.Body.Bytes(), &got) != nil {
		w.R.Violate("C15:rest-list-differs-from-storage", fmt.Sprintf("REST list answered %d %s", rec.Code, rec.Body.String()), nil)
		return
	}
	want, _ := strconv.ParseUint(raw, 16, 64)
	all := w.all()
	same := got.GCSafePoint == want && len(got.ServiceGCSafepoints) == len(all)
	for i := 0; same && i < len(all); i++ {
		same = *all[i] == *got.ServiceGCSafepoints[i]
	}
	if !same {
		w.R.Violate("C15:rest-list-differs-from-storage", "REST list: "+rec.Body.String(), nil)
	}
	w.R.Count("rest-list:checked")
}

// all reads the service safe points with the driver's own unlimited range read of the underlying kv.Base (not through
// Storage.GetAllServiceGCSafePoints, which is itself under test: see checkGetAll)
func (w *world) all() []*core.ServiceSafePoint {
	_, vs, err := w.raw.LoadRange(svcPrefix, clientv3.GetPrefixRangeEnd(svcPrefix), 0)
	if err != nil {
		panic(err)
	}
	var out []*core.ServiceSafePoint
	for _, v := range vs {
		e := &core.ServiceSafePoint{}
		if json.Unmarshal([]byte(v), e) == nil {
			out = append(out, e)
		}
	}
	return out
}

// checkGetAll: Storage.GetAllServiceGCSafePoints lists exactly what is stored
func (w *world) checkGetAll() {
	got, err := w.st.GetAllServiceGCSafePoints()
	if err != nil {
		return // unparsable entry: covered by malformedProbe
	}
	want := w.all()
	same := len(got) == len(want)
	for i := 0; same && i < len(want); i++ {
		same = *got[i] == *want[i]
	}
	if !same {
		missing := ""
		for _, e := range want {
			if find(got, e.ServiceID) == nil {
				missing += " " + e.ServiceID
			}
		}
		w.R.Violate("C15:get-all-service-safe-points-incomplete",
			fmt.Sprintf("GetAllServiceGCSafePoints lists %d of the %d stored registrations; missing:%s", len(got), len(want), missing), nil)
	}
}

func entryCoq(e *core.ServiceSafePoint) string {
	return fmt.Sprintf("(Entry %s %s %s)", textOf(e.ServiceID), coqfmt.Z(e.ExpiredAt), coqfmt.ZU(e.SafePoint))
}

func (w *world) entries() []string {
	var out []string
	for _, e := range w.all() {
		out = append(out, entryCoq(e))
	}
	return out
}

func find(all []*core.ServiceSafePoint, id string) *core.ServiceSafePoint {
	for _, e := range all {
		if e.ServiceID == id {
			return e
		}
	}
	return nil
}

func (w *world) reset() {
	in := w.raw
	keys, _, err := in.LoadRange("gc/", clientv3.GetPrefixRangeEnd("gc/"), 0)
	if err != nil {
		panic(err)
	}
	for _, k := range keys {
		if err := in.Remove(k); err != nil {
			panic(err)
		}
	}
	for _, t := range w.thr {
		if t.state != 0 {
			panic("reset with a live request")
		}
	}
}

// exec runs one op on the real server; it may fill in o.Now/Lo/Hi/Exp. Returns the observation.
func (w *world) exec(o *op) string {
	switch o.K {
	case "upd":
		w.start(o.T, o.V, false)
		ob := w.await(o.T)
		w.thr[o.T].auto = ob == "BBlocked"
		return ob
	case "begin":
		w.start(o.T, o.V, true)
		return w.await(o.T)
	case "finish":
		x := w.thr[o.T]
		if x.state != 1 {
			return "BBad" // nothing of this thread is parked (e.g. it is blocked on the mutex)
		}
		m := []kvx15.Mode{kvx15.Pass, kvx15.FailBefore, kvx15.FailAfter}[o.Out]
		if x.via == 2 {
			w.b.Disarm(x.who)
			w.ek.Release(x.who, m)
		} else {
			w.ek.Arm(x.who, kvx15.Pass) // the Save below the kv.Base may itself be a transaction on the wrapped client
			w.b.Release(x.who, m)
		}
		r := <-x.done
		x.state = 0
		return respObs(r)
	case "wake":
		panic("wake is recorded by wakeBlocked, never executed")
	case "members":
		return "BUnit"
	case "get":
		r, err := w.x.S.GetGCSafePoint(w.ctx, &pdpb.GetGCSafePointRequest{Header: w.x.Header()})
		noteErr(err)
		if err != nil || r.GetHeader().GetError() != nil {
			return "BErr"
		}
		return "BResp " + coqfmt.ZU(r.GetSafePoint())
	case "svc":
		pre := w.all()
		// the handler takes `now` from a TSO. Bracket the call with two TSOs of the same allocator: when they
		// fall into the same second (enforced by not starting in the last 50 ms of a second) `now` is known
		// exactly even if the call fails; otherwise it is recovered from the answer below.
		t0 := w.tsoNow()
		for t0.Nanosecond() > 950*int(time.Millisecond) {
			time.Sleep(10 * time.Millisecond)
			t0 = w.tsoNow()
		}
		o.Lo = t0.Unix() // the bracket is taken on the clock the handler uses (the TSO), not on the wall clock
		r, err := w.x.S.UpdateServiceGCSafePoint(w.ctx, &pdpb.UpdateServiceGCSafePointRequest{Header: w.x.Header(),
			ServiceId: []byte(o.ID), TTL: o.TTL, SafePoint: o.SP})
		t1 := w.tsoNow()
		o.Hi = t1.Unix()
		o.Now = t0.Unix()
		noteErr(err)
		if err != nil || r.GetHeader().GetError() != nil {
			if t0.Unix() != t1.Unix() {
				w.ambiguous = true
			}
			return "BErr"
		}
		// the handler took `now` from a TSO; recover it from the TTL it answered with
		post := w.all()
		mid := string(r.GetServiceId())
		switch {
		case mid == "gc_worker":
			o.Now = math.MaxInt64 - r.GetTTL()
		case find(post, mid) != nil:
			o.Now = find(post, mid).ExpiredAt - r.GetTTL()
		case find(pre, mid) != nil:
			o.Now = find(pre, mid).ExpiredAt - r.GetTTL()
		}
		return fmt.Sprintf("BMin %s %s %s", textOf(mid), coqfmt.Z(r.GetTTL()), coqfmt.ZU(r.GetMinSafePoint()))
	case "svcil":
		// the request runs on its own goroutine; its own SaveServiceGCSafePoint (the only Save on its key: the id is a
		// clean, non-gc_worker one) is parked; meanwhile the REST deletes of o.D run; then the save gets outcome o.Out
		pre := w.all()
		t0 := w.tsoNow()
		for t0.Nanosecond() > 900*int(time.Millisecond) {
			time.Sleep(10 * time.Millisecond)
			t0 = w.tsoNow()
		}
		o.Lo = t0.Unix() // the bracket is taken on the clock the handler uses (the TSO), not on the wall clock
		type sres struct {
			r   *pdpb.UpdateServiceGCSafePointResponse
			err error
		}
		done := make(chan sres, 1)
		key := svcPrefix + o.ID
		go func() {
			w.b.Bind("svcil")
			w.b.Arm("svcil", func(x kvx15.Op) bool { return x.Kind == kvx15.Save && x.Key == key }, kvx15.Park)
			r, err := w.x.S.UpdateServiceGCSafePoint(w.ctx, &pdpb.UpdateServiceGCSafePointRequest{Header: w.x.Header(),
				ServiceId: []byte(o.ID), TTL: o.TTL, SafePoint: o.SP})
			w.b.Disarm("svcil")
			w.b.Unbind()
			done <- sres{r, err}
		}()
		var res sres
		select {
		case <-w.b.Parked("svcil"):
			if !w.x.S.VerifC15ServiceLockHeld() {
				w.R.Violate("C15:service-update-not-serialised", "SaveServiceGCSafePoint issued without serviceSafePointLock", o)
			}
			for _, d := range o.D {
				rec := httptest.NewRecorder()
				w.api.ServeHTTP(rec, httptest.NewRequest(http.MethodDelete, "/pd/api/v1/gc/safepoint/"+d, nil))
			}
			if o.Deep && o.Out == 1 {
				// the failure is raised below kv.Base: etcd does not commit this key's write, five times in a row
				f0 := w.hold.Failed()
				w.hold.FailTxn("/"+key, 5)
				w.b.Release("svcil", kvx15.Pass)
				res = <-done
				w.R.CountN("etcd-write-fault:transactions-failed", w.hold.Failed()-f0)
				w.hold.FailTxn("", 0)
				w.R.Count("svcil:own-save-failed-inside-etcd-client")
			} else {
				w.b.Release("svcil", []kvx15.Mode{kvx15.Pass, kvx15.FailBefore, kvx15.FailAfter}[o.Out])
				res = <-done
			}
			w.R.Count("svcil:parked-at-own-save")
		case res = <-done:
			w.R.Count("svcil:finished-without-own-save")
		case <-time.After(120 * time.Second):
			panic("svcil neither parked nor finished")
		}
		t1 := w.tsoNow()
		o.Hi = t1.Unix()
		o.Now = t0.Unix()
		noteErr(res.err)
		if res.err != nil || res.r.GetHeader().GetError() != nil {
			if t0.Unix() != t1.Unix() {
				w.ambiguous = true
			}
			return "BErr"
		}
		post := w.all()
		mid := string(res.r.GetServiceId())
		switch {
		case mid == "gc_worker":
			o.Now = math.MaxInt64 - res.r.GetTTL()
		case find(post, mid) != nil:
			o.Now = find(post, mid).ExpiredAt - res.r.GetTTL()
		case find(pre, mid) != nil:
			o.Now = find(pre, mid).ExpiredAt - res.r.GetTTL()
		}
		return fmt.Sprintf("BMin %s %s %s", textOf(mid), coqfmt.Z(res.r.GetTTL()), coqfmt.ZU(res.r.GetMinSafePoint()))
	case "svcx":
		// scripted storage: each step fires at one storage operation of the call (kvx15.Script); REST deletes run on
		// the handler's own goroutine right before that operation
		pre := w.all()
		modes := []kvx15.Mode{kvx15.Pass, kvx15.FailBefore, kvx15.FailAfter}
		rest := func(ids []string) func() {
			return func() {
				for _, d := range ids {
					rec := httptest.NewRecorder()
					w.api.ServeHTTP(rec, httptest.NewRequest(http.MethodDelete, "/pd/api/v1/gc/safepoint/"+d, nil))
				}
			}
		}
		gcwKey := svcPrefix + "gc_worker"
		gcwFinite := false
		if g := find(pre, "gc_worker"); g != nil && g.ExpiredAt != math.MaxInt64 {
			gcwFinite = true
		}
		var script []*kvx15.Step
		// write(key, dels, m): the step of one Save / Remove. With o.Deep an ErrNotApplied fault is raised below kv.Base: the
		// operation is let through and the etcd client fails its transaction (five times in a row, until the next step)
		write := func(kind kvx15.Kind, key string, dels []string, m int) *kvx15.Step {
			before := rest(dels)
			mode := modes[m]
			if o.Deep {
				mode = modes[m]
				if m == 1 {
					mode = kvx15.Pass
				}
				before = func() {
					w.hold.FailTxn("", 0)
					rest(dels)()
					if m == 1 {
						w.hold.FailTxn("/"+key, 5)
						w.R.Count("svcx:write-failed-inside-etcd-client")
					} else {
						w.hold.FailTxn("", 0)
					}
				}
			}
			return &kvx15.Step{Match: func(x kvx15.Op) bool { return x.Kind == kind && x.Key == key }, Before: before, Mode: mode}
		}
		script = append(script, &kvx15.Step{Match: func(x kvx15.Op) bool { return x.Kind == kvx15.LoadRange }, Mode: modes[o.X.LR]})
		for _, st := range o.X.Steps {
			if st.Key == "gc_worker" {
				script = append(script, write(kvx15.Save, gcwKey, st.Dels, st.Rep))
			} else {
				script = append(script, write(kvx15.Remove, svcPrefix+st.Key, st.Dels, st.Rem))
			}
		}
		_ = gcwFinite
		// the (re)creation of gc_worker's entry is the Save on its key that is not the repair (the repair step, if any, is consumed first)
		script = append(script, write(kvx15.Save, gcwKey, nil, o.X.Init))
		own := svcPrefix + o.ID
		script = append(script, write(kvx15.Save, own, o.D, o.Out))
		t0 := w.tsoNow()
		for t0.Nanosecond() > 900*int(time.Millisecond) {
			time.Sleep(10 * time.Millisecond)
			t0 = w.tsoNow()
		}
		o.Lo = t0.Unix() // the bracket is taken on the clock the handler uses (the TSO), not on the wall clock
		f0 := w.hold.Failed()
		w.b.Bind("svcx")
		w.b.Script("svcx", script)
		r, err := w.x.S.UpdateServiceGCSafePoint(w.ctx, &pdpb.UpdateServiceGCSafePointRequest{Header: w.x.Header(),
			ServiceId: []byte(o.ID), TTL: o.TTL, SafePoint: o.SP})
		w.R.CountN("svcx:steps-fired", w.b.Fired("svcx"))
		if o.Deep {
			w.R.CountN("etcd-write-fault:transactions-failed", w.hold.Failed()-f0)
			w.hold.FailTxn("", 0)
		}
		w.b.Script("svcx", nil)
		w.b.Unbind()
		t1 := w.tsoNow()
		o.Hi = t1.Unix()
		o.Now = t0.Unix()
		noteErr(err)
		if err != nil || r.GetHeader().GetError() != nil {
			if t0.Unix() != t1.Unix() {
				w.ambiguous = true
			}
			return "BErr"
		}
		post := w.all()
		mid := string(r.GetServiceId())
		switch {
		case mid == "gc_worker":
			o.Now = math.MaxInt64 - r.GetTTL()
		case find(post, mid) != nil:
			o.Now = find(post, mid).ExpiredAt - r.GetTTL()
		case find(pre, mid) != nil:
			o.Now = find(pre, mid).ExpiredAt - r.GetTTL()
		}
		return fmt.Sprintf("BMin %s %s %s", textOf(mid), coqfmt.Z(r.GetTTL()), coqfmt.ZU(r.GetMinSafePoint()))
	case "apidel":
		// DELETE /pd/api/v1/gc/safepoint/{service_id} through the real router and handler
		rec := httptest.NewRecorder()
		w.api.ServeHTTP(rec, httptest.NewRequest(http.MethodDelete, "/pd/api/v1/gc/safepoint/"+o.ID, nil))
		switch rec.Code {
		case http.StatusOK:
			return "BUnit"
		case http.StatusInternalServerError:
			return "BErr"
		}
		leaderLost = true // 404 / redirect: the member is not the serving leader at this moment
		return fmt.Sprintf("BBad (* http %d *)", rec.Code)
	case "seedmany":
		now := time.Now().Unix()
		for i := range o.Many {
			e := &o.Many[i]
			if e.Rel != 0 {
				e.Exp, e.Rel = now+e.Rel, 0
			}
			v, _ := json.Marshal(&core.ServiceSafePoint{ServiceID: e.ID, ExpiredAt: e.Exp, SafePoint: e.SP})
			if err := w.raw.Save(path.Join("gc", "safe_point", "service", e.ID), string(v)); err != nil {
				panic(err)
			}
		}
		w.checkGetAll()
		return "BUnit"
	case "seed":
		if o.Rel != 0 {
			o.Exp = time.Now().Unix() + o.Rel
			o.Rel = 0
		}
		v, _ := json.Marshal(&core.ServiceSafePoint{ServiceID: o.ID, ExpiredAt: o.Exp, SafePoint: o.SP})
		if err := w.raw.Save(path.Join("gc", "safe_point", "service", o.ID), string(v)); err != nil {
			panic(err)
		}
		return "BUnit"
	}
	panic("bad op")
}

type kvBase interface {
	Load(key string) (string, error)
	LoadRange(key, endKey string, limit int) ([]string, []string, error)
	Save(key, value string) error
	Remove(key string) error
}

type caseRec struct {
	Ops []op
	Obs []string
}

func (c caseRec) coq() string {
	ops := make([]string, len(c.Ops))
	for i, o := range c.Ops {
		ops[i] = o.coq()
	}
	return "(" + coqfmt.List(ops) + ",\n  " + coqfmt.List(c.Obs) + ")"
}

func (w *world) step(c *caseRec, o op) string {
	if len(c.Ops)%8 == 7 && w.api != nil {
		w.restList()
		w.checkGetAll()
	}
	if o.Wait > 0 {
		time.Sleep(time.Duration(o.Wait) * time.Millisecond)
	}
	if o.Wait < 0 {
		// start early in a second of the TSO clock, so that the waits that follow land where they are meant to
		for w.tsoNow().Nanosecond() > 300*int(time.Millisecond) {
			time.Sleep(20 * time.Millisecond)
		}
	}
	ob := w.exec(&o)
	c.Ops = append(c.Ops, o)
	c.Obs = append(c.Obs, "("+ob+", "+w.view()+")")
	if o.K == "finish" {
		w.wakeBlocked(c)
	}
	return ob
}

// wakeBlocked: requests that were blocked behind a released one proceed now, in whatever order the
// mutex hands itself over; each one that gets through is recorded as an OWake op. While one of
// them is parked inside the section the others stay blocked.
func (w *world) wakeBlocked(c *caseRec) {
	deadline := time.Now().Add(120 * time.Second)
	for {
		var bl []int
		for t, x := range w.thr {
			if x.state == 2 {
				bl = append(bl, t)
			}
		}
		if len(bl) == 0 || w.anyParked() {
			return
		}
		progressed := false
		for _, t := range bl {
			x := w.thr[t]
			ob := ""
			select {
			case <-w.b.Parked(x.who):
				x.state, x.via = 1, 1
				ob = "BStarted"
			case <-w.ek.Parked(x.who):
				x.state, x.via = 1, 2
				ob = "BStarted"
			case r := <-x.done:
				x.state = 0
				ob = respObs(r)
			default:
			}
			if ob != "" {
				c.Ops = append(c.Ops, op{K: "wake", T: t})
				c.Obs = append(c.Obs, "("+ob+", "+w.view()+")")
				progressed = true
				if x.auto {
					x.auto = false
					if x.state == 1 {
						w.step(c, op{K: "finish", T: t}) // the complete request goes on; this wakes the next one in turn
					}
				}
				break
			}
		}
		if !progressed {
			if time.Now().After(deadline) {
				panic("blocked requests do not proceed although nothing is parked")
			}
			time.Sleep(200 * time.Microsecond)
		}
	}
}

// drain leaves no goroutine parked or blocked
func (w *world) drain(c *caseRec) {
	for round := 0; round < 4; round++ {
		for t, x := range w.thr {
			if x.state == 1 {
				w.step(c, op{K: "finish", T: t})
			}
		}
	}
}


// svcRace checks, on the real server, that UpdateServiceGCSafePoint issues its storage operations
// inside serviceSafePointLock: request A (a1, safe point 45, min is gc_worker@40) is parked at its
// SaveServiceGCSafePoint; the lock must be held then. If it is not, the consequence is exhibited:
// B raises gc_worker to 60 and is told min=60, then A records 45 below the acknowledged minimum.
func (w *world) svcRace() {
	w.reset()
	inf := int64(math.MaxInt64)
	call := func(id string, ttl int64, sp uint64) (*pdpb.UpdateServiceGCSafePointResponse, error) {
		return w.x.S.UpdateServiceGCSafePoint(w.ctx, &pdpb.UpdateServiceGCSafePointRequest{Header: w.x.Header(), ServiceId: []byte(id), TTL: ttl, SafePoint: sp})
	}
	if _, err := call("gc_worker", inf, 40); err != nil {
		// the set-up itself is refused on this tree; the generated cases show why
		w.R.Count("svc-lock:probe-set-up-refused")
		w.R.Notes = append(w.R.Notes, "service lock probe skipped: registering gc_worker with an infinite TTL failed: "+err.Error())
		return
	}
	done := make(chan error, 1)
	go func() {
		w.b.Bind("sA")
		w.b.Arm("sA", func(o kvx15.Op) bool { return o.Kind == kvx15.Save && o.Key == svcPrefix+"a1" }, kvx15.Park)
		_, err := call("a1", 1000, 45)
		w.b.Disarm("sA")
		w.b.Unbind()
		done <- err
	}()
	select {
	case <-w.b.Parked("sA"):
	case err := <-done:
		w.R.Count("svc-lock:probe-request-did-not-save")
		w.R.Notes = append(w.R.Notes, fmt.Sprint("service lock probe skipped: the probing registration finished without saving: ", err))
		return
	case <-time.After(60 * time.Second):
		panic("service update neither parked nor finished")
	}
	held := w.x.S.VerifC15ServiceLockHeld()
	if held {
		w.R.Count("svc-lock:held-at-parked-save")
		w.b.Release("sA", kvx15.Pass)
		<-done
		return
	}
	w.R.Count("svc-lock:NOT-held-at-parked-save")
	r, err := call("gc_worker", inf, 60)
	w.b.Release("sA", kvx15.Pass)
	<-done
	desc := "UpdateServiceGCSafePoint issued SaveServiceGCSafePoint without holding serviceSafePointLock"
	if err == nil {
		if e := find(w.all(), "a1"); e != nil && e.SafePoint < r.GetMinSafePoint() {
			desc += fmt.Sprintf("; consequence: gc_worker was told min=%d while service a1 was then recorded at %d", r.GetMinSafePoint(), e.SafePoint)
		}
	}
	w.R.Violate("C15:service-update-not-serialised", desc,
		[]string{"svc gc_worker inf 40", "begin svc a1 1000 45 (parked at save)", "svc gc_worker inf 60", "release a1"})
}

// svcAbandon: the caller of UpdateServiceGCSafePoint goes away (its context is cancelled - a client time-out or a dropped
// connection) while the request's own write is on its way to etcd (held in the etcd client, so it does not matter which
// goroutine issues it). A request that has issued a write must not return - and give up serviceSafePointLock - before that
// write has been decided: otherwise the next request computes its minimum without it. If the handler does return, the
// consequence is exhibited: gc_worker advances past the pending value, is told the new minimum, then the write lands.
func (w *world) svcAbandon() {
	w.reset()
	inf := int64(math.MaxInt64)
	call := func(ctx context.Context, id string, ttl int64, sp uint64) (*pdpb.UpdateServiceGCSafePointResponse, error) {
		return w.x.S.UpdateServiceGCSafePoint(ctx, &pdpb.UpdateServiceGCSafePointRequest{Header: w.x.Header(), ServiceId: []byte(id), TTL: ttl, SafePoint: sp})
	}
	if _, err := call(w.ctx, "gc_worker", inf, 40); err != nil {
		w.R.Count("svc-abandon:set-up-refused")
		return
	}
	reached, release := w.hold.Arm(kvx15.MethodTxn, "/"+svcPrefix+"a1", false)
	ctx, cancel := context.WithCancel(w.ctx)
	defer cancel()
	done := make(chan error, 1)
	go func() {
		_, err := call(ctx, "a1", 1000, 45)
		done <- err
	}()
	select {
	case <-reached:
	case err := <-done:
		w.hold.Disarm()
		w.R.Count("svc-abandon:request-did-not-write")
		w.R.Notes = append(w.R.Notes, fmt.Sprint("abandoned-request scenario skipped: the registration finished without writing: ", err))
		return
	case <-time.After(20 * time.Second):
		w.hold.Disarm()
		w.R.Notes = append(w.R.Notes, "abandoned-request scenario incomplete: the registration's etcd write was not seen by the interceptor")
		<-done
		return
	}
	cancel()
	select {
	case err := <-done:
		// the handler has returned; its write has not reached etcd yet
		w.R.Count("svc-abandon:HANDLER-RETURNED-with-write-in-flight")
		lockFree := !w.x.S.VerifC15ServiceLockHeld()
		desc := fmt.Sprintf("UpdateServiceGCSafePoint returned (%v) after its context was cancelled while its own SaveServiceGCSafePoint was still on its way to etcd", err)
		if lockFree {
			desc += "; serviceSafePointLock was free again"
			r, err2 := call(w.ctx, "gc_worker", inf, 60)
			close(release)
			var e *core.ServiceSafePoint
			for i := 0; i < 100 && e == nil; i++ {
				time.Sleep(20 * time.Millisecond)
				e = find(w.all(), "a1")
			}
			if err2 == nil && e != nil && e.SafePoint < r.GetMinSafePoint() {
				desc += fmt.Sprintf("; consequence: gc_worker was then told min=%d, after which the abandoned write recorded service a1 at %d", r.GetMinSafePoint(), e.SafePoint)
			}
		} else {
			close(release)
		}
		w.R.Violate("C15:request-abandoned-with-its-write-in-flight", desc,
			[]string{"svc gc_worker inf 40", "begin svc a1 1000 45 (its etcd write held)", "cancel the request's context", "svc gc_worker inf 60", "release the held write"})
	case <-time.After(300 * time.Millisecond):
		w.R.Count("svc-abandon:handler-waited-for-its-write")
		close(release)
		if err := <-done; err == nil {
			if e := find(w.all(), "a1"); e == nil || e.SafePoint != 45 {
				w.R.Violate("C15:acknowledged-registration-not-stored", "a registration answered after its caller's context was cancelled is not in storage", []string{"svc gc_worker inf 40", "svc a1 1000 45 (context cancelled during its write)"})
			}
		}
	}
}

// restWriteProbe: the service safe points have ONE writer that registers - the gRPC UpdateServiceGCSafePoint, whose
// load-compare-save runs under serviceSafePointLock (obligation save_service_sites) - and the REST interface only lists and
// deletes. The probe asks the real router whether any other method on /gc/safepoint/{id} stores a registration (POST / PUT /
// PATCH with the obvious bodies). If one does, it is driven like a request thread: parked at its own save (after its
// comparison with the minimum) while gc_worker advances past the value, then released.
func (w *world) restWriteProbe() {
	w.reset()
	inf := int64(math.MaxInt64)
	call := func(id string, ttl int64, sp uint64) (*pdpb.UpdateServiceGCSafePointResponse, error) {
		return w.x.S.UpdateServiceGCSafePoint(w.ctx, &pdpb.UpdateServiceGCSafePointRequest{Header: w.x.Header(), ServiceId: []byte(id), TTL: ttl, SafePoint: sp})
	}
	if _, err := call("gc_worker", inf, 40); err != nil {
		return
	}
	bodies := []string{`{"safe_point":50,"ttl":1000}`, `{"safe_point":50,"ttl":1000,"service_id":"br"}`, `{"SafePoint":50,"TTL":1000}`}
	for _, m := range []string{http.MethodPost, http.MethodPut, http.MethodPatch} {
		for _, body := range bodies {
			do := func() int {
				rec := httptest.NewRecorder()
				req := httptest.NewRequest(m, "/pd/api/v1/gc/safepoint/br", strings.NewReader(body))
				req.Header.Set("Content-Type", "application/json")
				w.api.ServeHTTP(rec, req)
				return rec.Code
			}
			code := do()
			w.R.Count(fmt.Sprintf("rest-write-probe:%s:http-%d", m, code))
			e := find(w.all(), "br")
			if e == nil {
				continue
			}
			// a second way into the service safe points: is its compare-and-save atomic with the gRPC path?
			rec := httptest.NewRecorder()
			w.api.ServeHTTP(rec, httptest.NewRequest(http.MethodDelete, "/pd/api/v1/gc/safepoint/br", nil))
			done := make(chan int, 1)
			go func() {
				w.b.Bind("rw")
				w.b.Arm("rw", func(o kvx15.Op) bool { return o.Kind == kvx15.Save && o.Key == svcPrefix+"br" }, kvx15.Park)
				c := do()
				w.b.Disarm("rw")
				w.b.Unbind()
				done <- c
			}()
			trace := []string{"svc gc_worker inf 40", m + " /pd/api/v1/gc/safepoint/br " + body}
			select {
			case <-w.b.Parked("rw"):
				r, err := call("gc_worker", inf, 100)
				w.b.Release("rw", kvx15.Pass)
				<-done
				if e := find(w.all(), "br"); err == nil && e != nil && e.SafePoint < r.GetMinSafePoint() {
					w.R.Violate("C15:registration-below-min-recorded:rest-write-outside-the-service-lock",
						fmt.Sprintf("%s on the REST interface stores a service safe point with its own load-compare-save outside serviceSafePointLock: gc_worker was told min=%d while the request's save was pending, then service br was recorded at %d", m, r.GetMinSafePoint(), e.SafePoint),
						append(trace, "(parked at its save)", "svc gc_worker inf 100", "release"))
					return
				}
			case <-done:
			case <-time.After(30 * time.Second):
				panic("REST write neither parked nor finished")
			}
			w.R.Violate("C15:service-safe-point-writer-unknown-to-the-model",
				fmt.Sprintf("%s on /gc/safepoint/{service_id} registers a service safe point (http %d); the model knows UpdateServiceGCSafePoint and the REST delete only", m, code), trace)
			return
		}
	}
}

// heldRead: an interleaving at the granularity of single etcd requests. stored 100; U1 = UpdateGCSafePoint(200) is parked
// before its write; G1 = GetGCSafePoint (lock-free) reads: etcd answers 100 and the answer is held on its way back; U1's
// write goes through, U1 is acknowledged 200; U2 = UpdateGCSafePoint(150) starts after that; then G1's answer arrives.
// U2 must be answered 200 and 200 must stay stored. Emitted as a case with G1 linearised where etcd answered it.
func (w *world) heldRead() *caseRec {
	w.reset()
	var c caseRec
	w.step(&c, op{K: "upd", T: 0, V: 100})
	w.step(&c, op{K: "get"})
	if ob := w.step(&c, op{K: "begin", T: 0, V: 200}); ob != "BStarted" {
		w.drain(&c)
		return nil
	}
	reached, release := w.hold.Arm(kvx15.MethodRange, "/"+gcKey, true)
	g1 := make(chan string, 1)
	go func() {
		r, err := w.x.S.GetGCSafePoint(w.ctx, &pdpb.GetGCSafePointRequest{Header: w.x.Header()})
		noteErr(err)
		if err != nil || r.GetHeader().GetError() != nil {
			g1 <- "BErr"
			return
		}
		g1 <- "BResp " + coqfmt.ZU(r.GetSafePoint())
	}()
	select {
	case <-reached:
	case <-time.After(10 * time.Second):
		w.hold.Disarm()
		w.R.Notes = append(w.R.Notes, "held-read scenario incomplete: GetGCSafePoint's etcd read was not seen by the interceptor")
		w.drain(&c)
		<-g1
		return nil
	}
	viewAtRead := w.view() // etcd has answered G1: this is where it is linearised
	g1Slot := len(c.Ops)
	c.Ops = append(c.Ops, op{K: "get"})
	c.Obs = append(c.Obs, "") // filled in when the answer arrives
	w.step(&c, op{K: "finish", T: 0})
	// U2 starts after U1's acknowledgement; G1's answer arrives a little later
	w.start(1, 150, false)
	var u2 result
	select {
	case u2 = <-w.thr[1].done:
		close(release)
	case <-time.After(300 * time.Millisecond):
		close(release)
		u2 = <-w.thr[1].done
	}
	c.Obs[g1Slot] = "(" + <-g1 + ", " + viewAtRead + ")"
	c.Ops = append(c.Ops, op{K: "upd", T: 1, V: 150})
	c.Obs = append(c.Obs, "("+respObs(u2)+", "+w.view()+")")
	w.step(&c, op{K: "get"})
	w.R.Count("held-etcd-read:scenario")
	return &c
}

// tsoAhead: the TSO clock - the clock UpdateServiceGCSafePoint prunes with - is moved 10 minutes ahead of the wall clock
// (admin reset-ts through the real Handler.ResetTS, allowed up to 24 h; the same happens after pd-recover or a fail-over to
// a member with a lagging clock). Registrations with TTLs shorter than the offset follow: an acknowledged one must be
// honoured until now + TTL on that clock. Run last on this server: the TSO stays ahead from here on.
func (w *world) tsoAhead() *caseRec {
	w.reset()
	ahead := w.tsoNow().Add(10 * time.Minute)
	if err := w.x.S.GetHandler().ResetTS(tsoutil.ComposeTS(ahead.UnixNano()/int64(time.Millisecond), 0)); err != nil {
		w.R.Notes = append(w.R.Notes, "tso-ahead scenario incomplete: ResetTS refused: "+err.Error())
		return nil
	}
	if d := w.tsoNow().Sub(time.Now()); d < 9*time.Minute {
		w.R.Notes = append(w.R.Notes, fmt.Sprintf("tso-ahead scenario incomplete: the TSO is only %v ahead", d))
		return nil
	}
	var c caseRec
	inf := int64(math.MaxInt64)
	for _, o := range []op{{K: "svc", ID: "gc_worker", TTL: inf, SP: 30}, {K: "svc", ID: "a1", TTL: 60, SP: 40}, {K: "svc", ID: "b2", TTL: 300, SP: 45},
		{K: "svc", ID: "gc_worker", TTL: inf, SP: 50}, {K: "svc", ID: "a1", TTL: 60, SP: 41}, {K: "svc", ID: "h4", TTL: 5, SP: 60}, {K: "svc", ID: "gc_worker", TTL: inf, SP: 55}} {
		w.step(&c, o)
	}
	w.R.Count("tso-ahead-of-wall-clock:scenario")
	return &c
}

// malformedProbe: an unparsable value below the service prefix (outside the model: the model's entries are parsed ones).
// What the real code guarantees then, checked here: UpdateServiceGCSafePoint fails (LoadMin cannot parse) and keeps failing -
// a liveness problem only: no safe point moves back, gc_worker's entry stays, the cluster safe point is independent; a TTL<=0
// request still removes its own entry (the removal precedes LoadMin); the REST delete of the bad key repairs it.
func (w *world) malformedProbe() {
	w.reset()
	inf := int64(math.MaxInt64)
	call := func(id string, ttl int64, sp uint64) error {
		r, err := w.x.S.UpdateServiceGCSafePoint(w.ctx, &pdpb.UpdateServiceGCSafePointRequest{Header: w.x.Header(), ServiceId: []byte(id), TTL: ttl, SafePoint: sp})
		if err == nil && r.GetHeader().GetError() != nil {
			err = fmt.Errorf("%v", r.GetHeader().GetError())
		}
		return err
	}
	bad := func(what string) { w.R.Violate("C15:malformed-entry:"+what, "with an unparsable value under gc/safe_point/service/b2: "+what, nil) }
	upd := func(v uint64) uint64 {
		r, err := w.x.S.UpdateGCSafePoint(w.ctx, &pdpb.UpdateGCSafePointRequest{Header: w.x.Header(), SafePoint: v})
		if err != nil {
			bad("UpdateGCSafePoint failed: " + err.Error())
		}
		return r.GetNewSafePoint()
	}
	upd(30)
	if call("gc_worker", inf, 10) != nil || call("a1", 1000, 20) != nil {
		w.R.Count("malformed-probe:set-up-refused")
		return
	}
	if err := w.raw.Save(svcPrefix+"b2", "{{not json"); err != nil {
		panic(err)
	}
	snapshot := func() string {
		ks, vs, err := w.raw.LoadRange("gc/", clientv3.GetPrefixRangeEnd("gc/"), 0)
		if err != nil {
			panic(err)
		}
		return strings.Join(ks, "|") + " = " + strings.Join(vs, "|")
	}
	before := snapshot()
	if call("h4", 1000, 25) == nil {
		bad("a registration was answered although LoadMin cannot parse the stored entries")
	}
	if call("gc_worker", inf, 5) == nil {
		bad("gc_worker's update was answered")
	}
	if snapshot() != before {
		bad("a failing registration changed the stored safe points: " + before + " -> " + snapshot())
	}
	if upd(40) != 40 || upd(35) != 40 {
		bad("the cluster GC safe point is not independent of the service entries")
	}
	rec := httptest.NewRecorder()
	w.api.ServeHTTP(rec, httptest.NewRequest(http.MethodGet, "/pd/api/v1/gc/safepoint", nil))
	if rec.Code != http.StatusInternalServerError {
		bad(fmt.Sprintf("REST list answered %d", rec.Code))
	}
	_ = call("a1", 0, 0) // fails, but its removal precedes LoadMin
	if strings.Contains(snapshot(), svcPrefix+"a1") {
		bad("TTL<=0 did not remove the entry")
	}
	if !strings.Contains(snapshot(), `"service_id":"gc_worker","expired_at":9223372036854775807,"safe_point":10`) {
		bad("gc_worker's entry changed: " + snapshot())
	}
	rec = httptest.NewRecorder()
	w.api.ServeHTTP(rec, httptest.NewRequest(http.MethodDelete, "/pd/api/v1/gc/safepoint/b2", nil))
	if rec.Code != http.StatusOK || call("h4", 1000, 25) != nil {
		bad("deleting the unparsable entry through REST did not repair the service path")
	}
	w.R.Count("malformed-probe:checked")
}

// describe gives the driver's own one-sentence description of a directed case whose implementation
// trace shows a violation (the same signatures as the Coq monitor, which is the authority).
func (w *world) describe(c caseRec) {
	gcAt := func(i int) string {
		f := strings.SplitN(c.Obs[i], "(View ", 2)
		if len(f) < 2 {
			return ""
		}
		return strings.TrimSpace(strings.SplitN(f[1], "[", 2)[0])
	}
	for i, o := range c.Ops {
		if i == 0 {
			continue
		}
		prev, cur := gcAt(i-1), gcAt(i)
		num := func(s string) (uint64, bool) {
			if s == "GAbsent" {
				return 0, true
			}
			var v uint64
			if _, err := fmt.Sscanf(s, "(GVal %d%%Z)", &v); err == nil {
				return v, true
			}
			return 0, false
		}
		a, ok1 := num(prev)
		b, ok2 := num(cur)
		if !ok1 {
			continue
		}
		if !ok2 || b < a {
			ops := make([]string, len(c.Ops))
			for j := range c.Ops {
				ops[j] = c.Ops[j].coq()
			}
			switch {
			case o.K == "finish":
				w.R.Violate("C15:gc-safe-point-decreased:overlapping-updates",
					fmt.Sprintf("stored cluster GC safe point went from %d back to %s when a parked UpdateGCSafePoint(%s) was released after another update had been acknowledged (no mutual exclusion between LoadGCSafePoint and SaveGCSafePoint)", a, cur, c.Obs[i]), c)
			case (o.K == "svc" || o.K == "apidel") && keyOf(o.ID) == "KGc":
				w.R.Violate("C15:gc-safe-point-clobbered:service-id-path-escape",
					fmt.Sprintf("service id %q is cleaned by path.Join onto gc/safe_point: stored cluster GC safe point went from %d to %s after %s", o.ID, a, cur, o.coq()), c)
			}
			return
		}
	}
}

// bulk: more than two pages (of 100) of registrations in which every id is followed by an id that extends it; the
// extensions at what would be page boundaries hold the smallest safe point / are expired
func bulk(r *rng.R) op {
	o := op{K: "seedmany"}
	o.Many = append(o.Many, seedEnt{ID: "gc_worker", Exp: math.MaxInt64, SP: 50})
	low1, low2, dead := 49, 99, 24
	if r != nil {
		low1, low2, dead = r.Intn(bulkN), r.Intn(bulkN), r.Intn(bulkN)
	}
	for k := 0; k < bulkN; k++ {
		o.Many = append(o.Many, seedEnt{ID: bulkID(k, false), Rel: 5000, SP: uint64(100 + k)})
		e := seedEnt{ID: bulkID(k, true), Rel: 5000, SP: uint64(300 + k)}
		switch k {
		case low1:
			e.SP = 20
		case low2:
			e.SP = 10
		case dead:
			e.Rel = -3000
		}
		o.Many = append(o.Many, e)
	}
	return o
}

// genSvcX: a registration whose first LoadMin meets storage faults and REST deletes at its single storage operations.
// Steps are attached to the entries that make the loop issue an operation: clearly expired ones (their Remove) and a
// finite gc_worker entry (its repair save).
func (w *world) genSvcX(r *rng.R) op {
	o := op{K: "svcx", ID: cleanIDs[r.Intn(len(cleanIDs))], TTL: int64(1000 + r.Intn(9000)), SP: pickSP(r), X: &xenv{}, Out: r.Pick(70, 15, 15), Deep: r.Pct(50)}
	// (TTL > 0 always: with TTL <= 0 the call's first storage operation is the Remove of its own key, which a step for
	// that key's expired entry would catch instead; the model has no fault on that removal)
	if r.Pct(8) {
		o.X.LR = 1 + r.Intn(2)
	}
	if r.Pct(15) {
		o.X.Init = 1 + r.Intn(2)
	}
	pickDels := func() []string {
		var ds []string
		for k := r.Intn(3); k > 0; k-- {
			d := cleanIDs[r.Intn(len(cleanIDs))]
			if r.Pct(10) {
				d = "gc_worker"
			}
			ds = append(ds, d)
		}
		return ds
	}
	now := time.Now().Unix()
	for _, e := range w.all() {
		if _, ok := keyNum[e.ServiceID]; !ok || !singleElem(e.ServiceID) {
			continue // entries stored under a foreign id (raw seeds): no step
		}
		switch {
		case e.ServiceID == "gc_worker" && e.ExpiredAt != math.MaxInt64:
			o.X.Steps = append(o.X.Steps, xstep{Key: "gc_worker", Dels: pickDels(), Rep: r.Pick(50, 25, 25), Rem: r.Pick(60, 20, 20)})
		case e.ServiceID != "gc_worker" && e.ExpiredAt < now-500 && r.Pct(75):
			o.X.Steps = append(o.X.Steps, xstep{Key: e.ServiceID, Dels: pickDels(), Rem: r.Pick(50, 25, 25)})
		}
	}
	o.D = pickDels()
	return o
}

// ---------- generators ----------
var spVals = []uint64{0, 1, 5, 9, 10, 11, 20, 30, 31, 50, 1 << 40, math.MaxInt64, math.MaxUint64 - 1, math.MaxUint64}

func pickSP(r *rng.R) uint64 {
	if r.Pct(80) {
		return spVals[r.Intn(10)]
	}
	return spVals[r.Intn(len(spVals))]
}

var tsoClock func() int64 = func() int64 { return time.Now().Unix() }

func pickTTL(r *rng.R) int64 {
	switch r.Pick(14, 10, 40, 16, 10, 10) {
	case 0:
		return 0
	case 1:
		return -int64(1 + r.Intn(100))
	case 2:
		return int64(1000 + r.Intn(9000))
	case 3:
		return math.MaxInt64
	case 4:
		return math.MaxInt64 - tsoClock() - int64(r.Intn(3)) + 1 // around the saturation boundary (MaxInt64 - now <= TTL)
	default:
		return math.MaxInt64 - tsoClock() - 3600 - int64(r.Intn(1000)) // just below it
	}
}

func pickID(r *rng.R, odd int) string {
	if r.Pct(odd) {
		if r.Pct(15) {
			return ""
		}
		return oddIDs[r.Intn(len(oddIDs))]
	}
	if r.Pct(25) {
		return "gc_worker"
	}
	return cleanIDs[r.Intn(len(cleanIDs))]
}

func genSeed(r *rng.R, odd int) op {
	o := op{K: "seed", ID: pickID(r, odd), SP: pickSP(r)}
	// a raw entry "found in storage" lives under the service prefix (possibly under a foreign id);
	// the driver itself never writes to any other key
	if o.ID == "" || !strings.HasPrefix(keyOf(o.ID), "(KSvc") {
		o.ID = "q9"
	}
	switch r.Pick(35, 35, 20, 10) {
	case 0:
		o.Rel = -int64(1000 + r.Intn(5000))
	case 1:
		o.Rel = int64(1000 + r.Intn(5000))
	case 2:
		o.Exp = math.MaxInt64
	default:
		o.Exp = int64(r.Intn(3)) - 1 // -1, 0, 1: long expired, degenerate
	}
	return o
}

// one generated case. kind: 0 = interleavings of cluster safe point updates, 1 = service histories,
// 2 = both mixed with odd (path-escaping, aliasing, empty) service ids
func (w *world) genCase(r *rng.R, kind int, maxOps int, lockedMode bool) caseRec {
	var c caseRec
	n := 6 + r.Intn(maxOps)
	if kind == 1 && r.Pct(4) {
		w.step(&c, bulk(r)) // hundreds of prefix-related registrations first
	}
	odd := 0
	if kind == 2 {
		odd = 45
	}
	for k := 0; k < n; k++ {
		var idle, parked []int
		blocked := false
		for t, x := range w.thr {
			switch x.state {
			case 0:
				idle = append(idle, t)
			case 1:
				parked = append(parked, t)
			default:
				blocked = true
			}
		}
		gcOp := func() bool {
			switch r.Pick(30, 30, 28, 12) {
			case 0:
				if len(idle) > 0 && !blocked && (!lockedMode || len(parked) == 0 || r.Pct(10)) {
					w.step(&c, op{K: "upd", T: idle[r.Intn(len(idle))], V: pickSP(r)})
					return true
				}
			case 1:
				if len(idle) > 0 && !blocked && (!lockedMode || len(parked) == 0 || r.Pct(10)) {
					w.step(&c, op{K: "begin", T: idle[r.Intn(len(idle))], V: pickSP(r)})
					return true
				}
			case 2:
				if len(parked) > 0 {
					w.step(&c, op{K: "finish", T: parked[r.Intn(len(parked))], Out: r.Pick(70, 15, 15)})
					return true
				}
			default:
				w.step(&c, op{K: "get"})
				return true
			}
			return false
		}
		svcOp := func() bool {
			switch r.Pick(22, 60, 10, 8) {
			case 0:
				w.step(&c, genSeed(r, odd))
			case 1:
				if r.Pct(14) {
					w.step(&c, w.genSvcX(r))
					return true
				}
				if r.Pct(22) {
					// a registration with REST deletes slipping in before its save, and/or a failing save
					o := op{K: "svcil", ID: cleanIDs[r.Intn(len(cleanIDs))], TTL: int64(1000 + r.Intn(9000)), SP: pickSP(r), Out: r.Pick(60, 20, 20), Deep: r.Pct(50)}
					if r.Pct(15) {
						o.TTL = pickTTL(r)
					}
					for k := r.Intn(3); k > 0; k-- {
						d := cleanIDs[r.Intn(len(cleanIDs))]
						if r.Pct(15) {
							d = "gc_worker"
						}
						o.D = append(o.D, d)
					}
					w.step(&c, o)
					return true
				}
				w.step(&c, op{K: "svc", ID: pickID(r, odd), TTL: pickTTL(r), SP: pickSP(r)})
			case 2:
				// the router only lets a single clean path element through as {service_id}
				w.step(&c, op{K: "apidel", ID: pickID(r, 0)})
			default:
				w.step(&c, op{K: "get"})
			}
			return true
		}
		for done := false; !done; {
			switch kind {
			case 0:
				done = gcOp()
			case 1:
				done = svcOp()
			default:
				if r.Pct(40) {
					done = gcOp()
				} else {
					done = svcOp()
				}
			}
		}
	}
	w.drain(&c)
	w.step(&c, op{K: "get"})
	return c
}

// directed cases: the schedules and inputs named in DESIGN.md / found while modelling; run on every
// check so that a known finding is reported only while it still replays on the real code
func directed() [][]op {
	inf := int64(math.MaxInt64)
	return [][]op{
		// S6: A loads 5, B(20) is acknowledged, the parked A(10) saves over it
		{{K: "upd", T: 0, V: 5}, {K: "begin", T: 0, V: 10}, {K: "upd", T: 1, V: 20}, {K: "finish", T: 0}, {K: "get"}},
		// three-way
		{{K: "begin", T: 0, V: 10}, {K: "begin", T: 1, V: 30}, {K: "begin", T: 2, V: 20}, {K: "finish", T: 1}, {K: "get"}, {K: "finish", T: 2}, {K: "finish", T: 0}, {K: "get"}},
		// faults on the save
		{{K: "begin", T: 0, V: 10}, {K: "finish", T: 0, Out: 1}, {K: "get"}, {K: "begin", T: 0, V: 10}, {K: "finish", T: 0, Out: 2}, {K: "get"}, {K: "upd", T: 1, V: 9}},
		// service id ".." is cleaned by path.Join onto the cluster safe point key: TTL<=0 removes it
		{{K: "upd", T: 0, V: 30}, {K: "svc", ID: "gc_worker", TTL: inf, SP: 5}, {K: "svc", ID: "..", TTL: 0, SP: 0}, {K: "get"}},
		// ... and TTL>0 stores a JSON object there
		{{K: "upd", T: 0, V: 30}, {K: "svc", ID: "..", TTL: 1000, SP: 7}, {K: "get"}, {K: "upd", T: 0, V: 40}},
		// an alias of gc_worker's key replaces / removes gc_worker's entry
		{{K: "svc", ID: "gc_worker", TTL: inf, SP: 7}, {K: "svc", ID: "a1", TTL: 1000, SP: 9}, {K: "svc", ID: "x/../gc_worker", TTL: 1000, SP: 8},
			{K: "svc", ID: "b2", TTL: 1000, SP: 30}, {K: "svc", ID: "x/../gc_worker", TTL: 0, SP: 8}},
		// ordinary service history: below-min rejected, expiry, repair of a finite gc_worker entry
		{{K: "seed", ID: "gc_worker", Rel: -2000, SP: 10}, {K: "seed", ID: "a1", Rel: -1500, SP: 3}, {K: "seed", ID: "z5", Rel: 3000, SP: 20},
			{K: "svc", ID: "h4", TTL: 1000, SP: 9}, {K: "svc", ID: "h4", TTL: 1000, SP: 10}, {K: "svc", ID: "gc_worker", TTL: inf, SP: 15},
			{K: "svc", ID: "h4", TTL: 0, SP: 0}, {K: "svc", ID: "gc_worker", TTL: 0, SP: 0}, {K: "svc", ID: "gc_worker", TTL: 1000, SP: 40}, {K: "apidel", ID: "z5"},
			{K: "svc", ID: "", TTL: 1000, SP: 40}, {K: "svc", ID: "", TTL: 0, SP: 40}},
		// storage faults and REST deletes at the single storage operations of LoadMin: failing Removes (ignored by the code),
		// a failing / half-failing repair of a finite gc_worker entry, a failing LoadRange, a failing re-creation
		{{K: "seed", ID: "gc_worker", Exp: math.MaxInt64, SP: 10}, {K: "seed", ID: "a1", Rel: -2000, SP: 3}, {K: "seed", ID: "b2", Rel: -1500, SP: 4}, {K: "seed", ID: "z5", Rel: 3000, SP: 20},
			{K: "svcx", ID: "h4", TTL: 1000, SP: 15, X: &xenv{Steps: []xstep{{Key: "a1", Rem: 1}, {Key: "b2", Dels: []string{"z5", "gc_worker"}, Rem: 2}}}, D: []string{"a1"}},
			{K: "svcx", ID: "q9", TTL: 1000, SP: 12, X: &xenv{LR: 1}}, {K: "svcx", ID: "q9", TTL: 1000, SP: 12, X: &xenv{Steps: []xstep{{Key: "a1", Rem: 0}}}, Out: 2}, {K: "svc", ID: "q9", TTL: 1000, SP: 11}},
		{{K: "seed", ID: "gc_worker", Rel: -2000, SP: 10}, {K: "seed", ID: "a1", Rel: 2000, SP: 30},
			{K: "svcx", ID: "h4", TTL: 1000, SP: 15, X: &xenv{Steps: []xstep{{Key: "gc_worker", Rep: 1}}}},
			{K: "svcx", ID: "h4", TTL: 1000, SP: 15, X: &xenv{Steps: []xstep{{Key: "gc_worker", Dels: []string{"a1"}, Rep: 2}}}},
			{K: "svcx", ID: "h4", TTL: 1000, SP: 15, X: &xenv{}}, {K: "apidel", ID: "h4"}},
		{{K: "seed", ID: "a1", Rel: 2000, SP: math.MaxUint64}, {K: "svcx", ID: "h4", TTL: 1000, SP: 15, X: &xenv{Init: 1}}, {K: "svcx", ID: "h4", TTL: 1000, SP: 15, X: &xenv{Init: 2}},
			{K: "svcx", ID: "h4", TTL: 1000, SP: 15, X: &xenv{}}},
		// etcd itself does not commit a write (its transaction fails five times in a row, below kv.Base and whatever retrying
		// the storage layer does): the registration's own save, the removal of an expired entry, gc_worker's re-creation. A
		// call whose write was not committed must not be acknowledged; what is acknowledged is stored.
		{{K: "svc", ID: "gc_worker", TTL: inf, SP: 10}, {K: "svcil", ID: "a1", TTL: 1000, SP: 20, Out: 1, Deep: true}, {K: "svc", ID: "gc_worker", TTL: inf, SP: 30},
			{K: "svcx", ID: "b2", TTL: 1000, SP: 40, X: &xenv{}, Out: 1, Deep: true}, {K: "svc", ID: "gc_worker", TTL: inf, SP: 50},
			{K: "seed", ID: "z5", Rel: -2000, SP: 3}, {K: "svcx", ID: "h4", TTL: 1000, SP: 60, X: &xenv{Steps: []xstep{{Key: "z5", Rem: 1}}}, Deep: true},
			{K: "svcx", ID: "h4", TTL: 1000, SP: 61, X: &xenv{}, Deep: true}},
		{{K: "seed", ID: "a1", Rel: 2000, SP: 70}, {K: "svcx", ID: "h4", TTL: 1000, SP: 15, X: &xenv{Init: 1}, Deep: true}, {K: "svcx", ID: "h4", TTL: 1000, SP: 15, X: &xenv{}, Deep: true}},
		// > 200 registrations, every id followed by an id extending it (t049 / t049-x ...): a paged or prefix-based range read
		// must not lose any of them; the smallest safe points and an expired entry sit right behind would-be page boundaries
		{bulk(nil), {K: "svc", ID: "a1", TTL: 1000, SP: 500}, {K: "svc", ID: "t099-x", TTL: 1000, SP: 12}, {K: "svc", ID: "t049-x", TTL: 0, SP: 0},
			{K: "svc", ID: "gc_worker", TTL: math.MaxInt64, SP: 60}, {K: "apidel", ID: "t099-x"}, {K: "svc", ID: "b2", TTL: 1000, SP: 55}},
		// a lease renewal with an unchanged safe point while at least half of the requested TTL is still left on the stored entry
		// (entry found with 3 s left, renewed with TTL 6), then a request in the window in which only the renewed lease is
		// still running (real time: 4.2 s later; the window stays open for two more seconds)
		{{K: "svc", ID: "gc_worker", TTL: math.MaxInt64, SP: 30}, {K: "seed", ID: "a1", Rel: 3, SP: 40, Wait: -1}, {K: "svc", ID: "a1", TTL: 6, SP: 40},
			{K: "svc", ID: "gc_worker", TTL: math.MaxInt64, SP: 60, Wait: 4200}, {K: "svc", ID: "b2", TTL: 1000, SP: 45}},
		// every live safe point is MaxUint64
		{{K: "svc", ID: "gc_worker", TTL: inf, SP: math.MaxUint64}, {K: "svc", ID: "a1", TTL: 1000, SP: math.MaxUint64}, {K: "svc", ID: "a1", TTL: 1000, SP: 5}},
	}
}

// thorough tier only: entries expire by the passage of real time (TTL of one second, 2.5 s waits)
func directedThorough() [][]op {
	inf := int64(math.MaxInt64)
	return [][]op{
		{{K: "svc", ID: "gc_worker", TTL: inf, SP: 30}, {K: "svc", ID: "a1", TTL: 1, SP: 40}, {K: "svc", ID: "b2", TTL: 1000, SP: 50},
			{K: "svc", ID: "h4", TTL: 1000, SP: 35, Wait: 2500}, {K: "svc", ID: "a1", TTL: 1, SP: 45}, {K: "svc", ID: "gc_worker", TTL: inf, SP: 60, Wait: 2500},
			{K: "svc", ID: "z5", TTL: 1, SP: 70}, {K: "apidel", ID: "b2"}, {K: "svc", ID: "q9", TTL: 1000, SP: 36, Wait: 2500}},
	}
}

func main() {
	seed := flag.Uint64("seed", 1, "")
	n := flag.Int("n", 200, "number of generated cases")
	out := flag.String("out", ".", "output directory")
	tier := flag.String("tier", "quick", "")
	corpus := flag.String("corpus", "", "json file of fixed op lists run first")
	replay := flag.String("replay", "", "json file with op lists (or a replay written by bin/check): run and print observations")
	flag.Parse()
	// watchdog: a run that is stuck says where (all goroutine stacks) instead of being killed silently by the runner
	go func(d time.Duration) {
		time.Sleep(d)
		fmt.Fprintln(os.Stderr, "c15 driver: watchdog - no result after", d, "- goroutine stacks follow")
		_ = pprof.Lookup("goroutine").WriteTo(os.Stderr, 1)
		os.Exit(3)
	}(map[bool]time.Duration{true: 270 * time.Second, false: 2900 * time.Second}[*tier == "quick"])

	x, err := srv15.Start()
	if err != nil {
		fmt.Fprintln(os.Stderr, "server:", err)
		os.Exit(2)
	}
	defer x.Close()
	if err := x.Bootstrap(); err != nil {
		fmt.Fprintln(os.Stderr, "bootstrap:", err)
		os.Exit(2)
	}
	st := x.S.GetStorage()
	// the storage's real etcdKVBase is rebuilt over an etcd client whose single requests can be held (kvx15.Hold); the
	// parking kv.Base wrapper sits on top of it
	hc, hold, err := kvx15.DialHeld(x.S.GetClient().Endpoints())
	if err != nil {
		fmt.Fprintln(os.Stderr, "etcd client:", err)
		os.Exit(2)
	}
	defer hc.Close()
	b := kvx15.New(kv.NewEtcdKVBase(hc, path.Dir(x.S.GetClusterRootPath())))
	st.Base = b
	R := res.New("C15", *seed, *tier)
	R.Rule = "histories of UpdateGCSafePoint (complete, or parked between LoadGCSafePoint and SaveGCSafePoint and released with " +
		"Ok/ErrNotApplied/ErrApplied), GetGCSafePoint, UpdateServiceGCSafePoint (clean, gc_worker, empty, path-escaping and aliasing ids; " +
		"TTL <=0, finite, saturating), raw seeded entries (expired, live, infinite, finite gc_worker) and REST deletes on a real bootstrapped " +
		"server; non-trivial = an acknowledged update overtook a parked one, or a storage fault, or a registration was refused below the " +
		"minimum, or an expired entry was pruned, or a handler returned an error; distinct by sha256 of the canonical (ops,obs) text"
	// views, seeds and resets use a kv.Base of their own over the server's client: what the driver reads must not depend on
	// (or wait for) the storage object under test
	ek := kvx15.NewEtcdKV(x.S.GetClient().KV)
	x.S.GetClient().KV = ek
	w := &world{x: x, st: st, b: b, hold: hold, ek: ek, raw: kv.NewEtcdKVBase(x.S.GetClient(), path.Dir(x.S.GetClusterRootPath())), ctx: context.Background(), R: R}
	tsoClock = func() int64 { return w.tsoNow().Unix() }
	w.api, _, err = api.NewHandler(w.ctx, x.S)
	if err != nil {
		fmt.Fprintln(os.Stderr, "api:", err)
		os.Exit(2)
	}
	for t := 0; t < 3; t++ {
		w.thr = append(w.thr, &thread{who: fmt.Sprintf("t%d", t)})
	}
	cf := &coqfmt.CaseFile{Dir: *out, Prefix: "C15", PerFile: 100,
		Header: "From Coq Require Import String.\nFrom PDV Require Import lib.Base model.C15_Gc.\nOpen Scope string_scope.\nLocal Open Scope Z_scope.\n",
		Type:   "list op * list (obs * view)",
		Footer: "Definition M := Eval vm_compute in map fst (mismatches cases).\nDefinition D := Eval vm_compute in hd_error (mismatches cases).\nDefinition V := Eval vm_compute in monitor_fails cases.\nPrint M. Print D. Print V.\n"}

	var all []caseRec
	emit := func(c caseRec, origin string) {
		if !x.S.GetMember().IsLeader() {
			leaderLost = true
		}
		if leaderLost {
			leaderLost = false
			R.Count("case:dropped-leadership-lost")
			if err := x.WaitLeader(60 * time.Second); err != nil {
				panic(err)
			}
			return
		}
		if w.ambiguous {
			// (never seen so far) a failed service call straddled a second boundary: the case cannot be replayed
			// by the model with a definite `now`; it is counted, not silently dropped
			w.ambiguous = false
			R.Count("case:dropped-clock-ambiguous")
			return
		}
		overtaken, fault, refused, pruned, errs := false, false, false, false, false
		pend := map[int]bool{}
		prevN := 0
		for i, o := range c.Ops {
			R.Count("op:" + o.K)
			ob := strings.Fields(strings.TrimPrefix(c.Obs[i], "("))[0]
			ob = strings.TrimSuffix(ob, ",")
			R.Count("obs:" + ob)
			switch o.K {
			case "begin":
				if ob == "BStarted" {
					pend[o.T] = true
				}
			case "upd":
				if len(pend) > 0 && ob == "BResp" {
					overtaken = true
					R.Count("sched:update-acknowledged-while-another-is-parked")
				}
			case "finish":
				delete(pend, o.T)
				if o.Out != 0 {
					fault = true
				}
				if len(pend) > 0 {
					overtaken = true
				}
			case "svcx":
				R.Count(fmt.Sprintf("svcx:steps=%d,loadrange=%d,init=%d,own-save=%d", len(o.X.Steps), o.X.LR, o.X.Init, o.Out))
			case "svcil":
				R.Count(fmt.Sprintf("svcil:deletes=%d,outcome=%d", len(o.D), o.Out))
			case "svc":
				R.Count("svc-id:" + map[bool]string{true: "clean", false: "odd"}[isClean(o.ID)])
				switch {
				case o.TTL <= 0:
					R.Count("svc-ttl:nonpositive")
				case o.TTL > math.MaxInt64/2:
					R.Count("svc-ttl:saturating-or-near")
				default:
					R.Count("svc-ttl:finite")
				}
			}
			if ob == "BErr" {
				errs = true
			}
			nEnt := strings.Count(c.Obs[i], "(Entry ")
			if o.K == "svc" && nEnt < prevN {
				pruned = true
				R.Count("svc:entries-removed")
			}
			if o.K == "svc" && ob == "BMin" && o.TTL > 0 && !strings.Contains(c.Obs[i], fmt.Sprintf("(Entry %s ", textOf(o.ID))) {
				refused = true
				R.Count("svc:registration-not-recorded")
			}
			prevN = nEnt
		}
		R.Count("case:" + origin)
		txt := c.coq()
		R.Case(txt, overtaken || fault || refused || pruned || errs)
		R.Sample(map[string]interface{}{"ops": c.Ops, "obs": c.Obs})
		if err := cf.Add(txt); err != nil {
			panic(err)
		}
		all = append(all, c)
	}
	runFixed := func(ops []op, origin string) caseRec {
		w.reset()
		var c caseRec
		for _, o := range ops {
			if o.K == "wake" {
				continue // emitted by the run itself
			}
			w.step(&c, o)
		}
		w.drain(&c)
		emit(c, origin)
		return c
	}

	// is the load..save section of UpdateGCSafePoint serialised on this tree? (first directed case decides)
	lockedMode := false
	if *replay == "" {
		for i, d := range directed() {
			c := runFixed(d, "directed")
			w.describe(c)
			if i == 0 {
				for _, ob := range c.Obs {
					if strings.HasPrefix(ob, "(BBlocked") {
						lockedMode = true
						blockWait = 100 * time.Millisecond
						R.Notes = append(R.Notes, "UpdateGCSafePoint requests are serialised on this tree (a second request blocked while one was parked)")
					}
				}
			}
		}
	}
	if *replay == "" {
		w.svcRace()
		w.restWriteProbe()
		w.svcAbandon()
		w.malformedProbe()
		if c := w.heldRead(); c != nil {
			emit(*c, "directed:held-etcd-read")
		}
		if *tier == "thorough" {
			for _, d := range directedThorough() {
				runFixed(d, "directed-real-expiry")
			}
		}
	}
	for _, f := range []string{*corpus, *replay} {
		if f == "" {
			continue
		}
		bs, err := os.ReadFile(f)
		if err != nil {
			panic(err)
		}
		var l [][]op
		if err := json.Unmarshal(bs, &l); err != nil {
			// a replay file written by bin/check: {"replay": {"Ops": [...]}}
			var rp struct {
				Replay struct{ Ops []op }
			}
			if err2 := json.Unmarshal(bs, &rp); err2 != nil || len(rp.Replay.Ops) == 0 {
				panic(err)
			}
			l = [][]op{rp.Replay.Ops}
		}
		for _, ops := range l {
			c := runFixed(ops, "corpus")
			if f == *replay {
				for i := range c.Ops {
					fmt.Printf("%-60s -> %s\n", c.Ops[i].coq(), c.Obs[i])
				}
			}
		}
	}
	if *replay == "" {
		master := rng.New(*seed)
		for k := 0; k < *n; k++ {
			r := master.Fork(uint64(k))
			kind := r.Pick(45, 35, 20)
			w.reset()
			c := w.genCase(r, kind, 14, lockedMode)
			emit(c, []string{"gen:gc-interleavings", "gen:service-histories", "gen:mixed-with-odd-ids"}[kind])
		}
	}
	if *replay == "" {
		if c := w.tsoAhead(); c != nil && !leaderLost {
			emit(*c, "directed:tso-ahead-of-wall-clock")
		}
	}
	if *replay == "" {
		// last: two more servers in the process disturb the timing of everything else
		t0 := time.Now()
		rec, cleanup := leadershipRoundTrip(w)
		if rec != nil && !leaderLost {
			emit(*rec, "directed:leadership-round-trip")
		}
		leaderLost = false
		cleanup()
		R.Notes = append(R.Notes, fmt.Sprintf("leadership round trip A->B->A on two real members (incl. close): %.1fs", time.Since(t0).Seconds()))
	}
	if err := cf.Flush(); err != nil {
		panic(err)
	}
	R.CaseFiles = cf.Files
	bs, _ := json.Marshal(all)
	os.WriteFile(path.Join(*out, "cases.json"), bs, 0o644)
	if err := R.Write(path.Join(*out, "result.json")); err != nil {
		panic(err)
	}
}
