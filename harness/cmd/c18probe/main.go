package main

import (
	"encoding/json"
	"fmt"
	"time"

	"github.com/pingcap/kvproto/pkg/metapb"
	"github.com/tikv/pd/server/config"

	"pdverif/internal/kvx14"
	"pdverif/internal/srv14"
)

func main() {
	x, err := srv14.Start(func(c *config.Config) { c.LeaderLease = 60 })
	if err != nil {
		panic(err)
	}
	defer x.Close()
	if err := x.Bootstrap(&metapb.Store{Id: 1, Address: "a1", Version: "4.0.0"}); err != nil {
		panic(err)
	}
	s := x.S
	st := s.GetStorage()
	kb := kvx14.Wrap(st.Base, func(k string) (string, bool) { return "", true })
	st.Base = kb
	show := func(tag string) {
		o := config.NewPersistOptions(s.GetConfig())
		err := o.Reload(st)
		r := s.GetRaftCluster().GetRuleManager().GetRule("pd", "default")
		fmt.Printf("%s: served max=%d labels=%v pr=%v | reload(err=%v) max=%d labels=%v | rule=%v/%v\n", tag,
			s.GetReplicationConfig().MaxReplicas, s.GetReplicationConfig().LocationLabels, s.GetReplicationConfig().EnablePlacementRules,
			err, o.GetReplicationConfig().MaxReplicas, o.GetReplicationConfig().LocationLabels, r.Count, r.LocationLabels)
		st.LoadRules(func(k, v string) { fmt.Println("   stored rule", k, v) })
	}
	show("start")
	rc := s.GetReplicationConfig()
	rc.MaxReplicas = 5
	rc.LocationLabels = []string{"zone"}
	kb.Arm(nil)
	fmt.Println("set repl 5:", s.SetReplicationConfig(*rc))
	for _, e := range kb.Entries() {
		fmt.Println("   write", e.Op, e.Key)
	}
	show("after set 5")
	rc.MaxReplicas = 0
	fmt.Println("set repl 0:", s.SetReplicationConfig(*rc))
	show("after set 0")
	rc.MaxReplicas = 7
	rc.LocationLabels = []string{"zone", "host"}
	kb.Arm(map[string]kvx14.Kind{kvx14.PlanKey("", 0): kvx14.FailBefore})
	fmt.Println("set repl 7 failing:", s.SetReplicationConfig(*rc))
	kb.Arm(nil)
	show("after failing 7")

	// label property
	fmt.Println(s.SetLabelProperty("reject-leader", "zone", "z1"))
	kb.Arm(map[string]kvx14.Kind{kvx14.PlanKey("", 0): kvx14.FailBefore})
	fmt.Println("set again failing:", s.SetLabelProperty("reject-leader", "zone", "z1"), s.GetLabelProperty())
	kb.Arm(nil)

	// pd server
	pc := s.GetPDServerConfig()
	pc.TraceRegionFlow = false
	pc.FlowRoundByDigit = 5
	fmt.Println("set pdserver:", s.SetPDServerConfig(*pc))
	o := config.NewPersistOptions(s.GetConfig())
	o.Reload(st)
	fmt.Printf("served trace=%v digit=%d | reload trace=%v digit=%d\n", s.GetPDServerConfig().TraceRegionFlow, s.GetPDServerConfig().FlowRoundByDigit, o.GetPDServerConfig().TraceRegionFlow, o.GetPDServerConfig().FlowRoundByDigit)

	// replication mode
	rm := *s.GetReplicationModeConfig()
	b, _ := json.Marshal(rm)
	fmt.Println("repl mode now:", string(b))
	rm.ReplicationMode = "dr-auto-sync"
	rm.DRAutoSync.LabelKey = "zone"
	rm.DRAutoSync.Primary = "z1"
	rm.DRAutoSync.DR = "z2"
	rm.DRAutoSync.PrimaryReplicas = 2
	rm.DRAutoSync.DRReplicas = 1
	t0 := time.Now()
	kb.Arm(nil)
	fmt.Println("set dr:", s.SetReplicationModeConfig(rm), time.Since(t0))
	for _, e := range kb.Entries() {
		fmt.Println("   write", e.Op, e.Key)
	}
	rm.ReplicationMode = "bogus"
	fmt.Println("set bogus:", s.SetReplicationModeConfig(rm))
	sc := s.GetScheduleConfig()
	sc.LowSpaceRatio = 0.5
	sc.HighSpaceRatio = 0.6
	fmt.Println("sched bad:", s.SetScheduleConfig(*sc))
	sc.HighSpaceRatio = 0.4
	sc.Schedulers = nil
	kb.Arm(nil)
	fmt.Println("sched ok:", s.SetScheduleConfig(*sc))
	for _, e := range kb.Entries() {
		fmt.Println("   write", e.Op, e.Key, len(e.Value))
	}
	o = config.NewPersistOptions(s.GetConfig())
	o.Reload(st)
	fmt.Println("served schedulers", s.GetScheduleConfig().Schedulers, "reloaded", o.GetScheduleConfig().Schedulers)
}
