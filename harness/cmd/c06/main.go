// Driver for C06: real RaftCluster.processRegionHeartbeat (through the verif hook) over one shared
// BasicCluster and one shared storage, sequentially and from several heartbeat threads whose labels
// (first precheck | locked precheck+put | each storage write) are scheduled by the harness.
// Prints (ops, observations) as Coq terms for model/C06_Heartbeat.v.
package main

import (
	"context"
	"encoding/json"
	"flag"
	"fmt"
	"io"
	"os"
	"path"
	"sort"
	"strings"
	"sync"
	"time"

	"github.com/gogo/protobuf/proto"
	"github.com/pingcap/kvproto/pkg/metapb"
	"github.com/pingcap/kvproto/pkg/pdpb"
	"github.com/pingcap/log"
	"github.com/tikv/pd/pkg/encryption"
	"github.com/tikv/pd/pkg/mock/mockid"
	"github.com/tikv/pd/server/cluster"
	"github.com/tikv/pd/server/config"
	"github.com/tikv/pd/server/core"
	"github.com/tikv/pd/server/election"
	"github.com/tikv/pd/server/encryptionkm"
	"github.com/tikv/pd/server/kv"
	"go.uber.org/zap"
	"go.uber.org/zap/zapcore"

	"pdverif/internal/c07x"
	"pdverif/internal/coqfmt"
	"pdverif/internal/etcdx"
	"pdverif/internal/res"
	"pdverif/internal/rng"
	"pdverif/internal/srv15"
)

// ---------- controlled kv.Base: parks writes of one heartbeat thread ----------

type parkKV struct {
	kv.Base
	mu      sync.Mutex
	park    bool
	parked  chan struct{}
	release chan struct{}
}

func newParkKV(inner kv.Base) *parkKV {
	return &parkKV{Base: inner, parked: make(chan struct{}, 1), release: make(chan struct{}, 1)}
}
func (p *parkKV) gate() {
	p.mu.Lock()
	on := p.park
	p.mu.Unlock()
	if on {
		p.parked <- struct{}{}
		<-p.release
	}
}
func (p *parkKV) Save(k, v string) error { p.gate(); return p.Base.Save(k, v) }
func (p *parkKV) Remove(k string) error  { p.gate(); return p.Base.Remove(k) }
func (p *parkKV) setPark(on bool) {
	p.mu.Lock()
	p.park = on
	p.mu.Unlock()
}

// ---------- world ----------

type thread struct {
	rc      *cluster.RaftCluster
	kv      *parkKV
	done    chan error
	atLock  bool
	atStore bool
}

type world struct {
	ctx     context.Context
	cancel  context.CancelFunc
	wb      bool
	enc     bool // encryption at rest with a real key manager
	bc      *core.BasicCluster
	base    kv.Base
	rs      *core.RegionStorage
	dir     string
	opt     *config.PersistOptions
	main    *cluster.RaftCluster
	reader  *core.Storage
	threads map[int]*thread
	early   int         // storage writes made by a thread before it reached c.Lock()
	par     int         // operations still to be issued while a flush runs in its own goroutine
	parDone chan string // its result
}

func (w *world) newStorage(base kv.Base) *core.Storage {
	var opts []core.StorageOption
	if w.enc {
		opts = append(opts, core.WithEncryptionKeyManager(keyManager()))
	}
	if w.wb {
		s := core.NewStorage(base, append(opts, core.WithRegionStorage(w.rs))...)
		s.SwitchToRegionStorage()
		return s
	}
	return core.NewStorage(base, opts...)
}

func (w *world) facade(st *core.Storage) *cluster.RaftCluster {
	rc := cluster.NewRaftCluster(w.ctx, "", 1, nil, nil, nil)
	rc.InitCluster(mockid.NewIDAllocator(), w.opt, st, w.bc)
	return rc
}

// encryption at rest: one real key manager (server/encryptionkm: master key file, data key stored in an embedded etcd) for the run
var (
	kmOnce sync.Once
	kmInst *encryptionkm.KeyManager
)

func keyManager() *encryptionkm.KeyManager {
	kmOnce.Do(func() {
		e, err := etcdx.Start()
		if err != nil {
			panic(err)
		}
		cli, _, err := e.NewClient()
		if err != nil {
			panic(err)
		}
		dir, err := os.MkdirTemp("", "c06key")
		if err != nil {
			panic(err)
		}
		keyFile := path.Join(dir, "key")
		if err := os.WriteFile(keyFile, []byte("8fd7e3e917c170d92f3e51a981dd7bc8fba11f3df7d8df994842f6e86f69b530"), 0o600); err != nil {
			panic(err)
		}
		cfg := &encryption.Config{DataEncryptionMethod: "aes128-ctr",
			MasterKey: encryption.MasterKeyConfig{Type: "file", MasterKeyFileConfig: encryption.MasterKeyFileConfig{FilePath: keyFile}}}
		if err := cfg.Adjust(); err != nil {
			panic(err)
		}
		m, err := encryptionkm.NewKeyManager(cli, cfg)
		if err != nil {
			panic(err)
		}
		leader := election.NewLeadership(cli, "c06_leader", "c06")
		if err := leader.Campaign(30000000, ""); err != nil {
			panic(err)
		}
		if err := m.SetLeadership(leader); err != nil {
			panic(err)
		}
		if _, k, err := m.GetCurrentKey(); err != nil || k == nil {
			panic(fmt.Sprint("no data key: ", err))
		}
		kmInst = m
	})
	return kmInst
}

func newWorld(wb bool, opt *config.PersistOptions) *world { return newWorldEnc(wb, false, opt) }

func newWorldEnc(wb, enc bool, opt *config.PersistOptions) *world {
	journal.Begin(map[string]interface{}{"wb": wb, "enc": enc})
	ctx, cancel := context.WithCancel(context.Background())
	w := &world{ctx: ctx, cancel: cancel, wb: wb, enc: enc, bc: core.NewBasicCluster(), base: kv.NewMemoryKV(), opt: opt, threads: map[int]*thread{}}
	if wb {
		dir, err := os.MkdirTemp("", "c06rs")
		if err != nil {
			panic(err)
		}
		w.dir = dir
		var km *encryptionkm.KeyManager
		if enc {
			km = keyManager()
		}
		rs, err := core.NewRegionStorage(ctx, dir, km)
		if err != nil {
			panic(err)
		}
		w.rs = rs
	}
	w.reader = w.newStorage(w.base)
	w.main = w.facade(w.newStorage(w.base))
	return w
}

func (w *world) close() {
	for _, th := range w.threads {
		if th.atLock {
			th.rc.RUnlock()
			th.atLock = false
		}
		th.kv.setPark(false)
		select {
		case th.kv.release <- struct{}{}:
		default:
		}
	}
	w.cancel()
	if w.rs != nil {
		w.rs.Close()
		os.RemoveAll(w.dir)
	}
}

type panicErr struct{ v interface{} }

func (p panicErr) Error() string { return fmt.Sprint("panic: ", p.v) }

var panicked []string // descriptions of panics inside processRegionHeartbeat (reported as violations)

func resObs(err error) string {
	if pe, ok := err.(panicErr); ok {
		panicked = append(panicked, "processRegionHeartbeat: "+pe.Error())
		return "HoRes HBad"
	}
	if err != nil {
		return "HoRes HErr"
	}
	return "HoRes HOk"
}

// hb calls the real processRegionHeartbeat; a panic inside it is turned into an observation
func hb(rc *cluster.RaftCluster, info *core.RegionInfo) (err error) {
	defer func() {
		if e := recover(); e != nil {
			err = panicErr{e}
		}
	}()
	return rc.VerifC06ProcessRegionHeartbeat(info)
}

// ---------- ops ----------

type hop struct {
	K   string        `json:"k"`
	T   int           `json:"t,omitempty"`
	R   *c07x.Region  `json:"r,omitempty"` // what the driver asked for
	P   *c07x.Region  `json:"p,omitempty"` // projection of the real RegionInfo (what the model sees)
	IDs []uint64      `json:"ids,omitempty"`
	Rs  []c07x.Region `json:"rs,omitempty"`  // reportsplit: the regions of the report (the last one is the parent)
	Pad int           `json:"pad,omitempty"` // saveraw: number of filler peers in the saved meta (size only, not part of the model)
	Par int           `json:"par,omitempty"` // flush: runs in its own goroutine while the next Par operations are issued
}

// journal of the running case (kept by the child process, read by the supervising parent after a crash)
var journal *c07x.OpLog

var opFunc = map[string]string{"hb": "processRegionHeartbeat", "begin": "processRegionHeartbeat", "step": "processRegionHeartbeat",
	"run": "processRegionHeartbeat", "flush": "Storage.Flush", "snap": "ScanRegions+LoadRegion", "saveraw": "Storage.SaveRegion", "reload": "Storage.LoadRegions+CheckAndPutLoadedRegion", "reportsplit": "HandleBatchReportSplit"}

var fillers = map[int][]*metapb.Peer{}

func fillerPeers(n int) []*metapb.Peer {
	if f, ok := fillers[n]; ok {
		return f
	}
	f := make([]*metapb.Peer, n)
	for i := range f {
		f[i] = &metapb.Peer{Id: uint64(1000000 + i), StoreId: uint64(1000000 + i)}
	}
	fillers[n] = f
	return f
}

// safeExec: a panic of the real code under the driver's input is a failing input (reported by emit), not a driver failure
func (w *world) safeExec(o *hop) (ob string) {
	defer func() {
		if e := recover(); e != nil {
			panicked = append(panicked, fmt.Sprintf("%s: %v", opFunc[o.K], e))
			ob = "HoRes HBad"
		}
	}()
	return w.exec(o)
}

// run = journal + safeExec; a flush with Par > 0 overlaps the next Par operations: it runs in its own goroutine, a moment
// later (it holds the region storage's mutex and is marshalling a large batch by then) the next operations are issued
// from this goroutine.  The real code holds RegionStorage.mu across the whole flush, so they wait for it: the history is
// equivalent to the sequential one that is recorded (flush first).
func (w *world) run(o *hop) string {
	journal.Op(o)
	if o.K == "flush" && o.Par > 0 {
		done := make(chan string, 1)
		fl := *o
		go func() { done <- w.safeExec(&fl) }()
		time.Sleep(4 * time.Millisecond)
		w.par, w.parDone = o.Par, done
		return "HoUnit"
	}
	ob := w.safeExec(o)
	if w.par > 0 {
		if w.par--; w.par == 0 {
			<-w.parDone
		}
	}
	return ob
}

func (o hop) coq() string {
	switch o.K {
	case "hb":
		return "OHb " + o.P.Coq()
	case "begin":
		return fmt.Sprintf("OBegin %d %s", o.T, o.P.Coq())
	case "step":
		return fmt.Sprintf("OStep %d", o.T)
	case "run":
		return fmt.Sprintf("ORun %d", o.T)
	case "flush":
		return "OFlush"
	case "saveraw":
		return "OSaveRaw " + o.P.Coq()
	case "reload":
		return "OReload"
	case "reportsplit":
		xs := make([]string, len(o.Rs))
		for i := range o.Rs {
			xs[i] = o.Rs[i].Coq()
		}
		return "OReportSplit [" + strings.Join(xs, "; ") + "]"
	case "snap":
		xs := make([]string, len(o.IDs))
		for i, v := range o.IDs {
			xs[i] = fmt.Sprintf("%d", v)
		}
		return "OSnap [" + strings.Join(xs, "; ") + "]"
	}
	panic("bad op")
}

func (w *world) waitThread(th *thread) string {
	// after a release: the thread either finishes or parks at its next storage write
	select {
	case err := <-th.done:
		th.atStore = false
		return resObs(err)
	case <-th.kv.parked:
		th.atStore = true
		return "HoRes HParked"
	case <-time.After(10 * time.Second):
		panic("thread neither finished nor parked")
	}
}

func (w *world) exec(o *hop) string {
	switch o.K {
	case "hb":
		info := core.RegionFromHeartbeat(o.R.Heartbeat())
		p := c07x.Project(info)
		o.P = &p
		return resObs(hb(w.main, info))
	case "begin":
		info := core.RegionFromHeartbeat(o.R.Heartbeat())
		p := c07x.Project(info)
		o.P = &p
		th := w.threads[o.T]
		if th != nil && (th.atLock || th.atStore) {
			return "HoRes HBad" // the thread is still inside a heartbeat (fixed op lists replayed on changed code)
		}
		if th == nil {
			pk := newParkKV(w.base)
			th = &thread{kv: pk, rc: w.facade(w.newStorage(pk))}
			w.threads[o.T] = th
		}
		th.done = make(chan error, 1)
		th.kv.setPark(!w.wb)
		th.rc.RLock() // the thread will block at c.Lock() after its first precheck
		go func() { th.done <- hb(th.rc, info) }()
		deadline := time.Now().Add(10 * time.Second)
		for {
			select {
			case err := <-th.done:
				th.rc.RUnlock()
				return resObs(err)
			case <-th.kv.parked:
				// a storage write before the thread reached c.Lock(): not a section of the modelled protocol; it is let
				// through as part of this label, so that the snapshot that follows shows what it did to storage
				w.early++
				th.kv.release <- struct{}{}
			default:
			}
			if th.rc.TryRLock() {
				th.rc.RUnlock()
			} else { // a writer is pending: the thread waits at c.Lock()
				th.atLock = true
				return "HoRes HParked"
			}
			if time.Now().After(deadline) {
				panic("begin: thread neither returned nor reached the lock")
			}
			time.Sleep(20 * time.Microsecond)
		}
	case "step":
		th := w.threads[o.T]
		if th == nil || (!th.atLock && !th.atStore) {
			return "HoRes HBad" // no label left for this thread
		}
		if th.atLock {
			th.atLock = false
			th.rc.RUnlock()
			return w.waitThread(th)
		}
		th.kv.release <- struct{}{}
		return w.waitThread(th)
	case "run":
		th := w.threads[o.T]
		if th == nil || (!th.atLock && !th.atStore) {
			return "HoRes HBad"
		}
		th.kv.setPark(false)
		if th.atLock {
			th.atLock = false
			th.rc.RUnlock()
		} else if th.atStore {
			th.kv.release <- struct{}{}
		}
		select {
		case err := <-th.done:
			th.atStore = false
			return resObs(err)
		case <-th.kv.parked: // it had already entered the gate before parking was switched off
			th.kv.release <- struct{}{}
			err := <-th.done
			th.atStore = false
			return resObs(err)
		case <-time.After(10 * time.Second):
			panic("run: thread did not finish")
		}
	case "saveraw":
		info := core.RegionFromHeartbeat(o.R.Heartbeat())
		p := c07x.Project(info)
		o.P = &p
		m := proto.Clone(info.GetMeta()).(*metapb.Region)
		if o.Pad > 0 {
			m.Peers = fillerPeers(o.Pad)
		}
		if err := w.reader.SaveRegion(m); err != nil {
			panic(err)
		}
		return "HoUnit"
	case "reportsplit":
		// the report of a split (unary RPC next to the heartbeat stream): logged and answered; the cache learns from heartbeats only
		var metas []*metapb.Region
		for i := range o.Rs {
			m, _, _ := o.Rs[i].Meta()
			metas = append(metas, m)
		}
		_, _ = w.main.HandleBatchReportSplit(&pdpb.ReportBatchSplitRequest{Regions: metas})
		return "HoUnit"
	case "reload":
		// PD restarts: a fresh BasicCluster filled from storage the way RaftCluster.LoadClusterInfo does it (regions without
		// leader, term and statistics); only when no heartbeat is in flight
		for _, th := range w.threads {
			if th.atLock || th.atStore {
				return "HoRes HBad"
			}
		}
		nb := core.NewBasicCluster()
		if err := w.reader.LoadRegions(func(region *core.RegionInfo) []*core.RegionInfo {
			return nb.CheckAndPutLoadedRegion(region, w.reader.SaveRegion)
		}); err != nil {
			panic(err)
		}
		w.bc = nb
		w.threads = map[int]*thread{}
		w.main = w.facade(w.newStorage(w.base))
		return "HoUnit"
	case "flush":
		if err := w.reader.Flush(); err != nil {
			panic(err)
		}
		return "HoUnit"
	case "snap":
		var cs []string
		for _, ri := range w.main.ScanRegions(nil, nil, 0) {
			if ri == nil {
				cs = append(cs, "CDig 0 [] [] 0 0 0 0 (-1)")
				continue
			}
			var l uint64
			if ri.GetLeader() != nil {
				l = ri.GetLeader().GetId()
			}
			cs = append(cs, fmt.Sprintf("CDig %d %s %s %d %d %d %d %d", ri.GetID(), c07x.Key(string(ri.GetStartKey())), c07x.Key(string(ri.GetEndKey())),
				ri.GetRegionEpoch().GetVersion(), ri.GetRegionEpoch().GetConfVer(), ri.GetTerm(), l, ri.GetApproximateKeys()))
		}
		var ss []string
		for _, id := range o.IDs {
			m := &metapb.Region{}
			ok, err := w.reader.LoadRegion(id, m)
			if err != nil {
				panic(err)
			}
			if ok {
				ss = append(ss, fmt.Sprintf("SDig %d %s %s %d %d", m.GetId(), c07x.Key(string(m.GetStartKey())), c07x.Key(string(m.GetEndKey())),
					m.GetRegionEpoch().GetVersion(), m.GetRegionEpoch().GetConfVer()))
			}
		}
		return "HoSnap " + coqfmt.List(cs) + " " + coqfmt.List(ss)
	}
	panic("bad op")
}

type hcase struct {
	WB   bool     `json:"wb"`
	Enc  bool     `json:"enc,omitempty"` // encryption at rest (transparent to the model)
	Ops  []hop    `json:"ops"`
	Obs  []string `json:"obs"`
	tags map[string]int
	slow bool
}

func (c hcase) coq() string {
	ops := make([]string, len(c.Ops))
	for i, o := range c.Ops {
		ops[i] = o.coq()
	}
	return fmt.Sprintf("CaseHB %v %s\n  %s", c.WB, coqfmt.List(ops), coqfmt.List(c.Obs))
}

type gen struct {
	r    *rng.R
	w    *world
	c    *hcase
	ids  map[uint64]bool
	last time.Time
}

func (g *gen) idList() []uint64 {
	l := make([]uint64, 0, len(g.ids))
	for id := range g.ids {
		l = append(l, id)
	}
	sort.Slice(l, func(i, j int) bool { return l[i] < l[j] })
	return l
}

func (g *gen) raw(o hop) string {
	if len(panicked) > 0 {
		return "" // the real object may be half-updated after a panic: nothing more is run in this case
	}
	if time.Since(g.last) > 2*time.Second {
		g.c.slow = true // the background flush of RegionStorage may have fired: the case is re-run
	}
	ob := g.w.run(&o)
	g.last = time.Now()
	g.c.Ops = append(g.c.Ops, o)
	g.c.Obs = append(g.c.Obs, ob)
	return ob
}

// step = the op followed by a snapshot, so that consecutive snapshots bracket one label
func (g *gen) step(o hop) string {
	if o.R != nil {
		g.ids[o.R.ID] = true
	}
	before := map[uint64]bool{}
	for _, ri := range g.w.bc.GetRegions() {
		before[ri.GetID()] = true
	}
	ob := g.raw(o)
	g.raw(hop{K: "snap", IDs: g.idList()})
	g.c.tags["op:"+o.K]++
	g.c.tags["res:"+strings.TrimPrefix(ob, "HoRes ")]++
	for _, ri := range g.w.bc.GetRegions() {
		delete(before, ri.GetID())
	}
	g.c.tags["displaced-regions"] += len(before)
	return ob
}

var freshID uint64 = 100000

func mangleHB(r *rng.R, x c07x.Region, tags map[string]int) c07x.Region {
	switch r.Intn(6) {
	case 0:
		x.Term = 0
		tags["malformed:term-0"]++
	case 1:
		if x.End != "" {
			// single-use id: a later heartbeat of the same id would mutate the key of an item that regionTree.remove
			// cannot find (its range does not contain its start key); the list specification cannot follow that
			x.Start, x.End = x.End, x.Start
			freshID++
			x.ID = freshID
			tags["malformed:inverted-range"]++
		}
	case 2:
		x.Leader = 0
		tags["malformed:nil-leader"]++
	case 3:
		if len(x.Peers) >= 2 {
			x.Peers[1].Store = x.Peers[0].Store
			tags["malformed:two-peers-one-store"]++
		}
	case 4:
		x.Ver = uint64(r.Intn(4))
		x.ConfVer = uint64(r.Intn(4))
		tags["malformed:arbitrary-epoch"]++
	case 5:
		x.Term = uint64(r.Intn(3))
		tags["malformed:arbitrary-term"]++
	}
	return x
}

func genCase(r *rng.R, opt *config.PersistOptions, wb, enc bool, a c07x.Alphabet, nops int, malformed, concurrent bool) hcase {
	c := hcase{WB: wb, Enc: enc, tags: map[string]int{}}
	w := newWorldEnc(wb, enc, opt)
	defer w.close()
	g := &gen{r: r, w: w, c: &c, ids: map[uint64]bool{}, last: time.Now()}
	var stamp int64
	sim := c07x.NewSim(a, 3+r.Intn(3), &stamp, r)
	var sent []c07x.Region // every heartbeat content ever produced (for delays and duplicates)
	c.tags["alphabet:"+a.Name]++
	c.tags[fmt.Sprintf("backend-writeback:%v", wb)]++
	c.tags[fmt.Sprintf("encryption-at-rest:%v", enc)]++
	if malformed {
		c.tags["stream:malformed"]++
	} else {
		c.tags["stream:history"]++
	}
	if concurrent {
		c.tags["schedule:concurrent"]++
	} else {
		c.tags["schedule:sequential"]++
	}
	g.raw(hop{K: "snap"})
	busy := map[int]bool{}
	pick := func() c07x.Region {
		switch k := r.Pick(45, 15, 15, 10, 15, 10); {
		case k == 0 || len(sent) == 0: // a history event, then the heartbeat of a region it changed
			idx := sim.Step(r)
			i := r.Intn(len(sim.Regions))
			if len(idx) > 0 && idx[0] < len(sim.Regions) && r.Pct(80) {
				i = idx[r.Intn(len(idx))]
				if i >= len(sim.Regions) {
					i = len(sim.Regions) - 1
				}
			}
			c.tags["hb:current"]++
			return sim.Snapshot(i)
		case k == 1:
			c.tags["hb:current"]++
			return sim.Snapshot(r.Intn(len(sim.Regions)))
		case k == 2: // delayed: an old heartbeat again (same content, same stamp)
			c.tags["hb:delayed-duplicate"]++
			return sent[r.Intn(len(sent))].Clone()
		case k == 3: // duplicate of the most recent one
			c.tags["hb:duplicate"]++
			return sent[len(sent)-1].Clone()
		case k == 5: // an idle region whose leader was re-elected: the same report (same statistics, same stamp) with a higher term
			c.tags["hb:term-only"]++
			y := sent[len(sent)-1-r.Intn((len(sent)+1)/2)].Clone()
			y.Term += uint64(1 + r.Intn(3))
			return y
		default: // arbitrary well-formed region with arbitrary epoch: overlaps, swallows, stale versions
			stamp++
			x := c07x.RandomValid(a, r, 10, 4, stamp)
			if x.Leader == 0 && len(x.Peers) > 0 {
				x.Leader = x.Peers[0].ID
				x.Peers[0].Learner = false
			}
			c.tags["hb:arbitrary"]++
			return x
		}
	}
	for k := 0; k < nops; k++ {
		x := pick()
		if malformed && r.Pct(40) {
			x = mangleHB(r, x, c.tags)
		}
		if x.End == "" || x.Start < x.End { // an inverted-range heartbeat is delivered once, never duplicated
			sent = append(sent, x)
		}
		var free, used []int
		for t := 1; t <= 3; t++ {
			if busy[t] {
				used = append(used, t)
			} else {
				free = append(free, t)
			}
		}
		switch {
		case concurrent && len(used) > 0 && r.Pct(45):
			t := used[r.Intn(len(used))]
			kind := "step"
			if wb || r.Pct(30) {
				kind = "run"
			}
			if ob := g.step(hop{K: kind, T: t}); ob != "HoRes HParked" {
				delete(busy, t)
			}
		case concurrent && len(free) > 0 && r.Pct(50):
			t := free[r.Intn(len(free))]
			y := x
			if ob := g.step(hop{K: "begin", T: t, R: &y}); ob == "HoRes HParked" {
				busy[t] = true
			}
		default:
			y := x
			g.step(hop{K: "hb", R: &y})
		}
		if wb && r.Pct(12) {
			g.step(hop{K: "flush"})
		}
		if r.Pct(10) && len(sent) > 0 { // the report of a split of a region PD may or may not have heard of: newer than, equal to or older than the cache
			p := sent[r.Intn(len(sent))].Clone()
			if p.End == "" || p.Start < p.End {
				mid := p.Start + "m"
				if p.End == "" || mid < p.End {
					freshID++
					left := p.Clone()
					left.ID, left.End = freshID, mid
					right := p.Clone()
					right.Start = mid
					left.Ver, right.Ver = p.Ver+uint64(1+r.Intn(2)), p.Ver+uint64(1+r.Intn(2))
					left.Ver = right.Ver
					for i := range left.Peers {
						left.Peers[i].ID += 70000
					}
					left.Leader, left.Pending = left.Peers[0].ID, nil
					g.ids[left.ID] = true
					g.step(hop{K: "reportsplit", Rs: []c07x.Region{left, right}})
					c.tags["split-report"]++
				}
			}
		}
		if !concurrent && r.Pct(6) { // PD restarts; delayed duplicates of earlier heartbeats keep arriving afterwards
			g.step(hop{K: "flush"})
			g.step(hop{K: "reload"})
			c.tags["restart"]++
		}
	}
	for t := 1; t <= 3; t++ { // drain
		if busy[t] {
			g.step(hop{K: "run", T: t})
		}
	}
	if wb {
		g.step(hop{K: "flush"})
	}
	c.tags["early-storage-write"] += w.early
	return c
}

// the history of DESIGN.md S10 (repaired by /repo 8a5de01), heartbeats handled one at a time: regression case
func writeBackRegression(opt *config.PersistOptions) hcase {
	c := hcase{WB: true, tags: map[string]int{"regression:write-back-resurrection(8a5de01)": 1}}
	w := newWorld(true, opt)
	defer w.close()
	g := &gen{r: rng.New(1), w: w, c: &c, ids: map[uint64]bool{}, last: time.Now()}
	g.raw(hop{K: "snap"})
	p := []c07x.Peer{{ID: 11, Store: 1}, {ID: 12, Store: 2}}
	a := c07x.Region{ID: 1, Start: "a", End: "c", Peers: p, Leader: 11, Size: 10, Ver: 1, ConfVer: 1, Term: 1, Stamp: 1}
	b := c07x.Region{ID: 2, Start: "a", End: "c", Peers: []c07x.Peer{{ID: 21, Store: 1}, {ID: 22, Store: 2}}, Leader: 21, Size: 10, Ver: 2, ConfVer: 1, Term: 1, Stamp: 2}
	g.step(hop{K: "hb", R: &a})
	g.step(hop{K: "hb", R: &b})
	g.step(hop{K: "flush"})
	return c
}

// concurrent heartbeats, outside the statement's storage clause (it asks for one heartbeat at a time): thread 1 puts region 1 and
// is parked before its save; thread 2 puts region 2 (displacing region 1), deletes region 1 from storage (not there yet) and
// saves region 2; then thread 1's save lands: storage keeps the displaced region.  Model and code agree on it
// (C06_displaced_gone_from_storage_concurrent_refuted); cluster.go documents the unlocked storage writes as not fatal.
func overtakenSaveProbe(opt *config.PersistOptions, wb bool) hcase {
	c := hcase{WB: wb, tags: map[string]int{"outside-statement:save-overtaken-by-delete": 1}}
	w := newWorld(wb, opt)
	defer w.close()
	g := &gen{r: rng.New(1), w: w, c: &c, ids: map[uint64]bool{}, last: time.Now()}
	g.raw(hop{K: "snap"})
	a := c07x.Region{ID: 1, Start: "a", End: "c", Peers: []c07x.Peer{{ID: 11, Store: 1}, {ID: 12, Store: 2}}, Leader: 11, Size: 10, Ver: 1, ConfVer: 1, Term: 1, Stamp: 1}
	b := c07x.Region{ID: 2, Start: "a", End: "c", Peers: []c07x.Peer{{ID: 21, Store: 1}, {ID: 22, Store: 2}}, Leader: 21, Size: 10, Ver: 2, ConfVer: 1, Term: 1, Stamp: 2}
	g.step(hop{K: "begin", T: 1, R: &a})
	g.step(hop{K: "step", T: 1}) // locked section of thread 1: region 1 served, save pending
	g.step(hop{K: "begin", T: 2, R: &b})
	g.step(hop{K: "step", T: 2}) // locked section of thread 2: region 1 displaced
	g.step(hop{K: "step", T: 2}) // DeleteRegion(1)
	g.step(hop{K: "step", T: 2}) // SaveRegion(2)
	g.step(hop{K: "step", T: 1}) // SaveRegion(1): overtaken
	if wb {
		g.step(hop{K: "flush"})
	}
	return c
}

// a displacing heartbeat processed while a flush of the write-back batch is in progress (write-back backend, heartbeats one at a
// time): 40 ballast regions whose metas share one slice of 60 000 filler peers make the marshal loop of the flush long; region 1's
// save is pending in the same batch; 4 ms after the flush started, the heartbeat of region 2 displaces region 1.  RegionStorage.mu is
// held across the whole flush, so DeleteRegion(1) waits and the history equals the sequential one recorded here; a flush that
// releases the mutex before it writes lets the delete slip in between and then writes region 1 back (storage clause of the monitor).
func flushRaceCase(opt *config.PersistOptions) hcase {
	c := hcase{WB: true, tags: map[string]int{"directed:displacing-heartbeat-during-flush": 1}}
	w := newWorld(true, opt)
	defer w.close()
	g := &gen{r: rng.New(1), w: w, c: &c, ids: map[uint64]bool{}, last: time.Now()}
	g.raw(hop{K: "snap"})
	for i := 0; i < 40; i++ {
		x := c07x.Region{ID: uint64(100 + i), Start: fmt.Sprintf("k%03d", i), End: fmt.Sprintf("k%03d", i+1), Peers: []c07x.Peer{{ID: uint64(1000 + i), Store: 1}},
			Leader: uint64(1000 + i), Size: 1, Ver: 1, ConfVer: 1, Term: 1, Stamp: int64(100 + i)}
		g.raw(hop{K: "saveraw", R: &x, Pad: 60000})
	}
	a := c07x.Region{ID: 1, Start: "a", End: "c", Peers: []c07x.Peer{{ID: 11, Store: 1}, {ID: 12, Store: 2}}, Leader: 11, Size: 10, Ver: 1, ConfVer: 1, Term: 1, Stamp: 1}
	b := c07x.Region{ID: 2, Start: "a", End: "c", Peers: []c07x.Peer{{ID: 21, Store: 1}, {ID: 22, Store: 2}}, Leader: 21, Size: 10, Ver: 2, ConfVer: 1, Term: 1, Stamp: 2}
	g.step(hop{K: "hb", R: &a}) // SaveRegion(1) pending in the batch
	g.ids[b.ID] = true
	g.raw(hop{K: "flush", Par: 1})
	g.raw(hop{K: "hb", R: &b}) // displaces region 1 while the flush is in progress
	g.raw(hop{K: "snap", IDs: g.idList()})
	g.step(hop{K: "flush"})
	return c
}

// regression (repaired in /repo: a higher reported term alone is a reason to write the cache): term 6 leader 11; then the same idle
// region with term 8 (answered OK, must be remembered); then the delayed term-7 heartbeat of peer 12 must be rejected.
func termOnlyCase(opt *config.PersistOptions) hcase {
	c := hcase{WB: false, tags: map[string]int{"regression:term-only-heartbeat": 1}}
	w := newWorld(false, opt)
	defer w.close()
	g := &gen{r: rng.New(1), w: w, c: &c, ids: map[uint64]bool{}, last: time.Now()}
	g.raw(hop{K: "snap"})
	p := []c07x.Peer{{ID: 11, Store: 1}, {ID: 12, Store: 2}, {ID: 13, Store: 3}}
	x := c07x.Region{ID: 1, Start: "a", End: "c", Peers: p, Leader: 11, Size: 10, Ver: 1, ConfVer: 1, Term: 6, Stamp: 1}
	y := x.Clone()
	y.Term = 8
	z := x.Clone()
	z.Term, z.Leader = 7, 12
	g.step(hop{K: "hb", R: &x})
	g.step(hop{K: "hb", R: &y})
	g.step(hop{K: "hb", R: &z})
	return c
}

// known finding (KNOWN_FINDINGS.txt): a region displaced from the cache leaves no memory of its epoch and term.  Region 1 is served
// with version 4 / term 7; a split child that reports first displaces it; the delayed heartbeat of region 1 with version 2 / term 6
// over keys whose present owner has not reported yet is accepted.
func displacedMemoryCase(opt *config.PersistOptions) hcase {
	c := hcase{WB: false, tags: map[string]int{"finding:displaced-region-forgets-its-epoch": 1}}
	w := newWorld(false, opt)
	defer w.close()
	g := &gen{r: rng.New(1), w: w, c: &c, ids: map[uint64]bool{}, last: time.Now()}
	g.raw(hop{K: "snap"})
	ps := func(id uint64) []c07x.Peer {
		return []c07x.Peer{{ID: id*10 + 1, Store: 1}, {ID: id*10 + 2, Store: 2}, {ID: id*10 + 3, Store: 3}}
	}
	mk := func(id uint64, s, e string, leader, ver, term uint64, stamp int64) *c07x.Region {
		return &c07x.Region{ID: id, Start: s, End: e, Peers: ps(id), Leader: leader, Size: 10, Ver: ver, ConfVer: 1, Term: term, Stamp: stamp}
	}
	for _, r := range []*c07x.Region{
		mk(1, "", "c", 11, 2, 6, 1), mk(2, "c", "", 21, 2, 6, 2), // 1 = ["","c"), 2 = ["c","")
		mk(1, "", "", 12, 3, 7, 3),   // leader moves, 2 merged into 1
		mk(1, "m", "", 12, 4, 7, 4),  // 1 splits at "m", keeps ["m","")
		mk(4, "m", "t", 41, 5, 7, 5), // the child ["m","t") of the next split reports first: displaces 1
		mk(1, "", "c", 11, 2, 6, 6),  // the delayed heartbeat of the first step
	} {
		g.step(hop{K: "hb", R: r})
	}
	return c
}

// a restart, then a delayed heartbeat: region 1 is reported with conf_ver 2 (three peers), then with conf_ver 3 (a peer removed);
// PD restarts (the cache is reloaded from storage: regions without leader); the delayed conf_ver-2 heartbeat must still be
// rejected against the loaded region, and so must an older version of a loaded neighbour.
func reloadCase(opt *config.PersistOptions, wb bool) hcase {
	c := hcase{WB: wb, tags: map[string]int{"directed:restart-then-delayed-heartbeat": 1}}
	w := newWorld(wb, opt)
	defer w.close()
	g := &gen{r: rng.New(1), w: w, c: &c, ids: map[uint64]bool{}, last: time.Now()}
	g.raw(hop{K: "snap"})
	p3 := []c07x.Peer{{ID: 11, Store: 1}, {ID: 12, Store: 2}, {ID: 13, Store: 3}}
	p2 := []c07x.Peer{{ID: 11, Store: 1}, {ID: 12, Store: 2}}
	old1 := c07x.Region{ID: 1, Start: "a", End: "c", Peers: p3, Leader: 11, Size: 10, Ver: 1, ConfVer: 2, Term: 5, Stamp: 1}
	new1 := c07x.Region{ID: 1, Start: "a", End: "c", Peers: p2, Leader: 11, Size: 10, Ver: 1, ConfVer: 3, Term: 5, Stamp: 2}
	old2 := c07x.Region{ID: 2, Start: "c", End: "e", Peers: []c07x.Peer{{ID: 21, Store: 1}, {ID: 22, Store: 2}}, Leader: 21, Size: 10, Ver: 1, ConfVer: 1, Term: 5, Stamp: 3}
	new2 := old2.Clone()
	new2.Ver, new2.End, new2.Stamp = 2, "d", 4
	for _, r := range []*c07x.Region{&old1, &new1, &old2, &new2} {
		x := *r
		g.step(hop{K: "hb", R: &x})
	}
	g.step(hop{K: "flush"})
	g.step(hop{K: "reload"})
	d1, d2 := old1.Clone(), old2.Clone()
	g.step(hop{K: "hb", R: &d1}) // delayed: conf_ver 2 < 3
	g.step(hop{K: "hb", R: &d2}) // delayed: version 1 < 2
	n1 := new1.Clone()
	n1.Stamp = 5
	g.step(hop{K: "hb", R: &n1}) // the current report: accepted, the region has a leader again
	g.step(hop{K: "flush"})
	return c
}

// scanUnderWriter (driver-side oracle, no Coq case: more than a thousand regions): the key space is covered without holes by n > 1024
// regions; one writer keeps merging two neighbours and splitting them again through the real processRegionHeartbeat (around the
// 1024th region and at random places), readers call RaftCluster.ScanRegions without limit and with limits above 1024.  Every state
// of the cache is sorted and free of overlaps with unique ids (a split leaves a hole until the other half reports), so every answer
// must be: sorted, no overlap, ids unique (the statement: no two regions served at the same time overlap).  Returns the first answer that is no chain and what the writer did.
func scanUnderWriter(opt *config.PersistOptions, seed uint64, n, rounds int) (string, []hop) {
	w := newWorld(false, opt)
	defer w.close()
	r := rng.New(seed)
	key := func(i int) string {
		if i <= 0 {
			return ""
		}
		if i >= n {
			return ""
		}
		return fmt.Sprintf("w%05d", i)
	}
	var ops []hop
	stamp := int64(0)
	send := func(id uint64, i, j int, ver uint64) {
		stamp++
		x := c07x.Region{ID: id, Start: key(i), End: key(j), Peers: []c07x.Peer{{ID: id*10 + 1, Store: 1}, {ID: id*10 + 2, Store: 2}}, Leader: id*10 + 1,
			Size: 5, Ver: ver, ConfVer: 1, Term: 1, Stamp: stamp}
		o := hop{K: "hb", R: &x}
		w.run(&o)
		ops = append(ops, o)
	}
	for i := 0; i < n; i++ {
		send(uint64(i+1), i, i+1, 1)
	}
	ops = ops[:0] // the replay names the construction, not 1100 heartbeats
	stop := make(chan struct{})
	bad := make(chan string, 4)
	var wg sync.WaitGroup
	for t := 0; t < 3; t++ {
		wg.Add(1)
		go func(t int) {
			defer wg.Done()
			limits := []int{0, 2000, 1025}
			for k := 0; ; k++ {
				select {
				case <-stop:
					return
				default:
				}
				lim := limits[(k+t)%len(limits)]
				res := w.main.ScanRegions(nil, nil, lim)
				seen := map[uint64]bool{}
				for i, x := range res {
					// (a split leaves a hole in the cache until the other half reports, so holes are legitimate states)
					if x == nil || seen[x.GetID()] || (i > 0 && string(res[i-1].GetEndKey()) > string(x.GetStartKey())) ||
						(i+1 < len(res) && len(x.GetEndKey()) == 0) {
						var a, b string
						if i > 0 {
							a = fmt.Sprintf("region %d [%q,%q) v%d", res[i-1].GetID(), res[i-1].GetStartKey(), res[i-1].GetEndKey(), res[i-1].GetRegionEpoch().GetVersion())
						}
						if x != nil {
							b = fmt.Sprintf("region %d [%q,%q) v%d", x.GetID(), x.GetStartKey(), x.GetEndKey(), x.GetRegionEpoch().GetVersion())
						}
						select {
						case bad <- fmt.Sprintf("ScanRegions(\"\", \"\", %d) answered %d regions; entries %d and %d are %s and %s: no state of the cache has both", lim, len(res), i-1, i, a, b):
						default:
						}
						return
					}
					seen[x.GetID()] = true
				}
			}
		}(t)
	}
	ver := map[int]uint64{}
	for k := 0; k < rounds; k++ {
		i := 1023
		if k%3 == 2 {
			i = 1 + r.Intn(n-3)
		}
		v := ver[i]
		if v < ver[i+1] {
			v = ver[i+1]
		}
		v += 2
		ver[i], ver[i+1] = v+1, v+1
		send(uint64(i+1), i, i+2, v+1)   // region i absorbs region i+1
		send(uint64(i+1), i, i+1, v+2)   // and splits again
		send(uint64(i+2), i+1, i+2, v+2) // the right half keeps the old id of its range
		select {
		case d := <-bad:
			close(stop)
			wg.Wait()
			return d, ops
		default:
		}
	}
	close(stop)
	wg.Wait()
	select {
	case d := <-bad:
		return d, ops
	default:
		return "", nil
	}
}

// reElection (driver-side oracle on a real PD server with region storage): heartbeats are accepted in the first leader term of the
// member, it loses the leadership and is elected again (ResetLeader: the same process, the region storage has already been loaded
// once), then a stale heartbeat arrives before the current one: it must be rejected as in the first term, and what was served
// must still be served.  Returns (violation, trace); machinery problems are returned as a note.
func reElection() (viol string, trace []string, note string) {
	x, err := srv15.Start()
	if err != nil {
		return "", nil, "server did not start: " + err.Error()
	}
	defer x.Close()
	if err := x.Bootstrap(); err != nil { // store 1, region 2 ["","") with peer 3 on store 1
		return "", nil, "bootstrap failed: " + err.Error()
	}
	wait := func(d time.Duration, f func() bool) bool {
		for end := time.Now().Add(d); time.Now().Before(end); time.Sleep(5 * time.Millisecond) {
			if f() {
				return true
			}
		}
		return false
	}
	if !wait(10*time.Second, func() bool { rc := x.S.GetRaftCluster(); return rc != nil && rc.IsRunning() }) {
		return "", nil, "the raft cluster did not start"
	}
	hbx := func(r c07x.Region) error {
		err := hb(x.S.GetRaftCluster(), core.RegionFromHeartbeat(r.Heartbeat()))
		res := "ok"
		if err != nil {
			res = "error"
		}
		trace = append(trace, fmt.Sprintf("heartbeat region %d [%q,%q) version %d conf_ver %d term %d -> %s", r.ID, r.Start, r.End, r.Ver, r.ConfVer, r.Term, res))
		return err
	}
	p := []c07x.Peer{{ID: 3, Store: 1}}
	left := c07x.Region{ID: 2, Start: "", End: "m", Peers: p, Leader: 3, Size: 10, Ver: 2, ConfVer: 1, Term: 6, Stamp: 1}
	right := c07x.Region{ID: 10, Start: "m", End: "", Peers: []c07x.Peer{{ID: 11, Store: 1}}, Leader: 11, Size: 10, Ver: 2, ConfVer: 1, Term: 6, Stamp: 2}
	stale := c07x.Region{ID: 2, Start: "", End: "", Peers: p, Leader: 3, Size: 10, Ver: 1, ConfVer: 1, Term: 6, Stamp: 3} // the region before its split
	if hbx(left) != nil || hbx(right) != nil {
		return "", trace, "the heartbeats of the first term were rejected"
	}
	if hbx(stale) == nil {
		return "C06:stale-heartbeat-accepted", trace, ""
	}
	// read requests through the RPC layer (pd client / BR / Lightning) leave what is served as it is: ScanRegions with a start key
	// inside the first region, with an empty end key and a limit that stops before the last region, with explicit end keys
	snap := func() string {
		var b strings.Builder
		for _, ri := range x.S.GetRaftCluster().ScanRegions(nil, nil, 0) {
			fmt.Fprintf(&b, "%d[%q,%q)v%d ", ri.GetID(), ri.GetStartKey(), ri.GetEndKey(), ri.GetRegionEpoch().GetVersion())
		}
		return b.String()
	}
	before := snap()
	for _, q := range []struct {
		s, e string
		lim  int32
	}{{"c", "", 1}, {"", "", 1}, {"c", "x", 0}, {"n", "", 0}, {"", "f", 5}} {
		resp, err := x.S.ScanRegions(context.Background(), &pdpb.ScanRegionsRequest{Header: x.Header(), StartKey: []byte(q.s), EndKey: []byte(q.e), Limit: q.lim})
		trace = append(trace, fmt.Sprintf("ScanRegions RPC start %q end %q limit %d -> %d regions, err %v", q.s, q.e, q.lim, len(resp.GetRegionMetas()), err))
		if after := snap(); after != before {
			return "C06:read-request-changed-the-served-regions", append(trace, "served before the request: "+before+"; after it: "+after), ""
		}
		for _, m := range resp.GetRegionMetas() { // the answer shows the regions as they are served
			if g := x.S.GetRaftCluster().GetRegion(m.GetId()); g == nil || string(g.GetStartKey()) != string(m.GetStartKey()) || string(g.GetEndKey()) != string(m.GetEndKey()) {
				return "C06:scan-rpc-answers-a-region-that-is-not-served", append(trace, fmt.Sprintf("answer has region %d [%q,%q)", m.GetId(), m.GetStartKey(), m.GetEndKey())), ""
			}
		}
	}
	if err := x.S.GetStorage().Flush(); err != nil {
		return "", trace, "flush failed: " + err.Error()
	}
	old := x.S.GetRaftCluster()
	x.S.GetMember().ResetLeader()
	trace = append(trace, "the member gives up its leadership (ResetLeader) and is elected again")
	if !wait(5*time.Second, func() bool { return !x.S.GetMember().IsLeader() || !old.IsRunning() }) {
		return "", trace, "the member did not lose its leadership"
	}
	if !wait(30*time.Second, func() bool {
		rc := x.S.GetRaftCluster()
		return x.S.GetMember().IsLeader() && rc != nil && rc.IsRunning()
	}) {
		return "", trace, "the member was not elected again"
	}
	time.Sleep(50 * time.Millisecond)
	if hbx(stale) == nil {
		got := x.S.GetRaftCluster().GetRegion(2)
		return "C06:stale-heartbeat-accepted:after-re-election", append(trace, fmt.Sprintf("region 2 is now served as [%q,%q) version %d (it was served with version 2 before the re-election)",
			got.GetStartKey(), got.GetEndKey(), got.GetRegionEpoch().GetVersion())), ""
	}
	for _, id := range []uint64{2, 10} {
		if g := x.S.GetRaftCluster().GetRegion(id); g == nil || g.GetRegionEpoch().GetVersion() != 2 {
			return "C06:served-region-forgotten-at-re-election", append(trace, fmt.Sprintf("GetRegion(%d) after the re-election: %v", id, g != nil)), ""
		}
	}
	return "", trace, ""
}

// a delayed split report: regions 1 [a,c) v1 and 3 [c,d) v1 are cached; region 1 absorbs 3 (v2), splits at b (v3, the report of this
// split is delayed) and splits again at c5 (v4); PD hears region 5 [c5,d) v4 from its own leader, then the delayed report
// {2 [a,b) v3, 1 [b,d) v3} arrives.  A report is logged and answered: cache and storage keep what the heartbeats said.
func splitReportCase(opt *config.PersistOptions, wb bool) hcase {
	c := hcase{WB: wb, tags: map[string]int{"directed:delayed-split-report": 1}}
	w := newWorld(wb, opt)
	defer w.close()
	g := &gen{r: rng.New(1), w: w, c: &c, ids: map[uint64]bool{}, last: time.Now()}
	g.raw(hop{K: "snap"})
	ps := func(id uint64) []c07x.Peer {
		return []c07x.Peer{{ID: id*10 + 1, Store: 1}, {ID: id*10 + 2, Store: 2}, {ID: id*10 + 3, Store: 3}}
	}
	mk := func(id uint64, s, e string, ver uint64, stamp int64) c07x.Region {
		return c07x.Region{ID: id, Start: s, End: e, Peers: ps(id), Leader: id*10 + 1, Size: 10, Ver: ver, ConfVer: 1, Term: 1, Stamp: stamp}
	}
	r1, r3, r5 := mk(1, "a", "c", 1, 1), mk(3, "c", "d", 1, 2), mk(5, "c5", "d", 4, 3)
	g.step(hop{K: "hb", R: &r1})
	g.step(hop{K: "hb", R: &r3})
	g.step(hop{K: "hb", R: &r5})
	g.ids[2] = true
	g.step(hop{K: "reportsplit", Rs: []c07x.Region{mk(2, "a", "b", 3, 4), mk(1, "b", "d", 3, 5)}})
	g.step(hop{K: "flush"})
	return c
}

// a stale record left in storage, then a restart: thread 1 puts region 2 [a,c) v1 and is parked before its save; thread 2 puts region 1
// [a,c) v2 (displacing region 2), deletes region 2 from storage (not there yet) and saves region 1; thread 1's save lands: storage holds
// the displaced region 2 next to region 1 (the documented effect of the unlocked storage writes).  PD restarts: the load reaches the
// stale record after the newer one and must prune it - the keys stay served by region 1 version 2.
func staleLeftoverReloadCase(opt *config.PersistOptions) hcase {
	c := hcase{WB: false, tags: map[string]int{"directed:stale-record-then-restart": 1}}
	w := newWorld(false, opt)
	defer w.close()
	g := &gen{r: rng.New(1), w: w, c: &c, ids: map[uint64]bool{}, last: time.Now()}
	g.raw(hop{K: "snap"})
	a := c07x.Region{ID: 2, Start: "a", End: "c", Peers: []c07x.Peer{{ID: 21, Store: 1}, {ID: 22, Store: 2}}, Leader: 21, Size: 10, Ver: 1, ConfVer: 1, Term: 1, Stamp: 1}
	b := c07x.Region{ID: 1, Start: "a", End: "c", Peers: []c07x.Peer{{ID: 11, Store: 1}, {ID: 12, Store: 2}}, Leader: 11, Size: 10, Ver: 2, ConfVer: 1, Term: 1, Stamp: 2}
	g.step(hop{K: "begin", T: 1, R: &a})
	g.step(hop{K: "step", T: 1})
	g.step(hop{K: "begin", T: 2, R: &b})
	g.step(hop{K: "step", T: 2})
	g.step(hop{K: "step", T: 2})
	g.step(hop{K: "step", T: 2})
	g.step(hop{K: "step", T: 1}) // the overtaken save of region 2
	g.step(hop{K: "reload"})
	g.step(hop{K: "flush"})
	return c
}

// the check-then-put window: stream A (a new id, older in version than what stream B is about to put over its range) passes the
// first PreCheckPutRegion and waits at c.Lock(); B is processed completely; A is then rejected by the check under the lock.
// Nothing of A may have reached the cache or storage.
func checkThenPutCase(opt *config.PersistOptions, wb bool) hcase {
	c := hcase{WB: wb, tags: map[string]int{"directed:check-then-put-window": 1}}
	w := newWorld(wb, opt)
	defer w.close()
	g := &gen{r: rng.New(1), w: w, c: &c, ids: map[uint64]bool{}, last: time.Now()}
	g.raw(hop{K: "snap"})
	a := c07x.Region{ID: 3, Start: "b", End: "c", Peers: []c07x.Peer{{ID: 31, Store: 1}, {ID: 32, Store: 2}}, Leader: 31, Size: 10, Ver: 2, ConfVer: 1, Term: 1, Stamp: 1}
	b := c07x.Region{ID: 1, Start: "a", End: "c", Peers: []c07x.Peer{{ID: 11, Store: 1}, {ID: 12, Store: 2}}, Leader: 11, Size: 10, Ver: 3, ConfVer: 1, Term: 1, Stamp: 2}
	g.step(hop{K: "begin", T: 1, R: &a})
	g.step(hop{K: "hb", R: &b})
	g.step(hop{K: "run", T: 1})
	g.step(hop{K: "flush"})
	c.tags["early-storage-write"] += w.early
	return c
}

// the automatic flush of the write-back batch counts saves only: 99 saves, one of them displaced (a delete that must not
// touch cacheSize), then the 100th save flushes.  A Remove that resets or bumps the counter moves the flush.
func autoFlushRegression(opt *config.PersistOptions) hcase {
	c := hcase{WB: true, tags: map[string]int{"regression:auto-flush-counts-saves-only": 1}}
	w := newWorld(true, opt)
	defer w.close()
	g := &gen{r: rng.New(1), w: w, c: &c, ids: map[uint64]bool{}, last: time.Now()}
	g.raw(hop{K: "snap"})
	key := func(i int) string { return fmt.Sprintf("k%03d", i) }
	mk := func(id uint64, i int, ver uint64) *c07x.Region {
		return &c07x.Region{ID: id, Start: key(i), End: key(i + 1), Peers: []c07x.Peer{{ID: id*10 + 1, Store: 1}, {ID: id*10 + 2, Store: 2}},
			Leader: id*10 + 1, Size: 10, Ver: ver, ConfVer: 1, Term: 1, Stamp: int64(id)}
	}
	for i := 1; i <= 97; i++ {
		r := mk(uint64(i), i, 1)
		g.ids[r.ID] = true
		g.raw(hop{K: "hb", R: r})
	}
	g.step(hop{K: "hb", R: mk(98, 98, 1)})
	g.step(hop{K: "hb", R: mk(1000, 1, 2)}) // displaces region 1: DeleteRegion(1) + the 99th save
	g.step(hop{K: "hb", R: mk(99, 99, 1)})  // the 100th save: automatic flush
	g.step(hop{K: "hb", R: mk(100, 100, 1)})
	return c
}

// regression (repaired by /repo 9338658): a reported term, then a heartbeat without term (TiKV before 3.0), then a smaller
// reported term: the term-less heartbeat keeps the served term and the third heartbeat is rejected
func termProbe(opt *config.PersistOptions) hcase {
	c := hcase{WB: false, tags: map[string]int{"regression:unreported-term-gap(9338658)": 1}}
	w := newWorld(false, opt)
	defer w.close()
	g := &gen{r: rng.New(1), w: w, c: &c, ids: map[uint64]bool{}, last: time.Now()}
	g.raw(hop{K: "snap"})
	p := []c07x.Peer{{ID: 11, Store: 1}, {ID: 12, Store: 2}}
	for i, term := range []uint64{5, 0, 3} {
		x := c07x.Region{ID: 1, Start: "a", End: "c", Peers: p, Leader: 11, Size: 10, Ver: 1, ConfVer: 1, Term: term, Stamp: int64(i + 1)}
		g.step(hop{K: "hb", R: &x})
	}
	return c
}

func main() {
	seed := flag.Uint64("seed", 1, "")
	n := flag.Int("n", 200, "number of generated cases")
	out := flag.String("out", ".", "output directory")
	tier := flag.String("tier", "quick", "")
	corpus := flag.String("corpus", "", "json file of fixed cases run first")
	replay := flag.String("replay", "", "json file with cases: run and print observations")
	child := flag.Bool("child", false, "internal: this process runs the cases (the parent supervises it)")
	oplog := flag.String("oplog", "", "internal: journal of the running case")
	flag.Parse()
	// the cases run in a child process: a fatal runtime error of the real code that recover() cannot catch is reported by the
	// parent with the journalled case
	c07x.Supervise(*child || *replay != "", "C06", *seed, *tier, *out, func(h, last map[string]interface{}) string {
		k, _ := last["k"].(string)
		return opFunc[k]
	})
	journal = c07x.OpenOpLog(*oplog)
	// debug level with a core that formats every field (output discarded): the lazily evaluated Stringers of the log lines
	// inside the code under test (RegionToHexMeta ...) are really evaluated, as with log-level = "debug"
	log.ReplaceGlobals(zap.New(zapcore.NewCore(zapcore.NewJSONEncoder(zap.NewProductionEncoderConfig()), zapcore.AddSync(io.Discard), zap.DebugLevel)), nil)
	opt := config.NewTestOptions()

	R := res.New("C06", *seed, *tier)
	R.Rule = "heartbeats of a simulated split/merge/conf-change/leader-change history delivered in order, delayed, duplicated, mixed with arbitrary " +
		"well-formed overlapping regions of arbitrary epochs, through the real processRegionHeartbeat; sequentially and from up to three heartbeat threads " +
		"whose labels (first precheck | lock+second precheck+put | each storage write) are interleaved by the harness; direct and write-back (RegionStorage) " +
		"backends; a snapshot of the whole cache and of storage after every label; a malformed stream (term 0, inverted ranges, nil leader, arbitrary epochs). " +
		"non-trivial = at least one rejected heartbeat, one accepted heartbeat that displaced a region and two heartbeats of one id; distinct by sha256 of the canonical (ops,obs) text"
	cf := &coqfmt.CaseFile{Dir: *out, Prefix: "C06", PerFile: 20,
		Header: "From Coq Require Import String.\nFrom PDV Require Import lib.Base lib.C07_Key model.C07_BTreeSpec model.C07_Region model.C06_Heartbeat.\nLocal Open Scope Z_scope.\n",
		Type:   "hcase",
		Footer: "Definition M := Eval vm_compute in map fst (mismatches cases).\nDefinition D := Eval vm_compute in hd_error (mismatches cases).\nDefinition V := Eval vm_compute in monitor_fails cases.\nOpen Scope string_scope.\nPrint M. Print D. Print V.\n"}
	var all []hcase
	emit := func(c hcase) {
		if len(panicked) > 0 {
			fn := strings.SplitN(panicked[0], ":", 2)[0]
			R.Violate("C06:implementation-panicked:"+fn, panicked[0], map[string]interface{}{"wb": c.WB, "ops": c.Ops, "obs": c.Obs})
			R.Count("panicked:" + fn)
			panicked = nil // the next case has its own cluster and storage
			return
		}
		for k, v := range c.tags {
			R.CountN(k, v)
		}
		seen := map[uint64]int{}
		for _, o := range c.Ops {
			if o.R != nil {
				seen[o.R.ID]++
			}
		}
		twice := false
		for _, v := range seen {
			if v >= 2 {
				twice = true
			}
		}
		txt := c.coq()
		R.Case(txt, c.tags["res:HErr"] > 0 && c.tags["displaced-regions"] > 0 && twice)
		if len(c.Ops) < 60 {
			R.Sample(map[string]interface{}{"wb": c.WB, "ops": c.Ops, "obs": c.Obs})
		}
		if err := cf.Add(txt); err != nil {
			panic(err)
		}
		all = append(all, c)
	}
	runFixed := func(f string, show bool) {
		b, err := os.ReadFile(f)
		if err != nil {
			panic(err)
		}
		var l []hcase
		if err := json.Unmarshal(b, &l); err != nil {
			panic(err)
		}
		for _, c := range l {
			w := newWorldEnc(c.WB, c.Enc, opt)
			c.Obs = nil
			c.tags = map[string]int{"fixed": 1}
			for i := range c.Ops {
				if len(panicked) > 0 {
					c.Ops = c.Ops[:i]
					break
				}
				c.Obs = append(c.Obs, w.run(&c.Ops[i]))
			}
			w.close()
			emit(c)
			if show {
				for i := range c.Ops {
					fmt.Printf("%-70s -> %s\n", c.Ops[i].coq(), c.Obs[i])
				}
			}
		}
	}
	if *corpus != "" {
		runFixed(*corpus, false)
	}
	if *replay != "" {
		runFixed(*replay, true)
	} else {
		emit(writeBackRegression(opt))
		emit(autoFlushRegression(opt))
		emit(overtakenSaveProbe(opt, false)) // direct backend only: a save into the write-back batch is not a kv write the harness can park
		emit(termProbe(opt))
		emit(staleLeftoverReloadCase(opt))
		emit(splitReportCase(opt, false))
		emit(splitReportCase(opt, true))
		if d, ops := scanUnderWriter(opt, *seed, 1100, 400); d != "" {
			R.Violate("C06:scan-answer-matches-no-state-of-the-cache", d+" (1100 regions w00001.. covering the key space; the replay lists the writer's merge / split heartbeats so far)",
				map[string]interface{}{"wb": false, "regions": 1100, "ops": ops})
		}
		R.Count("phase:scan-under-writer")
		emit(reloadCase(opt, false))
		emit(reloadCase(opt, true))
		emit(termOnlyCase(opt))
		emit(displacedMemoryCase(opt))
		emit(checkThenPutCase(opt, false))
		emit(checkThenPutCase(opt, true))
		emit(flushRaceCase(opt))
		emit(flushRaceCase(opt))
		master := rng.New(*seed)
		small, large := c07x.Small(), c07x.Large()
		for k := 0; k < *n; k++ {
			a := small
			nops := 12 + int(master.Fork(uint64(k)).U64()%20)
			if k%6 == 5 {
				a = large
				nops = 40
			}
			if k%40 == 39 { // long: crosses the automatic flush of the write-back batch (defaultBatchSize saves)
				nops = 260
			}
			var c hcase
			for try := 0; try < 3; try++ {
				c = genCase(master.Fork(uint64(k)), opt, k%3 == 1, k%5 == 3, a, nops, k%8 == 6, k%2 == 1)
				if !c.slow {
					break
				}
			}
			emit(c)
		}
	}
	if *replay == "" {
		// last: the real server sets up its own global logger
		v, trace, note := reElection()
		if v != "" {
			R.Violate(v, "a real PD server with region storage, one member, two leader terms of the same process: "+trace[len(trace)-1], map[string]interface{}{"trace": trace})
		}
		if note != "" {
			R.Notes = append(R.Notes, "re-election phase incomplete (machinery, not a verdict): "+note)
		}
		R.Count("phase:re-election-on-a-real-server")
	}
	if err := cf.Flush(); err != nil {
		panic(err)
	}
	R.CaseFiles = cf.Files
	b, _ := json.Marshal(all)
	os.WriteFile(path.Join(*out, "cases.json"), b, 0o644)
	if err := R.Write(path.Join(*out, "result.json")); err != nil {
		panic(err)
	}
}
