// Driver for C16. Runs the REAL code:
//   - the unexported history buffer (through the verif hook) over a faultable kv.Base;
//   - the region sync stream with the real syncer on BOTH ends: two implementations of the exported
//     region_syncer.Server interface (leader with a region set, follower empty), the leader's
//     RegionSyncer.Sync served by a stub pdpb.PDServer on a localhost gRPC server, the follower's
//     StartSyncWithLeader connecting to it; every message the leader sends is recorded at Send time;
//   - the broadcast path: RunServer on a pre-filled notifier channel with the follower bound.
//
// Prints cases as Coq terms for model/C16_Syncer.v.
package main

import (
	"context"
	"encoding/binary"
	"encoding/json"
	"flag"
	"fmt"
	"io"
	"net"
	"os"
	"path"
	"path/filepath"
	"sort"
	"strconv"
	"strings"
	"sync"
	"time"

	"github.com/gogo/protobuf/proto"
	"github.com/pingcap/kvproto/pkg/metapb"
	"github.com/pingcap/kvproto/pkg/pdpb"
	"github.com/pingcap/log"
	"github.com/tikv/pd/pkg/grpcutil"
	"github.com/tikv/pd/server/core"
	"github.com/tikv/pd/server/kv"
	syncer "github.com/tikv/pd/server/region_syncer"
	"go.uber.org/zap"
	"google.golang.org/grpc"

	"github.com/tikv/pd/pkg/encryption"
	"github.com/tikv/pd/server/election"
	"github.com/tikv/pd/server/encryptionkm"

	"pdverif/internal/coqfmt"
	"pdverif/internal/etcdx"
	"pdverif/internal/pdcluster"
	"pdverif/internal/res"
	"pdverif/internal/rng"
)

// ------------------------------------------------------------------------------------------------
// canonical Go-side data (what the Coq terms are printed from; also the replay format)
// ------------------------------------------------------------------------------------------------
type Peer struct {
	ID, Store uint64
	Learner   bool
}
type Region struct {
	ID, Start, End, ConfVer, Version uint64 // Start/End: 0 = empty key, k>0 = 8-byte big-endian k
	Peers                            []Peer
	Leader                           *Peer
	BW, BR, KW, KR                   uint64
}
type Msg struct {
	Start   uint64
	Regions []Region // meta part only
	Stats   [][4]uint64
	Leaders []Peer
}

type BufOp struct {
	K   string // record from reset next first restart
	Arg int64  // index / capacity
	OK  bool   // save_ok / load_ok
}

type Case struct {
	Kind string // buf | sync | bcast
	// buf
	Cap int64    `json:",omitempty"`
	Ops []BufOp  `json:",omitempty"`
	Obs []string `json:",omitempty"`
	// sync / bcast
	LP, FP   *uint64  `json:",omitempty"`
	LRecs    []Region `json:",omitempty"`
	Regions  []Region `json:",omitempty"` // leader region set in the order GetRegions() returned it
	Pending  []Region `json:",omitempty"`
	Cut      int      `json:",omitempty"` // cut: number of full-sync batches delivered before the connection drops
	FailIDs  []uint64 `json:",omitempty"` // cut: regions whose SaveRegion fails on the follower
	FCached  []Region `json:",omitempty"` // chain: regions the follower cached while it was the leader itself (heartbeats, term FTerm)
	FTerm    uint64   `json:",omitempty"`
	Enc      bool     `json:",omitempty"` // the follower encrypts region keys at rest (security.encryption)
	SlowLoad bool     `json:",omitempty"` // chain: the follower's local store answers range reads slowly (it is still loading when the leader is reachable)
	FStored  []Region `json:",omitempty"` // chain: metas in the follower's own region storage before it starts
	Msgs     []Msg    `json:",omitempty"`
	FCache   []Region `json:",omitempty"`
	FNext    uint64   `json:",omitempty"`
	FSaved   []uint64 `json:",omitempty"`
	UseRS    bool     `json:",omitempty"`
	Note     string   `json:",omitempty"`
}

func keyOf(k uint64) []byte {
	if k == 0 {
		return nil
	}
	b := make([]byte, 8)
	binary.BigEndian.PutUint64(b, k)
	return b
}
func keyNum(b []byte) uint64 {
	if len(b) == 0 {
		return 0
	}
	if len(b) < 8 {
		panic("unexpected key")
	}
	return binary.BigEndian.Uint64(b[:8]) // the big-window probe pads its keys to 100 bytes
}

func (p Peer) pb() *metapb.Peer {
	r := metapb.PeerRole_Voter
	if p.Learner {
		r = metapb.PeerRole_Learner
	}
	return &metapb.Peer{Id: p.ID, StoreId: p.Store, Role: r}
}
func peerOf(p *metapb.Peer) Peer {
	return Peer{ID: p.GetId(), Store: p.GetStoreId(), Learner: p.GetRole() == metapb.PeerRole_Learner}
}
func (r Region) metaPB() *metapb.Region {
	m := &metapb.Region{Id: r.ID, StartKey: keyOf(r.Start), EndKey: keyOf(r.End),
		RegionEpoch: &metapb.RegionEpoch{ConfVer: r.ConfVer, Version: r.Version}}
	for _, p := range r.Peers {
		m.Peers = append(m.Peers, p.pb())
	}
	return m
}
func (r Region) info() *core.RegionInfo {
	var l *metapb.Peer
	if r.Leader != nil {
		l = r.Leader.pb()
	}
	return core.NewRegionInfo(r.metaPB(), l, core.SetWrittenBytes(r.BW), core.SetReadBytes(r.BR),
		core.SetWrittenKeys(r.KW), core.SetReadKeys(r.KR))
}
func metaOf(m *metapb.Region) Region {
	r := Region{ID: m.GetId(), Start: keyNum(m.GetStartKey()), End: keyNum(m.GetEndKey()),
		ConfVer: m.GetRegionEpoch().GetConfVer(), Version: m.GetRegionEpoch().GetVersion()}
	for _, p := range m.GetPeers() {
		r.Peers = append(r.Peers, peerOf(p))
	}
	return r
}
func regionOf(ri *core.RegionInfo) Region {
	r := metaOf(ri.GetMeta())
	if l := ri.GetLeader(); l != nil {
		p := peerOf(l)
		r.Leader = &p
	}
	r.BW, r.BR, r.KW, r.KR = ri.GetBytesWritten(), ri.GetBytesRead(), ri.GetKeysWritten(), ri.GetKeysRead()
	return r
}

// ---- Coq printing ----
func (p Peer) coq() string {
	return fmt.Sprintf("Peer %s %s %s", coqfmt.ZU(p.ID), coqfmt.ZU(p.Store), coqfmt.Bool(p.Learner))
}
func (r Region) coqMeta() string {
	ps := make([]string, len(r.Peers))
	for i, p := range r.Peers {
		ps[i] = p.coq()
	}
	return fmt.Sprintf("Meta %s %s %s %s %s %s", coqfmt.ZU(r.ID), coqfmt.ZU(r.Start), coqfmt.ZU(r.End),
		coqfmt.ZU(r.ConfVer), coqfmt.ZU(r.Version), coqfmt.List(ps))
}
func (r Region) coq() string {
	l := "None"
	if r.Leader != nil {
		l = "(Some (" + r.Leader.coq() + "))"
	}
	return fmt.Sprintf("RI (%s) %s (Stat %s %s %s %s)", r.coqMeta(), l, coqfmt.ZU(r.BW), coqfmt.ZU(r.BR), coqfmt.ZU(r.KW), coqfmt.ZU(r.KR))
}
func coqRegions(rs []Region) string {
	xs := make([]string, len(rs))
	for i, r := range rs {
		xs[i] = r.coq()
	}
	return coqfmt.List(xs)
}
func (m Msg) coq() string {
	rs := make([]string, len(m.Regions))
	for i, r := range m.Regions {
		rs[i] = r.coqMeta()
	}
	ss := make([]string, len(m.Stats))
	for i, s := range m.Stats {
		ss[i] = fmt.Sprintf("Stat %s %s %s %s", coqfmt.ZU(s[0]), coqfmt.ZU(s[1]), coqfmt.ZU(s[2]), coqfmt.ZU(s[3]))
	}
	ls := make([]string, len(m.Leaders))
	for i, p := range m.Leaders {
		ls[i] = p.coq()
	}
	return fmt.Sprintf("Msg %s %s %s %s", coqfmt.ZU(m.Start), coqfmt.List(rs), coqfmt.List(ss), coqfmt.List(ls))
}
func coqMsgs(ms []Msg) string {
	xs := make([]string, len(ms))
	for i, m := range ms {
		xs[i] = m.coq()
	}
	return coqfmt.List(xs)
}
func optU(p *uint64) string {
	if p == nil {
		return "None"
	}
	return "(Some " + coqfmt.ZU(*p) + ")"
}
func coqU64s(xs []uint64) string {
	ss := make([]string, len(xs))
	for i, x := range xs {
		ss[i] = coqfmt.ZU(x)
	}
	return coqfmt.List(ss)
}
func (o BufOp) coq() string {
	switch o.K {
	case "record":
		return fmt.Sprintf("ORecord %s %s", coqfmt.Z(o.Arg), coqfmt.Bool(o.OK))
	case "from":
		return "OFrom " + coqfmt.Z(o.Arg)
	case "reset":
		return fmt.Sprintf("OReset %s %s", coqfmt.Z(o.Arg), coqfmt.Bool(o.OK))
	case "next":
		return "ONext"
	case "first":
		return "OFirst"
	case "restart":
		return fmt.Sprintf("ORestart %s %s", coqfmt.Z(o.Arg), coqfmt.Bool(o.OK))
	}
	panic("bad op")
}
func (c Case) coq() string {
	switch c.Kind {
	case "buf":
		ops := make([]string, len(c.Ops))
		for i, o := range c.Ops {
			ops[i] = o.coq()
		}
		return fmt.Sprintf("CBuf %s\n  %s\n  %s", coqfmt.Z(c.Cap), coqfmt.List(ops), coqfmt.List(c.Obs))
	case "sync":
		return fmt.Sprintf("CSync %s\n  %s\n  %s\n  %s\n  %s\n  %s\n  %s %s", optU(c.LP), coqRegions(c.LRecs), coqRegions(c.Regions),
			optU(c.FP), coqMsgs(c.Msgs), coqRegions(c.FCache), coqfmt.ZU(c.FNext), coqU64s(c.FSaved))
	case "bcast":
		return fmt.Sprintf("CBcast %s\n  %s\n  %s\n  %s\n  %s", optU(c.LP), coqRegions(c.Pending), coqMsgs(c.Msgs), coqRegions(c.FCache), coqfmt.ZU(c.FNext))
	case "cut":
		return fmt.Sprintf("CCut %s\n  %s\n  %d%%nat %s\n  %s\n  %s\n  %s\n  %s", optU(c.LP), coqRegions(c.Regions), c.Cut, coqU64s(c.FailIDs),
			coqRegions(c.Pending), coqMsgs(c.Msgs), coqRegions(c.FCache), coqfmt.ZU(c.FNext))
	case "chain":
		var st []string
		for _, r := range c.FCached {
			st = append(st, r.coq())
		}
		for _, r := range c.FStored { // what LoadRegionsOnce builds: no leader, no statistics
			q := r
			q.Leader = nil
			q.BW, q.BR, q.KW, q.KR = 0, 0, 0, 0
			st = append(st, q.coq())
		}
		return fmt.Sprintf("CChain %s\n  %s\n  %s\n  %s\n  %s\n  %s\n  %s\n  %s\n  %s", optU(c.LP), coqRegions(c.LRecs), coqRegions(c.Regions),
			optU(c.FP), coqfmt.List(st), coqRegions(c.Pending), coqMsgs(c.Msgs), coqRegions(c.FCache), coqfmt.ZU(c.FNext))
	}
	panic("bad case")
}

// ------------------------------------------------------------------------------------------------
// 1. history buffer
// ------------------------------------------------------------------------------------------------
type faultKV struct {
	kv.Base
	failSave, failLoad bool
}

func (f *faultKV) Save(k, v string) error {
	if f.failSave {
		return fmt.Errorf("injected save failure")
	}
	return f.Base.Save(k, v)
}
func (f *faultKV) Load(k string) (string, error) {
	if f.failLoad {
		return "", fmt.Errorf("injected load failure")
	}
	return f.Base.Load(k)
}

// guard runs f; reports a panic or a hang (2 s) instead of dying.
func guard(f func()) (bad string) {
	done := make(chan string, 1)
	go func() {
		defer func() {
			if r := recover(); r != nil {
				done <- fmt.Sprintf("panic: %v", r)
			}
		}()
		f()
		done <- ""
	}()
	select {
	case s := <-done:
		return s
	case <-time.After(2 * time.Second):
		return "hang: no answer within 2s"
	}
}

func runBuf(R *res.Result, capacity int64, ops []BufOp) Case {
	c := Case{Kind: "buf", Cap: capacity}
	store := &faultKV{Base: kv.NewMemoryKV()}
	var h *syncer.VerifHistory
	if bad := guard(func() { h = syncer.VerifNewHistoryBuffer(int(capacity), store) }); bad != "" {
		R.Violate("C16:history-buffer:"+strings.SplitN(bad, ":", 2)[0], "newHistoryBuffer: "+bad, c)
		return c
	}
	for _, o := range ops {
		var ob string
		bad := guard(func() {
			switch o.K {
			case "record":
				store.failSave = !o.OK
				h.Record(core.NewRegionInfo(&metapb.Region{Id: uint64(o.Arg)}, nil))
				store.failSave = false
				ob = "BUnit"
			case "from":
				rs := h.RecordsFrom(uint64(o.Arg))
				xs := make([]string, len(rs))
				for i, r := range rs {
					if r == nil {
						xs[i] = "None"
					} else {
						xs[i] = "(Some " + coqfmt.ZU(r.GetID()) + ")"
					}
				}
				ob = "BRecs " + coqfmt.List(xs)
			case "reset":
				store.failSave = !o.OK // ResetWithIndex persists the new index
				h.ResetWithIndex(uint64(o.Arg))
				store.failSave = false
				ob = "BUnit"
			case "next":
				ob = "BIdx " + coqfmt.ZU(h.GetNextIndex())
			case "first":
				ob = "BIdx " + coqfmt.ZU(h.FirstIndex())
			case "restart":
				store.failLoad = !o.OK
				h = syncer.VerifNewHistoryBuffer(int(o.Arg), store)
				store.failLoad = false
				ob = "BIdx " + coqfmt.ZU(h.GetNextIndex())
			}
		})
		c.Ops = append(c.Ops, o)
		if bad != "" {
			c.Obs = append(c.Obs, "BDiverge")
			R.Violate("C16:history-buffer:"+strings.SplitN(bad, ":", 2)[0],
				fmt.Sprintf("history buffer of capacity %d: op #%d %s: %s", capacity, len(c.Ops)-1, o.coq(), bad), c)
			return c
		}
		c.Obs = append(c.Obs, ob)
	}
	return c
}

func genBuf(r *rng.R) (int64, []BufOp) {
	caps := []int64{-3, 0, 1, 1, 2, 2, 3, 3, 4, 5, 7, 8, 16, 50, 99, 100, 101, 150}
	capacity := caps[r.Intn(len(caps))]
	faults := r.Pct(15)
	resets := r.Pct(55)
	n := 20 + r.Intn(330)
	var ops []BufOp
	// a tracker of the specification, only to aim the queries at the window edges
	base, cnt := int64(0), int64(0)
	effCap := func(c int64) int64 {
		if c+1 < 2 {
			return 1
		}
		return c
	}
	curCap := effCap(capacity)
	var persisted int64 = -1
	flush := int64(syncer.VerifDefaultFlushCount)
	seq := int64(1)
	for k := 0; k < n; k++ {
		next := base + cnt
		win := cnt
		if win > curCap {
			win = curCap
		}
		first := next - win
		switch r.Pick(62, 20, 3, 4, 4, 4) {
		case 0:
			burst := 1
			if r.Pct(10) {
				burst = 1 + r.Intn(120)
			}
			for b := 0; b < burst; b++ {
				ok := !(faults && r.Pct(30))
				ops = append(ops, BufOp{K: "record", Arg: seq, OK: ok})
				seq++
				cnt++
				flush--
				if flush <= 0 {
					if ok {
						persisted = base + cnt
					}
					flush = int64(syncer.VerifDefaultFlushCount)
				}
			}
		case 1:
			var i int64
			switch r.Intn(8) {
			case 0:
				i = first - 1
			case 1:
				i = first
			case 2:
				i = first + 1
			case 3:
				i = next - 1
			case 4:
				i = next
			case 5:
				i = next + 1 + int64(r.Intn(300)) // ahead of the serving log: a follower of a leader that restarted behind
			case 6:
				i = first + int64(r.Intn(int(win)+1))
			default:
				i = int64(r.Intn(int(next) + 5))
			}
			if i < 0 {
				i = 0
			}
			ops = append(ops, BufOp{K: "from", Arg: i})
		case 2:
			if resets {
				var i int64
				switch r.Intn(4) {
				case 0:
					i = 0
				case 1:
					i = next + int64(r.Intn(5))
				case 2:
					i = int64(r.Intn(1000))
				default:
					i = int64(1000000 + r.Intn(1000000))
				}
				ok := !(faults && r.Pct(30))
				ops = append(ops, BufOp{K: "reset", Arg: i, OK: ok})
				if ok {
					persisted = i
				}
				base, cnt = i, 0
				flush = int64(syncer.VerifDefaultFlushCount)
			}
		case 3:
			ops = append(ops, BufOp{K: "next"})
		case 4:
			ops = append(ops, BufOp{K: "first"})
		case 5:
			nc := caps[r.Intn(len(caps))]
			ok := !(faults && r.Pct(30))
			ops = append(ops, BufOp{K: "next"}, BufOp{K: "restart", Arg: nc, OK: ok})
			curCap = effCap(nc)
			cnt = 0
			base = 0
			if ok && persisted >= 0 {
				base = persisted
			}
			flush = int64(syncer.VerifDefaultFlushCount)
		}
	}
	ops = append(ops, BufOp{K: "next"}, BufOp{K: "first"}, BufOp{K: "restart", Arg: capacity, OK: true}, BufOp{K: "next"})
	return capacity, ops
}

// ------------------------------------------------------------------------------------------------
// 2. sync stream
// ------------------------------------------------------------------------------------------------
type fakeServer struct {
	ctx     context.Context
	name    string
	storage *core.Storage
	bc      *core.BasicCluster
	lastGet []*core.RegionInfo
	onGet   func() // runs while GetRegions is "copying the tree": after the copy has been taken, before it is returned
}

func (s *fakeServer) LoopContext() context.Context { return s.ctx }
func (s *fakeServer) ClusterID() uint64            { return 4242 }
func (s *fakeServer) GetMemberInfo() *pdpb.Member {
	return &pdpb.Member{Name: s.name, MemberId: 1, ClientUrls: []string{"http://127.0.0.1:1"}}
}
func (s *fakeServer) GetLeader() *pdpb.Member             { return &pdpb.Member{Name: "leader"} }
func (s *fakeServer) GetStorage() *core.Storage           { return s.storage }
func (s *fakeServer) Name() string                        { return s.name }
func (s *fakeServer) GetTLSConfig() *grpcutil.TLSConfig   { return &grpcutil.TLSConfig{} }
func (s *fakeServer) GetBasicCluster() *core.BasicCluster { return s.bc }
func (s *fakeServer) GetRegions() []*core.RegionInfo {
	s.lastGet = s.bc.GetRegions()
	if s.onGet != nil {
		s.onGet()
	}
	return s.lastGet
}

type node struct {
	srv    *fakeServer
	rs     *core.RegionStorage
	dir    string
	syncer *syncer.RegionSyncer
	cancel context.CancelFunc
}

// encryption at rest: one real key manager (server/encryptionkm: master key file, data key in an embedded etcd) for the run
var (
	kmOnce sync.Once
	kmInst *encryptionkm.KeyManager
)

func keyManager() *encryptionkm.KeyManager {
	kmOnce.Do(func() {
		e, err := etcdx.Start()
		if err != nil {
			panic(err)
		}
		cli, _, err := e.NewClient()
		if err != nil {
			panic(err)
		}
		dir, err := os.MkdirTemp("", "c16key")
		if err != nil {
			panic(err)
		}
		keyFile := path.Join(dir, "key")
		if err := os.WriteFile(keyFile, []byte("8fd7e3e917c170d92f3e51a981dd7bc8fba11f3df7d8df994842f6e86f69b530"), 0o600); err != nil {
			panic(err)
		}
		cfg := &encryption.Config{DataEncryptionMethod: "aes128-ctr",
			MasterKey: encryption.MasterKeyConfig{Type: "file", MasterKeyFileConfig: encryption.MasterKeyFileConfig{FilePath: keyFile}}}
		if err := cfg.Adjust(); err != nil {
			panic(err)
		}
		m, err := encryptionkm.NewKeyManager(cli, cfg)
		if err != nil {
			panic(err)
		}
		leader := election.NewLeadership(cli, "c16_leader", "c16")
		if err := leader.Campaign(30000000, ""); err != nil {
			panic(err)
		}
		if err := m.SetLeadership(leader); err != nil {
			panic(err)
		}
		if _, k, err := m.GetCurrentKey(); err != nil || k == nil {
			panic(fmt.Sprint("no data key: ", err))
		}
		kmInst = m
	})
	return kmInst
}

func newNode(name string, persisted *uint64, useRS bool) *node {
	return newNodeEnc(name, persisted, useRS, false)
}

// newNodeEnc: with enc the node's storage encrypts the region keys at rest (a non-default configuration of PD)
func newNodeEnc(name string, persisted *uint64, useRS, enc bool) *node {
	return newNodeOn(kv.NewMemoryKV(), name, persisted, useRS, enc)
}

// newNodeOn: a member whose Storage sits on `base`. The members of one PD cluster share the base kv (the cluster's etcd
// below /pd/<cluster-id>); what is the member's own is its leveldb region storage.
func newNodeOn(base kv.Base, name string, persisted *uint64, useRS, enc bool) *node {
	dir, err := os.MkdirTemp("", "c16-"+name+"-")
	if err != nil {
		panic(err)
	}
	var km *encryptionkm.KeyManager
	if enc {
		km = keyManager()
	}
	ctx, cancel := context.WithCancel(context.Background())
	rs, err := core.NewRegionStorage(ctx, filepath.Join(dir, "region-meta"), km)
	if err != nil {
		panic(err)
	}
	if persisted != nil {
		if err := rs.Save(syncer.VerifHistoryKey, strconv.FormatUint(*persisted, 10)); err != nil {
			panic(err)
		}
	}
	st := core.NewStorage(base, core.WithRegionStorage(rs), core.WithEncryptionKeyManager(km))
	if useRS {
		st.SwitchToRegionStorage()
	}
	n := &node{srv: &fakeServer{ctx: ctx, name: name, storage: st, bc: core.NewBasicCluster()}, rs: rs, dir: dir, cancel: cancel}
	n.syncer = syncer.NewRegionSyncer(n.srv)
	return n
}

type recStream struct {
	pdpb.PD_SyncRegionsServer
	mu   *sync.Mutex
	msgs *[]Msg
}

func snapshot(resp *pdpb.SyncRegionResponse) Msg {
	m := Msg{Start: resp.GetStartIndex()}
	for _, r := range resp.GetRegions() {
		m.Regions = append(m.Regions, metaOf(r))
	}
	for _, s := range resp.GetRegionStats() {
		m.Stats = append(m.Stats, [4]uint64{s.GetBytesWritten(), s.GetBytesRead(), s.GetKeysWritten(), s.GetKeysRead()})
	}
	for _, p := range resp.GetRegionLeaders() {
		m.Leaders = append(m.Leaders, peerOf(p))
	}
	return m
}

func (r *recStream) Send(resp *pdpb.SyncRegionResponse) error {
	r.mu.Lock()
	*r.msgs = append(*r.msgs, snapshot(resp)) // snapshot now: the leader re-uses the slices
	r.mu.Unlock()
	return r.PD_SyncRegionsServer.Send(resp)
}

type pdStub struct {
	pdpb.PDServer
	leader   *syncer.RegionSyncer
	mu       sync.Mutex
	msgs     []Msg
	panicked string // the leader's handler panicked while serving a request (it would have killed the PD server)
	entered  int    // SyncRegions handlers started
	returned int    // SyncRegions handlers that have returned
}

func (p *pdStub) handlers() (entered, returned int) {
	p.mu.Lock()
	defer p.mu.Unlock()
	return p.entered, p.returned
}

func (p *pdStub) guard() {
	if r := recover(); r != nil {
		p.mu.Lock()
		if p.panicked == "" {
			p.panicked = fmt.Sprint(r)
		}
		p.mu.Unlock()
	}
}

func (p *pdStub) didPanic() string {
	p.mu.Lock()
	defer p.mu.Unlock()
	return p.panicked
}

func (p *pdStub) SyncRegions(stream pdpb.PD_SyncRegionsServer) (err error) {
	defer p.guard()
	p.mu.Lock()
	p.entered++
	p.mu.Unlock()
	defer func() {
		p.mu.Lock()
		p.returned++
		p.mu.Unlock()
	}()
	return p.leader.Sync(&recStream{PD_SyncRegionsServer: stream, mu: &p.mu, msgs: &p.msgs})
}

var cleanup sync.WaitGroup

// ---- stream cut: the connection drops after `cut` delivered batches, the leader's syncer restarts, the follower reconnects ----
// slowRangeKV delays every LoadRange: a large / slow local region store
type slowRangeKV struct {
	kv.Base
	delay time.Duration
	mu    sync.Mutex
	done  int
}

func (k *slowRangeKV) LoadRange(a, b string, limit int) ([]string, []string, error) {
	time.Sleep(k.delay)
	ks, vs, err := k.Base.LoadRange(a, b, limit)
	k.mu.Lock()
	k.done++
	k.mu.Unlock()
	return ks, vs, err
}

type failSaveKV struct {
	kv.Base
	fail map[string]bool
}

func (f *failSaveKV) Save(k, v string) error {
	if f.fail[k] {
		return fmt.Errorf("injected: save of %s fails", k)
	}
	return f.Base.Save(k, v)
}

type cutStream struct {
	pdpb.PD_SyncRegionsServer
	stub    *pdStub
	cut     int
	applied func(k int) // blocks until the follower has applied the k delivered messages
	drop    func()      // drops the connection
	once    *sync.Once
}

func (r *cutStream) Send(resp *pdpb.SyncRegionResponse) error {
	r.stub.mu.Lock()
	n := len(r.stub.msgs)
	if n >= r.cut {
		r.stub.mu.Unlock()
		r.once.Do(func() { r.applied(n); r.drop() })
		return fmt.Errorf("connection dropped by the harness after %d messages", n)
	}
	r.stub.msgs = append(r.stub.msgs, snapshot(resp))
	r.stub.mu.Unlock()
	return r.PD_SyncRegionsServer.Send(resp)
}

type cutStub struct {
	pdStub
	mk func(stream pdpb.PD_SyncRegionsServer) pdpb.PD_SyncRegionsServer
}

func (p *cutStub) SyncRegions(stream pdpb.PD_SyncRegionsServer) error {
	defer p.guard()
	return p.leader.Sync(p.mk(stream))
}

func runCut(R *res.Result, c Case) Case {
	leader := newNode("leader", c.LP, true)
	follower := newNode("follower", nil, false)
	fails := map[string]bool{}
	failID := map[uint64]bool{}
	for _, id := range c.FailIDs {
		fails[fmt.Sprintf("raft/r/%020d", id)] = true
		failID[id] = true
	}
	follower.srv.storage.Base = &failSaveKV{Base: follower.srv.storage.Base, fail: fails}
	for _, r := range c.Regions {
		leader.srv.bc.PutRegion(r.info())
	}
	var noteMu sync.Mutex
	wait := func(what string, cond func() bool) bool {
		deadline := time.Now().Add(10 * time.Second)
		for time.Now().Before(deadline) {
			if cond() {
				return true
			}
			time.Sleep(300 * time.Microsecond)
		}
		noteMu.Lock()
		c.Note += "timeout waiting for " + what + "; "
		noteMu.Unlock()
		return false
	}
	lis, err := net.Listen("tcp", "127.0.0.1:0")
	if err != nil {
		panic(err)
	}
	addr := lis.Addr().String()
	gs1 := grpc.NewServer()
	stub1 := &cutStub{pdStub: pdStub{leader: leader.syncer}}
	var once sync.Once
	var order []Region
	stub1.mk = func(stream pdpb.PD_SyncRegionsServer) pdpb.PD_SyncRegionsServer {
		return &cutStream{PD_SyncRegionsServer: stream, stub: &stub1.pdStub, cut: c.Cut, once: &once,
			applied: func(k int) {
				want := 0
				stub1.mu.Lock()
				for _, m := range stub1.msgs {
					want += len(m.Regions)
				}
				stub1.mu.Unlock()
				wait("the follower to apply the delivered batches", func() bool { return len(follower.srv.bc.GetRegions()) == want })
				var o []Region
				for _, ri := range leader.srv.lastGet {
					o = append(o, regionOf(ri))
				}
				stub1.mu.Lock()
				order = o
				stub1.mu.Unlock()
			},
			drop: func() { go gs1.Stop() }}
	}
	pdpb.RegisterPDServer(gs1, stub1)
	go gs1.Serve(lis)
	follower.syncer.StartSyncWithLeader("http://" + addr)
	dropped := wait("the connection to be dropped", func() bool {
		stub1.mu.Lock()
		defer stub1.mu.Unlock()
		return order != nil
	})
	// the leader's syncer restarts over the same storage; a new server takes the address over
	leader2 := syncer.NewRegionSyncer(leader.srv)
	stub2 := &pdStub{leader: leader2}
	gs2 := grpc.NewServer()
	pdpb.RegisterPDServer(gs2, stub2)
	if dropped {
		var lis2 net.Listener
		wait("the address to be free again", func() bool {
			lis2, err = net.Listen("tcp", addr)
			return err == nil
		})
		if lis2 != nil {
			go gs2.Serve(lis2)
		}
	}
	expect := func() (uint64, bool) {
		stub2.mu.Lock()
		defer stub2.mu.Unlock()
		if len(stub2.msgs) == 0 {
			return 0, false
		}
		m := stub2.msgs[len(stub2.msgs)-1]
		n := m.Start
		for _, r := range m.Regions {
			if !failID[r.ID] {
				n++
			}
		}
		return n, true
	}
	caughtUp := func() bool {
		e, ok := expect()
		return !ok || follower.syncer.VerifHistory().GetNextIndex() == e
	}
	bound := dropped && wait("the follower to reconnect and the leader to answer", func() bool { return leader2.VerifStreamBound("follower") })
	if bound {
		wait("the follower to apply the answer", caughtUp)
		if len(c.Pending) > 0 {
			hist := 0
			stub2.mu.Lock()
			for _, m := range stub2.msgs {
				hist += len(m.Regions)
			}
			stub2.mu.Unlock()
			ch := make(chan *core.RegionInfo, len(c.Pending)+1)
			for _, r := range c.Pending {
				ch <- r.info()
			}
			quit := make(chan struct{})
			go leader2.RunServer(ch, quit)
			wait("RunServer to drain the notifier", func() bool {
				stub2.mu.Lock()
				defer stub2.mu.Unlock()
				total := 0
				for _, m := range stub2.msgs {
					total += len(m.Regions)
				}
				return total == hist+len(c.Pending)
			})
			wait("the follower to apply the broadcasts", caughtUp)
			close(quit)
		}
	}
	stub1.mu.Lock()
	c.Msgs = append([]Msg(nil), stub1.msgs...)
	stub1.mu.Unlock()
	stub2.mu.Lock()
	c.Msgs = append(c.Msgs, stub2.msgs...)
	stub2.mu.Unlock()
	if order != nil {
		c.Regions = order
	}
	fr := follower.srv.bc.GetRegions()
	sort.Slice(fr, func(i, j int) bool { return fr[i].GetID() < fr[j].GetID() })
	c.FCache = nil
	for _, ri := range fr {
		c.FCache = append(c.FCache, regionOf(ri))
	}
	c.FNext = follower.syncer.VerifHistory().GetNextIndex()
	cleanup.Add(1)
	go func() {
		defer cleanup.Done()
		follower.syncer.StopSyncWithLeader()
		gs1.Stop()
		gs2.Stop()
		for _, n := range []*node{leader, follower} {
			n.cancel()
			n.rs.Close()
			os.RemoveAll(n.dir)
		}
	}()
	checkSent(R, &c)
	return c
}

// bigWindowProbe: a follower that is a whole history window behind (capped at 40000 records) must catch up through
// the real gRPC transport with the client's own dial options: the leader answers with ONE message carrying the whole
// window (records of ~300 bytes: 100-byte keys), which has to stay below the client's MaxCallRecvMsgSize.
func bigWindowProbe(R *res.Result) {
	n := syncer.VerifDefaultHistoryBufferSize
	if n > 40000 {
		n = 40000
	}
	const base = 7
	leader := newNode("leader", u64p(base), true)
	follower := newNode("follower", u64p(base), true)
	key := func(k int) []byte {
		b := make([]byte, 100)
		binary.BigEndian.PutUint64(b, uint64(k))
		return b
	}
	bytes := 0
	for i := 0; i < n; i++ {
		m := &metapb.Region{Id: uint64(i + 1), StartKey: key(i + 1), EndKey: key(i + 2), RegionEpoch: &metapb.RegionEpoch{ConfVer: 1, Version: 1},
			Peers: []*metapb.Peer{{Id: uint64(i+1)*10 + 1, StoreId: 1}, {Id: uint64(i+1)*10 + 2, StoreId: 2}, {Id: uint64(i+1)*10 + 3, StoreId: 3}}}
		bytes += m.Size() + 30
		leader.syncer.VerifHistory().Record(core.NewRegionInfo(m, m.Peers[0], core.SetWrittenBytes(uint64(i)), core.SetReadKeys(3)))
	}
	stub := &pdStub{leader: leader.syncer}
	gs := grpc.NewServer()
	pdpb.RegisterPDServer(gs, stub)
	lis, err := net.Listen("tcp", "127.0.0.1:0")
	if err != nil {
		panic(err)
	}
	go gs.Serve(lis)
	follower.syncer.StartSyncWithLeader("http://" + lis.Addr().String())
	want := uint64(base + n)
	deadline := time.Now().Add(7 * time.Second)
	ok := false
	for time.Now().Before(deadline) {
		if follower.syncer.VerifHistory().GetNextIndex() == want && len(follower.srv.bc.GetRegions()) == n {
			ok = true
			break
		}
		time.Sleep(2 * time.Millisecond)
	}
	stub.mu.Lock()
	sent := len(stub.msgs)
	stub.mu.Unlock()
	R.Count("probe:big-window")
	if !ok {
		R.Violate("C16:incr-sync:sent-but-never-applied",
			fmt.Sprintf("a follower %d records (~%d bytes in one message) behind, inside the leader's history window, never catches up: the leader answered %d time(s), the follower's next index is %d instead of %d (the message exceeds the client's receive limit and is retried for ever)",
				n, bytes, sent, follower.syncer.VerifHistory().GetNextIndex(), want),
			map[string]interface{}{"probe": "big-window", "records": n, "approx_bytes": bytes})
	}
	cleanup.Add(1)
	go func() {
		defer cleanup.Done()
		follower.syncer.StopSyncWithLeader()
		gs.Stop()
		for _, nd := range []*node{leader, follower} {
			nd.cancel()
			nd.rs.Close()
			os.RemoveAll(nd.dir)
		}
	}()
}

// reconnectProbe: a long-lived follower loop (start index > 0) receives broadcasts, the stream breaks WITHOUT a leader change,
// the leader records almost a whole history window of changes meanwhile, the endpoint comes back: the follower must ask for
// the index it has reached by then (still inside the leader's window) and receive everything it missed.
func reconnectProbe(R *res.Result, seed uint64) {
	H := syncer.VerifDefaultHistoryBufferSize
	const I0, early = 500, 600
	late := H - 300
	if late > 30000 {
		late = 30000
	}
	r := rng.New(seed ^ 0x9e3779)
	leader := newNode("leader", u64p(I0), true)
	follower := newNode("follower", u64p(I0), true)
	base := genRegions(r, 40, 1, 0)
	for _, reg := range base {
		leader.srv.bc.PutRegion(reg.info())
	}
	upd := genUpdates(r, base, early+late)
	for i := range upd {
		if upd[i].Leader == nil {
			p := upd[i].Peers[0]
			upd[i].Leader = &p
		}
	}
	newest := map[uint64]Region{}
	for _, u := range upd {
		newest[u.ID] = u
	}
	wait := func(d time.Duration, cond func() bool) bool {
		deadline := time.Now().Add(d)
		for time.Now().Before(deadline) {
			if cond() {
				return true
			}
			time.Sleep(time.Millisecond)
		}
		return false
	}
	lis, err := net.Listen("tcp", "127.0.0.1:0")
	if err != nil {
		panic(err)
	}
	addr := lis.Addr().String()
	stub := &pdStub{leader: leader.syncer}
	gs := grpc.NewServer()
	pdpb.RegisterPDServer(gs, stub)
	go gs.Serve(lis)
	follower.syncer.StartSyncWithLeader("http://" + addr)
	fidx := func() uint64 { return follower.syncer.VerifHistory().GetNextIndex() }
	ok := wait(8*time.Second, func() bool { return leader.syncer.VerifStreamBound("follower") })
	ch := make(chan *core.RegionInfo, early+late+10)
	quit := make(chan struct{})
	go leader.syncer.RunServer(ch, quit)
	for _, u := range upd[:early] {
		ch <- u.info()
	}
	ok = ok && wait(8*time.Second, func() bool { return fidx() == I0+early })
	// the stream breaks, the leader stays the leader and keeps recording
	gs.Stop()
	for _, u := range upd[early:] {
		ch <- u.info()
	}
	ok = ok && wait(8*time.Second, func() bool { return leader.syncer.VerifHistory().GetNextIndex() == uint64(I0+early+late) })
	gs2 := grpc.NewServer()
	pdpb.RegisterPDServer(gs2, stub)
	var lis2 net.Listener
	wait(5*time.Second, func() bool { lis2, err = net.Listen("tcp", addr); return err == nil })
	if lis2 != nil {
		go gs2.Serve(lis2)
	}
	caught := wait(10*time.Second, func() bool { return fidx() == uint64(I0+early+late) })
	close(quit)
	R.Count("probe:reconnect")
	if ok {
		bad := ""
		for _, ri := range follower.srv.bc.GetRegions() {
			f := regionOf(ri)
			if n, has := newest[f.ID]; has && (!eqMeta(n, f) || !eqPeerPtr(n.Leader, f.Leader) || n.BW != f.BW || n.KW != f.KW) {
				bad = fmt.Sprintf("region %d: the leader holds conf_ver %d leader %s, the follower conf_ver %d leader %s", f.ID, n.ConfVer, showPeer(n.Leader), f.ConfVer, showPeer(f.Leader))
				break
			}
		}
		if !caught || bad != "" {
			R.Violate("C16:reconnect:changes-during-break-never-arrive",
				fmt.Sprintf("follower loop started at index %d, received %d broadcasts, the stream broke (same leader), the leader recorded %d more changes (window %d) and came back: the follower's next index is %d instead of %d; %s",
					I0, early, late, H, fidx(), I0+early+late, bad),
				map[string]interface{}{"probe": "reconnect", "start": I0, "before_break": early, "during_break": late})
		}
	}
	cleanup.Add(1)
	go func() {
		defer cleanup.Done()
		follower.syncer.StopSyncWithLeader()
		gs.Stop()
		gs2.Stop()
		for _, nd := range []*node{leader, follower} {
			nd.cancel()
			nd.rs.Close()
			os.RemoveAll(nd.dir)
		}
	}()
}

// halfOpenProxy forwards TCP connections to a backend and lets the two halves of a connection die at different times,
// as they do when a machine or a network path goes away: the client notices at once, the server only when it next
// writes (or when its keep-alive fires).
type halfOpenProxy struct {
	lis     net.Listener
	backend string
	mu      sync.Mutex
	cli     []net.Conn // client-facing sockets, in accept order
	srv     []net.Conn // server-facing sockets, in accept order
}

func newHalfOpenProxy(backend string) *halfOpenProxy {
	lis, err := net.Listen("tcp", "127.0.0.1:0")
	if err != nil {
		panic(err)
	}
	p := &halfOpenProxy{lis: lis, backend: backend}
	go func() {
		for {
			c, err := lis.Accept()
			if err != nil {
				return
			}
			b, err := net.Dial("tcp", backend)
			if err != nil {
				c.Close()
				continue
			}
			p.mu.Lock()
			p.cli = append(p.cli, c)
			p.srv = append(p.srv, b)
			p.mu.Unlock()
			go io.Copy(b, c) // neither direction closes the other side: the probe decides when each half dies
			go io.Copy(c, b)
		}
	}()
	return p
}

func (p *halfOpenProxy) conns() int {
	p.mu.Lock()
	defer p.mu.Unlock()
	return len(p.cli)
}

func (p *halfOpenProxy) closeClientSide(i int) {
	p.mu.Lock()
	defer p.mu.Unlock()
	p.cli[i].Close()
}

func (p *halfOpenProxy) closeServerSide(i int) {
	p.mu.Lock()
	defer p.mu.Unlock()
	p.srv[i].Close()
}

func (p *halfOpenProxy) closeAll() {
	p.lis.Close()
	p.mu.Lock()
	defer p.mu.Unlock()
	for i := range p.cli {
		p.cli[i].Close()
		p.srv[i].Close()
	}
}

// halfOpenProbe: the follower's connection dies on the follower's side first. The follower reconnects and is bound again
// while the leader's handler of the OLD stream is still blocked in Recv; that handler returns later (the server side
// of the dead connection goes away). Changes broadcast after that must still reach the follower: whatever the leader
// does when a handler ends must not take away the stream of the follower's NEW connection.
func halfOpenProbe(R *res.Result, seed uint64) {
	r := rng.New(seed ^ 0x51f0be)
	const I0, first, second, third = 50, 20, 15, 25
	leader := newNode("leader", u64p(I0), true)
	follower := newNode("follower", u64p(I0), true)
	base := genRegions(r, 30, 1, 0)
	for _, reg := range base {
		leader.srv.bc.PutRegion(reg.info())
	}
	upd := genUpdates(r, base, first+second+third)
	for i := range upd {
		if upd[i].Leader == nil {
			p := upd[i].Peers[0]
			upd[i].Leader = &p
		}
	}
	newest := map[uint64]Region{}
	for _, u := range upd {
		newest[u.ID] = u
	}
	wait := func(d time.Duration, cond func() bool) bool {
		deadline := time.Now().Add(d)
		for time.Now().Before(deadline) {
			if cond() {
				return true
			}
			time.Sleep(time.Millisecond)
		}
		return false
	}
	lis, err := net.Listen("tcp", "127.0.0.1:0")
	if err != nil {
		panic(err)
	}
	stub := &pdStub{leader: leader.syncer}
	gs := grpc.NewServer()
	pdpb.RegisterPDServer(gs, stub)
	go gs.Serve(lis)
	px := newHalfOpenProxy(lis.Addr().String())
	follower.syncer.StartSyncWithLeader("http://" + px.lis.Addr().String())
	fidx := func() uint64 { return follower.syncer.VerifHistory().GetNextIndex() }
	ok := wait(8*time.Second, func() bool { return leader.syncer.VerifStreamBound("follower") })
	ch := make(chan *core.RegionInfo, len(upd)+10)
	quit := make(chan struct{})
	go leader.syncer.RunServer(ch, quit)
	send := func(us []Region) {
		for _, u := range us {
			ch <- u.info()
		}
	}
	send(upd[:first])
	ok = ok && wait(8*time.Second, func() bool { return fidx() == I0+first })
	// the follower's half of the connection dies; the leader's half stays (nothing tells the leader)
	ok = ok && px.conns() >= 1
	if ok {
		px.closeClientSide(0)
	}
	// the follower comes back on a new connection: a second handler runs on the leader while the first is still blocked
	ok = ok && wait(10*time.Second, func() bool { e, _ := stub.handlers(); return e >= 2 && px.conns() >= 2 })
	_, retBefore := stub.handlers()
	send(upd[first : first+second])
	// these arrive over the new stream: it is bound
	ok = ok && wait(8*time.Second, func() bool { return fidx() == I0+first+second })
	// now the leader's half of the old connection goes away and the old handler returns
	gone := false
	if ok {
		px.closeServerSide(0)
		gone = wait(8*time.Second, func() bool { _, ret := stub.handlers(); return ret > retBefore })
	}
	send(upd[first+second:])
	arrived := wait(6*time.Second, func() bool { return fidx() == uint64(I0+len(upd)) })
	close(quit)
	R.Count("probe:half-open")
	if ok && gone {
		bad := ""
		if arrived {
			for _, ri := range follower.srv.bc.GetRegions() {
				f := regionOf(ri)
				if n, has := newest[f.ID]; has && (!eqMeta(n, f) || !eqPeerPtr(n.Leader, f.Leader)) {
					bad = fmt.Sprintf("region %d: the leader holds conf_ver %d leader %s, the follower conf_ver %d leader %s", f.ID, n.ConfVer, showPeer(n.Leader), f.ConfVer, showPeer(f.Leader))
					break
				}
			}
		}
		if !arrived || bad != "" {
			R.Violate("C16:broadcast:not-delivered-after-reconnect",
				fmt.Sprintf("the follower's side of its connection died, it reconnected and received %d broadcasts over the new stream; then the leader's handler of the OLD stream returned; the %d changes broadcast after that: follower's next index %d instead of %d (stream bound on the leader: %v); %s",
					second, third, fidx(), I0+len(upd), leader.syncer.VerifStreamBound("follower"), bad),
				map[string]interface{}{"probe": "half-open", "start": I0, "before": first, "on_new_stream": second, "after_old_handler_returned": third})
		}
	} else {
		R.Notes = append(R.Notes, fmt.Sprintf("half-open probe could not set up its schedule (ok=%v, old handler returned=%v)", ok, gone))
	}
	cleanup.Add(1)
	go func() {
		defer cleanup.Done()
		follower.syncer.StopSyncWithLeader()
		px.closeAll()
		gs.Stop()
		for _, nd := range []*node{leader, follower} {
			nd.cancel()
			nd.rs.Close()
			os.RemoveAll(nd.dir)
		}
	}()
}

type capStream struct {
	pdpb.PD_SyncRegionsServer
	msgs []Msg
}

func (c *capStream) Send(resp *pdpb.SyncRegionResponse) error {
	c.msgs = append(c.msgs, snapshot(resp))
	return nil
}

// fullSyncTwiceProbe: two full synchronisations in a row. While the leader collects the regions for the first one, a
// region change is cached and recorded (RunServer does that concurrently with the handlers): the first follower may
// miss it - it gets it with the next broadcast. Nothing changes afterwards. A second follower that asks for a full
// synchronisation then - a completely quiet leader - must be sent the regions as the leader holds them NOW.
func fullSyncTwiceProbe(R *res.Result, seed uint64) {
	R.Count("probe:full-sync-twice")
	r := rng.New(seed ^ 0x2f5a)
	leader := newNode("leader", u64p(700), true)
	defer func() { leader.cancel(); leader.rs.Close(); os.RemoveAll(leader.dir) }()
	base := genRegions(r, 60, 1, 0)
	for _, reg := range base {
		leader.srv.bc.PutRegion(reg.info())
	}
	upd := genUpdates(r, base, 3)
	for i := range upd {
		if upd[i].Leader == nil {
			p := upd[i].Peers[0]
			upd[i].Leader = &p
		}
		upd[i].BW += 1000 + uint64(i)
	}
	first := true
	leader.srv.onGet = func() {
		if !first {
			return
		}
		first = false
		for _, u := range upd { // what RunServer's goroutine does for a heartbeat that arrives during the copy
			leader.srv.bc.PutRegion(u.info())
			leader.syncer.VerifHistory().Record(u.info())
		}
	}
	req := func(name string) *pdpb.SyncRegionRequest {
		return &pdpb.SyncRegionRequest{Header: &pdpb.RequestHeader{ClusterId: 4242}, Member: &pdpb.Member{Name: name, ClientUrls: []string{"http://127.0.0.1:1"}}, StartIndex: 0}
	}
	s1 := &capStream{}
	if err := leader.syncer.VerifSyncHistoryRegion(req("f1"), s1); err != nil {
		R.Notes = append(R.Notes, "full-sync-twice probe: first synchronisation failed: "+err.Error())
		return
	}
	s2 := &capStream{}
	if err := leader.syncer.VerifSyncHistoryRegion(req("f2"), s2); err != nil {
		R.Notes = append(R.Notes, "full-sync-twice probe: second synchronisation failed: "+err.Error())
		return
	}
	sent := map[uint64]Region{}
	for _, m := range s2.msgs {
		for i, meta := range m.Regions {
			reg := meta
			if i < len(m.Leaders) && m.Leaders[i].ID != 0 {
				l := m.Leaders[i]
				reg.Leader = &l
			}
			if len(m.Stats) == len(m.Regions) {
				reg.BW, reg.BR, reg.KW, reg.KR = m.Stats[i][0], m.Stats[i][1], m.Stats[i][2], m.Stats[i][3]
			}
			sent[reg.ID] = reg
		}
	}
	for _, ri := range leader.srv.bc.GetRegions() {
		h := regionOf(ri)
		g, ok := sent[h.ID]
		if !ok || !eqMeta(h, g) || !eqPeerPtr(h.Leader, g.Leader) || h.BW != g.BW || h.KW != g.KW {
			R.Violate("C16:full-sync:stale-snapshot-served",
				fmt.Sprintf("quiet leader with %d regions, next index %d; a follower asks for a full synchronisation (an earlier one raced with %d recorded changes, nothing has changed since): region %d is sent with conf_ver %d version %d leader %s bytes_written %d, the leader holds conf_ver %d version %d leader %s bytes_written %d (sent at all: %v)",
					len(base), leader.syncer.VerifHistory().GetNextIndex(), len(upd), h.ID, g.ConfVer, g.Version, showPeer(g.Leader), g.BW, h.ConfVer, h.Version, showPeer(h.Leader), h.BW, ok),
				map[string]interface{}{"probe": "full-sync-twice", "regions": len(base), "changes_during_first_collection": len(upd)})
			return
		}
	}
}

// stalledFollowerProbe: the RPC layer above the syncer (server/grpc_service.go SyncRegions) on a real PD server. The
// "follower" is a raw gRPC client of the leader's real endpoint with the smallest flow-control window; it synchronises,
// then does not read its stream for 6.5 s while the leader broadcasts changes of regions with long keys (a busy follower:
// compaction, a long start-up load, a GC pause), then reads again. Its stream never failed. Everything broadcast during
// and AFTER the stall must arrive: whatever the layers above the syncer do about a slow Send, they must not leave an
// open, error-free stream out of the broadcasts.
func stalledFollowerProbe(R *res.Result) {
	R.Count("probe:stalled-follower")
	c, err := pdcluster.Start(1, nil)
	if err != nil {
		R.Notes = append(R.Notes, "stalled-follower probe skipped: "+err.Error())
		return
	}
	defer c.Close()
	l := c.WaitLeader(60 * time.Second)
	if l == nil {
		R.Notes = append(R.Notes, "stalled-follower probe skipped: no PD leader")
		return
	}
	ctx, cancel := context.WithCancel(context.Background())
	defer cancel()
	peer := &metapb.Peer{Id: 3, StoreId: 1}
	if _, err := l.S.Bootstrap(ctx, &pdpb.BootstrapRequest{Header: &pdpb.RequestHeader{ClusterId: l.S.ClusterID()},
		Store:  &metapb.Store{Id: 1, Address: "mock://tikv-1", Version: "5.0.0"},
		Region: &metapb.Region{Id: 2, Peers: []*metapb.Peer{peer}, RegionEpoch: &metapb.RegionEpoch{ConfVer: 1, Version: 1}}}); err != nil {
		R.Notes = append(R.Notes, "stalled-follower probe skipped: bootstrap: "+err.Error())
		return
	}
	rc := l.S.GetRaftCluster()
	for deadline := time.Now().Add(10 * time.Second); rc == nil && time.Now().Before(deadline); rc = l.S.GetRaftCluster() {
		time.Sleep(10 * time.Millisecond)
	}
	if rc == nil {
		R.Notes = append(R.Notes, "stalled-follower probe skipped: no raft cluster")
		return
	}
	addr := strings.TrimPrefix(strings.Split(l.Cfg.ClientUrls, ",")[0], "http://")
	conn, err := grpc.Dial(addr, grpc.WithInsecure(), grpc.WithInitialWindowSize(65535), grpc.WithInitialConnWindowSize(65535),
		grpc.WithDefaultCallOptions(grpc.MaxCallRecvMsgSize(64<<20)))
	if err != nil {
		R.Notes = append(R.Notes, "stalled-follower probe skipped: dial: "+err.Error())
		return
	}
	defer conn.Close()
	stream, err := pdpb.NewPDClient(conn).SyncRegions(ctx)
	if err != nil {
		R.Notes = append(R.Notes, "stalled-follower probe skipped: SyncRegions: "+err.Error())
		return
	}
	if err := stream.Send(&pdpb.SyncRegionRequest{Header: &pdpb.RequestHeader{ClusterId: l.S.ClusterID()},
		Member: &pdpb.Member{Name: "probe-follower", ClientUrls: []string{"http://127.0.0.1:1"}}, StartIndex: 0}); err != nil {
		R.Notes = append(R.Notes, "stalled-follower probe skipped: first request: "+err.Error())
		return
	}
	var mu sync.Mutex
	gotVer := map[uint64]uint64{} // region id -> highest version received
	var recvErr error
	gate := make(chan struct{}, 1) // the reader takes a token before every Recv: no token, no reading
	open := true
	go func() {
		for {
			<-gate
			resp, err := stream.Recv()
			if err != nil {
				mu.Lock()
				recvErr = err
				mu.Unlock()
				return
			}
			mu.Lock()
			for _, r := range resp.GetRegions() {
				if v := r.GetRegionEpoch().GetVersion(); v > gotVer[r.GetId()] {
					gotVer[r.GetId()] = v
				}
			}
			o := open
			mu.Unlock()
			if o {
				select {
				case gate <- struct{}{}:
				default:
				}
			}
		}
	}()
	gate <- struct{}{}
	hb := func(id, ver uint64, keyLen int) {
		pad := strings.Repeat("k", keyLen)
		m := &metapb.Region{Id: id, StartKey: []byte(fmt.Sprintf("%s%06d", pad, id)), EndKey: []byte(fmt.Sprintf("%s%06d", pad, id+1)),
			RegionEpoch: &metapb.RegionEpoch{ConfVer: 1, Version: ver}, Peers: []*metapb.Peer{{Id: id*10 + 1, StoreId: 1}}}
		if err := rc.HandleRegionHeartbeat(core.NewRegionInfo(m, m.Peers[0])); err != nil {
			R.Notes = append(R.Notes, "stalled-follower probe: heartbeat: "+err.Error())
		}
	}
	have := func(lo, hi, ver uint64) bool {
		mu.Lock()
		defer mu.Unlock()
		for id := lo; id < hi; id++ {
			if gotVer[id] < ver {
				return false
			}
		}
		return true
	}
	wait := func(d time.Duration, cond func() bool) bool {
		for deadline := time.Now().Add(d); time.Now().Before(deadline); time.Sleep(5 * time.Millisecond) {
			if cond() {
				return true
			}
		}
		return cond()
	}
	// phase 1: bound and receiving
	for id := uint64(1000); id < 1010; id++ {
		hb(id, 2, 8)
	}
	if !wait(10*time.Second, func() bool { return have(1000, 1010, 2) }) {
		R.Notes = append(R.Notes, "stalled-follower probe: the first broadcasts did not arrive (set-up)")
		return
	}
	// phase 2: the follower stops reading; the leader broadcasts ~1.3 MB in several messages
	mu.Lock()
	open = false
	mu.Unlock()
	time.Sleep(50 * time.Millisecond) // the reader is now parked in front of the gate or inside its last Recv
	go func() {
		for round := 0; round < 4; round++ {
			for id := uint64(2000); id < 2020; id++ {
				hb(id, uint64(2+round), 8000)
			}
			time.Sleep(300 * time.Millisecond)
		}
	}()
	time.Sleep(6500 * time.Millisecond)
	// phase 3: it reads again; the stream has not failed
	mu.Lock()
	open = true
	failed := recvErr
	mu.Unlock()
	select {
	case gate <- struct{}{}:
	default:
	}
	if failed != nil {
		R.Notes = append(R.Notes, "stalled-follower probe: the stream failed during the stall: "+failed.Error())
		return
	}
	during := wait(15*time.Second, func() bool { return have(2000, 2020, 5) })
	for id := uint64(3000); id < 3010; id++ {
		hb(id, 2, 8)
	}
	after := wait(8*time.Second, func() bool { return have(3000, 3010, 2) })
	mu.Lock()
	failed = recvErr
	mu.Unlock()
	if failed != nil {
		// the leader ended the stream: a real follower reconnects and synchronises again - not what this probe is about
		R.Notes = append(R.Notes, "stalled-follower probe: the leader ended the stream after the stall ("+failed.Error()+"): a follower would reconnect")
		return
	}
	if !during || !after {
		R.Violate("C16:broadcast:not-delivered-after-stall",
			fmt.Sprintf("real PD server, a follower's stream (raw client of SyncRegions) did not read for 6.5 s while 80 changes of regions with 8 kB keys were broadcast, then read again; the stream is open and error-free on both sides; the changes broadcast during the stall arrived: %v; 10 changes broadcast after it arrived: %v (stream bound on the leader's syncer: %v)",
				during, after, l.S.GetRaftCluster() != nil),
			map[string]interface{}{"probe": "stalled-follower", "stall_ms": 6500})
	}
}

func genCut(r *rng.R, k int) Case {
	sizes := []int{101, 150, 230, 250}
	n := sizes[k%len(sizes)]
	c := Case{Kind: "cut"}
	c.Regions = genRegions(r, n, []int{1, 1, 2}[r.Intn(3)], 0)
	c.LP = u64p(uint64(1000 + r.Intn(100000)))
	batches := (n + 99) / 100
	c.Cut = 1 + r.Intn(batches-1)
	if r.Pct(60) {
		for i := 0; i < 1+r.Intn(3); i++ {
			c.FailIDs = append(c.FailIDs, c.Regions[r.Intn(len(c.Regions))].ID)
		}
	}
	if r.Pct(70) {
		c.Pending = genUpdates(r, c.Regions, []int{1, 7, 120}[r.Intn(3)])
		for i := range c.Pending {
			if c.Pending[i].Leader == nil {
				p := c.Pending[i].Peers[0]
				c.Pending[i].Leader = &p
			}
		}
	}
	return c
}

// runSync: leader restarted over lp, records lrecs, holds `regions`; follower restarted over fp.
// If pending != nil the follower must be in sync (lp == fp) and `pending` goes through RunServer.
func runSync(R *res.Result, c Case) Case {
	// the two members share the cluster's base kv, each has its own region storage (with its own persisted index)
	shared := kv.NewMemoryKV()
	leader := newNodeOn(shared, "leader", c.LP, true, false)
	follower := newNodeOn(shared, "follower", c.FP, c.UseRS, c.Enc)
	own := func(p *uint64) uint64 {
		if p == nil {
			return 0
		}
		return *p
	}
	replayOf := func() map[string]interface{} {
		return map[string]interface{}{"kind": c.Kind, "lp": own(c.LP), "fp": own(c.FP), "regions": len(c.Regions), "lrecs": len(c.LRecs), "pending": len(c.Pending)}
	}
	// the restart clause, member by member: a member that starts over its own persisted index starts at that index
	for _, m := range []struct {
		n *node
		p *uint64
	}{{leader, c.LP}, {follower, c.FP}} {
		if got := m.n.syncer.VerifHistory().GetNextIndex(); got != own(m.p) {
			R.Violate("C16:restart:next-index-not-the-members-own",
				fmt.Sprintf("two members on one cluster kv, the leader's persisted next index is %d, the follower's %d: the %s starts with next index %d", own(c.LP), own(c.FP), m.n.srv.name, got), replayOf())
			break
		}
	}
	for _, r := range c.Regions {
		leader.srv.bc.PutRegion(r.info())
	}
	for _, r := range c.LRecs {
		leader.syncer.VerifHistory().Record(r.info())
	}
	for _, r := range c.FCached {
		// the ex-leader's cache: built from region heartbeats, so the regions carry a raft term
		hb := &pdpb.RegionHeartbeatRequest{Region: r.metaPB(), Term: c.FTerm, BytesWritten: r.BW, BytesRead: r.BR, KeysWritten: r.KW, KeysRead: r.KR}
		if r.Leader != nil {
			hb.Leader = r.Leader.pb()
		}
		follower.srv.bc.PutRegion(core.RegionFromHeartbeat(hb))
	}
	if len(c.FStored) > 0 {
		sorted := append([]Region(nil), c.FStored...)
		sort.Slice(sorted, func(i, j int) bool { return sorted[i].ID < sorted[j].ID })
		c.FStored = sorted // LoadRegionsOnce visits them in id order
		for _, r := range sorted {
			if err := follower.srv.storage.SaveRegion(r.metaPB()); err != nil {
				panic(err)
			}
		}
		if err := follower.srv.storage.Flush(); err != nil {
			panic(err)
		}
	}
	var slow *slowRangeKV
	if c.SlowLoad {
		slow = &slowRangeKV{Base: follower.srv.storage.Base, delay: 400 * time.Millisecond}
		follower.srv.storage.Base = slow
	}
	stub := &pdStub{leader: leader.syncer}
	gs := grpc.NewServer()
	pdpb.RegisterPDServer(gs, stub)
	lis, err := net.Listen("tcp", "127.0.0.1:0")
	if err != nil {
		panic(err)
	}
	go gs.Serve(lis)
	follower.syncer.StartSyncWithLeader("http://" + lis.Addr().String())

	wait := func(what string, cond func() bool) bool {
		deadline := time.Now().Add(8 * time.Second)
		for time.Now().Before(deadline) {
			if cond() {
				return true
			}
			if stub.didPanic() != "" {
				return false
			}
			time.Sleep(200 * time.Microsecond)
		}
		c.Note += "timeout waiting for " + what + "; "
		return false
	}
	expectNext := func() (uint64, bool) {
		stub.mu.Lock()
		defer stub.mu.Unlock()
		if len(stub.msgs) == 0 {
			return 0, false
		}
		m := stub.msgs[len(stub.msgs)-1]
		return m.Start + uint64(len(m.Regions)), true
	}
	caughtUp := func() bool {
		e, ok := expectNext()
		return !ok || follower.syncer.VerifHistory().GetNextIndex() == e
	}
	okBound := wait("the leader to finish syncHistoryRegion", func() bool { return leader.syncer.VerifStreamBound("follower") })
	if okBound {
		wait("the follower to apply the history messages", caughtUp)
	}
	histMsgs := 0
	if (c.Kind == "bcast" || (c.Kind == "chain" && len(c.Pending) > 0)) && okBound {
		stub.mu.Lock()
		for _, m := range stub.msgs {
			histMsgs += len(m.Regions)
		}
		stub.mu.Unlock()
		ch := make(chan *core.RegionInfo, len(c.Pending)+1)
		for _, r := range c.Pending {
			ch <- r.info()
		}
		quit := make(chan struct{})
		go leader.syncer.RunServer(ch, quit)
		total := 0
		wait("RunServer to drain the notifier", func() bool {
			stub.mu.Lock()
			total = 0
			for _, m := range stub.msgs {
				total += len(m.Regions)
			}
			stub.mu.Unlock()
			return total == histMsgs+len(c.Pending)
		})
		wait("the follower to apply the broadcasts", caughtUp)
		close(quit)
	}
	if slow != nil {
		// the start-up load of the follower must have finished before its cache is compared
		wait("the follower's local load to finish", func() bool {
			slow.mu.Lock()
			defer slow.mu.Unlock()
			return slow.done >= 1
		})
		time.Sleep(60 * time.Millisecond)
	}
	// ---- observe ----
	stub.mu.Lock()
	c.Msgs = append([]Msg(nil), stub.msgs...)
	stub.mu.Unlock()
	if c.Kind == "sync" || c.Kind == "chain" {
		// the order GetRegions() handed to syncHistoryRegion (map order), if it was called
		if leader.srv.lastGet != nil {
			c.Regions = nil
			for _, ri := range leader.srv.lastGet {
				c.Regions = append(c.Regions, regionOf(ri))
			}
		}
	}
	fr := follower.srv.bc.GetRegions()
	sort.Slice(fr, func(i, j int) bool { return fr[i].GetID() < fr[j].GetID() })
	c.FCache = nil
	for _, ri := range fr {
		c.FCache = append(c.FCache, regionOf(ri))
	}
	c.FNext = follower.syncer.VerifHistory().GetNextIndex()
	if err := follower.srv.storage.Flush(); err != nil {
		panic(err)
	}
	c.FSaved = []uint64{}
	if err := follower.srv.storage.LoadRegions(func(r *core.RegionInfo) []*core.RegionInfo {
		c.FSaved = append(c.FSaved, r.GetID())
		return nil
	}); err != nil {
		panic(err)
	}
	sort.Slice(c.FSaved, func(i, j int) bool { return c.FSaved[i] < c.FSaved[j] })
	// the restart clause at the end of the case (everything delivered, both members quiet): each member restarted now
	// comes back with its OWN next index, less at most the flush interval - whatever the other member wrote meanwhile
	if stub.didPanic() == "" {
		for _, n := range []*node{leader, follower} {
			before := n.syncer.VerifHistory().GetNextIndex()
			after := syncer.NewRegionSyncer(n.srv).VerifHistory().GetNextIndex()
			if after > before || before-after >= uint64(syncer.VerifDefaultFlushCount) {
				R.Violate("C16:restart:member-next-index-lag",
					fmt.Sprintf("two members on one cluster kv (leader's next index %d, follower's %d at the end of the case): the %s restarted now comes back with next index %d instead of (%d-%d, %d]",
						leader.syncer.VerifHistory().GetNextIndex(), follower.syncer.VerifHistory().GetNextIndex(), n.srv.name, after, before, syncer.VerifDefaultFlushCount, before), replayOf())
				break
			}
		}
	}
	// ---- tear down in the background (StopSyncWithLeader sleeps 1 s after the stream breaks) ----
	cleanup.Add(1)
	go func() {
		defer cleanup.Done()
		follower.syncer.StopSyncWithLeader()
		gs.Stop()
		for _, n := range []*node{leader, follower} {
			n.cancel()
			n.rs.Close()
			os.RemoveAll(n.dir)
		}
	}()
	if msg := stub.didPanic(); msg != "" {
		fp := "none"
		if c.FP != nil {
			fp = fmt.Sprint(*c.FP)
		}
		lp := "none"
		if c.LP != nil {
			lp = fmt.Sprint(*c.LP)
		}
		R.Violate("C16:sync:leader-panicked", fmt.Sprintf("the leader's sync handler panicked (%s) serving a follower that asked for index %s; the leader's persisted index is %s and it has recorded %d changes since its start",
			msg, fp, lp, len(c.LRecs)), slim(c))
	}
	// ---- the property on the implementation's own trace, checked here as well (Coq's monitor V does the same) ----
	checkSent(R, &c)
	return c
}

func showPeer(p *Peer) string {
	if p == nil {
		return "none"
	}
	return fmt.Sprintf("peer %d on store %d", p.ID, p.Store)
}

func eqPeerPtr(a, b *Peer) bool {
	if a == nil || b == nil {
		return a == b
	}
	return *a == *b
}
func eqMeta(a, b Region) bool {
	if a.ID != b.ID || a.Start != b.Start || a.End != b.End || a.ConfVer != b.ConfVer || a.Version != b.Version || len(a.Peers) != len(b.Peers) {
		return false
	}
	for i := range a.Peers {
		if a.Peers[i] != b.Peers[i] {
			return false
		}
	}
	return true
}

// checkSent: every region sent must be held by the follower with the leader's meta, leader and statistics.
func checkSent(R *res.Result, c *Case) {
	held := map[uint64]Region{}
	phase := "full-sync"
	switch {
	case c.Kind == "bcast":
		phase = "broadcast"
		for _, r := range c.Pending {
			held[r.ID] = r
		}
	case c.Kind == "cut":
		phase = "cut+reconnect"
		for _, r := range c.Regions {
			held[r.ID] = r
		}
		for _, r := range c.Pending {
			held[r.ID] = r
		}
	case c.Kind == "chain":
		phase = "sync+broadcast"
		for _, r := range c.Regions {
			held[r.ID] = r
		}
		for _, r := range c.Pending {
			held[r.ID] = r
		}
	case len(c.Msgs) == 1 && c.FP != nil && *c.FP != 0:
		phase = "incr-sync"
		for _, r := range c.LRecs {
			held[r.ID] = r
		}
	default:
		for _, r := range c.Regions {
			held[r.ID] = r
		}
	}
	fc := map[uint64]Region{}
	for _, r := range c.FCache {
		fc[r.ID] = r
	}
	for b, m := range c.Msgs {
		for i, mr := range m.Regions {
			l, ok := held[mr.ID]
			if !ok {
				continue
			}
			f, ok := fc[mr.ID]
			suffix := ""
			if b > 0 && phase == "full-sync" {
				suffix = "-after-first-batch"
			}
			switch {
			case !ok:
				R.Violate("C16:"+phase+":sent-region-missing-on-follower", fmt.Sprintf("region %d was sent in batch %d but is not in the follower's cache", mr.ID, b), c)
			case !eqMeta(l, f):
				R.Violate("C16:"+phase+":meta-differs", fmt.Sprintf("region %d: follower meta differs from the leader's", mr.ID), c)
			case !eqPeerPtr(l.Leader, f.Leader):
				sig := "C16:" + phase + ":leader-differs"
				if suffix != "" {
					sig = "C16:" + phase + ":leaders-misaligned-after-first-batch"
				}
				R.Violate(sig, fmt.Sprintf("%d regions on the leader, batch %d position %d: region %d has leader %s on the leader but %s on the follower",
					len(c.Regions)+len(c.Pending), b, i, mr.ID, showPeer(l.Leader), showPeer(f.Leader)), slim(*c))
			case l.BW != f.BW || l.BR != f.BR || l.KW != f.KW || l.KR != f.KR:
				R.Violate("C16:"+phase+":stats-differ"+suffix, fmt.Sprintf("%d regions on the leader, batch %d position %d: region %d flow statistics %v on the leader, %v on the follower",
					len(c.Regions)+len(c.Pending), b, i, mr.ID, [4]uint64{l.BW, l.BR, l.KW, l.KR}, [4]uint64{f.BW, f.BR, f.KW, f.KR}), slim(*c))
			}
		}
	}
}

// slim drops the observed part of a case: what remains is the input that replays it
func slim(c Case) Case {
	c.Msgs, c.FCache, c.FSaved, c.Obs = nil, nil, nil, nil
	return c
}

// a partition of the key space into n regions, ids shuffled
func genRegions(r *rng.R, n int, leaderMode int, idBase uint64) []Region {
	ids := make([]uint64, n)
	for i := range ids {
		ids[i] = idBase + uint64(i) + 1
	}
	for i := n - 1; i > 0; i-- {
		j := r.Intn(i + 1)
		ids[i], ids[j] = ids[j], ids[i]
	}
	out := make([]Region, n)
	for i := 0; i < n; i++ {
		reg := Region{ID: ids[i], Start: uint64(i) * 10, End: uint64(i+1) * 10, ConfVer: uint64(1 + r.Intn(5)), Version: uint64(1 + r.Intn(5))}
		if i == n-1 {
			reg.End = 0
		}
		np := 1 + r.Intn(3)
		for p := 0; p < np; p++ {
			reg.Peers = append(reg.Peers, Peer{ID: ids[i]*100 + uint64(p) + 1, Store: uint64(p + 1), Learner: p > 0 && r.Pct(20)})
		}
		withLeader := leaderMode == 1 || (leaderMode == 2 && r.Pct(60))
		if withLeader {
			p := reg.Peers[0]
			reg.Leader = &p
		}
		if r.Pct(80) {
			reg.BW, reg.BR, reg.KW, reg.KR = uint64(r.Intn(1<<20)), uint64(r.Intn(1<<20)), uint64(r.Intn(1<<12)), uint64(r.Intn(1<<12))
		}
		out[i] = reg
	}
	return out
}

// updates of a fixed region set: same ranges, non-decreasing epochs, changing leaders/statistics
func genUpdates(r *rng.R, base []Region, n int) []Region {
	cur := append([]Region(nil), base...)
	var out []Region
	for k := 0; k < n; k++ {
		i := r.Intn(len(cur))
		u := cur[i]
		if r.Pct(40) {
			u.ConfVer++
		}
		if r.Pct(20) {
			u.Version++
		}
		if len(u.Peers) > 0 && r.Pct(70) {
			p := u.Peers[r.Intn(len(u.Peers))]
			if !p.Learner {
				u.Leader = &p
			}
		}
		u.BW, u.KW = uint64(r.Intn(1<<20)), uint64(r.Intn(1<<12))
		cur[i] = u
		out = append(out, u)
	}
	return out
}

func u64p(v uint64) *uint64 { return &v }

func genSync(r *rng.R, k int) Case {
	sizes := []int{0, 1, 2, 50, 99, 100, 101, 150, 199, 200, 201, 230, 250}
	c := Case{Kind: "sync", UseRS: r.Pct(60), Enc: k%5 == 2}
	switch mode := k % 8; {
	case mode <= 4: // full synchronisation
		n := sizes[(k/8*5+mode)%len(sizes)]
		if k < 26 {
			n = sizes[k%len(sizes)]
		}
		c.Regions = genRegions(r, n, []int{1, 1, 2, 0}[r.Intn(4)], 0)
		c.LP = u64p(uint64(1 + r.Intn(100000)))
		if r.Pct(30) && n > 0 {
			c.LRecs = genUpdates(r, c.Regions, 1+r.Intn(20))
		}
		if r.Pct(50) {
			c.FP = u64p(0)
		}
	case mode == 5 || mode == 6: // incremental from the leader's history
		base := genRegions(r, 5+r.Intn(40), 1, 0)
		c.Regions = base
		lp := uint64(r.Intn(5000))
		c.LP = u64p(lp)
		nrec := 1 + r.Intn(260)
		c.LRecs = genUpdates(r, base, nrec)
		fp := lp + uint64(r.Intn(nrec))
		if fp == 0 {
			fp = 1 // index 0 asks for a full synchronisation when it is not in the window; keep this mode incremental
			if nrec == 1 {
				c.LRecs = append(c.LRecs, genUpdates(r, base, 1)...)
			}
		}
		c.FP = u64p(fp)
	default: // nothing to send: in sync, or an index the leader has no history for
		c.Regions = genRegions(r, 1+r.Intn(30), 1, 0)
		lp := uint64(1 + r.Intn(1000))
		c.LP = u64p(lp)
		if r.Bool() {
			c.FP = u64p(lp)
		} else {
			c.FP = u64p(lp + 1 + uint64(r.Intn(50)))
		}
	}
	return c
}

// a follower that already holds older versions of some of the leader's regions, a full synchronisation, then broadcasts
func genChain(r *rng.R, k int) Case {
	sizes := []int{1, 3, 60, 100, 101, 150, 230}
	c := Case{Kind: "chain", UseRS: r.Pct(60), Enc: k%3 == 0}
	n := sizes[k%len(sizes)]
	c.Regions = genRegions(r, n, []int{1, 1, 2}[r.Intn(3)], 0)
	c.LP = u64p(uint64(1 + r.Intn(100000)))
	if r.Pct(50) {
		c.FP = u64p(0)
	}
	if k%4 == 2 {
		// a restarted follower whose local region store is slow: the copies on disk have the epoch the leader holds (leader
		// transfers and flow updates do not bump it), so whichever is applied last wins
		c.SlowLoad, c.UseRS = true, false
		for _, reg := range c.Regions {
			if r.Pct(60) {
				c.FStored = append(c.FStored, reg)
			}
		}
		if r.Pct(50) {
			c.Pending = genUpdates(r, c.Regions, 3)
			for i := range c.Pending {
				if c.Pending[i].Leader == nil {
					p := c.Pending[i].Peers[0]
					c.Pending[i].Leader = &p
				}
			}
		}
		return c
	}
	exLeader := k%2 == 1 // the follower was the leader before: its cache holds heartbeat-built regions with terms > 0
	if exLeader {
		c.FTerm = uint64(2 + r.Intn(20))
	}
	for _, reg := range c.Regions {
		if exLeader {
			if r.Pct(50) {
				o := reg
				if o.ConfVer > 1 && r.Bool() {
					o.ConfVer--
				}
				if len(o.Peers) > 0 {
					p := o.Peers[len(o.Peers)-1]
					if !p.Learner {
						o.Leader = &p
					}
				}
				o.BW, o.KW = uint64(r.Intn(1<<20)), uint64(r.Intn(1<<12))
				c.FCached = append(c.FCached, o)
			}
			continue
		}
		if r.Pct(40) { // an older version of the same region (same id and range, epochs not larger, other peers)
			o := reg
			o.Leader = nil
			o.BW, o.BR, o.KW, o.KR = 0, 0, 0, 0
			if o.ConfVer > 1 && r.Bool() {
				o.ConfVer--
			}
			if o.Version > 1 && r.Bool() {
				o.Version--
			}
			if len(o.Peers) > 1 && r.Bool() {
				o.Peers = o.Peers[:len(o.Peers)-1]
			}
			c.FStored = append(c.FStored, o)
		}
	}
	if r.Pct(80) {
		c.Pending = genUpdates(r, c.Regions, []int{1, 5, 101, 130}[r.Intn(4)])
		for i := range c.Pending {
			if c.Pending[i].Leader == nil {
				p := c.Pending[i].Peers[0]
				c.Pending[i].Leader = &p
			}
		}
	}
	return c
}

func genBcast(r *rng.R, k int) Case {
	sizes := []int{1, 2, 50, 100, 101, 102, 150, 203, 250}
	c := Case{Kind: "bcast", UseRS: r.Pct(60)}
	if r.Pct(70) {
		c.LP = u64p(uint64(r.Intn(100000)))
	}
	c.FP = c.LP
	base := genRegions(r, 5+r.Intn(30), 1, 0)
	c.Pending = genUpdates(r, base, sizes[k%len(sizes)])
	for i := range c.Pending { // RunServer marshals GetLeader() as is: a nil leader cannot be sent (see notes)
		if c.Pending[i].Leader == nil {
			p := c.Pending[i].Peers[0]
			c.Pending[i].Leader = &p
		}
	}
	return c
}

func nilLeaderProbe() (note string) {
	defer func() {
		if r := recover(); r != nil {
			note = fmt.Sprintf("observation (outside the property): proto.Marshal of a SyncRegionResponse with a nil RegionLeaders entry panics (%v); RunServer appends first.GetLeader() unchecked, so the broadcast cases always carry leaders", r)
		}
	}()
	_, err := proto.Marshal(&pdpb.SyncRegionResponse{RegionLeaders: []*metapb.Peer{nil}})
	if err != nil {
		return "marshalling a SyncRegionResponse with a nil RegionLeaders entry returns an error: " + err.Error()
	}
	return "marshalling a SyncRegionResponse with a nil RegionLeaders entry succeeds"
}

func main() {
	seed := flag.Uint64("seed", 1, "")
	n := flag.Int("n", 300, "number of generated buffer cases")
	nsync := flag.Int("nsync", 48, "number of generated sync cases")
	nbcast := flag.Int("nbcast", 9, "number of generated broadcast cases")
	ncut := flag.Int("ncut", 4, "number of generated stream-cut / reconnect cases (each costs >= 1 s: the client sleeps before it reconnects)")
	nchain := flag.Int("nchain", 14, "number of generated stale-follower / sync-then-broadcast cases")
	out := flag.String("out", ".", "output directory")
	tier := flag.String("tier", "quick", "")
	corpus := flag.String("corpus", "", "json file of cases run first")
	replay := flag.String("replay", "", "json file with one case or a list of cases (or an evidence/replays file): run and print observations")
	flag.Parse()
	log.ReplaceGlobals(zap.NewNop(), nil)

	R := res.New("C16", *seed, *tier)
	R.Rule = "history buffer: random Record/RecordsFrom/ResetWithIndex/restart sequences on the real buffer, capacities -3..150, queries aimed at the window edges, " +
		"storage faults in 15% of the cases; sync: the real RegionSyncer on both ends of a localhost gRPC stream, leader sets of 0,1,2,50,99,100,101,150,199,200,201,230,250 " +
		"regions with all/some/no leaders (full), leader histories of 1..260 updates (incremental), in-sync and no-history requests, RunServer broadcasts of 1..250 notifications; " +
		"non-trivial = buffer case with a wrap-around or a restart, sync case with at least one message; distinct by sha256 of the canonical case text"
	cf := &coqfmt.CaseFile{Dir: *out, Prefix: "C16", PerFile: 20,
		Header: "From Coq Require Import String.\nFrom PDV Require Import lib.Base model.C16_Syncer.\nOpen Scope string_scope.\nLocal Open Scope Z_scope.\n",
		Type:   "case",
		Footer: "Definition M := Eval vm_compute in map fst (mismatches cases).\nDefinition D := Eval vm_compute in hd_error (mismatches cases).\nDefinition V := Eval vm_compute in monitor_fails cases.\nPrint M. Print D. Print V.\n"}

	var all []Case
	emit := func(c Case) {
		txt := c.coq()
		nontrivial := false
		switch c.Kind {
		case "buf":
			recs := 0
			for _, o := range c.Ops {
				R.Count("bufop:" + o.K)
				if o.K == "record" {
					recs++
				}
				if o.K == "restart" || o.K == "reset" {
					nontrivial = true
				}
			}
			if int64(recs) > c.Cap {
				nontrivial = true
			}
			R.Count(fmt.Sprintf("buf:cap=%d", c.Cap))
		default:
			R.Count(c.Kind + fmt.Sprintf(":msgs=%d", len(c.Msgs)))
			R.Count(c.Kind + fmt.Sprintf(":regions=%d", len(c.Regions)+len(c.Pending)))
			nontrivial = len(c.Msgs) > 0
		}
		R.Case(txt, nontrivial)
		if c.Kind == "buf" || len(c.Regions)+len(c.Pending) < 4 {
			R.Sample(c)
		}
		if err := cf.Add(txt); err != nil {
			panic(err)
		}
		all = append(all, c)
	}
	run := func(c Case) Case {
		switch c.Kind {
		case "buf":
			return runBuf(R, c.Cap, c.Ops)
		case "cut":
			return runCut(R, slim(c))
		default:
			return runSync(R, slim(c))
		}
	}
	for _, f := range []string{*corpus, *replay} {
		if f == "" {
			continue
		}
		b, err := os.ReadFile(f)
		if err != nil {
			panic(err)
		}
		var l []Case
		var one Case
		var ev struct{ Replay json.RawMessage }
		if json.Unmarshal(b, &l) != nil {
			if json.Unmarshal(b, &ev) == nil && len(ev.Replay) > 0 {
				b = ev.Replay
			}
			if err := json.Unmarshal(b, &one); err != nil {
				panic(err)
			}
			l = []Case{one}
		}
		for _, c := range l {
			emit(run(c))
		}
	}
	if *replay != "" {
		for _, c := range all {
			b, _ := json.MarshalIndent(c, "", " ")
			s := string(b)
			if len(s) > 6000 {
				s = s[:6000] + " …"
			}
			fmt.Println(s)
		}
		for _, v := range R.Violations {
			fmt.Println("VIOLATES", v.Sig, "-", v.Desc)
		}
	} else {
		master := rng.New(*seed)
		if *tier == "thorough" {
			*nsync *= 4
			*nbcast *= 3
			*nchain *= 4
			*ncut *= 4
		}
		stallR, stallDone := res.New("C16", *seed, *tier), make(chan struct{})
		go func() { defer close(stallDone); stalledFollowerProbe(stallR) }()
		bigWindowProbe(R)
		fullSyncTwiceProbe(R, *seed)
		// S8 regression (fixed by 3a92c2a): a reset is persisted
		emit(runBuf(R, 10, []BufOp{{K: "record", Arg: 1, OK: true}, {K: "reset", Arg: 1000000, OK: true}, {K: "record", Arg: 2, OK: true},
			{K: "next"}, {K: "restart", Arg: 10, OK: true}, {K: "next"}}))
		for k := 0; k < *nsync; k++ {
			emit(runSync(R, genSync(master.Fork(uint64(1000000+k)), k)))
		}
		for k := 0; k < *nbcast; k++ {
			emit(runSync(R, genBcast(master.Fork(uint64(2000000+k)), k)))
		}
		for k := 0; k < *nchain; k++ {
			emit(runSync(R, genChain(master.Fork(uint64(3000000+k)), k)))
		}
		{
			// the cut cases wait for the client's reconnect back-off: run them side by side
			cases := make([]Case, *ncut)
			var wg sync.WaitGroup
			var rmu sync.Mutex
			wg.Add(1)
			go func() { // needs the client's 1 s reconnect back-off as well: side by side with the cut cases
				defer wg.Done()
				Rk := res.New("C16", *seed, *tier)
				reconnectProbe(Rk, *seed)
				rmu.Lock()
				for _, v := range Rk.Violations {
					R.Violate(v.Sig, v.Desc, v.Replay)
				}
				R.Count("probe:reconnect")
				rmu.Unlock()
			}()
			wg.Add(1)
			go func() { // one reconnect back-off as well
				defer wg.Done()
				Rk := res.New("C16", *seed, *tier)
				halfOpenProbe(Rk, *seed)
				rmu.Lock()
				for _, v := range Rk.Violations {
					R.Violate(v.Sig, v.Desc, v.Replay)
				}
				R.Notes = append(R.Notes, Rk.Notes...)
				R.Count("probe:half-open")
				rmu.Unlock()
			}()
			wg.Add(1)
			go func() { // started at the beginning of the run (a real PD server and a 6.5 s stall): collected here
				defer wg.Done()
				<-stallDone
				Rk := stallR
				rmu.Lock()
				for _, v := range Rk.Violations {
					R.Violate(v.Sig, v.Desc, v.Replay)
				}
				R.Notes = append(R.Notes, Rk.Notes...)
				R.Count("probe:stalled-follower")
				rmu.Unlock()
			}()
			for k := 0; k < *ncut; k++ {
				wg.Add(1)
				go func(k int) {
					defer wg.Done()
					Rk := res.New("C16", *seed, *tier)
					cases[k] = runCut(Rk, genCut(master.Fork(uint64(4000000+k)), k))
					rmu.Lock()
					for _, v := range Rk.Violations {
						R.Violate(v.Sig, v.Desc, v.Replay)
					}
					rmu.Unlock()
				}(k)
			}
			wg.Wait()
			for _, c := range cases {
				emit(c)
			}
		}
		for k := 0; k < *n; k++ {
			capacity, ops := genBuf(master.Fork(uint64(k)))
			emit(runBuf(R, capacity, ops))
		}
	}
	// the driver's own lag check on the buffer traces (Coq's monitor does the same on every case)
	for _, c := range all {
		if c.Kind == "buf" {
			checkLag(R, c)
		}
	}
	R.Notes = append(R.Notes, nilLeaderProbe())
	if err := cf.Flush(); err != nil {
		panic(err)
	}
	R.CaseFiles = cf.Files
	b, _ := json.Marshal(all)
	os.WriteFile(path.Join(*out, "cases.json"), b, 0o644)
	if err := R.Write(path.Join(*out, "result.json")); err != nil {
		panic(err)
	}
	done := make(chan struct{})
	go func() { cleanup.Wait(); close(done) }()
	select {
	case <-done:
	case <-time.After(10 * time.Second):
	}
}

// checkLag: on a fault-free trace, the index after a restart is >= the index before - 100.
func checkLag(R *res.Result, c Case) {
	clean, reset := true, false
	var before int64 = -1
	for i, o := range c.Ops {
		if i >= len(c.Obs) {
			return
		}
		switch o.K {
		case "record":
			clean = clean && o.OK
		case "reset":
			reset = true
			clean = clean && o.OK
		case "next":
			fmt.Sscanf(strings.TrimPrefix(c.Obs[i], "BIdx "), "%d", &before)
		case "restart":
			var after int64
			fmt.Sscanf(strings.TrimPrefix(c.Obs[i], "BIdx "), "%d", &after)
			if clean && o.OK && before >= 0 && after < before-100 {
				sig := "C16:restart-index-lag:record-only-history"
				if reset {
					sig = "C16:restart-index-lag:reset-not-persisted"
				}
				R.Violate(sig, fmt.Sprintf("history buffer: next index %d before the restart, %d after it (fault-free history, ResetWithIndex used: %v)", before, after, reset), slim2(c, i))
				return
			}
			clean = clean && o.OK
		}
	}
}

func slim2(c Case, upto int) Case {
	c.Ops = c.Ops[:upto+1]
	c.Obs = nil
	return c
}
