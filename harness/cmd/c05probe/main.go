// throw-away probe for C05 findings (becomes part of cmd/c05)
package main

import (
	"context"
	"fmt"
	"os"
	"sync"
	"time"

	"github.com/tikv/pd/pkg/typeutil"
	"github.com/tikv/pd/server/config"
	"github.com/tikv/pd/server/tso"

	"pdverif/internal/srv15"
)

func compose(physMs int64, logical int64) uint64 { return uint64(physMs)<<18 | uint64(logical)&0x3FFFF }

func main() {
	cfg, err := srv15.Config()
	if err != nil {
		panic(err)
	}
	cfg.EnableLocalTSO = true
	cfg.Labels = map[string]string{config.ZoneLabel: "dc-1"}
	cfg.TSOUpdatePhysicalInterval = typeutil.NewDuration(10 * time.Second)
	cfg.TSOSaveInterval = typeutil.NewDuration(3 * time.Second)
	x, err := srv15.StartWith(cfg)
	if err != nil {
		panic(err)
	}
	defer x.Close()
	s := x.S
	am := s.GetTSOAllocatorManager()
	// a second dc-location served by the same member
	if _, err := s.GetClient().Put(context.Background(), s.GetMember().GetDCLocationPath(424242), "dc-2"); err != nil {
		panic(err)
	}
	am.ClusterDCLocationChecker()
	deadline := time.Now().Add(20 * time.Second)
	for {
		ok := true
		for _, dc := range []string{"dc-1", "dc-2"} {
			a, err := am.GetAllocator(dc)
			if err != nil || !a.IsInitialize() || !a.(*tso.LocalTSOAllocator).IsAllocatorLeader() {
				ok = false
			}
		}
		if ok {
			break
		}
		if time.Now().After(deadline) {
			fmt.Println("local allocators not ready")
			os.Exit(1)
		}
		time.Sleep(50 * time.Millisecond)
		am.ClusterDCLocationChecker()
	}
	bits := am.GetSuffixBits()
	fmt.Println("ready; suffix bits", bits, "dc map", am.GetClusterDCLocations())

	// ---- probe A: a global batch starts below a local timestamp that was returned before ----
	g, _ := am.GetAllocator(tso.GlobalDCLocation)
	l1, _ := am.GetAllocator("dc-1")
	p0 := time.Now().UnixNano()/1e6 + 2000
	if err := g.SetTSO(compose(p0, 10)); err != nil {
		fmt.Println("set global:", err)
	}
	if err := l1.SetTSO(compose(p0, 49)); err != nil {
		fmt.Println("set local:", err)
	}
	lt, err := am.HandleTSORequest("dc-1", 1)
	fmt.Println("local dc-1:", lt.Physical, lt.Logical, "raw", lt.Logical>>uint(bits), "suffix", lt.Logical&(1<<uint(bits)-1), err)
	gt, err := am.HandleTSORequest(tso.GlobalDCLocation, 100)
	fmt.Println("global x100:", gt.Physical, gt.Logical, "raw", gt.Logical>>uint(bits), err)
	first := gt.Logical - int64(99)<<uint(bits)
	fmt.Println("first value of the global batch:", gt.Physical, first, " < local returned before:", lt.Physical == gt.Physical && first < lt.Logical)

	// ---- probe A2: alternate local(1) and global(64) sequentially and look for a batch that starts below an earlier local ----
	viol := 0
	var lastLocal struct{ p, l int64 }
	for i := 0; i < 300; i++ {
		lt, err := am.HandleTSORequest("dc-1", 1)
		if err == nil {
			lastLocal.p, lastLocal.l = lt.Physical, lt.Logical
		}
		if i%3 == 0 {
			am.HandleTSORequest("dc-1", uint32(1+i%50))
			lt, err = am.HandleTSORequest("dc-1", 1)
			if err == nil {
				lastLocal.p, lastLocal.l = lt.Physical, lt.Logical
			}
		}
		gt, err := am.HandleTSORequest(tso.GlobalDCLocation, 64)
		if err != nil {
			continue
		}
		first := gt.Logical - int64(63)<<uint(bits)
		if gt.Physical < lastLocal.p || (gt.Physical == lastLocal.p && first <= lastLocal.l) {
			viol++
			if viol <= 3 {
				fmt.Println("BATCH BELOW EARLIER LOCAL: local", lastLocal, "global last", gt.Physical, gt.Logical, "first", first)
			}
		}
	}
	fmt.Println("probe A2 violations:", viol, "of 300")

	// ---- probe B: concurrent global requests while locals run ahead ----
	stop := make(chan struct{})
	var wg sync.WaitGroup
	wg.Add(1)
	go func() {
		defer wg.Done()
		for {
			select {
			case <-stop:
				return
			default:
				am.HandleTSORequest("dc-1", 7)
			}
		}
	}()
	type key struct{ p, l int64 }
	var mu sync.Mutex
	seen := map[key]int{}
	dups := 0
	total := 0
	for w := 0; w < 8; w++ {
		wg.Add(1)
		go func() {
			defer wg.Done()
			for i := 0; i < 300; i++ {
				t, err := am.HandleTSORequest(tso.GlobalDCLocation, 1)
				if err != nil {
					continue
				}
				mu.Lock()
				total++
				k := key{t.Physical, t.Logical}
				seen[k]++
				if seen[k] == 2 {
					dups++
					if dups <= 3 {
						fmt.Println("DUPLICATE global timestamp:", k)
					}
				}
				mu.Unlock()
			}
		}()
	}
	time.Sleep(100 * time.Millisecond)
	// wait for the 8 workers (the local hammer is stopped afterwards)
	done := make(chan struct{})
	go func() { wg.Wait(); close(done) }()
	for {
		mu.Lock()
		t := total
		mu.Unlock()
		if t >= 8*300-400 {
			break
		}
		select {
		case <-time.After(30 * time.Second):
			fmt.Println("timeout; total", t)
			goto out
		case <-time.After(200 * time.Millisecond):
		}
	}
out:
	close(stop)
	<-done
	fmt.Println("global requests:", total, "distinct:", len(seen), "duplicated values:", dups)
}
