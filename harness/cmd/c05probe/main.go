// Throw-away probe: a real 3-member PD cluster with Local TSO (dc-1, dc-2, dc-3), looking at the suffix width
// each allocator reports right after start-up and at equal timestamps from different allocators.
package main

import (
	"context"
	"fmt"
	"os"
	"strings"
	"sync"
	"time"

	"github.com/pingcap/kvproto/pkg/pdpb"
	"github.com/tikv/pd/pkg/typeutil"
	"github.com/tikv/pd/server"
	"github.com/tikv/pd/server/config"
	"github.com/tikv/pd/server/tso"

	"pdverif/internal/srv15"
)

type node struct {
	s      *server.Server
	cfg    *config.Config
	cancel context.CancelFunc
	dc     string
}

func main() {
	n := 3
	cfgs := make([]*config.Config, n)
	var peers []string
	for i := 0; i < n; i++ {
		cfg, err := srv15.Config()
		if err != nil {
			panic(err)
		}
		cfg.Name = fmt.Sprintf("pd%d", i+1)
		cfg.EnableLocalTSO = true
		cfg.Labels = map[string]string{config.ZoneLabel: fmt.Sprintf("dc-%d", i+1)}
		cfg.TSOUpdatePhysicalInterval = typeutil.NewDuration(50 * time.Millisecond)
		cfgs[i] = cfg
		peers = append(peers, fmt.Sprintf("%s=%s", cfg.Name, cfg.PeerUrls))
	}
	for _, c := range cfgs {
		c.InitialCluster = strings.Join(peers, ",")
	}
	nodes := make([]*node, n)
	var wg sync.WaitGroup
	for i := range cfgs {
		wg.Add(1)
		go func(i int) {
			defer wg.Done()
			ctx, cancel := context.WithCancel(context.Background())
			s, err := server.CreateServer(ctx, cfgs[i])
			if err != nil {
				panic(err)
			}
			if err := s.Run(); err != nil {
				panic(err)
			}
			srv15.Quiet()
			nodes[i] = &node{s: s, cfg: cfgs[i], cancel: cancel, dc: fmt.Sprintf("dc-%d", i+1)}
		}(i)
	}
	wg.Wait()
	defer func() {
		for _, x := range nodes {
			x.s.Close()
			x.cancel()
			os.RemoveAll(x.cfg.DataDir)
		}
	}()
	t0 := time.Now()
	// wait for a PD leader and for every dc to have an allocator leader
	holder := map[string]*node{}
	deadline := time.Now().Add(90 * time.Second)
	for {
		var leader *node
		for _, x := range nodes {
			if x.s.GetMember().IsLeader() {
				leader = x
			}
		}
		holder = map[string]*node{}
		for _, x := range nodes {
			am := x.s.GetTSOAllocatorManager()
			for i := 1; i <= n; i++ {
				dc := fmt.Sprintf("dc-%d", i)
				a, err := am.GetAllocator(dc)
				if err == nil && a.IsInitialize() && a.(*tso.LocalTSOAllocator).IsAllocatorLeader() {
					holder[dc] = x
				}
			}
		}
		if leader != nil && len(holder) == n {
			fmt.Printf("ready after %v: pd leader %s\n", time.Since(t0).Round(time.Millisecond), leader.cfg.Name)
			break
		}
		if time.Now().After(deadline) {
			fmt.Println("not ready", leader != nil, len(holder))
			return
		}
		time.Sleep(20 * time.Millisecond)
	}
	var leader *node
	for _, x := range nodes {
		if x.s.GetMember().IsLeader() {
			leader = x
		}
	}
	info := leader.s.GetTSOAllocatorManager().GetClusterDCLocations()
	for dc, h := range holder {
		fmt.Printf("%s held by %s suffix=%d member-width=%d\n", dc, h.cfg.Name, info[dc].Suffix, h.s.GetTSOAllocatorManager().GetSuffixBits())
	}
	// the PD leader hands the local allocators it holds to the other members (pd-ctl: transfer allocator)
	var followers []*node
	for _, x := range nodes {
		if x != leader {
			followers = append(followers, x)
		}
	}
	lam := leader.s.GetTSOAllocatorManager()
	k := 0
	for i := 1; i <= n; i++ {
		dc := fmt.Sprintf("dc-%d", i)
		if holder[dc] == leader {
			target := followers[k%len(followers)]
			k++
			if err := lam.TransferAllocatorForDCLocation(dc, target.s.GetMember().ID()); err != nil {
				fmt.Println("transfer:", err)
			}
			dl := time.Now().Add(30 * time.Second)
			for time.Now().Before(dl) {
				a, err := target.s.GetTSOAllocatorManager().GetAllocator(dc)
				if err == nil && a.IsInitialize() && a.(*tso.LocalTSOAllocator).IsAllocatorLeader() {
					holder[dc] = target
					break
				}
				time.Sleep(20 * time.Millisecond)
			}
			fmt.Printf("%s transferred to %s: %v\n", dc, target.cfg.Name, holder[dc] == target)
		}
	}
	// the operator moves the Global TSO one hour ahead (pd-ctl tso reset / admin API)
	if _, err := lam.HandleTSORequest(tso.GlobalDCLocation, 1); err != nil {
		fmt.Println("global warm-up:", err)
	}
	ga, _ := lam.GetAllocator(tso.GlobalDCLocation)
	ahead := time.Now().Add(time.Hour)
	if err := ga.SetTSO(uint64(ahead.UnixNano()/int64(time.Millisecond)) << 18); err != nil {
		fmt.Println("SetTSO:", err)
	}
	var g1 pdpb.Timestamp
	for r := 0; r < 20; r++ {
		g, err := lam.HandleTSORequest(tso.GlobalDCLocation, 1)
		if err == nil {
			g1 = g
			break
		}
		time.Sleep(100 * time.Millisecond)
	}
	fmt.Printf("global timestamp after the reset: physical %d (now %d)\n", g1.Physical, time.Now().UnixNano()/int64(time.Millisecond))
	// two more datacenters join later (members that never get to campaign themselves)
	cli := leader.s.GetClient()
	for k, id := range []uint64{424244, 424245} {
		if _, err := cli.Put(context.Background(), leader.s.GetMember().GetDCLocationPath(id), fmt.Sprintf("dc-%d", 4+k)); err != nil {
			panic(err)
		}
	}
	tj := time.Now()
	leader.s.GetTSOAllocatorManager().ClusterDCLocationChecker() // the PD leader's periodic check fires now
	n = 5
	deadline = time.Now().Add(50 * time.Second)
	for {
		for _, x := range nodes {
			am := x.s.GetTSOAllocatorManager()
			for i := 4; i <= n; i++ {
				dc := fmt.Sprintf("dc-%d", i)
				a, err := am.GetAllocator(dc)
				if err == nil && a.IsInitialize() && a.(*tso.LocalTSOAllocator).IsAllocatorLeader() {
					holder[dc] = x
				}
			}
		}
		if len(holder) == n {
			break
		}
		if time.Now().After(deadline) {
			fmt.Println("new dcs not ready", len(holder))
			return
		}
		time.Sleep(20 * time.Millisecond)
	}
	info = leader.s.GetTSOAllocatorManager().GetClusterDCLocations()
	fmt.Printf("new dcs serving %v after the join\n", time.Since(tj).Round(time.Millisecond))
	for dc, h := range holder {
		fmt.Printf("%s held by %s suffix=%d member-width=%d\n", dc, h.cfg.Name, info[dc].Suffix, h.s.GetTSOAllocatorManager().GetSuffixBits())
	}
	for _, dc := range []string{"dc-4", "dc-5"} {
		l, err := holder[dc].s.GetTSOAllocatorManager().HandleTSORequest(dc, 1)
		fmt.Printf("first local timestamp of %s: physical %d err=%v; last global physical %d -> %s\n", dc, l.Physical, err, g1.Physical,
			map[bool]string{true: "greater (ok)", false: "NOT GREATER THAN THE EARLIER GLOBAL TIMESTAMP"}[l.Physical > g1.Physical || (l.Physical == g1.Physical && l.Logical > g1.Logical)])
	}
	type ans struct {
		dc string
		ts pdpb.Timestamp
	}
	seen := map[[2]int64]ans{}
	check := func(dc string, ts pdpb.Timestamp, count uint32) {
		// every timestamp of the batch: logical - k<<bits for k < count
		for k := int64(0); k < int64(count); k++ {
			l := ts.Logical - (k << ts.SuffixBits)
			key := [2]int64{ts.Physical, l}
			if o, ok := seen[key]; ok && o.dc != dc {
				fmt.Printf("EQUAL TIMESTAMPS: (%d,%d) from %s (width %d) and from %s (width %d)\n", ts.Physical, l, o.dc, o.ts.SuffixBits, dc, ts.SuffixBits)
			}
			seen[key] = ans{dc, ts}
		}
	}
	for round := 0; round < 40; round++ {
		g, err := leader.s.GetTSOAllocatorManager().HandleTSORequest(tso.GlobalDCLocation, 1)
		if err != nil {
			fmt.Println("global:", err)
			time.Sleep(200 * time.Millisecond)
			continue
		}
		check("global", g, 1)
		widths := map[string]uint32{"global": g.SuffixBits}
		for i := 1; i <= n; i++ {
			dc := fmt.Sprintf("dc-%d", i)
			for r := 0; r < 3; r++ {
				l, err := holder[dc].s.GetTSOAllocatorManager().HandleTSORequest(dc, 24)
				if err != nil {
					fmt.Println(dc, err)
					continue
				}
				widths[dc] = l.SuffixBits
				check(dc, l, 24)
			}
		}
		if round%5 == 0 {
			fmt.Printf("t=%v widths %v\n", time.Since(t0).Round(time.Second), widths)
		}
		time.Sleep(100 * time.Millisecond)
	}
}
