package main

// Re-election histories on a REAL server (round 4): the member's RaftCluster is stopped (it lost leadership), another
// leader changes the placement rules in the shared storage, the same RaftCluster object is started again (elected again in
// the same process), then the real RuleChecker runs. Oracles: the rules the re-elected leader serves are the rules in
// storage (a fresh RuleManager loaded from the same storage), and every peer the checker adds sits on a store that some
// stored rule allows.

import (
	"encoding/json"
	"fmt"
	"sort"

	"github.com/pingcap/kvproto/pkg/metapb"
	"github.com/pingcap/kvproto/pkg/pdpb"
	"github.com/tikv/pd/pkg/cache"
	"github.com/tikv/pd/server/core"
	"github.com/tikv/pd/server/schedule/checker"
	"github.com/tikv/pd/server/schedule/placement"

	"pdverif/internal/res"
	"pdverif/internal/rng"
	"pdverif/internal/sim10"
	"pdverif/internal/srv10"
)

type reelectRec struct {
	Zones    []string // zone of store i+1
	Rule1    []string // zones the voter rule allows in the first term
	Rule2    []string // ... after the other leader's change
	Group2   bool     // the other leader also gives the group a non-default index
	RegionOn []uint64
}

func rulesJSON(m *placement.RuleManager) string {
	rs := m.GetAllRules()
	sort.Slice(rs, func(i, j int) bool { return rs[i].GroupID+"/"+rs[i].ID < rs[j].GroupID+"/"+rs[j].ID })
	b, _ := json.Marshal(rs)
	gs, _ := json.Marshal(m.GetRuleGroups())
	return string(b) + " groups " + string(gs)
}

func runReelections(R *res.Result, seed uint64, rounds int) {
	x, err := srv10.Start(nil)
	if err != nil {
		R.Notes = append(R.Notes, "re-election histories skipped: real server did not start: "+err.Error())
		return
	}
	defer x.Close()
	if err := x.Bootstrap(&metapb.Store{Id: 1, Address: "s1", Version: "4.0.0", Labels: []*metapb.StoreLabel{{Key: "zone", Value: "z1"}}}); err != nil {
		R.Notes = append(R.Notes, "re-election histories skipped: "+err.Error())
		return
	}
	s := x.S
	rc := s.GetRaftCluster()
	s.GetPersistOptions().SetPlacementRuleEnabled(true)
	master := rng.New(seed ^ 0xC10C10)
	for k := 0; k < rounds; k++ {
		r := master.Fork(uint64(k))
		rec := reelectRec{}
		zs := []string{"z1", "z2", "z3"}
		// term 1: this member leads; stores, heartbeats, rule
		rc.Stop()
		if err := rc.Start(s); err != nil {
			panic(err)
		}
		n := 5 + r.Intn(2)
		for i := 1; i <= n; i++ {
			z := zs[r.Intn(3)]
			if i <= 3 {
				z = zs[i-1] // every zone is inhabited
			}
			rec.Zones = append(rec.Zones, z)
			if err := rc.PutStore(&metapb.Store{Id: uint64(i), Address: fmt.Sprintf("s%d", i), Version: "4.0.0",
				Labels: []*metapb.StoreLabel{{Key: "zone", Value: z}}}); err != nil {
				panic(err)
			}
			if err := rc.HandleStoreHeartbeat(&pdpb.StoreStats{StoreId: uint64(i), Capacity: 1000 << 30, Available: 600 << 30, UsedSize: 400 << 30}); err != nil {
				panic(err)
			}
		}
		pick := func() []string {
			var out []string
			for _, z := range zs {
				if r.Pct(50) {
					out = append(out, z)
				}
			}
			if len(out) == 0 {
				out = []string{zs[r.Intn(3)]}
			}
			return out
		}
		rec.Rule1, rec.Rule2 = pick(), pick()
		rec.Group2 = r.Pct(40)
		mkRule := func(z []string) *placement.Rule {
			return &placement.Rule{GroupID: "pd", ID: "default", Role: placement.Voter, Count: 3,
				LabelConstraints: []placement.LabelConstraint{{Key: "zone", Op: placement.In, Values: z}}}
		}
		if err := rc.GetRuleManager().SetRule(mkRule(rec.Rule1)); err != nil {
			panic(err)
		}
		_ = rc.GetRuleManager().SetRuleGroup(&placement.RuleGroup{ID: "pd"})
		// a region with two voters: the rule checker has to add one
		p := r.Intn(n)
		rec.RegionOn = []uint64{uint64(p + 1), uint64((p+1)%n + 1)}
		meta := &metapb.Region{Id: 7000, StartKey: []byte("a"), EndKey: []byte("b"), RegionEpoch: &metapb.RegionEpoch{ConfVer: 5, Version: 5},
			Peers: []*metapb.Peer{{Id: 7001, StoreId: rec.RegionOn[0]}, {Id: 7002, StoreId: rec.RegionOn[1]}}}
		region := core.NewRegionInfo(meta, meta.Peers[0], core.SetApproximateSize(10), core.SetApproximateKeys(100))

		// leadership moves away; the other leader changes the rule in the shared storage through its own manager
		rc.Stop()
		other := placement.NewRuleManager(core.NewStorage(s.GetStorage().Base), rc)
		if err := other.Initialize(3, nil); err != nil {
			panic(err)
		}
		if err := other.SetRule(mkRule(rec.Rule2)); err != nil {
			panic(err)
		}
		if rec.Group2 {
			if err := other.SetRuleGroup(&placement.RuleGroup{ID: "pd", Index: 2}); err != nil {
				panic(err)
			}
		}
		// ... and this member is elected again, in the same process
		if err := rc.Start(s); err != nil {
			panic(err)
		}
		for i := 1; i <= n; i++ {
			_ = rc.HandleStoreHeartbeat(&pdpb.StoreStats{StoreId: uint64(i), Capacity: 1000 << 30, Available: 600 << 30, UsedSize: 400 << 30})
		}
		R.Count("reelect:history")
		fresh := placement.NewRuleManager(core.NewStorage(s.GetStorage().Base), rc)
		if err := fresh.Initialize(3, nil); err != nil {
			panic(err)
		}
		served, stored := rulesJSON(rc.GetRuleManager()), rulesJSON(fresh)
		replay := map[string]interface{}{"reelection": rec}
		if served != stored {
			R.Violate("C10:reelected-leader-serves-stale-placement-rules",
				"after leadership A -> B (rule changed through B) -> A the rule checker of A works with "+served+" while storage holds "+stored, replay)
		}
		op := checker.NewRuleChecker(rc, rc.GetRuleManager(), cache.NewDefaultCache(16)).Check(region)
		if op == nil {
			R.Count("reelect:no-operator")
			continue
		}
		R.Count("reelect:" + op.Desc())
		tr := sim10.Run(region, op)
		before := map[uint64]bool{}
		for _, p := range region.GetPeers() {
			before[p.GetStoreId()] = true
		}
		for _, p := range tr.Final().Peers {
			if before[p.Store] {
				continue
			}
			st := rc.GetStore(p.Store)
			ok := false
			for _, ru := range fresh.GetAllRules() {
				if st != nil && placement.MatchLabelConstraints(st, ru.LabelConstraints) {
					ok = true
				}
			}
			if !ok {
				R.Violate("C10:reelected:target-violates-stored-rules",
					fmt.Sprintf("after re-election %s adds a peer on store %d (labels %v); the rules in storage allow zones %v", sim10.Summary(op), p.Store, st.GetLabels(), rec.Rule2), replay)
			}
		}
	}
}
