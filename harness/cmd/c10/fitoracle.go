package main

// An independent judgement of the placement fit the checkers work on.  The Coq model takes the fit as an INPUT (it is read
// from the real FitRegion), so a wrong fit would be invisible to it.  This file recomputes, from the case specification (store
// labels, peers, roles, leader) and the list of rules that apply, what the best fit is worth - by plain enumeration of every
// assignment, sharing no code with placement/fit.go - and judges
//   - the fit read from the real code: a partition of the region's peers, worth exactly the optimum;
//   - a remove-orphan-peer operator: without the removed peer the rules are served as well as with it.

import (
	"fmt"
	"strings"

	"github.com/tikv/pd/server/schedule/placement"
	"pdverif/internal/gen10"
)

type fkey struct {
	n, diff int
	iso     int64
}

func (a fkey) cmp(b fkey) int {
	switch {
	case a.n != b.n:
		return sign(a.n - b.n)
	case a.diff != b.diff:
		return sign(b.diff - a.diff)
	case a.iso != b.iso:
		if a.iso > b.iso {
			return 1
		}
		return -1
	}
	return 0
}

func sign(x int) int {
	if x > 0 {
		return 1
	}
	if x < 0 {
		return -1
	}
	return 0
}

func cmpKeys(a, b []fkey) int {
	for i := range a {
		if c := a[i].cmp(b[i]); c != 0 {
			return c
		}
	}
	return 0
}

type refPeer struct {
	id       uint64
	labels   [][2]string
	known    bool // the store exists
	learner  bool
	isLeader bool
}

func labelOf(ls [][2]string, key string) string {
	for _, l := range ls {
		if strings.EqualFold(l[0], key) {
			return l[1]
		}
	}
	return ""
}

func refMatch(p refPeer, cs []placement.LabelConstraint) bool {
	if !p.known {
		return false
	}
	// a store carrying an exclusive label (engine, exclusive, $...) serves only rules that name that label
	for _, l := range p.labels {
		if l[0] == "engine" || l[0] == "exclusive" || strings.HasPrefix(l[0], "$") {
			named := false
			for _, c := range cs {
				if c.Key == l[0] {
					named = true
				}
			}
			if !named {
				return false
			}
		}
	}
	for _, c := range cs {
		v := labelOf(p.labels, c.Key)
		in := false
		for _, x := range c.Values {
			if x == v {
				in = true
			}
		}
		ok := false
		switch c.Op {
		case placement.In:
			ok = v != "" && in
		case placement.NotIn:
			ok = v == "" || !in
		case placement.Exists:
			ok = v != ""
		case placement.NotExists:
			ok = v == ""
		}
		if !ok {
			return false
		}
	}
	return true
}

func refStrict(p refPeer, role placement.PeerRoleType) bool {
	switch role {
	case placement.Voter:
		return !p.learner
	case placement.Leader:
		return p.isLeader
	case placement.Follower:
		return !p.learner && !p.isLeader
	case placement.Learner:
		return p.learner
	}
	return false
}

func refIso(sel []refPeer, labels []string) int64 {
	if len(labels) == 0 || len(sel) <= 1 {
		return 0
	}
	var score int64
	for i := range sel {
		for j := i + 1; j < len(sel); j++ {
			for k, key := range labels {
				a, b := labelOf(sel[i].labels, key), labelOf(sel[j].labels, key)
				if a != "" && b != "" && !strings.EqualFold(a, b) {
					w := int64(1)
					for e := 0; e < len(labels)-k-1; e++ {
						w *= 100
					}
					score += w
					break
				}
			}
		}
	}
	return score
}

// refBest: the lexicographically best vector of (peers, peers of another role, isolation score), rule by rule in rule order.
func refBest(rules []*placement.Rule, peers []refPeer, used []bool, idx int) []fkey {
	if idx == len(rules) {
		return nil
	}
	ru := rules[idx]
	var cand []int
	for i, p := range peers {
		if !used[i] && refMatch(p, ru.LabelConstraints) && (ru.Role != placement.Learner || p.learner) {
			cand = append(cand, i)
		}
	}
	count := ru.Count
	if len(cand) < count {
		count = len(cand)
	}
	var best []fkey
	var sel []int
	var rec func(from int)
	rec = func(from int) {
		if len(sel) == count {
			var ps []refPeer
			k := fkey{n: count}
			for _, i := range sel {
				ps = append(ps, peers[i])
				if !refStrict(peers[i], ru.Role) {
					k.diff++
				}
				used[i] = true
			}
			k.iso = refIso(ps, ru.LocationLabels)
			v := append([]fkey{k}, refBest(rules, peers, used, idx+1)...)
			for _, i := range sel {
				used[i] = false
			}
			if best == nil || cmpKeys(v, best) > 0 {
				best = v
			}
			return
		}
		for j := from; j < len(cand); j++ {
			sel = append(sel, cand[j])
			rec(j + 1)
			sel = sel[:len(sel)-1]
		}
	}
	rec(0)
	return best
}

func refPeers(spec gen10.ClusterSpec, without uint64) []refPeer {
	var out []refPeer
	for _, p := range spec.Region.Peers {
		if p.Store == without {
			continue
		}
		rp := refPeer{id: p.ID, learner: p.Role == 1, isLeader: spec.Region.Leader != nil && spec.Region.Leader.ID == p.ID}
		for _, s := range spec.Stores {
			if s.ID == p.Store {
				rp.known, rp.labels = true, s.Labels
			}
		}
		out = append(out, rp)
	}
	return out
}

func keysString(ks []fkey) string {
	var xs []string
	for _, k := range ks {
		xs = append(xs, fmt.Sprintf("(peers %d, other-role %d, isolation %d)", k.n, k.diff, k.iso))
	}
	return strings.Join(xs, " ")
}

// judgeFit returns (signature, description) pairs for the fit the real code computed for the case.
func judgeFit(spec gen10.ClusterSpec, fit *placement.RegionFit) [][2]string {
	if fit == nil || len(fit.RuleFits) == 0 {
		return nil
	}
	var out [][2]string
	seen := map[uint64]int{}
	for _, rf := range fit.RuleFits {
		for _, p := range rf.Peers {
			seen[p.GetId()]++
		}
	}
	for _, p := range fit.OrphanPeers {
		seen[p.GetId()]++
	}
	for _, p := range spec.Region.Peers {
		if seen[p.ID] != 1 {
			out = append(out, [2]string{"C10:fit-is-not-a-partition-of-the-peers",
				fmt.Sprintf("peer %d (store %d) occurs %d times in the rule fits and the orphan list of the fit the checker works on", p.ID, p.Store, seen[p.ID])})
			break
		}
	}
	var rules []*placement.Rule
	var real []fkey
	for _, rf := range fit.RuleFits {
		rules = append(rules, rf.Rule)
		real = append(real, fkey{len(rf.Peers), len(rf.PeersWithDifferentRole), int64(rf.IsolationScore)})
	}
	peers := refPeers(spec, 0)
	if best := refBest(rules, peers, make([]bool, len(peers)), 0); cmpKeys(real, best) != 0 {
		out = append(out, [2]string{"C10:fit-is-not-the-best-fit",
			fmt.Sprintf("FitRegion: %s; enumeration of all assignments: %s", keysString(real), keysString(best))})
	}
	return out
}

// judgeOrphanRemoval: removing the peer on store `st` as an orphan must leave the rules served as well as before.
func judgeOrphanRemoval(spec gen10.ClusterSpec, fit *placement.RegionFit, st uint64) [][2]string {
	if fit == nil || len(fit.RuleFits) == 0 {
		return nil
	}
	var rules []*placement.Rule
	for _, rf := range fit.RuleFits {
		rules = append(rules, rf.Rule)
	}
	all := refPeers(spec, 0)
	rest := refPeers(spec, st)
	b0 := refBest(rules, all, make([]bool, len(all)), 0)
	b1 := refBest(rules, rest, make([]bool, len(rest)), 0)
	if cmpKeys(b1, b0) < 0 {
		return [][2]string{{"C10:orphan-removal-worsens-rule-fit",
			fmt.Sprintf("remove-orphan-peer takes the peer on store %d; best fit of the region with it: %s, without it: %s - the removed peer is not surplus", st, keysString(b0), keysString(b1))}}
	}
	return nil
}
