package main

// Store life-cycle histories on a real server (round 6, harness/internal/life10): the store records the checkers read are
// produced by the real store API - registration and re-registration, store delete, store up, label updates, heartbeats - in
// generated orders, some calls overlapping (the storage write of one call held back while a second call for the same store is
// started).  Oracles: the served and the stored record of every store equal the ACKNOWLEDGED one, and every peer the real
// ReplicaChecker / RuleChecker adds afterwards sits on a store that is Up according to the acknowledged record.

import (
	"context"
	"encoding/json"
	"fmt"
	"net/http/httptest"
	"strings"
	"time"

	"github.com/pingcap/kvproto/pkg/metapb"
	"github.com/tikv/pd/pkg/cache"
	"github.com/tikv/pd/server/api"
	"github.com/tikv/pd/server/core"
	"github.com/tikv/pd/server/schedule"
	"github.com/tikv/pd/server/schedule/checker"
	"github.com/tikv/pd/server/schedule/operator"
	"github.com/tikv/pd/server/schedule/placement"
	"go.etcd.io/etcd/clientv3"

	"pdverif/internal/life10"
	"pdverif/internal/res"
	"pdverif/internal/rng"
	"pdverif/internal/sim10"
)

func runLifecycles(R *res.Result, seed uint64, rounds int) {
	w, err := life10.Start()
	if err != nil {
		R.Notes = append(R.Notes, "store life-cycle histories skipped: real server did not start: "+err.Error())
		return
	}
	defer w.Close()
	master := rng.New(seed ^ 0xC10C10)
	const n = 4
	for k := 0; k < rounds; k++ {
		r := master.Fork(uint64(k))
		rules := r.Pct(50)
		w.S.GetPersistOptions().SetPlacementRuleEnabled(rules)
		w.Reset(n)
		h := life10.Generate(r, n)
		failed := w.Run(h)
		R.Count("lifecycle:history")
		replay := map[string]interface{}{"lifecycle": h, "rules": rules, "refused": failed}
		for _, d := range w.Diffs() {
			R.Violate("C10:store-record-differs-from-acknowledged", d+" (history: "+life10.Describe(h)+")", replay)
		}
		// a region with two voters on stores that are Up as acknowledged; the checker has to add a third
		var up []uint64
		for id := uint64(1); id <= n; id++ {
			if w.Ack[id].State == metapb.StoreState_Up {
				up = append(up, id)
			}
		}
		if len(up) < 2 {
			R.Count("lifecycle:fewer-than-two-up")
			continue
		}
		off := r.Intn(len(up))
		a, b := up[off], up[(off+1)%len(up)]
		meta := &metapb.Region{Id: 7000, StartKey: []byte("a"), EndKey: []byte("b"), RegionEpoch: &metapb.RegionEpoch{ConfVer: 5, Version: 5},
			Peers: []*metapb.Peer{{Id: 7001, StoreId: a}, {Id: 7002, StoreId: b}}}
		region := core.NewRegionInfo(meta, meta.Peers[0], core.SetApproximateSize(10), core.SetApproximateKeys(100))
		w.S.GetBasicCluster().PutRegion(region)
		var op *operator.Operator
		name := "ReplicaChecker.Check"
		if rules {
			name = "RuleChecker.Check"
			op = checker.NewRuleChecker(w.RC, w.RC.GetRuleManager(), cache.NewDefaultCache(16)).Check(region)
		} else {
			op = checker.NewReplicaChecker(w.RC, cache.NewDefaultCache(16)).Check(region)
		}
		if op == nil {
			R.Count("lifecycle:no-operator")
			continue
		}
		R.Count("lifecycle:" + op.Desc())
		tr := sim10.Run(region, op)
		for _, p := range tr.Final().Peers {
			if p.Store == a || p.Store == b {
				continue
			}
			if ak := w.Ack[p.Store]; ak == nil || ak.State != metapb.StoreState_Up {
				st := "unknown"
				if ak != nil {
					st = ak.State.String()
				}
				R.Violate("C10:lifecycle:target-not-up-as-acknowledged",
					fmt.Sprintf("%s: %s adds a peer on store %d, whose acknowledged state is %s (history: %s)", name, sim10.Summary(op), p.Store, st, life10.Describe(h)), replay)
			}
		}
	}
	runRuleAPI(R, w, master, 3)
}

// ---- temporary (TTL) settings across a REAL leader change ----
// A temporary setting (schedule.replica-schedule-limit = 0, the documented way to pause replica scheduling) is stored through
// Server.SaveTTLConfig; shortly before it runs out the leadership is reset: the member steps down, campaigns again and
// campaignLeader restores the temporary settings from etcd (PersistOptions.LoadTTLFromEtcd).  ORACLE: once the key is gone from
// etcd (read with a plain client) the setting is over for every observer: the option has its persisted value again and
// CheckerController.CheckRegion proposes the repair of an under-replicated region.

type ttlOutcome struct {
	counts []string
	notes  []string
	viol   []res.Violation
}

func runTTLHistory(seed uint64) (out ttlOutcome) {
	note := func(s string) { out.notes = append(out.notes, "temporary-setting history: "+s) }
	w, err := life10.Start()
	if err != nil {
		note("skipped, real server did not start: " + err.Error())
		return
	}
	defer w.Close()
	const n = 4
	w.S.GetPersistOptions().SetPlacementRuleEnabled(false)
	w.Reset(n)
	ctx, cancel := context.WithCancel(context.Background())
	defer cancel()
	meta := &metapb.Region{Id: 7000, StartKey: []byte("a"), EndKey: []byte("b"), RegionEpoch: &metapb.RegionEpoch{ConfVer: 5, Version: 5},
		Peers: []*metapb.Peer{{Id: 7001, StoreId: 1}, {Id: 7002, StoreId: 2}}}
	region := core.NewRegionInfo(meta, meta.Peers[0], core.SetApproximateSize(10), core.SetApproximateKeys(100))
	check := func() []*operator.Operator {
		w.S.GetBasicCluster().PutRegion(region)
		for i := uint64(1); i <= n; i++ {
			_ = w.Heartbeat(i, 10)
		}
		rc := w.S.GetRaftCluster()
		cc := schedule.NewCheckerController(ctx, rc, rc.GetRuleManager(), rc.GetOperatorController())
		return cc.CheckRegion(region)
	}
	if len(check()) == 0 {
		note("skipped, CheckRegion proposes nothing for the under-replicated region before the pause")
		return
	}
	const key = "schedule.replica-schedule-limit"
	persisted := w.S.GetPersistOptions().GetScheduleConfig().ReplicaScheduleLimit
	asked := 5 * time.Second
	if err := w.S.SaveTTLConfig(map[string]interface{}{key: 0}, asked); err != nil {
		note("skipped, SaveTTLConfig: " + err.Error())
		return
	}
	if w.S.GetPersistOptions().GetReplicaScheduleLimit() != 0 || len(check()) != 0 {
		note("skipped, the temporary setting is not in force after SaveTTLConfig")
		return
	}
	client := w.S.GetClient()
	remaining := func() (time.Duration, bool) {
		resp, err := client.Get(ctx, "/config/ttl/"+key)
		if err != nil || len(resp.Kvs) == 0 {
			return 0, false
		}
		t, err := client.TimeToLive(ctx, clientv3.LeaseID(resp.Kvs[0].Lease))
		if err != nil || t.TTL < 0 {
			return 0, false
		}
		return time.Duration(t.TTL) * time.Second, true
	}
	// wait until about 2 s are left, then the leadership changes
	for {
		rem, ok := remaining()
		if !ok {
			note("skipped, the setting ran out before the leader change")
			return
		}
		if rem <= 2*time.Second {
			break
		}
		time.Sleep(100 * time.Millisecond)
	}
	w.S.GetMember().ResetLeader()
	time.Sleep(200 * time.Millisecond)
	dl := time.Now().Add(20 * time.Second)
	for !(w.S.GetMember().IsLeader() && w.S.GetRaftCluster() != nil && w.S.GetRaftCluster().IsRunning()) {
		if time.Now().After(dl) {
			note("skipped, the member did not lead again within 20 s")
			return
		}
		time.Sleep(20 * time.Millisecond)
	}
	_, loaded := remaining()
	out.counts = append(out.counts, fmt.Sprintf("ttl:setting-still-in-etcd-at-the-new-term=%v", loaded))
	// ... until the key is gone from etcd
	dl = time.Now().Add(15 * time.Second)
	for {
		if _, ok := remaining(); !ok {
			break
		}
		if time.Now().After(dl) {
			note("skipped, the key did not expire within 15 s")
			return
		}
		time.Sleep(100 * time.Millisecond)
	}
	time.Sleep(400 * time.Millisecond)
	out.counts = append(out.counts, "ttl:history")
	replay := map[string]interface{}{"temporary-setting": key + "=0", "asked-ttl-seconds": asked.Seconds(), "leader-change-with-seconds-left": 2}
	hist := fmt.Sprintf("%s = 0 stored for %v, leadership reset with about 2 s left, the key has expired in etcd", key, asked)
	if got := w.S.GetPersistOptions().GetReplicaScheduleLimit(); got != persisted {
		out.viol = append(out.viol, res.Violation{Sig: "C10:expired-temporary-setting-still-in-force",
			Desc: fmt.Sprintf("%s; the leader still works with replica-schedule-limit %d (persisted value %d)", hist, got, persisted), Replay: replay})
	}
	if ops := check(); len(ops) == 0 {
		out.viol = append(out.viol, res.Violation{Sig: "C10:lifecycle:no-repair-although-target-exists",
			Desc: hist + "; CheckerController.CheckRegion proposes nothing for region {1,2} with max-replicas 3 although stores 3 and 4 are up, empty and have just reported", Replay: replay})
	}
	return
}

// ---- round 8: placement rules through the REAL HTTP API (api.NewHandler router, httptest) ----
// Accepted and REFUSED POST /config/rule requests for an existing rule.  ORACLE: the acknowledged rule set = the bodies of the
// requests answered 200.  After every request the rule the manager SERVES and the rule in storage (a fresh manager over the
// same storage) must equal the acknowledged one, and the real RuleChecker on the RaftCluster must add peers only on stores the
// acknowledged rule allows.
type ruleAPIRec struct {
	Accepted []string
	Refused  string
	Status   int
}

func consString(r *placement.Rule) string {
	if r == nil {
		return "<no rule>"
	}
	var xs []string
	for _, c := range r.LabelConstraints {
		xs = append(xs, fmt.Sprintf("%s %s %v", c.Key, c.Op, c.Values))
	}
	return fmt.Sprintf("role %s count %d constraints %v location-labels %v", r.Role, r.Count, xs, r.LocationLabels)
}

func runRuleAPI(R *res.Result, w *life10.World, master *rng.R, rounds int) {
	const n = 5
	h, _, err := api.NewHandler(context.Background(), w.S)
	if err != nil {
		R.Notes = append(R.Notes, "rule API histories skipped: "+err.Error())
		return
	}
	post := func(method, path, body string) int {
		rw := httptest.NewRecorder()
		h.ServeHTTP(rw, httptest.NewRequest(method, "/pd/api/v1"+path, strings.NewReader(body)))
		return rw.Code
	}
	zones := func(a, b, c int) string { return fmt.Sprintf(`["z%d","z%d","z%d"]`, a, b, c) }
	for k := 0; k < rounds; k++ {
		r := master.Fork(uint64(3000 + k))
		w.S.GetPersistOptions().SetPlacementRuleEnabled(true)
		w.Reset(n)
		rec := ruleAPIRec{}
		good := fmt.Sprintf(`{"group_id":"pd","id":"r1","role":"voter","count":3,"location_labels":["zone","host"],"label_constraints":[{"key":"zone","op":"in","values":%s}]}`, zones(1, 2, 3))
		if c := post("POST", "/config/rule", good); c != 200 {
			R.Notes = append(R.Notes, fmt.Sprintf("rule API histories skipped: the first rule was refused with %d", c))
			return
		}
		rec.Accepted = append(rec.Accepted, good)
		if c := post("DELETE", "/config/rule/pd/default", ""); c != 200 {
			R.Notes = append(R.Notes, fmt.Sprintf("rule API histories skipped: deleting pd/default answered %d", c))
			return
		}
		ack := &placement.Rule{}
		_ = json.Unmarshal([]byte(good), ack)
		// the refused update: same rule, other zones, other labels - and something that makes it invalid
		bad := []string{`"role":"voterr","count":3`, `"role":"voter","count":0`, `"role":"voter","count":3,"start_key":"zz"`}[r.Intn(3)]
		rec.Refused = fmt.Sprintf(`{"group_id":"pd","id":"r1",%s,"location_labels":["rack","disk"],"label_constraints":[{"key":"zone","op":"in","values":%s}]}`, bad, zones(4, 5, 5))
		rec.Status = post("POST", "/config/rule", rec.Refused)
		R.Count(fmt.Sprintf("rule-api:update-answered-%d", rec.Status))
		if rec.Status == 200 {
			_ = json.Unmarshal([]byte(rec.Refused), ack)
		}
		R.Count("rule-api:history")
		replay := map[string]interface{}{"rule-api": rec}
		hist := fmt.Sprintf("POST /config/rule %s answered 200, then POST /config/rule %s answered %d", good, rec.Refused, rec.Status)
		rc := w.S.GetRaftCluster()
		served := rc.GetRuleManager().GetRule("pd", "r1")
		fresh := placement.NewRuleManager(core.NewStorage(w.KV.Base), rc)
		if err := fresh.Initialize(3, nil); err != nil {
			panic(err)
		}
		stored := fresh.GetRule("pd", "r1")
		if consString(served) != consString(ack) {
			R.Violate("C10:refused-rule-update-changes-served-rule",
				fmt.Sprintf("%s; acknowledged rule: %s; the rule manager serves: %s; storage holds: %s", hist, consString(ack), consString(served), consString(stored)), replay)
		}
		if consString(stored) != consString(ack) {
			R.Violate("C10:refused-rule-update-changes-stored-rule",
				fmt.Sprintf("%s; acknowledged rule: %s; storage holds: %s", hist, consString(ack), consString(stored)), replay)
		}
		// region with two voters in z1, z2: the third has to go to a zone the acknowledged rule names
		meta := &metapb.Region{Id: 7000, StartKey: []byte("a"), EndKey: []byte("b"), RegionEpoch: &metapb.RegionEpoch{ConfVer: 5, Version: 5},
			Peers: []*metapb.Peer{{Id: 7001, StoreId: 1}, {Id: 7002, StoreId: 2}}}
		region := core.NewRegionInfo(meta, meta.Peers[0], core.SetApproximateSize(10), core.SetApproximateKeys(100))
		w.S.GetBasicCluster().PutRegion(region)
		for i := uint64(1); i <= n; i++ {
			_ = w.Heartbeat(i, 10)
		}
		op := checker.NewRuleChecker(rc, rc.GetRuleManager(), cache.NewDefaultCache(16)).Check(region)
		if op == nil {
			R.Count("rule-api:no-operator")
			continue
		}
		R.Count("rule-api:" + op.Desc())
		tr := sim10.Run(region, op)
		for _, p := range tr.Final().Peers {
			if p.Store == 1 || p.Store == 2 {
				continue
			}
			ok := false
			for _, c := range ack.LabelConstraints {
				for _, v := range c.Values {
					ok = ok || v == fmt.Sprintf("z%d", p.Store)
				}
			}
			if !ok {
				R.Violate("C10:lifecycle:target-violates-acknowledged-rules",
					fmt.Sprintf("%s; RuleChecker.Check: %s adds a peer on store %d (zone z%d), the acknowledged rule is %s", hist, sim10.Summary(op), p.Store, p.Store, consString(ack)), replay)
			}
		}
	}
	w.S.GetPersistOptions().SetPlacementRuleEnabled(false)
}
