package main

// Store life-cycle histories on a real server (round 6, harness/internal/life10): the store records the checkers read are
// produced by the real store API - registration and re-registration, store delete, store up, label updates, heartbeats - in
// generated orders, some calls overlapping (the storage write of one call held back while a second call for the same store is
// started).  Oracles: the served and the stored record of every store equal the ACKNOWLEDGED one, and every peer the real
// ReplicaChecker / RuleChecker adds afterwards sits on a store that is Up according to the acknowledged record.

import (
	"fmt"

	"github.com/pingcap/kvproto/pkg/metapb"
	"github.com/tikv/pd/pkg/cache"
	"github.com/tikv/pd/server/core"
	"github.com/tikv/pd/server/schedule/checker"
	"github.com/tikv/pd/server/schedule/operator"

	"pdverif/internal/life10"
	"pdverif/internal/res"
	"pdverif/internal/rng"
	"pdverif/internal/sim10"
)

func runLifecycles(R *res.Result, seed uint64, rounds int) {
	w, err := life10.Start()
	if err != nil {
		R.Notes = append(R.Notes, "store life-cycle histories skipped: real server did not start: "+err.Error())
		return
	}
	defer w.Close()
	master := rng.New(seed ^ 0xC10C10)
	const n = 4
	for k := 0; k < rounds; k++ {
		r := master.Fork(uint64(k))
		rules := r.Pct(50)
		w.S.GetPersistOptions().SetPlacementRuleEnabled(rules)
		w.Reset(n)
		h := life10.Generate(r, n)
		failed := w.Run(h)
		R.Count("lifecycle:history")
		replay := map[string]interface{}{"lifecycle": h, "rules": rules, "refused": failed}
		for _, d := range w.Diffs() {
			R.Violate("C10:store-record-differs-from-acknowledged", d+" (history: "+life10.Describe(h)+")", replay)
		}
		// a region with two voters on stores that are Up as acknowledged; the checker has to add a third
		var up []uint64
		for id := uint64(1); id <= n; id++ {
			if w.Ack[id].State == metapb.StoreState_Up {
				up = append(up, id)
			}
		}
		if len(up) < 2 {
			R.Count("lifecycle:fewer-than-two-up")
			continue
		}
		off := r.Intn(len(up))
		a, b := up[off], up[(off+1)%len(up)]
		meta := &metapb.Region{Id: 7000, StartKey: []byte("a"), EndKey: []byte("b"), RegionEpoch: &metapb.RegionEpoch{ConfVer: 5, Version: 5},
			Peers: []*metapb.Peer{{Id: 7001, StoreId: a}, {Id: 7002, StoreId: b}}}
		region := core.NewRegionInfo(meta, meta.Peers[0], core.SetApproximateSize(10), core.SetApproximateKeys(100))
		w.S.GetBasicCluster().PutRegion(region)
		var op *operator.Operator
		name := "ReplicaChecker.Check"
		if rules {
			name = "RuleChecker.Check"
			op = checker.NewRuleChecker(w.RC, w.RC.GetRuleManager(), cache.NewDefaultCache(16)).Check(region)
		} else {
			op = checker.NewReplicaChecker(w.RC, cache.NewDefaultCache(16)).Check(region)
		}
		if op == nil {
			R.Count("lifecycle:no-operator")
			continue
		}
		R.Count("lifecycle:" + op.Desc())
		tr := sim10.Run(region, op)
		for _, p := range tr.Final().Peers {
			if p.Store == a || p.Store == b {
				continue
			}
			if ak := w.Ack[p.Store]; ak == nil || ak.State != metapb.StoreState_Up {
				st := "unknown"
				if ak != nil {
					st = ak.State.String()
				}
				R.Violate("C10:lifecycle:target-not-up-as-acknowledged",
					fmt.Sprintf("%s: %s adds a peer on store %d, whose acknowledged state is %s (history: %s)", name, sim10.Summary(op), p.Store, st, life10.Describe(h)), replay)
			}
		}
	}
}
