// Driver for C10: runs the REAL ReplicaChecker / RuleChecker (and CheckerController.CheckRegion) on generated
// mock clusters, applies every returned operator step by step with harness/internal/sim10, and prints
// (input as the real objects show it, implementation result) as Coq terms for model/C10_Checker.v.
package main

import (
	"context"
	"encoding/json"
	"flag"
	"fmt"
	"math/rand"
	"os"
	"path"
	"runtime/debug"
	"strings"

	"github.com/pingcap/kvproto/pkg/metapb"
	"github.com/pingcap/kvproto/pkg/pdpb"
	"github.com/pingcap/log"
	"github.com/tikv/pd/pkg/cache"
	"github.com/tikv/pd/server/core"
	"github.com/tikv/pd/server/schedule"
	"github.com/tikv/pd/server/schedule/checker"
	"github.com/tikv/pd/server/schedule/hbstream"
	"github.com/tikv/pd/server/schedule/operator"
	"github.com/tikv/pd/server/schedule/opt"
	"go.uber.org/zap"

	"pdverif/internal/coqfmt"
	"pdverif/internal/gen10"
	"pdverif/internal/res"
	"pdverif/internal/rng"
	"pdverif/internal/sim10"
)

type nbrSpec struct {
	ID      uint64
	Peers   []gen10.PeerSpec
	Down    []int
	Pending []int
	Size    int64
}

type relabelSpec struct {
	Store  uint64
	Labels [][2]string
}

type caseRec struct {
	Relabel *relabelSpec // rule entry: check once, relabel this store, check the SAME region object again on the same checker
	Nbrs    []nbrSpec    // neighbour regions (merge checker behind CheckRegion)
	Spec    gen10.ClusterSpec
	Entry   string // "replica" | "rule" | "controller"
	Result  string // summary of the implementation's answer
}

// buildMenv installs the neighbour regions and prints what the merge checker and fixRange read (real values)
func buildMenv(bt *gen10.Built, entry string, nbrs []nbrSpec) string {
	tc := bt.TC
	region := bt.Region
	for _, n := range nbrs {
		meta := &metapb.Region{Id: n.ID, StartKey: []byte(fmt.Sprintf("%020d", n.ID)), EndKey: []byte(fmt.Sprintf("%020d", n.ID+1)),
			RegionEpoch: &metapb.RegionEpoch{ConfVer: 5, Version: 5}}
		for _, p := range n.Peers {
			meta.Peers = append(meta.Peers, p.Meta())
		}
		var down []*pdpb.PeerStats
		for _, i := range n.Down {
			down = append(down, &pdpb.PeerStats{Peer: meta.Peers[i], DownSeconds: 4000})
		}
		var pend []*metapb.Peer
		for _, i := range n.Pending {
			pend = append(pend, meta.Peers[i])
		}
		tc.PutRegion(core.NewRegionInfo(meta, meta.Peers[0], core.WithDownPeers(down), core.WithPendingPeers(pend),
			core.SetApproximateSize(n.Size), core.SetApproximateKeys(1000)))
	}
	bl := func(v bool) string {
		if v {
			return "true"
		}
		return "false"
	}
	o := tc.GetOpts()
	split := false
	if o.IsPlacementRulesEnabled() {
		split = len(tc.RuleManager.GetSplitKeys(region.GetStartKey(), region.GetEndKey())) > 0
	}
	if entry != "controller" {
		return fmt.Sprintf("(MEnv false 0 false false false %s None None)", bl(split))
	}
	tc.SetSplitMergeInterval(0) // the merge checker is active at once
	nb := func(n *core.RegionInfo) string {
		if n == nil {
			return "None"
		}
		return fmt.Sprintf("(Some (Nbr %s %d %d %s %s %s %d))", gen10.CoqPeerList(n.GetPeers()), len(n.GetDownPeers()), len(n.GetPendingPeers()),
			bl(checker.AllowMerge(tc, region, n)), bl(tc.IsRegionHot(n)), bl(opt.IsRegionReplicated(tc, n)), n.GetApproximateSize())
	}
	prev, next := tc.GetAdjacentRegions(region)
	small := region.GetApproximateSize() <= int64(o.GetMaxMergeRegionSize()) && region.GetApproximateKeys() <= int64(o.GetMaxMergeRegionKeys())
	return fmt.Sprintf("(MEnv %s %d %s %s %s %s %s %s)", bl(o.GetMergeScheduleLimit() > 0), region.GetApproximateSize(), bl(small), bl(tc.IsRegionHot(region)),
		bl(o.IsOneWayMergeEnabled()), bl(split), nb(prev), nb(next))
}

func genNbrs(r *rng.R, spec gen10.ClusterSpec) []nbrSpec {
	var out []nbrSpec
	next := uint64(5001)
	mk := func(id uint64) nbrSpec {
		n := nbrSpec{ID: id, Size: 10}
		if r.Pct(10) {
			n.Size = 600
		}
		if r.Pct(55) {
			for _, p := range spec.Region.Peers {
				n.Peers = append(n.Peers, gen10.PeerSpec{ID: next, Store: p.Store, Role: p.Role % 2})
				next++
			}
		} else {
			k := spec.Cfg.MaxReplicas
			if r.Pct(15) {
				k--
			}
			perm := r.Intn(len(spec.Stores))
			for j := 0; j < k && j < len(spec.Stores); j++ {
				n.Peers = append(n.Peers, gen10.PeerSpec{ID: next, Store: spec.Stores[(perm+j)%len(spec.Stores)].ID})
				next++
			}
			if len(n.Peers) > 1 && r.Pct(10) {
				n.Peers[len(n.Peers)-1].Role = 1
			}
		}
		if len(n.Peers) == 0 {
			n.Peers = []gen10.PeerSpec{{ID: next, Store: spec.Stores[0].ID}}
			next++
		}
		for j := range n.Peers {
			if j > 0 && r.Pct(5) {
				n.Down = append(n.Down, j)
			} else if j > 0 && r.Pct(5) {
				n.Pending = append(n.Pending, j)
			}
		}
		return n
	}
	if r.Pct(75) {
		id := spec.Region.ID + 1
		if r.Pct(10) {
			id++ // a gap: not adjacent
		}
		out = append(out, mk(id))
	}
	if r.Pct(40) {
		out = append(out, mk(spec.Region.ID-1))
	}
	return out
}

func stageOf(desc string, rules bool) string {
	switch desc {
	case "replace-down-replica":
		return "StDown"
	case "replace-offline-replica":
		return "StOffline"
	case "remove-extra-down-replica":
		return "StExtraDown"
	case "remove-extra-offline-replica":
		return "StExtraOffline"
	case "make-up-replica":
		return "StMakeUp"
	case "remove-extra-replica":
		return "StExtra"
	case "move-to-better-location":
		if rules {
			return "StRuleLocation"
		}
		return "StLocation"
	case "remove-orphan-peer":
		return "StOrphan"
	case "add-rule-peer":
		return "StRuleAdd"
	case "replace-rule-down-peer", "replace-rule-down-leader-peer":
		return "StRuleDown"
	case "replace-rule-offline-peer", "replace-rule-offline-leader-peer":
		return "StRuleOffline"
	case "fix-peer-role", "fix-leader-role", "fix-follower-role":
		return "StRuleRole"
	case "rule-split-region":
		return "StSplit"
	case "leave-joint-state":
		return "StJoint"
	case "promote-learner":
		return "StLearner"
	case "merge-region":
		return "StMerge"
	}
	return "StOther"
}

type outcome struct {
	coq     string // Coq term of the case
	summary string
	nontriv bool
	tags    []string
	viol    []res.Violation
}

func runCase(spec gen10.ClusterSpec, entry string, nbrs []nbrSpec, relabel *relabelSpec) (o outcome) {
	bt := gen10.Build(spec)
	defer bt.Cancel()
	menv := buildMenv(bt, entry, nbrs)
	if bt.RestartDiff != "" {
		o.viol = append(o.viol, res.Violation{Sig: "C10:rule-manager-restart-changes-placement-fit", Desc: bt.RestartDiff,
			Replay: map[string]interface{}{"Spec": spec, "Entry": entry, "Nbrs": nbrs}})
	}
	// differential check of every store predicate read back from the real objects against the independent oracle
	for _, d := range bt.PredicateDiffs() {
		sig := "C10:store-predicate-misjudged:" + d[0]
		if d[0] == "reject-leader" {
			sig = "C10:reject-leader-property-misjudged"
		}
		o.viol = append(o.viol, res.Violation{Sig: sig, Desc: d[1], Replay: map[string]interface{}{"Spec": spec, "Entry": entry, "Nbrs": nbrs}})
	}
	var op *operator.Operator
	rules := bt.TC.GetOpts().IsPlacementRulesEnabled()
	coqEntry := "EReplica"
	if rules {
		coqEntry = "ERule"
	}
	if entry == "controller" {
		coqEntry = "EController"
	}
	// print the input BEFORE running the checker (the checkers do not mutate the cluster, but the fit must be the one they see)
	input := bt.CoqInput(coqEntry, menv)
	_, fit := bt.CoqFit()
	judge := func(l [][2]string) {
		for _, d := range l {
			o.viol = append(o.viol, res.Violation{Sig: d[0], Desc: d[1], Replay: map[string]interface{}{"Spec": spec, "Entry": entry, "Nbrs": nbrs, "Relabel": relabel}})
		}
	}
	if relabel == nil {
		judge(judgeFit(spec, fit))
	}
	defer func() {
		// a checker that crashes on the input: reported as a violation with the panic site, no Coq case
		if e := recover(); e != nil {
			site := "unknown"
			for _, l := range strings.Split(string(debug.Stack()), "\n") {
				// first PD frame of the stack: "github.com/tikv/pd/server/schedule/checker.(*RuleChecker).fixLooseMatchPeer(...)"
				if i := strings.Index(l, "github.com/tikv/pd/server/schedule"); i == 0 {
					f := l[strings.LastIndex(l, "/")+1:]
					if j := strings.Index(f, "("); j >= 0 && strings.HasPrefix(f[j:], "(*") {
						f = f[j+2:]
						f = strings.Replace(f, ")", "", 1)
					} else if k := strings.Index(f, "."); k >= 0 {
						f = f[k+1:]
					}
					if j := strings.Index(f, "("); j >= 0 {
						f = f[:j]
					}
					site = f
					break
				}
			}
			o = outcome{summary: fmt.Sprintf("PANIC %v", e), tags: []string{"result:panic"},
				viol: []res.Violation{{Sig: "C10:checker-panics:" + site, Desc: fmt.Sprintf("the checker panics (%v) on entry %s", e, entry),
					Replay: map[string]interface{}{"Spec": spec, "Entry": entry, "Nbrs": nbrs, "Relabel": relabel}}}}
		}
	}()
	switch entry {
	case "controller":
		ctx, cancel := context.WithCancel(context.Background())
		hb := hbstream.NewTestHeartbeatStreams(ctx, bt.TC.ID, bt.TC, false)
		oc := schedule.NewOperatorController(ctx, bt.TC, hb)
		cc := schedule.NewCheckerController(ctx, bt.TC, bt.TC.RuleManager, oc)
		ops := cc.CheckRegion(bt.Region)
		cancel()
		for _, x := range ops {
			if x.RegionID() == bt.Region.GetID() && op == nil {
				op = x
			}
		}
	default:
		if rules {
			rc := checker.NewRuleChecker(bt.TC, bt.TC.RuleManager, cache.NewDefaultCache(16))
			if relabel != nil {
				// first check with the old labels (its operator is dropped, as by the store limit), then the labels of a store change,
				// then the SAME region object is checked again by the SAME checker: it has to act on the fit of the new labels
				_ = rc.Check(bt.Region)
				if st := bt.TC.GetStore(relabel.Store); st != nil {
					var ls []*metapb.StoreLabel
					for _, l := range relabel.Labels {
						ls = append(ls, &metapb.StoreLabel{Key: l[0], Value: l[1]})
					}
					bt.TC.PutStore(st.Clone(core.SetStoreLabels(ls)))
					for i := range bt.Spec.Stores {
						if bt.Spec.Stores[i].ID == relabel.Store {
							bt.Spec.Stores[i].Labels = relabel.Labels
						}
					}
					input = bt.CoqInput(coqEntry, menv) // the fit is computed afresh by the real FitRegion for the new labels
				}
			}
			op = rc.Check(bt.Region)
		} else {
			op = checker.NewReplicaChecker(bt.TC, cache.NewDefaultCache(16)).Check(bt.Region)
		}
	}
	deviates := len(spec.Region.Peers) != spec.Cfg.MaxReplicas || len(spec.Region.Down) > 0
	for _, p := range spec.Region.Peers {
		for _, s := range spec.Stores {
			if s.ID == p.Store && (s.State != 0 || s.HB != 0) {
				deviates = true
			}
		}
	}
	if op == nil {
		o.coq = "(" + input + ",\n  None)"
		o.summary = "none"
		o.nontriv = deviates
		o.tags = append(o.tags, "result:none")
		return o
	}
	tr := sim10.Run(bt.Region, op)
	st := stageOf(op.Desc(), rules)
	if entry != "controller" && relabel == nil {
		// round 8: the same check while the id allocator fails (gen10.FaultCluster): an operator that needs a new peer id cannot
		// be built - the checker has to return none; an operator that needs none is the same as before
		fc := &gen10.FaultCluster{Cluster: bt.TC, FailFrom: 1}
		var op1 *operator.Operator
		if rules {
			op1 = checker.NewRuleChecker(fc, bt.TC.RuleManager, cache.NewDefaultCache(16)).Check(bt.Region)
		} else {
			op1 = checker.NewReplicaChecker(fc, cache.NewDefaultCache(16)).Check(bt.Region)
		}
		needsID := false
		for i := 0; i < op.Len(); i++ {
			switch op.Step(i).(type) {
			case operator.AddPeer, operator.AddLearner, operator.AddLightPeer, operator.AddLightLearner:
				needsID = true
			}
		}
		if op1 != nil && op1.Len() > 0 && (op1.Desc() != op.Desc() || !needsID) {
			// either the repair needs no new id at all (ties between equal candidates are broken at random: not compared), or
			// the repair that needs an id could not be built and the checker went on to another repair that needs none
			// (e.g. fix-peer-role after replace-rule-offline-peer): fine
			o.tags = append(o.tags, "alloc-fault:other-repair")
		} else if op1 != nil {
			// a repair of the kind that adds a peer, or an operator without steps: built although its ids could not be allocated
			o.tags = append(o.tags, "alloc-fault:operator-differs")
			tr1 := sim10.Run(bt.Region, op1)
			sig := "C10:alloc-fault:operator-built-without-its-ids"
			if len(tr1.Final().Peers) < len(bt.Region.GetPeers()) && len(tr.Final().Peers) >= len(bt.Region.GetPeers()) {
				sig = "C10:alloc-fault:replica-removed-without-replacement"
			}
			o.viol = append(o.viol, res.Violation{Sig: sig,
				Desc:   fmt.Sprintf("with a working id allocator: %s; while AllocID fails: %s (%d steps)", sim10.Summary(op), sim10.Summary(op1), op1.Len()),
				Replay: map[string]interface{}{"Spec": spec, "Entry": entry, "Nbrs": nbrs, "AllocIDFails": true}})
		} else if op1 == nil {
			o.tags = append(o.tags, "alloc-fault:none")
		} else {
			o.tags = append(o.tags, "alloc-fault:same-operator")
		}
	}
	if op.Desc() == "remove-orphan-peer" && relabel == nil {
		for i := 0; i < op.Len(); i++ {
			if rp, ok := op.Step(i).(operator.RemovePeer); ok {
				judge(judgeOrphanRemoval(spec, fit, rp.FromStore))
			}
		}
	}
	o.tags = append(o.tags, "result:"+op.Desc())
	o.summary = sim10.Summary(op)
	o.nontriv = true
	final := tr.Final()
	if tr.Err != "" {
		o.tags = append(o.tags, "sim:step-rejected")
	}
	for _, a := range tr.Anomalies {
		o.viol = append(o.viol, res.Violation{Sig: "C10:step-disagrees-with-own-CheckSafety-or-IsFinish", Desc: a + " in " + o.summary,
			Replay: map[string]interface{}{"Spec": spec, "Entry": entry, "Nbrs": nbrs}})
	}
	// target store features for the histogram
	before := map[uint64]bool{}
	for _, p := range bt.Region.GetPeers() {
		before[p.GetStoreId()] = true
	}
	for _, p := range final.Peers {
		if !before[p.Store] {
			if s := bt.TC.GetStore(p.Store); s != nil {
				f := bt.Flags(s)
				o.tags = append(o.tags, fmt.Sprintf("target:%s,down=%v,disc=%v,low=%v", f.State, f.Down, f.Disc, f.Low))
			}
		}
	}
	o.coq = fmt.Sprintf("(%s,\n  Some (ImplOp %s %s %s))", input, st, sim10.CoqSteps(tr.Steps), sim10.CoqState(final))
	return o
}

func main() {
	seed := flag.Uint64("seed", 1, "")
	n := flag.Int("n", 1500, "number of generated cases")
	out := flag.String("out", ".", "output directory")
	tier := flag.String("tier", "quick", "")
	corpus := flag.String("corpus", "", "json file of fixed cases run first")
	replay := flag.String("replay", "", "json file with cases: run and print what the implementation answers")
	flag.Parse()
	log.ReplaceGlobals(zap.NewNop(), nil)
	rand.Seed(int64(*seed)) // PD's own uses of math/rand (RandomPick, Rand*Region); Go map order stays free: the models are set-valued

	R := res.New("C10", *seed, *tier)
	// the temporary-setting history needs real seconds (an etcd lease has to run out): it runs beside the generated cases
	ttlDone := make(chan ttlOutcome, 1)
	if *replay == "" {
		go func() { ttlDone <- runTTLHistory(*seed) }()
	}
	R.Rule = "generated clusters (3-9 stores with every state the filters read, 2-level labels incl. case variants and empty values, " +
		"special-use/engine labels, reject-leader property), max-replicas 1-5, location labels / isolation level, a region with learners, down and " +
		"pending peers, optionally 1-3 placement rules with constraints; a malformed stream (no leader, foreign leader, joint-state roles, peers or down " +
		"peers on unknown stores). The real ReplicaChecker/RuleChecker/CheckerController runs on a mockcluster built from the case; store predicates, the " +
		"region and the placement fit are read back from the real objects. non-trivial = an operator was returned, or none was returned although the region " +
		"deviates from the configuration (peer count != max-replicas, a down peer, or a peer on a store that is not up and fresh); distinct by sha256 of the Coq term"
	cf := &coqfmt.CaseFile{Dir: *out, Prefix: "C10", PerFile: 100,
		Header: "From PDV Require Import lib.C10_Cluster model.C10_Checker.\nLocal Open Scope string_scope.\nLocal Open Scope Z_scope.\n",
		Type:   "case",
		Footer: "Definition M := Eval vm_compute in map fst (mismatches cases).\nDefinition D := Eval vm_compute in hd_error (mismatches cases).\nDefinition V := Eval vm_compute in monitor_fails cases.\nPrint M. Print D. Print V.\n"}

	var all []caseRec
	emit := func(spec gen10.ClusterSpec, entry string, nbrs []nbrSpec, relabel *relabelSpec) outcome {
		o := runCase(spec, entry, nbrs, relabel)
		for _, t := range spec.Tags {
			R.Count(t)
		}
		for _, t := range o.tags {
			R.Count(t)
		}
		R.Count("entry:" + entry)
		for _, v := range o.viol {
			R.Violate(v.Sig, v.Desc, v.Replay)
		}
		if o.coq == "" {
			return o // no Coq case (cases.json stays aligned with the case files)
		}
		R.Case(o.coq, o.nontriv)
		for _, v := range o.viol {
			R.Violate(v.Sig, v.Desc, v.Replay)
		}
		R.Sample(map[string]interface{}{"entry": entry, "result": o.summary, "spec": spec})
		if err := cf.Add(o.coq); err != nil {
			panic(err)
		}
		all = append(all, caseRec{relabel, nbrs, spec, entry, o.summary})
		return o
	}
	for _, f := range []string{*corpus, *replay} {
		if f == "" {
			continue
		}
		b, err := os.ReadFile(f)
		if err != nil {
			panic(err)
		}
		var l []caseRec
		if err := json.Unmarshal(b, &l); err != nil {
			// a replay file written by bin/check: {"replay": {...}}
			var w struct{ Replay caseRec }
			if err2 := json.Unmarshal(b, &w); err2 != nil {
				panic(err)
			}
			l = []caseRec{w.Replay}
		}
		for _, c := range l {
			o := emit(c.Spec, c.Entry, c.Nbrs, c.Relabel)
			if f == *replay {
				fmt.Printf("entry=%s result: %s\n%s\n", c.Entry, o.summary, o.coq)
			}
		}
	}
	if *replay == "" {
		master := rng.New(*seed)
		for k := 0; k < *n; k++ {
			r := master.Fork(uint64(k))
			opt := gen10.GenOpt{RulesPct: 40, Malformed: k%6 == 5, TiFlashPct: 4, HealthyBias: 35}
			spec := gen10.Generate(r, opt)
			entry := "replica"
			if spec.Cfg.Rules {
				entry = "rule"
			}
			if r.Pct(25) {
				entry = "controller" // CheckerController.CheckRegion: joint-state / learner checker in front, merge checker behind
			}
			var nbrs []nbrSpec
			if entry == "controller" {
				nbrs = genNbrs(r, spec)
			}
			var relabel *relabelSpec
			if entry == "rule" && r.Pct(35) {
				// relabel a store that holds a peer of the region (new zone / host values, sometimes none)
				p := spec.Region.Peers[r.Intn(len(spec.Region.Peers))]
				rl := &relabelSpec{Store: p.Store}
				if r.Pct(85) {
					rl.Labels = append(rl.Labels, [2]string{"zone", "z" + fmt.Sprint(1+r.Intn(4))})
				}
				if r.Pct(70) {
					rl.Labels = append(rl.Labels, [2]string{"host", "h" + fmt.Sprint(1+r.Intn(3))})
				}
				relabel = rl
			}
			emit(spec, entry, nbrs, relabel)
		}
	}
	if *replay == "" {
		runReelections(R, *seed, 8)
		runLifecycles(R, *seed, 24)
		t := <-ttlDone
		for _, c := range t.counts {
			R.Count(c)
		}
		R.Notes = append(R.Notes, t.notes...)
		for _, v := range t.viol {
			R.Violate(v.Sig, v.Desc, v.Replay)
		}
	}
	if err := cf.Flush(); err != nil {
		panic(err)
	}
	R.CaseFiles = cf.Files
	b, _ := json.Marshal(all)
	os.WriteFile(path.Join(*out, "cases.json"), b, 0o644)
	if err := R.Write(path.Join(*out, "result.json")); err != nil {
		panic(err)
	}
	_ = strings.Join
}
