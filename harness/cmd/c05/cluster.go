// Cluster phase of the C05 driver: a real three-member PD cluster (one member per datacenter, Local TSO enabled,
// real gRPC between the members), datacenters joining later and the PD leadership moving - the part of the
// property's quantifier ("datacenters joining later, allocator leaders co-located or not") a single server cannot show.
package main

import (
	"context"
	"fmt"
	"os"
	"strings"
	"sync"
	"time"

	"github.com/pingcap/kvproto/pkg/pdpb"
	"github.com/pingcap/log"
	"github.com/tikv/pd/pkg/grpcutil"
	"github.com/tikv/pd/pkg/typeutil"
	"github.com/tikv/pd/server"
	"github.com/tikv/pd/server/config"
	"github.com/tikv/pd/server/tso"
	"go.uber.org/zap"
	"go.uber.org/zap/zapcore"
	"google.golang.org/grpc"

	"pdverif/internal/res"
	"pdverif/internal/srv15"
)

type node struct {
	s      *server.Server
	cfg    *config.Config
	cancel context.CancelFunc
}

type cluster struct {
	nodes  []*node
	holder map[string]*node // dc-location -> member serving its Local TSO
}

func (c *cluster) close() {
	for _, x := range c.nodes {
		if x != nil {
			x.s.Close()
			x.cancel()
			os.RemoveAll(x.cfg.DataDir)
		}
	}
}

func (c *cluster) leader() *node {
	for _, x := range c.nodes {
		if !x.s.IsClosed() && x.s.GetMember().IsLeader() {
			return x
		}
	}
	return nil
}

func serves(x *node, dc string) bool {
	a, err := x.s.GetTSOAllocatorManager().GetAllocator(dc)
	if err != nil || !a.IsInitialize() {
		return false
	}
	l, ok := a.(*tso.LocalTSOAllocator)
	return ok && l.IsAllocatorLeader()
}

// refresh recomputes who serves which dc; true when every dc of the list is served by exactly one member
func (c *cluster) refresh(dcs []string) bool {
	c.holder = map[string]*node{}
	for _, dc := range dcs {
		for _, x := range c.nodes {
			if serves(x, dc) {
				c.holder[dc] = x
			}
		}
	}
	return len(c.holder) == len(dcs)
}

// transfer asks `from` (which serves dc) to hand the allocator of dc to the member `to` - pd-ctl "transfer allocator". The new
// leader of an earlier transfer removes the next-leader key right AFTER it started serving: a request that arrives in between
// is refused with a conflict and simply sent again, as an operator would.
func transfer(from *node, dc string, to uint64) error {
	var err error
	for try := 0; try < 40; try++ {
		err = from.s.GetTSOAllocatorManager().TransferAllocatorForDCLocation(dc, to)
		if err == nil || !strings.Contains(err.Error(), "ErrEtcdTxnConflict") {
			return err
		}
		time.Sleep(50 * time.Millisecond)
	}
	return err
}

func waitFor(d time.Duration, f func() bool) bool {
	deadline := time.Now().Add(d)
	for time.Now().Before(deadline) {
		if f() {
			return true
		}
		time.Sleep(20 * time.Millisecond)
	}
	return f()
}

func startCluster(n int) (*cluster, error) {
	cfgs := make([]*config.Config, n)
	var peers []string
	for i := 0; i < n; i++ {
		cfg, err := srv15.Config()
		if err != nil {
			return nil, err
		}
		cfg.Name = fmt.Sprintf("pd%d", i+1)
		cfg.EnableLocalTSO = true
		cfg.Labels = map[string]string{config.ZoneLabel: fmt.Sprintf("dc-%d", i+1)}
		cfg.TSOUpdatePhysicalInterval = typeutil.NewDuration(50 * time.Millisecond)
		cfgs[i] = cfg
		peers = append(peers, fmt.Sprintf("%s=%s", cfg.Name, cfg.PeerUrls))
	}
	for _, c := range cfgs {
		c.InitialCluster = strings.Join(peers, ",")
	}
	c := &cluster{nodes: make([]*node, n)}
	errs := make([]error, n)
	var wg sync.WaitGroup
	for i := range cfgs {
		wg.Add(1)
		go func(i int) {
			defer wg.Done()
			ctx, cancel := context.WithCancel(context.Background())
			s, err := server.CreateServer(ctx, cfgs[i])
			if err == nil {
				err = s.Run()
			}
			srv15.Quiet()
			if err != nil {
				cancel()
				errs[i] = err
				return
			}
			c.nodes[i] = &node{s: s, cfg: cfgs[i], cancel: cancel}
		}(i)
	}
	wg.Wait()
	for _, e := range errs {
		if e != nil {
			c.close()
			return nil, e
		}
	}
	return c, nil
}

func tsLess(a, b pdpb.Timestamp) bool {
	return a.Physical < b.Physical || (a.Physical == b.Physical && a.Logical < b.Logical)
}

// clusterPhase: see the comments at each step. Machinery problems (the cluster does not come up in time) are recorded
// as notes and never reported as violations.
type prepared struct {
	c    *cluster
	L, T *node
	why  string // non-empty: the set-up did not complete (machinery, never a violation)
}

// prepareCluster runs the set-up (start, move allocators and PD leadership) - mostly waiting - so that the driver can
// do it in the background while the single-server cases run.
func prepareCluster() *prepared {
	p := &prepared{}
	skip := func(why string) { p.why = why }
	c, err := startCluster(3)
	if err != nil {
		skip("start: " + err.Error())
		return p
	}
	p.c = c
	dcs := []string{"dc-1", "dc-2", "dc-3"}
	if !waitFor(90*time.Second, func() bool { return c.leader() != nil && c.refresh(dcs) }) {
		skip("no PD leader or not every dc served after 90 s")
		return p
	}
	L := c.leader()
	// T: another member; it will become PD leader while it serves no Local TSO at all
	var T *node
	for _, x := range c.nodes {
		if x != L {
			T = x
			break
		}
	}
	// pd-ctl "transfer allocator": what T serves goes to L
	drain := func() string {
		for _, dc := range dcs {
			if !serves(T, dc) {
				continue
			}
			if err := transfer(T, dc, L.s.GetMember().ID()); err != nil {
				return "transfer " + dc + ": " + err.Error()
			}
			if !waitFor(75*time.Second, func() bool { return serves(L, dc) && !serves(T, dc) }) {
				return "allocator of " + dc + " did not move within 75 s"
			}
		}
		return ""
	}
	if why := drain(); why != "" {
		skip(why)
		return p
	}
	// pd-ctl "member leader transfer": PD leadership L -> T
	ctx, cancel := context.WithTimeout(context.Background(), 10*time.Second)
	err = L.s.GetMember().ResignEtcdLeader(ctx, L.cfg.Name, T.cfg.Name)
	cancel()
	if err != nil {
		skip("resign: " + err.Error())
		return p
	}
	if !waitFor(60*time.Second, func() bool { return c.leader() == T && c.refresh(dcs) }) {
		skip("PD leadership did not move to the chosen member within 60 s")
		return p
	}
	if why := drain(); why != "" {
		skip(why)
		return p
	}
	if !waitFor(30*time.Second, func() bool { return c.leader() == T && c.refresh(dcs) }) {
		skip("not every dc served after the allocators moved")
		return p
	}
	for _, dc := range dcs {
		if c.holder[dc] == T {
			skip("the new PD leader serves a Local TSO again")
			return p
		}
	}
	p.L, p.T = L, T
	return p
}

// rpcGate holds back the next SyncMaxTS request the PD leader sends (a slow RPC: the code allows 3 s per request).
type rpcGate struct {
	mu      sync.Mutex
	armed   int
	parked  chan struct{}
	release chan struct{}
}

func (g *rpcGate) intercept(ctx context.Context, method string, req, reply interface{}, cc *grpc.ClientConn, invoker grpc.UnaryInvoker, opts ...grpc.CallOption) error {
	if strings.HasSuffix(method, "/SyncMaxTS") {
		g.mu.Lock()
		a := g.armed > 0
		if a {
			g.armed--
		}
		g.mu.Unlock()
		if a {
			g.parked <- struct{}{}
			<-g.release
		}
	}
	return invoker(ctx, method, req, reply, cc, opts...)
}

// joinTrace is the history of the cluster phase in the vocabulary of model/C05_Join.v (members: 0 = the new PD leader,
// 1 = the first PD leader, 2 = the third member) together with (who, suffix, width) of every answer; Coq replays it.
type joinTrace struct {
	labels, obs []string
	width       map[int]uint32 // member -> width last seen in one of its answers
	idx         map[*node]int
	dcOf        func(string) int
}

func (j *joinTrace) answer(who string, member *node, suffix int32, ts pdpb.Timestamp, label string) {
	m := j.idx[member]
	if w, ok := j.width[m]; ok && w != ts.SuffixBits {
		j.labels = append(j.labels, fmt.Sprintf("JCheckFollower %d", m)) // the member's periodic checker ran meanwhile
	}
	j.width[m] = ts.SuffixBits
	j.labels = append(j.labels, label)
	j.obs = append(j.obs, fmt.Sprintf("(%s, %d, %d)", who, suffix, ts.SuffixBits))
}

var joinCase *joinTrace

func clusterPhase(R *res.Result, p *prepared) {
	skip := func(why string) { R.Notes = append(R.Notes, "cluster phase incomplete: "+why) }
	tPhase := time.Now()
	defer func() { R.CountN("cluster:phase-seconds", int(time.Since(tPhase).Seconds())) }()
	if p.c != nil {
		defer p.c.close()
	}
	if p.why != "" {
		skip(p.why)
		return
	}
	c, T := p.c, p.T
	dcs := []string{"dc-1", "dc-2", "dc-3"}
	c.refresh(dcs)
	tam := T.s.GetTSOAllocatorManager()
	jt := &joinTrace{width: map[int]uint32{}, idx: map[*node]int{T: 0, p.L: 1}}
	for _, x := range c.nodes {
		if x != T && x != p.L {
			jt.idx[x] = 2
		}
	}
	dcnum := func(dc string) int { var n int; fmt.Sscanf(dc, "dc-%d", &n); return n }
	sfx0 := tam.GetClusterDCLocations()
	bySuffix := func(names []string) []string {
		out := append([]string{}, names...)
		for i := range out {
			for k := i + 1; k < len(out); k++ {
				if tam.GetClusterDCLocations()[out[k]].Suffix < tam.GetClusterDCLocations()[out[i]].Suffix {
					out[i], out[k] = out[k], out[i]
				}
			}
		}
		return out
	}
	for _, dc := range bySuffix(dcs) {
		jt.labels = append(jt.labels, fmt.Sprintf("JCheckLeader %d", dcnum(dc)))
	}
	for _, dc := range dcs {
		jt.labels = append(jt.labels, fmt.Sprintf("JStart %d %d 1000", dcnum(dc), jt.idx[c.holder[dc]]))
	}
	jt.labels = append(jt.labels, "JCheckFollower 0", "JCheckFollower 1", "JCheckFollower 2", "JLeaderMove 0")
	localAns := func(dc string, l pdpb.Timestamp, count int) {
		jt.answer(fmt.Sprintf("Some %d%%nat", dcnum(dc)), c.holder[dc], tam.GetClusterDCLocations()[dc].Suffix, l, fmt.Sprintf("JLocal %d %d", dcnum(dc), count))
	}
	_ = sfx0
	global := func() (pdpb.Timestamp, bool) {
		for r := 0; r < 30; r++ {
			g, err := tam.HandleTSORequest(tso.GlobalDCLocation, 1)
			if err == nil {
				jt.answer("None", T, 0, g, "JGlobal 1")
				return g, true
			}
			time.Sleep(100 * time.Millisecond)
		}
		return pdpb.Timestamp{}, false
	}
	if _, ok := global(); !ok {
		skip("no Global timestamp from the new PD leader")
		return
	}
	// the operator moves the Global TSO one hour ahead (pd-ctl tso / admin reset-ts); the next Global request carries
	// that to every Local allocator
	ga, err := tam.GetAllocator(tso.GlobalDCLocation)
	if err != nil {
		skip(err.Error())
		return
	}
	ahead := time.Now().Add(time.Hour)
	if err := ga.SetTSO(uint64(ahead.UnixNano()/int64(time.Millisecond)) << 18); err != nil {
		skip("SetTSO: " + err.Error())
		return
	}
	jt.labels = append(jt.labels, "JGTick 3601000")
	g1, ok := global()
	if !ok {
		skip("no Global timestamp after the reset")
		return
	}
	R.Count("cluster:global-after-reset")
	for _, dc := range dcs {
		l, err := c.holder[dc].s.GetTSOAllocatorManager().HandleTSORequest(dc, 1)
		if err != nil {
			continue
		}
		R.Count("cluster:local-after-global")
		localAns(dc, l, 1)
		if !tsLess(g1, l) {
			R.Violate("C05:local-not-above-earlier-global:cluster",
				fmt.Sprintf("Local timestamp (%d,%d) of %s, requested after the Global timestamp (%d,%d) was returned, is not greater", l.Physical, l.Logical, dc, g1.Physical, g1.Logical),
				map[string]interface{}{"global": []int64{g1.Physical, g1.Logical}, "local": []int64{l.Physical, l.Logical}, "dc": dc})
		}
	}
	// two more datacenters join (members that never get to campaign themselves); the PD leader's periodic
	// ClusterDCLocationChecker fires now, the other members' checkers have not fired yet (they run once a minute)
	for k, id := range []uint64{424244, 424245} {
		if _, err := T.s.GetClient().Put(context.Background(), T.s.GetMember().GetDCLocationPath(id), fmt.Sprintf("dc-%d", 4+k)); err != nil {
			skip(err.Error())
			return
		}
	}
	tam.ClusterDCLocationChecker()
	all := []string{"dc-1", "dc-2", "dc-3", "dc-4", "dc-5"}
	if !waitFor(60*time.Second, func() bool { return c.refresh(all) }) {
		skip("the joined datacenters are not served after 60 s")
		return
	}
	for _, dc := range bySuffix([]string{"dc-4", "dc-5"}) {
		jt.labels = append(jt.labels, fmt.Sprintf("JCheckLeader %d", dcnum(dc)))
	}
	for _, dc := range []string{"dc-4", "dc-5"} {
		jt.labels = append(jt.labels, fmt.Sprintf("JStart %d %d 1002", dcnum(dc), jt.idx[c.holder[dc]]))
	}
	info := tam.GetClusterDCLocations()
	suffix := map[string]int32{}
	var maxSuffix int32
	for _, dc := range all {
		suffix[dc] = info[dc].Suffix
		if info[dc].Suffix > maxSuffix {
			maxSuffix = info[dc].Suffix
		}
	}
	// (1) a Local timestamp of a joined datacenter, requested after g1 was returned, must be greater than g1
	for _, dc := range []string{"dc-4", "dc-5"} {
		l, err := c.holder[dc].s.GetTSOAllocatorManager().HandleTSORequest(dc, 1)
		if err != nil {
			continue
		}
		R.Count("cluster:joined-local-after-global")
		localAns(dc, l, 1)
		if !tsLess(g1, l) {
			R.Violate("C05:local-of-joined-dc-not-above-earlier-global",
				fmt.Sprintf("%s joined after the Global timestamp (%d,%d) was returned; its allocator leader synchronised only with the Local allocators the PD leader serves itself (none), and its first timestamp (%d,%d) is not greater", dc, g1.Physical, g1.Logical, l.Physical, l.Logical),
				map[string]interface{}{"global": []int64{g1.Physical, g1.Logical}, "local": []int64{l.Physical, l.Logical}, "dc": dc,
					"history": "3 members dc-1..dc-3; PD leadership moved to a member serving no Local TSO; SetTSO(+1h); Global request; dc-4, dc-5 join; Local request in the joined dc"})
		}
	}
	// (2) equal timestamps / reported width: a Global request levels all memories, then each allocator hands out a batch
	type ans struct {
		dc string
		ts pdpb.Timestamp
	}
	seen := map[[2]int64]ans{}
	reportedEq, reportedWidth := false, false
	reportedBelow := map[string]bool{}
	for round := 0; round < 6; round++ {
		g, ok := global()
		if !ok {
			continue
		}
		for _, dc := range all {
			for r := 0; r < 2; r++ {
				const count = 24
				l, err := c.holder[dc].s.GetTSOAllocatorManager().HandleTSORequest(dc, count)
				if err != nil {
					continue
				}
				R.Count("cluster:local-batch")
				localAns(dc, l, count)
				// the first value of the batch, requested after g was returned, must be greater than g
				first := pdpb.Timestamp{Physical: l.Physical, Logical: l.Logical - (int64(count-1) << l.SuffixBits)}
				if !tsLess(g, first) {
					sig, why := "C05:local-not-above-earlier-global:cluster", ""
					if l.SuffixBits < g.SuffixBits {
						sig, why = "C05:local-not-above-earlier-global:smaller-suffix-width", fmt.Sprintf(" (the member serving %s answers with suffix width %d, the Global answer used %d)", dc, l.SuffixBits, g.SuffixBits)
					}
					if !reportedBelow[sig] {
						reportedBelow[sig] = true
						R.Violate(sig,
							fmt.Sprintf("Local timestamp (%d,%d) of %s, requested after the Global timestamp (%d,%d) was returned, is not greater%s", first.Physical, first.Logical, dc, g.Physical, g.Logical, why),
							map[string]interface{}{"global": []int64{g.Physical, g.Logical, int64(g.SuffixBits)}, "local_first_of_batch": []int64{first.Physical, first.Logical, int64(l.SuffixBits)}, "dc": dc, "suffixes": suffix})
					}
				}
				if !reportedWidth && int64(1)<<l.SuffixBits <= int64(maxSuffix) {
					reportedWidth = true
					R.Violate("C05:reported-suffix-width-too-small:dc-joined-later",
						fmt.Sprintf("%s (suffix %d) answers with suffix width %d while suffix %d is in use by a serving allocator", dc, suffix[dc], l.SuffixBits, maxSuffix),
						map[string]interface{}{"dc": dc, "suffix": suffix[dc], "width": l.SuffixBits, "max_suffix_in_use": maxSuffix, "suffixes": suffix})
				}
				for k := int64(0); k < count; k++ {
					key := [2]int64{l.Physical, l.Logical - (k << l.SuffixBits)}
					if o, ok := seen[key]; ok && o.dc != dc && !reportedEq {
						reportedEq = true
						R.Violate("C05:equal-timestamps:dc-joined-while-another-member-uses-smaller-suffix-width",
							fmt.Sprintf("timestamp (%d,%d) was returned by the allocator of %s (suffix %d, width %d) and by the allocator of %s (suffix %d, width %d)",
								key[0], key[1], o.dc, suffix[o.dc], o.ts.SuffixBits, dc, suffix[dc], l.SuffixBits),
							map[string]interface{}{"timestamp": key, "first": o.dc, "second": dc, "suffixes": suffix,
								"widths":  map[string]uint32{o.dc: o.ts.SuffixBits, dc: l.SuffixBits},
								"history": "3 members dc-1..dc-3 (suffix width 2); dc-4 and dc-5 join, the PD leader assigns suffixes 4 and 5 and serves them with width 3; the other members have not refreshed their width yet (ClusterDCLocationChecker runs once a minute); Global request levels the memories; Local batches of 24"})
					}
					seen[key] = ans{dc, l}
				}
			}
		}
	}
	joinDuringGlobal(R, c, T, jt, global, localAns, suffix)
	joinCase = jt
	newLeaderMissesDC(R, c, T, jt)
}

// joinDuringGlobal: dc-6 joins, on a member the request does not talk to, while a Global request is in flight (slow
// SyncMaxTS requests: the code allows 3 s for each). The Global request synchronises the dc-locations that existed when
// it began; a Local timestamp of dc-6 requested after the Global answer was returned must still be greater than it.
func joinDuringGlobal(R *res.Result, c *cluster, T *node, jt *joinTrace, global func() (pdpb.Timestamp, bool),
	localAns func(string, pdpb.Timestamp, int), suffix map[string]int32) {
	skip := func(why string) { R.Notes = append(R.Notes, "join-during-global scenario incomplete: "+why) }
	tam := T.s.GetTSOAllocatorManager()
	// X: the member that is going to serve dc-6; it must serve nothing the request synchronises
	var X, L *node
	for _, x := range c.nodes {
		if jt.idx[x] == 2 {
			X = x
		}
		if jt.idx[x] == 1 {
			L = x
		}
	}
	if X == nil || L == nil {
		skip("members")
		return
	}
	for _, dc := range []string{"dc-1", "dc-2", "dc-3", "dc-4", "dc-5"} {
		if !serves(X, dc) {
			continue
		}
		if err := transfer(X, dc, L.s.GetMember().ID()); err != nil {
			skip("transfer " + dc + ": " + err.Error())
			return
		}
		both := false
		if !waitFor(75*time.Second, func() bool {
			if serves(L, dc) && serves(X, dc) {
				// both members hold an initialised allocator of dc and call themselves its leader: ask both
				if _, e1 := L.s.GetTSOAllocatorManager().HandleTSORequest(dc, 1); e1 == nil {
					if _, e2 := X.s.GetTSOAllocatorManager().HandleTSORequest(dc, 1); e2 == nil {
						both = true
					}
				}
			}
			return serves(L, dc) && !serves(X, dc)
		}) {
			skip("allocator of " + dc + " did not move within 75 s")
			if !both {
				return
			}
		}
		if both {
			R.Violate("C05:two-allocator-leaders-at-once:during-a-transfer",
				fmt.Sprintf("while the allocator of %s was transferred (next-leader key) the old and the new member both answered Local timestamps of %s", dc, dc),
				map[string]interface{}{"dc": dc})
			return
		}
		c.holder[dc] = L
		jt.labels = append(jt.labels, fmt.Sprintf("JStop %d", dcnumOf(dc)), fmt.Sprintf("JStart %d 1 1003", dcnumOf(dc)))
	}
	gate := &rpcGate{parked: make(chan struct{}, 2), release: make(chan struct{}, 2)}
	for _, x := range c.nodes {
		addr := x.cfg.AdvertiseClientUrls
		ctx, cancel := context.WithTimeout(context.Background(), 3*time.Second)
		conn, err := grpcutil.GetClientConn(ctx, addr, nil, grpc.WithUnaryInterceptor(gate.intercept))
		cancel()
		if err != nil {
			skip("dial " + addr + ": " + err.Error())
			return
		}
		tam.VerifSetGRPCConn(addr, conn)
	}
	if _, ok := global(); !ok { // the new connections work
		skip("no Global timestamp through the gated connections")
		return
	}
	// `transfer allocator dc-6 -> X` ahead of time: only X may campaign for dc-6
	if _, err := T.s.GetClient().Put(context.Background(), tam.VerifNextLeaderKey("dc-6"), fmt.Sprint(X.s.GetMember().ID())); err != nil {
		skip(err.Error())
		return
	}
	gate.mu.Lock()
	gate.armed = 2 // the first request of each of the two SyncMaxTS passes
	gate.mu.Unlock()
	type gres struct {
		ts  pdpb.Timestamp
		err error
	}
	done := make(chan gres, 1)
	go func() {
		g, err := tam.HandleTSORequest(tso.GlobalDCLocation, 10)
		done <- gres{g, err}
	}()
	select {
	case <-gate.parked:
	case <-time.After(5 * time.Second):
		skip("the Global request did not reach its SyncMaxTS request")
		return
	}
	if _, err := T.s.GetClient().Put(context.Background(), T.s.GetMember().GetDCLocationPath(424246), "dc-6"); err != nil {
		gate.release <- struct{}{}
		gate.release <- struct{}{}
		skip(err.Error())
		return
	}
	tam.ClusterDCLocationChecker()
	X.s.GetTSOAllocatorManager().ClusterDCLocationChecker() // X's periodic checker fires too
	servedBefore := waitFor(2300*time.Millisecond, func() bool { return serves(X, "dc-6") })
	gate.release <- struct{}{}
	if !servedBefore {
		select {
		case <-gate.parked: // the second pass
			servedBefore = waitFor(2300*time.Millisecond, func() bool { return serves(X, "dc-6") })
		case <-time.After(2 * time.Second):
		}
	}
	gate.mu.Lock()
	gate.armed = 0
	gate.mu.Unlock()
	gate.release <- struct{}{}
	r := <-done
	if !waitFor(75*time.Second, func() bool { return serves(X, "dc-6") }) {
		skip("dc-6 is not served after 75 s")
		return
	}
	c.holder["dc-6"] = X
	suffix["dc-6"] = tam.GetClusterDCLocations()["dc-6"].Suffix
	R.Count("cluster:join-during-global")
	if servedBefore {
		R.Count("cluster:join-during-global:dc-served-before-the-global-answer")
	}
	if r.err != nil {
		R.Count("cluster:join-during-global:global-refused")
		return
	}
	// model labels in the order things happened
	jt.labels = append(jt.labels, "JGBegin 10", "JCheckLeader 6", "JCheckFollower 2")
	if servedBefore {
		jt.labels = append(jt.labels, "JStart 6 2 1003")
		jt.answer("None", T, 0, r.ts, "JGEnd")
	} else {
		jt.answer("None", T, 0, r.ts, "JGEnd")
		jt.labels = append(jt.labels, "JStart 6 2 1003")
	}
	l, err := X.s.GetTSOAllocatorManager().HandleTSORequest("dc-6", 1)
	if err != nil {
		skip("local request on dc-6: " + err.Error())
		return
	}
	localAns("dc-6", l, 1)
	R.Notes = append(R.Notes, fmt.Sprintf("join-during-global: global answer (%d,%d,w%d), first local of dc-6 (%d,%d,w%d), served before the answer: %v", r.ts.Physical, r.ts.Logical, r.ts.SuffixBits, l.Physical, l.Logical, l.SuffixBits, servedBefore))
	if !tsLess(r.ts, l) {
		R.Violate("C05:local-of-dc-joined-during-global-request-not-above-it",
			fmt.Sprintf("dc-6 joined and began to serve (on a member the request does not talk to) while a Global request was in flight (slow SyncMaxTS requests); the Global answer (%d,%d) was returned, and a Local timestamp of dc-6 requested afterwards is (%d,%d): not greater", r.ts.Physical, r.ts.Logical, l.Physical, l.Logical),
			map[string]interface{}{"global": []int64{r.ts.Physical, r.ts.Logical}, "local": []int64{l.Physical, l.Logical},
				"history": "all memories one hour ahead of the clock (reset-ts); Global request for 10 timestamps held at its SyncMaxTS requests; dc-6 joins, its allocator (on a member that serves no other dc) starts from the maximum of the memories; the Global request continues and answers above that; Local request on dc-6"})
	}
}

func dcnumOf(dc string) int { var n int; fmt.Sscanf(dc, "dc-%d", &n); return n }

// logGate blocks the goroutine that logs a line containing msg (once), so that a driver can act at that point of the
// real code without changing it.
type logGate struct {
	zapcore.LevelEnabler
	mu      sync.Mutex
	msg     string
	armed   bool
	parked  chan struct{}
	release chan struct{}
}

func (c *logGate) With([]zapcore.Field) zapcore.Core { return c }
func (c *logGate) Check(e zapcore.Entry, ce *zapcore.CheckedEntry) *zapcore.CheckedEntry {
	return ce.AddCore(e, c)
}
func (c *logGate) Write(e zapcore.Entry, _ []zapcore.Field) error {
	c.mu.Lock()
	hit := c.armed && strings.Contains(e.Message, c.msg)
	if hit {
		c.armed = false
	}
	c.mu.Unlock()
	if hit {
		c.parked <- struct{}{}
		<-c.release
	}
	return nil
}
func (c *logGate) Sync() error { return nil }

// newLeaderMissesDC (last scenario of the cluster phase, Go side only): dc-7 joins and is served by member X; the PD
// leadership is then transferred to a member that has not run its dc-location check since. The new leader answers
// Global requests as soon as its Global allocator is initialised - it is stopped a little later in campaignLeader (at the
// log line of its id-window reservation, before the rest of its start-up). A Global answer given there has to be
// synchronised with dc-7 all the same: the next Local timestamp of dc-7 must be greater.
func newLeaderMissesDC(R *res.Result, c *cluster, T *node, jt *joinTrace) {
	skip := func(why string) { R.Notes = append(R.Notes, "new-leader scenario incomplete: "+why) }
	var X, L *node
	for _, x := range c.nodes {
		if jt.idx[x] == 2 {
			X = x
		}
		if jt.idx[x] == 1 {
			L = x
		}
	}
	if X == nil || L == nil || c.leader() != T {
		skip("members")
		return
	}
	tam := T.s.GetTSOAllocatorManager()
	ctx := context.Background()
	if _, err := T.s.GetClient().Put(ctx, tam.VerifNextLeaderKey("dc-7"), fmt.Sprint(X.s.GetMember().ID())); err != nil {
		skip(err.Error())
		return
	}
	if _, err := T.s.GetClient().Put(ctx, T.s.GetMember().GetDCLocationPath(424247), "dc-7"); err != nil {
		skip(err.Error())
		return
	}
	if !waitFor(60*time.Second, func() bool {
		tam.ClusterDCLocationChecker()
		X.s.GetTSOAllocatorManager().ClusterDCLocationChecker()
		return serves(X, "dc-7")
	}) {
		skip("dc-7 is not served after 60 s")
		return
	}
	if _, ok := L.s.GetTSOAllocatorManager().GetClusterDCLocations()["dc-7"]; ok {
		skip("the next PD leader has already noticed dc-7 (its periodic check ran)")
		return
	}
	if _, err := X.s.GetTSOAllocatorManager().HandleTSORequest("dc-7", 1); err != nil {
		skip("dc-7: " + err.Error())
		return
	}
	gate := &logGate{LevelEnabler: zapcore.InfoLevel, msg: "idAllocator allocates a new id", armed: true, parked: make(chan struct{}, 1), release: make(chan struct{}, 1)}
	log.ReplaceGlobals(zap.New(gate), nil)
	defer srv15.Quiet()
	released := false
	defer func() {
		if !released {
			select {
			case gate.release <- struct{}{}:
			default:
			}
		}
	}()
	rctx, cancel := context.WithTimeout(ctx, 10*time.Second)
	err := T.s.GetMember().ResignEtcdLeader(rctx, T.cfg.Name, L.cfg.Name)
	cancel()
	if err != nil {
		skip("resign: " + err.Error())
		return
	}
	select {
	case <-gate.parked:
	case <-time.After(40 * time.Second):
		skip("the new leader did not reach its id-window reservation within 40 s")
		return
	}
	R.Count("cluster:new-leader-before-its-dc-location-check")
	g, gerr := L.s.GetTSOAllocatorManager().HandleTSORequest(tso.GlobalDCLocation, 1)
	var l pdpb.Timestamp
	var lerr error
	if gerr == nil {
		l, lerr = X.s.GetTSOAllocatorManager().HandleTSORequest("dc-7", 1)
	}
	gate.release <- struct{}{}
	released = true
	if gerr != nil {
		R.Count("cluster:new-leader:global-refused")
		R.Notes = append(R.Notes, "new-leader scenario: the Global request was refused: "+gerr.Error())
		return
	}
	R.Count("cluster:new-leader:global-answered")
	if lerr == nil && !tsLess(g, l) {
		R.Violate("C05:local-not-above-earlier-global:new-pd-leader-had-not-noticed-the-dc-location",
			fmt.Sprintf("dc-7 joined and is served; the PD leadership moved to a member that had not run its dc-location check since; right after its Global allocator was initialised (before the rest of its start-up) it answered the Global timestamp (%d,%d) without synchronising dc-7; the next Local timestamp of dc-7 is (%d,%d): not greater", g.Physical, g.Logical, l.Physical, l.Logical),
			map[string]interface{}{"global": []int64{g.Physical, g.Logical}, "local": []int64{l.Physical, l.Logical}})
	}
}
