// Probes of the C05 driver on the single real server that are outside the sequential model: concurrent suffix
// assignment, and a Global request whose write-back to a Local allocator is refused (reset beyond max-gap-reset-ts).
package main

import (
	"context"
	"fmt"
	"strings"
	"sync"
	"time"

	"github.com/tikv/pd/server/tso"
	"go.etcd.io/etcd/clientv3"

	"pdverif/internal/res"
)

// suffixGateKV pairs the transactions that create local-tso-suffix keys: one waits until the next arrives (or 300 ms):
// if suffix assignment is not serialised, both have read the same maximum by then.
type suffixGateKV struct {
	clientv3.KV
	mu      sync.Mutex
	armed   bool
	waiting chan struct{}
}

type suffixGateTxn struct {
	clientv3.Txn
	g      *suffixGateKV
	suffix bool
}

func (k *suffixGateKV) Txn(ctx context.Context) clientv3.Txn {
	return &suffixGateTxn{Txn: k.KV.Txn(ctx), g: k}
}
func (t *suffixGateTxn) If(cs ...clientv3.Cmp) clientv3.Txn { t.Txn = t.Txn.If(cs...); return t }
func (t *suffixGateTxn) Then(ops ...clientv3.Op) clientv3.Txn {
	for _, o := range ops {
		if o.IsPut() && strings.Contains(string(o.KeyBytes()), "local-tso-suffix") {
			t.suffix = true
		}
	}
	t.Txn = t.Txn.Then(ops...)
	return t
}
func (t *suffixGateTxn) Else(ops ...clientv3.Op) clientv3.Txn { t.Txn = t.Txn.Else(ops...); return t }
func (t *suffixGateTxn) Commit() (*clientv3.TxnResponse, error) {
	if t.suffix {
		g := t.g
		g.mu.Lock()
		if g.armed {
			if g.waiting == nil { // first: wait for a second suffix transaction
				ch := make(chan struct{})
				g.waiting = ch
				g.mu.Unlock()
				select {
				case <-ch:
				case <-time.After(300 * time.Millisecond):
				}
				g.mu.Lock()
				g.waiting = nil
			} else { // second: let the first go, then go
				close(g.waiting)
			}
		}
		g.mu.Unlock()
	}
	return t.Txn.Commit()
}

// suffixRaceProbe: two datacenters appear at once and two runs of the PD leader's ClusterDCLocationChecker overlap
// (the minute ticker, a SyncMaxTS retry, an allocator-leader watch and campaignLeader all start it). No two
// dc-locations may end up with the same suffix.
func (w *world) suffixRaceProbe(R *res.Result) {
	cli := w.s.GetClient()
	orig := cli.KV
	gate := &suffixGateKV{KV: orig}
	cli.KV = gate
	defer func() { cli.KV = orig }()
	for round := 0; round < 6; round++ {
		a, b := fmt.Sprintf("dc-x%d-a", round), fmt.Sprintf("dc-x%d-b", round)
		for k, dc := range []string{a, b} {
			if _, err := orig.Put(context.Background(), w.s.GetMember().GetDCLocationPath(uint64(434300+round*2+k)), dc); err != nil {
				R.Notes = append(R.Notes, "suffix race probe: "+err.Error())
				return
			}
		}
		gate.mu.Lock()
		gate.armed = true
		gate.mu.Unlock()
		var wg sync.WaitGroup
		for i := 0; i < 2; i++ {
			wg.Add(1)
			go func() { defer wg.Done(); w.am.ClusterDCLocationChecker() }()
		}
		wg.Wait()
		gate.mu.Lock()
		gate.armed = false
		gate.mu.Unlock()
		w.am.ClusterDCLocationChecker()
		R.Count("suffix-race:rounds")
		seen := map[int32]string{}
		for dc, info := range w.am.GetClusterDCLocations() {
			if info.Suffix <= 0 {
				continue
			}
			if o, ok := seen[info.Suffix]; ok {
				R.Violate("C05:two-dc-locations-share-a-suffix",
					fmt.Sprintf("dc-locations %s and %s both have suffix %d after two overlapping runs of ClusterDCLocationChecker", o, dc, info.Suffix),
					map[string]interface{}{"a": o, "b": dc, "suffix": info.Suffix, "round": round})
				return
			}
			seen[info.Suffix] = dc
		}
	}
}

// farResetProbe: the Global TSO is reset twice by 0.7 x max-gap-reset-ts (each reset is legal), so it ends more than
// max-gap-reset-ts ahead of the Local allocators. A Global request cannot raise them (WriteTSO refuses the jump): it
// may be refused, but if it is answered every Local timestamp requested afterwards must still be greater.
func (w *world) farResetProbe(R *res.Result) {
	ga, err := w.am.GetAllocator(tso.GlobalDCLocation)
	if err != nil {
		return
	}
	gapMs := int64(w.s.GetConfig().PDServerCfg.MaxResetTSGap.Duration / time.Millisecond)
	step := gapMs * 7 / 10
	base := time.Now().UnixNano() / int64(time.Millisecond)
	for k := int64(1); k <= 2; k++ {
		if err := ga.SetTSO(compose(base+k*step, 0)); err != nil {
			R.Notes = append(R.Notes, fmt.Sprintf("far reset probe: reset %d refused: %v", k, err))
			return
		}
	}
	R.Count("far-reset:probed")
	g, err := w.am.HandleTSORequest(tso.GlobalDCLocation, 1)
	if err != nil {
		R.Count("far-reset:global-refused")
		return
	}
	R.Count("far-reset:global-answered")
	for _, dc := range w.dcs {
		l, err := w.am.HandleTSORequest(dc, 1)
		if err != nil {
			continue
		}
		if l.Physical < g.Physical || (l.Physical == g.Physical && l.Logical <= g.Logical) {
			R.Violate("C05:local-not-above-earlier-global:reset-beyond-max-gap",
				fmt.Sprintf("the Global TSO was reset twice by 0.7 x max-gap-reset-ts; a Global request was then answered (%d,%d) although the Local allocator of %s could not be raised to it: its next timestamp is (%d,%d)", g.Physical, g.Logical, dc, l.Physical, l.Logical),
				map[string]interface{}{"global": []int64{g.Physical, g.Logical}, "local": []int64{l.Physical, l.Logical}, "dc": dc, "gap_ms": gapMs})
			return
		}
	}
}
