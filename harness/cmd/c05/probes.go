// Probes of the C05 driver on the single real server that are outside the sequential model: concurrent suffix
// assignment, and a Global request whose write-back to a Local allocator is refused (reset beyond max-gap-reset-ts).
package main

import (
	"context"
	"fmt"
	"strings"
	"sync"
	"time"

	"github.com/pingcap/kvproto/pkg/pdpb"
	"github.com/tikv/pd/pkg/grpcutil"
	"github.com/tikv/pd/pkg/typeutil"
	"github.com/tikv/pd/server/config"
	"github.com/tikv/pd/server/tso"
	"go.etcd.io/etcd/clientv3"
	"google.golang.org/grpc"
	"google.golang.org/grpc/codes"
	"google.golang.org/grpc/status"

	"pdverif/internal/dclife"
	"pdverif/internal/pdcluster"
	"pdverif/internal/res"
)

// suffixGateKV pairs the transactions that create local-tso-suffix keys: one waits until the next arrives (or 300 ms):
// if suffix assignment is not serialised, both have read the same maximum by then.
type suffixGateKV struct {
	clientv3.KV
	mu      sync.Mutex
	armed   bool
	waiting chan struct{}
}

type suffixGateTxn struct {
	clientv3.Txn
	g      *suffixGateKV
	suffix bool
}

func (k *suffixGateKV) Txn(ctx context.Context) clientv3.Txn {
	return &suffixGateTxn{Txn: k.KV.Txn(ctx), g: k}
}
func (t *suffixGateTxn) If(cs ...clientv3.Cmp) clientv3.Txn { t.Txn = t.Txn.If(cs...); return t }
func (t *suffixGateTxn) Then(ops ...clientv3.Op) clientv3.Txn {
	for _, o := range ops {
		if o.IsPut() && strings.Contains(string(o.KeyBytes()), "local-tso-suffix") {
			t.suffix = true
		}
	}
	t.Txn = t.Txn.Then(ops...)
	return t
}
func (t *suffixGateTxn) Else(ops ...clientv3.Op) clientv3.Txn { t.Txn = t.Txn.Else(ops...); return t }
func (t *suffixGateTxn) Commit() (*clientv3.TxnResponse, error) {
	if t.suffix {
		g := t.g
		g.mu.Lock()
		if g.armed {
			if g.waiting == nil { // first: wait for a second suffix transaction
				ch := make(chan struct{})
				g.waiting = ch
				g.mu.Unlock()
				select {
				case <-ch:
				case <-time.After(300 * time.Millisecond):
				}
				g.mu.Lock()
				g.waiting = nil
			} else { // second: let the first go, then go
				close(g.waiting)
			}
		}
		g.mu.Unlock()
	}
	return t.Txn.Commit()
}

// suffixRaceProbe: two datacenters appear at once and two runs of the PD leader's ClusterDCLocationChecker overlap
// (the minute ticker, a SyncMaxTS retry, an allocator-leader watch and campaignLeader all start it). No two
// dc-locations may end up with the same suffix.
func (w *world) suffixRaceProbe(R *res.Result) {
	cli := w.s.GetClient()
	orig := cli.KV
	gate := &suffixGateKV{KV: orig}
	cli.KV = gate
	defer func() { cli.KV = orig }()
	for round := 0; round < 6; round++ {
		a, b := fmt.Sprintf("dc-x%d-a", round), fmt.Sprintf("dc-x%d-b", round)
		for k, dc := range []string{a, b} {
			if _, err := orig.Put(context.Background(), w.s.GetMember().GetDCLocationPath(uint64(434300+round*2+k)), dc); err != nil {
				R.Notes = append(R.Notes, "suffix race probe: "+err.Error())
				return
			}
		}
		gate.mu.Lock()
		gate.armed = true
		gate.mu.Unlock()
		var wg sync.WaitGroup
		for i := 0; i < 2; i++ {
			wg.Add(1)
			go func() { defer wg.Done(); w.am.ClusterDCLocationChecker() }()
		}
		wg.Wait()
		gate.mu.Lock()
		gate.armed = false
		gate.mu.Unlock()
		w.am.ClusterDCLocationChecker()
		R.Count("suffix-race:rounds")
		seen := map[int32]string{}
		for dc, info := range w.am.GetClusterDCLocations() {
			if info.Suffix <= 0 {
				continue
			}
			if o, ok := seen[info.Suffix]; ok {
				R.Violate("C05:two-dc-locations-share-a-suffix",
					fmt.Sprintf("dc-locations %s and %s both have suffix %d after two overlapping runs of ClusterDCLocationChecker", o, dc, info.Suffix),
					map[string]interface{}{"a": o, "b": dc, "suffix": info.Suffix, "round": round})
				return
			}
			seen[info.Suffix] = dc
		}
	}
}

// farResetProbe: the Global TSO is reset twice by 0.7 x max-gap-reset-ts (each reset is legal), so it ends more than
// max-gap-reset-ts ahead of the Local allocators. A Global request cannot raise them (WriteTSO refuses the jump): it
// may be refused, but if it is answered every Local timestamp requested afterwards must still be greater.
func (w *world) farResetProbe(R *res.Result) {
	ga, err := w.am.GetAllocator(tso.GlobalDCLocation)
	if err != nil {
		return
	}
	gapMs := int64(w.s.GetConfig().PDServerCfg.MaxResetTSGap.Duration / time.Millisecond)
	step := gapMs * 7 / 10
	base := time.Now().UnixNano() / int64(time.Millisecond)
	for k := int64(1); k <= 2; k++ {
		if err := ga.SetTSO(compose(base+k*step, 0)); err != nil {
			R.Notes = append(R.Notes, fmt.Sprintf("far reset probe: reset %d refused: %v", k, err))
			return
		}
	}
	R.Count("far-reset:probed")
	g, err := w.am.HandleTSORequest(tso.GlobalDCLocation, 1)
	if err != nil {
		R.Count("far-reset:global-refused")
		return
	}
	R.Count("far-reset:global-answered")
	for _, dc := range w.dcs {
		l, err := w.am.HandleTSORequest(dc, 1)
		if err != nil {
			continue
		}
		if l.Physical < g.Physical || (l.Physical == g.Physical && l.Logical <= g.Logical) {
			R.Violate("C05:local-not-above-earlier-global:reset-beyond-max-gap",
				fmt.Sprintf("the Global TSO was reset twice by 0.7 x max-gap-reset-ts; a Global request was then answered (%d,%d) although the Local allocator of %s could not be raised to it: its next timestamp is (%d,%d)", g.Physical, g.Logical, dc, l.Physical, l.Logical),
				map[string]interface{}{"global": []int64{g.Physical, g.Logical}, "local": []int64{l.Physical, l.Logical}, "dc": dc, "gap_ms": gapMs})
			return
		}
	}
}

// writeFault makes the next SyncMaxTS request of the write phase (SkipCheck set) fail before it is sent.
type writeFault struct {
	mu    sync.Mutex
	armed bool
	fired int
}

func (g *writeFault) intercept(ctx context.Context, method string, req, reply interface{}, cc *grpc.ClientConn, invoker grpc.UnaryInvoker, opts ...grpc.CallOption) error {
	if r, ok := req.(*pdpb.SyncMaxTSRequest); ok && r.GetSkipCheck() {
		g.mu.Lock()
		a := g.armed
		g.armed = false
		if a {
			g.fired++
		}
		g.mu.Unlock()
		if a {
			return status.Error(codes.Unavailable, "verif: injected SyncMaxTS failure")
		}
	}
	return invoker(ctx, method, req, reply, cc, opts...)
}

// failedWriteProbe: the Local allocator of dc-2 is ahead of the Global estimate, so the first attempt of a Global
// request collects the larger maximum and enters the write phase; that SyncMaxTS request is lost and the request
// retries. Whatever the retry answers must still be greater than the Local timestamp handed out before the request
// began: every attempt has to validate its own estimate.
func (w *world) failedWriteProbe(R *res.Result) {
	addr := w.s.GetConfig().AdvertiseClientUrls
	f := &writeFault{}
	ctx, cancel := context.WithTimeout(context.Background(), 3*time.Second)
	conn, err := grpcutil.GetClientConn(ctx, addr, nil, grpc.WithUnaryInterceptor(f.intercept))
	cancel()
	if err != nil {
		R.Notes = append(R.Notes, "failed-write probe skipped: "+err.Error())
		return
	}
	w.am.VerifSetGRPCConn(addr, conn)
	if _, err := w.am.HandleTSORequest(tso.GlobalDCLocation, 1); err != nil {
		R.Notes = append(R.Notes, "failed-write probe skipped: no Global timestamp through the new connection: "+err.Error())
		return
	}
	now := time.Now().UnixNano() / int64(time.Millisecond)
	gp, _ := w.mem(-1)
	if gp > now {
		now = gp
	}
	if err := w.alloc(1).SetTSO(compose(now+5000, 0)); err != nil {
		R.Notes = append(R.Notes, "failed-write probe skipped: "+err.Error())
		return
	}
	l, err := w.am.HandleTSORequest(w.dcs[1], 1)
	if err != nil {
		return
	}
	f.mu.Lock()
	f.armed = true
	f.mu.Unlock()
	g, gerr := w.am.HandleTSORequest(tso.GlobalDCLocation, 1)
	w.lastG = time.Now()
	f.mu.Lock()
	fired := f.fired
	f.armed = false
	f.mu.Unlock()
	if fired == 0 {
		R.Notes = append(R.Notes, "failed-write probe: the request never reached its write phase")
		return
	}
	R.Count("failed-write:probed")
	if gerr != nil {
		R.Count("failed-write:global-refused")
		return
	}
	R.Count("failed-write:global-answered")
	if g.Physical < l.Physical || (g.Physical == l.Physical && g.Logical <= l.Logical) {
		R.Violate("C05:global-not-above-earlier-local:retry-after-failed-write-phase",
			fmt.Sprintf("dc-2 answered (%d,%d); a Global request then collected that maximum, its write-phase SyncMaxTS request was lost, and the retry answered (%d,%d), which is not greater", l.Physical, l.Logical, g.Physical, g.Logical),
			map[string]interface{}{"local": []int64{l.Physical, l.Logical}, "global": []int64{g.Physical, g.Logical}, "scenario": "SetTSO(dc-2, Global memory + 5 s); Local(dc-2); Global(1) with the first SkipCheck SyncMaxTS request failing (Unavailable)"})
	}
}

// sameMillisecondWriteProbe: the write phase of a Global request (the real SyncMaxTS handler, SkipCheck set) delivers a
// maximum (P, L) whose millisecond P is the one the Local allocator's clock-driven physical time (which carries a
// sub-millisecond part) lies in, with L above the allocator's logical part. The member reports dc-1 as synchronised:
// from then on every Local timestamp of dc-1 has to be greater than (P, L).
func (w *world) sameMillisecondWriteProbe(R *res.Result) {
	a := w.alloc(0)
	p, init, l, _, _ := tso.VerifState(a)
	if init && p%1e6 == 0 {
		a.UpdateTSO()
		p, init, l, _, _ = tso.VerifState(a)
	}
	if !init || p%1e6 == 0 {
		R.Notes = append(R.Notes, "same-millisecond probe skipped: the physical time of dc-1 has no sub-millisecond part")
		return
	}
	max := &pdpb.Timestamp{Physical: p / 1e6, Logical: l + 1000}
	ctx, cancel := context.WithTimeout(context.Background(), 3*time.Second)
	defer cancel()
	resp, err := w.s.SyncMaxTS(ctx, &pdpb.SyncMaxTSRequest{Header: &pdpb.RequestHeader{ClusterId: w.s.ClusterID(), SenderId: w.s.GetMember().ID()}, MaxTs: max, SkipCheck: true})
	if err != nil {
		R.Notes = append(R.Notes, "same-millisecond probe: SyncMaxTS refused: "+err.Error())
		return
	}
	synced := false
	for _, dc := range resp.GetSyncedDcs() {
		if dc == w.dcs[0] {
			synced = true
		}
	}
	R.Count("same-millisecond-write:probed")
	if !synced {
		return
	}
	t, err := w.am.HandleTSORequest(w.dcs[0], 1)
	if err != nil {
		return
	}
	raw := t.Logical >> t.SuffixBits
	if t.Physical < max.Physical || (t.Physical == max.Physical && raw <= max.Logical) {
		R.Violate("C05:local-not-above-earlier-global:write-back-dropped-in-the-same-millisecond",
			fmt.Sprintf("the Local allocator of dc-1 stood at physical %d.%06d ms, logical %d; the write phase of a Global request delivered (%d,%d) and dc-1 was reported synchronised; the next Local timestamp of dc-1 is (physical %d, raw logical %d), not greater", p/1e6, p%1e6, l, max.Physical, max.Logical, t.Physical, raw),
			map[string]interface{}{"memory_ns": p, "memory_logical": l, "written": []int64{max.Physical, max.Logical}, "local": []int64{t.Physical, raw}})
	}
}

// dcLifeProbe: a dc-location joins, serves (moved one hour ahead), loses every member (its allocator group is torn down
// by the patrol), comes back, and another dc-location joins. A dc-location keeps its suffix for ever, no two share one,
// and the returning allocator starts above what it granted before.
func (w *world) dcLifeProbe(R *res.Result) {
	o := dclife.LeaveAndReturn(w.s, "dc-life", 525252, "dc-late", 535353)
	if o.Skipped != "" {
		R.Notes = append(R.Notes, "dc-location life-cycle probe incomplete: "+o.Skipped)
		return
	}
	R.Count("dc-life:probed")
	if o.SuffixAfter != o.SuffixBefore {
		R.Violate("C05:suffix-of-a-dc-location-changed:left-and-returned",
			fmt.Sprintf("dc-life had suffix %d; all its members were removed (allocator group torn down), it joined again and has suffix %d", o.SuffixBefore, o.SuffixAfter),
			map[string]interface{}{"before": o.SuffixBefore, "after": o.SuffixAfter})
	}
	if o.OtherSuffix == o.SuffixAfter || o.OtherSuffix == o.SuffixBefore {
		R.Violate("C05:suffix-shared-by-two-dc-locations:after-a-dc-location-left",
			fmt.Sprintf("dc-life has suffix %d (before it left: %d); dc-late, which joined afterwards, was given suffix %d", o.SuffixAfter, o.SuffixBefore, o.OtherSuffix),
			map[string]interface{}{"dc-life": []int32{o.SuffixBefore, o.SuffixAfter}, "dc-late": o.OtherSuffix})
	}
	if o.TSAfter.Physical < o.TSBefore.Physical || (o.TSAfter.Physical == o.TSBefore.Physical && o.TSAfter.Logical <= o.TSBefore.Logical) {
		R.Violate("C05:local-timestamp-went-back:dc-location-left-and-returned",
			fmt.Sprintf("dc-life answered (%d,%d), lost all its members, came back and answered (%d,%d)", o.TSBefore.Physical, o.TSBefore.Logical, o.TSAfter.Physical, o.TSAfter.Logical),
			map[string]interface{}{"before": []int64{o.TSBefore.Physical, o.TSBefore.Logical}, "after": []int64{o.TSAfter.Physical, o.TSAfter.Logical}})
	}
}

// mixedFlagPhase: two real members, Local TSO switched off on the one that is PD leader and on on the other, which leads
// the allocator of its dc-location (a rolling configuration change). Global requests may be refused; an answer has to
// be above every Local timestamp returned before, below every later one, and never equal. Runs in the background.
func mixedFlagPhase() func(R *res.Result) {
	type viol struct {
		sig, desc string
		data      interface{}
	}
	var viols []viol
	var notes []string
	answered, refused := 0, 0
	done := func(R *res.Result) {
		for _, v := range viols {
			R.Violate(v.sig, v.desc, v.data)
		}
		R.Notes = append(R.Notes, notes...)
		R.CountN("mixed-flag:global-answered", answered)
		R.CountN("mixed-flag:global-refused", refused)
	}
	c, err := pdcluster.Start(2, func(i int, cfg *config.Config) {
		cfg.TSOUpdatePhysicalInterval = typeutil.NewDuration(50 * time.Millisecond)
		if i == 1 {
			cfg.EnableLocalTSO = true
			cfg.Labels = map[string]string{config.ZoneLabel: "dc-2"}
		}
	})
	if err != nil {
		notes = append(notes, "mixed-flag phase skipped: "+err.Error())
		return done
	}
	defer c.Close()
	off, on := c.Nodes[0], c.Nodes[1]
	l := c.WaitLeader(60 * time.Second)
	if l == nil {
		notes = append(notes, "mixed-flag phase skipped: no PD leader")
		return done
	}
	if l != off {
		ctx, cancel := context.WithTimeout(context.Background(), 10*time.Second)
		err := l.S.GetMember().ResignEtcdLeader(ctx, l.Cfg.Name, off.Cfg.Name)
		cancel()
		if err != nil {
			notes = append(notes, "mixed-flag phase skipped: "+err.Error())
			return done
		}
		for deadline := time.Now().Add(40 * time.Second); c.Leader() != off && time.Now().Before(deadline); {
			time.Sleep(20 * time.Millisecond)
		}
		if c.Leader() != off {
			notes = append(notes, "mixed-flag phase skipped: the PD leadership did not move to the member without Local TSO")
			return done
		}
	}
	oam, nam := off.S.GetTSOAllocatorManager(), on.S.GetTSOAllocatorManager()
	served := false
	for deadline := time.Now().Add(40 * time.Second); time.Now().Before(deadline); time.Sleep(50 * time.Millisecond) {
		oam.ClusterDCLocationChecker()
		nam.ClusterDCLocationChecker()
		if a, err := nam.GetAllocator("dc-2"); err == nil && a.IsInitialize() && a.(*tso.LocalTSOAllocator).IsAllocatorLeader() {
			served = true
			break
		}
	}
	if !served {
		notes = append(notes, "mixed-flag phase skipped: dc-2 was not served within 40 s")
		return done
	}
	le := func(a, b pdpb.Timestamp) bool {
		return a.Physical < b.Physical || (a.Physical == b.Physical && a.Logical <= b.Logical)
	}
	for r := 0; r < 20 && len(viols) == 0; r++ {
		l1, err := nam.HandleTSORequest("dc-2", 10)
		if err != nil {
			continue
		}
		g, err := oam.HandleTSORequest(tso.GlobalDCLocation, 1)
		if err != nil {
			refused++
			continue
		}
		answered++
		l2, err2 := nam.HandleTSORequest("dc-2", 1)
		switch {
		case le(g, l1):
			viols = append(viols, viol{"C05:global-not-above-earlier-local:pd-leader-without-local-tso",
				fmt.Sprintf("the PD leader runs with enable-local-tso=false while another member leads the allocator of dc-2: dc-2 answered (%d,%d), then a Global request was answered (%d,%d, suffix width %d)", l1.Physical, l1.Logical, g.Physical, g.Logical, g.SuffixBits),
				map[string]interface{}{"local": []int64{l1.Physical, l1.Logical}, "global": []int64{g.Physical, g.Logical}}})
		case err2 == nil && le(l2, g):
			viols = append(viols, viol{"C05:local-not-above-earlier-global:pd-leader-without-local-tso",
				fmt.Sprintf("the PD leader runs with enable-local-tso=false while another member leads the allocator of dc-2: a Global request was answered (%d,%d), then dc-2 answered (%d,%d)", g.Physical, g.Logical, l2.Physical, l2.Logical),
				map[string]interface{}{"global": []int64{g.Physical, g.Logical}, "local": []int64{l2.Physical, l2.Logical}}})
		}
		time.Sleep(20 * time.Millisecond)
	}
	return done
}

// failSuffixKV makes every transaction that creates the suffix key of one dc-location fail (an etcd write error during a join).
type failSuffixKV struct {
	clientv3.KV
	dc string
}

type failSuffixTxn struct {
	clientv3.Txn
	fail bool
	dc   string
}

func (k *failSuffixKV) Txn(ctx context.Context) clientv3.Txn {
	return &failSuffixTxn{Txn: k.KV.Txn(ctx), dc: k.dc}
}
func (t *failSuffixTxn) If(cs ...clientv3.Cmp) clientv3.Txn { t.Txn = t.Txn.If(cs...); return t }
func (t *failSuffixTxn) Then(ops ...clientv3.Op) clientv3.Txn {
	for _, o := range ops {
		if o.IsPut() && strings.HasSuffix(string(o.KeyBytes()), "local-tso-suffix/"+t.dc) {
			t.fail = true
		}
	}
	t.Txn = t.Txn.Then(ops...)
	return t
}
func (t *failSuffixTxn) Else(ops ...clientv3.Op) clientv3.Txn { t.Txn = t.Txn.Else(ops...); return t }
func (t *failSuffixTxn) Commit() (*clientv3.TxnResponse, error) {
	if t.fail {
		return nil, status.Error(codes.Unavailable, "verif: injected failure of the suffix write")
	}
	return t.Txn.Commit()
}

// firstDCPhase (background, its own real server started WITHOUT any dc-location): Global timestamps are handed out on
// the plain path and the Global TSO is reset one hour ahead; then the first dc-location joins: its first Local
// timestamp has to be above the Global timestamps returned before. Then a dc-location joins whose suffix cannot be
// written: as long as it has no persisted suffix its allocator must not hand out timestamps.
func firstDCPhase() func(R *res.Result) {
	type viol struct {
		sig, desc string
		data      interface{}
	}
	var viols []viol
	var notes []string
	counts := map[string]int{}
	done := func(R *res.Result) {
		for _, v := range viols {
			R.Violate(v.sig, v.desc, v.data)
		}
		R.Notes = append(R.Notes, notes...)
		for k, n := range counts {
			R.CountN(k, n)
		}
	}
	c, err := pdcluster.Start(1, func(i int, cfg *config.Config) {
		cfg.EnableLocalTSO = true
		cfg.TSOUpdatePhysicalInterval = typeutil.NewDuration(50 * time.Millisecond)
	})
	if err != nil {
		notes = append(notes, "first-dc phase skipped: "+err.Error())
		return done
	}
	defer c.Close()
	if c.WaitLeader(60*time.Second) == nil {
		notes = append(notes, "first-dc phase skipped: no PD leader")
		return done
	}
	s := c.Nodes[0].S
	am := s.GetTSOAllocatorManager()
	var g pdpb.Timestamp
	ok := false
	for deadline := time.Now().Add(20 * time.Second); time.Now().Before(deadline); time.Sleep(50 * time.Millisecond) {
		if _, err := am.HandleTSORequest(tso.GlobalDCLocation, 1); err == nil {
			ok = true
			break
		}
	}
	if !ok {
		notes = append(notes, "first-dc phase skipped: no Global timestamp")
		return done
	}
	ga, err := am.GetAllocator(tso.GlobalDCLocation)
	if err != nil {
		return done
	}
	if err := ga.SetTSO(compose(time.Now().UnixNano()/1e6+3600*1000, 0)); err != nil {
		notes = append(notes, "first-dc phase skipped: reset refused: "+err.Error())
		return done
	}
	for k := 0; k < 3; k++ {
		if t, err := am.HandleTSORequest(tso.GlobalDCLocation, 1); err == nil {
			g = t
		}
	}
	if g.Physical == 0 {
		return done
	}
	// while dc-first starts, every etcd transaction that deletes a next-leader key takes 300 ms (a slow etcd at that
	// moment), and a client keeps asking dc-first for timestamps: whatever it is given has to be above g already
	origKV := s.GetClient().KV
	s.GetClient().KV = &slowNextLeaderKV{KV: origKV}
	var hmu sync.Mutex
	var early *pdpb.Timestamp
	hstop := make(chan struct{})
	hdone := make(chan struct{})
	go func() {
		defer close(hdone)
		for {
			select {
			case <-hstop:
				return
			default:
			}
			if l, err := am.HandleTSORequest("dc-first", 1); err == nil && (l.Physical < g.Physical || (l.Physical == g.Physical && l.Logical <= g.Logical)) {
				hmu.Lock()
				if early == nil {
					early = &l
				}
				hmu.Unlock()
			}
			time.Sleep(time.Millisecond)
		}
	}()
	joined := dclife.Join(s, "dc-first", 616161, 30*time.Second)
	time.Sleep(400 * time.Millisecond)
	close(hstop)
	<-hdone
	s.GetClient().KV = origKV
	if !joined {
		notes = append(notes, "first-dc phase incomplete: dc-first was not served within 30 s")
		return done
	}
	counts["first-dc:probed"]++
	if early != nil {
		viols = append(viols, viol{"C05:local-not-above-earlier-global:allocator-serving-before-it-was-raised",
			fmt.Sprintf("the Global timestamp (%d,%d) had been returned; while the Local allocator of the joining dc-first started (etcd slow at that moment) a client was given (%d,%d)", g.Physical, g.Logical, early.Physical, early.Logical),
			map[string]interface{}{"global": []int64{g.Physical, g.Logical}, "local": []int64{early.Physical, early.Logical}}})
		return done
	}
	if l, err := am.HandleTSORequest("dc-first", 1); err == nil && (l.Physical < g.Physical || (l.Physical == g.Physical && l.Logical <= g.Logical)) {
		viols = append(viols, viol{"C05:local-not-above-earlier-global:first-dc-location-of-the-cluster",
			fmt.Sprintf("a cluster without dc-locations returned the Global timestamp (%d,%d) (after a reset one hour ahead); then the first dc-location joined and its first Local timestamp is (%d,%d)", g.Physical, g.Logical, l.Physical, l.Logical),
			map[string]interface{}{"global": []int64{g.Physical, g.Logical}, "local": []int64{l.Physical, l.Logical}}})
	}
	// the logical part of dc-first's memory is pushed beyond 18 bits by a batch that cannot be granted (it is refused, the
	// counter has moved all the same until the next tick); a Global request right then has to see that memory as what it
	// is: larger than its estimate
	if fa, err := am.GetAllocator("dc-first"); err == nil {
		for round := 0; round < 4 && len(viols) == 0; round++ {
			l1, err := am.HandleTSORequest("dc-first", 5)
			if err != nil {
				continue
			}
			_, _, rawl, _, _ := tso.VerifState(fa)
			bdone := make(chan struct{})
			go func() {
				am.HandleTSORequest("dc-first", uint32(int64(1<<18)-rawl+8))
				close(bdone)
			}()
			time.Sleep(2 * time.Millisecond)
			gg, gerr := am.HandleTSORequest(tso.GlobalDCLocation, 1)
			<-bdone
			counts["overflowed-local-memory:probed"]++
			if gerr == nil && (gg.Physical < l1.Physical || (gg.Physical == l1.Physical && gg.Logical <= l1.Logical)) {
				viols = append(viols, viol{"C05:global-not-above-earlier-local:local-memory-beyond-18-bits",
					fmt.Sprintf("dc-first answered (%d,%d); a batch that cannot be granted pushed its logical counter beyond 18 bits; the Global request that followed was answered (%d,%d): not greater", l1.Physical, l1.Logical, gg.Physical, gg.Logical),
					map[string]interface{}{"local": []int64{l1.Physical, l1.Logical}, "global": []int64{gg.Physical, gg.Logical}}})
			}
			time.Sleep(120 * time.Millisecond)
		}
	}
	// two dc-locations whose names differ only by a path prefix ("r1/dc-slash" and "dc-slash"): two suffixes
	if dclife.Join(s, "r1/dc-slash", 646464, 20*time.Second) && dclife.Join(s, "dc-slash", 656565, 20*time.Second) {
		counts["slash-name:probed"]++
		info := am.GetClusterDCLocations()
		if a, b := info["r1/dc-slash"].Suffix, info["dc-slash"].Suffix; a == b {
			viols = append(viols, viol{"C05:suffix-shared-by-two-dc-locations:name-with-a-path-separator",
				fmt.Sprintf("dc-location r1/dc-slash joined and was given suffix %d; dc-location dc-slash joined afterwards and was given suffix %d", a, b),
				map[string]interface{}{"r1/dc-slash": a, "dc-slash": b}})
		}
	} else {
		notes = append(notes, "first-dc phase: the dc-locations with a path separator in the name were not served within 20 s")
	}
	// a dc-location whose suffix cannot be written
	orig := s.GetClient().KV
	s.GetClient().KV = &failSuffixKV{KV: orig, dc: "dc-nosuffix"}
	defer func() { s.GetClient().KV = orig }()
	ctx, cancel := context.WithTimeout(context.Background(), 5*time.Second)
	_, err = orig.Put(ctx, s.GetMember().GetDCLocationPath(626262), "dc-nosuffix")
	cancel()
	if err != nil {
		return done
	}
	counts["no-suffix:probed"]++
	for deadline := time.Now().Add(3 * time.Second); time.Now().Before(deadline); time.Sleep(50 * time.Millisecond) {
		am.ClusterDCLocationChecker()
		if !dclife.Serves(am, "dc-nosuffix") {
			continue
		}
		t, err := am.HandleTSORequest("dc-nosuffix", 1)
		if err != nil {
			continue
		}
		r, _ := orig.Get(context.Background(), fmt.Sprintf("/pd/%d", s.ClusterID()), clientv3.WithPrefix(), clientv3.WithKeysOnly())
		stored := false
		if r != nil {
			for _, kv := range r.Kvs {
				if strings.HasSuffix(string(kv.Key), "local-tso-suffix/dc-nosuffix") {
					stored = true
				}
			}
		}
		if !stored {
			viols = append(viols, viol{"C05:allocator-serving-without-a-persisted-suffix",
				fmt.Sprintf("the suffix of dc-nosuffix could not be written (etcd error at every attempt); its Local allocator serves all the same: (%d,%d), suffix width %d, suffix known to the PD leader %d", t.Physical, t.Logical, t.SuffixBits, am.GetClusterDCLocations()["dc-nosuffix"].Suffix),
				map[string]interface{}{"timestamp": []int64{t.Physical, t.Logical}, "suffix_bits": t.SuffixBits, "suffix": am.GetClusterDCLocations()["dc-nosuffix"].Suffix}})
		}
		break
	}
	return done
}

// slowNextLeaderKV delays every transaction that deletes a next-leader key of an allocator by 300 ms.
type slowNextLeaderKV struct{ clientv3.KV }

type slowNextLeaderTxn struct {
	clientv3.Txn
	slow bool
}

func (k *slowNextLeaderKV) Txn(ctx context.Context) clientv3.Txn {
	return &slowNextLeaderTxn{Txn: k.KV.Txn(ctx)}
}
func (t *slowNextLeaderTxn) If(cs ...clientv3.Cmp) clientv3.Txn { t.Txn = t.Txn.If(cs...); return t }
func (t *slowNextLeaderTxn) Then(ops ...clientv3.Op) clientv3.Txn {
	for _, o := range ops {
		if o.IsDelete() && strings.Contains(string(o.KeyBytes()), "next-leader") {
			t.slow = true
		}
	}
	t.Txn = t.Txn.Then(ops...)
	return t
}
func (t *slowNextLeaderTxn) Else(ops ...clientv3.Op) clientv3.Txn {
	t.Txn = t.Txn.Else(ops...)
	return t
}
func (t *slowNextLeaderTxn) Commit() (*clientv3.TxnResponse, error) {
	if t.slow {
		time.Sleep(300 * time.Millisecond)
	}
	return t.Txn.Commit()
}
