// Driver for C05: one real server.Server with Local TSO enabled serving two dc-locations (dc-1 by its own
// label, dc-2 through a fabricated dc-location entry), so that Global TSO generation goes through the real
// gRPC SyncMaxTS path. Histories of local / global requests and SetTSO, memories read after every call;
// a concurrent stress of Global requests while a local allocator runs ahead (regression of the fixed
// duplicate-timestamp defect); CalSuffixBits and differentiateLogical against the model on their domains.
package main

import (
	"context"
	"encoding/json"
	"flag"
	"fmt"
	"os"
	"path"
	"strings"
	"sync"
	"time"

	"github.com/tikv/pd/pkg/typeutil"
	"github.com/tikv/pd/server"
	"github.com/tikv/pd/server/config"
	"github.com/tikv/pd/server/tso"

	"pdverif/internal/coqfmt"
	"pdverif/internal/res"
	"pdverif/internal/rng"
	"pdverif/internal/srv15"
)

type op struct {
	K    string // Local Global Set Mem
	D    int    // dc index (0 = dc-1) ; -1 = global (Set)
	C    uint32
	Dmax int
	P, L int64 // Global: the implementation's answer; Set: target
	Rel  string
}

func (o op) coq() string {
	switch o.K {
	case "Local":
		return fmt.Sprintf("OLocal %d %d", o.D, o.C)
	case "Global":
		return fmt.Sprintf("OGlobal %d %d%%nat %s %s", o.C, o.Dmax, coqfmt.Z(o.P), coqfmt.Z(o.L))
	case "Set":
		w := "WGlobal"
		if o.D >= 0 {
			w = fmt.Sprintf("(WLocal %d)", o.D)
		}
		return fmt.Sprintf("OSet %s %s %s", w, coqfmt.Z(o.P), coqfmt.Z(o.L))
	}
	return "OMem"
}

type world struct {
	s     *server.Server
	am    *tso.AllocatorManager
	dcs   []string
	bits  int
	lastG time.Time // last time the driver touched the Global allocator (bounds the estimate's offset)
}

func compose(physMs int64, logical int64) uint64 { return uint64(physMs)<<18 | uint64(logical)&0x3FFFF }

func (w *world) alloc(d int) tso.Allocator {
	name := tso.GlobalDCLocation
	if d >= 0 {
		name = w.dcs[d]
	}
	a, err := w.am.GetAllocator(name)
	if err != nil {
		panic(err)
	}
	return a
}

func (w *world) mem(d int) (int64, int64) {
	p, init, l, _, _ := tso.VerifState(w.alloc(d))
	if !init {
		panic("allocator not initialised")
	}
	return p / 1e6, l
}

func tsStr(p, l int64) string { return "(" + coqfmt.Z(p) + ", " + coqfmt.Z(l) + ")" }

func (w *world) memObs() string {
	gp, gl := w.mem(-1)
	ls := make([]string, len(w.dcs))
	for d := range w.dcs {
		p, l := w.mem(d)
		ls[d] = tsStr(p, l)
	}
	return "BMems " + tsStr(gp, gl) + " " + coqfmt.List(ls)
}

func (w *world) exec(o *op) string {
	switch o.K {
	case "Local":
		t, err := w.am.HandleTSORequest(w.dcs[o.D], o.C)
		if err != nil {
			return "BErr"
		}
		return "BTs " + coqfmt.Z(t.Physical) + " " + coqfmt.Z(t.Logical)
	case "Global":
		o.Dmax = int(time.Since(w.lastG).Milliseconds()) + 60 // + 2*RTT of the loop-back gRPC calls, generous under load
		t, err := w.am.HandleTSORequest(tso.GlobalDCLocation, o.C)
		w.lastG = time.Now()
		if err != nil {
			o.P, o.L = 0, 0
			return "BErr"
		}
		o.P, o.L = t.Physical, t.Logical
		return "BTs " + coqfmt.Z(t.Physical) + " " + coqfmt.Z(t.Logical)
	case "Set":
		err := w.alloc(o.D).SetTSO(compose(o.P, o.L))
		if o.D < 0 {
			w.lastG = time.Now()
		}
		if err != nil {
			return "BErr"
		}
		return "BOk"
	}
	return w.memObs()
}

type caseRec struct {
	G0   [2]int64
	L0   [][2]int64
	Bits int
	Ops  []op
	Obs  []string
}

func (c caseRec) coq() string {
	ops := make([]string, len(c.Ops))
	for i, o := range c.Ops {
		ops[i] = o.coq()
	}
	l0 := make([]string, len(c.L0))
	for i, m := range c.L0 {
		l0[i] = tsStr(m[0], m[1])
	}
	return fmt.Sprintf("(%d%%nat, %d, %s, %s, %s,\n  %s)", len(c.L0), c.Bits, tsStr(c.G0[0], c.G0[1]), coqfmt.List(l0), coqfmt.List(ops), coqfmt.List(c.Obs))
}

func (w *world) runCase(r *rng.R, fixed []op, maxOps int) caseRec {
	var c caseRec
	c.Bits = w.bits
	gp, gl := w.mem(-1)
	c.G0 = [2]int64{gp, gl}
	for d := range w.dcs {
		p, l := w.mem(d)
		c.L0 = append(c.L0, [2]int64{p, l})
	}
	do := func(o op) {
		b := w.exec(&o)
		c.Ops = append(c.Ops, o)
		c.Obs = append(c.Obs, b)
	}
	if fixed != nil {
		for _, o := range fixed {
			do(o)
		}
		return c
	}
	n := 6 + r.Intn(maxOps)
	for k := 0; k < n; k++ {
		switch r.Pick(40, 30, 18, 12) {
		case 0:
			cnt := uint32(1)
			if r.Pct(40) {
				cnt = uint32(1 + r.Intn(200))
			}
			do(op{K: "Local", D: r.Intn(len(w.dcs)), C: cnt})
		case 1:
			cnt := uint32(1)
			if r.Pct(50) {
				cnt = uint32(1 + r.Intn(100))
			}
			do(op{K: "Global", C: cnt})
		case 2:
			// shape the memories: put an allocator ahead of / level with / behind the others
			d := r.Intn(len(w.dcs)+1) - 1
			p, l := w.mem(d)
			var tp, tl int64
			var rel string
			switch r.Pick(30, 25, 25, 20) {
			case 0:
				tp, tl, rel = p, l+int64(1+r.Intn(500)), "same-physical-ahead"
			case 1:
				tp, tl, rel = p+int64(1+r.Intn(3)), int64(r.Intn(300)), "next-physical"
			case 2:
				// level with another allocator
				e := r.Intn(len(w.dcs)+1) - 1
				tp, tl = w.mem(e)
				rel = "level-with-another"
			default:
				tp, tl, rel = p-1, l, "behind (rejected)"
			}
			do(op{K: "Set", D: d, P: tp, L: tl, Rel: rel})
		case 3:
			do(op{K: "Mem"})
		}
		if r.Pct(60) {
			do(op{K: "Mem"})
		}
	}
	do(op{K: "Mem"})
	return c
}

// stress: concurrent Global requests while dc-1 is being used; every answer must be distinct and every
// Global answer must exceed every answer (Global or dc-1) that was complete before the request began
func (w *world) stress(R *res.Result, dur time.Duration) {
	stop := make(chan struct{})
	var wg sync.WaitGroup
	type ans struct {
		p, l       int64
		begin, end int64
		global     bool
	}
	var mu sync.Mutex
	var all []ans
	wg.Add(1)
	go func() {
		defer wg.Done()
		for {
			select {
			case <-stop:
				return
			default:
				b := time.Now().UnixNano()
				t, err := w.am.HandleTSORequest(w.dcs[0], 3)
				if err == nil {
					mu.Lock()
					all = append(all, ans{t.Physical, t.Logical, b, time.Now().UnixNano(), false})
					mu.Unlock()
				}
			}
		}
	}()
	for k := 0; k < 6; k++ {
		wg.Add(1)
		go func() {
			defer wg.Done()
			for {
				select {
				case <-stop:
					return
				default:
					b := time.Now().UnixNano()
					t, err := w.am.HandleTSORequest(tso.GlobalDCLocation, 1)
					if err == nil {
						mu.Lock()
						all = append(all, ans{t.Physical, t.Logical, b, time.Now().UnixNano(), true})
						mu.Unlock()
					}
				}
			}
		}()
	}
	time.Sleep(dur)
	close(stop)
	wg.Wait()
	seen := map[[2]int64]int{}
	nglob := 0
	for i, a := range all {
		if a.global {
			nglob++
		}
		k := [2]int64{a.p, a.l}
		if j, ok := seen[k]; ok {
			R.Violate("C05:equal-timestamps:concurrent-global-requests",
				fmt.Sprintf("two answers carry the same timestamp (%d,%d) under concurrent Global requests", a.p, a.l),
				map[string]interface{}{"first": all[j], "second": a})
		}
		seen[k] = i
	}
	// real-time order for Global answers (quadratic on a bounded sample)
	lim := len(all)
	if lim > 4000 {
		lim = 4000
	}
	for i := 0; i < lim; i++ {
		if !all[i].global {
			continue
		}
		for j := 0; j < lim; j++ {
			if all[j].end < all[i].begin && (all[j].p > all[i].p || (all[j].p == all[i].p && all[j].l >= all[i].l)) {
				R.Violate("C05:global-not-above-earlier-timestamp:concurrent",
					"a Global answer is not above an answer that was complete before the request began",
					map[string]interface{}{"earlier": all[j], "global": all[i]})
			}
		}
	}
	R.CountN("stress:answers", len(all))
	R.CountN("stress:global-answers", nglob)
}

// leaderless: the allocator of dc-2 is being moved to a member that never takes over (next-leader key written, current
// holder resigned, as PriorityChecker does): Global requests cannot synchronise with dc-2. They may be refused, but an
// answer must still lie above every Local timestamp returned before the request began.
func (w *world) leaderless(R *res.Result) {
	if err := w.am.TransferAllocatorForDCLocation("dc-2", 424242); err != nil {
		R.Notes = append(R.Notes, "leaderless phase skipped: "+err.Error())
		return
	}
	w.am.ResetAllocatorGroup("dc-2")
	holds := func() bool {
		ls, err := w.am.GetHoldingLocalAllocatorLeaders()
		if err != nil {
			return false
		}
		for _, l := range ls {
			if l.GetDCLocation() == "dc-2" && l.IsAllocatorLeader() {
				return true
			}
		}
		return false
	}
	answered, refused := 0, 0
	for r := 0; r < 10 && !holds(); r++ {
		lt, err := w.am.HandleTSORequest("dc-1", 100)
		if err != nil {
			continue
		}
		gt, err := w.am.HandleTSORequest(tso.GlobalDCLocation, 1)
		if err != nil {
			refused++
			continue
		}
		answered++
		if gt.Physical < lt.Physical || (gt.Physical == lt.Physical && gt.Logical <= lt.Logical) {
			R.Violate("C05:global-not-above-earlier-timestamp:dc-without-allocator-leader",
				fmt.Sprintf("dc-2 has no allocator leader, yet a Global timestamp (%d,%d) was returned that is not above the Local timestamp (%d,%d) of dc-1 returned before the request began", gt.Physical, gt.Logical, lt.Physical, lt.Logical),
				map[string]interface{}{"local": []int64{lt.Physical, lt.Logical}, "global": []int64{gt.Physical, gt.Logical}})
		}
	}
	R.CountN("leaderless:global-answered", answered)
	R.CountN("leaderless:global-refused", refused)
}

func main() {
	seed := flag.Uint64("seed", 1, "")
	n := flag.Int("n", 150, "number of generated cases")
	out := flag.String("out", ".", "output directory")
	tier := flag.String("tier", "quick", "")
	corpus := flag.String("corpus", "", "")
	replay := flag.String("replay", "", "")
	stressMs := flag.Int("stress-ms", 700, "")
	withCluster := flag.Bool("cluster", true, "run the three-member cluster phase")
	flag.Parse()

	R := res.New("C05", *seed, *tier)
	R.Rule = "one real server with Local TSO enabled holding the allocators of dc-1 and dc-2 (Global requests use the real gRPC SyncMaxTS rounds): " +
		"sequential histories of local requests (counts 1..200), Global requests (counts 1..100) and SetTSO that puts an allocator ahead of, level with or " +
		"behind the others; all three memories are read after most calls; plus a concurrent stress (6 Global clients, 1 local client) checked for equal " +
		"answers and real-time order, and CalSuffixBits / differentiateLogical on their whole domains; non-trivial = a case with a Global request whose " +
		"answer came from the fall-back to a local maximum and at least one SetTSO; distinct by sha256 of canonical (ops,obs)"

	prep := make(chan *prepared, 1)
	var mixed chan func(*res.Result)
	if *withCluster && *replay == "" {
		go func() { prep <- prepareCluster() }()
		mixed = make(chan func(*res.Result), 2)
		go func() { mixed <- mixedFlagPhase() }()
		go func() { mixed <- firstDCPhase() }()
	}
	cfg, err := srv15.Config()
	if err != nil {
		panic(err)
	}
	cfg.EnableLocalTSO = true
	cfg.Labels = map[string]string{config.ZoneLabel: "dc-1"}
	cfg.TSOUpdatePhysicalInterval = typeutil.NewDuration(10 * time.Second)
	cfg.TSOSaveInterval = typeutil.NewDuration(3 * time.Second)
	x, err := srv15.StartWith(cfg)
	if err != nil {
		fmt.Fprintln(os.Stderr, "server:", err)
		os.Exit(2)
	}
	defer x.Close()
	started := time.Now()
	s := x.S
	am := s.GetTSOAllocatorManager()
	if _, err := s.GetClient().Put(context.Background(), s.GetMember().GetDCLocationPath(424242), "dc-2"); err != nil {
		panic(err)
	}
	deadline := time.Now().Add(30 * time.Second)
	for {
		am.ClusterDCLocationChecker()
		ok := true
		for _, dc := range []string{"dc-1", "dc-2"} {
			a, err := am.GetAllocator(dc)
			if err != nil || !a.IsInitialize() || !a.(*tso.LocalTSOAllocator).IsAllocatorLeader() {
				ok = false
			}
		}
		if ok {
			break
		}
		if time.Now().After(deadline) {
			fmt.Fprintln(os.Stderr, "local allocators not ready")
			os.Exit(2)
		}
		time.Sleep(50 * time.Millisecond)
	}
	w := &world{s: s, am: am, dcs: []string{"dc-1", "dc-2"}, bits: am.GetSuffixBits(), lastG: started.Add(-30 * time.Second)}
	if *replay == "" {
		w.sameMillisecondWriteProbe(R)
	}
	// the first estimate of a run may be far from the last update of the Global memory: warm up
	am.HandleTSORequest(tso.GlobalDCLocation, 1)
	w.lastG = time.Now()
	info := am.GetClusterDCLocations()
	if info["dc-1"].Suffix != 1 || info["dc-2"].Suffix != 2 {
		panic(fmt.Sprintf("unexpected suffixes %v", info))
	}

	cf := &coqfmt.CaseFile{Dir: *out, Prefix: "C05", PerFile: 50,
		Header: "From Coq Require Import ZArith String.\nFrom PDV Require Import lib.Base model.C05_TsoGlobal model.C05_Ops.\nLocal Open Scope Z_scope.\nOpen Scope string_scope.\n",
		Type:   "tcase",
		Footer: "Definition M := Eval vm_compute in map fst (mismatches cases).\nDefinition D := Eval vm_compute in hd_error (mismatches cases).\nDefinition V := Eval vm_compute in monitor_fails cases.\nPrint M. Print D. Print V.\n"}

	var fixed [][]op
	for _, f := range []string{*corpus, *replay} {
		if f == "" {
			continue
		}
		b, err := os.ReadFile(f)
		if err != nil {
			panic(err)
		}
		var l [][]op
		if err := json.Unmarshal(b, &l); err != nil {
			var wr struct {
				Replay struct{ Ops []op }
			}
			if err2 := json.Unmarshal(b, &wr); err2 != nil || len(wr.Replay.Ops) == 0 {
				panic(err)
			}
			l = [][]op{wr.Replay.Ops}
		}
		fixed = append(fixed, l...)
	}
	var all []caseRec
	emit := func(c caseRec) {
		fallback, sets := 0, 0
		for i, o := range c.Ops {
			R.Count("op:" + o.K)
			R.Count("obs:" + strings.Fields(c.Obs[i])[0])
			if o.Rel != "" {
				R.Count("settso:" + o.Rel)
			}
			if o.K == "Set" && c.Obs[i] == "BOk" {
				sets++
			}
			if o.K == "Global" && o.P != 0 {
				fallback++
			}
		}
		txt := c.coq()
		R.Case(txt, fallback > 0 && sets > 0)
		R.Sample(map[string]interface{}{"g0": c.G0, "l0": c.L0, "ops": c.Ops, "obs": c.Obs})
		if err := cf.Add(txt); err != nil {
			panic(err)
		}
		all = append(all, c)
		if *replay != "" {
			for i := range c.Ops {
				fmt.Printf("%-50s -> %s\n", c.Ops[i].coq(), c.Obs[i])
			}
		}
	}
	// the allocator daemon ticks every 10 s: keep cases away from the ticks
	awayFromTick := func() {
		el := time.Since(started) % (10 * time.Second)
		if el > 9200*time.Millisecond || el < 300*time.Millisecond {
			time.Sleep(1200 * time.Millisecond)
		}
	}
	for _, f := range fixed {
		awayFromTick()
		emit(w.runCase(nil, f, 0))
	}
	if *replay == "" {
		master := rng.New(*seed)
		for k := 0; k < *n; k++ {
			awayFromTick()
			emit(w.runCase(master.Fork(uint64(k)), nil, 25))
		}
		w.stress(R, time.Duration(*stressMs)*time.Millisecond)
		w.failedWriteProbe(R)
		w.dcLifeProbe(R) // before the Global TSO is reset beyond max-gap-reset-ts (no new allocator could start after that)
		w.farResetProbe(R)
		w.suffixRaceProbe(R)
		w.leaderless(R)
		if *withCluster {
			clusterPhase(R, <-prep)
			(<-mixed)(R)
			(<-mixed)(R)
		}
	}
	if err := cf.Flush(); err != nil {
		panic(err)
	}
	// pure parts on their domains, checked by Coq in an extra case file
	var bl, dl []string
	for ms := int32(0); ms <= 40; ms++ {
		bl = append(bl, fmt.Sprintf("(%d, %d)", ms, tso.CalSuffixBits(ms)))
		// the width calculated for a largest suffix holds that suffix (and every smaller one)
		if b := tso.CalSuffixBits(ms); b < 0 || b > 62 || int64(ms) >= int64(1)<<uint(b) {
			R.Violate("C05:suffix-does-not-fit-the-width-calculated-for-it",
				fmt.Sprintf("CalSuffixBits(%d) = %d: the suffix %d does not fit into %d bits, so it spills into the raw logical part of a timestamp", ms, b, ms, b),
				map[string]interface{}{"max_suffix": ms, "bits": b})
			break
		}
	}
	for _, ms := range []int32{63, 64, 65, 127, 128, 255, 256, 1023, 1024, 65535, 65536, 1<<20 - 1, 1 << 20, 1<<30 - 1, 1 << 30, 1<<31 - 2} {
		bl = append(bl, fmt.Sprintf("(%d, %d)", ms, tso.CalSuffixBits(ms)))
	}
	rr := rng.New(*seed ^ 0x5bd1)
	for k := 0; k < 400; k++ {
		raw := int64(rr.Intn(1 << 17))
		bits := rr.Intn(tso.MaxSuffixBits + 1)
		sfx := rr.Intn(1 << uint(bits))
		dl = append(dl, fmt.Sprintf("(%d, %d, %d, %d)", raw, bits, sfx, tso.VerifDifferentiate(raw, bits, sfx)))
	}
	pure := "From Coq Require Import ZArith List.\nFrom PDV Require Import lib.Base model.C05_TsoGlobal model.C05_Ops.\nImport ListNotations.\nLocal Open Scope Z_scope.\n" +
		"Definition M := Eval vm_compute in map (fun p => Z.to_nat (fst p)) (bits_mismatches " + coqfmt.List(bl) + ") ++ map (fun q => 0%nat) (diff_mismatches " + coqfmt.List(dl) + ").\n" +
		"Definition D := Eval vm_compute in (bits_mismatches " + coqfmt.List(bl) + ", diff_mismatches " + coqfmt.List(dl) + ").\n" +
		"Definition V : list nat := [].\nPrint M. Print D. Print V.\n"
	pf := path.Join(*out, "cases_C05_pure.v")
	if err := os.WriteFile(pf, []byte(pure), 0o644); err != nil {
		panic(err)
	}
	R.CountN("pure:CalSuffixBits-values", len(bl))
	R.CountN("pure:differentiateLogical-values", len(dl))
	R.CaseFiles = append(cf.Files, pf)
	if joinCase != nil {
		// the cluster phase's history, replayed on model/C05_Join.v: (who, suffix, width) of every answer
		jf := path.Join(*out, "cases_C05_join.v")
		src := "From Coq Require Import ZArith List.\nFrom PDV Require Import lib.Base model.C05_TsoGlobal model.C05_Join.\nImport ListNotations.\nLocal Open Scope Z_scope.\n" +
			"Definition hist : list jlabel := " + coqfmt.List(joinCase.labels) + ".\n" +
			"Definition observed : list (option nat * Z * Z) := " + coqfmt.List(joinCase.obs) + ".\n" +
			"Definition predicted := map (fun r => (jwho r, jsfx r, jw r)) (rev (jout (jreach 1 (1000, 0) hist))).\n" +
			"Definition obs_eqb (a b : option nat * Z * Z) : bool := match a, b with (w1, s1, b1), (w2, s2, b2) => opt_eqb Nat.eqb w1 w2 && (s1 =? s2) && (b1 =? b2) end.\n" +
			"Definition M := Eval vm_compute in match diff_at obs_eqb 0 predicted observed with [] => [] | _ => [0%nat] end.\n" +
			"Definition D := Eval vm_compute in (diff_at obs_eqb 0 predicted observed, length predicted, length observed).\n" +
			"Definition V : list nat := [].\nPrint M. Print D. Print V.\n"
		if err := os.WriteFile(jf, []byte(src), 0o644); err != nil {
			panic(err)
		}
		R.CountN("cluster:answers-replayed-on-the-join-model", len(joinCase.obs))
		R.CaseFiles = append(R.CaseFiles, jf)
	}
	b, _ := json.Marshal(all)
	os.WriteFile(path.Join(*out, "cases.json"), b, 0o644)
	if err := R.Write(path.Join(*out, "result.json")); err != nil {
		panic(err)
	}
}
