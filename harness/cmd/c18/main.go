// Driver for C18: runs the REAL server.Set*Config / SetLabelProperty / DeleteLabelProperty /
// SetClusterVersion / SetReplicationModeConfig of a real bootstrapped pd server on generated histories
// (valid and invalid values, a storage fault at a chosen write), observes Server.Get*Config, the served default
// placement rule, a fresh PersistOptions.Reload from the same storage and the stored default rule after
// every call, and prints (boot, ops, observations) as Coq terms for model/C18_Config.v.
package main

import (
	"bytes"
	"context"
	"crypto/sha256"
	"encoding/hex"
	"encoding/json"
	"errors"
	"flag"
	"fmt"
	"math"
	"net/http"
	"net/http/httptest"
	"os"
	"path"
	"sort"
	"strconv"
	"strings"
	"sync"
	"time"

	"github.com/coreos/go-semver/semver"
	"github.com/pingcap/kvproto/pkg/metapb"
	"github.com/tikv/pd/pkg/typeutil"
	"github.com/tikv/pd/server"
	"github.com/tikv/pd/server/api"
	"github.com/tikv/pd/server/cluster"
	"github.com/tikv/pd/server/config"
	"github.com/tikv/pd/server/core"
	"github.com/tikv/pd/server/core/storelimit"
	"github.com/tikv/pd/server/kv"

	"go.etcd.io/etcd/clientv3"
	"go.etcd.io/etcd/etcdserver/api/v3rpc/rpctypes"

	"pdverif/internal/coqfmt"
	"pdverif/internal/kvx14"
	"pdverif/internal/res"
	"pdverif/internal/rng"
	"pdverif/internal/srv14"
)

// ---------- model-side data ----------
type sched struct {
	Tol, Low, High int64 // thousandths
	Scheds         []string
	Dis            []bool // 6
	Sbr            int64
	Pay            int64
}
type repl struct {
	Max    int64
	Labels []string
	Iso    string
	PR     bool
	Strict bool
}
type pdsrv struct {
	Dash  string
	Digit int64
	Trace bool
	Key   string
}
type kvp struct{ K, V string }
type lpEntry struct {
	Typ    string
	Labels []kvp
}
type rmode struct{ Mode, Label string }
type lim struct {
	ID       uint64
	Add, Rem int64 // thousandths
}
type conf struct {
	Sched  sched
	Repl   repl
	PD     pdsrv
	LP     []lpEntry
	Ver    string
	RM     rmode
	Limits []lim // store-limit part of the schedule section, sorted by store id
}
type fault struct {
	On   bool
	G    string // config rule mode
	Idx  int
	Kind int
}
type op struct {
	K       string // sched repl pd setlabel dellabel version mode
	S       sched
	R       repl
	P       pdsrv
	T, L, V string
	Ver     string
	M       rmode
	F       fault
	LM      []lpEntry // labelmap: the whole label-property map
	ID      uint64    // limit: store id
	LT      int       // limit / alllimits: 0 add-peer, 1 remove-peer
	Rate    int64     // thousandths
	Dflt    int64     // limit: the process-wide default of the other type as the call sees it
}
type caseIn struct {
	Boot conf
	Ops  []op
	Via  string `json:",omitempty"` // "api": every operation that can be expressed as an HTTP request goes through the real handler
}
type caseRec struct {
	In  caseIn
	Obs []string
}

func qs(s string) string { return "\"" + strings.ReplaceAll(s, "\"", "\"\"") + "\"" }
func strsCoq(xs []string) string {
	q := make([]string, len(xs))
	for i, x := range xs {
		q[i] = qs(x)
	}
	return coqfmt.List(q)
}
func boolsCoq(xs []bool) string {
	q := make([]string, len(xs))
	for i, x := range xs {
		q[i] = coqfmt.Bool(x)
	}
	return coqfmt.List(q)
}
func (c sched) coq() string {
	return fmt.Sprintf("(Sched %s %s %s %s %s %s %s)", coqfmt.Z(c.Tol), coqfmt.Z(c.Low), coqfmt.Z(c.High), strsCoq(c.Scheds), boolsCoq(c.Dis), coqfmt.Z(c.Sbr), coqfmt.Z(c.Pay))
}
func (c repl) coq() string {
	return fmt.Sprintf("(Repl %s %s %s %s %s)", coqfmt.Z(c.Max), strsCoq(c.Labels), qs(c.Iso), coqfmt.Bool(c.PR), coqfmt.Bool(c.Strict))
}
func (c pdsrv) coq() string {
	return fmt.Sprintf("(PdSrv %s %s %s %s)", qs(c.Dash), coqfmt.Z(c.Digit), coqfmt.Bool(c.Trace), qs(c.Key))
}
func lpCoq(m []lpEntry) string {
	xs := make([]string, len(m))
	for i, e := range m {
		ls := make([]string, len(e.Labels))
		for j, l := range e.Labels {
			ls[j] = "(" + qs(l.K) + ", " + qs(l.V) + ")"
		}
		xs[i] = "(" + qs(e.Typ) + ", " + coqfmt.List(ls) + ")"
	}
	return coqfmt.List(xs)
}
func verCoq(v string) (string, bool) {
	sv, err := semver.NewVersion(strings.TrimPrefix(v, "v"))
	if err != nil || sv.PreRelease != "" || sv.Metadata != "" {
		return "", false
	}
	return fmt.Sprintf("(%s, %s, %s)", coqfmt.Z(sv.Major), coqfmt.Z(sv.Minor), coqfmt.Z(sv.Patch)), true
}
func (m rmode) coq() string { return fmt.Sprintf("(RMode %s %s)", qs(m.Mode), qs(m.Label)) }
func (c conf) coq() string {
	v, _ := verCoq(c.Ver)
	ls := make([]string, len(c.Limits))
	for i, l := range c.Limits {
		ls[i] = fmt.Sprintf("(%s, (%s, %s))", coqfmt.ZU(l.ID), coqfmt.Z(l.Add), coqfmt.Z(l.Rem))
	}
	return fmt.Sprintf("(Conf %s %s %s %s %s %s %s)", c.Sched.coq(), c.Repl.coq(), c.PD.coq(), lpCoq(c.LP), v, c.RM.coq(), coqfmt.List(ls))
}
func (f fault) coq() string {
	if !f.On {
		return "NoFault"
	}
	g := map[string]string{"config": "GConfig", "rule": "GRule", "mode": "GMode"}[f.G]
	return fmt.Sprintf("(Fault %s %d %s)", g, f.Idx, []string{"FBefore", "FAfter"}[f.Kind])
}
func (o op) coq() string {
	if o.K == "reload" {
		return "HLeader"
	}
	return "HSet (" + o.setCoq() + ")"
}

func (o op) setCoq() string {
	switch o.K {
	case "sched":
		return "OSetSchedule " + o.S.coq() + " " + o.F.coq()
	case "repl":
		return "OSetReplication " + o.R.coq() + " " + o.F.coq()
	case "pd":
		return "OSetPDServer " + o.P.coq() + " " + o.F.coq()
	case "setlabel":
		return fmt.Sprintf("OSetLabel %s %s %s %s", qs(o.T), qs(o.L), qs(o.V), o.F.coq())
	case "dellabel":
		return fmt.Sprintf("ODelLabel %s %s %s %s", qs(o.T), qs(o.L), qs(o.V), o.F.coq())
	case "version":
		v, ok := verCoq(o.Ver)
		return "OSetVersion " + coqfmt.Opt(v, ok) + " " + o.F.coq()
	case "mode":
		return "OSetMode " + o.M.coq() + " " + o.F.coq()
	case "labelmap":
		return "OSetLabelMap " + lpCoq(o.LM) + " " + o.F.coq()
	case "limit":
		return fmt.Sprintf("OSetStoreLimit %s %s %s %s %s", coqfmt.ZU(o.ID), []string{"LAdd", "LRemove"}[o.LT], coqfmt.Z(o.Rate), coqfmt.Z(o.Dflt), o.F.coq())
	case "alllimits":
		return fmt.Sprintf("OSetAllLimits %s %s %s", []string{"LAdd", "LRemove"}[o.LT], coqfmt.Z(o.Rate), o.F.coq())
	}
	panic("bad op " + o.K)
}

// ---------- the world ----------
type world struct {
	x      *srv14.Srv
	s      *server.Server
	rc     *cluster.RaftCluster
	st     *core.Storage
	kb     *kvx14.Base
	etcdKV kv.Base
	meta   *metapb.Cluster
	self   string // the member's client URL
	base   *config.Config
	notes  map[string]bool
	R      *res.Result
	// a rule write of this case was applied but reported failed: storage is ahead of what is served
	ruleUnknown bool
	unknown     bool // some write of this case was applied but reported failed
	// the real HTTP API handler (server/api) of this server, driven in-process
	api       http.Handler
	steps     []jstep // requests of the current API-path case
	forced    *jstep  // replay: send exactly this recorded request
	flaky     *flakyKV
	flakyBase kv.Base
	onEtcd    bool
}

func group(key string) (string, bool) {
	switch {
	case key == "config":
		return "config", true
	case strings.HasPrefix(key, "rules/"):
		return "rule", true
	case strings.HasPrefix(key, "replication_mode/"):
		return "mode", true
	}
	return "", false
}

func newWorld() (*world, error) {
	x, err := srv14.Start(func(c *config.Config) { c.LeaderLease = 60 })
	if err != nil {
		return nil, err
	}
	if err := x.Bootstrap(&metapb.Store{Id: 1, Address: "boot", Version: "4.0.0"}); err != nil {
		x.Close()
		return nil, err
	}
	w := &world{x: x, s: x.S, rc: x.S.GetRaftCluster(), st: x.S.GetStorage(), notes: map[string]bool{}}
	w.etcdKV = w.st.Base
	w.kb = kvx14.Wrap(w.etcdKV, group)
	w.st.Base = w.kb
	w.meta = w.rc.GetConfig()
	w.self = x.Cfg.ClientUrls
	w.base = w.s.GetConfig()
	h, _, err := api.NewHandler(context.Background(), w.s)
	if err != nil {
		x.Close()
		return nil, err
	}
	w.api = h
	w.flaky = &flakyKV{KV: w.s.GetClient().KV}
	fc := clientv3.NewCtxClient(context.Background())
	fc.KV = w.flaky
	// reads and removes go through the server's own etcd base; Save goes through the real etcdKVBase.Save code over the refusing client
	w.flakyBase = splitBase{Base: w.etcdKV, save: kv.NewEtcdKVBase(fc, path.Join("/pd", strconv.FormatUint(w.s.ClusterID(), 10)))}
	return w, nil
}

var disNames = 6

func nilIfEmpty(xs []string) []string {
	if len(xs) == 0 {
		return nil
	}
	return append([]string(nil), xs...)
}

func (w *world) applySched(dst *config.ScheduleConfig, c sched) {
	dst.TolerantSizeRatio = float64(c.Tol) / 1000
	dst.LowSpaceRatio = float64(c.Low) / 1000
	dst.HighSpaceRatio = float64(c.High) / 1000
	dst.Schedulers = nil
	for _, t := range c.Scheds {
		dst.Schedulers = append(dst.Schedulers, config.SchedulerConfig{Type: t})
	}
	dst.DisableLearner, dst.DisableRemoveDownReplica, dst.DisableReplaceOfflineReplica = c.Dis[0], c.Dis[1], c.Dis[2]
	dst.DisableMakeUpReplica, dst.DisableRemoveExtraReplica, dst.DisableLocationReplacement = c.Dis[3], c.Dis[4], c.Dis[5]
	dst.StoreBalanceRate = float64(c.Sbr) / 1000
	dst.MaxSnapshotCount = uint64(c.Pay)
}
func (w *world) applyRepl(dst *config.ReplicationConfig, c repl) {
	dst.MaxReplicas = uint64(c.Max)
	dst.LocationLabels = typeutil.StringSlice(nilIfEmpty(c.Labels))
	dst.IsolationLevel = c.Iso
	dst.EnablePlacementRules = c.PR
	dst.StrictlyMatchLabel = c.Strict
}
func (w *world) dashIn(d string) string {
	return strings.ReplaceAll(d, "SELF", strings.TrimPrefix(w.self, "http://"))
}
func (w *world) dashOut(d string) string {
	return strings.ReplaceAll(d, strings.TrimPrefix(w.self, "http://"), "SELF")
}
func (w *world) applyPD(dst *config.PDServerConfig, c pdsrv) {
	dst.DashboardAddress = w.dashIn(c.Dash)
	dst.FlowRoundByDigit = int(c.Digit)
	dst.TraceRegionFlow = c.Trace
	dst.KeyType = c.Key
}
func lpMap(m []lpEntry) config.LabelPropertyConfig {
	out := config.LabelPropertyConfig{}
	for _, e := range m {
		for _, l := range e.Labels {
			out[e.Typ] = append(out[e.Typ], config.StoreLabel{Key: l.K, Value: l.V})
		}
	}
	return out
}
func (w *world) applyMode(dst *config.ReplicationModeConfig, m rmode) {
	dst.ReplicationMode = m.Mode
	dst.DRAutoSync.LabelKey = m.Label
	dst.DRAutoSync.Primary, dst.DRAutoSync.DR = "z1", "z2"
	dst.DRAutoSync.PrimaryReplicas, dst.DRAutoSync.DRReplicas = 2, 1
}

func (w *world) wipeEtcd(prefix string) {
	keys, _, err := w.etcdKV.LoadRange(prefix, prefix+"\xff", 1000)
	if err != nil {
		panic(err)
	}
	for _, k := range keys {
		if err := w.etcdKV.Remove(k); err != nil {
			panic(err)
		}
	}
}

// reset: a leader whose options (boot) were just persisted and whose cluster was just started.
func (w *world) reset(boot conf, useEtcd bool) {
	w.onEtcd = useEtcd
	w.rc.Stop()
	if useEtcd {
		w.kb.Inner = w.flakyBase // the server's own etcd base, built over a client whose KV can refuse puts
		for _, p := range []string{"config", "rules/", "rule_group/", "replication_mode/"} {
			w.wipeEtcd(p)
		}
	} else {
		w.kb.Inner = kv.NewMemoryKV()
	}
	w.kb.Arm(nil)
	if err := w.st.SaveMeta(w.meta); err != nil {
		panic(err)
	}
	opt := w.s.GetPersistOptions()
	sc := w.base.Schedule.Clone()
	sc.StoreLimit = map[uint64]config.StoreLimitConfig{}
	for _, l := range boot.Limits {
		sc.StoreLimit[l.ID] = config.StoreLimitConfig{AddPeer: float64(l.Add) / 1000, RemovePeer: float64(l.Rem) / 1000}
	}
	// the process-wide defaults (a package variable, not part of the configuration) start from their initial values in every case
	config.DefaultStoreLimit.SetDefaultStoreLimit(storelimit.AddPeer, 15)
	config.DefaultStoreLimit.SetDefaultStoreLimit(storelimit.RemovePeer, 15)
	w.applySched(sc, boot.Sched)
	opt.SetScheduleConfig(sc)
	rp := w.base.Replication.Clone()
	w.applyRepl(rp, boot.Repl)
	opt.SetReplicationConfig(rp)
	pc := w.base.PDServerCfg.Clone()
	w.applyPD(pc, boot.PD)
	opt.SetPDServerConfig(pc)
	opt.SetLabelPropertyConfig(lpMap(boot.LP))
	opt.SetClusterVersion(semver.New(boot.Ver))
	rm := w.base.ReplicationMode
	w.applyMode(&rm, boot.RM)
	opt.SetReplicationModeConfig(&rm)
	if err := opt.Persist(w.st); err != nil {
		panic(err)
	}
	if err := w.rc.Start(w.s); err != nil {
		panic(err)
	}
	if w.s.GetRaftCluster() == nil {
		panic("cluster not running after reset")
	}
	// NOTE: the bootstrap region stays in the BasicCluster on purpose. With no region at all the prepare checker is
	// satisfied at once and coordinator.run() (a goroutine of rc.Start) snapshots the schedule config, creates the
	// schedulers, then writes its snapshot back and persists it: an API update in between is lost and a planned
	// fault is consumed by that write (a real start-up race of the code, outside the sequential quantifier of C18,
	// first seen here as model mismatches). With one never-heartbeated region the coordinator keeps collecting for
	// collectTimeout (5 min), far longer than a case.
	w.kb.Arm(nil)
}

func milli(f float64, w *world) int64 {
	r := math.Round(f * 1000)
	if math.Abs(f*1000-r) > 1e-6 {
		w.notes[fmt.Sprintf("ratio %v is not a multiple of 1/1000", f)] = true
	}
	return int64(r)
}

func (w *world) readConf(sc *config.ScheduleConfig, rp *config.ReplicationConfig, pc *config.PDServerConfig, lp config.LabelPropertyConfig,
	ver semver.Version, rm *config.ReplicationModeConfig) conf {
	var c conf
	c.Sched = sched{Tol: milli(sc.TolerantSizeRatio, w), Low: milli(sc.LowSpaceRatio, w), High: milli(sc.HighSpaceRatio, w),
		Dis: []bool{sc.DisableLearner, sc.DisableRemoveDownReplica, sc.DisableReplaceOfflineReplica, sc.DisableMakeUpReplica,
			sc.DisableRemoveExtraReplica, sc.DisableLocationReplacement},
		Sbr: milli(sc.StoreBalanceRate, w), Pay: int64(sc.MaxSnapshotCount)}
	for _, s := range sc.Schedulers {
		c.Sched.Scheds = append(c.Sched.Scheds, s.Type)
	}
	c.Repl = repl{Max: int64(rp.MaxReplicas), Labels: append([]string(nil), rp.LocationLabels...), Iso: rp.IsolationLevel,
		PR: rp.EnablePlacementRules, Strict: rp.StrictlyMatchLabel}
	c.PD = pdsrv{Dash: w.dashOut(pc.DashboardAddress), Digit: int64(pc.FlowRoundByDigit), Trace: pc.TraceRegionFlow, Key: pc.KeyType}
	var typs []string
	for t := range lp {
		typs = append(typs, t)
	}
	sort.Strings(typs)
	for _, t := range typs {
		e := lpEntry{Typ: t}
		for _, l := range lp[t] {
			e.Labels = append(e.Labels, kvp{l.Key, l.Value})
		}
		c.LP = append(c.LP, e)
	}
	c.Ver = ver.String()
	c.RM = rmode{rm.ReplicationMode, rm.DRAutoSync.LabelKey}
	var ids []uint64
	for id := range sc.StoreLimit {
		ids = append(ids, id)
	}
	sort.Slice(ids, func(i, j int) bool { return ids[i] < ids[j] })
	for _, id := range ids {
		c.Limits = append(c.Limits, lim{id, milli(sc.StoreLimit[id].AddPeer, w), milli(sc.StoreLimit[id].RemovePeer, w)})
	}
	return c
}

type ruleJSON struct {
	GroupID        string   `json:"group_id"`
	ID             string   `json:"id"`
	Count          int64    `json:"count"`
	LocationLabels []string `json:"location_labels"`
}

func ruleCoq(cnt int64, labels []string) string {
	return fmt.Sprintf("(Some (Rule %s %s))", coqfmt.Z(cnt), strsCoq(labels))
}

type snap struct {
	Served, Reload conf
	SRule, StRule  string
	Text           string
}

func (w *world) snapshot(r string) snap {
	var sn snap
	sn.Served = w.readConf(w.s.GetScheduleConfig(), w.s.GetReplicationConfig(), w.s.GetPDServerConfig(), w.s.GetLabelProperty(),
		w.s.GetClusterVersion(), w.s.GetReplicationModeConfig())
	sn.SRule = "None"
	if ru := w.rc.GetRuleManager().GetRule("pd", "default"); ru != nil {
		sn.SRule = ruleCoq(int64(ru.Count), ru.LocationLabels)
	}
	// a newly elected leader: fresh options, Reload from the same storage
	fresh := config.NewConfig()
	if err := fresh.Adjust(nil, false); err != nil {
		panic(err)
	}
	o := config.NewPersistOptions(fresh)
	// through a FRESH core.Storage over the same kv: a newly elected leader is another process, nothing cached inside the serving
	// leader's Storage object may help (or be disturbed by) this read
	if err := o.Reload(core.NewStorage(w.kb)); err != nil {
		panic(err)
	}
	sn.Reload = w.readConf(o.GetScheduleConfig(), o.GetReplicationConfig(), o.GetPDServerConfig(), o.GetLabelPropertyConfig(),
		*o.GetClusterVersion(), o.GetReplicationModeConfig())
	sn.StRule = "None"
	if err := core.NewStorage(w.kb).LoadRules(func(k, v string) {
		var rj ruleJSON
		if err := json.Unmarshal([]byte(v), &rj); err == nil && rj.GroupID == "pd" && rj.ID == "default" {
			sn.StRule = ruleCoq(rj.Count, rj.LocationLabels)
		}
	}); err != nil {
		panic(err)
	}
	st := w.rc.GetReplicationMode().GetReplicationStatusHTTP()
	mm := rmode{Mode: st.Mode, Label: st.DrAutoSync.LabelKey}
	sn.Text = "(Obs " + r + "\n     " + sn.Served.coq() + " " + sn.SRule + "\n     (Some " + sn.Reload.coq() + ") " + sn.StRule + " " + mm.coq() + ")"
	return sn
}

func (w *world) errRes(err error) string {
	if err == nil {
		return "ROk"
	}
	m := err.Error()
	switch {
	case strings.Contains(m, "injected storage fault"), strings.Contains(m, "etcdserver: leader changed"), strings.Contains(m, "ErrEtcdKVPut"):
		return "RStorage"
	case strings.Contains(m, "is not the client url of any member"):
		return "RNotMember"
	case strings.Contains(m, "cannot update MaxReplicas or LocationLabels"), strings.Contains(m, "the default rules do not consistent"):
		return "RRuleCheck"
	case strings.Contains(m, "invalid rule content"):
		return "RRuleContent"
	case strings.Contains(m, "should be nonnegative"), strings.Contains(m, "should between 0 and 1"), strings.Contains(m, "should be larger than"),
		strings.Contains(m, "is not registered"), strings.Contains(m, "has already been deprecated"), strings.Contains(m, "does not match format"),
		strings.Contains(m, "isolation-level must be"), strings.Contains(m, "cannot be negative"), strings.Contains(m, "invalid replication mode"),
		strings.Contains(m, "is not a valid semver"), strings.Contains(m, "ErrSemverNewVersion"), strings.Contains(m, "No Major.Minor.Patch"),
		strings.Contains(m, "strconv.ParseInt"):
		return "RInvalid"
	}
	w.notes["unclassified error: "+m] = true
	return "RBad"
}

// ---------- the API path: get -> unmarshal the request into what the getter returned -> set (server/api/config.go) ----------
type jstep struct {
	Path, Body string
	Code       int
	Res        string
	Before     string // full served configuration (JSON) before the request ...
	After      string // ... and after it
	Served     conf
	Reload     conf
}

func (w *world) fullServed() string {
	cfg := w.s.GetConfig()
	cfg.Schedule.SchedulersPayload = nil
	b, err := json.Marshal(map[string]interface{}{"schedule": cfg.Schedule, "replication": cfg.Replication, "pd-server": cfg.PDServerCfg,
		"replication-mode": cfg.ReplicationMode, "label-property": cfg.LabelProperty, "cluster-version": cfg.ClusterVersion})
	if err != nil {
		panic(err)
	}
	return string(b)
}

func digest(s string) string {
	h := sha256.Sum256([]byte(s))
	return hex.EncodeToString(h[:8])
}

func (w *world) post(path string, body []byte) (int, string) {
	req := httptest.NewRequest("POST", "/pd/api/v1"+path, bytes.NewReader(body))
	rec := httptest.NewRecorder()
	w.api.ServeHTTP(rec, req)
	return rec.Code, rec.Body.String()
}

func mustJSON(v interface{}) []byte {
	b, err := json.Marshal(v)
	if err != nil {
		panic(err)
	}
	return b
}

// sectionRequest expresses "make this section equal to target" as an API request: when exactly one top-level item differs
// from what is served (and the coin says so) as POST /config {"<prefix>.<item>": value}, otherwise as the full section body
// for its own endpoint (endpoint "" = there is none).  ok=false: the request would not mean the same as the setter call
// (an omitempty item that has to go back to its zero value, a label list that does not survive the "a,b" encoding).
func (w *world) sectionRequest(r *rng.R, prefix, endpoint string, served, target, scratch interface{}, avoidKey string) (path string, body []byte, ok bool) {
	full := mustJSON(target)
	var sm, tm map[string]json.RawMessage
	json.Unmarshal(mustJSON(served), &sm)
	json.Unmarshal(full, &tm)
	var diff []string
	for k, v := range tm {
		if !bytes.Equal(v, sm[k]) {
			diff = append(diff, k)
		}
	}
	for k := range sm {
		if _, in := tm[k]; !in {
			return "", nil, false
		}
	}
	// would unmarshalling the body into a copy of the served section give the target?
	if err := json.Unmarshal(mustJSON(served), scratch); err != nil {
		return "", nil, false
	}
	if err := json.Unmarshal(full, scratch); err != nil || !bytes.Equal(mustJSON(scratch), full) {
		return "", nil, false
	}
	if len(diff) == 1 && diff[0] != avoidKey && (endpoint == "" || avoidKey != "" || r == nil || r.Pct(50)) {
		items := map[string]json.RawMessage{prefix + "." + diff[0]: tm[diff[0]]}
		if r != nil && r.Pct(60) {
			// a client that sends its desired state: further items of the same section that repeat the served value (scalars only),
			// before and after the changed one in the order of their names
			var same []string
			for k, v := range sm {
				if k != diff[0] && k != avoidKey && len(v) > 0 && v[0] != '{' && v[0] != '[' && !bytes.Equal(v, []byte("null")) {
					same = append(same, k)
				}
			}
			sort.Strings(same)
			if len(same) > 0 {
				n := 1 + r.Intn(2)
				for i := 0; i < n; i++ {
					k := same[r.Intn(len(same))]
					if i == 0 && r.Pct(60) {
						k = same[len(same)-1-r.Intn((len(same)+1)/2)] // likely the last name of the request
					}
					items[prefix+"."+k] = sm[k]
				}
				if w.R != nil {
					w.R.Count("api-body:changed-item-plus-items-that-repeat-the-served-value")
				}
			}
		}
		return "/config", mustJSON(items), true
	}
	if endpoint == "" || avoidKey != "" {
		return "", nil, false
	}
	return endpoint, full, true
}

// apiRequest turns an operation into the request the HTTP API would receive; ok=false: use the setter (recorded as such)
func (w *world) apiRequest(r *rng.R, o op, tracked bool) (path string, body []byte, ok bool) {
	switch o.K {
	case "sched":
		t := w.s.GetScheduleConfig()
		w.applySched(t, o.S)
		t.SchedulersPayload = nil
		sv := w.s.GetScheduleConfig()
		return w.sectionRequest(r, "schedule", "/config/schedule", sv, t, &config.ScheduleConfig{}, "")
	case "repl":
		t := w.s.GetReplicationConfig()
		w.applyRepl(t, o.R)
		if j := strings.Join(o.R.Labels, ","); len(o.R.Labels) > 0 && (j == "" || len(strings.Split(j, ",")) != len(o.R.Labels)) {
			return "", nil, false // [""] or a label with a comma: the "a,b" encoding of the API cannot say it
		}
		// (before fix 5d52644 an empty label list sent as JSON made SetReplicationConfig refuse later changes: nil vs empty under
		// reflect.DeepEqual; such requests were kept out of the model-tracked stream)
		avoid := ""
		return w.sectionRequest(r, "replication", "/config/replicate", w.s.GetReplicationConfig(), t, &config.ReplicationConfig{}, avoid)
	case "pd":
		t := w.s.GetPDServerConfig()
		w.applyPD(t, o.P)
		return w.sectionRequest(r, "pd-server", "", w.s.GetPDServerConfig(), t, &config.PDServerConfig{}, "")
	case "limit":
		// a map-valued item through the generic entry point: POST /config {"schedule.store-limit": {...}} with the whole target map
		// (the rate of the given type replaced, the other one kept or the process default: what SetStoreLimit would do)
		if r != nil && r.Pct(50) {
			return "", nil, false
		}
		sv := w.s.GetScheduleConfig()
		m := map[string]config.StoreLimitConfig{}
		for id, l := range sv.StoreLimit {
			m[strconv.FormatUint(id, 10)] = l
		}
		cur, ok := sv.StoreLimit[o.ID]
		if !ok {
			cur = config.StoreLimitConfig{AddPeer: float64(o.Dflt) / 1000, RemovePeer: float64(o.Dflt) / 1000}
		}
		if o.LT == 0 {
			cur.AddPeer = float64(o.Rate) / 1000
		} else {
			cur.RemovePeer = float64(o.Rate) / 1000
		}
		if old, had := sv.StoreLimit[o.ID]; had && old == cur {
			return "", nil, false // nothing changes: the generic entry point would not call the setter
		}
		m[strconv.FormatUint(o.ID, 10)] = cur
		return "/config", mustJSON(map[string]interface{}{"schedule.store-limit": m}), true
	case "setlabel", "dellabel":
		act := map[string]string{"setlabel": "set", "dellabel": "delete"}[o.K]
		return "/config/label-property", mustJSON(map[string]string{"action": act, "type": o.T, "label-key": o.L, "label-value": o.V}), true
	case "version":
		if r != nil && r.Pct(50) {
			return "/config", mustJSON(map[string]string{"cluster-version": o.Ver}), true
		}
		return "/config/cluster-version", mustJSON(map[string]string{"cluster-version": o.Ver}), true
	case "mode":
		// (before fix e37f37e the getter handed out the served pointer and these requests were kept out of the model-tracked stream)
		t := *w.s.GetReplicationModeConfig() // a copy made here: the harness itself must never write through what a getter returns
		w.applyMode(&t, o.M)
		sv := *w.s.GetReplicationModeConfig()
		if sv.ReplicationMode != t.ReplicationMode && sv.DRAutoSync == t.DRAutoSync && r != nil && r.Pct(40) {
			return "/config", mustJSON(map[string]string{"replication-mode.replication-mode": t.ReplicationMode}), true
		}
		if sv.ReplicationMode == t.ReplicationMode && sv.DRAutoSync.LabelKey != t.DRAutoSync.LabelKey && r != nil && r.Pct(40) {
			return "/config", mustJSON(map[string]string{"replication-mode.dr-auto-sync.label-key": t.DRAutoSync.LabelKey}), true
		}
		return "/config/replication-mode", mustJSON(t), true
	}
	return "", nil, false
}

// narrow keeps one of the changed items of a pd-server operation: that section can only be changed item by item over HTTP
func (w *world) narrow(r *rng.R, o op, cur conf) op {
	if o.K == "sched" && r.Pct(35) && strings.Join(o.S.Scheds, ",") != strings.Join(cur.Sched.Scheds, ",") {
		// only the scheduler list changes: goes out as POST /config {"schedule.schedulers-v2": [...]}, i.e. is unmarshalled
		// into the Schedule section of Server.GetConfig()
		c := cur.Sched
		c.Scheds = o.S.Scheds
		c.Dis = make([]bool, 6)
		o.S = c
		return o
	}
	if o.K != "pd" {
		return o
	}
	var ch []int
	if o.P.Dash != cur.PD.Dash {
		ch = append(ch, 0)
	}
	if o.P.Digit != cur.PD.Digit {
		ch = append(ch, 1)
	}
	if o.P.Trace != cur.PD.Trace {
		ch = append(ch, 2)
	}
	if o.P.Key != cur.PD.Key {
		ch = append(ch, 3)
	}
	if len(ch) <= 1 {
		return o
	}
	keep := ch[r.Intn(len(ch))]
	p := cur.PD
	switch keep {
	case 0:
		p.Dash = o.P.Dash
	case 1:
		p.Digit = o.P.Digit
	case 2:
		p.Trace = o.P.Trace
	case 3:
		p.Key = o.P.Key
	}
	o.P = p
	return o
}

// execAPI is exec through the real HTTP handler where the operation can be expressed as a request
// leaderChange does what a newly elected leader does with the configuration: the served PersistOptions are reloaded from
// storage (Server.reloadConfigFromKV) and the RaftCluster is started again (fresh RuleManager and ModeManager from storage).
// Recorded as a step whose reference projection is what was served BEFORE (for requests it is the reloaded projection).
func (w *world) leaderChange(definite bool) snap {
	before := w.fullServed()
	prev := w.snapshot("ROk")
	w.rc.Stop()
	if err := w.s.GetPersistOptions().Reload(w.st); err != nil {
		panic(err)
	}
	if err := w.rc.Start(w.s); err != nil {
		panic(err)
	}
	sn := w.snapshot("ROk")
	path := "leader-change"
	if !definite {
		path = "leader-change-after-unknown-write" // a write was applied but reported failed earlier: storage may be ahead
	}
	w.steps = append(w.steps, jstep{Path: path, Res: "ROk", Before: before, After: w.fullServed(), Served: sn.Served, Reload: prev.Served})
	if w.R != nil {
		w.R.Count("api-path:" + path)
	}
	return sn
}

func (w *world) execAPI(r *rng.R, o op, tracked bool) snap {
	if o.K == "reload" {
		return w.leaderChange(!w.unknown)
	}
	if o.F.On && o.F.Kind == 1 {
		w.unknown = true // a write applied but reported failed: storage may be ahead of what is served from here on
	}
	path, body, ok := w.apiRequest(r, o, tracked)
	if w.forced != nil {
		path, body, ok = w.forced.Path, []byte(w.forced.Body), true
	}
	if !ok {
		before := w.fullServed()
		sn := w.exec(o)
		w.steps = append(w.steps, jstep{Path: "setter:" + o.K, Res: strings.Fields(strings.TrimPrefix(sn.Text, "(Obs "))[0], Before: before, After: w.fullServed(),
			Served: sn.Served, Reload: sn.Reload})
		return sn
	}
	before := w.fullServed()
	plan := w.faultPlan(o.F)
	w.kb.Arm(plan)
	code, resp := w.post(path, body)
	w.flaky.disarm()
	w.kb.Arm(nil)
	res := "ROk"
	if code != http.StatusOK {
		res = w.errRes(errors.New(resp))
	}
	sn := w.snapshot(res)
	w.steps = append(w.steps, jstep{Path: path, Body: string(body), Code: code, Res: res, Before: before, After: w.fullServed(), Served: sn.Served, Reload: sn.Reload})
	if w.R != nil {
		w.R.Count("api-path:" + path)
	}
	return sn
}

// ---------- faults below kv.Base: the etcd client answers "leader changed" ----------
// On the etcd-backed base a "not applied" failure of the first config write is injected where it really happens: the etcd client
// refuses the put (for as long as the operation lasts) with rpctypes.ErrLeaderChanged, the error etcd gives during a leader election.
// etcdKVBase.Save has to hand that error up; the setters roll back exactly as for a failure injected at the kv.Base level.
type flakyKV struct {
	clientv3.KV
	mu     sync.Mutex
	suffix string
	hits   int
}

func (f *flakyKV) arm(suffix string) { f.mu.Lock(); f.suffix, f.hits = suffix, 0; f.mu.Unlock() }
func (f *flakyKV) disarm() {
	if f == nil {
		return
	}
	f.mu.Lock()
	f.suffix = ""
	f.mu.Unlock()
}
func (f *flakyKV) refuses(keys []string) bool {
	f.mu.Lock()
	defer f.mu.Unlock()
	if f.suffix == "" {
		return false
	}
	for _, k := range keys {
		if strings.HasSuffix(k, f.suffix) {
			f.hits++
			return true
		}
	}
	return false
}
func (f *flakyKV) Txn(ctx context.Context) clientv3.Txn { return &flakyTxn{Txn: f.KV.Txn(ctx), f: f} }

type flakyTxn struct {
	clientv3.Txn
	f    *flakyKV
	keys []string
}

func (t *flakyTxn) If(cs ...clientv3.Cmp) clientv3.Txn { t.Txn = t.Txn.If(cs...); return t }
func (t *flakyTxn) Then(ops ...clientv3.Op) clientv3.Txn {
	for _, o := range ops {
		t.keys = append(t.keys, string(o.KeyBytes()))
	}
	t.Txn = t.Txn.Then(ops...)
	return t
}
func (t *flakyTxn) Else(ops ...clientv3.Op) clientv3.Txn { t.Txn = t.Txn.Else(ops...); return t }
func (t *flakyTxn) Commit() (*clientv3.TxnResponse, error) {
	if t.f.refuses(t.keys) {
		return nil, rpctypes.ErrLeaderChanged
	}
	return t.Txn.Commit()
}

type splitBase struct {
	kv.Base
	save kv.Base
}

func (b splitBase) Save(key, value string) error { return b.save.Save(key, value) }

// faultPlan: the kvx14 plan of an operation's fault; on the etcd-backed base the "first config write not applied" fault goes to the etcd client instead
func (w *world) faultPlan(f fault) map[string]kvx14.Kind {
	plan := map[string]kvx14.Kind{}
	if !f.On {
		return plan
	}
	if w.onEtcd && w.flaky != nil && f.G == "config" && f.Idx == 0 && f.Kind == 0 {
		w.flaky.arm("/config")
		if w.R != nil {
			w.R.Count("fault:etcd-client-refuses-the-config-put")
		}
		return plan
	}
	plan[kvx14.PlanKey(f.G, f.Idx)] = []kvx14.Kind{kvx14.FailBefore, kvx14.FailAfter}[f.Kind]
	return plan
}

func (w *world) exec(o op) snap {
	plan := w.faultPlan(o.F)
	defer w.flaky.disarm()
	w.kb.Arm(plan)
	if o.F.On && o.F.Kind == 1 {
		w.unknown = true
	}
	var err error
	switch o.K {
	case "reload":
		w.kb.Arm(nil)
		return w.leaderChange(!w.unknown)
	case "sched":
		cfg := w.s.GetScheduleConfig()
		w.applySched(cfg, o.S)
		err = w.s.SetScheduleConfig(*cfg)
	case "repl":
		cfg := w.s.GetReplicationConfig()
		w.applyRepl(cfg, o.R)
		err = w.s.SetReplicationConfig(*cfg)
	case "pd":
		cfg := w.s.GetPDServerConfig()
		w.applyPD(cfg, o.P)
		err = w.s.SetPDServerConfig(*cfg)
	case "setlabel":
		err = w.s.SetLabelProperty(o.T, o.L, o.V)
	case "dellabel":
		err = w.s.DeleteLabelProperty(o.T, o.L, o.V)
	case "version":
		err = w.s.SetClusterVersion(o.Ver)
	case "mode":
		cfg := *w.s.GetReplicationModeConfig()
		w.applyMode(&cfg, o.M)
		err = w.s.SetReplicationModeConfig(cfg)
	case "labelmap":
		err = w.s.SetLabelPropertyConfig(lpMap(o.LM))
	case "limit":
		err = w.rc.SetStoreLimit(o.ID, []storelimit.Type{storelimit.AddPeer, storelimit.RemovePeer}[o.LT], float64(o.Rate)/1000)
	case "alllimits":
		err = w.rc.SetAllStoresLimit([]storelimit.Type{storelimit.AddPeer, storelimit.RemovePeer}[o.LT], float64(o.Rate)/1000)
	}
	w.kb.Arm(nil)
	return w.snapshot(w.errRes(err))
}

// ---------- generation ----------
var (
	regd    = []string{"balance-leader", "balance-region", "hot-region", "evict-leader", "label", "shuffle-region"}
	lblKeys = []string{"zone", "host", "rack", "dc"}
)

func pickZ(r *rng.R, xs ...int64) int64 { return xs[r.Intn(len(xs))] }

func genSched(r *rng.R, cur sched, malformed bool) sched {
	c := sched{Tol: cur.Tol, Low: cur.Low, High: cur.High, Scheds: append([]string(nil), cur.Scheds...), Dis: make([]bool, 6), Pay: cur.Pay}
	// mostly valid: low > high inside [0,1], tolerant >= 0
	c.High = pickZ(r, 0, 100, 600, 700, 999)
	c.Low = c.High + pickZ(r, 1, 50, 100)
	if c.Low > 1000 {
		c.Low = 1000
	}
	if c.Low <= c.High {
		c.High = c.Low - 1
	}
	c.Tol = pickZ(r, 0, 0, 50, 5000)
	c.Pay = pickZ(r, 0, 3, 7, 64)
	n := r.Intn(4)
	c.Scheds = nil
	for i := 0; i < n; i++ {
		c.Scheds = append(c.Scheds, regd[r.Intn(len(regd))])
	}
	if malformed {
		switch r.Intn(9) {
		case 0:
			c.Tol = pickZ(r, -1, -100)
		case 1:
			c.Low = pickZ(r, -1, 1001, 2000)
		case 2:
			c.High = pickZ(r, -1, 1001)
			c.Low = 900
		case 3:
			c.Low = c.High // boundary: low <= high
		case 4:
			c.Low, c.High = 300, 600
		case 5:
			c.Scheds = append(c.Scheds, pickS(r, "no-such-scheduler", "balance-leder", ""))
		case 6:
			c.Dis[r.Intn(6)] = true
		case 7:
			c.Sbr = pickZ(r, 1000, 15000)
		case 8:
			c.Low, c.High = 1000, 0 // boundary values that are valid
		}
	}
	return c
}

func pickS(r *rng.R, xs ...string) string { return xs[r.Intn(len(xs))] }

func genRepl(r *rng.R, cur repl, malformed bool) repl {
	c := repl{Max: cur.Max, Labels: append([]string(nil), cur.Labels...), Iso: cur.Iso, PR: cur.PR, Strict: cur.Strict}
	switch r.Pick(30, 25, 15, 15, 15) {
	case 0:
		c.Max = pickZ(r, 1, 3, 5, 7)
	case 1:
		n := r.Intn(3)
		c.Labels = nil
		for i := 0; i < n; i++ {
			c.Labels = append(c.Labels, lblKeys[r.Intn(len(lblKeys))])
		}
		c.Iso = ""
	case 2:
		c.PR = !c.PR
	case 3:
		c.Strict = !c.Strict
	case 4:
		if len(c.Labels) > 0 {
			c.Iso = c.Labels[r.Intn(len(c.Labels))]
		}
	}
	if c.Iso != "" {
		ok := false
		for _, l := range c.Labels {
			ok = ok || l == c.Iso
		}
		if !ok {
			c.Iso = ""
		}
	}
	if malformed {
		switch r.Intn(5) {
		case 0:
			// max-replicas 0 is only generated while placement rules are (and stay) on, where SetRule refuses it.
			// With the rules off it is ACCEPTED (no Validate clause covers it) and a later switch-on runs
			// RuleManager.Initialize with count 0 (rule saved, buildRuleList fails, the manager stays
			// half-initialised): that path is not in the model, see notes/C18.md.
			if cur.PR && c.PR {
				c.Max = 0
			}
		case 1:
			c.Iso = pickS(r, "rack", "nolabel")
			c.Labels = []string{"zone"}
			if r.Pct(50) {
				// an isolation level that differs from a configured label only in letter case / surrounding blanks: NOT that label
				// (the consumer compares exactly)
				c.Labels = []string{"zone", "rack", "host"}
				c.Iso = pickS(r, "Host", "ZONE", "Rack", " zone", "host ")
			}
		case 2:
			c.Labels = append(c.Labels, pickS(r, "", "-x", "a b", "x-", "$", "$z.1"))
		case 3:
			c.Iso = "zone"
			c.Labels = nil
		case 4:
			c.PR = !c.PR
			c.Max = pickZ(r, 2, 4)
		}
	}
	return c
}

func genPD(r *rng.R, cur pdsrv, malformed bool) pdsrv {
	c := cur
	c.Dash = pickS(r, "auto", "none", "http://SELF", "SELF")
	c.Digit = pickZ(r, 0, 3, 5, 127)
	c.Key = pickS(r, "table", "raw", "txn")
	if r.Pct(20) {
		c.Trace = !c.Trace
	}
	if malformed {
		switch r.Intn(3) {
		case 0:
			c.Digit = pickZ(r, -1, -5)
		case 1:
			c.Dash = pickS(r, "http://10.1.2.3:2379", "10.1.2.3:2379", "http://SELF/x")
		case 2:
			c.Digit = -1
			c.Dash = "none"
		}
	}
	return c
}

func genFault(r *rng.R, groups []string, maxIdx int, pct int) fault {
	if !r.Pct(pct) {
		return fault{}
	}
	return fault{On: true, G: groups[r.Intn(len(groups))], Idx: r.Intn(maxIdx), Kind: r.Pick(65, 35)}
}

func gen(r *rng.R, cur conf, malformed bool) op {
	fp := 22
	if r.Pct(12) {
		switch r.Pick(30, 45, 25) {
		case 0: // the whole label-property map at once
			var m []lpEntry
			for _, t := range []string{"other", "reject-leader"} { // sorted by type, as the model keeps the map
				if r.Pct(50) {
					e := lpEntry{Typ: t}
					for i := 0; i < 1+r.Intn(2); i++ {
						e.Labels = append(e.Labels, kvp{pickS(r, "zone", "host"), pickS(r, "z1", "z2")})
					}
					m = append(m, e)
				}
			}
			return op{K: "labelmap", LM: m, F: genFault(r, []string{"config"}, 1, fp+10)}
		case 1:
			lt := r.Intn(2)
			other := []storelimit.Type{storelimit.RemovePeer, storelimit.AddPeer}[lt]
			return op{K: "limit", ID: uint64(1 + r.Intn(3)), LT: lt, Rate: pickZ(r, 1000, 15000, 20500, 60000),
				Dflt: int64(math.Round(config.DefaultStoreLimit.GetDefaultStoreLimit(other) * 1000)), F: genFault(r, []string{"config"}, 1, fp+10)}
		default:
			return op{K: "alllimits", LT: r.Intn(2), Rate: pickZ(r, 5000, 15000, 33000), F: genFault(r, []string{"config"}, 1, fp+10)}
		}
	}
	switch r.Pick(20, 24, 14, 14, 10, 8, 10) {
	case 0:
		return op{K: "sched", S: genSched(r, cur.Sched, malformed), F: genFault(r, []string{"config"}, 1, fp)}
	case 1:
		return op{K: "repl", R: genRepl(r, cur.Repl, malformed), F: genFault(r, []string{"config", "config", "rule"}, 1, fp)}
	case 2:
		return op{K: "pd", P: genPD(r, cur.PD, malformed), F: genFault(r, []string{"config"}, 1, fp)}
	case 3, 4:
		k := "setlabel"
		if r.Pct(42) {
			k = "dellabel"
		}
		// steer towards labels that are already there (set) or not there (delete) some of the time
		t, l, v := pickS(r, "reject-leader", "other"), pickS(r, "zone", "host"), pickS(r, "z1", "z2")
		if len(cur.LP) > 0 && r.Pct(50) {
			e := cur.LP[r.Intn(len(cur.LP))]
			t, l, v = e.Typ, e.Labels[r.Intn(len(e.Labels))].K, e.Labels[r.Intn(len(e.Labels))].V
		}
		return op{K: k, T: t, L: l, V: v, F: genFault(r, []string{"config"}, 1, fp+14)}
	case 5:
		v := pickS(r, "4.0.0", "4.0.9", "5.0.0", "3.1.0", "v4.1.0")
		if malformed {
			v = pickS(r, "not-a-version", "4.0", "4.x.1")
		}
		return op{K: "version", Ver: v, F: genFault(r, []string{"config"}, 1, fp)}
	default:
		m := rmode{Mode: pickS(r, "majority", "dr-auto-sync", "dr-auto-sync", "DR_AUTO_SYNC", "Majority"), Label: pickS(r, "zone", "dc", "")}
		if malformed {
			m.Mode = pickS(r, "bogus", "", "dr auto sync")
		}
		return op{K: "mode", M: m, F: genFault(r, []string{"config", "config", "mode"}, 2, fp+10)}
	}
}

func defaultBoot(r *rng.R) conf {
	c := conf{
		Sched: sched{Tol: 0, Low: 800, High: 700, Scheds: []string{"balance-region", "balance-leader", "hot-region"}, Dis: make([]bool, 6), Pay: 3},
		Repl:  repl{Max: 3, PR: true},
		PD:    pdsrv{Dash: "auto", Digit: 3, Trace: true, Key: "table"},
		Ver:   "4.0.0",
		RM:    rmode{Mode: "majority"},
	}
	if r != nil {
		c.Repl.PR = r.Pct(70)
		c.Repl.Max = pickZ(r, 3, 3, 5)
		if r.Pct(30) {
			c.Repl.Labels = []string{"zone"}
		}
		if r.Pct(30) {
			c.LP = []lpEntry{{Typ: "reject-leader", Labels: []kvp{{"zone", "z1"}}}}
		}
		if r.Pct(35) {
			c.Limits = []lim{{ID: 1, Add: 15000, Rem: 15000}}
			if r.Pct(50) {
				c.Limits = append(c.Limits, lim{ID: 2, Add: 30000, Rem: 20000})
			}
		}
	}
	return c
}

// goSide states the known defects on the implementation's observations with the concrete values
func (w *world) goSide(c *caseRec, o op, prev, cur snap, r string) {
	if w.R == nil {
		return
	}
	replay := map[string]interface{}{"In": c.In}
	if r != "ROk" {
		if (o.K == "setlabel" || o.K == "dellabel") && lpCoq(prev.Served.LP) != lpCoq(cur.Served.LP) {
			w.R.Violate("C18:label-property-rollback-applies-inverse-op", fmt.Sprintf("%s(%s,%s,%s) returned %s, yet the served label-property map went from %s to %s",
				o.K, o.T, o.L, o.V, r, lpCoq(prev.Served.LP), lpCoq(cur.Served.LP)), replay)
		}
		if o.K == "repl" && prev.Served.Repl.PR && cur.Served.Repl.PR && prev.SRule != cur.SRule {
			w.R.Violate("C18:rejected-replication-change-edited-served-rule", fmt.Sprintf("SetReplicationConfig(max=%d, labels=%v) returned %s, yet the served default rule went from %s to %s (served max-replicas still %d)",
				o.R.Max, o.R.Labels, r, prev.SRule, cur.SRule, cur.Served.Repl.Max), replay)
		}
	} else {
		if cur.Served.Repl.PR && cur.SRule != cur.StRule && o.K == "repl" && !w.ruleUnknown {
			w.R.Violate("C18:replication-change-not-persisted-to-default-rule", fmt.Sprintf("SetReplicationConfig(max=%d, labels=%v) accepted: served default rule %s, stored default rule %s (what a new leader loads)",
				o.R.Max, o.R.Labels, cur.SRule, cur.StRule), replay)
		}
	}
}

func (w *world) runCase(in caseIn, r *rng.R, nops int, malformed bool, useEtcd bool) caseRec {
	w.reset(in.Boot, useEtcd)
	w.steps = nil
	c := caseRec{In: caseIn{Boot: in.Boot, Via: in.Via}}
	prev := w.snapshot("ROk")
	c.Obs = append(c.Obs, prev.Text)
	w.ruleUnknown = false
	w.unknown = false
	step := func(o op) {
		if o.K == "reload" {
			w.ruleUnknown = false // the new leader serves the stored rule
		}
		if o.K == "repl" && o.F.On && o.F.G == "rule" && o.F.Kind == 1 {
			w.ruleUnknown = true
		}
		var cur snap
		if in.Via == "api" {
			cur = w.execAPI(r, o, true)
		} else {
			cur = w.exec(o)
		}
		c.In.Ops = append(c.In.Ops, o)
		c.Obs = append(c.Obs, cur.Text)
		w.goSide(&c, o, prev, cur, strings.Fields(strings.TrimPrefix(cur.Text, "(Obs "))[0])
		prev = cur
	}
	if r == nil {
		for _, o := range in.Ops {
			step(o)
		}
		return c
	}
	var last op
	lastFailed := false
	for k := 0; k < nops; k++ {
		if k > 0 && r.Pct(7) {
			step(op{K: "reload"}) // a leader change in the middle of the history
			lastFailed = false
			continue
		}
		if lastFailed && r.Pct(45) {
			// the client retries the very same update after a storage failure, this time without a fault
			o := last
			o.F = fault{}
			if o.K == "limit" {
				o.Dflt = int64(math.Round(config.DefaultStoreLimit.GetDefaultStoreLimit([]storelimit.Type{storelimit.RemovePeer, storelimit.AddPeer}[o.LT]) * 1000))
			}
			step(o)
			lastFailed = false
			if w.R != nil {
				w.R.Count("identical-retry-after-failed-write")
			}
			continue
		}
		o := gen(r, prev.Served, malformed && r.Pct(40))
		if in.Via == "api" {
			o = w.narrow(r, o, prev.Served)
		}
		step(o)
		last, lastFailed = o, o.F.On && strings.HasPrefix(strings.TrimPrefix(c.Obs[len(c.Obs)-1], "(Obs "), "RStorage")
	}
	return c
}

// runFree: a history of HTTP requests only (replication-mode requests included), no model involved: recorded are, around
// every request, the full served configuration and the served / reloaded projections
type freeRec struct {
	Via   string
	Boot  conf
	Ops   []op
	Steps []jstep
}

// runCoordinatorStart: an update accepted by a freshly elected leader while the coordinator still waits for the cluster to be
// prepared, then the real coordinator start (the bootstrap region heartbeats, coordinator.run() passes its wait, creates the
// schedulers and writes the schedule config back): what is served and stored afterwards must still be the update.
func (w *world) runCoordinatorStart(boot conf, r *rng.R) freeRec {
	w.reset(boot, false)
	w.steps = nil
	w.unknown = false
	f := freeRec{Via: "coordinator-start", Boot: boot}
	// as on a freshly elected leader, the region loaded from storage has no leader yet (the BasicCluster of this process may still
	// carry the leader an earlier case reported): its first heartbeat is what the prepare checker counts
	if reg := w.rc.GetRegion(900001); reg != nil {
		w.s.GetBasicCluster().PutRegion(core.NewRegionInfo(reg.GetMeta(), nil))
	}
	cur := w.snapshot("ROk").Served
	if len(w.rc.GetSchedulers()) != 0 {
		w.notes["coordinator-start: the coordinator was already running after the reset"] = true
	}
	for k := 0; k < 3; k++ { // updates inside the window (schedule section, plus whatever else comes)
		o := gen(r, cur, false)
		if k == 0 {
			o = op{K: "sched", S: genSched(r, cur.Sched, false)}
		}
		o.F = fault{}
		o = w.narrow(r, o, cur)
		cur = w.execAPI(r, o, false).Served
		f.Ops = append(f.Ops, o)
	}
	before := w.fullServed()
	prev := w.snapshot("ROk")
	// the bootstrap region reports: the cluster is prepared; the coordinator checks every runSchedulerCheckInterval (3 s)
	reg := w.rc.GetRegion(900001)
	if reg == nil {
		panic("bootstrap region missing")
	}
	w.kb.Arm(nil)
	if err := w.rc.HandleRegionHeartbeat(core.NewRegionInfo(reg.GetMeta(), reg.GetMeta().GetPeers()[0])); err != nil {
		panic(err)
	}
	// coordinator.run() ends its start-up by writing the schedule section back and persisting the options: wait for that write
	started := func() bool {
		for _, e := range w.kb.Entries() {
			if e.Group == "config" {
				return true
			}
		}
		return false
	}
	dl := time.Now().Add(10 * time.Second)
	for !started() && time.Now().Before(dl) {
		time.Sleep(50 * time.Millisecond)
	}
	if !started() {
		w.notes["coordinator-start: no write-back of the coordinator within 10 s (step recorded as a no-op)"] = true
	}
	time.Sleep(100 * time.Millisecond)
	sn := w.snapshot("ROk")
	w.steps = append(w.steps, jstep{Path: "coordinator-start", Res: "ROk", Before: before, After: w.fullServed(), Served: sn.Served, Reload: prev.Served})
	w.steps = append(w.steps, jstep{Path: "after-coordinator-start", Res: "ROk", Before: w.fullServed(), After: w.fullServed(), Served: sn.Served, Reload: sn.Reload})
	f.Ops = append(f.Ops, op{K: "coordinator-start"}, op{K: "coordinator-start"})
	f.Steps = w.steps
	return f
}

// runTTL: a temporary override (POST /config?ttlSecond=N, what BR / lightning do while they import) of max-snapshot-count, then
// ordinary updates that do not name that item through the read-modify-write paths, then expiry: the temporary value must never reach
// the config key, and after expiry the item is what it was
func (w *world) runTTL(boot conf, r *rng.R) freeRec {
	w.reset(boot, false)
	w.steps = nil
	w.unknown = false
	f := freeRec{Via: "ttl-override", Boot: boot}
	start := w.snapshot("ROk")
	before := w.fullServed()
	req := httptest.NewRequest("POST", "/pd/api/v1/config?ttlSecond=2", bytes.NewReader(mustJSON(map[string]interface{}{"schedule.max-snapshot-count": 99})))
	rec := httptest.NewRecorder()
	w.api.ServeHTTP(rec, req)
	if rec.Code != http.StatusOK {
		w.notes["ttl: the override was refused: "+rec.Body.String()] = true
	}
	setAt := time.Now()
	sn := w.snapshot("ROk")
	w.steps = append(w.steps, jstep{Path: "ttl-set", Body: `{"schedule.max-snapshot-count":99} ttlSecond=2`, Code: rec.Code, Res: "ROk", Before: before, After: w.fullServed(), Served: sn.Served, Reload: sn.Reload})
	f.Ops = append(f.Ops, op{K: "ttl-set"})
	cur := sn.Served
	want := start.Served // what must be served once the override has expired: the start, updated by what is accepted below
	for k := 0; k < 3; k++ {
		prevReload := w.snapshot("ROk").Reload
		// an unrelated scheduling item, through /config/schedule (whole section read from the getter) or POST /config
		t := cur.Sched
		t.Pay = start.Served.Sched.Pay // the request body is built from what the harness knows to be configured, not from the getter
		t.Tol = pickZ(r, 0, 50, 5000)
		t.High = pickZ(r, 100, 600, 700)
		t.Low = t.High + pickZ(r, 50, 100)
		t.Dis = make([]bool, 6)
		o := op{K: "sched", S: t}
		var after snap
		if k%2 == 0 {
			// the real read-modify-write of a client: GET the section, change one item, POST it back
			cfg := w.s.GetScheduleConfig()
			cfg.TolerantSizeRatio = float64(t.Tol) / 1000
			cfg.HighSpaceRatio, cfg.LowSpaceRatio = float64(t.High)/1000, float64(t.Low)/1000
			cfg.SchedulersPayload = nil
			b0 := w.fullServed()
			code, resp := w.post("/config/schedule", mustJSON(cfg))
			res := "ROk"
			if code != http.StatusOK {
				res = w.errRes(errors.New(resp))
			}
			after = w.snapshot(res)
			w.steps = append(w.steps, jstep{Path: "/config/schedule", Body: "GET /config/schedule, tolerant-size-ratio / space ratios changed, POST back", Code: code, Res: res, Before: b0, After: w.fullServed(),
				Served: after.Served, Reload: after.Reload})
		} else {
			b0 := w.fullServed()
			code, resp := w.post("/config", mustJSON(map[string]interface{}{"schedule.tolerant-size-ratio": float64(t.Tol) / 1000}))
			res := "ROk"
			if code != http.StatusOK {
				res = w.errRes(errors.New(resp))
			}
			after = w.snapshot(res)
			w.steps = append(w.steps, jstep{Path: "/config", Body: fmt.Sprintf(`{"schedule.tolerant-size-ratio":%v}`, float64(t.Tol)/1000), Code: code, Res: res, Before: b0, After: w.fullServed(),
				Served: after.Served, Reload: after.Reload})
		}
		w.steps = append(w.steps, jstep{Path: "ttl-window-stored", Res: "ROk", Before: "", After: "", Served: after.Reload, Reload: prevReload})
		f.Ops = append(f.Ops, o, op{K: "ttl-window-stored"})
		cur = after.Served
		want.Sched.Pay = start.Served.Sched.Pay
	}
	if d := 2300*time.Millisecond - time.Since(setAt); d > 0 {
		time.Sleep(d)
	}
	end := w.snapshot("ROk")
	w.steps = append(w.steps, jstep{Path: "ttl-expired", Res: "ROk", Served: end.Served, Reload: want})
	w.steps = append(w.steps, jstep{Path: "after-ttl-expired", Res: "ROk", Before: w.fullServed(), After: w.fullServed(), Served: end.Served, Reload: end.Reload})
	f.Ops = append(f.Ops, op{K: "ttl-expired"}, op{K: "ttl-expired"})
	f.Steps = w.steps
	return f
}

// ---------- the other writers of the served configuration that answer with an error or a refusal ----------
// extra records one request-like step with the full served configuration around it and the served / reloaded projections
func (w *world) extra(path, body string, plan map[string]kvx14.Kind, do func() (int, string)) {
	before := w.fullServed()
	w.kb.Arm(plan)
	code, resp := do()
	w.kb.Arm(nil)
	res := "ROk"
	if code != http.StatusOK {
		res = w.errRes(errors.New(resp))
		if res == "RBad" {
			res = "RInvalid" // a refusal of these entry points: which kind does not matter here
			delete(w.notes, "unclassified error: "+resp)
		}
	}
	sn := w.snapshot(res)
	w.steps = append(w.steps, jstep{Path: path, Body: body, Code: code, Res: res, Before: before, After: w.fullServed(), Served: sn.Served, Reload: sn.Reload})
	if w.R != nil {
		w.R.Count("extra:" + path + ":" + res)
	}
}

func errCode(err error) (int, string) {
	if err != nil {
		return http.StatusInternalServerError, err.Error()
	}
	return http.StatusOK, ""
}

// runWriters: scheduler add / remove through server.Handler with a failing config write, rule requests for pd/default through the real
// HTTP handler (refused and accepted), and two accepted updates that overlap (the first one parked at its config write)
func (w *world) runWriters(boot conf, r *rng.R) freeRec {
	boot.Repl.PR = true
	w.reset(boot, false)
	w.steps = nil
	w.unknown = false
	f := freeRec{Via: "other-writers", Boot: boot}
	failCfg := map[string]kvx14.Kind{kvx14.PlanKey("config", 0): kvx14.FailBefore}
	h := w.s.GetHandler()
	name := pickS(r, "shuffle-leader", "shuffle-region", "label")
	w.extra("handler:AddScheduler", name+" (config write fails)", failCfg, func() (int, string) { return errCode(h.AddScheduler(name)) })
	w.extra("handler:AddScheduler", name, nil, func() (int, string) { return errCode(h.AddScheduler(name)) })
	w.extra("handler:RemoveScheduler", name+"-scheduler (config write fails)", failCfg, func() (int, string) { return errCode(h.RemoveScheduler(name + "-scheduler")) })
	w.extra("handler:RemoveScheduler", name+"-scheduler", nil, func() (int, string) { return errCode(h.RemoveScheduler(name + "-scheduler")) })
	// a refused, then an accepted rule update for pd/default: the handler synchronises max-replicas with the rule's count
	cnt := 4 + r.Intn(3)
	bad := mustJSON(map[string]interface{}{"group_id": "pd", "id": "default", "role": "voterr", "count": cnt})
	w.extra("/config/rule", string(bad), nil, func() (int, string) { return w.post("/config/rule", bad) })
	badKeys := mustJSON(map[string]interface{}{"group_id": "pd", "id": "default", "role": "voter", "count": cnt + 1, "start_key": "zz"})
	w.extra("/config/rule", string(badKeys), nil, func() (int, string) { return w.post("/config/rule", badKeys) })
	good := mustJSON(map[string]interface{}{"group_id": "pd", "id": "default", "role": "voter", "count": cnt})
	w.extra("/config/rule", string(good), nil, func() (int, string) { return w.post("/config/rule", good) })
	// two accepted updates that overlap: the first is parked at its write of the config key while the second runs
	w.kb.ArmPark(nil, kvx14.PlanKey("config", 0))
	sc := w.s.GetScheduleConfig()
	sc.MaxSnapshotCount = uint64(5 + r.Intn(4))
	sc.SchedulersPayload = nil
	doneA := make(chan int, 1)
	go func() { c, _ := w.post("/config/schedule", mustJSON(sc)); doneA <- c }()
	select {
	case <-w.kb.Parked():
	case <-time.After(5 * time.Second):
		w.notes["overlap: the first update did not reach its config write"] = true
	}
	doneB := make(chan int, 1)
	bodyB := mustJSON(map[string]interface{}{"pd-server.flow-round-by-digit": 6 + r.Intn(3)})
	go func() { c, _ := w.post("/config", bodyB); doneB <- c }()
	var codeB int
	select {
	case codeB = <-doneB:
	case <-time.After(50 * time.Millisecond): // the second update waits (it cannot take its snapshot while the first one writes)
	}
	w.kb.Release()
	codeA := <-doneA
	if codeB == 0 {
		codeB = <-doneB
	}
	w.kb.Arm(nil)
	sn := w.snapshot("ROk")
	if codeA == http.StatusOK && codeB == http.StatusOK {
		w.steps = append(w.steps, jstep{Path: "overlapping-updates", Body: "POST /config/schedule (parked at its config write) || POST /config " + string(bodyB), Code: 200, Res: "ROk",
			Served: sn.Served, Reload: sn.Reload})
	} else {
		w.notes[fmt.Sprintf("overlap: the two updates answered %d / %d", codeA, codeB)] = true
	}
	// a store joins (PutStore -> AddStoreLimit) and the first write of its store limit fails: AddStoreLimit backs off 100 ms and tries
	// again; an ordinary scheduling update is accepted inside that window: it must still be there after the retry
	w.kb.Arm(map[string]kvx14.Kind{kvx14.PlanKey("config", 0): kvx14.FailBefore})
	donePut := make(chan error, 1)
	go func() {
		donePut <- w.rc.PutStore(&metapb.Store{Id: uint64(40 + r.Intn(5)), Address: fmt.Sprintf("joining-%d", r.Intn(1000)), Version: "4.0.0"})
	}()
	dl := time.Now().Add(3 * time.Second)
	for len(w.kb.Entries()) == 0 && time.Now().Before(dl) {
		time.Sleep(time.Millisecond)
	}
	want := w.snapshot("ROk").Served
	want.Sched.Tol = []int64{50, 1250, 5000}[r.Intn(3)]
	if want.Sched.Tol == sn.Served.Sched.Tol {
		want.Sched.Tol += 10
	}
	bodyU := mustJSON(map[string]interface{}{"schedule.tolerant-size-ratio": float64(want.Sched.Tol) / 1000})
	codeU, _ := w.post("/config", bodyU)
	if err := <-donePut; err != nil {
		w.notes["store-limit retry: PutStore failed: "+err.Error()] = true
	}
	w.kb.Arm(nil)
	fin := w.snapshot("ROk")
	if codeU == http.StatusOK {
		want.Limits = fin.Served.Limits // the joining store's limit is the other, intended, change
		w.steps = append(w.steps, jstep{Path: "update-during-store-limit-retry", Body: "PutStore (1st store-limit write fails, 100 ms back-off) || POST /config " + string(bodyU), Code: 200, Res: "ROk",
			Served: fin.Served, Reload: want})
		w.steps = append(w.steps, jstep{Path: "after-store-limit-retry", Code: 200, Res: "ROk", Before: w.fullServed(), After: w.fullServed(), Served: fin.Served, Reload: fin.Reload})
	}
	for range w.steps {
		f.Ops = append(f.Ops, op{K: "other-writers"})
	}
	f.Steps = w.steps
	return f
}

func (w *world) runFree(boot conf, r *rng.R, nops int, useEtcd bool) freeRec {
	w.reset(boot, useEtcd)
	w.steps = nil
	f := freeRec{Via: "api-free", Boot: boot}
	cur := w.snapshot("ROk").Served
	w.unknown = false
	for k := 0; k < nops; k++ {
		if r.Pct(12) {
			o := op{K: "reload"}
			cur = w.execAPI(r, o, false).Served
			f.Ops = append(f.Ops, o)
			continue
		}
		o := gen(r, cur, r.Pct(35))
		if r.Pct(35) {
			m := rmode{Mode: pickS(r, "majority", "dr-auto-sync", "dr-auto-sync", "DR_AUTO_SYNC"), Label: pickS(r, "zone", "dc", "")}
			if r.Pct(45) {
				m.Mode = pickS(r, "bogus", "", "dr auto sync")
			}
			o = op{K: "mode", M: m, F: genFault(r, []string{"config", "config", "mode"}, 2, 30)}
		}
		o = w.narrow(r, o, cur)
		cur = w.execAPI(r, o, false).Served
		f.Ops = append(f.Ops, o)
	}
	f.Steps = w.steps
	return f
}

func stepsCoq(steps []jstep) string {
	xs := make([]string, len(steps))
	for i, st := range steps {
		xs[i] = "(" + qs(st.Path) + ", " + st.Res + ", " + qs(digest(st.Before)) + ", " + qs(digest(st.After)) + ",\n    " + st.Served.coq() + ",\n    " + st.Reload.coq() + ")"
	}
	return coqfmt.List(xs)
}

func (c caseRec) coq() string {
	ops := make([]string, len(c.In.Ops))
	for i, o := range c.In.Ops {
		ops[i] = o.coq()
	}
	return "(" + c.In.Boot.coq() + ",\n  " + coqfmt.List(ops) + ",\n  " + coqfmt.List(c.Obs) + ")"
}

func main() {
	seed := flag.Uint64("seed", 1, "")
	n := flag.Int("n", 150, "number of generated cases")
	out := flag.String("out", ".", "output directory")
	tier := flag.String("tier", "quick", "")
	corpus := flag.String("corpus", "", "json file of fixed cases run first")
	replay := flag.String("replay", "", "json file with cases (or an evidence replay file)")
	nwriters := flag.Int("writers", 3, "number of cases with scheduler add/remove under a failing config write, rule requests for pd/default and two overlapping updates")
	nttl := flag.Int("ttl", 2, "number of cases with a temporary (ttlSecond) override followed by ordinary updates and the expiry (about 2.5 s each)")
	ncoord := flag.Int("coord", 2, "number of cases with an update before the real coordinator start (about 3.5 s each)")
	nfree := flag.Int("free", 40, "number of model-free histories of HTTP requests (replication-mode requests included)")
	flag.Parse()

	w, err := newWorld()
	if err != nil {
		fmt.Fprintln(os.Stderr, "server:", err)
		os.Exit(2)
	}
	defer w.x.Close()
	R := res.New("C18", *seed, *tier)
	w.R = R
	R.Rule = "histories of SetScheduleConfig / SetReplicationConfig (placement rules on and off, count / labels / isolation level / toggles) / " +
		"SetPDServerConfig / SetLabelProperty / DeleteLabelProperty / SetClusterVersion / SetReplicationModeConfig on a REAL bootstrapped server, values " +
		"drawn from every boundary of every validated domain (ratios -0.001, 0, 1, 1.001, low=high, negative tolerant ratio, unregistered scheduler, " +
		"deprecated flags, isolation level not a label, malformed label keys, negative flow digit, foreign dashboard address, unparseable version, unknown " +
		"mode), a storage fault (not applied / applied-but-error) at the config write, the rule write or the replication-status write; after every call: " +
		"Server.Get*Config, the served default rule, a fresh PersistOptions.Reload from the same storage, the stored default rule, the mode manager's mode; " +
		"every 6th case on the etcd-backed kv.Base; a malformed stream mixed into every 3rd case; non-trivial = at least one accepted change, one " +
		"validation rejection and one faulted write; distinct by sha256 of the canonical case text; Further classes (see notes/C18.md): leader changes inside the histories, SetLabelPropertyConfig / store limits, every second case through the real server/api handler, byte-identical retries after failed writes, config-write faults at the etcd client on etcd-backed cases; model-free request histories (replication-mode, TTL overrides, the real coordinator start, scheduler add/remove, rule requests, overlapping updates, the store-limit retry)"
	cf := &coqfmt.CaseFile{Dir: *out, Prefix: "C18", PerFile: 20,
		Header: "From Coq Require Import String.\nFrom PDV Require Import lib.Base model.C18_Config.\nLocal Open Scope string_scope.\nLocal Open Scope Z_scope.\n",
		Type:   "case",
		Footer: "Definition M := Eval vm_compute in map fst (mismatches cases).\nDefinition D := Eval vm_compute in explain cases.\nDefinition V := Eval vm_compute in monitor_fails cases.\nPrint M. Print D. Print V.\n"}
	var fixed []caseIn
	for _, f := range []string{*corpus, *replay} {
		if f == "" {
			continue
		}
		b, err := os.ReadFile(f)
		if err != nil {
			panic(err)
		}
		var fr struct{ Replay freeRec }
		if err := json.Unmarshal(b, &fr); err == nil && fr.Replay.Via != "" && len(fr.Replay.Ops) > 0 {
			// an evidence file of the API-path class: run the same operations again through the handler and show every request
			w.reset(fr.Replay.Boot, false)
			w.steps = nil
			w.unknown = false
			for i, o := range fr.Replay.Ops {
				if i < len(fr.Replay.Steps) && !strings.HasPrefix(fr.Replay.Steps[i].Path, "setter:") {
					w.forced = &fr.Replay.Steps[i] // the very request of the recorded run
				}
				w.execAPI(nil, o, fr.Replay.Via != "api-free")
				w.forced = nil
			}
			for i, st := range w.steps {
				fmt.Printf("%d POST %s %s\n   -> %d %s  served configuration %s -> %s%s\n", i, st.Path, st.Body, st.Code, st.Res, digest(st.Before), digest(st.After),
					map[bool]string{true: "   <-- changed by a rejected request", false: ""}[st.Res != "ROk" && st.Before != st.After])
			}
			return
		}
		var l []caseIn
		if err := json.Unmarshal(b, &l); err != nil {
			var ev struct {
				Replay struct{ In caseIn }
			}
			if err2 := json.Unmarshal(b, &ev); err2 != nil || ev.Replay.In.Boot.Ver == "" {
				panic(err)
			}
			l = []caseIn{ev.Replay.In}
		}
		fixed = append(fixed, l...)
	}
	var all []caseRec
	var frees []freeRec
	emit := func(c caseRec) {
		if c.In.Via == "api" {
			frees = append(frees, freeRec{Via: "api", Boot: c.In.Boot, Ops: c.In.Ops, Steps: w.steps})
		}
		acc, rej, flt := 0, 0, 0
		for i, o := range c.In.Ops {
			R.Count("op:" + o.K)
			rs := strings.Fields(strings.TrimPrefix(c.Obs[i+1], "(Obs "))[0]
			R.Count("res:" + o.K + ":" + rs)
			if o.F.On {
				R.Count(fmt.Sprintf("fault:%s:%s:%d:%s", o.K, o.F.G, o.F.Idx, []string{"before", "after"}[o.F.Kind]))
				flt++
			}
			if rs == "ROk" {
				acc++
			} else if rs != "RStorage" {
				rej++
			}
		}
		if c.In.Boot.Repl.PR {
			R.Count("boot:placement-rules-on")
		} else {
			R.Count("boot:placement-rules-off")
		}
		txt := c.coq()
		R.Case(txt, acc > 0 && rej > 0 && flt > 0)
		R.Sample(map[string]interface{}{"in": c.In})
		if err := cf.Add(txt); err != nil {
			panic(err)
		}
		all = append(all, c)
	}
	for _, f := range fixed {
		emit(w.runCase(f, nil, 0, false, false))
		R.Count("stream:corpus")
	}
	if *replay != "" {
		for _, c := range all {
			fmt.Println("boot", c.In.Boot.coq(), "\n   ->", c.Obs[0])
			for i, o := range c.In.Ops {
				fmt.Printf("%s\n   -> %s\n", o.coq(), c.Obs[i+1])
			}
		}
	} else {
		master := rng.New(*seed)
		for k := 0; k < *n; k++ {
			r := master.Fork(uint64(k))
			useEtcd := k%6 == 5
			mal := k%3 == 2
			if useEtcd {
				R.Count("stream:etcd-backed")
			} else {
				R.Count("stream:memory-backed")
			}
			if mal {
				R.Count("stream:malformed-mixed")
			}
			via := ""
			if k%2 == 1 {
				via = "api"
				R.Count("stream:api-path")
			}
			emit(w.runCase(caseIn{Boot: defaultBoot(r), Via: via}, r, 10+r.Intn(25), mal, useEtcd))
		}
		for k := 0; k < *nfree; k++ {
			r := master.Fork(uint64(1000000 + k))
			frees = append(frees, w.runFree(defaultBoot(r), r, 8+r.Intn(14), k%6 == 5))
			R.Count("stream:api-free")
		}
		for k := 0; k < *nwriters; k++ {
			r := master.Fork(uint64(4000000 + k))
			frees = append(frees, w.runWriters(defaultBoot(r), r))
			R.Count("stream:other-writers")
		}
		for k := 0; k < *nttl; k++ {
			r := master.Fork(uint64(3000000 + k))
			frees = append(frees, w.runTTL(defaultBoot(r), r))
			R.Count("stream:ttl-override")
		}
		for k := 0; k < *ncoord; k++ {
			r := master.Fork(uint64(2000000 + k))
			frees = append(frees, w.runCoordinatorStart(defaultBoot(r), r))
			R.Count("stream:coordinator-start")
		}
	}
	if err := cf.Flush(); err != nil {
		panic(err)
	}
	R.CaseFiles = cf.Files
	var raw []interface{}
	for _, c := range all {
		raw = append(raw, c)
	}
	if len(frees) > 0 {
		for len(raw)%cf.PerFile != 0 { // keep bin/check's (file, index) -> cases.json arithmetic valid across the two kinds of file
			raw = append(raw, nil)
		}
		jf := &coqfmt.CaseFile{Dir: *out, Prefix: "C18j", PerFile: cf.PerFile, Header: cf.Header, Type: "jcase",
			Footer: "Definition M := Eval vm_compute in (@nil nat).\nDefinition D := Eval vm_compute in (@nil nat).\nDefinition V := Eval vm_compute in monitor_j_fails cases.\nPrint M. Print D. Print V.\n"}
		for _, f := range frees {
			rej, acc := 0, 0
			for _, st := range f.Steps {
				R.Count("api-res:" + st.Path + ":" + st.Res)
				if st.Res == "ROk" {
					acc++
				} else {
					rej++
				}
			}
			txt := stepsCoq(f.Steps)
			R.Case(txt, acc > 0 && rej > 0)
			if err := jf.Add(txt); err != nil {
				panic(err)
			}
			raw = append(raw, f)
		}
		if err := jf.Flush(); err != nil {
			panic(err)
		}
		R.CaseFiles = append(R.CaseFiles, jf.Files...)
	}
	for k := range w.notes {
		R.Notes = append(R.Notes, k)
	}
	sort.Strings(R.Notes)
	b, _ := json.Marshal(raw)
	os.WriteFile(path.Join(*out, "cases.json"), b, 0o644)
	if err := R.Write(path.Join(*out, "result.json")); err != nil {
		panic(err)
	}
}
