// Driver for C04: runs real id.Allocator instances on an embedded etcd under controlled
// schedules and prints (ops, observations) as Coq terms for model/C04_IdAlloc.v.
package main

import (
	"context"
	"encoding/json"
	"flag"
	"fmt"
	"os"
	"path"
	"strings"
	"time"

	"github.com/tikv/pd/pkg/errs"
	"github.com/tikv/pd/pkg/typeutil"
	"github.com/tikv/pd/server/id"
	"go.etcd.io/etcd/clientv3"

	"pdverif/internal/coqfmt"
	"pdverif/internal/etcdx"
	"pdverif/internal/pdcluster"
	"pdverif/internal/res"
	"pdverif/internal/rng"
	"pdverif/internal/srv15"

	"github.com/pingcap/kvproto/pkg/metapb"
	"github.com/pingcap/kvproto/pkg/pdpb"
	"sync"
	"sync/atomic"
)

type opKind int

const (
	oAlloc opKind = iota
	oRebase
	oBegin
	oFinish
	oNew
	oSetLeader
	oRead
)

type op struct {
	K   opKind
	I   int   // instance
	Alc bool  // OBegin: FromAlloc?
	Out int   // OFinish: 0 Ok 1 ErrNotApplied 2 ErrApplied
	M   int64 // ONew member / OSetLeader member (0 = delete)
}

func (o op) coq() string {
	kind := "FromRebase"
	if o.Alc {
		kind = "FromAlloc"
	}
	switch o.K {
	case oAlloc:
		return fmt.Sprintf("OAlloc %d", o.I)
	case oRebase:
		return fmt.Sprintf("ORebase %d", o.I)
	case oBegin:
		return fmt.Sprintf("OBegin %d %s", o.I, kind)
	case oFinish:
		return fmt.Sprintf("OFinish %d %s", o.I, []string{"Ok", "ErrNotApplied", "ErrApplied"}[o.Out])
	case oNew:
		return "ONew " + coqfmt.Z(o.M)
	case oSetLeader:
		if o.M == 0 {
			return "OSetLeader None"
		}
		return "OSetLeader (Some " + coqfmt.Z(o.M) + ")"
	default:
		return "ORead"
	}
}

type inst struct {
	a       id.Allocator
	ctl     *etcdx.CtlKV
	pending bool
	alc     bool
	done    chan result
}

type result struct {
	id  uint64
	err error
}

type world struct {
	e     *etcdx.Etcd
	root  string
	admin *clientv3.Client
	insts []*inst
	pool  *clientPool
}

// clients are reused across cases (a client per instance slot) to keep connection churn down
type clientPool struct {
	e    *etcdx.Etcd
	clis []*clientv3.Client
	ctls []*etcdx.CtlKV
}

func (p *clientPool) get(i int) (*clientv3.Client, *etcdx.CtlKV) {
	for len(p.clis) <= i {
		c, k, err := p.e.NewClient()
		if err != nil {
			panic(err)
		}
		p.clis = append(p.clis, c)
		p.ctls = append(p.ctls, k)
	}
	return p.clis[i], p.ctls[i]
}

func member(m int64) string { return fmt.Sprintf("m%d", m) }

func errObs(err error) string {
	if errs.ErrEtcdTxnConflict.Equal(err) {
		return "BErrConflict"
	}
	return "BErrEtcd"
}

func (w *world) exec(o op) string {
	ctx, cancel := context.WithTimeout(context.Background(), 10*time.Second)
	defer cancel()
	switch o.K {
	case oNew:
		cli, ctl := w.pool.get(len(w.insts))
		ctl.SetNext(etcdx.Pass)
		w.insts = append(w.insts, &inst{a: id.NewAllocator(cli, w.root, member(o.M)), ctl: ctl})
		return "BUnit"
	case oSetLeader:
		var err error
		if o.M == 0 {
			_, err = w.admin.Delete(ctx, path.Join(w.root, "leader"))
		} else {
			_, err = w.admin.Put(ctx, path.Join(w.root, "leader"), member(o.M))
		}
		if err != nil {
			panic(err)
		}
		return "BUnit"
	case oRead:
		r, err := w.admin.Get(ctx, path.Join(w.root, "alloc_id"))
		if err != nil {
			panic(err)
		}
		a := "None"
		if len(r.Kvs) > 0 {
			v, err := typeutil.BytesToUint64(r.Kvs[0].Value)
			if err != nil {
				panic(err)
			}
			a = "(Some " + coqfmt.ZU(v) + ")"
		}
		r, err = w.admin.Get(ctx, path.Join(w.root, "leader"))
		if err != nil {
			panic(err)
		}
		l := "None"
		if len(r.Kvs) > 0 {
			var m int64
			fmt.Sscanf(string(r.Kvs[0].Value), "m%d", &m)
			l = "(Some " + coqfmt.Z(m) + ")"
		}
		return "BStored " + a + " " + l
	case oAlloc:
		x := w.insts[o.I]
		v, err := x.a.Alloc()
		if err != nil {
			return errObs(err)
		}
		return "BId " + coqfmt.ZU(v)
	case oRebase:
		x := w.insts[o.I]
		if err := x.a.Rebase(); err != nil {
			return errObs(err)
		}
		return "BUnit"
	case oBegin:
		x := w.insts[o.I]
		x.ctl.SetNext(etcdx.Park)
		x.done = make(chan result, 1)
		x.alc = o.Alc
		go func() {
			if o.Alc {
				v, err := x.a.Alloc()
				x.done <- result{v, err}
			} else {
				x.done <- result{0, x.a.Rebase()}
			}
		}()
		select {
		case <-x.ctl.Parked():
			x.pending = true
			return "BStarted"
		case r := <-x.done:
			x.ctl.SetNext(etcdx.Pass)
			if r.err != nil {
				return errObs(r.err) // the Get failed: not expected
			}
			return "BFast " + coqfmt.ZU(r.id)
		case <-time.After(10 * time.Second):
			panic("begin: neither parked nor done")
		}
	case oFinish:
		x := w.insts[o.I]
		x.ctl.Release([]etcdx.Mode{etcdx.Pass, etcdx.FailBefore, etcdx.FailAfter}[o.Out])
		r := <-x.done
		x.pending = false
		if r.err != nil {
			return errObs(r.err)
		}
		if x.alc {
			return "BId " + coqfmt.ZU(r.id)
		}
		return "BUnit"
	}
	panic("bad op")
}

// gen draws the next op given what is legal now (never an op the model calls BBad).
func gen(r *rng.R, w *world, members int) op {
	n := len(w.insts)
	if n == 0 {
		return op{K: oNew, M: int64(1 + r.Intn(members))}
	}
	var free, pend []int
	for i, x := range w.insts {
		if x.pending {
			pend = append(pend, i)
		} else {
			free = append(free, i)
		}
	}
	for {
		switch r.Pick(55, 6, 12, 12, 3, 8, 4) {
		case 0:
			if len(free) > 0 {
				return op{K: oAlloc, I: free[r.Intn(len(free))]}
			}
		case 1:
			if len(free) > 0 {
				return op{K: oRebase, I: free[r.Intn(len(free))]}
			}
		case 2:
			if len(free) > 0 {
				return op{K: oBegin, I: free[r.Intn(len(free))], Alc: r.Pct(70)}
			}
		case 3:
			if len(pend) > 0 {
				return op{K: oFinish, I: pend[r.Intn(len(pend))], Out: r.Pick(70, 15, 15)}
			}
		case 4:
			if n < 4 {
				return op{K: oNew, M: int64(1 + r.Intn(members))}
			}
		case 5:
			return op{K: oSetLeader, M: int64(r.Intn(members + 1))}
		case 6:
			return op{K: oRead}
		}
	}
}

type caseRec struct {
	Ops []op
	Obs []string
}

// exhaustedWindowScenarios: an instance that has used up its window and whose next reservation FAILS must not hand out
// anything from memory afterwards (every later Alloc has to reserve again).
func exhaustedWindowScenarios() [][]op {
	use := func() []op {
		l := []op{{K: oNew, M: 1}, {K: oSetLeader, M: 1}}
		for k := 0; k < 1000; k++ {
			l = append(l, op{K: oAlloc, I: 0})
		}
		return append(l, op{K: oRead})
	}
	// (1) the reservation fails in storage (not applied), the caller tries again
	a := append(use(), op{K: oBegin, I: 0, Alc: true}, op{K: oFinish, I: 0, Out: 1}, op{K: oRead},
		op{K: oAlloc, I: 0}, op{K: oRead}, op{K: oAlloc, I: 0}, op{K: oRead})
	// (2) the leadership moved: the old instance's reservation is refused, a new instance of the new leader allocates,
	// the old instance is asked again
	b := append(use(), op{K: oSetLeader, M: 2}, op{K: oAlloc, I: 0}, op{K: oRead}, op{K: oNew, M: 2}, op{K: oAlloc, I: 1},
		op{K: oAlloc, I: 0}, op{K: oRead}, op{K: oAlloc, I: 1}, op{K: oAlloc, I: 0}, op{K: oRead})
	// (3) an explicit Rebase fails after a few ids were handed out; allocation goes on
	c := []op{{K: oNew, M: 1}, {K: oSetLeader, M: 1}, {K: oAlloc, I: 0}, {K: oAlloc, I: 0}, {K: oBegin, I: 0}, {K: oFinish, I: 0, Out: 1},
		{K: oAlloc, I: 0}, {K: oRead}, {K: oSetLeader, M: 2}, {K: oNew, M: 2}, {K: oAlloc, I: 1}, {K: oAlloc, I: 0}, {K: oRead}}
	return [][]op{a, b, c}
}

func runCase(e *etcdx.Etcd, pool *clientPool, admin *clientv3.Client, root string, r *rng.R, fixed []op, maxOps int) caseRec {
	w := &world{e: e, root: root, admin: admin, pool: pool}
	var c caseRec
	step := func(o op) {
		c.Ops = append(c.Ops, o)
		c.Obs = append(c.Obs, w.exec(o))
	}
	if fixed != nil {
		for _, o := range fixed {
			step(o)
		}
	} else {
		members := 1 + r.Intn(3)
		// prefix that makes most cases productive: an instance and a matching leader
		step(op{K: oNew, M: 1})
		if r.Pct(85) {
			step(op{K: oSetLeader, M: 1})
		}
		// exhaust-the-window stream: some cases allocate > allocStep ids on one instance
		if r.Pct(4) {
			for k := 0; k < 1003; k++ {
				step(op{K: oAlloc, I: 0})
			}
		}
		n := 10 + r.Intn(maxOps)
		for k := 0; k < n; k++ {
			step(gen(r, w, members))
		}
	}
	// drain parked calls so no goroutine or mutex is left hanging
	for i, x := range w.insts {
		if x.pending {
			step(op{K: oFinish, I: i, Out: 0})
		}
	}
	step(op{K: oRead})
	return c
}

func (c caseRec) coq() string {
	ops := make([]string, len(c.Ops))
	for i, o := range c.Ops {
		ops[i] = o.coq()
	}
	return "(" + coqfmt.List(ops) + ",\n  " + coqfmt.List(c.Obs) + ")"
}

// serverPhase: ids handed out by a complete real server through the AllocID RPC handler and through split handling
// (AskSplit / AskBatchSplit draw region and peer ids from the same allocator), by concurrent callers, across two restarts
// on the same data directory. Checked on the Go side: pairwise distinct, and never above the stored alloc_id bound.
func serverPhase(R *res.Result, rounds int) {
	cfg, err := srv15.Config()
	if err != nil {
		R.Notes = append(R.Notes, "server phase skipped: "+err.Error())
		return
	}
	seen := map[uint64]string{}
	var mu sync.Mutex
	note := func(id uint64, src string, bound uint64) {
		mu.Lock()
		defer mu.Unlock()
		if prev, ok := seen[id]; ok {
			R.Violate("C04:duplicate-id:real-server", fmt.Sprintf("id %d handed out twice by a real server (%s, earlier %s)", id, src, prev), map[string]interface{}{"id": id})
		}
		seen[id] = src
		if bound != 0 && id > bound {
			R.Violate("C04:id-above-stored-bound:real-server", fmt.Sprintf("id %d handed out while the stored bound was %d", id, bound), map[string]interface{}{"id": id, "bound": bound})
		}
	}
	var x *srv15.Srv
	for term := 0; term < 3; term++ {
		if term == 0 {
			x, err = srv15.StartWith(cfg)
			if err == nil {
				err = x.Bootstrap()
			}
		} else {
			// the server is closed while requests keep arriving (a graceful step-down under load): whatever is still
			// answered on the way down must stay unique and below the bound the next term starts from
			var lw sync.WaitGroup
			var down int32
			old := x
			for g := 0; g < 3; g++ {
				lw.Add(1)
				go func() {
					defer lw.Done()
					for atomic.LoadInt32(&down) == 0 {
						ctx, cancel := context.WithTimeout(context.Background(), 2*time.Second)
						resp, err := old.S.AllocID(ctx, &pdpb.AllocIDRequest{Header: old.Header()})
						cancel()
						if err == nil && resp.GetHeader().GetError() == nil {
							note(resp.GetId(), fmt.Sprintf("AllocID while term %d was being closed", term-1), 0)
						}
					}
				}()
			}
			time.Sleep(30 * time.Millisecond)
			x.Stop()
			atomic.StoreInt32(&down, 1)
			lw.Wait()
			x, err = srv15.StartWith(cfg)
		}
		if err != nil {
			R.Notes = append(R.Notes, "server phase aborted: "+err.Error())
			break
		}
		s := x.S
		s.SetClusterVersion("5.0.0") // the batch split handler answers only from 2.1 on
		bound := func() uint64 {
			ctx, cancel := context.WithTimeout(context.Background(), 5*time.Second)
			defer cancel()
			r, err := s.GetClient().Get(ctx, path.Join("/pd", fmt.Sprint(s.ClusterID()), "alloc_id"))
			if err != nil || len(r.Kvs) == 0 {
				return 0
			}
			v, _ := typeutil.BytesToUint64(r.Kvs[0].Value)
			return v
		}
		var wg sync.WaitGroup
		for g := 0; g < 4; g++ {
			wg.Add(1)
			go func(g int) {
				defer wg.Done()
				for k := 0; k < rounds; k++ {
					b := bound()
					if g%2 == 0 {
						resp, err := s.AllocID(context.Background(), &pdpb.AllocIDRequest{Header: x.Header()})
						if err == nil && resp.GetHeader().GetError() == nil {
							note(resp.GetId(), fmt.Sprintf("AllocID term %d", term), 0)
							_ = b
						}
					} else {
						region := &metapb.Region{Id: 2, Peers: []*metapb.Peer{{Id: 3, StoreId: 1}}}
						resp, err := s.AskBatchSplit(context.Background(), &pdpb.AskBatchSplitRequest{Header: x.Header(), Region: region, SplitCount: 3})
						if err != nil || resp.GetHeader().GetError() != nil {
							// clusters whose version does not support batch split: the single split handler
							r1, err1 := s.AskSplit(context.Background(), &pdpb.AskSplitRequest{Header: x.Header(), Region: region})
							if err1 == nil && r1.GetHeader().GetError() == nil {
								note(r1.GetNewRegionId(), fmt.Sprintf("AskSplit term %d", term), 0)
								for _, p := range r1.GetNewPeerIds() {
									note(p, fmt.Sprintf("AskSplit peer term %d", term), 0)
								}
							} else {
								mu.Lock()
								R.Count("server:split-refused")
								mu.Unlock()
							}
							continue
						}
						if err == nil && resp.GetHeader().GetError() == nil {
							for _, ids := range resp.GetIds() {
								note(ids.GetNewRegionId(), fmt.Sprintf("AskBatchSplit term %d", term), 0)
								for _, p := range ids.GetNewPeerIds() {
									note(p, fmt.Sprintf("AskBatchSplit peer term %d", term), 0)
								}
							}
						}
					}
				}
			}(g)
		}
		wg.Wait()
		// one split request that needs more ids than a whole window holds (400 new regions with 3 peers each)
		func() {
			ctx, cancel := context.WithTimeout(context.Background(), 30*time.Second)
			defer cancel()
			region := &metapb.Region{Id: 2, Peers: []*metapb.Peer{{Id: 3, StoreId: 1}, {Id: 4, StoreId: 2}, {Id: 5, StoreId: 3}}}
			resp, err := s.AskBatchSplit(ctx, &pdpb.AskBatchSplitRequest{Header: x.Header(), Region: region, SplitCount: 400})
			if err != nil || resp.GetHeader().GetError() != nil {
				return
			}
			mu.Lock()
			R.Count("server:big-batch-split")
			mu.Unlock()
			for _, ids := range resp.GetIds() {
				note(ids.GetNewRegionId(), fmt.Sprintf("AskBatchSplit(400) term %d", term), 0)
				for _, p := range ids.GetNewPeerIds() {
					note(p, fmt.Sprintf("AskBatchSplit(400) peer term %d", term), 0)
				}
			}
			if b := bound(); b != 0 {
				for _, ids := range resp.GetIds() {
					for _, v := range append([]uint64{ids.GetNewRegionId()}, ids.GetNewPeerIds()...) {
						if v > b {
							R.Violate("C04:id-above-stored-bound:real-server", fmt.Sprintf("a split request for 400 regions was answered with id %d while the stored bound is %d", v, b), map[string]interface{}{"id": v, "bound": b})
							return
						}
					}
				}
			}
		}()
		// a split request whose region id is the last id of the window while the extension needed for its peer ids is
		// refused (the leader record does not carry this member's value at that moment): the request may fail, but a
		// successful answer must carry fresh ids only
		func() {
			ctx, cancel := context.WithTimeout(context.Background(), 20*time.Second)
			defer cancel()
			b := bound()
			if b == 0 {
				return
			}
			for k := 0; k < 1100; k++ {
				resp, err := s.AllocID(ctx, &pdpb.AllocIDRequest{Header: x.Header()})
				if err != nil || resp.GetHeader().GetError() != nil {
					return
				}
				note(resp.GetId(), fmt.Sprintf("AllocID term %d", term), 0)
				if resp.GetId() == b-1 {
					break
				}
				if resp.GetId() >= b {
					b = bound()
				}
			}
			lp := s.GetMember().GetLeaderPath()
			r, err := s.GetClient().Get(ctx, lp)
			if err != nil || len(r.Kvs) == 0 {
				return
			}
			orig, lease := string(r.Kvs[0].Value), clientv3.LeaseID(r.Kvs[0].Lease)
			if _, err := s.GetClient().Put(ctx, lp, "verif: some other member", clientv3.WithLease(lease)); err != nil {
				return
			}
			region := &metapb.Region{Id: 2, Peers: []*metapb.Peer{{Id: 3, StoreId: 1}, {Id: 4, StoreId: 2}, {Id: 5, StoreId: 3}}}
			var got []uint64
			ok := false
			if resp, err := s.AskBatchSplit(ctx, &pdpb.AskBatchSplitRequest{Header: x.Header(), Region: region, SplitCount: 1}); err == nil && resp.GetHeader().GetError() == nil {
				ok = true
				for _, ids := range resp.GetIds() {
					got = append(append(got, ids.GetNewRegionId()), ids.GetNewPeerIds()...)
				}
			} else if r1, err1 := s.AskSplit(ctx, &pdpb.AskSplitRequest{Header: x.Header(), Region: region}); err1 == nil && r1.GetHeader().GetError() == nil {
				ok = true
				got = append(append(got, r1.GetNewRegionId()), r1.GetNewPeerIds()...)
			}
			s.GetClient().Put(ctx, lp, orig, clientv3.WithLease(lease))
			mu.Lock()
			R.Count("server:split-with-refused-extension")
			mu.Unlock()
			if ok {
				for _, v := range got {
					if v == 0 {
						R.Violate("C04:zero-id-in-successful-split-answer", fmt.Sprintf("a split request whose peer ids needed a window extension that etcd refused was answered successfully with ids %v", got), map[string]interface{}{"ids": got, "term": term})
						break
					}
				}
				for _, v := range got {
					if v != 0 {
						note(v, fmt.Sprintf("split with refused extension term %d", term), 0)
					}
				}
			}
		}()
		// the same process loses the leadership and wins it again with a window that is nearly used up (whatever a
		// background tick of the old term set aside must not come back later): one caller's ids strictly increase
		// across the re-election and for more than a window afterwards
		if term == 1 {
			func() {
				ctx, cancel := context.WithTimeout(context.Background(), 40*time.Second)
				defer cancel()
				one := func() (uint64, bool) {
					resp, err := s.AllocID(ctx, &pdpb.AllocIDRequest{Header: x.Header()})
					if err != nil || resp.GetHeader().GetError() != nil {
						return 0, false
					}
					return resp.GetId(), true
				}
				var last uint64
				step := func(what string) bool {
					id, ok := one()
					if !ok {
						return false
					}
					note(id, what, 0)
					if last != 0 && id <= last {
						R.Violate("C04:id-not-increasing:same-process-elected-again", fmt.Sprintf("one caller, one server process: id %d was handed out after id %d (%s)", id, last, what),
							map[string]interface{}{"id": id, "after": last, "scenario": "ids until fewer than 150 are left in the window; 150 ms; ResetLeader; the same member wins again; 1500 more ids"})
						return false
					}
					last = id
					return true
				}
				b := bound()
				for k := 0; k < 1200 && b != 0; k++ {
					if !step("AllocID before the re-election") {
						return
					}
					if last >= b {
						b = bound()
					}
					if b-last < 150 {
						break
					}
				}
				time.Sleep(150 * time.Millisecond) // three leader ticks
				s.GetMember().ResetLeader()
				if x.WaitLeader(20*time.Second) != nil {
					return
				}
				mu.Lock()
				R.Count("server:same-process-elected-again")
				mu.Unlock()
				for k := 0; k < 1500; k++ {
					if !step("AllocID after the same process was elected again") {
						return
					}
				}
			}()
		}
		// every id handed out so far is at most the bound stored now
		b := bound()
		mu.Lock()
		for id := range seen {
			if b != 0 && id > b {
				R.Violate("C04:id-above-stored-bound:real-server", fmt.Sprintf("id %d was handed out but the stored bound is %d", id, b), map[string]interface{}{"id": id, "bound": b})
			}
		}
		mu.Unlock()
	}
	if x != nil {
		x.Close()
	}
	R.CountN("server:ids", len(seen))
}

// recoveredBoundProbe: the stored bound is written from outside with a value that is not a multiple of the window size
// (pd-recover -alloc-id <n>, a restored backup), at or above every id handed out so far. Every later instance starts above it.
func recoveredBoundProbe(e *etcdx.Etcd, admin *clientv3.Client, R *res.Result) {
	root := "/c04/recovered"
	ctx, cancel := context.WithTimeout(context.Background(), 30*time.Second)
	defer cancel()
	if _, err := admin.Put(ctx, path.Join(root, "leader"), member(1)); err != nil {
		return
	}
	cli, _, err := e.NewClient()
	if err != nil {
		return
	}
	a := id.NewAllocator(cli, root, member(1))
	seen := map[uint64]bool{}
	var top uint64
	for k := 0; k < 2400; k++ {
		v, err := a.Alloc()
		if err != nil {
			return
		}
		seen[v] = true
		if v > top {
			top = v
		}
	}
	for round, extra := range []uint64{100, 499, 1} {
		written := top + extra // not a multiple of 1000
		if written%1000 == 0 {
			written++
		}
		if _, err := admin.Put(ctx, path.Join(root, "alloc_id"), string(typeutil.Uint64ToBytes(written))); err != nil {
			return
		}
		cli2, _, err := e.NewClient()
		if err != nil {
			return
		}
		b := id.NewAllocator(cli2, root, member(1))
		if err := b.Rebase(); err != nil {
			return
		}
		R.Count("recovered-bound:probed")
		for k := 0; k < 1200; k++ {
			v, err := b.Alloc()
			if err != nil {
				return
			}
			if seen[v] || v <= written {
				R.Violate("C04:duplicate-id:stored-bound-written-from-outside",
					fmt.Sprintf("the stored bound was set to %d from outside (every id handed out so far is at most %d); a new instance then handed out %d", written, top, v),
					map[string]interface{}{"written_bound": written, "largest_id_before": top, "id": v, "round": round})
				return
			}
			seen[v] = true
			if v > top {
				top = v
			}
		}
	}
}

// rebaseRaceProbe: Rebase (what a new leader calls) is stopped right after etcd applied its window reservation and
// before it returns; meanwhile Alloc calls arrive on the same allocator (background jobs of a freshly elected PD) and use
// up the current window. Whatever the interleaving, every id must be unique, increasing per caller, at most the stored
// bound, and a later instance must start above all of them.
func rebaseRaceProbe(e *etcdx.Etcd, admin *clientv3.Client, R *res.Result) {
	root := "/c04/rebase-race"
	ctx, cancel := context.WithTimeout(context.Background(), 30*time.Second)
	defer cancel()
	if _, err := admin.Put(ctx, path.Join(root, "leader"), member(1)); err != nil {
		return
	}
	cli, ctl, err := e.NewClient()
	if err != nil {
		return
	}
	a := id.NewAllocator(cli, root, member(1))
	bound := func() uint64 {
		r, err := admin.Get(ctx, path.Join(root, "alloc_id"))
		if err != nil || len(r.Kvs) == 0 {
			return 0
		}
		v, _ := typeutil.BytesToUint64(r.Kvs[0].Value)
		return v
	}
	seen := map[uint64]bool{}
	var last uint64
	bad := false
	var mu sync.Mutex
	note := func(v uint64, who string) {
		b := bound() // read after the id was returned: the bound never decreases, so it is at least the bound at return time
		mu.Lock()
		defer mu.Unlock()
		if bad {
			return
		}
		switch {
		case seen[v]:
			bad = true
			R.Violate("C04:duplicate-id:alloc-racing-with-rebase", fmt.Sprintf("id %d handed out twice (%s)", v, who), map[string]interface{}{"id": v})
		case v > b:
			bad = true
			R.Violate("C04:id-above-stored-bound:alloc-racing-with-rebase", fmt.Sprintf("id %d handed out (%s) while the stored bound is %d; Rebase had been stopped between the commit of its reservation and its return while Alloc calls used up the window", v, who, b),
				map[string]interface{}{"id": v, "bound": b, "scenario": "Alloc; Rebase parked after its transaction was applied; 1200 x Alloc on the same allocator; Rebase released; 1500 x Alloc; new instance Alloc"})
		case v <= last:
			bad = true
			R.Violate("C04:id-not-increasing:alloc-racing-with-rebase", fmt.Sprintf("id %d handed out after %d (%s)", v, last, who), map[string]interface{}{"id": v, "last": last})
		}
		seen[v] = true
		last = v
	}
	v, err := a.Alloc()
	if err != nil {
		return
	}
	note(v, "first Alloc")
	ctl.SetNext(etcdx.ParkAfter)
	rdone := make(chan error, 1)
	go func() { rdone <- a.Rebase() }()
	select {
	case <-ctl.Parked():
	case <-rdone:
		R.Notes = append(R.Notes, "rebase-race probe: Rebase did not reach its transaction")
		return
	case <-time.After(10 * time.Second):
		return
	}
	adone := make(chan struct{})
	var progress int32
	go func() {
		defer close(adone)
		for k := 0; k < 1200; k++ {
			v, err := a.Alloc()
			if err != nil {
				return
			}
			atomic.AddInt32(&progress, 1)
			note(v, "Alloc during/after the stopped Rebase")
		}
	}()
	time.Sleep(300 * time.Millisecond)
	if atomic.LoadInt32(&progress) > 0 { // Alloc is not waiting for the Rebase in progress: let it use up its window first
		select {
		case <-adone:
		case <-time.After(10 * time.Second):
		}
	}
	ctl.Release(etcdx.Pass)
	<-rdone
	<-adone
	for k := 0; k < 1500; k++ {
		v, err := a.Alloc()
		if err != nil {
			break
		}
		note(v, "Alloc after Rebase returned")
	}
	cli2, _, err := e.NewClient()
	if err != nil {
		return
	}
	b := id.NewAllocator(cli2, root, member(1))
	if err := b.Rebase(); err == nil {
		if v, err := b.Alloc(); err == nil {
			note(v, "first Alloc of the next instance")
		}
	}
	R.Count("rebase-race:probed")
}

// handoverPhase: two real members; the PD leadership is handed from one to the other and back (`member leader transfer`,
// a graceful step-down: the old leader still holds its lease when it starts to step down) while four callers keep
// sending AllocID to both members. Every id answered by anybody must be unique and at most the stored bound afterwards.
// Runs in the background; returns the function that enters its findings into the result.
func handoverPhase() func(R *res.Result) {
	type viol struct {
		sig, desc string
		data      interface{}
	}
	var viols []viol
	var notes []string
	ids, moves := 0, 0
	done := func(R *res.Result) {
		for _, v := range viols {
			R.Violate(v.sig, v.desc, v.data)
		}
		R.Notes = append(R.Notes, notes...)
		R.CountN("handover:ids", ids)
		R.CountN("handover:leader-moves", moves)
	}
	c, err := pdcluster.Start(2, nil)
	if err != nil {
		notes = append(notes, "hand-over phase skipped: "+err.Error())
		return done
	}
	defer c.Close()
	if c.WaitLeader(60*time.Second) == nil {
		notes = append(notes, "hand-over phase skipped: no PD leader after 60 s")
		return done
	}
	var mu sync.Mutex
	seen := map[uint64]string{}
	var stop int32
	var wg sync.WaitGroup
	for g := 0; g < 4; g++ {
		wg.Add(1)
		go func(g int) {
			defer wg.Done()
			for atomic.LoadInt32(&stop) == 0 {
				for i, x := range c.Nodes {
					ctx, cancel := context.WithTimeout(context.Background(), 2*time.Second)
					resp, err := x.S.AllocID(ctx, &pdpb.AllocIDRequest{Header: &pdpb.RequestHeader{ClusterId: x.S.ClusterID()}})
					cancel()
					if err != nil || resp.GetHeader().GetError() != nil {
						continue
					}
					id := resp.GetId()
					mu.Lock()
					if prev, ok := seen[id]; ok && len(viols) < 3 {
						viols = append(viols, viol{"C04:duplicate-id:leader-hand-over-under-load",
							fmt.Sprintf("id %d was answered by member %d after %d leader moves and had been answered before by %s", id, i+1, moves, prev),
							map[string]interface{}{"id": id, "member": i + 1, "earlier": prev, "scenario": "two members; AllocID to both from 4 callers while the PD leadership is transferred back and forth"}})
					}
					seen[id] = fmt.Sprintf("member %d (after %d leader moves)", i+1, moves)
					mu.Unlock()
				}
			}
		}(g)
	}
	for k := 0; k < 3; k++ {
		time.Sleep(300 * time.Millisecond)
		l := c.Leader()
		if l == nil {
			if l = c.WaitLeader(30 * time.Second); l == nil {
				break
			}
		}
		var o *pdcluster.Node
		for _, x := range c.Nodes {
			if x != l {
				o = x
			}
		}
		ctx, cancel := context.WithTimeout(context.Background(), 10*time.Second)
		err := l.S.GetMember().ResignEtcdLeader(ctx, l.Cfg.Name, o.Cfg.Name)
		cancel()
		if err != nil {
			notes = append(notes, "hand-over phase: transfer refused: "+err.Error())
			break
		}
		deadline := time.Now().Add(30 * time.Second)
		for c.Leader() != o && time.Now().Before(deadline) {
			time.Sleep(10 * time.Millisecond)
		}
		if c.Leader() != o {
			notes = append(notes, "hand-over phase: the PD leadership did not move within 30 s")
			break
		}
		mu.Lock()
		moves++
		mu.Unlock()
	}
	time.Sleep(300 * time.Millisecond)
	atomic.StoreInt32(&stop, 1)
	wg.Wait()
	ids = len(seen)
	if l := c.WaitLeader(10 * time.Second); l != nil {
		ctx, cancel := context.WithTimeout(context.Background(), 5*time.Second)
		r, err := l.S.GetClient().Get(ctx, path.Join("/pd", fmt.Sprint(l.S.ClusterID()), "alloc_id"))
		cancel()
		if err == nil && len(r.Kvs) > 0 {
			b, _ := typeutil.BytesToUint64(r.Kvs[0].Value)
			for id, who := range seen {
				if id > b {
					viols = append(viols, viol{"C04:id-above-stored-bound:leader-hand-over-under-load", fmt.Sprintf("id %d (answered by %s) is above the stored bound %d", id, who, b), map[string]interface{}{"id": id, "bound": b}})
					break
				}
			}
		}
	}
	return done
}

func main() {
	seed := flag.Uint64("seed", 1, "")
	n := flag.Int("n", 300, "number of generated cases")
	out := flag.String("out", ".", "output directory")
	tier := flag.String("tier", "quick", "")
	corpus := flag.String("corpus", "", "json file of fixed op lists run first")
	replay := flag.String("replay", "", "json file with one op list: run and print observations")
	serverRounds := flag.Int("server-rounds", 400, "requests per caller and term in the real-server phase")
	flag.Parse()

	e, err := etcdx.Start()
	if err != nil {
		fmt.Fprintln(os.Stderr, "etcd:", err)
		os.Exit(2)
	}
	defer e.Close()
	admin, _, err := e.NewClient()
	if err != nil {
		panic(err)
	}
	pool := &clientPool{e: e}
	R := res.New("C04", *seed, *tier)
	var handover chan func(*res.Result)
	if *replay == "" {
		handover = make(chan func(*res.Result), 1)
		go func() { handover <- handoverPhase() }() // in the background: mostly waiting for elections
	}
	R.Rule = "random schedules of Alloc/Rebase (complete or parked between Get and Txn, released with Ok/ErrNotApplied/ErrApplied), " +
		"new instances and leader switches on real id.Allocator objects sharing one embedded etcd; non-trivial = at least one window " +
		"change and at least one rejected or faulted transaction; distinct by sha256 of the canonical (ops,obs) text"
	cf := &coqfmt.CaseFile{Dir: *out, Prefix: "C04", PerFile: 100,
		Header: "From Coq Require Import String.\nFrom PDV Require Import lib.Base model.C04_IdAlloc.\nLocal Open Scope Z_scope.\nOpen Scope string_scope.\n",
		Type:   "list op * list obs",
		Footer: "Definition M := Eval vm_compute in map fst (mismatches cases).\nDefinition D := Eval vm_compute in hd_error (mismatches cases).\nDefinition V := Eval vm_compute in monitor_fails cases.\nPrint M. Print D. Print V.\n"}

	var fixed [][]op
	for _, f := range []string{*corpus, *replay} {
		if f == "" {
			continue
		}
		b, err := os.ReadFile(f)
		if err != nil {
			panic(err)
		}
		var l [][]op
		if err := json.Unmarshal(b, &l); err != nil {
			panic(err)
		}
		fixed = append(fixed, l...)
	}
	if *replay == "" {
		fixed = append(fixed, exhaustedWindowScenarios()...)
	}
	caseNo := 0
	var all []caseRec
	emit := func(c caseRec) {
		windows, rejected := 0, 0
		for i, o := range c.Ops {
			R.Count("op:" + strings.Fields(o.coq())[0])
			ob := strings.Fields(c.Obs[i])[0]
			R.Count("obs:" + ob)
			if ob == "BErrConflict" || ob == "BErrEtcd" {
				rejected++
			}
			if (o.K == oRebase || o.K == oFinish) && (ob == "BUnit" || ob == "BId") {
				windows++
			}
		}
		txt := c.coq()
		R.Case(txt, windows > 0 && rejected > 0)
		R.Sample(map[string]interface{}{"ops": c.Ops, "obs": c.Obs})
		if err := cf.Add(txt); err != nil {
			panic(err)
		}
		all = append(all, c)
		caseNo++
	}
	for _, f := range fixed {
		emit(runCase(e, pool, admin, fmt.Sprintf("/c04/f%d", caseNo), nil, f, 0))
	}
	if *replay != "" {
		for _, c := range all {
			for i := range c.Ops {
				fmt.Printf("%-40s -> %s\n", c.Ops[i].coq(), c.Obs[i])
			}
		}
	} else {
		master := rng.New(*seed)
		for k := 0; k < *n; k++ {
			emit(runCase(e, pool, admin, fmt.Sprintf("/c04/s%d_%d", *seed, k), master.Fork(uint64(k)), nil, 50))
		}
	}
	if err := cf.Flush(); err != nil {
		panic(err)
	}
	if *replay == "" {
		rebaseRaceProbe(e, admin, R)
		recoveredBoundProbe(e, admin, R)
		serverPhase(R, *serverRounds)
		(<-handover)(R)
	}
	R.CaseFiles = cf.Files
	// keep the raw cases so bin/check can extract a replay by index
	b, _ := json.Marshal(all)
	os.WriteFile(path.Join(*out, "cases.json"), b, 0o644)
	if err := R.Write(path.Join(*out, "result.json")); err != nil {
		panic(err)
	}
}
