// Driver for C19: runs the REAL replication.ModeManager (hook VerifC19TickDR) on a mockcluster with a recording
// FileReplicater and a fault-injecting storage, on generated histories of store up/down events per datacenter,
// region layouts and replication-status reports (complete, with gaps, with stale state ids, more regions than one scan
// batch), configuration switches and storage / replication failures, and prints (boot, ops, observations) as Coq
// terms for model/C19_DrSync.v.
package main

import (
	"context"
	"encoding/json"
	"errors"
	"flag"
	"fmt"
	"os"
	"path"
	"sort"
	"strings"
	"time"

	"github.com/gogo/protobuf/proto"
	"github.com/pingcap/kvproto/pkg/metapb"
	pb "github.com/pingcap/kvproto/pkg/replication_modepb"
	"github.com/pingcap/log"
	"github.com/tikv/pd/pkg/mock/mockcluster"
	"github.com/tikv/pd/pkg/typeutil"
	"github.com/tikv/pd/server/config"
	"github.com/tikv/pd/server/core"
	"github.com/tikv/pd/server/kv"
	"github.com/tikv/pd/server/replication"
	"go.uber.org/zap"

	"pdverif/internal/coqfmt"
	"pdverif/internal/kvx14"
	"pdverif/internal/res"
	"pdverif/internal/rng"
	"pdverif/internal/srv14"
)

type region struct {
	ID         uint64
	Start, End string
	SID        uint64
	Int        bool
}
type store struct {
	ID   uint64
	DC   string // Primary Dr Other
	Down bool
	Tomb bool
}
type cfg struct {
	DR      bool
	Label   string
	P, D    int
	Timeout int64 // wait-async-timeout in ms (0: none)
}
type status struct {
	State string // Sync Async SyncRecover
	ID    uint64
}
type fault struct {
	Save    bool
	Idx     int
	Kind    int
	RepFail bool
	Alloc   bool // the AllocID of switch attempt AIdx fails (never together with Save: see notes)
	AIdx    int
}
type op struct {
	K        string // tick config layout report store
	F        fault
	C        cfg
	L        []region
	RID      uint64
	SID      uint64
	Int      bool
	StID     uint64
	Down     bool
	Dt       int64  // advance: ms
	Member   uint64 // member: PD member id
	LoadFail bool   // restart: the read of the persisted status fails
}
type boot struct {
	C       cfg
	St      *status
	ID0     uint64
	Regions []region
	Stores  []store
	Batch   int
}
type caseIn struct {
	Boot boot
	Ops  []op
}
type caseRec struct {
	In  caseIn
	Obs []string
}

func qs(s string) string { return "\"" + s + "\"" }
func (r region) coq() string {
	return fmt.Sprintf("(Region %s %s %s %s %s)", coqfmt.ZU(r.ID), qs(r.Start), qs(r.End), coqfmt.ZU(r.SID), coqfmt.Bool(r.Int))
}
func regionsCoq(l []region) string {
	xs := make([]string, len(l))
	for i, r := range l {
		xs[i] = r.coq()
	}
	return coqfmt.List(xs)
}
func (s store) coq() string {
	return fmt.Sprintf("(Store %s %s %s %s %s)", coqfmt.ZU(s.ID), qs("zone"), s.DC, coqfmt.Bool(s.Down), coqfmt.Bool(s.Tomb))
}
func (c cfg) coq() string {
	return fmt.Sprintf("(Config %s %s %s %s %s)", coqfmt.Bool(c.DR), qs(c.Label), coqfmt.Z(int64(c.P)), coqfmt.Z(int64(c.D)), coqfmt.Z(c.Timeout))
}
func (s status) coq() string { return fmt.Sprintf("(Status %s %s)", s.State, coqfmt.ZU(s.ID)) }
func optStatus(s *status) string {
	if s == nil {
		return "None"
	}
	return "(Some " + s.coq() + ")"
}
func (f fault) coq() string {
	sv := "None"
	if f.Save {
		sv = fmt.Sprintf("(Some (%d%%nat, %s))", f.Idx, []string{"FBefore", "FAfter"}[f.Kind])
	}
	al := "None"
	if f.Alloc {
		al = fmt.Sprintf("(Some %d%%nat)", f.AIdx)
	}
	return fmt.Sprintf("(Fault %s %s %s)", sv, coqfmt.Bool(f.RepFail), al)
}
func (o op) coq() string {
	if o.K == "restart" {
		return "RRestart " + coqfmt.Bool(o.LoadFail) + " " + o.F.coq()
	}
	return "ROp (" + o.opCoq() + ")"
}

func (o op) opCoq() string {
	switch o.K {
	case "tick":
		return "OTick " + o.F.coq()
	case "config":
		return "OConfig " + o.C.coq() + " " + o.F.coq()
	case "layout":
		return "OLayout " + regionsCoq(o.L)
	case "report":
		return fmt.Sprintf("OReport %s %s %s", coqfmt.ZU(o.RID), coqfmt.ZU(o.SID), coqfmt.Bool(o.Int))
	case "store":
		return fmt.Sprintf("OStore %s %s", coqfmt.ZU(o.StID), coqfmt.Bool(o.Down))
	case "advance":
		return "OAdvance " + coqfmt.Z(o.Dt)
	case "member":
		return "OMember " + coqfmt.ZU(o.Member)
	}
	panic("bad op")
}
func (b boot) coq() string {
	ss := make([]string, len(b.Stores))
	for i, s := range b.Stores {
		ss[i] = s.coq()
	}
	return fmt.Sprintf("(Boot %s %s %s %s %s %d%%nat)", b.C.coq(), optStatus(b.St), coqfmt.ZU(b.ID0), regionsCoq(b.Regions), coqfmt.List(ss), b.Batch)
}

// ---------- recording file replicater ----------
type recorder struct {
	files []status
	fail  bool
}

var errRep = errors.New("verif: injected replication fault")

func (r *recorder) ReplicateFileToAllMembers(ctx context.Context, name string, data []byte) error {
	var st struct {
		State   string `json:"state"`
		StateID uint64 `json:"state_id"`
	}
	if err := json.Unmarshal(data, &st); err != nil || name != "DR_STATE" {
		panic(fmt.Sprintf("unexpected file %s %s", name, data))
	}
	r.files = append(r.files, status{stateName(st.State), st.StateID})
	if r.fail {
		return errRep
	}
	return nil
}

func stateName(s string) string {
	switch s {
	case "sync":
		return "Sync"
	case "async":
		return "Async"
	case "sync_recover":
		return "SyncRecover"
	}
	return "Bad_" + s
}
func stateRaw(s string) string {
	return map[string]string{"Sync": "sync", "Async": "async", "SyncRecover": "sync_recover"}[s]
}

// failCluster is the mock cluster with an AllocID that can be made to fail (the n-th call since arm)
type failCluster struct {
	*mockcluster.Cluster
	failAt int // -1: never
	calls  int
}

var errAlloc = errors.New("verif: injected id-allocation fault")

func (c *failCluster) AllocID() (uint64, error) {
	n := c.calls
	c.calls++
	if n == c.failAt {
		return 0, errAlloc
	}
	return c.Cluster.AllocID()
}

// ---------- world: fresh per case ----------
type world struct {
	tc    *mockcluster.Cluster
	fc    *failCluster
	st    *core.Storage
	kb    *kvx14.Base
	rec   *recorder
	m     *replication.ModeManager
	ctx   context.Context
	stop  context.CancelFunc
	notes map[string]bool
	regs  []region // current layout, by position
	// the virtual clock (ms): the code reads time.Now(), so before every tick the manager's creation time and the members'
	// confirmation times are placed (through the hook) as far in the real past as they are in the virtual one; all virtual
	// distances are multiples of 10 s and no timeout is, so the few microseconds of real time in between never decide
	downs    int // alternates the two ways a store can be down
	vnow     int64
	vinit    int64 // virtual creation time of the current manager
	vmembers map[uint64]int64
	curC     cfg // the configuration the current manager runs with
}

func (w *world) placeClock() {
	it, members := w.m.VerifC19Clock()
	now := time.Now()
	*it = now.Add(-time.Duration(w.vnow-w.vinit) * time.Millisecond)
	for id := range members {
		delete(members, id)
	}
	for id, t := range w.vmembers {
		members[id] = now.Add(-time.Duration(w.vnow-t) * time.Millisecond)
	}
}

func (c cfg) real() config.ReplicationModeConfig {
	mode := "majority"
	if c.DR {
		mode = "dr-auto-sync"
	}
	at := time.Duration(c.Timeout) * time.Millisecond
	return config.ReplicationModeConfig{ReplicationMode: mode, DRAutoSync: config.DRAutoSyncReplicationConfig{
		LabelKey: c.Label, Primary: "p", DR: "d", PrimaryReplicas: c.P, DRReplicas: c.D,
		WaitStoreTimeout: typeutil.NewDuration(time.Minute), WaitSyncTimeout: typeutil.NewDuration(time.Minute),
		WaitAsyncTimeout: typeutil.NewDuration(at)}}
}

func (w *world) putRegion(r region) {
	meta := &metapb.Region{Id: r.ID, StartKey: []byte(r.Start), EndKey: []byte(r.End), Peers: []*metapb.Peer{{Id: r.ID*10 + 1, StoreId: 1}},
		RegionEpoch: &metapb.RegionEpoch{ConfVer: 1, Version: 1}}
	state := pb.RegionReplicationState_SIMPLE_MAJORITY
	if r.Int {
		state = pb.RegionReplicationState_INTEGRITY_OVER_LABEL
	}
	w.tc.PutRegion(core.NewRegionInfo(meta, meta.Peers[0], core.SetReplicationStatus(&pb.RegionReplicationStatus{State: state, StateId: r.SID})))
}

func (w *world) setLayout(l []region) {
	for _, r := range w.tc.GetRegions() {
		w.tc.RemoveRegion(r)
	}
	for _, r := range l {
		w.putRegion(r)
	}
	w.regs = append([]region(nil), l...)
}

func (w *world) setStore(s store, label string) {
	labels := map[string]string{}
	switch s.DC {
	case "Primary":
		labels[label] = "p"
	case "Dr":
		labels[label] = "d"
	case "Other":
		labels[label] = "x"
	}
	w.tc.AddLabelsStore(s.ID, 1, labels)
	if s.Tomb {
		w.tc.SetStoreDown(s.ID) // a tombstone that also looks down: must not be counted
		st := w.tc.GetStore(s.ID).Clone(core.TombstoneStore())
		w.tc.PutStore(st)
		return
	}
	if s.Down {
		if s.ID%2 == 1 {
			w.neverHeartbeated(s.ID)
		} else {
			w.tc.SetStoreDown(s.ID)
		}
	} else {
		w.tc.SetStoreUp(s.ID)
	}
}

func (w *world) neverHeartbeated(id uint64) {
	st := w.tc.GetStore(id)
	m := proto.Clone(st.GetMeta()).(*metapb.Store)
	m.LastHeartbeat = 0
	w.tc.PutStore(core.NewStoreInfo(m))
}

func newWorld(b boot) *world {
	w := &world{notes: map[string]bool{}}
	w.ctx, w.stop = context.WithCancel(context.Background())
	w.tc = mockcluster.NewCluster(w.ctx, config.NewTestOptions())
	// the id allocator of the mock cluster: advance it to ID0-1 so that the next AllocID returns ID0
	for {
		id, _ := w.tc.AllocID()
		if id >= b.ID0-1 {
			break
		}
	}
	w.kb = kvx14.Wrap(kv.NewMemoryKV(), func(k string) (string, bool) { return "", strings.HasPrefix(k, "replication_mode/") })
	w.st = core.NewStorage(w.kb)
	if b.St != nil {
		raw := map[string]interface{}{"state": stateRaw(b.St.State), "state_id": b.St.ID}
		if err := w.st.SaveReplicationStatus("dr-auto-sync", raw); err != nil {
			panic(err)
		}
	}
	for _, s := range b.Stores {
		w.setStore(s, "zone")
	}
	w.setLayout(b.Regions)
	w.rec = &recorder{}
	bs, ms := replication.VerifC19ScanSizes()
	*bs = b.Batch
	*ms = 2
	w.kb.Arm(nil)
	w.fc = &failCluster{Cluster: w.tc, failAt: -1}
	m, err := replication.NewReplicationModeManager(b.C.real(), w.st, w.fc, w.rec)
	if err != nil {
		panic(err)
	}
	w.m = m
	w.vnow, w.vinit, w.vmembers = 0, 0, map[uint64]int64{}
	w.curC = b.C
	return w
}

func (w *world) close() { w.stop() }

func (w *world) snapshot(r string) string {
	h := w.m.GetReplicationStatusHTTP()
	dr := h.Mode == "dr-auto-sync"
	var sv *status
	tot, syn := 0, 0
	if dr {
		sv = &status{stateName(h.DrAutoSync.State), h.DrAutoSync.StateID}
		tot, syn = h.DrAutoSync.TotalRegions, h.DrAutoSync.SyncedRegions
	}
	var raw struct {
		State   string `json:"state"`
		StateID uint64 `json:"state_id"`
	}
	var sd *status
	ok, err := w.st.LoadReplicationStatus("dr-auto-sync", &raw)
	if err != nil {
		panic(err)
	}
	if ok {
		sd = &status{stateName(raw.State), raw.StateID}
	}
	fs := make([]string, len(w.rec.files))
	for i, f := range w.rec.files {
		fs[i] = f.coq()
	}
	w.rec.files = nil
	key, cnt := w.m.VerifC19Cursor()
	return fmt.Sprintf("(Obs %s %s %s %s %s %s %s %s %s)", r, coqfmt.Bool(dr), optStatus(sv), optStatus(sd), coqfmt.List(fs), qs(string(key)),
		coqfmt.Z(int64(cnt)), coqfmt.Z(int64(tot)), coqfmt.Z(int64(syn)))
}

func (w *world) arm(f fault) {
	plan := map[string]kvx14.Kind{}
	if f.Save {
		plan[kvx14.PlanKey("", f.Idx)] = []kvx14.Kind{kvx14.FailBefore, kvx14.FailAfter}[f.Kind]
	}
	w.kb.Arm(plan)
	w.rec.fail = f.RepFail
	w.fc.calls, w.fc.failAt = 0, -1
	if f.Alloc {
		w.fc.failAt = f.AIdx
	}
}

func (w *world) exec(o op, label *string) string {
	r := "ROk"
	switch o.K {
	case "restart":
		// a new leader: a new ModeManager on the same storage, cluster and file replicater; the read of the persisted status may fail
		w.arm(o.F)
		if o.LoadFail {
			w.kb.ArmLoads(map[int]bool{0: true})
		}
		m, err := replication.NewReplicationModeManager(w.curC.real(), w.st, w.fc, w.rec)
		w.kb.ArmLoads(nil)
		w.kb.Arm(nil)
		if err != nil {
			r = "RErr" // the previous manager stays
		} else {
			w.m = m
			w.vinit, w.vmembers = w.vnow, map[uint64]int64{}
		}
	case "advance":
		w.vnow += o.Dt
	case "member":
		w.m.UpdateMemberWaitAsyncTime(o.Member) // the real call (records time.Now()); re-placed before the next tick
		w.vmembers[o.Member] = w.vnow
	case "tick":
		w.arm(o.F)
		w.placeClock()
		w.m.VerifC19TickDR()
	case "config":
		w.arm(o.F)
		if err := w.m.UpdateConfig(o.C.real()); err != nil {
			r = "RErr"
		} else {
			w.curC = o.C
		}
	case "layout":
		w.setLayout(o.L)
	case "report":
		for i, x := range w.regs {
			if x.ID == o.RID {
				w.regs[i].SID, w.regs[i].Int = o.SID, o.Int
				w.putRegion(w.regs[i])
			}
		}
	case "store":
		if o.Down {
			w.downs++
			if w.downs%2 == 0 {
				// the other way a store is "down": a replacement that registered and has never sent a heartbeat (LastHeartbeat 0:
				// down since 1970 for checkStoreStatus)
				w.neverHeartbeated(o.StID)
			} else {
				w.tc.SetStoreDown(o.StID)
			}
		} else {
			w.tc.SetStoreUp(o.StID)
		}
	}
	w.kb.Arm(nil)
	w.rec.fail = false
	w.fc.failAt = -1
	return w.snapshot(r)
}

// ---------- generation ----------
var keys = []string{"", "b", "d", "f", "h", "k", "m", "p", "s", "v"}

// genLayout draws an ascending layout over a random subset of split points; quality decides how many regions are
// good under sid, whether there are gaps, whether the first / last region reaches the ends of the key space.
func genLayout(r *rng.R, sid uint64, oldIDs []uint64, nextRID *uint64, quality int) []region {
	var cuts []string
	for _, k := range keys[1:] {
		if r.Pct(55) {
			cuts = append(cuts, k)
		}
	}
	bounds := append([]string{""}, cuts...)
	var out []region
	for i := range bounds {
		end := ""
		if i+1 < len(bounds) {
			end = bounds[i+1]
		}
		*nextRID++
		reg := region{ID: *nextRID, Start: bounds[i], End: end, SID: sid, Int: true}
		switch quality {
		case 0: // all good
		case 1: // a few stale / non-integrity regions
			if r.Pct(25) {
				if r.Bool() && len(oldIDs) > 0 {
					reg.SID = oldIDs[r.Intn(len(oldIDs))]
				} else {
					reg.Int = false
				}
			}
		case 2: // gaps
			if r.Pct(20) && len(bounds) > 1 {
				continue
			}
		case 3: // everything stale
			reg.SID = 0
			reg.Int = r.Bool()
		}
		out = append(out, reg)
	}
	return out
}

type shadow struct {
	c      cfg
	ids    []uint64 // state ids published so far
	cur    uint64
	state  string
	stores []store
	regs   []region
}

func gen(r *rng.R, sh *shadow, nextRID *uint64, malformed bool) op {
	ft := fault{}
	if r.Pct(18) {
		ft = fault{Save: true, Idx: r.Pick(75, 25), Kind: r.Pick(65, 35)}
	}
	if r.Pct(8) {
		ft.RepFail = true
	}
	if !ft.Save && r.Pct(7) {
		ft.Alloc, ft.AIdx = true, r.Pick(80, 20)
	}
	if r.Pct(5) {
		// a leader change: the read of the persisted status fails in 40 % of them
		return op{K: "restart", LoadFail: r.Pct(40), F: ft}
	}
	if r.Pct(10) {
		if r.Pct(65) {
			return op{K: "advance", Dt: []int64{10000, 30000, 60000, 70000, 130000}[r.Intn(5)]}
		}
		return op{K: "member", Member: uint64(1 + r.Intn(2))}
	}
	switch r.Pick(40, 8, 14, 16, 22) {
	case 0:
		return op{K: "tick", F: ft}
	case 1:
		c := sh.c
		switch r.Intn(4) {
		case 0:
			c.DR = !c.DR
		case 1:
			c.Label = []string{"zone", "dc"}[r.Intn(2)]
		case 2:
			c.Timeout = []int64{0, 65000, 65000, 125000}[r.Intn(4)]
		case 3:
			c.P, c.D = 1+r.Intn(3), 1+r.Intn(2)
		}
		return op{K: "config", C: c, F: ft}
	case 2:
		q := r.Pick(50, 25, 15, 10)
		if malformed {
			q = 1 + r.Intn(3)
		}
		return op{K: "layout", L: genLayout(r, sh.cur, sh.ids, nextRID, q)}
	case 3:
		if len(sh.regs) == 0 {
			return op{K: "tick", F: ft}
		}
		x := sh.regs[r.Intn(len(sh.regs))]
		sid := sh.cur
		if r.Pct(30) && len(sh.ids) > 0 {
			sid = sh.ids[r.Intn(len(sh.ids))] // a stale id
		}
		if malformed && r.Pct(30) {
			sid = 0
		}
		return op{K: "report", RID: x.ID, SID: sid, Int: r.Pct(80)}
	default:
		// never the tombstone store: mockcluster.SetStoreDown/Up would put its state back to Up
		var live []store
		for _, x := range sh.stores {
			if !x.Tomb {
				live = append(live, x)
			}
		}
		s := live[r.Intn(len(live))]
		return op{K: "store", StID: s.ID, Down: r.Pct(55)}
	}
}

func parseServed(ob string) (string, uint64, bool) {
	// "(Obs ROk true (Some (Status Sync 7%Z)) ..."
	i := strings.Index(ob, "(Some (Status ")
	f := strings.Fields(ob)
	if len(f) < 4 || f[3] == "None" || i < 0 {
		return "", 0, false
	}
	var st string
	var id uint64
	fmt.Sscanf(ob[i:], "(Some (Status %s %d", &st, &id)
	return st, id, true
}

func runCase(in caseIn, r *rng.R, nops int, malformed bool) caseRec {
	w := newWorld(in.Boot)
	defer w.close()
	c := caseRec{In: caseIn{Boot: in.Boot}}
	c.Obs = append(c.Obs, w.snapshot("ROk"))
	label := in.Boot.C.Label
	step := func(o op) {
		ob := w.exec(o, &label)
		c.In.Ops = append(c.In.Ops, o)
		c.Obs = append(c.Obs, ob)
	}
	if r == nil {
		for _, o := range in.Ops {
			step(o)
		}
		return c
	}
	sh := &shadow{c: in.Boot.C, stores: append([]store(nil), in.Boot.Stores...), regs: append([]region(nil), in.Boot.Regions...)}
	nextRID := uint64(100)
	for k := 0; k < nops; k++ {
		if st, id, ok := parseServed(c.Obs[len(c.Obs)-1]); ok {
			if id != sh.cur {
				sh.ids = append(sh.ids, id)
			}
			sh.cur, sh.state = id, st
		}
		o := gen(r, sh, &nextRID, malformed)
		step(o)
		switch o.K {
		case "config":
			if strings.HasPrefix(c.Obs[len(c.Obs)-1], "(Obs ROk") {
				sh.c = o.C
			}
		case "layout":
			sh.regs = append([]region(nil), o.L...)
		case "report":
			for i := range sh.regs {
				if sh.regs[i].ID == o.RID {
					sh.regs[i].SID, sh.regs[i].Int = o.SID, o.Int
				}
			}
		}
	}
	return c
}

func (c caseRec) coq() string {
	ops := make([]string, len(c.In.Ops))
	for i, o := range c.In.Ops {
		ops[i] = o.coq()
	}
	return "(" + c.In.Boot.coq() + ",\n  " + coqfmt.List(ops) + ",\n  " + coqfmt.List(c.Obs) + ")"
}

// scriptedCases: histories the random generator reaches too rarely
func scriptedCases() []caseIn {
	stores := []store{{ID: 1, DC: "Primary"}, {ID: 2, DC: "Primary"}, {ID: 3, DC: "Primary"}, {ID: 4, DC: "Dr"}, {ID: 5, DC: "Dr"},
		{ID: 6, DC: "Other", Down: true}, {ID: 7, DC: "Primary", Tomb: true}}
	good := func(sid uint64) []region {
		return []region{{ID: 51, Start: "", End: "h", SID: sid, Int: true}, {ID: 52, Start: "h", End: "p", SID: sid, Int: true}, {ID: 53, Start: "p", End: "", SID: sid, Int: true}}
	}
	var out []caseIn
	// the scan completes and the switch to sync of that very tick fails to persist (by a failing save / a failing AllocID); before the
	// next tick a DR store fails: that tick has to go to async and must not declare sync from the finished cursor
	for _, f := range []fault{{Save: true, Idx: 1, Kind: 0}, {Save: true, Idx: 1, Kind: 1}, {Alloc: true, AIdx: 1}} {
		for _, timeout := range []int64{0, 65000} {
			ops := []op{{K: "tick", F: f}, {K: "store", StID: 4, Down: true}}
			if timeout != 0 {
				ops = append(ops, op{K: "advance", Dt: 70000})
			}
			ops = append(ops, op{K: "tick"}, op{K: "tick"}, op{K: "store", StID: 4, Down: false}, op{K: "tick"}, op{K: "tick"})
			out = append(out, caseIn{Boot: boot{C: cfg{DR: true, Label: "zone", P: 2, D: 1, Timeout: timeout}, St: &status{State: "Async", ID: 5}, ID0: 10,
				Regions: good(10), Stores: stores, Batch: 1024}, Ops: ops})
		}
	}
	return out
}

func genBoot(r *rng.R) boot {
	b := boot{C: cfg{DR: r.Pct(85), Label: "zone", P: 1 + r.Intn(3), D: 1 + r.Intn(2), Timeout: []int64{0, 0, 65000, 65000, 125000}[r.Intn(5)]}, ID0: uint64(10 + r.Intn(5)),
		Batch: []int{1, 2, 3, 4, 1024}[r.Intn(5)]}
	if r.Pct(35) {
		b.St = &status{State: []string{"Sync", "Async", "SyncRecover"}[r.Intn(3)], ID: uint64(3 + r.Intn(4))}
	}
	id := uint64(1)
	for i := 0; i < 3; i++ {
		b.Stores = append(b.Stores, store{ID: id, DC: "Primary"})
		id++
	}
	for i := 0; i < 2; i++ {
		b.Stores = append(b.Stores, store{ID: id, DC: "Dr"})
		id++
	}
	b.Stores = append(b.Stores, store{ID: id, DC: "Other", Down: true}, store{ID: id + 1, DC: "Primary", Tomb: true})
	var rid uint64 = 50
	sid := uint64(0)
	if b.St != nil {
		sid = b.St.ID
	}
	b.Regions = genLayout(r, sid, nil, &rid, r.Pick(60, 20, 20))
	return b
}

// ---------- the Server-level entry point: Server.SetReplicationModeConfig on a real bootstrapped server ----------
type sstepRec struct {
	Mode, Label       string
	Fault             string // "" | config#i:before|after | mode#i:before|after
	Res               string
	Before, After     string
	CfgUnk, StatusUnk bool
}
type serverCaseRec struct {
	Via   string
	Steps []sstepRec
}

func runServerClass(seed uint64, ncases int, R *res.Result) ([]serverCaseRec, []string) {
	x, err := srv14.Start(func(c *config.Config) { c.LeaderLease = 60 })
	if err != nil {
		panic(err)
	}
	defer x.Close()
	if err := x.Bootstrap(&metapb.Store{Id: 1, Address: "boot", Version: "4.0.0"}); err != nil {
		panic(err)
	}
	s := x.S
	st := s.GetStorage()
	kb := kvx14.Wrap(st.Base, func(k string) (string, bool) {
		switch {
		case k == "config":
			return "config", true
		case strings.HasPrefix(k, "replication_mode/"):
			return "mode", true
		}
		return "", false
	})
	st.Base = kb
	optStatusOf := func(state string, id uint64) string {
		if state == "" {
			return "None"
		}
		return optStatus(&status{stateName(state), id})
	}
	snap := func() string {
		h := s.GetRaftCluster().GetReplicationMode().GetReplicationStatusHTTP()
		// what stores are told in PutStore / StoreHeartbeat responses (the zero DR state reads SYNC, id 0 there)
		served := "None"
		if p := s.GetRaftCluster().GetReplicationMode().GetReplicationStatus(); p.GetMode() == pb.ReplicationMode_DR_AUTO_SYNC {
			served = optStatus(&status{map[pb.DRAutoSyncState]string{pb.DRAutoSyncState_SYNC: "Sync", pb.DRAutoSyncState_ASYNC: "Async", pb.DRAutoSyncState_SYNC_RECOVER: "SyncRecover"}[p.GetDrAutoSync().GetState()],
				p.GetDrAutoSync().GetStateId()})
		}
		var raw struct {
			State   string `json:"state"`
			StateID uint64 `json:"state_id"`
		}
		stored := "None"
		if ok, err := core.NewStorage(kb).LoadReplicationStatus("dr-auto-sync", &raw); err != nil {
			panic(err)
		} else if ok {
			stored = optStatusOf(raw.State, raw.StateID)
		}
		c := s.GetReplicationModeConfig()
		fresh := config.NewConfig()
		if err := fresh.Adjust(nil, false); err != nil {
			panic(err)
		}
		o := config.NewPersistOptions(fresh)
		if err := o.Reload(core.NewStorage(kb)); err != nil {
			panic(err)
		}
		rc := o.GetReplicationModeConfig()
		return fmt.Sprintf("(SObs %s %s %s %s %s %s %s %s)", qs(h.Mode), qs(h.DrAutoSync.LabelKey), served, stored,
			qs(c.ReplicationMode), qs(c.DRAutoSync.LabelKey), qs(rc.ReplicationMode), qs(rc.DRAutoSync.LabelKey))
	}
	call := func(mode, label, flt string) sstepRec {
		rec := sstepRec{Mode: mode, Label: label, Fault: flt}
		cfg := *s.GetReplicationModeConfig()
		cfg.ReplicationMode = mode
		cfg.DRAutoSync.LabelKey = label
		cfg.DRAutoSync.Primary, cfg.DRAutoSync.DR = "z1", "z2"
		cfg.DRAutoSync.PrimaryReplicas, cfg.DRAutoSync.DRReplicas = 2, 1
		plan := map[string]kvx14.Kind{}
		if flt != "" {
			var g, k string
			var i int
			fmt.Sscanf(strings.NewReplacer("#", " ", ":", " ").Replace(flt), "%s %d %s", &g, &i, &k)
			kind := kvx14.FailBefore
			if k == "after" {
				kind = kvx14.FailAfter
				rec.CfgUnk, rec.StatusUnk = g == "config", g == "mode"
			}
			plan[kvx14.PlanKey(g, i)] = kind
		}
		rec.Before = snap()
		kb.Arm(plan)
		err := s.SetReplicationModeConfig(cfg)
		kb.Arm(nil)
		rec.Res = "ROk"
		if err != nil {
			rec.Res = "RErr"
		}
		rec.After = snap()
		R.Count("server-set-mode:" + rec.Res + ":" + map[bool]string{true: "faulted", false: "no-fault"}[flt != ""])
		return rec
	}
	faults := []string{"config#0:before", "config#0:after", "mode#0:before", "mode#0:after", "config#1:before"}
	var cases []serverCaseRec
	var texts []string
	// The first start in dr-auto-sync mode (no DR state has ever been stored) with a failing first write of the status: the cluster is
	// stopped, the mode is configured, RaftCluster.Start creates the ModeManager (loadDRAutoSync -> drSwitchToSync) while the write of
	// replication_mode/dr-auto-sync is refused. The start has to fail (it is retried by the server); if it succeeds, what is served to
	// stores is judged like after any accepted change. Afterwards the operator goes back to majority and the start is repeated.
	{
		rec := sstepRec{Mode: "dr-auto-sync", Label: "zone", Fault: "first-start:mode#0:before"}
		rec.Before = snap()
		rc := s.GetRaftCluster()
		orig := *s.GetReplicationModeConfig()
		rc.Stop()
		cfg := orig
		cfg.ReplicationMode, cfg.DRAutoSync.LabelKey = "dr-auto-sync", "zone"
		cfg.DRAutoSync.Primary, cfg.DRAutoSync.DR = "z1", "z2"
		cfg.DRAutoSync.PrimaryReplicas, cfg.DRAutoSync.DRReplicas = 2, 1
		if err := s.SetReplicationModeConfig(cfg); err != nil {
			panic(err)
		}
		kb.Arm(map[string]kvx14.Kind{kvx14.PlanKey("mode", 0): kvx14.FailBefore})
		err := rc.Start(s)
		kb.Arm(nil)
		if err == nil && s.GetRaftCluster() != nil {
			rec.Res = "ROk"
			rec.After = snap()
			R.Count("server-first-start-in-dr-mode:started-although-the-status-write-failed")
		} else {
			rec.Res = "RErr"
			if err := s.SetReplicationModeConfig(orig); err != nil {
				panic(err)
			}
			if err := rc.Start(s); err != nil || s.GetRaftCluster() == nil {
				panic(fmt.Sprint("cluster does not start again: ", err))
			}
			rec.After = snap()
			R.Count("server-first-start-in-dr-mode:start-failed-and-was-repeated")
		}
		c := serverCaseRec{Via: "server-first-start", Steps: []sstepRec{rec}}
		cases = append(cases, c)
		texts = append(texts, coqfmt.List([]string{fmt.Sprintf("(%s, %s, %s,\n    %s,\n    %s)", rec.Res, coqfmt.Bool(false), coqfmt.Bool(false), rec.Before, rec.After)}))
	}
	master := rng.New(seed ^ 0x5e7c19)
	for k := 0; k < ncases; k++ {
		r := master.Fork(uint64(k))
		c := serverCaseRec{Via: "server-set-mode"}
		c.Steps = append(c.Steps, call("majority", "", "")) // every case starts from majority
		if k == 0 {                                         // first, on the fresh server: no DR state has ever existed
			// other accepted spellings of the mode (config.NormalizeReplicationMode accepts case and '_')
			c.Steps = append(c.Steps, call("dr_auto_sync", "zone", ""), call("dr-auto-sync", "zone", ""), call("Majority", "", ""), call("DR-AUTO-SYNC", "dc", ""),
				call("dr-auto-sync", "zone", ""))
		} else if k <= len(faults) {
			// scripted: an online switch to dr-auto-sync and a label-key change, each with every single failing write
			f := faults[k-1]
			c.Steps = append(c.Steps, call("dr-auto-sync", "zone", f), call("dr-auto-sync", "zone", ""), call("dr-auto-sync", "dc", f), call("dr-auto-sync", "dc", ""),
				call("majority", "", f), call("majority", "", ""))
		} else {
			for i := 0; i < 8+r.Intn(6); i++ {
				f := ""
				if r.Pct(45) {
					f = faults[r.Intn(len(faults))]
				}
				mode := []string{"majority", "dr-auto-sync", "dr-auto-sync", "bogus", "dr_auto_sync", "DR-AUTO-SYNC", "Majority"}[r.Pick(20, 25, 25, 5, 10, 8, 7)]
				c.Steps = append(c.Steps, call(mode, []string{"zone", "dc", ""}[r.Intn(3)], f))
			}
		}
		xs := make([]string, len(c.Steps))
		for i, st := range c.Steps {
			xs[i] = fmt.Sprintf("(%s, %s, %s,\n    %s,\n    %s)", st.Res, coqfmt.Bool(st.CfgUnk), coqfmt.Bool(st.StatusUnk), st.Before, st.After)
		}
		cases = append(cases, c)
		texts = append(texts, coqfmt.List(xs))
	}
	return cases, texts
}

// ---------- Server.ReplicateFileToAllMembers on a real cluster of three members, one of them down ----------
type memberRec struct {
	Name  string
	Alive bool
	Has   bool
	File  string
}
type membersCaseRec struct {
	Via     string
	Offered string
	Err     string
	Members []memberRec // in member-list order
}

func runMembersClass(R *res.Result) ([]membersCaseRec, []string) {
	xs, err := srv14.StartMembers(3)
	if err != nil {
		panic(err)
	}
	defer func() {
		for _, x := range xs {
			if x != nil {
				x.Close()
			}
		}
	}()
	byName := map[string]*srv14.Srv{}
	var leader *srv14.Srv
	for _, x := range xs {
		byName[x.Cfg.Name] = x
		if x.S.GetMember().IsLeader() {
			leader = x
		}
	}
	list := func() []string {
		resp, err := leader.S.GetMembers(context.Background(), nil)
		if err != nil {
			panic(err)
		}
		var names []string
		for _, m := range resp.GetMembers() {
			names = append(names, m.GetName())
		}
		return names
	}
	offer := func(content string, alive map[string]bool) membersCaseRec {
		ctx, cancel := context.WithTimeout(context.Background(), 10*time.Second)
		defer cancel()
		c := membersCaseRec{Via: "members", Offered: content}
		if err := leader.S.ReplicateFileToAllMembers(ctx, "DR_STATE", []byte(content)); err != nil {
			c.Err = err.Error()
		}
		for _, n := range list() {
			b, _ := os.ReadFile(path.Join(byName[n].Cfg.DataDir, "DR_STATE"))
			c.Members = append(c.Members, memberRec{Name: n, Alive: alive[n], Has: string(b) == content, File: string(b)})
		}
		return c
	}
	names := list()
	alive := map[string]bool{}
	for _, n := range names {
		alive[n] = true
	}
	var cases []membersCaseRec
	// 1. everybody up
	cases = append(cases, offer(`{"state":"sync","state_id":1}`, alive))
	// 1b. one more member joins the running cluster (config item `join`) and serves its API; the next offer must reach it as well
	if j, err := srv14.JoinMember(leader, "pd4"); err != nil {
		R.Count("members:join-failed")
	} else {
		xs = append(xs, j)
		byName[j.Cfg.Name] = j
		joined := false
		for t := 0; t < 100 && !joined; t++ {
			resp, err := leader.S.GetMembers(context.Background(), nil)
			if err == nil {
				for _, m := range resp.GetMembers() {
					joined = joined || (m.GetName() == "pd4" && len(m.GetClientUrls()) > 0)
				}
			}
			if !joined {
				time.Sleep(100 * time.Millisecond)
			}
		}
		if joined && leader.S.GetMember().IsLeader() {
			alive["pd4"] = true
			R.Count("members:member-joined-between-two-offers")
			cases = append(cases, offer(`{"state":"sync_recover","state_id":3}`, alive))
		} else {
			R.Count("members:joined-member-not-listed")
		}
	}
	names = list()
	// 1c. a member that is not the leader cannot write the file once (a directory is in the way): the offer fails for it; the
	// directory goes away and the very next offer must reach it again
	for _, n := range names {
		if byName[n] != leader && byName[n] != nil {
			f := path.Join(byName[n].Cfg.DataDir, "DR_STATE")
			os.Remove(f)
			if err := os.Mkdir(f, 0700); err != nil {
				break
			}
			alive[n] = false // it answers, but it cannot take the file
			c := offer(`{"state":"sync","state_id":4}`, alive)
			os.Remove(f)
			alive[n] = true
			if c.Err == "" {
				R.Count("members:refusing-member-did-not-refuse")
				break
			}
			R.Count("members:member-refused-once-then-offered-again")
			cases = append(cases, c, offer(`{"state":"async","state_id":5}`, alive))
			break
		}
	}
	// 2. the first member of the list that is not the leader goes down: at least one live member follows it in the list
	for _, n := range names {
		if byName[n] != leader {
			byName[n].S.Close()
			alive[n] = false
			R.Count("members:down-member-at-list-position-" + fmt.Sprint(indexOf(names, n)))
			break
		}
	}
	cases = append(cases, offer(`{"state":"sync_recover","state_id":6}`, alive))
	var texts []string
	for _, c := range cases {
		es := make([]string, len(c.Members))
		for i, m := range c.Members {
			es[i] = fmt.Sprintf("(%s, %s, %s)", qs(m.Name), coqfmt.Bool(m.Alive), coqfmt.Bool(m.Has))
		}
		texts = append(texts, coqfmt.List(es))
	}
	return cases, texts
}

func indexOf(xs []string, x string) int {
	for i, y := range xs {
		if y == x {
			return i
		}
	}
	return -1
}

func main() {
	seed := flag.Uint64("seed", 1, "")
	members := flag.Bool("members", true, "offer a file through Server.ReplicateFileToAllMembers on a real cluster of three members, one of them down")
	nserver := flag.Int("server", 8, "number of Server.SetReplicationModeConfig histories on a real server with a faulty storage")
	n := flag.Int("n", 400, "number of generated cases")
	out := flag.String("out", ".", "output directory")
	tier := flag.String("tier", "quick", "")
	corpus := flag.String("corpus", "", "json file of fixed cases run first")
	replay := flag.String("replay", "", "json file with cases (or an evidence replay file)")
	flag.Parse()
	log.ReplaceGlobals(zap.NewNop(), nil)

	R := res.New("C19", *seed, *tier)
	R.Rule = "histories of ticks of the REAL ModeManager.tickDR (hook), UpdateConfig (majority <-> dr-auto-sync, label key, replica counts, async " +
		"timeout 0 / far away), store up/down per datacenter (3 primary, 2 dr, one foreign-label store that is always down, one tombstone), region " +
		"layouts over 9 split points (complete, with gaps, stale state ids, missing integrity) and single-region status reports (current / stale / zero " +
		"id), scan batch size 1..4 or 1024 through the hook, a failing SaveReplicationStatus (not applied / applied-but-error, 1st or 2nd save of the " +
		"tick), a failing AllocID (1st or 2nd switch attempt) and a failing FileReplicater, on a mockcluster with a recording FileReplicater; region state ids are only ever ids already published " +
		"(a store cannot report an id PD has not issued); non-trivial = at least two status changes and at least one failed save or refused sync; " +
		"distinct by sha256 of the canonical case text; Further classes (see notes/C19.md): the async timeout as real clock inputs, restarts of the manager with a failing status load, scripted ticks, two ways of being down; Server.SetReplicationModeConfig on a real bootstrapped server with failing config / status writes and other spellings of the mode; Server.ReplicateFileToAllMembers on three real members with one down"
	cf := &coqfmt.CaseFile{Dir: *out, Prefix: "C19", PerFile: 50,
		Header: "From Coq Require Import String.\nFrom PDV Require Import lib.Base model.C19_DrSync.\nLocal Open Scope string_scope.\nLocal Open Scope Z_scope.\n",
		Type:   "case",
		Footer: "Definition M := Eval vm_compute in map fst (mismatches cases).\nDefinition D := Eval vm_compute in explain cases.\nDefinition V := Eval vm_compute in monitor_fails cases.\nPrint M. Print D. Print V.\n"}
	var fixed []caseIn
	for _, f := range []string{*corpus, *replay} {
		if f == "" {
			continue
		}
		b, err := os.ReadFile(f)
		if err != nil {
			panic(err)
		}
		var l []caseIn
		if err := json.Unmarshal(b, &l); err != nil {
			var ev struct {
				Replay struct{ In caseIn }
			}
			if err2 := json.Unmarshal(b, &ev); err2 != nil || ev.Replay.In.Boot.Batch == 0 {
				panic(err)
			}
			l = []caseIn{ev.Replay.In}
		}
		fixed = append(fixed, l...)
	}
	if *replay == "" {
		fixed = append(fixed, scriptedCases()...)
	}
	var all []caseRec
	emit := func(c caseRec) {
		changes, failed := 0, 0
		prev := ""
		for i, ob := range c.Obs {
			st, id, ok := parseServed(ob)
			cur := fmt.Sprint(st, id, ok)
			if i > 0 && cur != prev {
				changes++
				R.Count("to:" + st)
			}
			prev = cur
		}
		for _, o := range c.In.Ops {
			R.Count("op:" + o.K)
			if o.F.Save {
				R.Count(fmt.Sprintf("fault:save:%d:%s", o.F.Idx, []string{"before", "after"}[o.F.Kind]))
				failed++
			}
			if o.F.RepFail {
				R.Count("fault:replicate-file")
			}
			if o.F.Alloc {
				R.Count(fmt.Sprintf("fault:alloc-id:%d", o.F.AIdx))
			}
		}
		R.Count(fmt.Sprintf("batch:%d", c.In.Boot.Batch))
		R.Count(fmt.Sprintf("boot-regions:%d", len(c.In.Boot.Regions)))
		txt := c.coq()
		R.Case(txt, changes >= 2 && failed > 0)
		R.Sample(map[string]interface{}{"in": c.In})
		if err := cf.Add(txt); err != nil {
			panic(err)
		}
		all = append(all, c)
	}
	for _, f := range fixed {
		emit(runCase(f, nil, 0, false))
		R.Count("stream:corpus")
	}
	if *replay != "" {
		for _, c := range all {
			fmt.Println("boot", c.In.Boot.coq(), "\n   ->", c.Obs[0])
			for i, o := range c.In.Ops {
				fmt.Printf("%s\n   -> %s\n", o.coq(), c.Obs[i+1])
			}
		}
	} else {
		master := rng.New(*seed)
		for k := 0; k < *n; k++ {
			r := master.Fork(uint64(k))
			mal := k%4 == 3
			if mal {
				R.Count("stream:malformed-regions")
			}
			emit(runCase(caseIn{Boot: genBoot(r)}, r, 15+r.Intn(40), mal))
		}
	}
	if err := cf.Flush(); err != nil {
		panic(err)
	}
	R.CaseFiles = cf.Files
	var raw []interface{}
	for _, c := range all {
		raw = append(raw, c)
	}
	if *replay == "" && *nserver > 0 {
		for len(raw)%cf.PerFile != 0 {
			raw = append(raw, nil)
		}
		sf := &coqfmt.CaseFile{Dir: *out, Prefix: "C19s", PerFile: cf.PerFile, Header: cf.Header, Type: "scase",
			Footer: "Definition M := Eval vm_compute in (@nil nat).\nDefinition D := Eval vm_compute in (@nil nat).\nDefinition V := Eval vm_compute in monitor_s_fails cases.\nPrint M. Print D. Print V.\n"}
		cases, texts := runServerClass(*seed, *nserver, R)
		for i, txt := range texts {
			R.Case(txt, true)
			if err := sf.Add(txt); err != nil {
				panic(err)
			}
			raw = append(raw, cases[i])
		}
		if err := sf.Flush(); err != nil {
			panic(err)
		}
		R.CaseFiles = append(R.CaseFiles, sf.Files...)
	}
	if *replay == "" && *members {
		for len(raw)%cf.PerFile != 0 {
			raw = append(raw, nil)
		}
		mf := &coqfmt.CaseFile{Dir: *out, Prefix: "C19t", PerFile: cf.PerFile, Header: cf.Header, Type: "fcase",
			Footer: "Definition M := Eval vm_compute in (@nil nat).\nDefinition D := Eval vm_compute in (@nil nat).\nDefinition V := Eval vm_compute in monitor_f_fails cases.\nPrint M. Print D. Print V.\n"}
		cases, texts := runMembersClass(R)
		for i, txt := range texts {
			R.Case(txt, true)
			if err := mf.Add(txt); err != nil {
				panic(err)
			}
			raw = append(raw, cases[i])
		}
		if err := mf.Flush(); err != nil {
			panic(err)
		}
		R.CaseFiles = append(R.CaseFiles, mf.Files...)
	}
	sort.Strings(R.Notes)
	b, _ := json.Marshal(raw)
	os.WriteFile(path.Join(*out, "cases.json"), b, 0o644)
	if err := R.Write(path.Join(*out, "result.json")); err != nil {
		panic(err)
	}
}
