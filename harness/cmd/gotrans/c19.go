package main

import (
	"go/ast"
	"go/token"
	"strings"

	"pdverif/internal/goast"
)

func init() { gens["C19"] = genC19 }

// genC19 regenerates from server/replication/replication_mode.go: the two scan constants, the skeleton of the three
// switches (AllocID ; replicate file ; save ; publish), of drPersistStatus (the replicater's error is dropped), of tickDR
// (with the defining expressions of canSync / hasMajority and the guards of the three transitions), of checkStoreStatus,
// of updateProgress / estimateProgress / checkRegionRecover, of UpdateConfig and loadDRAutoSync.
// c19StatusLocal finds, in a method of ModeManager, the local variable defined by `x := drAutoSyncStatus{...}`
func c19StatusLocal(f *goast.File, fn string) string {
	fd, err := f.Func("ModeManager", fn)
	if err != nil {
		return ""
	}
	name := ""
	ast.Inspect(fd.Body, func(n ast.Node) bool {
		as, ok := n.(*ast.AssignStmt)
		if !ok || as.Tok != token.DEFINE || len(as.Lhs) != 1 || len(as.Rhs) != 1 {
			return true
		}
		cl, ok := as.Rhs[0].(*ast.CompositeLit)
		if !ok {
			return true
		}
		if id, ok := cl.Type.(*ast.Ident); ok && id.Name == "drAutoSyncStatus" {
			if l, ok := as.Lhs[0].(*ast.Ident); ok && name == "" {
				name = l.Name
			}
		}
		return true
	})
	return name
}

func genC19(repo string) (string, error) {
	var o out
	f, err := goast.Load(repo, "server/replication/replication_mode.go")
	if err != nil {
		return "", err
	}
	for _, c := range []string{"regionScanBatchSize", "regionMinSampleSize"} {
		if err := o.constZ(f, c, c); err != nil {
			return "", err
		}
	}
	opt := goast.SkelOpt{Conds: true,
		Calls: set("AllocID", "drPersistStatus", "SaveReplicationStatus", "LoadReplicationStatus", "ReplicateFileToAllMembers",
			"drSwitchToAsync", "drSwitchToSyncRecover", "drSwitchToSync", "drSwitchToAsyncWithLock", "drSwitchToSyncRecoverWithLock",
			"checkStoreStatus", "drGetState", "drCheckAsyncTimeout", "updateProgress", "estimateProgress", "updateRecoverProgress",
			"ScanRegions", "checkRegionRecover", "GetRegionCount", "getModeName", "loadDRAutoSync", "GetStores", "DownTime", "GetLabelValue"),
		Assigns: set("drAutoSync", "drRecoverKey", "drRecoverCount", "canSync", "hasMajority", "upPeers", "config", "dr",
			"drTotalRegion", "drSampleTotalRegion", "drSampleRecoverCount")}
	for _, fn := range []string{"drSwitchToAsyncWithLock", "drSwitchToSyncRecoverWithLock", "drSwitchToSync", "drPersistStatus", "tickDR",
		"checkStoreStatus", "updateProgress", "estimateProgress", "checkRegionRecover", "UpdateConfig", "loadDRAutoSync", "drCheckAsyncTimeout"} {
		// the local variable that holds the new status (`dr := drAutoSyncStatus{...}`) is recorded under the canonical
		// name "status": renaming a local is not a change of the structure the model was written against
		local := c19StatusLocal(f, fn)
		fopt := opt
		if local != "" && local != "dr" {
			fopt.Assigns = set()
			for k := range opt.Assigns {
				fopt.Assigns[k] = true
			}
			fopt.Assigns[local] = true
		}
		var tmp out
		if err := tmp.skeleton(f, "ModeManager", fn, "skel_"+fn, fopt); err != nil {
			return "", err
		}
		txt := tmp.sb.String()
		if local != "" {
			txt = strings.ReplaceAll(txt, "Assign "+goast.Q(local)+" ", "Assign "+goast.Q("status")+" ")
			txt = strings.ReplaceAll(txt, goast.Q("= "+local), goast.Q("= status"))
			txt = strings.ReplaceAll(txt, "("+local+")", "(status)")
		}
		o.sb.WriteString(txt)
	}
	if err := c14Guards(&o, f, "ModeManager", "tickDR", "guards_tickDR"); err != nil {
		return "", err
	}
	if err := c14Guards(&o, f, "ModeManager", "checkRegionRecover", "guards_checkRegionRecover"); err != nil {
		return "", err
	}
	// the return expression of checkRegionRecover (state id and integrity test)
	fd, err := f.Func("ModeManager", "checkRegionRecover")
	if err != nil {
		return "", err
	}
	var rets []string
	for _, st := range fd.Body.List {
		rets = append(rets, goast.Q(f.Src(st)))
	}
	o.sb.WriteString("Definition body_checkRegionRecover : list string := (* top-level statements of checkRegionRecover, source text *)\n  " + goast.CoqList(rets[len(rets)-1:]) + ".\n")
	// core.Storage.LoadReplicationStatus: the error of the read is looked at BEFORE the empty-value test ("nothing persisted");
	// loadDRAutoSync initialises the state (switch to sync) when it is told that nothing is persisted
	sf, err := goast.Load(repo, "server/core/storage.go")
	if err != nil {
		return "", err
	}
	if err := o.skeleton(sf, "Storage", "LoadReplicationStatus", "skel_LoadReplicationStatus",
		goast.SkelOpt{Conds: true, Calls: set("Load", "Unmarshal")}); err != nil {
		return "", err
	}
	if err := c14Guards(&o, sf, "Storage", "LoadReplicationStatus", "guards_LoadReplicationStatus"); err != nil {
		return "", err
	}
	// Server.ReplicateFileToAllMembers (the FileReplicater behind the interface): no return inside the walk over the members -
	// every member is offered the file, the first error is reported afterwards
	svf, err := goast.Load(repo, "server/server.go")
	if err != nil {
		return "", err
	}
	if err := o.skeleton(svf, "Server", "ReplicateFileToAllMembers", "skel_ReplicateFileToAllMembers",
		goast.SkelOpt{Conds: true, Calls: set("GetMembers", "replicateFileToMember", "Do")}); err != nil {
		return "", err
	}
	return o.sb.String(), nil
}
