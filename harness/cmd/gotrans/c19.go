package main

import "pdverif/internal/goast"

func init() { gens["C19"] = genC19 }

// genC19 regenerates from server/replication/replication_mode.go: the two scan constants, the skeleton of the three
// switches (AllocID ; replicate file ; save ; publish), of drPersistStatus (the replicater's error is dropped), of tickDR
// (with the defining expressions of canSync / hasMajority and the guards of the three transitions), of checkStoreStatus,
// of updateProgress / estimateProgress / checkRegionRecover, of UpdateConfig and loadDRAutoSync.
func genC19(repo string) (string, error) {
	var o out
	f, err := goast.Load(repo, "server/replication/replication_mode.go")
	if err != nil {
		return "", err
	}
	for _, c := range []string{"regionScanBatchSize", "regionMinSampleSize"} {
		if err := o.constZ(f, c, c); err != nil {
			return "", err
		}
	}
	opt := goast.SkelOpt{Conds: true,
		Calls: set("AllocID", "drPersistStatus", "SaveReplicationStatus", "LoadReplicationStatus", "ReplicateFileToAllMembers",
			"drSwitchToAsync", "drSwitchToSyncRecover", "drSwitchToSync", "drSwitchToAsyncWithLock", "drSwitchToSyncRecoverWithLock",
			"checkStoreStatus", "drGetState", "drCheckAsyncTimeout", "updateProgress", "estimateProgress", "updateRecoverProgress",
			"ScanRegions", "checkRegionRecover", "GetRegionCount", "getModeName", "loadDRAutoSync", "GetStores", "DownTime", "GetLabelValue"),
		Assigns: set("drAutoSync", "drRecoverKey", "drRecoverCount", "canSync", "hasMajority", "upPeers", "config", "dr",
			"drTotalRegion", "drSampleTotalRegion", "drSampleRecoverCount")}
	for _, fn := range []string{"drSwitchToAsyncWithLock", "drSwitchToSyncRecoverWithLock", "drSwitchToSync", "drPersistStatus", "tickDR",
		"checkStoreStatus", "updateProgress", "estimateProgress", "checkRegionRecover", "UpdateConfig", "loadDRAutoSync", "drCheckAsyncTimeout"} {
		if err := o.skeleton(f, "ModeManager", fn, "skel_"+fn, opt); err != nil {
			return "", err
		}
	}
	if err := c14Guards(&o, f, "ModeManager", "tickDR", "guards_tickDR"); err != nil {
		return "", err
	}
	if err := c14Guards(&o, f, "ModeManager", "checkRegionRecover", "guards_checkRegionRecover"); err != nil {
		return "", err
	}
	// the return expression of checkRegionRecover (state id and integrity test)
	fd, err := f.Func("ModeManager", "checkRegionRecover")
	if err != nil {
		return "", err
	}
	var rets []string
	for _, st := range fd.Body.List {
		rets = append(rets, goast.Q(f.Src(st)))
	}
	o.sb.WriteString("Definition body_checkRegionRecover : list string := (* top-level statements of checkRegionRecover, source text *)\n  " + goast.CoqList(rets[len(rets)-1:]) + ".\n")
	return o.sb.String(), nil
}
