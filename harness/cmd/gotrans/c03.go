package main

import (
	"fmt"
	"go/ast"

	"pdverif/internal/goast"
)

func init() { gens["C03"] = genC03 }

// funcBodySrc prints the whole body of a function as one normalised source string.
func funcBodySrc(f *goast.File, recv, name string) (string, error) {
	fd, err := f.Func(recv, name)
	if err != nil {
		return "", err
	}
	return f.Src(fd.Body), nil
}

func genC03(repo string) (string, error) {
	var o out
	ls, err := goast.Load(repo, "server/election/leadership.go")
	if err != nil {
		return "", err
	}
	opt := goast.SkelOpt{Calls: set("setLease", "Grant", "Commit", "Close", "Reset", "Revoke", "Store", "LeaderTxn", "leaderCmp"), Conds: true}
	for _, fn := range []string{"Campaign", "DeleteLeaderKey", "Reset", "LeaderTxn"} {
		if err := o.skeleton(ls, "Leadership", fn, "skel_"+fn, opt); err != nil {
			return "", err
		}
	}
	for _, fn := range []string{"Campaign", "leaderCmp", "DeleteLeaderKey"} {
		fd, err := ls.Func("Leadership", fn)
		if err != nil {
			return "", err
		}
		o.strList("cmps_"+fn, ls.Compares(fd), "clientv3.Compare calls of Leadership."+fn)
	}
	// the transaction DeleteLeaderKey commits, as written
	{
		fd, err := ls.Func("Leadership", "DeleteLeaderKey")
		if err != nil {
			return "", err
		}
		var txns []string
		ast.Inspect(fd.Body, func(n ast.Node) bool {
			if c, ok := n.(*ast.CallExpr); ok {
				if s, ok := c.Fun.(*ast.SelectorExpr); ok && s.Sel.Name == "Commit" {
					txns = append(txns, ls.Src(c))
				}
			}
			return true
		})
		o.strList("txn_DeleteLeaderKey", txns, "the txn chain(s) committed by DeleteLeaderKey")
	}
	src, err := funcBodySrc(ls, "Leadership", "Check")
	if err != nil {
		return "", err
	}
	fmt.Fprintf(&o.sb, "Definition src_Check : string := %s.\n", goast.Q(src))

	le, err := goast.Load(repo, "server/election/lease.go")
	if err != nil {
		return "", err
	}
	for _, fn := range []string{"IsExpired", "Close"} {
		src, err := funcBodySrc(le, "lease", fn)
		if err != nil {
			return "", err
		}
		fmt.Fprintf(&o.sb, "Definition src_lease_%s : string := %s.\n", fn, goast.Q(src))
	}
	// Grant: expireTime is computed from the time the request STARTED
	fd, err := le.Func("lease", "Grant")
	if err != nil {
		return "", err
	}
	var stores []string
	ast.Inspect(fd.Body, func(n ast.Node) bool {
		if c, ok := n.(*ast.CallExpr); ok {
			if s, ok := c.Fun.(*ast.SelectorExpr); ok && s.Sel.Name == "Store" {
				stores = append(stores, le.Src(c))
			}
		}
		return true
	})
	o.strList("grant_stores", stores, "expireTime stores of lease.Grant")
	// keepAliveWorker: the renewed local expiry is computed from the time the request started
	if err := o.skeleton(le, "lease", "keepAliveWorker", "skel_keepAliveWorker",
		goast.SkelOpt{Calls: set("KeepAliveOnce", "Now"), Assigns: set("expire", "start"), Conds: true}); err != nil {
		return "", err
	}
	if err := o.skeleton(le, "lease", "KeepAlive", "skel_KeepAlive",
		goast.SkelOpt{Calls: set("keepAliveWorker", "Store", "After"), Assigns: set("maxExpire"), Conds: true}); err != nil {
		return "", err
	}

	// the transaction wrapper under every guarded write: If / Then pass through, Commit commits ONCE
	ek, err := goast.Load(repo, "server/kv/etcd_kv.go")
	if err != nil {
		return "", err
	}
	for _, fn := range []string{"If", "Then"} {
		src, err := funcBodySrc(ek, "SlowLogTxn", fn)
		if err != nil {
			return "", err
		}
		fmt.Fprintf(&o.sb, "Definition src_SlowLogTxn_%s : string := %s.\n", fn, goast.Q(src))
	}
	if err := o.skeleton(ek, "SlowLogTxn", "Commit", "skel_SlowLogTxn_Commit",
		goast.SkelOpt{Calls: set("Commit", "cancel", "If", "Then", "Txn"), Assigns: set("resp", "err"), Conds: true, Branches: true}); err != nil {
		return "", err
	}

	mb, err := goast.Load(repo, "server/member/member.go")
	if err != nil {
		return "", err
	}
	src, err = funcBodySrc(mb, "Member", "IsLeader")
	if err != nil {
		return "", err
	}
	fmt.Fprintf(&o.sb, "Definition src_IsLeader : string := %s.\n", goast.Q(src))
	if err := o.skeleton(mb, "Member", "CheckLeader", "skel_CheckLeader",
		goast.SkelOpt{Calls: set("GetLeader", "isSameLeader", "DeleteLeaderKey"), Conds: true}); err != nil {
		return "", err
	}

	{
		fd, err := mb.Func("Member", "CheckLeader")
		if err != nil {
			return "", err
		}
		o.strList("cmps_CheckLeader", mb.Compares(fd), "comparisons CheckLeader passes to DeleteLeaderKey")
		la, err := goast.Load(repo, "server/tso/local_allocator.go")
		if err != nil {
			return "", err
		}
		fd, err = la.Func("LocalTSOAllocator", "CheckAllocatorLeader")
		if err != nil {
			return "", err
		}
		o.strList("cmps_CheckAllocatorLeader", la.Compares(fd), "comparisons CheckAllocatorLeader passes to DeleteLeaderKey")
	}
	gs, err := goast.Load(repo, "server/grpc_service.go")
	if err != nil {
		return "", err
	}
	if err := o.skeleton(gs, "Server", "validateRequest", "skel_validateRequest",
		goast.SkelOpt{Calls: set("IsLeader", "IsClosed"), Conds: true}); err != nil {
		return "", err
	}

	ts, err := goast.Load(repo, "server/tso/tso.go")
	if err != nil {
		return "", err
	}
	if err := o.skeleton(ts, "timestampOracle", "getTS", "skel_getTS",
		goast.SkelOpt{Calls: set("Check", "generateTSO", "getTSO"), Branches: true}); err != nil {
		return "", err
	}
	if err := o.skeleton(ts, "timestampOracle", "saveTimestamp", "skel_saveTimestamp",
		goast.SkelOpt{Calls: set("LeaderTxn", "Commit", "Store"), Conds: true}); err != nil {
		return "", err
	}

	sites, err := goast.CallSites(repo, []string{"server"}, "LeaderTxn", nil)
	if err != nil {
		return "", err
	}
	o.strList("leadertxn_sites", sites, "every call of X.LeaderTxn(...) outside tests")
	return o.sb.String(), nil
}
