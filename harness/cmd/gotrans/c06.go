package main

import (
	"fmt"

	"pdverif/internal/goast"
)

func init() { gens["C06"] = genC06 }

func genC06(repo string) (string, error) {
	var o out
	// the cache is the C07 model: the same function bodies are re-extracted so that `bin/check C06` alone notices an edit
	if err := c07Skeletons(&o, repo); err != nil {
		return "", err
	}
	cl, err := goast.Load(repo, "server/cluster/cluster.go")
	if err != nil {
		return "", err
	}
	// local names are canonical (v0, v1, … in order of first appearance; log and metric lines dropped), so that a renamed
	// local or an added log line is not a change; every assignment to a local is part of the skeleton
	hb, err := cl.Func("RaftCluster", "processRegionHeartbeat")
	if err != nil {
		return "", err
	}
	opt := goast.SkelOpt{
		Calls: set("PreCheckPutRegion", "PutRegion", "DeleteRegion", "SaveRegion", "GetRegionEpoch", "collect",
			"updateStoreStatusLocked", "Observe", "ClearDefunctRegion", "SortedPeersEqual", "SortedPeersStatsEqual"),
		Assigns: set(c07NormalizeFunc(hb)...),
		Conds:   true,
	}
	if err := o.skeleton(cl, "RaftCluster", "processRegionHeartbeat", "skel_processRegionHeartbeat", opt); err != nil {
		return "", err
	}
	bc, err := goast.Load(repo, "server/core/basic_cluster.go")
	if err != nil {
		return "", err
	}
	for _, fn := range []string{"getRelevantRegions", "PreCheckPutRegion", "PutRegion", "ScanRange", "CheckAndPutRegion", "CheckAndPutLoadedRegion"} {
		if err := o.srcDef(bc, "BasicCluster", fn, "src_bc_"+fn); err != nil {
			return "", err
		}
	}
	rs, err := goast.Load(repo, "server/core/region_storage.go")
	if err != nil {
		return "", err
	}
	if err := o.constZ(rs, "defaultBatchSize", "defaultBatchSize"); err != nil {
		return "", err
	}
	for _, x := range []struct{ recv, name string }{{"RegionStorage", "SaveRegion"}, {"RegionStorage", "FlushRegion"}, {"RegionStorage", "flush"}, {"RegionStorage", "Remove"}, {"", "deleteRegion"}} {
		if x.name == "Remove" {
			// the method exists since the repair of the write-back batch; without it kv.Base.Remove on the region storage
			// is the embedded LeveldbKV.Remove: emit that fact as the body, so that the tie in proof/C06_Skel.v fails
			// and the cases are still replayed against the model
			if _, err := rs.Func(x.recv, x.name); err != nil {
				fmt.Fprintf(&o.sb, "Definition src_rs_Remove : string := (* %s: no (RegionStorage).Remove *)\n  %s.\n", rs.Path,
					goast.Q("<absent: kv.Base.Remove on the region storage is the embedded LeveldbKV.Remove, the batch is not consulted>"))
				continue
			}
		}
		if err := o.srcDef(rs, x.recv, x.name, "src_rs_"+x.name); err != nil {
			return "", err
		}
	}
	st, err := goast.Load(repo, "server/core/storage.go")
	if err != nil {
		return "", err
	}
	for _, fn := range []string{"SaveRegion", "DeleteRegion", "LoadRegion", "Flush"} {
		if err := o.srcDef(st, "Storage", fn, "src_st_"+fn); err != nil {
			return "", err
		}
	}
	rg, err := goast.Load(repo, "server/core/region.go")
	if err != nil {
		return "", err
	}
	if err := o.srcDef(rg, "", "RegionFromHeartbeat", "src_RegionFromHeartbeat"); err != nil {
		return "", err
	}
	// start-up glue: the cache (BasicCluster) of a member outlives its leader terms
	sv, err := goast.Load(repo, "server/server.go")
	if err != nil {
		return "", err
	}
	if err := o.srcDef(sv, "Server", "createRaftCluster", "src_server_createRaftCluster"); err != nil {
		return "", err
	}
	return o.sb.String(), nil
}
