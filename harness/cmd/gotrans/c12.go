package main

// Translator part for C12 (rule fitting). Everything the Coq model of fit.go was written
// against is regenerated from /repo's working tree:
//   - replicaBaseScore (function-local constant of isolationScore),
//   - the ordered (condition => result) tables of compareRuleFit, CompareRegionFit,
//     matchRoleStrict, MatchStore,
//   - the exclusive-label prefix literal and the legacy exclusive label list,
//   - the normalised statement text of the backtracking search (fitRule, enumPeers,
//     compareBest, updateOrphanPeers, run, newRuleFit, matchRoleLoose, isolationScore,
//     IsSatisfied x2, MatchLabelConstraints, isExclusiveLabel, checkRule) and of the two
//     store helpers it relies on (GetLabelValue, CompareLocation).
// proof/C12_Skel.v states each of them by reflexivity.

import (
	"fmt"
	"go/ast"
	"go/constant"
	"go/token"
	"go/types"
	"strings"

	"pdverif/internal/goast"
)

func init() { gens["C12"] = genC12 }

// c12LocalConst evaluates a constant declared inside the body of fd.
func c12LocalConst(f *goast.File, fd *ast.FuncDecl, name string) (string, error) {
	var found ast.Expr
	ast.Inspect(fd.Body, func(n ast.Node) bool {
		gd, ok := n.(*ast.GenDecl)
		if !ok || gd.Tok != token.CONST {
			return true
		}
		for _, s := range gd.Specs {
			vs := s.(*ast.ValueSpec)
			for i, id := range vs.Names {
				if id.Name == name && i < len(vs.Values) {
					found = vs.Values[i]
				}
			}
		}
		return true
	})
	if found == nil {
		return "", fmt.Errorf("%s: local constant %s of %s not found", f.Path, name, fd.Name.Name)
	}
	tv, err := types.Eval(f.Fset, nil, token.NoPos, f.Src(found))
	if err != nil || tv.Value == nil {
		return "", fmt.Errorf("%s: local constant %s of %s is not a constant expression", f.Path, name, fd.Name.Name)
	}
	v := constant.ToInt(tv.Value)
	if v.Kind() != constant.Int {
		return "", fmt.Errorf("%s: local constant %s is not an integer", f.Path, name)
	}
	return v.ExactString(), nil
}

// c12Switch prints every case of the first switch statement of fd as "cond => body".
func c12Switch(f *goast.File, fd *ast.FuncDecl) ([]string, error) {
	c12Normalize(fd)
	var sw *ast.SwitchStmt
	ast.Inspect(fd.Body, func(n ast.Node) bool {
		if s, ok := n.(*ast.SwitchStmt); ok && sw == nil {
			sw = s
			return false
		}
		return true
	})
	if sw == nil {
		return nil, fmt.Errorf("%s: %s has no switch statement", f.Path, fd.Name.Name)
	}
	var out []string
	tag := ""
	if sw.Tag != nil {
		tag = f.Src(sw.Tag) + " == "
	}
	for _, c := range sw.Body.List {
		cc := c.(*ast.CaseClause)
		var conds []string
		for _, e := range cc.List {
			conds = append(conds, tag+f.Src(e))
		}
		cond := strings.Join(conds, " || ")
		if cc.List == nil {
			cond = "default"
		}
		var body []string
		for _, s := range cc.Body {
			body = append(body, f.Src(s))
		}
		out = append(out, cond+" => "+strings.Join(body, "; "))
	}
	return out, nil
}

// c12Normalize makes the extracted text insensitive to edits that cannot matter for the properties:
// statements that only log or count (log.X(...), <metric>.Inc()/Add()/Observe()/Set()) are removed, and every
// identifier declared inside the function (receiver, parameters, results, locals) is renamed to _v<n> in
// order of first appearance.  Idempotent; mutates the AST of fd.
func c12Normalize(fd *ast.FuncDecl) {
	if fd.Body == nil {
		return
	}
	isNoise := func(s ast.Stmt) bool {
		es, ok := s.(*ast.ExprStmt)
		if !ok {
			return false
		}
		c, ok := es.X.(*ast.CallExpr)
		if !ok {
			return false
		}
		se, ok := c.Fun.(*ast.SelectorExpr)
		if !ok {
			return false
		}
		root := se.X
		for {
			switch x := root.(type) {
			case *ast.SelectorExpr:
				root = x.X
				continue
			case *ast.CallExpr:
				root = x.Fun
				continue
			}
			break
		}
		if id, ok := root.(*ast.Ident); ok && id.Name == "log" {
			return true
		}
		switch se.Sel.Name {
		case "Inc", "Dec", "Observe":
			return true
		}
		return false
	}
	var strip func(list []ast.Stmt) []ast.Stmt
	strip = func(list []ast.Stmt) []ast.Stmt {
		var out []ast.Stmt
		for _, s := range list {
			if !isNoise(s) {
				out = append(out, s)
			}
		}
		return out
	}
	ast.Inspect(fd.Body, func(n ast.Node) bool {
		switch x := n.(type) {
		case *ast.BlockStmt:
			x.List = strip(x.List)
		case *ast.CaseClause:
			x.Body = strip(x.Body)
		case *ast.CommClause:
			x.Body = strip(x.Body)
		}
		return true
	})
	// pass 1: which objects are declared inside fd (decided before any identifier is touched), in order of first appearance
	names := map[*ast.Object]string{}
	ast.Inspect(fd, func(n ast.Node) bool {
		id, ok := n.(*ast.Ident)
		if !ok || id.Obj == nil || id.Name == "_" || id.Obj.Kind != ast.Var {
			return true
		}
		if _, seen := names[id.Obj]; seen {
			return true
		}
		if strings.HasPrefix(id.Name, "_v") {
			return true // already normalised
		}
		pos := id.Obj.Pos()
		if pos < fd.Pos() || pos > fd.End() {
			return true // package-level object
		}
		names[id.Obj] = fmt.Sprintf("_v%d", len(names))
		return true
	})
	// pass 2: rename
	ast.Inspect(fd, func(n ast.Node) bool {
		if id, ok := n.(*ast.Ident); ok && id.Obj != nil {
			if nm, ok := names[id.Obj]; ok {
				id.Name = nm
			}
		}
		return true
	})
}

// c12Body prints the top-level statements of fd, one normalised source string each.
func c12Body(f *goast.File, fd *ast.FuncDecl) []string {
	c12Normalize(fd)
	var out []string
	for _, s := range fd.Body.List {
		if ds, ok := s.(*ast.DeclStmt); ok {
			if gd, ok := ds.Decl.(*ast.GenDecl); ok {
				gd.Doc = nil // comments are not part of the obligation
			}
		}
		out = append(out, f.Src(s))
	}
	return out
}

func genC12(repo string) (string, error) {
	var o out
	fit, err := goast.Load(repo, "server/schedule/placement/fit.go")
	if err != nil {
		return "", err
	}
	lc, err := goast.Load(repo, "server/schedule/placement/label_constraint.go")
	if err != nil {
		return "", err
	}
	rm, err := goast.Load(repo, "server/schedule/placement/rule_manager.go")
	if err != nil {
		return "", err
	}
	st, err := goast.Load(repo, "server/core/store.go")
	if err != nil {
		return "", err
	}

	iso, err := fit.Func("", "isolationScore")
	if err != nil {
		return "", err
	}
	v, err := c12LocalConst(fit, iso, "replicaBaseScore")
	if err != nil {
		return "", err
	}
	fmt.Fprintf(&o.sb, "Definition replicaBaseScore : Z := (%s)%%Z.  (* %s: isolationScore/replicaBaseScore *)\n", v, fit.Path)

	type sw struct {
		f          *goast.File
		recv, name string
		coq        string
	}
	for _, s := range []sw{
		{fit, "", "compareRuleFit", "rule_fit_order"},
		{fit, "", "CompareRegionFit", "region_fit_order"},
		{fit, "fitPeer", "matchRoleStrict", "role_strict_cases"},
		{fit, "fitWorker", "compareBest", "compare_best_cases"},
		{lc, "LabelConstraint", "MatchStore", "match_store_cases"},
	} {
		fd, err := s.f.Func(s.recv, s.name)
		if err != nil {
			return "", err
		}
		cs, err := c12Switch(s.f, fd)
		if err != nil {
			return "", err
		}
		o.strList(s.coq, cs, s.f.Path+": cases of the switch in "+s.name+", source order")
	}

	type body struct {
		f          *goast.File
		recv, name string
	}
	for _, b := range []body{
		{fit, "RegionFit", "IsSatisfied"}, {fit, "RuleFit", "IsSatisfied"},
		{fit, "", "CompareRegionFit"}, {fit, "", "FitRegion"}, {fit, "", "newFitWorker"},
		{fit, "fitWorker", "run"}, {fit, "fitWorker", "fitRule"}, {fit, "fitWorker", "enumPeers"},
		{fit, "fitWorker", "compareBest"}, {fit, "fitWorker", "updateOrphanPeers"},
		{fit, "", "newRuleFit"}, {fit, "fitPeer", "matchRoleLoose"}, {fit, "", "isolationScore"},
		{lc, "", "isExclusiveLabel"}, {lc, "", "MatchLabelConstraints"},
		{rm, "", "checkRule"}, {rm, "RuleManager", "FitRegion"},
		{st, "StoreInfo", "GetLabelValue"}, {st, "StoreInfo", "CompareLocation"},
	} {
		fd, err := b.f.Func(b.recv, b.name)
		if err != nil {
			return "", err
		}
		nm := "body_" + b.name
		if b.recv != "" {
			nm = "body_" + b.recv + "_" + b.name
		}
		o.strList(nm, c12Body(b.f, fd), b.f.Path+": statements of ("+b.recv+")."+b.name)
	}

	// the guard that keeps non-positive counts away from FitRegion: RuleManager.adjustRule (every rule a
	// RuleManager serves — SetRule, Batch, bundles, loadRules — went through it)
	guards, err := c13AdjustChecks(rm)
	if err != nil {
		return "", err
	}
	o.strList("adjust_rule_guards", guards, rm.Path+": conditions of adjustRule that reject a rule, source order")

	// var legacyExclusiveLabels = []string{...}
	var legacy []string
	found := false
	for _, d := range lc.AST.Decls {
		gd, ok := d.(*ast.GenDecl)
		if !ok {
			continue
		}
		for _, s := range gd.Specs {
			vs, ok := s.(*ast.ValueSpec)
			if !ok {
				continue
			}
			for i, n := range vs.Names {
				if n.Name == "legacyExclusiveLabels" && i < len(vs.Values) {
					cl, ok := vs.Values[i].(*ast.CompositeLit)
					if !ok {
						return "", fmt.Errorf("%s: legacyExclusiveLabels is not a composite literal", lc.Path)
					}
					for _, e := range cl.Elts {
						bl, ok := e.(*ast.BasicLit)
						if !ok || bl.Kind != token.STRING {
							return "", fmt.Errorf("%s: legacyExclusiveLabels has a non-literal element", lc.Path)
						}
						legacy = append(legacy, strings.Trim(bl.Value, "\"`"))
					}
					found = true
				}
			}
		}
	}
	if !found {
		return "", fmt.Errorf("%s: anchor var legacyExclusiveLabels not found", lc.Path)
	}
	o.strList("legacy_exclusive_labels", legacy, lc.Path+": legacyExclusiveLabels")

	// strings.HasPrefix(key, "$") in isExclusiveLabel
	ex, err := lc.Func("", "isExclusiveLabel")
	if err != nil {
		return "", err
	}
	prefix := ""
	nprefix := 0
	ast.Inspect(ex.Body, func(n ast.Node) bool {
		c, ok := n.(*ast.CallExpr)
		if !ok {
			return true
		}
		if se, ok := c.Fun.(*ast.SelectorExpr); ok && se.Sel.Name == "HasPrefix" && len(c.Args) == 2 {
			if bl, ok := c.Args[1].(*ast.BasicLit); ok && bl.Kind == token.STRING {
				prefix = strings.Trim(bl.Value, "\"`")
				nprefix++
			}
		}
		return true
	})
	if nprefix != 1 {
		return "", fmt.Errorf("%s: isExclusiveLabel: expected exactly one strings.HasPrefix(key, <literal>)", lc.Path)
	}
	fmt.Fprintf(&o.sb, "Definition exclusive_prefix : string := %s.  (* %s: isExclusiveLabel *)\n", goast.Q(prefix), lc.Path)

	// the role and operator literals
	for _, c := range []struct {
		f         *goast.File
		name, coq string
	}{
		{nil, "Voter", "role_voter"}, {nil, "Leader", "role_leader"}, {nil, "Follower", "role_follower"}, {nil, "Learner", "role_learner"},
		{lc, "In", "op_in"}, {lc, "NotIn", "op_notin"}, {lc, "Exists", "op_exists"}, {lc, "NotExists", "op_notexists"},
	} {
		f := c.f
		if f == nil {
			f, err = goast.Load(repo, "server/schedule/placement/rule.go")
			if err != nil {
				return "", err
			}
		}
		s, err := c12StringConst(f, c.name)
		if err != nil {
			return "", err
		}
		fmt.Fprintf(&o.sb, "Definition %s : string := %s.  (* %s: %s *)\n", c.coq, goast.Q(s), f.Path, c.name)
	}
	return o.sb.String(), nil
}

// c12StringConst returns the literal of a package-level typed string constant.
func c12StringConst(f *goast.File, name string) (string, error) {
	for _, d := range f.AST.Decls {
		gd, ok := d.(*ast.GenDecl)
		if !ok || gd.Tok != token.CONST {
			continue
		}
		for _, s := range gd.Specs {
			vs := s.(*ast.ValueSpec)
			for i, n := range vs.Names {
				if n.Name == name && i < len(vs.Values) {
					if bl, ok := vs.Values[i].(*ast.BasicLit); ok && bl.Kind == token.STRING {
						return strings.Trim(bl.Value, "\"`"), nil
					}
				}
			}
		}
	}
	return "", fmt.Errorf("%s: string constant %s not found", f.Path, name)
}
