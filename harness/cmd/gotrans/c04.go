package main

import "pdverif/internal/goast"

func init() { gens["C04"] = genC04 }

func genC04(repo string) (string, error) {
	var o out
	f, err := goast.Load(repo, "server/id/id.go")
	if err != nil {
		return "", err
	}
	if err := o.constZ(f, "allocStep", "allocStep"); err != nil {
		return "", err
	}
	opt := goast.SkelOpt{Calls: set("rebaseLocked", "GetValue", "Commit", "BytesToUint64"),
		Assigns: set("base", "end"), Conds: true}
	for _, fn := range []string{"Alloc", "Rebase", "rebaseLocked"} {
		if err := o.skeleton(f, "allocatorImpl", fn, "skel_"+fn, opt); err != nil {
			return "", err
		}
	}
	fd, err := f.Func("allocatorImpl", "rebaseLocked")
	if err != nil {
		return "", err
	}
	o.strList("rebase_cmps", f.Compares(fd), "clientv3.Compare calls of rebaseLocked, source order")
	sites, err := goast.CallSites(repo, []string{"server"}, "Alloc", func(recv string) bool {
		return recv == "s.idAllocator" || recv == "c.id" || recv == "alloc" || recv == "idAllocator"
	})
	if err != nil {
		return "", err
	}
	o.strList("alloc_sites", sites, "callers of the one id allocator")
	// who names the key of the stored bound: the allocator alone (any other writer or reader would be a second way in)
	ks, err := goast.LiteralSites(repo, []string{"server", "pkg"}, "alloc_id", "")
	if err != nil {
		return "", err
	}
	o.strList("alloc_id_key_sites", ks, "functions that contain the literal \"alloc_id\"")
	// the split handlers: an id that could not be allocated fails the whole request
	cw, err := goast.Load(repo, "server/cluster/cluster_worker.go")
	if err != nil {
		return "", err
	}
	wopt := goast.SkelOpt{Calls: set("ValidRequestRegion", "Alloc"), Assigns: set("newRegionID", "peerIDs", "NewRegionId", "NewPeerIds"), Conds: true, Branches: true}
	for _, fn := range []string{"HandleAskSplit", "HandleAskBatchSplit"} {
		if err := o.skeleton(cw, "RaftCluster", fn, "skel_"+fn, wopt); err != nil {
			return "", err
		}
	}
	gs, err := goast.Load(repo, "server/grpc_service.go")
	if err != nil {
		return "", err
	}
	if err := o.skeleton(gs, "Server", "AllocID", "skel_handler_AllocID", goast.SkelOpt{Calls: set("validateRequest", "Alloc"), Assigns: set("Id"), Conds: true}); err != nil {
		return "", err
	}
	return o.sb.String(), nil
}
