package main

import (
	"fmt"
	"go/ast"

	"pdverif/internal/c10ast"
	"pdverif/internal/goast"
)

func init() { gens["C10"] = genC10 }

// c10Load parses a file and makes the extraction insensitive to log / metrics statements and to the names of
// function-local variables (c10ast.Prepare)
func c10Load(repo, rel string) (*goast.File, error) {
	f, err := goast.Load(repo, rel)
	if err != nil {
		return nil, err
	}
	return c10ast.Prepare(f), nil
}

// c10FilterTables prints what both C10 and C11 consume from filters.go and core/store.go.
func c10FilterTables(repo string, o *out) error {
	o.sb.WriteString("From PDV Require Import lib.C10_Cluster.\n\n")
	sf, err := c10Load(repo, "server/core/store.go")
	if err != nil {
		return err
	}
	if err := o.constZ(sf, "replicaBaseScore", "replicaBaseScore"); err != nil {
		return err
	}
	f, err := c10Load(repo, "server/schedule/filter/filters.go")
	if err != nil {
		return err
	}
	kinds, err := c10ast.IotaNames(f, "leaderSource")
	if err != nil {
		return err
	}
	o.strList("state_kinds", kinds, "filters.go: the iota block of StoreStateFilter kinds")
	for _, g := range []func(*goast.File) (string, error){c10ast.CondTable, c10ast.CondBodies,
		func(f *goast.File) (string, error) { return c10ast.Dispatch(f, "Target", "target_dispatch") },
		func(f *goast.File) (string, error) { return c10ast.Dispatch(f, "Source", "source_dispatch") }} {
		s, err := g(f)
		if err != nil {
			return err
		}
		o.sb.WriteString(s)
	}
	// the other filters the models transcribe: pinned as source text
	for _, it := range [][2]string{{"excludedFilter", "Target"}, {"storageThresholdFilter", "Target"}, {"specialUseFilter", "Target"},
		{"isolationFilter", "Target"}, {"distinctScoreFilter", "Target"}, {"labelConstraintFilter", "Target"},
		{"engineFilter", "Target"}, {"ordinaryEngineFilter", "Target"}} {
		fd, err := f.Func(it[0], it[1])
		if err != nil {
			return err
		}
		fmt.Fprintf(&o.sb, "Definition src_%s_%s : string := (* filters.go *)\n  %s.\n", it[0], it[1], goast.Q(f.Src(fd.Body)))
	}
	fd, err := f.Func("", "NewIsolationFilter")
	if err != nil {
		return err
	}
	fmt.Fprintf(&o.sb, "Definition src_NewIsolationFilter : string :=\n  %s.\n", goast.Q(f.Src(fd.Body)))
	fd, err = f.Func("", "newDistinctScoreFilter")
	if err != nil {
		return err
	}
	fmt.Fprintf(&o.sb, "Definition src_newDistinctScoreFilter : string :=\n  %s.\n", goast.Q(f.Src(fd.Body)))
	fd, err = f.Func("", "NewSpecialUseFilter")
	if err != nil {
		return err
	}
	fmt.Fprintf(&o.sb, "Definition src_NewSpecialUseFilter : string :=\n  %s.\n", goast.Q(f.Src(fd.Body)))
	po, err := c10Load(repo, "server/config/persist_options.go")
	if err != nil {
		return err
	}
	clp, err := po.Func("PersistOptions", "CheckLabelProperty")
	if err != nil {
		return err
	}
	fmt.Fprintf(&o.sb, "Definition src_CheckLabelProperty : string := (* config/persist_options.go: spec = lib/C10_Cluster.check_label_property *)\n  %s.\n", goast.Q(po.Src(clp.Body)))
	for _, fn := range []string{"DistinctScore"} {
		fd, err := sf.Func("", fn)
		if err != nil {
			return err
		}
		fmt.Fprintf(&o.sb, "Definition src_%s : string := (* core/store.go *)\n  %s.\n", fn, goast.Q(sf.Src(fd.Body)))
	}
	for _, fn := range []string{"CompareLocation", "GetLabelValue"} {
		fd, err := sf.Func("StoreInfo", fn)
		if err != nil {
			return err
		}
		fmt.Fprintf(&o.sb, "Definition src_%s : string := (* core/store.go *)\n  %s.\n", fn, goast.Q(sf.Src(fd.Body)))
	}
	return nil
}

func c10Flags(o *out, f *goast.File, fd *ast.FuncDecl, names ...string) error {
	fl, err := c10ast.StateFilterFlags(f, fd)
	if err != nil {
		return err
	}
	if len(fl) != len(names) {
		return fmt.Errorf("%s: %s: %d StoreStateFilter literals, %d expected", f.Path, fd.Name.Name, len(fl), len(names))
	}
	for i, n := range names {
		o.sb.WriteString(c10ast.FlagList(n, fl[i], f.Path+": "+fd.Name.Name+": StoreStateFilter literal #"+fmt.Sprint(i+1)))
	}
	return nil
}

func genC10(repo string) (string, error) {
	var o out
	if err := c10FilterTables(repo, &o); err != nil {
		return "", err
	}
	// ---- replica_strategy.go ----
	rs, err := c10Load(repo, "server/schedule/checker/replica_strategy.go")
	if err != nil {
		return "", err
	}
	add, err := rs.Func("ReplicaStrategy", "SelectStoreToAdd")
	if err != nil {
		return "", err
	}
	el, err := c10ast.FirstCompositeOf(rs, add, "[]filter.Filter")
	if err != nil {
		return "", err
	}
	o.strList("sel_add_filters", el, "SelectStoreToAdd: the first filter list")
	if err := c10Flags(&o, rs, add, "sel_add_first_flags", "sel_add_strict_flags"); err != nil {
		return "", err
	}
	ch, err := c10ast.ChainFrom(rs, add, "NewCandidates")
	if err != nil {
		return "", err
	}
	o.strList("sel_add_chain", ch, "SelectStoreToAdd: the candidate pipeline")
	opt := goast.SkelOpt{Calls: set("NewIsolationFilter", "IsolationComparer", "NewCandidates", "FilterTarget", "FilterSource", "Sort", "Reverse", "Top",
		"PickFirst", "RandomPick", "Shuffle", "swapStoreToFirst", "SelectStoreToAdd", "NewLocationImprover", "NewLocationSafeguard"), Conds: true}
	for _, fn := range []string{"SelectStoreToAdd", "SelectStoreToFix", "SelectStoreToImprove", "SelectStoreToRemove"} {
		if err := o.skeleton(rs, "ReplicaStrategy", fn, "skel_"+fn, opt); err != nil {
			return "", err
		}
	}
	rm, err := rs.Func("ReplicaStrategy", "SelectStoreToRemove")
	if err != nil {
		return "", err
	}
	if err := c10Flags(&o, rs, rm, "sel_remove_flags"); err != nil {
		return "", err
	}
	ch, err = c10ast.ChainFrom(rs, rm, "NewCandidates")
	if err != nil {
		return "", err
	}
	o.strList("sel_remove_chain", ch, "SelectStoreToRemove: the candidate pipeline")
	for _, fn := range []string{"SelectStoreToFix", "SelectStoreToImprove"} {
		fd, err := rs.Func("ReplicaStrategy", fn)
		if err != nil {
			return "", err
		}
		ch, err := c10ast.ReturnChain(rs, fd)
		if err != nil {
			return "", err
		}
		o.strList("ret_"+fn, ch, fn+": returned call")
	}
	imp, _ := rs.Func("ReplicaStrategy", "SelectStoreToImprove")
	el, err = c10ast.FirstCompositeOf(rs, imp, "[]filter.Filter")
	if err != nil {
		return "", err
	}
	o.strList("sel_improve_filters", el, "SelectStoreToImprove: extra filters")

	// ---- replica_checker.go ----
	rc, err := c10Load(repo, "server/schedule/checker/replica_checker.go")
	if err != nil {
		return "", err
	}
	chk, err := rc.Func("ReplicaChecker", "Check")
	if err != nil {
		return "", err
	}
	o.strList("replica_check_order", c10ast.CallsByPos(chk, func(n string) bool { return len(n) > 5 && n[:5] == "check" && n != "checkerCounter" }),
		"ReplicaChecker.Check: the cascade")
	for _, it := range [][3]string{{"fixPeer", "GetVoters", "fix_peer_surplus_op"}, {"checkRemoveExtraReplica", "GetVoters", "remove_extra_skip_op"},
		{"checkMakeUpReplica", "GetPeers", "make_up_skip_op"}} {
		fd, err := rc.Func("ReplicaChecker", it[0])
		if err != nil {
			return "", err
		}
		op, src, err := c10ast.CmpOp(rc, fd, it[1])
		if err != nil {
			return "", err
		}
		fmt.Fprintf(&o.sb, "Definition %s : cmpop := %s.  (* %s: %s *)\nDefinition %s_src : string := %s.\n", it[2], op, it[0], src, it[2], goast.Q(src))
	}
	opt2 := goast.SkelOpt{Calls: set("fixPeer", "SelectStoreToAdd", "SelectStoreToFix", "SelectStoreToRemove", "SelectStoreToImprove", "CreateAddPeerOperator",
		"CreateRemovePeerOperator", "CreateMovePeerOperator", "CreateReplaceLeaderPeerOperator", "GetRegionStores", "IsUp", "GetLearners", "GetDownPeers",
		"IsRemoveDownReplicaEnabled", "IsReplaceOfflineReplicaEnabled", "IsMakeUpReplicaEnabled", "IsRemoveExtraReplicaEnabled", "IsLocationReplacementEnabled",
		"checkDownPeer", "checkOfflinePeer", "checkMakeUpReplica", "checkRemoveExtraReplica", "checkLocationReplacement"), Conds: true}
	for _, fn := range []string{"Check", "checkDownPeer", "checkOfflinePeer", "checkMakeUpReplica", "checkRemoveExtraReplica", "checkLocationReplacement", "fixPeer"} {
		if err := o.skeleton(rc, "ReplicaChecker", fn, "skel_replica_"+fn, opt2); err != nil {
			return "", err
		}
	}
	// ---- rule_checker.go ----
	ru, err := c10Load(repo, "server/schedule/checker/rule_checker.go")
	if err != nil {
		return "", err
	}
	opt3 := goast.SkelOpt{Calls: set("fixRange", "fixOrphanPeers", "fixRulePeer", "addRulePeer", "replaceUnexpectRulePeer", "fixLooseMatchPeer", "fixBetterLocation",
		"isDownPeer", "isOfflinePeer", "IsSatisfied", "SelectStoreToAdd", "SelectStoreToFix", "SelectStoreToRemove", "SelectStoreToImprove", "getRuleFitStores",
		"CreateAddPeerOperator", "CreateRemovePeerOperator", "CreateMovePeerOperator", "CreateReplaceLeaderPeerOperator", "CreatePromoteLearnerOperator",
		"CreateTransferLeaderOperator", "CreateSplitRegionOperator", "allowLeader", "FitRegion", "NewLabelConstaintFilter"), Conds: true}
	for _, fn := range []string{"Check", "fixRulePeer", "addRulePeer", "fixBetterLocation", "fixOrphanPeers", "isOfflinePeer", "strategy", "fixLooseMatchPeer"} {
		if err := o.skeleton(ru, "RuleChecker", fn, "skel_rule_"+fn, opt3); err != nil {
			return "", err
		}
	}
	stf, err := ru.Func("RuleChecker", "strategy")
	if err != nil {
		return "", err
	}
	fmt.Fprintf(&o.sb, "Definition src_rule_strategy : string := (* checker/rule_checker.go: where the isolation level of a rule's strategy comes from *)\n  %s.\n", goast.Q(ru.Src(stf.Body)))
	fitf, err := c10Load(repo, "server/schedule/placement/fit.go")
	if err != nil {
		return "", err
	}
	isf, err := fitf.Func("RuleFit", "IsSatisfied")
	if err != nil {
		return "", err
	}
	fmt.Fprintf(&o.sb, "Definition src_RuleFit_IsSatisfied : string := (* placement/fit.go *)\n  %s.\n", goast.Q(fitf.Src(isf.Body)))
	lc, err := c10Load(repo, "server/schedule/placement/label_constraint.go")
	if err != nil {
		return "", err
	}
	for _, it := range [][2]string{{"LabelConstraint", "MatchStore"}, {"", "MatchLabelConstraints"}, {"", "isExclusiveLabel"}} {
		fd, err := lc.Func(it[0], it[1])
		if err != nil {
			return "", err
		}
		fmt.Fprintf(&o.sb, "Definition src_%s : string := (* placement/label_constraint.go *)\n  %s.\n", it[1], goast.Q(lc.Src(fd.Body)))
	}
	// ---- create_operator.go: the builder requests behind add / remove / replace ----
	co, err := c10Load(repo, "server/schedule/operator/create_operator.go")
	if err != nil {
		return "", err
	}
	for _, fn := range []string{"CreateAddPeerOperator", "CreateRemovePeerOperator", "CreateMovePeerOperator", "CreateReplaceLeaderPeerOperator"} {
		fd, err := co.Func("", fn)
		if err != nil {
			return "", err
		}
		ch, err := c10ast.ReturnChain(co, fd)
		if err != nil {
			return "", err
		}
		o.strList("chain_"+fn, ch, "create_operator.go: "+fn)
	}
	// ---- checker_controller.go ----
	cc, err := c10Load(repo, "server/schedule/checker_controller.go")
	if err != nil {
		return "", err
	}
	if err := o.skeleton(cc, "CheckerController", "CheckRegion", "skel_CheckRegion",
		goast.SkelOpt{Calls: set("Check", "IsPlacementRulesEnabled", "OperatorCount", "GetReplicaScheduleLimit", "GetMergeScheduleLimit"), Conds: true}); err != nil {
		return "", err
	}
	return o.sb.String(), nil
}
