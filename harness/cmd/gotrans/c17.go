package main

import (
	"fmt"
	"go/ast"
	"go/token"
	"regexp"
	"strings"

	"pdverif/internal/goast"
)

func init() { gens["C17"] = genC17 }

// every statement of a (small) function body as normalised source text, nested blocks included
func stmtTexts(f *goast.File, fd *ast.FuncDecl) []string {
	var out []string
	for _, s := range fd.Body.List {
		out = append(out, f.Src(s))
	}
	return out
}

// the string literals passed to fmt.Sprintf inside fd
func sprintfFormats(fd *ast.FuncDecl) []string {
	var out []string
	ast.Inspect(fd.Body, func(n ast.Node) bool {
		c, ok := n.(*ast.CallExpr)
		if !ok {
			return true
		}
		if sel, ok := c.Fun.(*ast.SelectorExpr); ok && sel.Sel.Name == "Sprintf" && len(c.Args) > 0 {
			if lit, ok := c.Args[0].(*ast.BasicLit); ok && lit.Kind == token.STRING {
				out = append(out, strings.Trim(lit.Value, "\""))
			}
		}
		return true
	})
	return out
}

var padRe = regexp.MustCompile(`^%0(\d+)d$`)

func genC17(repo string) (string, error) {
	var o out
	st, err := goast.Load(repo, "server/core/storage.go")
	if err != nil {
		return "", err
	}
	rs, err := goast.Load(repo, "server/core/region_storage.go")
	if err != nil {
		return "", err
	}
	for _, f := range []*goast.File{st, rs} {
		for _, d := range f.AST.Decls {
			if fd, ok := d.(*ast.FuncDecl); ok && fd.Body != nil {
				nzNormalize(fd)
			}
		}
	}
	for _, c := range []string{"minKVRangeLimit", "maxKVRangeLimit"} {
		if err := o.constZ(st, c, c); err != nil {
			return "", err
		}
	}
	if err := o.constZ(rs, "defaultBatchSize", "defaultBatchSize"); err != nil {
		return "", err
	}
	// key formats: zero-padded decimal ids, so that key order = id order
	for _, fn := range []struct{ recv, name, coq string }{{"Storage", "storePath", "store_key_pad"}, {"", "regionPath", "region_key_pad"},
		{"Storage", "storeLeaderWeightPath", "leader_weight_key_pad"}, {"Storage", "storeRegionWeightPath", "region_weight_key_pad"}} {
		fd, err := st.Func(fn.recv, fn.name)
		if err != nil {
			return "", err
		}
		fs := sprintfFormats(fd)
		if len(fs) != 1 {
			return "", fmt.Errorf("%s: anchor: %s is expected to format exactly one id (found %v)", st.Path, fn.name, fs)
		}
		m := padRe.FindStringSubmatch(fs[0])
		if m == nil {
			return "", fmt.Errorf("%s: anchor: %s no longer uses a zero-padded decimal format (%q)", st.Path, fn.name, fs[0])
		}
		fmt.Fprintf(&o.sb, "Definition %s : Z := (%s)%%Z.  (* %s: %s formats the id with %q *)\n", fn.coq, m[1], st.Path, fn.name, fs[0])
		o.strList("src_"+fn.name, stmtTexts(st, fd), "body of "+fn.name)
	}
	// the two paging loops
	lopt := goast.SkelOpt{
		Calls:   set("LoadRange", "Load", "loadFloatWithDefaultValue", "Unmarshal", "DecryptRegion", "NewStoreInfo", "NewRegionInfo", "f", "deleteRegion", "Remove", "storePath", "regionPath"),
		Assigns: nzAllLocals(),
		Conds:   true,
	}
	if err := o.skeleton(st, "Storage", "LoadStores", "skel_LoadStores", lopt); err != nil {
		return "", err
	}
	if err := o.skeleton(rs, "", "loadRegions", "skel_loadRegions", lopt); err != nil {
		return "", err
	}
	// the retry with a halved limit (its body is a bare `continue`, invisible in the event skeleton)
	{
		fd, err := rs.Func("", "loadRegions")
		if err != nil {
			return "", err
		}
		var retry []string
		ast.Inspect(fd.Body, func(n ast.Node) bool {
			is, ok := n.(*ast.IfStmt)
			if !ok || retry != nil {
				return true
			}
			for _, b := range is.Body.List {
				if inner, ok := b.(*ast.IfStmt); ok && inner.Init != nil {
					for _, x := range is.Body.List {
						retry = append(retry, rs.Src(x))
					}
					return false
				}
			}
			return true
		})
		if retry == nil {
			return "", fmt.Errorf("%s: anchor: the halve-and-retry branch of loadRegions not found", rs.Path)
		}
		o.strList("src_loadRegions_retry", retry, "what loadRegions does when LoadRange fails")
	}
	if err := o.skeleton(st, "Storage", "loadFloatWithDefaultValue", "skel_loadFloatWithDefaultValue", lopt); err != nil {
		return "", err
	}
	// small functions: the full statement text is the tie
	for _, fn := range []struct {
		f          *goast.File
		recv, name string
	}{
		{rs, "RegionStorage", "SaveRegion"}, {rs, "RegionStorage", "flush"}, {rs, "RegionStorage", "FlushRegion"}, {rs, "RegionStorage", "Close"},
		{rs, "", "deleteRegion"},
		{st, "Storage", "SaveRegion"}, {st, "Storage", "DeleteRegion"}, {st, "Storage", "LoadRegions"}, {st, "Storage", "LoadRegionsOnce"},
		{st, "Storage", "Flush"}, {st, "Storage", "Close"}, {st, "Storage", "SaveStore"}, {st, "Storage", "DeleteStore"}, {st, "Storage", "SaveStoreWeight"},
	} {
		fd, err := fn.f.Func(fn.recv, fn.name)
		if err != nil {
			return "", err
		}
		name := "src_" + fn.name
		if fn.recv == "RegionStorage" {
			name = "src_rs_" + fn.name
		}
		o.strList(name, stmtTexts(fn.f, fd), fmt.Sprintf("statements of (%s).%s in %s", fn.recv, fn.name, fn.f.Path))
	}
	// which callback the two callers of LoadRegionsOnce pass (the load deletes whatever that callback returns)
	for _, cs := range []struct{ file, recv, fn, coq string }{
		{"server/cluster/cluster.go", "RaftCluster", "LoadClusterInfo", "src_LoadClusterInfo_load_callback"},
		{"server/region_syncer/client.go", "RegionSyncer", "StartSyncWithLeader", "src_StartSyncWithLeader_load_callback"}} {
		f, err := goast.Load(repo, cs.file)
		if err != nil {
			return "", err
		}
		fd, err := f.Func(cs.recv, cs.fn)
		if err != nil {
			return "", err
		}
		nzNormalize(fd)
		var args []string
		ast.Inspect(fd.Body, func(n ast.Node) bool {
			if c, ok := n.(*ast.CallExpr); ok {
				if sel, ok := c.Fun.(*ast.SelectorExpr); ok && sel.Sel.Name == "LoadRegionsOnce" && len(c.Args) == 1 {
					args = append(args, f.Src(c.Args[0]))
				}
			}
			return true
		})
		if len(args) != 1 {
			return "", fmt.Errorf("%s: anchor: exactly one LoadRegionsOnce call expected in %s (found %d)", cs.file, cs.fn, len(args))
		}
		o.strList(cs.coq, args, "the argument of LoadRegionsOnce in "+cs.fn)
	}
	// the callback itself: what put_loaded / rw_loaded mirror (stale record of a cached id is refreshed, ids ahead of the
	// loaded record are not reported)
	{
		f, err := goast.Load(repo, "server/core/basic_cluster.go")
		if err != nil {
			return "", err
		}
		fd, err := f.Func("BasicCluster", "CheckAndPutLoadedRegion")
		if err != nil {
			return "", err
		}
		nzNormalize(fd)
		o.strList("src_CheckAndPutLoadedRegion", stmtTexts(f, fd), "statements of (BasicCluster).CheckAndPutLoadedRegion")
	}
	// the end-exclusive range scans of the three backends (what LoadRange promises)
	for _, b := range []struct{ file, recv, coq string }{{"server/kv/mem_kv.go", "memoryKV", "src_mem_LoadRange"},
		{"server/kv/etcd_kv.go", "etcdKVBase", "src_etcd_LoadRange"}, {"server/kv/levedb_kv.go", "LeveldbKV", "src_leveldb_LoadRange"}} {
		f, err := goast.Load(repo, b.file)
		if err != nil {
			return "", err
		}
		fd, err := f.Func(b.recv, "LoadRange")
		if err != nil {
			return "", err
		}
		nzNormalize(fd)
		o.strList(b.coq, stmtTexts(f, fd), "statements of ("+b.recv+").LoadRange")
	}
	return o.sb.String(), nil
}
