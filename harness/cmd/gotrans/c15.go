package main

import (
	"fmt"
	"go/ast"
	"go/token"
	"strconv"

	"pdverif/internal/goast"
)

func init() { gens["C15"] = genC15 }

// stringConst15 finds a package-level string constant (own helper: goast.ConstZ is integers only).
func stringConst15(f *goast.File, name string) (string, error) {
	for _, d := range f.AST.Decls {
		gd, ok := d.(*ast.GenDecl)
		if !ok || gd.Tok != token.CONST {
			continue
		}
		for _, s := range gd.Specs {
			vs := s.(*ast.ValueSpec)
			for i, n := range vs.Names {
				if n.Name == name && i < len(vs.Values) {
					if bl, ok := vs.Values[i].(*ast.BasicLit); ok && bl.Kind == token.STRING {
						return strconv.Unquote(bl.Value)
					}
				}
			}
		}
	}
	return "", fmt.Errorf("%s: string constant %s not found", f.Path, name)
}

func genC15(repo string) (string, error) {
	var o out
	st, err := goast.Load(repo, "server/core/storage.go")
	if err != nil {
		return "", err
	}
	for _, c := range [][2]string{{"gcWorkerServiceSafePointID", "gc_worker_id"}, {"gcPath", "gc_path"}} {
		v, err := stringConst15(st, c[0])
		if err != nil {
			return "", err
		}
		fmt.Fprintf(&o.sb, "Definition %s : string := %s.  (* %s: %s *)\n", c[1], goast.Q(v), st.Path, c[0])
	}
	sopt := goast.SkelOpt{
		Calls: set("Load", "LoadRange", "Save", "Remove", "SaveServiceGCSafePoint", "initServiceGCSafePointForGCWorker",
			"ParseUint", "FormatUint", "Unmarshal", "Marshal", "Join", "checkServiceID", "Contains"),
		Assigns: set("hasGCWorker", "min", "ExpiredAt", "key"), Conds: true}
	for _, fn := range []string{"SaveGCSafePoint", "LoadGCSafePoint", "SaveServiceGCSafePoint", "RemoveServiceGCSafePoint",
		"initServiceGCSafePointForGCWorker", "LoadMinServiceGCSafePoint"} {
		if err := o.skeleton(st, "Storage", fn, "skel_"+fn, sopt); err != nil {
			return "", err
		}
	}
	// the id check added by "fix: reject service ids that are not a single path element ..."
	if err := o.skeleton(st, "", "checkServiceID", "skel_checkServiceID", sopt); err != nil {
		return "", err
	}
	g, err := goast.Load(repo, "server/grpc_service.go")
	if err != nil {
		return "", err
	}
	gopt := goast.SkelOpt{
		Calls: set("validateRequest", "GetRaftCluster", "LoadGCSafePoint", "SaveGCSafePoint", "RemoveServiceGCSafePoint",
			"HandleTSORequest", "LoadMinServiceGCSafePoint", "SaveServiceGCSafePoint"),
		Assigns: set("newSafePoint", "ExpiredAt", "min", "ssp"), Conds: true}
	for _, fn := range []string{"GetGCSafePoint", "UpdateGCSafePoint", "UpdateServiceGCSafePoint"} {
		if err := o.skeleton(g, "Server", fn, "skel_"+fn, gopt); err != nil {
			return "", err
		}
	}
	// the REST handler that removes a service safe point (no server lock): which storage call it makes
	api, err := goast.Load(repo, "server/api/service_gc_safepoint.go")
	if err != nil {
		return "", err
	}
	aopt := goast.SkelOpt{Calls: set("RemoveServiceGCSafePoint", "LoadGCSafePoint", "GetAllServiceGCSafePoints", "SaveServiceGCSafePoint", "SaveGCSafePoint")}
	for _, fn := range []string{"List", "Delete"} {
		if err := o.skeleton(api, "serviceGCSafepointHandler", fn, "skel_api_"+fn, aopt); err != nil {
			return "", err
		}
	}
	// every writer of the cluster GC safe point key and of service safe points in the server tree
	for _, w := range []struct{ name, coq string }{{"SaveGCSafePoint", "save_gc_sites"}, {"SaveServiceGCSafePoint", "save_service_sites"},
		{"RemoveServiceGCSafePoint", "remove_service_sites"}} {
		sites, err := goast.CallSites(repo, []string{"server"}, w.name, nil)
		if err != nil {
			return "", err
		}
		o.strList(w.coq, sites, "callers of "+w.name)
	}
	return o.sb.String(), nil
}
