package main

import (
	"fmt"
	"go/ast"
	"go/token"
	"regexp"
	"sort"
	"strconv"

	"pdverif/internal/goast"
)

func init() { gens["C15"] = genC15 }

// stringConst15 finds a package-level string constant (own helper: goast.ConstZ is integers only).
func stringConst15(f *goast.File, name string) (string, error) {
	for _, d := range f.AST.Decls {
		gd, ok := d.(*ast.GenDecl)
		if !ok || gd.Tok != token.CONST {
			continue
		}
		for _, s := range gd.Specs {
			vs := s.(*ast.ValueSpec)
			for i, n := range vs.Names {
				if n.Name == name && i < len(vs.Values) {
					if bl, ok := vs.Values[i].(*ast.BasicLit); ok && bl.Kind == token.STRING {
						return strconv.Unquote(bl.Value)
					}
				}
			}
		}
	}
	return "", fmt.Errorf("%s: string constant %s not found", f.Path, name)
}

// canonLocals makes a skeleton independent of the NAMES of the function's local variables, parameters and receiver:
// every such name is replaced (as a whole word) by v0, v1, ... in the order of declaration. Renaming a local is a
// harmless edit and must not break an obligation; what a condition compares is still visible through the field and
// function names, which are kept. (Used by the C15 and C20 translators.)
func canonLocals(fd *ast.FuncDecl, text string) string {
	type decl struct {
		pos  token.Pos
		name string
	}
	seen := map[*ast.Object]bool{}
	var decls []decl
	ast.Inspect(fd, func(n ast.Node) bool {
		id, ok := n.(*ast.Ident)
		if !ok || id.Obj == nil || id.Obj.Kind != ast.Var || seen[id.Obj] || id.Name == "_" {
			return true
		}
		if p := id.Obj.Pos(); p >= fd.Pos() && p <= fd.End() {
			seen[id.Obj] = true
			decls = append(decls, decl{p, id.Name})
		}
		return true
	})
	sort.Slice(decls, func(i, j int) bool { return decls[i].pos < decls[j].pos })
	num := map[string]int{}
	for _, d := range decls {
		if _, ok := num[d.name]; !ok {
			num[d.name] = len(num)
		}
	}
	if len(num) == 0 {
		return text
	}
	re := regexp.MustCompile(`[A-Za-z_][A-Za-z0-9_]*`)
	inStr := false // only rewrite inside the Coq string literals of the skeleton (source text), not the constructor names
	var out []byte
	for i := 0; i < len(text); {
		if text[i] == '"' {
			inStr = !inStr
			out = append(out, text[i])
			i++
			continue
		}
		if loc := re.FindStringIndex(text[i:]); inStr && loc != nil && loc[0] == 0 {
			w := text[i : i+loc[1]]
			// a selector's field (preceded by '.') is not a local
			if k, ok := num[w]; ok && !(i > 0 && text[i-1] == '.') {
				out = append(out, []byte(fmt.Sprintf("v%d", k))...)
			} else {
				out = append(out, w...)
			}
			i += loc[1]
			continue
		}
		out = append(out, text[i])
		i++
	}
	return string(out)
}

// stateLocals: the local variables of fd that carry state across control flow - those assigned (or inc/decremented)
// inside a nested block. Selecting assignment events by this criterion instead of by name keeps the selection stable
// under a renaming.
func stateLocals(fd *ast.FuncDecl) map[string]bool {
	out := map[string]bool{}
	var walk func(n ast.Node, depth int)
	note := func(e ast.Expr, depth int) {
		if id, ok := e.(*ast.Ident); ok && depth > 0 && id.Obj != nil && id.Obj.Kind == ast.Var && id.Name != "_" {
			out[id.Name] = true
		}
	}
	walk = func(n ast.Node, depth int) {
		ast.Inspect(n, func(x ast.Node) bool {
			switch y := x.(type) {
			case *ast.BlockStmt:
				if x != n {
					walk(y, depth+1)
					return false
				}
			case *ast.CaseClause:
				for _, st := range y.Body {
					walk(st, depth+1)
				}
				return false
			case *ast.FuncLit:
				walk(y.Body, depth+1)
				return false
			case *ast.AssignStmt:
				for _, l := range y.Lhs {
					note(l, depth)
				}
			case *ast.IncDecStmt:
				note(y.X, depth)
			}
			return true
		})
	}
	walk(fd.Body, 0)
	return out
}

// skeletonCanon is out.skeleton with the assignment events of the state-carrying locals and canonLocals applied
func (o *out) skeletonCanon(f *goast.File, recv, name, coqName string, opt goast.SkelOpt) error {
	fd, err := f.Func(recv, name)
	if err != nil {
		return err
	}
	as := map[string]bool{}
	for k := range opt.Assigns {
		as[k] = true
	}
	for k := range stateLocals(fd) {
		as[k] = true
	}
	opt.Assigns = as
	fmt.Fprintf(&o.sb, "Definition %s : list ev := (* %s: (%s).%s, local names canonicalised *)\n  %s.\n", coqName, f.Path, recv, name, canonLocals(fd, f.Skeleton(fd, opt)))
	return nil
}

// skeletonCalls: calls, locks and conditions only (no assignment events), local names canonicalised: for the long
// streaming handlers, where only the position of the validation inside the receive loop matters
func (o *out) skeletonCalls(f *goast.File, recv, name, coqName string, opt goast.SkelOpt) error {
	fd, err := f.Func(recv, name)
	if err != nil {
		return err
	}
	opt.Assigns = nil
	fmt.Fprintf(&o.sb, "Definition %s : list ev := (* %s: (%s).%s, calls and conditions, local names canonicalised *)\n  %s.\n", coqName, f.Path, recv, name, canonLocals(fd, f.Skeleton(fd, opt)))
	return nil
}

func genC15(repo string) (string, error) {
	var o out
	st, err := goast.Load(repo, "server/core/storage.go")
	if err != nil {
		return "", err
	}
	for _, c := range [][2]string{{"gcWorkerServiceSafePointID", "gc_worker_id"}, {"gcPath", "gc_path"}} {
		v, err := stringConst15(st, c[0])
		if err != nil {
			return "", err
		}
		fmt.Fprintf(&o.sb, "Definition %s : string := %s.  (* %s: %s *)\n", c[1], goast.Q(v), st.Path, c[0])
	}
	sopt := goast.SkelOpt{
		Calls: set("Load", "LoadRange", "Save", "Remove", "SaveServiceGCSafePoint", "initServiceGCSafePointForGCWorker",
			"ParseUint", "FormatUint", "Unmarshal", "Marshal", "Join", "checkServiceID", "Contains"),
		Assigns: set("ExpiredAt"), Conds: true}
	for _, fn := range []string{"SaveGCSafePoint", "LoadGCSafePoint", "SaveServiceGCSafePoint", "RemoveServiceGCSafePoint",
		"initServiceGCSafePointForGCWorker", "LoadMinServiceGCSafePoint"} {
		if err := o.skeletonCanon(st, "Storage", fn, "skel_"+fn, sopt); err != nil {
			return "", err
		}
	}
	// the id check added by "fix: reject service ids that are not a single path element ..."
	if err := o.skeletonCanon(st, "", "checkServiceID", "skel_checkServiceID", sopt); err != nil {
		return "", err
	}
	g, err := goast.Load(repo, "server/grpc_service.go")
	if err != nil {
		return "", err
	}
	gopt := goast.SkelOpt{
		Calls: set("validateRequest", "GetRaftCluster", "LoadGCSafePoint", "SaveGCSafePoint", "saveGCSafePointAsLeader", "RemoveServiceGCSafePoint",
			"HandleTSORequest", "LoadMinServiceGCSafePoint", "SaveServiceGCSafePoint"),
		Assigns: set("ExpiredAt"), Conds: true}
	for _, fn := range []string{"GetGCSafePoint", "UpdateGCSafePoint", "UpdateServiceGCSafePoint"} {
		if err := o.skeletonCanon(g, "Server", fn, "skel_"+fn, gopt); err != nil {
			return "", err
		}
	}
	// the write of the cluster safe point ("fix: save the cluster GC safe point only as leader and only over the value it was
	// compared with"): its transaction and what the transaction compares
	srv, err := goast.Load(repo, "server/server.go")
	if err != nil {
		return "", err
	}
	wopt := goast.SkelOpt{Calls: set("LeaderTxn", "Compare", "OpPut", "Then", "Commit", "GetLeadership"), Conds: true}
	if err := o.skeletonCanon(srv, "Server", "saveGCSafePointAsLeader", "skel_saveGCSafePointAsLeader", wopt); err != nil {
		return "", err
	}
	sfd, err := srv.Func("Server", "saveGCSafePointAsLeader")
	if err != nil {
		return "", err
	}
	{
		var t out
		t.strList("gc_save_cmps", srv.Compares(sfd), "clientv3.Compare calls of saveGCSafePointAsLeader (the leader key comparison is added by Leadership.LeaderTxn)")
		o.sb.WriteString(canonLocals(sfd, t.sb.String()))
	}
	// the REST handler that removes a service safe point (no server lock): which storage call it makes
	api, err := goast.Load(repo, "server/api/service_gc_safepoint.go")
	if err != nil {
		return "", err
	}
	aopt := goast.SkelOpt{Calls: set("RemoveServiceGCSafePoint", "LoadGCSafePoint", "GetAllServiceGCSafePoints", "SaveServiceGCSafePoint", "SaveGCSafePoint")}
	for _, fn := range []string{"List", "Delete"} {
		if err := o.skeletonCanon(api, "serviceGCSafepointHandler", fn, "skel_api_"+fn, aopt); err != nil {
			return "", err
		}
	}
	// every writer of the cluster GC safe point key and of service safe points in the server tree
	for _, w := range []struct{ name, coq string }{{"SaveGCSafePoint", "save_gc_sites"}, {"SaveServiceGCSafePoint", "save_service_sites"},
		{"RemoveServiceGCSafePoint", "remove_service_sites"}} {
		sites, err := goast.CallSites(repo, []string{"server"}, w.name, nil)
		if err != nil {
			return "", err
		}
		o.strList(w.coq, sites, "callers of "+w.name)
	}
	// the kv.Base the service safe points are written through: the model's "a write that was not committed is an error"
	// (outcomes ErrNotApplied / ErrApplied of a Save / Remove) is this code: ONE transaction, its error and a not-succeeded
	// answer both returned as errors - no retry whose last error could get lost
	ekv, err := goast.Load(repo, "server/kv/etcd_kv.go")
	if err != nil {
		return "", err
	}
	kopt := goast.SkelOpt{Calls: set("NewSlowLogTxn", "Then", "Commit", "OpPut", "OpDelete", "Sleep"), Conds: true}
	for _, fn := range []string{"Save", "Remove"} {
		if err := o.skeletonCanon(ekv, "etcdKVBase", fn, "skel_etcdkv_"+fn, kopt); err != nil {
			return "", err
		}
	}
	return o.sb.String(), nil
}
