package main

import (
	"fmt"

	"pdverif/internal/c10ast"
	"pdverif/internal/goast"
)

func init() { gens["C11"] = genC11 }

func c11FlagsOf(o *out, repo, rel, recv, fn string, names ...string) error {
	f, err := c10Load(repo, rel)
	if err != nil {
		return err
	}
	fd, err := f.Func(recv, fn)
	if err != nil {
		return err
	}
	return c10Flags(o, f, fd, names...)
}

func genC11(repo string) (string, error) {
	var o out
	if err := c10FilterTables(repo, &o); err != nil {
		return "", err
	}
	// ---- region_scatterer.go ----
	sc, err := c10Load(repo, "server/schedule/region_scatterer.go")
	if err != nil {
		return "", err
	}
	ec, err := sc.Func("", "newEngineContext")
	if err != nil {
		return "", err
	}
	if err := c10Flags(&o, sc, ec, "scatter_flags"); err != nil {
		return "", err
	}
	cand, err := sc.Func("RegionScatterer", "selectCandidates")
	if err != nil {
		return "", err
	}
	el, err := c10ast.FirstCompositeOf(sc, cand, "[]filter.Filter")
	if err != nil {
		return "", err
	}
	o.strList("scatter_candidate_filters", el, "selectCandidates: the first filter list (context filters and the placement safeguard are appended)")
	opt := goast.SkelOpt{Calls: set("selectCandidates", "selectStore", "selectAvailableLeaderStores", "CreateScatterRegionOperator", "Put", "NewExcludedFilter",
		"NewPlacementSafeguard", "TotalCountByStore", "Target", "Get", "scatterWithSameEngine", "newEngineContext", "NewEngineFilter", "NewOrdinaryEngineFilter"),
		Assigns: set("targetPeers", "selectedStores"), Conds: true}
	for _, fn := range []string{"scatterRegion", "selectCandidates", "selectStore", "selectAvailableLeaderStores", "Put"} {
		if err := o.skeleton(sc, "RegionScatterer", fn, "skel_"+fn, opt); err != nil {
			return "", err
		}
	}
	for _, fn := range []string{"selectStore", "selectCandidates", "selectAvailableLeaderStores"} {
		fd, _ := sc.Func("RegionScatterer", fn)
		fmt.Fprintf(&o.sb, "Definition src_%s : string := (* region_scatterer.go *)\n  %s.\n", fn, goast.Q(sc.Src(fd.Body)))
	}
	co, err := c10Load(repo, "server/schedule/operator/create_operator.go")
	if err != nil {
		return "", err
	}
	for _, fn := range []string{"CreateScatterRegionOperator", "CreateMovePeerOperator", "CreateTransferLeaderOperator", "CreateForceTransferLeaderOperator"} {
		fd, err := co.Func("", fn)
		if err != nil {
			return "", err
		}
		ch, err := c10ast.ReturnChain(co, fd)
		if err != nil {
			return "", err
		}
		o.strList("chain_"+fn, ch, "create_operator.go: "+fn)
	}
	// ---- schedulers: the StoreStateFilter literals and the target filter list of balance-region ----
	if err := c11FlagsOf(&o, repo, "server/schedulers/balance_region.go", "", "newBalanceRegionScheduler", "balance_region_source_flags"); err != nil {
		return "", err
	}
	br, err := c10Load(repo, "server/schedulers/balance_region.go")
	if err != nil {
		return "", err
	}
	tp, err := br.Func("balanceRegionScheduler", "transferPeer")
	if err != nil {
		return "", err
	}
	if err := c10Flags(&o, br, tp, "balance_region_target_flags"); err != nil {
		return "", err
	}
	el, err = c10ast.FirstCompositeOf(br, tp, "[]filter.Filter")
	if err != nil {
		return "", err
	}
	o.strList("balance_region_filters", el, "balance-region transferPeer: target filters")
	np, err := c10ast.FirstCompositeSrc(br, tp, "metapb.Peer")
	if err != nil {
		return "", err
	}
	fmt.Fprintf(&o.sb, "Definition balance_region_new_peer : string := (* transferPeer: the replacement keeps the role of the old peer *)\n  %s.\n", goast.Q(np))
	if err := o.skeleton(br, "balanceRegionScheduler", "transferPeer", "skel_transferPeer",
		goast.SkelOpt{Calls: set("NewCandidates", "FilterTarget", "Sort", "shouldBalance", "CreateMovePeerOperator", "GetStorePeer"), Conds: true}); err != nil {
		return "", err
	}
	for _, it := range [][4]string{
		{"server/schedulers/balance_leader.go", "", "newBalanceLeaderScheduler", "balance_leader_flags"},
		{"server/schedulers/shuffle_region.go", "", "newShuffleRegionScheduler", "shuffle_region_flags"},
		{"server/schedulers/shuffle_leader.go", "", "newShuffleLeaderScheduler", "shuffle_leader_flags"},
		{"server/schedulers/evict_leader.go", "evictLeaderScheduler", "scheduleOnce", "evict_leader_flags"},
		{"server/schedulers/label.go", "labelScheduler", "Schedule", "label_flags"},
	} {
		if err := c11FlagsOf(&o, repo, it[0], it[1], it[2], it[3]); err != nil {
			return "", err
		}
	}
	// hot-region: the two StoreStateFilter literals of filterDstStores (move peer, transfer leader) and their filter lists
	hr, err := c10Load(repo, "server/schedulers/hot_region.go")
	if err != nil {
		return "", err
	}
	fds, err := hr.Func("balanceSolver", "filterDstStores")
	if err != nil {
		return "", err
	}
	if err := c10Flags(&o, hr, fds, "hot_move_flags", "hot_leader_flags"); err != nil {
		return "", err
	}
	fmt.Fprintf(&o.sb, "Definition src_hot_filterDstStores : string := (* hot_region.go *)\n  %s.\n", goast.Q(hr.Src(fds.Body)))
	pds, err := hr.Func("balanceSolver", "pickDstStores")
	if err != nil {
		return "", err
	}
	fmt.Fprintf(&o.sb, "Definition src_hot_pickDstStores : string := (* hot_region.go *)\n  %s.\n", goast.Q(hr.Src(pds.Body)))
	ff, err := c10Load(repo, "server/schedule/filter/filters.go")
	if err != nil {
		return "", err
	}
	ft, err := ff.Func("", "Target")
	if err != nil {
		return "", err
	}
	fmt.Fprintf(&o.sb, "Definition src_filter_Target : string := (* filters.go: a store is a target only if ALL filters accept it *)\n  %s.\n", goast.Q(ff.Src(ft.Body)))
	sts, err := ff.Func("", "SelectTargetStores")
	if err != nil {
		return "", err
	}
	fmt.Fprintf(&o.sb, "Definition src_SelectTargetStores : string :=\n  %s.\n", goast.Q(ff.Src(sts.Body)))
	// shuffle-hot-region: randomSchedule
	sh, err := c10Load(repo, "server/schedulers/shuffle_hot_region.go")
	if err != nil {
		return "", err
	}
	rsf, err := sh.Func("shuffleHotRegionScheduler", "randomSchedule")
	if err != nil {
		return "", err
	}
	if err := c10Flags(&o, sh, rsf, "shuffle_hot_flags"); err != nil {
		return "", err
	}
	el, err = c10ast.FirstCompositeOf(sh, rsf, "[]filter.Filter")
	if err != nil {
		return "", err
	}
	o.strList("shuffle_hot_filters", el, "shuffle-hot-region randomSchedule: target filters")
	mv, err := co.Func("", "CreateMoveLeaderOperator")
	if err != nil {
		return "", err
	}
	ch, err := c10ast.ReturnChain(co, mv)
	if err != nil {
		return "", err
	}
	o.strList("chain_CreateMoveLeaderOperator", ch, "create_operator.go: CreateMoveLeaderOperator")
	// grant-leader: the forced transfer
	gl, err := c10Load(repo, "server/schedulers/grant_leader.go")
	if err != nil {
		return "", err
	}
	if err := o.skeleton(gl, "grantLeaderScheduler", "Schedule", "skel_grant_Schedule",
		goast.SkelOpt{Calls: set("RandFollowerRegion", "CreateForceTransferLeaderOperator", "CreateTransferLeaderOperator"), Conds: true}); err != nil {
		return "", err
	}
	// scatter-range delegates to a balance-leader and a balance-region scheduler
	sr2, err := c10Load(repo, "server/schedulers/scatter_range.go")
	if err != nil {
		return "", err
	}
	if err := o.skeleton(sr2, "scatterRangeScheduler", "Schedule", "skel_scatter_range_Schedule",
		goast.SkelOpt{Calls: set("Schedule", "IsScheduleAllowed", "allowBalanceLeader", "allowBalanceRegion", "SetDesc"), Conds: true}); err != nil {
		return "", err
	}
	// shuffle-region: how the new peer is chosen
	sr, err := c10Load(repo, "server/schedulers/shuffle_region.go")
	if err != nil {
		return "", err
	}
	ap, err := sr.Func("shuffleRegionScheduler", "scheduleAddPeer")
	if err != nil {
		return "", err
	}
	fmt.Fprintf(&o.sb, "Definition src_shuffle_scheduleAddPeer : string := (* shuffle_region.go *)\n  %s.\n", goast.Q(sr.Src(ap.Body)))
	bl, err := c10Load(repo, "server/schedulers/balance_leader.go")
	if err != nil {
		return "", err
	}
	for _, fn := range []string{"transferLeaderOut", "transferLeaderIn"} {
		if err := o.skeleton(bl, "balanceLeaderScheduler", fn, "skel_"+fn,
			goast.SkelOpt{Calls: set("RandLeaderRegion", "RandFollowerRegion", "GetFollowerStores", "NewPlacementLeaderSafeguard", "SelectTargetStores", "NewCandidates",
				"FilterTarget", "PickFirst", "createOperator", "GetStore"), Conds: true}); err != nil {
			return "", err
		}
	}
	return o.sb.String(), nil
}
