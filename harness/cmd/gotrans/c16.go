package main

import (
	"fmt"
	"go/ast"
	"go/token"

	"pdverif/internal/goast"
)

func init() { gens["C16"] = genC16 }

// accumulators of a batching loop: which slices are appended to inside the loop body and which of them
// are truncated (`x = x[:0]`) inside the same body. The model's batch loop is parameterised by the
// second list (DESIGN.md Appendix A, region_syncer/server.go).
func loopAccumulators(f *goast.File, body *ast.BlockStmt) (appended, truncated []string) {
	seenA, seenT := map[string]bool{}, map[string]bool{}
	ast.Inspect(body, func(n ast.Node) bool {
		as, ok := n.(*ast.AssignStmt)
		if !ok || len(as.Lhs) != 1 || len(as.Rhs) != 1 || as.Tok != token.ASSIGN {
			return true
		}
		id, ok := as.Lhs[0].(*ast.Ident)
		if !ok {
			return true
		}
		switch r := as.Rhs[0].(type) {
		case *ast.CallExpr:
			if fn, ok := r.Fun.(*ast.Ident); ok && fn.Name == "append" && len(r.Args) >= 1 {
				if a0, ok := r.Args[0].(*ast.Ident); ok && a0.Name == id.Name && !seenA[id.Name] {
					seenA[id.Name] = true
					appended = append(appended, id.Name)
				}
			}
		case *ast.SliceExpr:
			x, ok := r.X.(*ast.Ident)
			if !ok || x.Name != id.Name || r.Low != nil || r.High == nil {
				return true
			}
			if lit, ok := r.High.(*ast.BasicLit); ok && lit.Value == "0" && !seenT[id.Name] {
				seenT[id.Name] = true
				truncated = append(truncated, id.Name)
			}
		}
		return true
	})
	return
}

// the first range loop whose body builds a pdpb.SyncRegionResponse
func rangeLoopWithResponse(f *goast.File, fd *ast.FuncDecl) *ast.RangeStmt {
	var found *ast.RangeStmt
	ast.Inspect(fd.Body, func(n ast.Node) bool {
		if found != nil {
			return false
		}
		rs, ok := n.(*ast.RangeStmt)
		if !ok {
			return true
		}
		has := false
		ast.Inspect(rs.Body, func(m ast.Node) bool {
			if cl, ok := m.(*ast.CompositeLit); ok && f.Src(cl.Type) == "pdpb.SyncRegionResponse" {
				has = true
			}
			return !has
		})
		if has {
			found = rs
			return false
		}
		return true
	})
	return found
}

// the first `for … range <name>` statement of a function body
func rangeLoopOver(fd *ast.FuncDecl, name string) *ast.RangeStmt {
	var found *ast.RangeStmt
	ast.Inspect(fd.Body, func(n ast.Node) bool {
		if found != nil {
			return false
		}
		if rs, ok := n.(*ast.RangeStmt); ok {
			if id, ok := rs.X.(*ast.Ident); ok && id.Name == name {
				found = rs
				return false
			}
		}
		return true
	})
	return found
}

func genC16(repo string) (string, error) {
	var o out
	hb, err := goast.Load(repo, "server/region_syncer/history_buffer.go")
	if err != nil {
		return "", err
	}
	srv, err := goast.Load(repo, "server/region_syncer/server.go")
	if err != nil {
		return "", err
	}
	cli, err := goast.Load(repo, "server/region_syncer/client.go")
	if err != nil {
		return "", err
	}
	// log / metric statements dropped, locals alpha-renamed (normalize.go): such edits must not change the output
	for _, f := range []*goast.File{hb, srv, cli} {
		for _, d := range f.AST.Decls {
			if fd, ok := d.(*ast.FuncDecl); ok && fd.Body != nil {
				nzNormalize(fd)
			}
		}
	}
	if err := o.constZ(hb, "defaultFlushCount", "defaultFlushCount"); err != nil {
		return "", err
	}
	for _, c := range []string{"maxSyncRegionBatchSize", "defaultHistoryBufferSize", "msgSize"} {
		if err := o.constZ(srv, c, c); err != nil {
			return "", err
		}
	}
	// ---- history buffer: every write of head/tail/index/flushCount/size/pos with its source text ----
	hopt := goast.SkelOpt{
		Calls:   set("persist", "reload", "Load", "Save", "distanceToTail", "nextIndex", "firstIndex", "len", "ParseUint", "FormatUint"),
		Assigns: nzAllLocals("head", "tail", "index", "flushCount", "size", "records"),
		Conds:   true,
	}
	for _, fn := range []string{"Record", "RecordsFrom", "ResetWithIndex", "GetNextIndex", "reload", "persist", "distanceToTail", "firstIndex", "nextIndex", "len"} {
		if err := o.skeleton(hb, "historyBuffer", fn, "skel_hb_"+fn, hopt); err != nil {
			return "", err
		}
	}
	if err := o.skeleton(hb, "", "newHistoryBuffer", "skel_newHistoryBuffer", hopt); err != nil {
		return "", err
	}
	// the return expressions of the two pure helpers, as source text
	for _, fn := range []string{"distanceToTail", "firstIndex"} {
		fd, err := hb.Func("historyBuffer", fn)
		if err != nil {
			return "", err
		}
		var rets []string
		ast.Inspect(fd.Body, func(n ast.Node) bool {
			if r, ok := n.(*ast.ReturnStmt); ok && len(r.Results) == 1 {
				rets = append(rets, hb.Src(r.Results[0]))
			}
			return true
		})
		o.strList("ret_hb_"+fn, rets, "return expressions of (historyBuffer)."+fn+", source order")
	}
	// the loop header of RecordsFrom
	{
		fd, err := hb.Func("historyBuffer", "RecordsFrom")
		if err != nil {
			return "", err
		}
		var hdr []string
		ast.Inspect(fd.Body, func(n ast.Node) bool {
			if fs, ok := n.(*ast.ForStmt); ok && fs.Init != nil && fs.Cond != nil && fs.Post != nil {
				hdr = append(hdr, hb.Src(fs.Init), hb.Src(fs.Cond), hb.Src(fs.Post))
				for _, st := range fs.Body.List {
					hdr = append(hdr, hb.Src(st))
				}
			}
			return true
		})
		if len(hdr) == 0 {
			return "", fmt.Errorf("%s: anchor: copy loop of RecordsFrom not found", hb.Path)
		}
		o.strList("records_from_loop", hdr, "init; cond; post; body of the copy loop in RecordsFrom")
	}

	// ---- server side ----
	sopt := goast.SkelOpt{
		Calls:   set("RecordsFrom", "GetNextIndex", "GetRegions", "Send", "Record", "broadcast", "syncHistoryRegion", "bindStream"),
		Assigns: nzAllLocals(),
		Conds:   true,
	}
	for _, fn := range []string{"syncHistoryRegion", "RunServer", "Sync"} {
		if err := o.skeleton(srv, "RegionSyncer", fn, "skel_"+fn, sopt); err != nil {
			return "", err
		}
	}
	fd, err := srv.Func("RegionSyncer", "syncHistoryRegion")
	if err != nil {
		return "", err
	}
	loop := rangeLoopWithResponse(srv, fd)
	if loop == nil {
		return "", fmt.Errorf("%s: anchor: the range loop that builds SyncRegionResponse batches (full synchronisation) not found in syncHistoryRegion", srv.Path)
	}
	app, trunc := loopAccumulators(srv, loop.Body)
	// accumulators are named after the response field they feed, so that renaming a local changes nothing
	fieldOf := map[string]string{}
	ast.Inspect(loop.Body, func(n ast.Node) bool {
		cl, ok := n.(*ast.CompositeLit)
		if !ok || srv.Src(cl.Type) != "pdpb.SyncRegionResponse" {
			return true
		}
		for _, e := range cl.Elts {
			if kv, ok := e.(*ast.KeyValueExpr); ok {
				if id, ok := kv.Value.(*ast.Ident); ok {
					fieldOf[id.Name] = srv.Src(kv.Key)
				}
			}
		}
		return false
	})
	byField := func(xs []string) []string {
		out := make([]string, len(xs))
		for i, x := range xs {
			if f, ok := fieldOf[x]; ok {
				out[i] = f
			} else {
				out[i] = x
			}
		}
		return out
	}
	o.strList("full_sync_appended", byField(app), "response fields whose slices are appended to in the full-sync loop of syncHistoryRegion")
	o.strList("full_sync_truncated", byField(trunc), "of those, the ones whose slice is reset with x = x[:0] after a batch was sent")
	// which accumulator feeds which field of the response built inside the loop
	var fields []string
	ast.Inspect(loop.Body, func(n ast.Node) bool {
		cl, ok := n.(*ast.CompositeLit)
		if !ok {
			return true
		}
		if srv.Src(cl.Type) != "pdpb.SyncRegionResponse" {
			return true
		}
		for _, e := range cl.Elts {
			if kv, ok := e.(*ast.KeyValueExpr); ok {
				k := srv.Src(kv.Key)
				if k != "Header" {
					fields = append(fields, k+" = "+srv.Src(kv.Value))
				}
			}
		}
		return false
	})
	if len(fields) == 0 {
		return "", fmt.Errorf("%s: anchor: SyncRegionResponse literal of the full-sync loop not found", srv.Path)
	}
	o.strList("full_sync_fields", fields, "fields of the batch response, source order")
	// the condition under which the loop keeps accumulating instead of sending
	var conts []string
	ast.Inspect(loop.Body, func(n ast.Node) bool {
		is, ok := n.(*ast.IfStmt)
		if !ok || len(is.Body.List) != 1 {
			return true
		}
		if br, ok := is.Body.List[0].(*ast.BranchStmt); ok && br.Tok == token.CONTINUE {
			conts = append(conts, srv.Src(is.Cond))
		}
		return true
	})
	if len(conts) == 0 {
		return "", fmt.Errorf("%s: anchor: `if … { continue }` of the full-sync loop not found", srv.Path)
	}
	o.strList("full_sync_continue_cond", conts, "keep accumulating while this holds")
	o.strList("full_sync_range", []string{srv.Src(loop.Key), srv.Src(loop.Value), srv.Src(loop.X)}, "for <key>, <value> := range <x>")

	// ---- client side: how the follower pairs the three arrays ----
	copt := goast.SkelOpt{
		Calls:   set("GetNextIndex", "ResetWithIndex", "GetStartIndex", "GetRegionStats", "GetRegions", "GetRegionLeaders", "NewRegionInfo", "CheckAndPutRegion", "SaveRegion", "Record", "LoadRegionsOnce", "Recv"),
		Assigns: nzAllLocals(),
		Conds:   true,
	}
	if err := o.skeleton(cli, "RegionSyncer", "StartSyncWithLeader", "skel_StartSyncWithLeader", copt); err != nil {
		return "", err
	}
	return o.sb.String(), nil
}
