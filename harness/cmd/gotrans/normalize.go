package main

// Normalisation shared by the C16 / C17 generators (own file, nothing else uses it): before anything is printed,
// (1) statements that only log or update metrics are dropped, (2) function-local variables (receiver, parameters,
// results, locals) are renamed to v0, v1, ... in order of first occurrence. An added log line or a renamed local
// therefore leaves the generated file unchanged; everything that matters to the models (field names, constants,
// operators, call names, statement order) is kept.

import (
	"fmt"
	"go/ast"
	"go/token"
	"regexp"
)

var nzMetricRe = regexp.MustCompile(`(?i)(counter|gauge|histogram|summary|status|metric)s?$`)

func nzRootIdent(e ast.Expr) string {
	for {
		switch x := e.(type) {
		case *ast.SelectorExpr:
			e = x.X
		case *ast.CallExpr:
			e = x.Fun
		case *ast.Ident:
			return x.Name
		default:
			return ""
		}
	}
}

func nzLastSelName(e ast.Expr) string {
	if s, ok := e.(*ast.SelectorExpr); ok {
		return s.Sel.Name
	}
	return ""
}

// nzIsNoise: log.Debug/Info/Warn/Error(...) and metric updates (x.WithLabelValues(...).Set/Inc/Add/Observe, xCounter.Inc()).
// log.Fatal / log.Panic change control flow and are kept.
func nzIsNoise(s ast.Stmt) bool {
	es, ok := s.(*ast.ExprStmt)
	if !ok {
		return false
	}
	call, ok := es.X.(*ast.CallExpr)
	if !ok {
		return false
	}
	root := nzRootIdent(call.Fun)
	name := nzLastSelName(call.Fun)
	if root == "log" {
		switch name {
		case "Debug", "Info", "Warn", "Error":
			return true
		}
		return false
	}
	switch name {
	case "Set", "Inc", "Dec", "Add", "Sub", "Observe":
		if nzMetricRe.MatchString(root) {
			return true
		}
		hasLabels := false
		ast.Inspect(call.Fun, func(n ast.Node) bool {
			if c, ok := n.(*ast.SelectorExpr); ok && c.Sel.Name == "WithLabelValues" {
				hasLabels = true
			}
			return true
		})
		return hasLabels
	}
	return false
}

func nzDropNoise(list []ast.Stmt) []ast.Stmt {
	out := list[:0:0]
	for _, s := range list {
		if !nzIsNoise(s) {
			out = append(out, s)
		}
	}
	return out
}

func nzNormalize(fd *ast.FuncDecl) {
	// (1) drop log / metric statements everywhere
	ast.Inspect(fd, func(n ast.Node) bool {
		switch x := n.(type) {
		case *ast.BlockStmt:
			x.List = nzDropNoise(x.List)
		case *ast.CaseClause:
			x.Body = nzDropNoise(x.Body)
		case *ast.CommClause:
			x.Body = nzDropNoise(x.Body)
		}
		return true
	})
	// (2) alpha-rename function-local variables
	names := map[*ast.Object]string{}
	inFunc := func(o *ast.Object) bool {
		if o == nil || o.Kind != ast.Var {
			return false
		}
		n, ok := o.Decl.(ast.Node)
		return ok && n.Pos() >= fd.Pos() && n.End() <= fd.End()
	}
	ast.Inspect(fd, func(n ast.Node) bool {
		if id, ok := n.(*ast.Ident); ok && id.Name != "_" && inFunc(id.Obj) {
			if _, seen := names[id.Obj]; !seen {
				names[id.Obj] = fmt.Sprintf("v%d", len(names))
			}
			id.Name = names[id.Obj]
		}
		return true
	})
}

// nzAllLocals is the Assigns set that reports every assignment to a (renamed) local
func nzAllLocals(extra ...string) map[string]bool {
	m := map[string]bool{}
	for i := 0; i < 200; i++ {
		m[fmt.Sprintf("v%d", i)] = true
	}
	for _, e := range extra {
		m[e] = true
	}
	return m
}

var _ = token.NoPos
