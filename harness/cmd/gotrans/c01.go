package main

import "pdverif/internal/goast"

func init() { gens["C01"] = genC01 }

// C01 and C02 share model/C01_Tso.v and therefore one generated file (Gen_C01.v); checks/C02.json names
// it through "gen_ids".
func genC01(repo string) (string, error) {
	var o out
	ts, err := goast.Load(repo, "server/tso/tso.go")
	if err != nil {
		return "", err
	}
	for _, c := range [][2]string{{"UpdateTimestampGuard", "UpdateTimestampGuard"}, {"maxLogical", "maxLogical"}, {"maxRetryCount", "maxRetryCount"}} {
		if err := o.constZ(ts, c[0], c[1]); err != nil {
			return "", err
		}
	}
	tu, err := goast.Load(repo, "pkg/tsoutil/tso.go")
	if err != nil {
		return "", err
	}
	if err := o.constZ(tu, "physicalShiftBits", "physicalShiftBits"); err != nil {
		return "", err
	}
	if err := o.constZ(tu, "logicalBits", "logicalBits"); err != nil {
		return "", err
	}
	src, err := funcBodySrc(tu, "", "ComposeTS")
	if err != nil {
		return "", err
	}
	o.sb.WriteString("Definition src_ComposeTS : string := " + goast.Q(src) + ".\n")
	cf, err := goast.Load(repo, "server/config/config.go")
	if err != nil {
		return "", err
	}
	for _, c := range []string{"defaultLeaderLease", "defaultTSOSaveInterval", "DefaultTSOUpdatePhysicalInterval", "defaultMaxResetTSGap"} {
		if err := o.constZ(cf, c, c); err != nil {
			return "", err
		}
	}
	opt := goast.SkelOpt{
		Calls:   set("loadTimestamp", "getTSO", "Check", "generateTSO", "LeaderTxn", "Commit", "Store", "Load", "differentiateLogical", "refreshLastSavedTime", "GetValue", "ParseTimestamp", "SubRealTimeByWallClock"),
		Assigns: set("physical", "logical", "save", "next", "saveUncertain"), Conds: true, Branches: true, ArgCalls: set("setTSOPhysical", "saveTimestamp")}
	for _, fn := range []string{"setTSOPhysical", "getTSO", "generateTSO", "saveTimestamp", "refreshLastSavedTime", "SyncTimestamp", "resetUserTimestamp", "UpdateTimestamp", "getTS", "ResetTimestamp"} {
		if err := o.skeleton(ts, "timestampOracle", fn, "skel_"+fn, opt); err != nil {
			return "", err
		}
	}
	// loadTimestamp: ONE read of the whole prefix, maximum over the keys ending in "timestamp"
	if err := o.skeleton(ts, "timestampOracle", "loadTimestamp", "skel_loadTimestamp", goast.SkelOpt{
		Calls: set("HasSuffix", "ParseTimestamp", "SubRealTimeByWallClock"), ArgCalls: set("EtcdKVGet"), Assigns: set("maxTSWindow"), Conds: true, Branches: true}); err != nil {
		return "", err
	}
	// the two time differences every comparison of the oracle goes through: wall-clock nanoseconds / milliseconds
	tm, err := goast.Load(repo, "pkg/typeutil/time.go")
	if err != nil {
		return "", err
	}
	for _, fn := range []string{"SubRealTimeByWallClock", "SubTSOPhysicalByWallClock"} {
		src, err := funcBodySrc(tm, "", fn)
		if err != nil {
			return "", err
		}
		o.sb.WriteString("Definition src_" + fn + " : string := " + goast.Q(src) + ".\n")
	}
	// who names the window key: the oracle alone
	tks, err := goast.LiteralSites(repo, []string{"server", "pkg"}, "", "timestampKey")
	if err != nil {
		return "", err
	}
	o.strList("timestamp_key_sites", tks, "functions / declarations that use the identifier timestampKey")
	eu, err := goast.Load(repo, "pkg/etcdutil/etcdutil.go")
	if err != nil {
		return "", err
	}
	if err := o.skeleton(eu, "", "EtcdKVGet", "skel_EtcdKVGet", goast.SkelOpt{ArgCalls: set("Get"), Conds: true}); err != nil {
		return "", err
	}
	// where the window of an allocator lives (the persisted layout members of different releases must agree on): the
	// Global allocator's below the root path, a Local allocator's below <root>/<dc-location>; a Local allocator is
	// initialised by SyncTimestamp alone
	if psrc, err := funcBodySrc(ts, "timestampOracle", "getTimestampPath"); err != nil {
		return "", err
	} else {
		o.sb.WriteString("Definition src_getTimestampPath : string := " + goast.Q(psrc) + ".\n")
	}
	am0, err := goast.Load(repo, "server/tso/allocator_manager.go")
	if err != nil {
		return "", err
	}
	if psrc, err := funcBodySrc(am0, "AllocatorManager", "getAllocatorPath"); err != nil {
		return "", err
	} else {
		o.sb.WriteString("Definition src_getAllocatorPath : string := " + goast.Q(psrc) + ".\n")
	}
	la0, err := goast.Load(repo, "server/tso/local_allocator.go")
	if err != nil {
		return "", err
	}
	if err := o.skeleton(la0, "LocalTSOAllocator", "Initialize", "skel_lta_Initialize", goast.SkelOpt{Calls: set("SyncTimestamp", "GetValue", "Commit", "LeaderTxn"), Assigns: set("suffix"), Conds: true}); err != nil {
		return "", err
	}
	am, err := goast.Load(repo, "server/tso/allocator_manager.go")
	if err != nil {
		return "", err
	}
	aopt := goast.SkelOpt{Calls: set("Check", "UpdateTSO", "ResetAllocatorGroup", "Reset", "getAllocatorGroups", "FilterUninitialized", "FilterUnavailableLeadership", "updateAllocator", "Wait"), Conds: true}
	for _, fn := range []string{"updateAllocator", "allocatorUpdater", "ResetAllocatorGroup"} {
		if err := o.skeleton(am, "AllocatorManager", fn, "skel_"+fn, aopt); err != nil {
			return "", err
		}
	}
	ga, err := goast.Load(repo, "server/tso/global_allocator.go")
	if err != nil {
		return "", err
	}
	gopt := goast.SkelOpt{Calls: set("SyncTimestamp", "UpdateTimestamp", "resetUserTimestamp", "ResetTimestamp", "getTS", "Check"), Conds: true}
	for _, fn := range []string{"Initialize", "UpdateTSO", "SetTSO", "Reset"} {
		if err := o.skeleton(ga, "GlobalTSOAllocator", fn, "skel_gta_"+fn, gopt); err != nil {
			return "", err
		}
	}
	sv, err := goast.Load(repo, "server/server.go")
	if err != nil {
		return "", err
	}
	if err := o.skeleton(sv, "Server", "campaignLeader", "skel_campaignLeader",
		goast.SkelOpt{Calls: set("CampaignLeader", "KeepLeader", "ResetLeader", "Initialize", "ResetAllocatorGroup", "EnableLeader", "IsLeader", "Rebase", "RefreshClusterDCLocations", "ClusterDCLocationChecker")}); err != nil {
		return "", err
	}
	// the RPC layer: the Tso stream handler (one answer per request, from the allocator manager or from the member the
	// stream is forwarded to; what it asks the allocator for is what it says it was given)
	gs, err := goast.Load(repo, "server/grpc_service.go")
	if err != nil {
		return "", err
	}
	if err := o.skeleton(gs, "Server", "Tso", "skel_handler_Tso", goast.SkelOpt{
		Calls:    set("Recv", "Send", "isLocalRequest", "getDelegateClient", "createTsoForwardStream", "GetCount", "IsClosed"),
		ArgCalls: set("HandleTSORequest"), Assigns: set("count", "forwardStream", "lastForwardedHost", "response", "resp", "request", "ts"),
		Conds: true, Branches: true, Decls: true}); err != nil {
		return "", err
	}
	src, err = funcBodySrc(gs, "Server", "createTsoForwardStream")
	if err != nil {
		return "", err
	}
	o.sb.WriteString("Definition src_createTsoForwardStream : string := (* server/grpc_service.go *)\n  " + goast.Q(src) + ".\n")
	// the client library: how a response (count n, highest value) becomes the n values handed to the n waiting callers
	cl, err := goast.Load(repo, "client/client.go")
	if err != nil {
		return "", err
	}
	for _, fn := range []string{"addLogical"} {
		src, err = funcBodySrc(cl, "", fn)
		if err != nil {
			return "", err
		}
		o.sb.WriteString("Definition src_client_" + fn + " : string := (* client/client.go *)\n  " + goast.Q(src) + ".\n")
	}
	if err := o.skeleton(cl, "client", "processTSORequests", "skel_client_processTSORequests", goast.SkelOpt{
		Calls:    set("Send", "Recv", "GetCount"),
		ArgCalls: set("finishTSORequest", "compareAndSwapTS", "addLogical"),
		Assigns:  set("count", "req", "firstLogical", "physical", "logical", "suffixBits", "requests"),
		Conds:    true, Branches: true}); err != nil {
		return "", err
	}
	src, err = funcBodySrc(cl, "client", "finishTSORequest")
	if err != nil {
		return "", err
	}
	o.sb.WriteString("Definition src_client_finishTSORequest : string := (* client/client.go *)\n  " + goast.Q(src) + ".\n")
	return o.sb.String(), nil
}
