package main

import (
	"strings"

	"pdverif/internal/goast"
)

func init() { gens["C05"] = genC05 }

func genC05(repo string) (string, error) {
	var o out
	ts, err := goast.Load(repo, "server/tso/tso.go")
	if err != nil {
		return "", err
	}
	if err := o.constZ(ts, "maxLogical", "maxLogical"); err != nil {
		return "", err
	}
	if err := o.constZ(ts, "MaxSuffixBits", "MaxSuffixBits"); err != nil {
		return "", err
	}
	src, err := funcBodySrc(ts, "timestampOracle", "differentiateLogical")
	if err != nil {
		return "", err
	}
	o.sb.WriteString("Definition src_differentiateLogical : string := " + goast.Q(src) + ".\n")
	ga, err := goast.Load(repo, "server/tso/global_allocator.go")
	if err != nil {
		return "", err
	}
	if err := o.constZ(ga, "syncMaxRetryCount", "syncMaxRetryCount"); err != nil {
		return "", err
	}
	gopt := goast.SkelOpt{
		Calls: set("Check", "GetClusterDCLocations", "getTS", "estimateMaxTS", "SyncMaxTS", "CompareTimestamp", "precheckLogical",
			"getCurrentTSO", "resetUserTimestamp", "differentiateLogical", "generateTSO", "checkSyncedDCs", "ClusterDCLocationChecker", "Wait"),
		Assigns: set("Logical", "Physical", "skipCheck", "estimatedMaxTSO", "maxTSO", "dcLocationMap"), Conds: true, Branches: true, Decls: true, ArgCalls: set("getTS")}
	for _, fn := range []string{"GenerateTSO", "estimateMaxTS", "SyncMaxTS", "precheckLogical"} {
		if err := o.skeleton(ga, "GlobalTSOAllocator", fn, "skel_gta_"+fn, gopt); err != nil {
			return "", err
		}
	}
	gs, err := goast.Load(repo, "server/grpc_service.go")
	if err != nil {
		return "", err
	}
	if err := o.skeleton(gs, "Server", "SyncMaxTS", "skel_handler_SyncMaxTS", goast.SkelOpt{
		Calls:   set("GetHoldingLocalAllocatorLeaders", "IsAllocatorLeader", "GetCurrentTSO", "CompareTimestamp", "WriteTSO", "GetSkipCheck"),
		Assigns: set("Logical", "maxLocalTS"), Conds: true, Branches: true}); err != nil {
		return "", err
	}
	la, err := goast.Load(repo, "server/tso/local_allocator.go")
	if err != nil {
		return "", err
	}
	lopt := goast.SkelOpt{Calls: set("GetCurrentTSO", "CompareTimestamp", "resetUserTimestamp", "getTS", "Check", "GetSuffixBits"), Conds: true, Returns: true}
	for _, fn := range []string{"WriteTSO", "GenerateTSO"} {
		if err := o.skeleton(la, "LocalTSOAllocator", fn, "skel_lta_"+fn, lopt); err != nil {
			return "", err
		}
	}
	am, err := goast.Load(repo, "server/tso/allocator_manager.go")
	if err != nil {
		return "", err
	}
	src, err = funcBodySrc(am, "", "CalSuffixBits")
	if err != nil {
		return "", err
	}
	o.sb.WriteString("Definition src_CalSuffixBits : string := " + goast.Q(src) + ".\n")
	if err := o.skeleton(am, "AllocatorManager", "getOrCreateLocalTSOSuffix", "skel_getOrCreateLocalTSOSuffix",
		goast.SkelOpt{Calls: set("getDCLocationSuffixMapFromEtcd", "Commit"), Assigns: set("maxSuffix"), Conds: true}); err != nil {
		return "", err
	}
	fd, err := am.Func("AllocatorManager", "getOrCreateLocalTSOSuffix")
	if err != nil {
		return "", err
	}
	o.strList("cmps_getOrCreateLocalTSOSuffix", am.Compares(fd), "comparison of the suffix creation txn")
	// joins, moves, suffix width (model/C05_Join.v)
	jopt := goast.SkelOpt{
		Calls: set("GetClusterDCLocations", "getAllocatorGroup", "GetAllocatorLeader", "GetAllocator", "SyncMaxTS", "getCurrentTSO", "CompareTimestamp", "delete",
			"Initialize", "WriteTSO", "compareAndSetMaxSuffix", "EnableAllocatorLeader", "CampaignAllocatorLeader",
			"GetClusterDCLocationsFromEtcd", "IsLeader", "getOrCreateLocalTSOSuffix", "getMaxLocalTSOSuffix"),
		Assigns: set("maxTSO", "maxSuffix", "Suffix"), Conds: true, Branches: true}
	jopt.Calls["checkClusterDCLocations"] = true
	for _, fn := range []string{"GetMaxLocalTSO", "campaignAllocatorLeader", "ClusterDCLocationChecker", "RefreshClusterDCLocations", "checkClusterDCLocations", "compareAndSetMaxSuffix", "GetSuffixBits"} {
		if err := o.skeleton(am, "AllocatorManager", fn, "skel_am_"+fn, jopt); err != nil {
			return "", err
		}
	}
	// the election loop of a Local TSO Allocator: a live leader record of another member is WATCHED (never deleted or
	// campaigned over), the next-leader key only decides who may campaign once there is no leader
	elopt := goast.SkelOpt{Calls: set("CheckAllocatorLeader", "WatchAllocatorLeader", "getNextLeaderID", "getDCLocationInfoFromLeader", "campaignAllocatorLeader", "DeleteLeaderKey", "Campaign", "longSleep"), Conds: true, Branches: true}
	if err := o.skeleton(am, "AllocatorManager", "allocatorLeaderLoop", "skel_am_allocatorLeaderLoop", elopt); err != nil {
		return "", err
	}
	// a dc-location that loses its members: the allocator group is dropped in memory, nothing is removed from etcd
	popt := goast.SkelOpt{Calls: set("SetUpAllocator", "deleteAllocatorGroup", "Reset", "cancel", "delete", "Commit", "LeaderTxn", "Delete", "OpDelete", "NewSlowLogTxn"), Conds: true, Branches: true}
	for _, fn := range []string{"allocatorPatroller", "deleteAllocatorGroup"} {
		if err := o.skeleton(am, "AllocatorManager", fn, "skel_am_"+fn, popt); err != nil {
			return "", err
		}
	}
	if err := o.skeleton(gs, "Server", "GetDCLocationInfo", "skel_handler_GetDCLocationInfo", goast.SkelOpt{
		Calls: set("IsLeader", "GetDCLocationInfo", "ClusterDCLocationChecker", "GetMaxLocalTSO"), Assigns: set("MaxTs", "Suffix"), Conds: true, Branches: true}); err != nil {
		return "", err
	}
	// the comparison every step of the protocol decides with: lexicographic on (physical, logical) as they are, not on a
	// composed 64-bit value (an in-memory logical part may exceed 18 bits between an overflowing request and the next tick)
	tu, err := goast.Load(repo, "pkg/tsoutil/tso.go")
	if err != nil {
		return "", err
	}
	if csrc, err := funcBodySrc(tu, "", "CompareTimestamp"); err != nil {
		return "", err
	} else {
		o.sb.WriteString("Definition src_CompareTimestamp : string := " + goast.Q(csrc) + ".\n")
	}
	cl, err := goast.Load(repo, "client/client.go")
	if err != nil {
		return "", err
	}
	src, err = funcBodySrc(cl, "", "addLogical")
	if err != nil {
		return "", err
	}
	o.sb.WriteString("Definition src_addLogical : string := " + goast.Q(src) + ".\n")
	fd2, err := cl.Func("client", "processTSORequests")
	if err != nil {
		return "", err
	}
	var firsts []string
	for _, line := range []string{"firstLogical := addLogical(logical, -count+1, suffixBits)"} {
		if strings.Contains(cl.Src(fd2.Body), line) {
			firsts = append(firsts, line)
		}
	}
	o.strList("client_first_logical", firsts, "how the client derives the first value of a batch")
	return o.sb.String(), nil
}
